(* Proofs/GSLineZ.v -- the line smoother along z (Gen/CoreGS.v [gauss_seidel_z],
   regenerated from emg3d/core.py) relaxes the SAME linear system as the operator
   of C02 (Model/FIT.v).  Port of Proofs/GSLineX.v with the indices permuted; the
   kernel-independent parts (blocks_to_amat branches, layout induction, matrix
   independence, unrolled banded product, rewriting tactics) come from
   Proofs/GSLineX.v and Proofs/GSLineCommon.v.

   Line (ix, iy) fixed, n = 5 nz - 4 unknowns; unknown 5a+r <-> edge:
     r=0: ez[ix,iy,a] (0 <= a < nz);  r=1: ex[ix-1,iy,a+1]  r=2: ex[ix,iy,a+1]  r=3: ey[ix,iy-1,a+1]  r=4: ey[ix,iy,a+1]
     (r = 1..4 only for a < nz-1);  e[x] = (lxZ x, lyZ x, lzZ x).
   The generated kernel keeps its field state in the order (ez, ex, ey).

   PROVED (closed under the global context; hypotheses: field, h <> 0, 1+1 <> 0,
   2 <= nz, the two fixed indices >= 1, PECz = the eight tangential values
   ex[ix-1|ix, iy, 0|nz], ey[ix, iy-1|iy, 0|nz] are zero -- dropped by the kernel):
   gsz_system_layout, gsz_sys_is_call1, gsz_row_consistent (rows 0..4, position cases
   first / middle / next-to-last / last, 22 field identities), gsz_line_consistent,
   gsz_L3_step, gsz_wb_spec, gsz_line_exact, gsz_line_exact_out, gsz_line_fixed_point,
   gsz_line_frame, gsz_matrix_indep, sweepsz_inv, gauss_seidel_z_fixed_point,
   gauss_seidel_z_frame (every nu, every shape), gsz_hyps_example (non-vacuity on a
   concrete rational instance, vm_compute).
   MISSING: affinity and "last line exact" at whole-sweep level. *)
From Coq Require Import ZArith Lia Bool Field List.
From V Require Import Base.Loops Base.Arr Base.FieldSig Base.Tactics.
From V Require Import Gen.CoreBand Gen.CoreGS Model.FIT Proofs.BandSums Proofs.BandLDL.
From V Require Import Proofs.GSBlock Proofs.GSLineX Proofs.GSLineCommon.
Import ListNotations.
Local Open Scope Z_scope.

Section GSLineZ.
  Context {F : Type} {O : FOps F}.
  Hypothesis Fth : field_theory F0 F1 Fadd Fmul Fsub Fopp Fdiv Finv (@eq F).
  Hypothesis two_nz : (1 + 1)%F <> 0%F.
  Add Field Fgsz : Fth.

  Variables (ex ey ez sx sy sz eta_x eta_y eta_z zeta : Z -> Z -> Z -> F).
  Variables (hx hy hz : Z -> F).
  Hypothesis hx_nz : forall i, hx i <> 0%F.
  Hypothesis hy_nz : forall i, hy i <> 0%F.
  Hypothesis hz_nz : forall i, hz i <> 0%F.
  Variables (nu lhx nx lhy ny lhz nz : Z).
  Variables (ix iy : Z).       (* the line *)

  (* the straight-line part of one step of the izh loop, block a = izm = izh-1 *)
  Definition gsz_blk (a : Z) (st : @St4 F) :=
    gauss_seidel_z_L4_call1 ex ey ez sx sy sz eta_x eta_y eta_z zeta hx hy hz nu lhx nx lhy ny lhz nz
      (kof hx) (kof hy) (kof hz) 0 0 0 0 iy (iy-1) (iy+1) 0 ix (ix-1) (ix+1) (a+1) st.
  Definition gsz_L4 (a : Z) (st : @St4 F) : @St4 F :=
    gauss_seidel_z_L4 ex ey ez sx sy sz eta_x eta_y eta_z zeta hx hy hz nu lhx nx lhy ny lhz nz
      (kof hx) (kof hy) (kof hz) 0 0 0 0 iy (iy-1) (iy+1) 0 ix (ix-1) (ix+1) (a+1) st.

  Lemma gsz_L4_step a st :
    gsz_L4 a st =
    let r := gsz_blk a st in
    let t := blocks_to_amat (blkA r) (blkB r) (blkM r) (blkL r) (blkR r) (a + 1 - 1) nz in
    (blkM r, blkL r, fst t, snd t).
  Proof.
    cbv delta [gsz_L4 gauss_seidel_z_L4 gsz_blk gauss_seidel_z_L4_call1 blkM blkL blkR blkA blkB].
    cbv beta. reflexivity.
  Qed.

  Lemma gsz_blk_AB a st : blkA (gsz_blk a st) = snd (fst st) /\ blkB (gsz_blk a st) = snd st.
  Proof.
    cbv delta [gsz_blk gauss_seidel_z_L4_call1 blkA blkB]. cbv beta. split; reflexivity.
  Qed.

  (* ---- canonical blocks: the step started from zeroed middle / left ------ *)
  Definition cMz (a idx : Z) : F := blkM (gsz_blk a st0) idx.
  Definition cLz (a idx : Z) : F := blkL (gsz_blk a st0) idx.
  Definition cRz (a k : Z) : F := blkR (gsz_blk a st0) k.

  Ltac blk_eval :=
    match goal with
    | |- ?G =>
        let G' := eval cbv beta iota zeta delta
                    [cMz cLz cRz st0 blkM blkL blkR gsz_blk gauss_seidel_z_L4_call1
                     upd1 upd1f upd3f fill1 arr_of_list nth Z.to_nat Pos.to_nat Pos.iter_op
                     Nat.add Z.eqb Pos.eqb Z.ltb Z.compare Pos.compare
                     Pos.compare_cont negb fst snd kof] in G in
        cut G'; [ let H := fresh "H" in intro H; vm_cast_no_check H | ]
    end.

  Lemma blk_canon_Mz a m0 l0 a0 b0 idx : ZeroML m0 l0 -> In idx usedM ->
    blkM (gsz_blk a (m0, l0, a0, b0)) idx = cMz a idx.
  Proof.
    intros (Z7 & Z19 & _) H. unfold usedM in H. cbn [In] in H.
    repeat (destruct H as [H|H]; [subst idx; blk_eval; first [reflexivity|assumption]|]).
    contradiction.
  Qed.

  Lemma blk_canon_Lz a m0 l0 a0 b0 idx : ZeroML m0 l0 -> In idx usedL ->
    blkL (gsz_blk a (m0, l0, a0, b0)) idx = cLz a idx.
  Proof.
    intros (_ & _ & Z11 & Z16 & Z17 & Z21 & Z22 & Z23) H. unfold usedL in H. cbn [In] in H.
    repeat (destruct H as [H|H]; [subst idx; blk_eval; first [reflexivity|assumption]|]).
    contradiction.
  Qed.

  Lemma blk_canon_Rz a st k : blkR (gsz_blk a st) k = cRz a k.
  Proof.
    cbv delta [cRz blkR gsz_blk gauss_seidel_z_L4_call1]. cbv beta. reflexivity.
  Qed.

  Lemma blk_zero_z a m0 l0 a0 b0 : ZeroML m0 l0 ->
    ZeroML (blkM (gsz_blk a (m0, l0, a0, b0))) (blkL (gsz_blk a (m0, l0, a0, b0))).
  Proof.
    intros (Z7 & Z19 & Z11 & Z16 & Z17 & Z21 & Z22 & Z23). unfold ZeroML.
    repeat split; blk_eval; assumption.
  Qed.

  (* ---- the izh loop of one line and the system handed to the solver ------- *)
  Definition gsz_loop : @St4 F := loopG nz gsz_L4.
  Definition gsz_sys : (Z -> F) * (Z -> F) := (snd (fst gsz_loop), snd gsz_loop).
  Notation LayZ := (LayG nz cMz cLz cRz).

  Theorem gsz_system_layout : 2 <= nz -> LayZ nz (fst gsz_sys) (snd gsz_sys).
  Proof.
    intros Hn. unfold gsz_sys, gsz_loop. cbn [fst snd].
    exact (layout_gen nz cMz cLz cRz gsz_blk gsz_L4 gsz_L4_step gsz_blk_AB blk_canon_Mz
             blk_canon_Lz blk_canon_Rz blk_zero_z Hn).
  Qed.

  (* tie to the generated call-site definition: the arguments handed to [solve] *)
  Lemma L4_as_blk_z iback nr it iyh ixh izh st :
    gauss_seidel_z_L4 ex ey ez sx sy sz eta_x eta_y eta_z zeta hx hy hz nu lhx nx lhy ny lhz nz
      (kof hx) (kof hy) (kof hz) iback nr it iyh iy (iy-1) (iy+1) ixh ix (ix-1) (ix+1) izh st
    = gsz_L4 (izh - 1) st.
  Proof.
    unfold gsz_L4. replace (izh - 1 + 1) with izh by lia.
    cbv delta [gauss_seidel_z_L4]. cbv beta. reflexivity.
  Qed.

  (* NB the generated z kernel keeps its field state in the order (ez, ex, ey) *)
  Lemma gsz_sys_is_call1 iback nr it iyh ixh (st7 : @St7 F) :
    node iback nx ixh = ix ->
    snd (fst (fst st7)) = ez -> snd (fst st7) = ex -> snd st7 = ey ->
    gauss_seidel_z_L3_call1 sx sy sz eta_x eta_y eta_z zeta hx hy hz nu lhx nx lhy ny lhz nz
      (kof hx) (kof hy) (kof hz) iback nr it iyh iy (iy-1) (iy+1) ixh st7 = gsz_sys.
  Proof.
    intros Hn Hz Hx Hy.
    cbv delta [gauss_seidel_z_L3_call1]. cbv beta. cbv zeta.
    change (if negb (iback =? 0) then nx - ixh else ixh) with (node iback nx ixh).
    rewrite Hn, Hx, Hy, Hz. unfold gsz_sys, gsz_loop, loopG.
    rewrite (Zfold_ext 1 (nz + 1) _ (fun h st => gsz_L4 (h - 1) st)); [reflexivity|].
    intros i s _. apply L4_as_blk_z.
  Qed.
  (* ---- the field with the line's unknowns replaced by a vector x ---------- *)
  (* unknown 5*k       <-> ez[ix,iy,k]           (0 <= k < nz)
     unknown 5*(k-1)+1 <-> ex[ix-1,iy,k]         (1 <= k < nz)
     unknown 5*(k-1)+2 <-> ex[ix,iy,k]
     unknown 5*(k-1)+3 <-> ey[ix,iy-1,k]
     unknown 5*(k-1)+4 <-> ey[ix,iy,k] *)
  Definition lzZ (x : Z -> F) : Z -> Z -> Z -> F := fun i j k =>
    if (i =? ix) && (j =? iy) && (0 <=? k) && (k <? nz) then x (5*k) else ez i j k.
  Definition lxZ (x : Z -> F) : Z -> Z -> Z -> F := fun i j k =>
    if (j =? iy) && (1 <=? k) && (k <? nz) then
      (if i =? ix - 1 then x (5*(k-1)+1) else if i =? ix then x (5*(k-1)+2) else ex i j k)
    else ex i j k.
  Definition lyZ (x : Z -> F) : Z -> Z -> Z -> F := fun i j k =>
    if (i =? ix) && (1 <=? k) && (k <? nz) then
      (if j =? iy - 1 then x (5*(k-1)+3) else if j =? iy then x (5*(k-1)+4) else ey i j k)
    else ey i j k.

  Lemma lzZ_in x i j k : i = ix -> j = iy -> 0 <= k < nz -> lzZ x i j k = x (5*k).
  Proof.
    intros -> -> H. unfold lzZ. rewrite !Z.eqb_refl.
    zb_true (0 <=? k). zb_true (k <? nz). reflexivity.
  Qed.
  Lemma lzZ_out x i j k : (i <> ix \/ j <> iy) -> lzZ x i j k = ez i j k.
  Proof.
    intros H. unfold lzZ. destruct (Z.eqb_spec i ix), (Z.eqb_spec j iy); cbn [andb]; try reflexivity; lia.
  Qed.
  Lemma lxZ_in1 x i j k : i = ix - 1 -> j = iy -> 1 <= k < nz -> lxZ x i j k = x (5*(k-1)+1).
  Proof.
    intros -> -> H. unfold lxZ. rewrite !Z.eqb_refl.
    zb_true (1 <=? k). zb_true (k <? nz). reflexivity.
  Qed.
  Lemma lxZ_in2 x i j k : i = ix -> j = iy -> 1 <= k < nz -> lxZ x i j k = x (5*(k-1)+2).
  Proof.
    intros -> -> H. unfold lxZ. rewrite !Z.eqb_refl.
    zb_true (1 <=? k). zb_true (k <? nz). zb_false (ix =? ix - 1). reflexivity.
  Qed.
  Lemma lxZ_out x i j k : (j <> iy \/ (i <> ix - 1 /\ i <> ix) \/ k <= 0 \/ nz <= k) ->
    lxZ x i j k = ex i j k.
  Proof.
    intros H. unfold lxZ.
    destruct (Z.eqb_spec j iy), (Z.leb_spec 1 k), (Z.ltb_spec k nz), (Z.eqb_spec i (ix-1)),
      (Z.eqb_spec i ix); cbn [andb]; try reflexivity; lia.
  Qed.
  Lemma lyZ_in1 x i j k : i = ix -> j = iy - 1 -> 1 <= k < nz -> lyZ x i j k = x (5*(k-1)+3).
  Proof.
    intros -> -> H. unfold lyZ. rewrite !Z.eqb_refl.
    zb_true (1 <=? k). zb_true (k <? nz). reflexivity.
  Qed.
  Lemma lyZ_in2 x i j k : i = ix -> j = iy -> 1 <= k < nz -> lyZ x i j k = x (5*(k-1)+4).
  Proof.
    intros -> -> H. unfold lyZ. rewrite !Z.eqb_refl.
    zb_true (1 <=? k). zb_true (k <? nz). zb_false (iy =? iy - 1). reflexivity.
  Qed.
  Lemma lyZ_out x i j k : (i <> ix \/ (j <> iy - 1 /\ j <> iy) \/ k <= 0 \/ nz <= k) ->
    lyZ x i j k = ey i j k.
  Proof.
    intros H. unfold lyZ.
    destruct (Z.eqb_spec i ix), (Z.leb_spec 1 k), (Z.ltb_spec k nz), (Z.eqb_spec j (iy-1)),
      (Z.eqb_spec j iy); cbn [andb]; try reflexivity; lia.
  Qed.

  (* ---- row consistency ---------------------------------------------------- *)
  Section Rows.
    Variables (A b : Z -> F).
    Hypothesis HLay : LayZ nz A b.
    Hypothesis Hnz : 2 <= nz.
    Hypothesis Hix : 1 <= ix.
    Hypothesis Hiy : 1 <= iy.
    (* PEC: the tangential boundary values at both z-ends of the line, which the
       kernel drops from the system ("assumed to be zero") *)
    Hypothesis pec_x0m : ex (ix-1) iy 0 = 0%F.
    Hypothesis pec_x0  : ex ix iy 0 = 0%F.
    Hypothesis pec_y0m : ey ix (iy-1) 0 = 0%F.
    Hypothesis pec_y0  : ey ix iy 0 = 0%F.
    Hypothesis pec_xNm : ex (ix-1) iy nz = 0%F.
    Hypothesis pec_xN  : ex ix iy nz = 0%F.
    Hypothesis pec_yNm : ey ix (iy-1) nz = 0%F.
    Hypothesis pec_yN  : ey ix iy nz = 0%F.

    Lemma pec_xZ i k : (k = 0 \/ k = nz) -> (i = ix - 1 \/ i = ix) -> ex i iy k = 0%F.
    Proof. intros [->| ->] [->| ->]; assumption. Qed.
    Lemma pec_yZ j k : (k = 0 \/ k = nz) -> (j = iy - 1 \/ j = iy) -> ey ix j k = 0%F.
    Proof. intros [->| ->] [->| ->]; assumption. Qed.

    Ltac reads :=
      repeat first
        [ rewrite lzZ_in by lia | rewrite lzZ_out by lia
        | rewrite lxZ_in1 by lia | rewrite lxZ_in2 by lia | rewrite lxZ_out by lia
        | rewrite lyZ_in1 by lia | rewrite lyZ_in2 by lia | rewrite lyZ_out by lia ].

    Ltac pecs :=
      repeat match goal with
      | |- context [ex ?i iy ?k] => rewrite (pec_xZ i k) by lia
      | |- context [ey ix ?j ?k] => rewrite (pec_yZ j k) by lia
      end.

    Ltac spec_eval x :=
      unfold A_x, A_y, A_z, curlT_x, curlT_y, curlT_z, u_x, u_y, u_z, Mf_x, Mf_y, Mf_z,
        Me_x, Me_y, Me_z, curl_x, curl_y, curl_z, pm;
      repeat match goal with
      | |- context [?a =? 0] => zb_false (a =? 0)
      end;
      cbn [orb]; zmax_norm; idx_norm; reads; pecs; xnorm x; flit.

    Ltac side := first [ exact two_nz | apply (four_nz Fth two_nz) | apply (one_nz Fth)
                       | apply hx_nz | apply hy_nz | apply hz_nz ].

    Ltac row x a r :=
      first [exfalso; lia | idtac];
      rewrite (bandmul_unroll Fth (5*nz-4) A x (5*a+r)); gd_res; lay_rw HLay a r;
      blk_eval; spec_eval x; field; repeat split; side.

    Notation FX x := (lxZ x). Notation FY x := (lyZ x). Notation FZ x := (lzZ x).

    Lemma gsz_row0 x a : 0 <= a < nz ->
      Fsub (bandmul (5*nz-4) A x (5*a+0)) (b (5*a+0))
      = Fsub (A_z (FX x) (FY x) (FZ x) eta_z zeta hx hy hz ix iy a) (sz ix iy a).
    Proof.
      intros Ha.
      assert (C1 : a = 0 \/ 1 <= a) by lia.
      assert (C2 : a = nz - 1 \/ a + 1 = nz - 1 \/ a + 1 < nz - 1) by lia.
      destruct C1 as [C1|C1], C2 as [C2|[C2|C2]]; row x a 0.
    Qed.
    Lemma gsz_row1 x a : 0 <= a < nz - 1 ->
      Fsub (bandmul (5*nz-4) A x (5*a+1)) (b (5*a+1))
      = Fsub (A_x (FX x) (FY x) (FZ x) eta_x zeta hx hy hz (ix-1) iy (a+1)) (sx (ix-1) iy (a+1)).
    Proof.
      intros Ha.
      assert (C1 : a = 0 \/ 1 <= a) by lia.
      assert (C2 : a + 1 = nz - 1 \/ a + 1 < nz - 1) by lia.
      destruct C1 as [C1|C1], C2 as [C2|C2]; row x a 1.
    Qed.
    Lemma gsz_row2 x a : 0 <= a < nz - 1 ->
      Fsub (bandmul (5*nz-4) A x (5*a+2)) (b (5*a+2))
      = Fsub (A_x (FX x) (FY x) (FZ x) eta_x zeta hx hy hz ix iy (a+1)) (sx ix iy (a+1)).
    Proof.
      intros Ha.
      assert (C1 : a = 0 \/ 1 <= a) by lia.
      assert (C2 : a + 1 = nz - 1 \/ a + 1 < nz - 1) by lia.
      destruct C1 as [C1|C1], C2 as [C2|C2]; row x a 2.
    Qed.
    Lemma gsz_row3 x a : 0 <= a < nz - 1 ->
      Fsub (bandmul (5*nz-4) A x (5*a+3)) (b (5*a+3))
      = Fsub (A_y (FX x) (FY x) (FZ x) eta_y zeta hx hy hz ix (iy-1) (a+1)) (sy ix (iy-1) (a+1)).
    Proof.
      intros Ha.
      assert (C1 : a = 0 \/ 1 <= a) by lia.
      assert (C2 : a + 1 = nz - 1 \/ a + 1 < nz - 1) by lia.
      destruct C1 as [C1|C1], C2 as [C2|C2]; row x a 3.
    Qed.
    Lemma gsz_row4 x a : 0 <= a < nz - 1 ->
      Fsub (bandmul (5*nz-4) A x (5*a+4)) (b (5*a+4))
      = Fsub (A_y (FX x) (FY x) (FZ x) eta_y zeta hx hy hz ix iy (a+1)) (sy ix iy (a+1)).
    Proof.
      intros Ha.
      assert (C1 : a = 0 \/ 1 <= a) by lia.
      assert (C2 : a + 1 = nz - 1 \/ a + 1 < nz - 1) by lia.
      destruct C1 as [C1|C1], C2 as [C2|C2]; row x a 4.
    Qed.
    (* (A e[x] - s) on the edge of unknown 5*a + r *)
    Definition line_resZ (x : Z -> F) (a r : Z) : F :=
      let fx := lxZ x in let fy := lyZ x in let fz := lzZ x in
      if r =? 0 then Fsub (A_z fx fy fz eta_z zeta hx hy hz ix iy a) (sz ix iy a)
      else if r =? 1 then Fsub (A_x fx fy fz eta_x zeta hx hy hz (ix-1) iy (a+1)) (sx (ix-1) iy (a+1))
      else if r =? 2 then Fsub (A_x fx fy fz eta_x zeta hx hy hz ix iy (a+1)) (sx ix iy (a+1))
      else if r =? 3 then Fsub (A_y fx fy fz eta_y zeta hx hy hz ix (iy-1) (a+1)) (sy ix (iy-1) (a+1))
      else Fsub (A_y fx fy fz eta_y zeta hx hy hz ix iy (a+1)) (sy ix iy (a+1)).

    Theorem gsz_row_consistent x a r : 0 <= a < nz -> 0 <= r < 5 -> (a = nz - 1 -> r = 0) ->
      Fsub (bandmul (5*nz-4) A x (5*a+r)) (b (5*a+r)) = line_resZ x a r.
    Proof.
      intros Ha Hr Hl. unfold line_resZ. cbv zeta.
      assert (a < nz - 1 \/ r = 0) by lia.
      destruct (r_cases r Hr) as [E|[E|[E|[E|E]]]]; subst r; cbn [Z.eqb Pos.eqb].
      - now apply gsz_row0.
      - apply gsz_row1; lia.
      - apply gsz_row2; lia.
      - apply gsz_row3; lia.
      - apply gsz_row4; lia.
    Qed.

    Theorem gsz_rows_consistent x i : 0 <= i < 5*nz-4 ->
      Fsub (bandmul (5*nz-4) A x i) (b i) = line_resZ x (i / 5) (i mod 5).
    Proof.
      intros Hi. pose proof (Z.div_mod i 5 ltac:(lia)) as E.
      pose proof (Z.mod_pos_bound i 5 ltac:(lia)) as Hm.
      rewrite <- (gsz_row_consistent x (i/5) (i mod 5)); [|lia|lia|lia].
      now rewrite <- E.
    Qed.
  End Rows.

  (* ---- the system of one line is the residual system ---------------------- *)
  Definition PECz : Prop :=
    ex (ix-1) iy 0 = 0%F /\ ex ix iy 0 = 0%F /\ ey ix (iy-1) 0 = 0%F /\ ey ix iy 0 = 0%F /\
    ex (ix-1) iy nz = 0%F /\ ex ix iy nz = 0%F /\ ey ix (iy-1) nz = 0%F /\ ey ix iy nz = 0%F.

  Theorem gsz_line_consistent : 2 <= nz -> 1 <= ix -> 1 <= iy -> PECz ->
    forall x i, 0 <= i < 5*nz-4 ->
      Fsub (bandmul (5*nz-4) (fst gsz_sys) x i) (snd gsz_sys i) = line_resZ x (i / 5) (i mod 5).
  Proof.
    intros Hn Hx Hy (P1 & P2 & P3 & P4 & P5 & P6 & P7 & P8) x i Hi.
    exact (gsz_rows_consistent (fst gsz_sys) (snd gsz_sys) (gsz_system_layout Hn) Hn Hx Hy
             P1 P2 P3 P4 P5 P6 P7 P8 x i Hi).
  Qed.

  (* ---- write-back (kernel state order: ez, ex, ey) ------------------------- *)
  Definition wb_stepZ (bv : Z -> F) (iz : Z) (st : @Fld F) : @Fld F :=
    gauss_seidel_z_L5 sx sy sz eta_x eta_y eta_z zeta hx hy hz nu lhx nx lhy ny lhz nz
      (kof hx) (kof hy) (kof hz) 0 (fill1 0%F) (fill1 0%F) 0 bv (fill1 0%F) 0 0 iy (iy-1) (iy+1)
      0 ix (ix-1) (ix+1) iz st.
  Definition gsz_wb (bv : Z -> F) : @Fld F :=
    Zfold 1 (nz + 1) (fun iz st => wb_stepZ bv iz st) (ez, ex, ey).

  Lemma L5_as_wbZ iback m l nr bv am it iyh ixh iz st :
    gauss_seidel_z_L5 sx sy sz eta_x eta_y eta_z zeta hx hy hz nu lhx nx lhy ny lhz nz
      (kof hx) (kof hy) (kof hz) iback m l nr bv am it iyh iy (iy-1) (iy+1) ixh ix (ix-1) (ix+1) iz st
    = wb_stepZ bv iz st.
  Proof. reflexivity. Qed.

  (* one (ixh) step of the kernel = assemble the line system, solve, write back *)
  Lemma gsz_L3_step iback nr it iyh ixh (st7 : @St7 F) :
    node iback nx ixh = ix -> flds st7 = (ez, ex, ey) ->
    flds (gauss_seidel_z_L3 sx sy sz eta_x eta_y eta_z zeta hx hy hz nu lhx nx lhy ny lhz nz
            (kof hx) (kof hy) (kof hz) iback nr it iyh iy (iy-1) (iy+1) ixh st7)
    = gsz_wb (snd (solve nr (fst gsz_sys) (snd gsz_sys))).
  Proof.
    intros Hn Hf. unfold flds in Hf.
    assert (Hz : snd (fst (fst st7)) = ez) by congruence.
    assert (Hx : snd (fst st7) = ex) by congruence.
    assert (Hy : snd st7 = ey) by congruence.
    cbv delta [gauss_seidel_z_L3 flds]. cbv beta. cbv zeta. cbn [fst snd].
    change (if negb (iback =? 0) then nx - ixh else ixh) with (node iback nx ixh).
    rewrite Hn, Hx, Hy, Hz.
    rewrite (Zfold_ext 1 (nz + 1) _ (fun h st => gsz_L4 (h - 1) st))
      by (intros i s _; apply L4_as_blk_z).
    change (Zfold 1 (nz + 1) (fun h st => gsz_L4 (h - 1) st) st0) with gsz_loop.
    match goal with |- (fst (fst ?W), snd (fst ?W), snd ?W) = _ =>
      transitivity W; [now destruct W as [[? ?] ?]|] end.
    unfold gsz_wb, gsz_sys. cbn [fst snd]. reflexivity.
  Qed.

  (* the write-back loop produces exactly the field e[bv] *)
  Definition lzZT (hi : Z) (x : Z -> F) : Z -> Z -> Z -> F := fun i j k =>
    if (i =? ix) && (j =? iy) && (0 <=? k) && (k <? hi) then x (5*k) else ez i j k.
  Definition lxZT (hi : Z) (x : Z -> F) : Z -> Z -> Z -> F := fun i j k =>
    if (j =? iy) && (1 <=? k) && (k <? hi) then
      (if i =? ix - 1 then x (5*(k-1)+1) else if i =? ix then x (5*(k-1)+2) else ex i j k)
    else ex i j k.
  Definition lyZT (hi : Z) (x : Z -> F) : Z -> Z -> Z -> F := fun i j k =>
    if (i =? ix) && (1 <=? k) && (k <? hi) then
      (if j =? iy - 1 then x (5*(k-1)+3) else if j =? iy then x (5*(k-1)+4) else ey i j k)
    else ey i j k.

  Lemma wb_stepZ_inv bv t (w : @Fld F) : 1 <= t <= nz ->
    (forall i j k, fst (fst w) i j k = lzZT (t-1) bv i j k /\
                   snd (fst w) i j k = lxZT (Z.min t nz) bv i j k /\
                   snd w i j k = lyZT (Z.min t nz) bv i j k) ->
    (forall i j k, fst (fst (wb_stepZ bv t w)) i j k = lzZT (t+1-1) bv i j k /\
                   snd (fst (wb_stepZ bv t w)) i j k = lxZT (Z.min (t+1) nz) bv i j k /\
                   snd (wb_stepZ bv t w) i j k = lyZT (Z.min (t+1) nz) bv i j k).
  Proof.
    intros Ht H i j k. destruct (H i j k) as (Hz & Hx & Hy).
    destruct w as [[fz fx] fy]. cbn [fst snd] in *.
    cbv delta [wb_stepZ gauss_seidel_z_L5]. cbv beta. cbv zeta. cbn [fst snd].
    destruct (Z.ltb_spec (t - 1) (nz - 1)) as [Hlt|Hge]; cbn [fst snd].
    - replace (Z.min (t+1) nz) with (t+1) by lia. replace (Z.min t nz) with t in * by lia.
      repeat split.
      + unfold upd3. rewrite Hz. unfold lzZT.
        bdestr; cbn [andb]; try reflexivity; try lia; f_equal; lia.
      + unfold upd3. rewrite Hx. unfold lxZT.
        bdestr; cbn [andb]; try reflexivity; try lia; f_equal; lia.
      + unfold upd3. rewrite Hy. unfold lyZT.
        bdestr; cbn [andb]; try reflexivity; try lia; f_equal; lia.
    - assert (t = nz) by lia. subst t.
      replace (Z.min (nz+1) nz) with nz by lia. replace (Z.min nz nz) with nz in * by lia.
      repeat split; [|assumption|assumption].
      unfold upd3. rewrite Hz. unfold lzZT.
      bdestr; cbn [andb]; try reflexivity; try lia; f_equal; lia.
  Qed.

  Theorem gsz_wb_spec bv : 1 <= nz ->
    forall i j k, fst (fst (gsz_wb bv)) i j k = lzZ bv i j k /\
                  snd (fst (gsz_wb bv)) i j k = lxZ bv i j k /\
                  snd (gsz_wb bv) i j k = lyZ bv i j k.
  Proof.
    intros Hn. unfold gsz_wb.
    assert (G : forall i j k,
      fst (fst (Zfold 1 (nz+1) (fun iz st => wb_stepZ bv iz st) (ez, ex, ey))) i j k
        = lzZT (nz+1-1) bv i j k /\
      snd (fst (Zfold 1 (nz+1) (fun iz st => wb_stepZ bv iz st) (ez, ex, ey))) i j k
        = lxZT (Z.min (nz+1) nz) bv i j k /\
      snd (Zfold 1 (nz+1) (fun iz st => wb_stepZ bv iz st) (ez, ex, ey)) i j k
        = lyZT (Z.min (nz+1) nz) bv i j k).
    { apply (Zfold_ind (fun t w => forall i j k,
               fst (fst w) i j k = lzZT (t-1) bv i j k /\
               snd (fst w) i j k = lxZT (Z.min t nz) bv i j k /\
               snd w i j k = lyZT (Z.min t nz) bv i j k)); [lia| |].
      - intros i j k. cbn [fst snd]. unfold lzZT, lxZT, lyZT.
        replace (Z.min 1 nz) with 1 by lia.
        repeat split; bdestr; cbn [andb]; try reflexivity; lia.
      - intros t w Ht Hw. apply wb_stepZ_inv; [lia|exact Hw]. }
    replace (nz+1-1) with nz in G by lia. replace (Z.min (nz+1) nz) with nz in G by lia.
    exact G.
  Qed.

  (* ---- corollaries with the banded solver --------------------------------- *)
  Definition gsz_sol : Z -> F := snd (solve (5*nz-4) (fst gsz_sys) (snd gsz_sys)).
  (* the field after the line step, in the kernel's state order (ez, ex, ey) ... *)
  Definition gsz_outk : @Fld F := gsz_wb gsz_sol.
  (* ... and in the order (ex, ey, ez) *)
  Definition gsz_out : @Fld F := (snd (fst gsz_outk), snd gsz_outk, fst (fst gsz_outk)).

  Definition PivZ : Prop := forall j, 0 <= j < 5*nz-4 -> pivot (5*nz-4) (fst gsz_sys) j <> 0%F.

  Theorem gsz_line_exact : 2 <= nz -> 1 <= ix -> 1 <= iy -> PECz -> PivZ ->
    forall i, 0 <= i < 5*nz-4 -> line_resZ gsz_sol (i / 5) (i mod 5) = 0%F.
  Proof.
    intros Hn Hx Hy Hpec Hpiv i Hi.
    rewrite <- (gsz_line_consistent Hn Hx Hy Hpec gsz_sol i Hi).
    apply (Fsub_zero Fth). unfold gsz_sol.
    apply (solve_correct Fth (5*nz-4) (fst gsz_sys) (snd gsz_sys) ltac:(lia) Hpiv i Hi).
  Qed.

  (* the current values of the line's unknowns *)
  Definition cur_lineZ : Z -> F := fun i =>
    let a := i / 5 in let r := i mod 5 in
    if r =? 0 then ez ix iy a else if r =? 1 then ex (ix-1) iy (a+1)
    else if r =? 2 then ex ix iy (a+1) else if r =? 3 then ey ix (iy-1) (a+1)
    else ey ix iy (a+1).

  Lemma cur_atZ a r : 0 <= r < 5 ->
    cur_lineZ (5*a+r) = if r =? 0 then ez ix iy a else if r =? 1 then ex (ix-1) iy (a+1)
    else if r =? 2 then ex ix iy (a+1) else if r =? 3 then ey ix (iy-1) (a+1)
    else ey ix iy (a+1).
  Proof. intros Hr. unfold cur_lineZ. cbv zeta. destruct (divmod5 a r Hr) as [-> ->]. reflexivity. Qed.

  Lemma lzZ_cur i j k : lzZ cur_lineZ i j k = ez i j k.
  Proof.
    unfold lzZ. bdestr; cbn [andb]; try reflexivity. subst.
    replace (5*k) with (5*k+0) by lia. now rewrite cur_atZ by lia.
  Qed.
  Lemma lxZ_cur i j k : lxZ cur_lineZ i j k = ex i j k.
  Proof.
    unfold lxZ. bdestr; cbn [andb]; try reflexivity; subst; rewrite cur_atZ by lia; cbn [Z.eqb Pos.eqb];
      f_equal; lia.
  Qed.
  Lemma lyZ_cur i j k : lyZ cur_lineZ i j k = ey i j k.
  Proof.
    unfold lyZ. bdestr; cbn [andb]; try reflexivity; subst; rewrite cur_atZ by lia; cbn [Z.eqb Pos.eqb];
      f_equal; lia.
  Qed.

  (* the residual of a field (fx, fy, fz) on the edge of unknown 5a+r *)
  Definition fld_resZ (fx fy fz : Z -> Z -> Z -> F) (a r : Z) : F :=
    if r =? 0 then Fsub (A_z fx fy fz eta_z zeta hx hy hz ix iy a) (sz ix iy a)
    else if r =? 1 then Fsub (A_x fx fy fz eta_x zeta hx hy hz (ix-1) iy (a+1)) (sx (ix-1) iy (a+1))
    else if r =? 2 then Fsub (A_x fx fy fz eta_x zeta hx hy hz ix iy (a+1)) (sx ix iy (a+1))
    else if r =? 3 then Fsub (A_y fx fy fz eta_y zeta hx hy hz ix (iy-1) (a+1)) (sy ix (iy-1) (a+1))
    else Fsub (A_y fx fy fz eta_y zeta hx hy hz ix iy (a+1)) (sy ix iy (a+1)).

  Lemma fld_resZ_ext (fx fy fz gx gy gz : Z -> Z -> Z -> F) a r :
    (forall i j k, fx i j k = gx i j k) -> (forall i j k, fy i j k = gy i j k) ->
    (forall i j k, fz i j k = gz i j k) -> fld_resZ fx fy fz a r = fld_resZ gx gy gz a r.
  Proof.
    intros Hx Hy Hz. unfold fld_resZ.
    unfold A_x, A_y, A_z, curlT_x, curlT_y, curlT_z, u_x, u_y, u_z, curl_x, curl_y, curl_z.
    rewrite ?Hx, ?Hy, ?Hz. reflexivity.
  Qed.

  Lemma line_resZ_fld x a r : line_resZ x a r = fld_resZ (lxZ x) (lyZ x) (lzZ x) a r.
  Proof. reflexivity. Qed.

  (* after the line step every equation of the line holds on the returned field *)
  Theorem gsz_line_exact_out : 2 <= nz -> 1 <= ix -> 1 <= iy -> PECz -> PivZ ->
    forall i, 0 <= i < 5*nz-4 ->
      fld_resZ (fst (fst gsz_out)) (snd (fst gsz_out)) (snd gsz_out) (i / 5) (i mod 5) = 0%F.
  Proof.
    intros Hn Hx Hy Hpec Hpiv i Hi. unfold gsz_out, gsz_outk. cbn [fst snd].
    rewrite (fld_resZ_ext _ _ _ (lxZ gsz_sol) (lyZ gsz_sol) (lzZ gsz_sol)).
    - rewrite <- line_resZ_fld. now apply gsz_line_exact.
    - intros a b c. apply (gsz_wb_spec gsz_sol ltac:(lia) a b c).
    - intros a b c. apply (gsz_wb_spec gsz_sol ltac:(lia) a b c).
    - intros a b c. apply (gsz_wb_spec gsz_sol ltac:(lia) a b c).
  Qed.

  (* a field whose line equations hold is left unchanged by the line step *)
  Theorem gsz_line_fixed_point : 2 <= nz -> 1 <= ix -> 1 <= iy -> PECz -> PivZ ->
    (forall i, 0 <= i < 5*nz-4 -> fld_resZ ex ey ez (i / 5) (i mod 5) = 0%F) ->
    (forall i, 0 <= i < 5*nz-4 -> gsz_sol i = cur_lineZ i) /\
    (forall i j k, fst (fst gsz_out) i j k = ex i j k /\ snd (fst gsz_out) i j k = ey i j k /\
                   snd gsz_out i j k = ez i j k).
  Proof.
    intros Hn Hx Hy Hpec Hpiv Hres.
    assert (FP : forall i, 0 <= i < 5*nz-4 -> gsz_sol i = cur_lineZ i).
    { unfold gsz_sol.
      apply (solve_unique Fth (5*nz-4) (fst gsz_sys) (snd gsz_sys) ltac:(lia) Hpiv cur_lineZ).
      intros i Hi. apply (Fsub_zero Fth).
      rewrite (gsz_line_consistent Hn Hx Hy Hpec cur_lineZ i Hi), line_resZ_fld.
      rewrite (fld_resZ_ext _ _ _ ex ey ez _ _ lxZ_cur lyZ_cur lzZ_cur). now apply Hres. }
    split; [exact FP|].
    intros i j k. unfold gsz_out, gsz_outk. cbn [fst snd].
    destruct (gsz_wb_spec gsz_sol ltac:(lia) i j k) as (Ez & Ex & Ey).
    rewrite Ex, Ey, Ez. rewrite <- (lxZ_cur i j k), <- (lyZ_cur i j k), <- (lzZ_cur i j k).
    unfold lxZ, lyZ, lzZ.
    repeat split; bdestr; cbn [andb]; try reflexivity; apply FP; lia.
  Qed.

  (* frame: the line step writes the line's interior edges and nothing else, for
     ANY solution vector (kernel state order ez, ex, ey) *)
  Theorem gsz_line_frame bv : 1 <= nz -> forall i j k,
    (fst (fst (gsz_wb bv)) i j k = ez i j k \/ (i = ix /\ j = iy /\ 0 <= k < nz)) /\
    (snd (fst (gsz_wb bv)) i j k = ex i j k \/ (j = iy /\ 1 <= k < nz /\ (i = ix - 1 \/ i = ix))) /\
    (snd (gsz_wb bv) i j k = ey i j k \/ (i = ix /\ 1 <= k < nz /\ (j = iy - 1 \/ j = iy))).
  Proof.
    intros Hn i j k. destruct (gsz_wb_spec bv Hn i j k) as (Ez & Ex & Ey).
    rewrite Ex, Ey, Ez. unfold lxZ, lyZ, lzZ.
    repeat split; bdestr; cbn [andb]; try (left; reflexivity); right; lia.
  Qed.
End GSLineZ.

(* ------------------------------------------------------------------ *)
(* the matrix of the line system does not depend on the field          *)
Section MatrixIndepZ.
  Context {F : Type} {O : FOps F}.
  Variables (fx fy fz gx gy gz sx sy sz eta_x eta_y eta_z zeta : Z -> Z -> Z -> F).
  Variables (hx hy hz : Z -> F).
  Variables (nu lhx nx lhy ny lhz nz ix iy : Z).

  Lemma gsz_matrix_indep : 2 <= nz ->
    fst (gsz_sys fx fy fz sx sy sz eta_x eta_y eta_z zeta hx hy hz nu lhx nx lhy ny lhz nz ix iy)
    = fst (gsz_sys gx gy gz sx sy sz eta_x eta_y eta_z zeta hx hy hz nu lhx nx lhy ny lhz nz ix iy).
  Proof.
    intros Hn. unfold gsz_sys, gsz_loop. cbn [fst].
    apply (matrix_indep_gen nz
             (gsz_blk fx fy fz sx sy sz eta_x eta_y eta_z zeta hx hy hz nu lhx nx lhy ny lhz nz ix iy)
             (gsz_blk gx gy gz sx sy sz eta_x eta_y eta_z zeta hx hy hz nu lhx nx lhy ny lhz nz ix iy)
             (gsz_L4 fx fy fz sx sy sz eta_x eta_y eta_z zeta hx hy hz nu lhx nx lhy ny lhz nz ix iy)
             (gsz_L4 gx gy gz sx sy sz eta_x eta_y eta_z zeta hx hy hz nu lhx nx lhy ny lhz nz ix iy)).
    - apply gsz_L4_step.
    - apply gsz_L4_step.
    - apply gsz_blk_AB.
    - apply gsz_blk_AB.
    - intros. cbv delta [gsz_blk gauss_seidel_z_L4_call1 blkM]. cbv beta. reflexivity.
    - intros. cbv delta [gsz_blk gauss_seidel_z_L4_call1 blkL]. cbv beta. reflexivity.
    - exact Hn.
  Qed.
End MatrixIndepZ.

(* ------------------------------------------------------------------ *)
(* lifting through the loops over ixh, iyh and the nu sweeps            *)
Section GSZSweep.
  Context {F : Type} {O : FOps F}.
  Variables (sx sy sz eta_x eta_y eta_z zeta : Z -> Z -> Z -> F).
  Variables (hx hy hz : Z -> F).
  Variables (nu nx ny nz : Z).

  Notation L3 := (gauss_seidel_z_L3 sx sy sz eta_x eta_y eta_z zeta hx hy hz nu nx nx ny ny nz nz
                    (kof hx) (kof hy) (kof hz)).
  Notation L2 := (gauss_seidel_z_L2 sx sy sz eta_x eta_y eta_z zeta hx hy hz nu nx nx ny ny nz nz
                    (kof hx) (kof hy) (kof hz)).
  Notation L1 := (gauss_seidel_z_L1 sx sy sz eta_x eta_y eta_z zeta hx hy hz nu nx nx ny ny nz nz
                    (kof hx) (kof hy) (kof hz)).

  (* one line step on a field triple in the kernel's state order (ez, ex, ey) *)
  Definition linestepZ (ix iy : Z) (f : @Fld F) : @Fld F :=
    gsz_outk (snd (fst f)) (snd f) (fst (fst f)) sx sy sz eta_x eta_y eta_z zeta hx hy hz
      nu nx nx ny ny nz nz ix iy.

  Section Invariant.
    Variable Inv : @Fld F -> Prop.
    Hypothesis Inv_step : forall ix iy f, 1 <= ix < nx -> 1 <= iy < ny -> Inv f -> Inv (linestepZ ix iy f).

    Lemma L3z_inv iback it iyh iy ixh (st : @St7 F) :
      (iback = 0 \/ iback = 1) -> 1 <= iy < ny -> 1 <= ixh < nx -> Inv (flds st) ->
      Inv (flds (L3 iback (5*nz-4) it iyh iy (iy-1) (iy+1) ixh st)).
    Proof.
      intros Hb Hy Hx G.
      rewrite (gsz_L3_step (snd (fst st)) (snd st) (snd (fst (fst st))) sx sy sz eta_x eta_y eta_z zeta
                 hx hy hz nu nx nx ny ny nz nz (node iback nx ixh) iy iback (5*nz-4) it iyh ixh st
                 eq_refl eq_refl).
      apply (Inv_step (node iback nx ixh) iy (flds st)); [apply node_range; assumption|assumption|exact G].
    Qed.

    Lemma L2z_inv iback it iyh (st : @St7 F) :
      (iback = 0 \/ iback = 1) -> 1 <= iyh < ny -> Inv (flds st) ->
      Inv (flds (L2 iback (5*nz-4) it iyh st)).
    Proof.
      intros Hb Hy G.
      cbv delta [gauss_seidel_z_L2]. cbv beta. cbv zeta.
      match goal with
      | |- Inv (flds (_, _, _, _, snd (fst (fst ?t)), snd (fst ?t), snd ?t)) => change (Inv (flds t))
      end.
      pose proof (node_range iback ny iyh Hb Hy) as Hyy.
      destruct (Z_le_gt_dec 1 nx) as [Hn|Hn].
      - apply (Zfold_ind (fun _ s => Inv (flds s))); [assumption|exact G|].
        intros j s Hj Gs.
        change (Inv (flds (L3 iback (5*nz-4) it iyh (node iback ny iyh) (node iback ny iyh - 1)
                             (node iback ny iyh + 1) j s))).
        apply L3z_inv; assumption.
      - rewrite Zfold_empty by lia. exact G.
    Qed.

    Lemma L1z_inv it (st : @St8 F) : Inv8 Inv st -> Inv8 Inv (L1 (5*nz-4) it st).
    Proof.
      intros [Hb G]. unfold iback8 in Hb.
      cbv delta [gauss_seidel_z_L1]. cbv beta. cbv zeta.
      set (ib := 1 - fst (fst (fst (fst (fst (fst (fst st))))))).
      assert (Hib : ib = 0 \/ ib = 1) by (unfold ib; lia).
      split; [exact Hib|].
      match goal with
      | |- Inv (flds8 (_, _, _, _, _, snd (fst (fst ?t)), snd (fst ?t), snd ?t)) => change (Inv (flds t))
      end.
      destruct (Z_le_gt_dec 1 ny) as [Hn|Hn].
      - apply (Zfold_ind (fun _ s => Inv (flds s))); [assumption|exact G|].
        intros k s Hk Gs. apply L2z_inv; assumption.
      - rewrite Zfold_empty by lia. exact G.
    Qed.

    Lemma sweepsz_inv (s0 : @St8 F) :
      Inv8 Inv s0 -> Inv8 Inv (Zfold 0 nu (fun it st => L1 (5*nz-4) it st) s0).
    Proof.
      intros G. destruct (Z_le_gt_dec 0 nu) as [Hn|Hn].
      - apply (Zfold_ind (fun _ s => Inv8 Inv s)); [assumption|exact G|].
        intros it s _ Gs. now apply L1z_inv.
      - now rewrite Zfold_empty by lia.
    Qed.
  End Invariant.
End GSZSweep.

(* ------------------------------------------------------------------ *)
(* the whole kernel, every number of sweeps nu, every shape             *)
Section GSZWhole.
  Context {F : Type} {O : FOps F}.
  Hypothesis Fth : field_theory F0 F1 Fadd Fmul Fsub Fopp Fdiv Finv (@eq F).
  Hypothesis two_nz : (1 + 1)%F <> 0%F.
  Variables (ex ey ez sx sy sz eta_x eta_y eta_z zeta : Z -> Z -> Z -> F).
  Variables (hx hy hz : Z -> F).
  Hypothesis hx_nz : forall i, hx i <> 0%F.
  Hypothesis hy_nz : forall i, hy i <> 0%F.
  Hypothesis hz_nz : forall i, hz i <> 0%F.
  Variables (nu nx ny nz : Z).

  (* kernel state order (ez, ex, ey) *)
  Definition GoodZ (f : @Fld F) : Prop :=
    (forall i j l, fst (fst f) i j l = ez i j l) /\
    (forall i j l, snd (fst f) i j l = ex i j l) /\
    (forall i j l, snd f i j l = ey i j l).

  Section FixedPoint.
    Hypothesis Hnz : 2 <= nz.
    Hypothesis exact : forall ix iy, 1 <= ix < nx -> 1 <= iy < ny -> forall i, 0 <= i < 5*nz-4 ->
      fld_resZ sx sy sz eta_x eta_y eta_z zeta hx hy hz ix iy ex ey ez (i / 5) (i mod 5) = 0%F.
    Hypothesis pec : forall ix iy, 1 <= ix < nx -> 1 <= iy < ny -> PECz ex ey nz ix iy.
    Hypothesis pivots : forall ix iy, 1 <= ix < nx -> 1 <= iy < ny ->
      PivZ ex ey ez sx sy sz eta_x eta_y eta_z zeta hx hy hz nu nx nx ny ny nz nz ix iy.

    Lemma GoodZ_step ix iy f : 1 <= ix < nx -> 1 <= iy < ny -> GoodZ f ->
      GoodZ (linestepZ sx sy sz eta_x eta_y eta_z zeta hx hy hz nu nx ny nz ix iy f).
    Proof.
      intros Hx Hy (Gz & Gx & Gy). destruct f as [[fz fx] fy]. cbn [fst snd] in Gx, Gy, Gz.
      unfold linestepZ. cbn [fst snd].
      assert (PECf : PECz fx fy nz ix iy).
      { unfold PECz. rewrite !Gx, !Gy. exact (pec ix iy Hx Hy). }
      assert (PIVf : PivZ fx fy fz sx sy sz eta_x eta_y eta_z zeta hx hy hz nu nx nx ny ny nz nz ix iy).
      { unfold PivZ.
        rewrite (gsz_matrix_indep fx fy fz ex ey ez sx sy sz eta_x eta_y eta_z zeta hx hy hz
                   nu nx nx ny ny nz nz ix iy Hnz).
        exact (pivots ix iy Hx Hy). }
      assert (RESf : forall i, 0 <= i < 5*nz-4 ->
                fld_resZ sx sy sz eta_x eta_y eta_z zeta hx hy hz ix iy fx fy fz (i / 5) (i mod 5) = 0%F).
      { intros i Hi.
        rewrite (fld_resZ_ext sx sy sz eta_x eta_y eta_z zeta hx hy hz ix iy fx fy fz ex ey ez _ _ Gx Gy Gz).
        exact (exact ix iy Hx Hy i Hi). }
      destruct (gsz_line_fixed_point Fth two_nz fx fy fz sx sy sz eta_x eta_y eta_z zeta hx hy hz
                  hx_nz hy_nz hz_nz nu nx nx ny ny nz nz ix iy Hnz ltac:(lia) ltac:(lia) PECf PIVf RESf)
        as [_ Hout].
      unfold gsz_out in Hout. cbn [fst snd] in Hout.
      unfold GoodZ. repeat split; intros i j l; destruct (Hout i j l) as (Ex & Ey & Ez).
      - rewrite Ez. apply Gz.
      - rewrite Ex. apply Gx.
      - rewrite Ey. apply Gy.
    Qed.

    Theorem gauss_seidel_z_fixed_point :
      let r := gauss_seidel_z nx ny nz ex ey ez sx sy sz eta_x eta_y eta_z zeta hx hy hz nu in
      forall i j l, fst (fst r) i j l = ex i j l /\ snd (fst r) i j l = ey i j l /\ snd r i j l = ez i j l.
    Proof.
      cbv zeta. cbv delta [gauss_seidel_z]. cbv beta. cbv zeta. cbn [fst snd].
      set (t := Zfold 0 nu _ _).
      assert (G : Inv8 GoodZ t).
      { subst t.
        apply (sweepsz_inv sx sy sz eta_x eta_y eta_z zeta hx hy hz nu nx ny nz GoodZ).
        - intros ix iy f Hx Hy Gf. now apply GoodZ_step.
        - split; [left; reflexivity|]. repeat split; reflexivity. }
      destruct G as [_ (Gz & Gx & Gy)]. cbn [flds8 fst snd] in Gx, Gy, Gz.
      intros i j l. repeat split; [apply Gx|apply Gy|apply Gz].
    Qed.
  End FixedPoint.

  (* frame: only interior edges of interior lines are ever written *)
  Definition FrameZ (f : @Fld F) : Prop :=
    (forall i j l, (i <= 0 \/ nx <= i \/ j <= 0 \/ ny <= j \/ l < 0 \/ nz <= l) ->
       fst (fst f) i j l = ez i j l) /\
    (forall i j l, (i < 0 \/ nx <= i \/ j <= 0 \/ ny <= j \/ l <= 0 \/ nz <= l) ->
       snd (fst f) i j l = ex i j l) /\
    (forall i j l, (i <= 0 \/ nx <= i \/ j < 0 \/ ny <= j \/ l <= 0 \/ nz <= l) ->
       snd f i j l = ey i j l).

  Lemma FrameZ_step ix iy f : 1 <= ix < nx -> 1 <= iy < ny -> FrameZ f ->
    FrameZ (linestepZ sx sy sz eta_x eta_y eta_z zeta hx hy hz nu nx ny nz ix iy f).
  Proof.
    intros Hx Hy (Gz & Gx & Gy). destruct f as [[fz fx] fy]. cbn [fst snd] in Gx, Gy, Gz.
    unfold linestepZ, gsz_outk. cbn [fst snd].
    destruct (Z_le_gt_dec 1 nz) as [Hn|Hn].
    - set (bv := gsz_sol _ _ _ _ _ _ _ _ _ _ _ _ _ _ _ _ _ _ _ _ _ _). clearbody bv.
      pose proof (gsz_line_frame fx fy fz sx sy sz eta_x eta_y eta_z zeta hx hy hz nu nx nx ny ny nz nz
                    ix iy bv Hn) as Hfr.
      unfold FrameZ. repeat split; intros i j l Hb; destruct (Hfr i j l) as (Ez & Ex & Ey).
      + destruct Ez as [Ez|Ez]; [rewrite Ez; now apply Gz|lia].
      + destruct Ex as [Ex|Ex]; [rewrite Ex; now apply Gx|lia].
      + destruct Ey as [Ey|Ey]; [rewrite Ey; now apply Gy|lia].
    - unfold gsz_wb. rewrite Zfold_empty by lia. cbn [fst snd]. repeat split; assumption.
  Qed.

  Theorem gauss_seidel_z_frame :
    let r := gauss_seidel_z nx ny nz ex ey ez sx sy sz eta_x eta_y eta_z zeta hx hy hz nu in
    (forall i j l, (i < 0 \/ nx <= i \/ j <= 0 \/ ny <= j \/ l <= 0 \/ nz <= l) ->
       fst (fst r) i j l = ex i j l) /\
    (forall i j l, (i <= 0 \/ nx <= i \/ j < 0 \/ ny <= j \/ l <= 0 \/ nz <= l) ->
       snd (fst r) i j l = ey i j l) /\
    (forall i j l, (i <= 0 \/ nx <= i \/ j <= 0 \/ ny <= j \/ l < 0 \/ nz <= l) ->
       snd r i j l = ez i j l).
  Proof.
    cbv zeta. cbv delta [gauss_seidel_z]. cbv beta. cbv zeta. cbn [fst snd].
    set (t := Zfold 0 nu _ _).
    assert (G : Inv8 FrameZ t).
    { subst t.
      apply (sweepsz_inv sx sy sz eta_x eta_y eta_z zeta hx hy hz nu nx ny nz FrameZ).
      - intros ix iy f Hx Hy Gf. now apply FrameZ_step.
      - split; [left; reflexivity|]. repeat split; intros; reflexivity. }
    destruct G as [_ (Gz & Gx & Gy)]. cbn [flds8 fst snd] in Gx, Gy, Gz.
    repeat split; assumption.
  Qed.
End GSZWhole.

(* ------------------------------------------------------------------ *)
(* Non-vacuity: 2 x 2 x 3 grid over Q, line (ix,iy) = (1,1), n = 11.   *)
From Coq Require Import QArith.
From V Require Import Base.ExecQ.
Local Open Scope Z_scope.
Definition zex (i j k : Z) : Q := if (k =? 0) || (k =? 3) then 0%F else qz (1 + i - 2 * j + 3 * k) 2.
Definition zey (i j k : Z) : Q := if (k =? 0) || (k =? 3) then 0%F else qz (2 - i + j + k) 3.
Definition zez (i j k : Z) : Q := qz (1 + 2 * i - j + k) 4.
Definition zsx : Z -> Z -> Z -> Q := A_x zex zey zez xeta xzeta xh xh xh.
Definition zsy : Z -> Z -> Z -> Q := A_y zex zey zez xeta xzeta xh xh xh.
Definition zsz : Z -> Z -> Z -> Q := A_z zex zey zez xeta xzeta xh xh xh.

Example gsz_hyps_example :
  PivZ zex zey zez zsx zsy zsz xeta xeta xeta xzeta xh xh xh 1 2 2 2 2 3 3 1 1 /\
  PECz zex zey 3 1 1 /\
  (forall i, 0 <= i < 11 ->
     fld_resZ zsx zsy zsz xeta xeta xeta xzeta xh xh xh 1 1 zex zey zez (i / 5) (i mod 5) = 0%F) /\
  zez 1 1 1 <> 0%F /\ zex 1 1 1 <> 0%F /\ zey 1 1 2 <> 0%F.
Proof.
  split; [|split; [|split; [|repeat split]]].
  - unfold PivZ. change (5 * 3 - 4) with 11.
    by_nz qzero 11 (ldl 11 (fst (gsz_sys zex zey zez zsx zsy zsz xeta xeta xeta xzeta xh xh xh
                                   1 2 2 2 2 3 3 1 1))).
  - unfold PECz. repeat split; vm_compute; reflexivity.
  - by_dump 11 (fun i => fld_resZ zsx zsy zsz xeta xeta xeta xzeta xh xh xh 1 1 zex zey zez
                           (i / 5) (i mod 5)) (fun _ : Z => 0%F).
  - vm_compute; discriminate.
  - vm_compute; discriminate.
  - vm_compute; discriminate.
Qed.

Print Assumptions gsz_system_layout.
Print Assumptions gsz_sys_is_call1.
Print Assumptions gsz_row_consistent.
Print Assumptions gsz_line_consistent.
Print Assumptions gsz_L3_step.
Print Assumptions gsz_wb_spec.
Print Assumptions gsz_line_exact.
Print Assumptions gsz_line_exact_out.
Print Assumptions gsz_line_fixed_point.
Print Assumptions gsz_line_frame.
Print Assumptions gsz_matrix_indep.
Print Assumptions sweepsz_inv.
Print Assumptions gauss_seidel_z_fixed_point.
Print Assumptions gauss_seidel_z_frame.
Print Assumptions gsz_hyps_example.
