(* Proofs/SurveyFinite.v -- C13, round 6: the memoised finite mask, queries
   between data changes, and further routes that change the NaN pattern of
   data.observed (Model/SurveyFinite.v).

   * a query changes nothing in the survey machine; a non-query operation
     neither reads nor writes the memo; hence the survey machine after ANY
     history is the one after the history with all queries removed, whatever
     the memo was;
   * the misfit is a function of the current observed / synthetic / std^2
     arrays only, and it is the half sum over the mask RECOMPUTED from the
     current observed data;
   * the memo is NOT equal to the current mask in every reachable state, and
     a misfit summed through the memo differs (witness): so the property needs
     that misfit does not consult it -- which is what the model (tied to the
     code on every run) says;
   * the settings frame theorem and all invariants extended to the new
     operations. *)
From Coq Require Import ZArith List Bool Arith Lia QArith.
From V Require Import Base.FieldSig Base.ExecQ.
From V Require Import Model.SurveyMachine Model.SurveyMachineExec Model.SurveyFinite.
From V Require Import Proofs.SurveyMachine Proofs.SurveyLabels.
Import ListNotations.
Close Scope Q_scope.
Local Open Scope nat_scope.

Lemma flat_map_ext_in {A B} (f g : A -> list B) l :
  (forall a, In a l -> f a = g a) -> flat_map f l = flat_map g l.
Proof.
  induction l as [|x t IH]; cbn; intros H; [reflexivity|].
  rewrite H by now left. f_equal. apply IH. intros a Ha. apply H. now right.
Qed.

Section FiniteProofs.
  Context {F : Type} {FO : FOps F}.
  Variable ltb : F -> F -> bool.
  Variable off2 : Z -> Z -> F.
  Local Notation cell := (@cell F).
  Local Notation cube := (@cube F).
  Local Notation survey := (@survey F).
  Local Notation world := (@world F).
  Local Notation xworld := (@xworld F).
  Local Notation xop := (@xop F).

  (* ------------------------------------------------ queries are read-only *)
  Lemma isfinite_base (xw : xworld) s (sv : survey) : base (fst (isfinite xw s sv)) = base xw.
  Proof.
    unfold isfinite. destruct (memo_of xw s); [reflexivity|].
    destruct (shape sv) as [[n1 n2] n3]. cbn [fst]. destruct (many _); reflexivity.
  Qed.

  Lemma do_query_base (xw : xworld) s q : base (fst (do_query xw s q)) = base xw.
  Proof.
    unfold do_query. destruct (nth_error (svs (base xw)) s) as [sv|]; [|reflexivity].
    destruct (shape sv) as [[n1 n2] n3].
    destruct q; try reflexivity.
    - pose proof (isfinite_base xw s sv) as H. destruct (isfinite xw s sv) as [xw1 m]. exact H.
    - pose proof (isfinite_base xw s sv) as H. destruct (isfinite xw s sv) as [xw1 m]. exact H.
  Qed.

  Lemma xstep_base inplace (o : xop) (xw : xworld) :
    base (fst (xstep ltb off2 inplace o xw)) = fst (bstep ltb off2 inplace o (base xw)).
  Proof.
    destruct o; cbn [xstep bstep fst].
    - destruct (step ltb off2 inplace o (base xw)); reflexivity.
    - apply do_query_base.
    - destruct (set_obs s c (base xw)); reflexivity.
    - destruct (obs_from_syn s (base xw)); reflexivity.
  Qed.

  Lemma xstep_nonquery inplace (o : xop) (xw : xworld) :
    is_query o = false ->
    xstep ltb off2 inplace o xw =
    (mkX (fst (bstep ltb off2 inplace o (base xw))) (memo xw),
     XOut (snd (bstep ltb off2 inplace o (base xw)))).
  Proof.
    destruct o; cbn [is_query]; try discriminate; intros _; cbn [xstep];
      destruct (bstep ltb off2 inplace _ (base xw)); reflexivity.
  Qed.

  (* a non-query operation: new survey machine and outcome are functions of
     the survey machine alone, and the memo is carried along unchanged *)
  Theorem nonquery_ignores_memo inplace (o : xop) (xw xw' : xworld) :
    is_query o = false -> base xw = base xw' ->
    base (fst (xstep ltb off2 inplace o xw)) = base (fst (xstep ltb off2 inplace o xw')) /\
    snd (xstep ltb off2 inplace o xw) = snd (xstep ltb off2 inplace o xw') /\
    memo (fst (xstep ltb off2 inplace o xw)) = memo xw.
  Proof.
    intros Hq Hb. rewrite !xstep_nonquery by exact Hq. cbn [fst snd base memo].
    rewrite Hb. repeat split.
  Qed.

  Theorem query_changes_nothing inplace s q (xw : xworld) :
    base (fst (xstep ltb off2 inplace (XQuery s q) xw)) = base xw.
  Proof. cbn [xstep]. apply do_query_base. Qed.

  (* THE ERASURE THEOREM: for every history, the survey machine (all data,
     all settings, all surveys) is the one reached by the history without its
     queries, started with any memo *)
  Theorem xrun_queries_erased inplace (ops : list xop) (xw xw' : xworld) :
    base xw = base xw' ->
    base (xrun ltb off2 inplace ops xw) = base (xrun ltb off2 inplace (erase_queries ops) xw').
  Proof.
    revert xw xw'. induction ops as [|o t IH]; intros xw xw' Hb; [exact Hb|].
    cbn [xrun erase_queries filter]. destruct (is_query o) eqn:Hq; cbn [negb].
    - apply IH. destruct o; try discriminate. rewrite query_changes_nothing. exact Hb.
    - cbn [xrun]. apply IH. now apply nonquery_ignores_memo.
  Qed.

  (* the misfit query reads the survey machine only *)
  Theorem misfit_query_ignores_memo inplace s (xw xw' : xworld) :
    base xw = base xw' ->
    snd (xstep ltb off2 inplace (XQuery s QMisfit) xw) =
    snd (xstep ltb off2 inplace (XQuery s QMisfit) xw').
  Proof.
    intros Hb. cbn [xstep]. unfold do_query. rewrite Hb.
    destruct (nth_error (svs (base xw')) s) as [sv|]; [|reflexivity].
    destruct (shape sv) as [[n1 n2] n3]. reflexivity.
  Qed.

  Lemma misfit_query_is_xmisfit inplace s (xw : xworld) :
    snd (xstep ltb off2 inplace (XQuery s QMisfit) xw) =
    match xmisfit xw s with Some m => XMis m | None => XOut (OutErr 9) end.
  Proof.
    cbn [xstep]. unfold do_query, xmisfit.
    destruct (nth_error (svs (base xw)) s) as [sv|]; [|reflexivity].
    destruct (shape sv) as [[n1 n2] n3]. reflexivity.
  Qed.

  Theorem misfit_unaffected_by_queries_all inplace (ops : list xop) (xw : xworld) s :
    xmisfit (xrun ltb off2 inplace ops xw) s =
    xmisfit (xrun ltb off2 inplace (erase_queries ops) (mkX (base xw) nil)) s.
  Proof.
    unfold xmisfit.
    rewrite (xrun_queries_erased inplace ops xw (mkX (base xw) nil) eq_refl). reflexivity.
  Qed.

  (* ------------------------- misfit: current arrays, current mask only *)
  Theorem misfit_current_arrays_all (w w' : world) (sv sv' : survey) syn syn' r r' :
    shape sv = shape sv' ->
    deref (hdat w) (obs sv) = deref (hdat w') (obs sv') ->
    lookup syn (named sv) = Some r -> lookup syn' (named sv') = Some r' ->
    deref (hdat w) r = deref (hdat w') r' ->
    std2 w sv = std2 w' sv' ->
    misfit w sv syn = misfit w' sv' syn'.
  Proof.
    intros Hs Ho Hl Hl' Hr Hsd. unfold misfit. rewrite Hs, Hl, Hl', Hsd, Ho, Hr. reflexivity.
  Qed.

  Lemma mget_cur_mask (c : cube) n1 n2 n3 i j k :
    i < n1 -> j < n2 -> k < n3 -> mget (cur_mask c n1 n2 n3) i j k = is_val (cget c i j k).
  Proof.
    intros Hi Hj Hk. unfold mget, cur_mask.
    rewrite nth_ltab by exact Hi. rewrite nth_ltab by exact Hj. now rewrite nth_ltab.
  Qed.

  Lemma terms_masked_cur (ob sy sd : cube) n1 n2 n3 :
    terms_masked (cur_mask ob n1 n2 n3) ob sy sd (seq 0 n1) (seq 0 n2) (seq 0 n3)
    = terms_idx ob sy sd (seq 0 n1) (seq 0 n2) (seq 0 n3).
  Proof.
    unfold terms_masked, terms_idx.
    apply flat_map_ext_in. intros i Hi. apply in_seq in Hi.
    apply flat_map_ext_in. intros j Hj. apply in_seq in Hj.
    apply map_ext_in. intros k Hk. apply in_seq in Hk.
    rewrite mget_cur_mask by lia. destruct (cget ob i j k); reflexivity.
  Qed.

  Theorem misfit_over_current_mask (w : world) (sv : survey) syn r sd n1 n2 n3 :
    shape sv = (n1, n2, n3) -> std2 w sv = Some sd -> lookup syn (named sv) = Some r ->
    misfit w sv syn =
    Some (misfit_of (terms_masked (cur_mask (deref (hdat w) (obs sv)) n1 n2 n3)
                                  (deref (hdat w) (obs sv)) (deref (hdat w) r) sd
                                  (seq 0 n1) (seq 0 n2) (seq 0 n3))).
  Proof.
    intros Hs Hsd Hl. unfold misfit. rewrite Hs, Hsd, Hl. now rewrite terms_masked_cur.
  Qed.

  (* ---------------------------------- frame and invariants, extended *)
  Definition xsetter_target (o : xop) : option nat :=
    match o with XBase b => setter_target b | _ => None end.

  Lemma ext_hdat exc (w : world) hd' : wf w -> ext exc w (mkW (hset w) hd' (svs w)).
  Proof.
    intros Hw. split; [exists nil; cbn; now rewrite app_nil_r|]. split; [|exact Hw].
    intros i sv Hi _. exists sv. auto.
  Qed.

  Lemma bstep_ext (o : xop) (w : world) :
    wf w -> ext (xsetter_target o) w (fst (bstep ltb off2 false o w)).
  Proof.
    intros Hw. destruct o; cbn [bstep xsetter_target fst].
    - now apply step_ext.
    - now apply ext_refl.
    - unfold set_obs. destruct (nth_error (svs w) s) as [sv|]; [|now apply ext_refl].
      destruct (cdims c) as [[d1 d2] d3]. destruct (shape sv) as [[n1 n2] n3].
      destruct (_ && _); cbn [fst]; [now apply ext_hdat|now apply ext_refl].
    - unfold obs_from_syn. destruct (nth_error (svs w) s) as [sv|] eqn:Hs; [|now apply ext_refl].
      destruct (lookup 0%Z (named sv)) as [r|]; [|now apply ext_refl]. cbn [fst].
      apply ext_upd with (sv := sv) (e := nil); auto.
      + now rewrite app_nil_r.
      + apply refs_ok_fields with (sv := sv); [reflexivity|]. eapply wf_nth; eauto.
  Qed.

  Lemma x_is_setter_target i (o : xop) :
    x_is_setter_on i o = false -> Some i <> xsetter_target o.
  Proof.
    destruct o; cbn [x_is_setter_on xsetter_target]; try (intros _ E; discriminate).
    apply is_setter_target.
  Qed.

  Theorem xsettings_frame_all (ops : list xop) (xw : xworld) i :
    wf (base xw) -> i < length (svs (base xw)) ->
    (forall o, In o ops -> x_is_setter_on i o = false) ->
    settings_at (base (xrun ltb off2 false ops xw)) i = settings_at (base xw) i.
  Proof.
    revert xw. induction ops as [|o t IH]; intros xw Hw Hi Hno; [reflexivity|].
    cbn [xrun].
    pose proof (bstep_ext o (base xw) Hw) as Hx. rewrite <- xstep_base in Hx.
    assert (Hne : Some i <> xsetter_target o)
      by (apply x_is_setter_target, Hno; now left).
    destruct (ext_settings _ _ _ _ Hw Hx Hne Hi) as (E & Hi').
    rewrite IH.
    - exact E.
    - apply Hx.
    - exact Hi'.
    - intros o' Ho'. apply Hno. now right.
  Qed.

  Lemma bstep_wf_all (o : xop) (w : world) :
    wf_all w -> wf_all (fst (bstep ltb off2 false o w)).
  Proof.
    intros H. pose proof H as (Hw & Hd & Hk).
    split; [apply (bstep_ext o w Hw)|].
    destruct o; cbn [bstep fst].
    - apply (step_wf_all ltb off2 o w H).
    - now split.
    - unfold set_obs. destruct (nth_error (svs w) s) as [sv|]; [|now split].
      destruct (cdims c) as [[d1 d2] d3]. destruct (shape sv) as [[n1 n2] n3].
      destruct (_ && _); cbn [fst]; [|now split]. split; [|exact Hk].
      unfold wfd. cbn [hdat svs]. rewrite upd_nth_length. exact Hd.
    - unfold obs_from_syn. destruct (nth_error (svs w) s) as [sv|] eqn:Hs; [|now split].
      destruct (lookup 0%Z (named sv)) as [r|]; [|now split]. cbn [fst].
      pose proof (Forall_nth_error _ _ _ _ Hd Hs) as (D1 & D2).
      pose proof (Forall_nth_error _ _ _ _ Hk Hs) as K.
      split.
      + apply wfd_upd; [exact Hd| rewrite app_length; cbn; lia|].
        split; cbn [obs named with_obs]; rewrite app_length; cbn [length]; [lia|].
        eapply Forall_impl; [|exact D2]. intros p Hp. cbn beta in *. lia.
      + apply wfk_upd; [exact Hk|exact K].
  Qed.

  Theorem xrun_wf_all (ops : list xop) (xw : xworld) :
    wf_all (base xw) -> wf_all (base (xrun ltb off2 false ops xw)).
  Proof.
    revert xw. induction ops as [|o t IH]; intros xw Hw; [exact Hw|].
    cbn [xrun]. apply IH. rewrite xstep_base. now apply bstep_wf_all.
  Qed.
End FiniteProofs.

(* ----------------------------------------------------------- witnesses *)
Section FiniteWitnesses.
  Local Open Scope Q_scope.
  (* one source, one receiver, two frequencies; observed (1, NaN), synthetic
     (2, 3), noise floor 1 *)
  Definition fx_sv : @survey Q :=
    mkS [1%Z] [1%Z] [1%Z; 2%Z] 0 [(0%Z, 1%nat)] (AScal 1) ANone None None None.
  Definition fx_w : qworld := mkW [] [[[[V 1 0; NaN]]]; [[[V 2 0; V 3 0]]]] [fx_sv].
  Definition fx_xw : qxworld := mkX fx_w [].
  Definition fx_off (_ _ : Z) : Q := 0.
  (* the user looks at the finite data, then the gap is filled *)
  Definition fx_ops : list (@xop Q) :=
    [XQuery 0 QFiniteData; XSetObs 0 [[[V 1 0; V 1 0]]]; XQuery 0 QCount].
  Definition fx_end : qxworld := xrun qltb fx_off false fx_ops fx_xw.

  Lemma fx_wf_all : wf_all (base fx_xw).
  Proof.
    unfold wf_all, wf, wfd, wfk, fx_xw, fx_w. cbn.
    repeat split; repeat constructor; cbn; try lia; intros [H|[]]; discriminate.
  Qed.

  (* the memo of a reachable state is NOT the current mask ... *)
  Lemma fx_memo_stale :
    memo_of fx_end 0 = Some [[[true; false]]] /\
    cur_mask (deref (hdat (base fx_end)) 0) 1 1 2 = [[[true; true]]].
  Proof. vm_compute. split; reflexivity. Qed.

  (* ... the misfit is the formula over the CURRENT data: ((2-1)^2 + (3-1)^2)/2 ... *)
  Lemma fx_misfit_current :
    option_map d_oq (xmisfit fx_end 0) = Some (Some (5%Z, 2%Z)) /\
    snd (xstep qltb fx_off false (XQuery 0 QMisfit) fx_end) = XMis (Some (5 # 2)).
  Proof. vm_compute. split; reflexivity. Qed.

  (* ... and a sum through the memoised mask would be (2-1)^2/2 *)
  Lemma fx_through_memo :
    d_oq (misfit_through_memo fx_end 0 fx_sv) = Some (1%Z, 2%Z).
  Proof. vm_compute. reflexivity. Qed.

  Lemma through_memo_refuted :
    exists (ops : list (@xop Q)) (xw : qxworld) (s : nat) (sv : @survey Q),
      wf_all (base xw) /\ memo xw = [] /\
      nth_error (svs (base (xrun qltb fx_off false ops xw))) s = Some sv /\
      d_oq (misfit_through_memo (xrun qltb fx_off false ops xw) s sv)
      <> d_oq (misfit (base (xrun qltb fx_off false ops xw)) sv 0%Z).
  Proof.
    exists fx_ops, fx_xw, 0%nat, fx_sv. split; [exact fx_wf_all|]. split; [reflexivity|].
    split; [vm_compute; reflexivity|]. vm_compute. discriminate.
  Qed.

  (* non-vacuity of the erasure theorem: the history has queries, a data
     change, an add_noise with an offset cut, and a selection *)
  Definition fx_ops2 : list (@xop Q) :=
    [XQuery 0 QIsFinite; XObsFromSyn 0; XQuery 0 QFiniteData;
     XBase (OAddNoise 0 (mkP 0 None (MVal 3) TObs) [[[V 0 0; V 0 0]]]);
     XQuery 0 QCount; XBase (OSelect 0 None None (Some [2%Z]) true); XQuery 1 QIsFinite;
     XQuery 1 QMisfit].
  Lemma fx_erasure_instance :
    length (erase_queries fx_ops2) = 3%nat /\
    length (memo (xrun qltb fx_off false fx_ops2 fx_xw)) = 2%nat /\
    d_world (base (xrun qltb fx_off false fx_ops2 fx_xw))
    = d_world (base (xrun qltb fx_off false (erase_queries fx_ops2) fx_xw)) /\
    length (svs (base (xrun qltb fx_off false fx_ops2 fx_xw))) = 2%nat.
  Proof. vm_compute. repeat split; reflexivity. Qed.
End FiniteWitnesses.
