(* Proofs/ProlongR.v -- C04 over the real numbers: on a mesh with positive cell
   widths every interpolation (prolongation) weight and every restriction weight
   computed by the generated [restrict_weights] lies in [0, 1].  (The algebraic
   identities of C04 hold over any field; sign statements need an order.) *)
From Coq Require Import ZArith Lia Bool Field Reals Lra.
From V Require Import Base.Loops Base.Arr Base.FieldSig Base.Tactics.
From V Require Import Gen.CoreRestrict Model.Prolong Proofs.RestrictW Proofs.Interp.
Delimit Scope F_scope with F.
Local Open Scope Z_scope.

Lemma frac_bounds (a b : R) : (0 < a)%R -> (0 < b)%R -> (0 <= a / (a + b) <= 1)%R.
Proof.
  intros Ha Hb. assert (Hi : (0 < / (a + b))%R) by (apply Rinv_0_lt_compat; lra).
  unfold Rdiv. split.
  - apply Rlt_le. apply Rmult_lt_0_compat; assumption.
  - replace 1%R with ((a + b) * / (a + b))%R by (field; lra).
    apply Rmult_le_compat_r; lra.
Qed.

Section ProlongR.
  Variables (x h : Z -> R).
  Hypothesis h_pos : forall j, (0 < h j)%R.
  Hypothesis node_step : forall j, x (j + 1) = (x j + h j)%R.

  (* every interpolation weight is in [0, 1] *)
  Theorem P1_bounds j I : (0 <= P1 x j I <= 1)%R.
  Proof.
    unfold P1. runfold.
    destruct (j =? 2 * I); [lra|].
    destruct (j =? 2 * I - 1).
    - assert (E1 : x (2*I-1) = (x (2*I-2) + h (2*I-2))%R)
        by (rewrite <- node_step; f_equal; lia).
      assert (E2 : x (2*I) = (x (2*I-2) + h (2*I-2) + h (2*I-1))%R)
        by (rewrite <- E1, <- node_step; f_equal; lia).
      rewrite E2, E1.
      replace (x (2*I-2) + h (2*I-2) - x (2*I-2))%R with (h (2*I-2)) by ring.
      replace (x (2*I-2) + h (2*I-2) + h (2*I-1) - x (2*I-2))%R
        with (h (2*I-2) + h (2*I-1))%R by ring.
      apply frac_bounds; apply h_pos.
    - destruct (j =? 2 * I + 1); [|lra].
      assert (E1 : x (2*I+1) = (x (2*I) + h (2*I))%R) by apply node_step.
      assert (E2 : x (2*I+2) = (x (2*I) + h (2*I) + h (2*I+1))%R)
        by (rewrite <- E1, <- node_step; f_equal; lia).
      rewrite E2, E1.
      replace (x (2*I) + h (2*I) + h (2*I+1) - (x (2*I) + h (2*I)))%R with (h (2*I+1)) by ring.
      replace (x (2*I) + h (2*I) + h (2*I+1) - x (2*I))%R with (h (2*I+1) + h (2*I))%R by ring.
      apply frac_bounds; apply h_pos.
  Qed.
End ProlongR.

(* the restriction weights the generated kernel computes, on a tensor mesh whose
   coarse grid is every second fine node *)
Section RestrictWR.
  Variables (nodes cell_centers h cnodes ccell_centers ch : Z -> R).
  Variables (n lh lch ln : Z).
  Hypothesis h_pos : forall j, (0 < h j)%R.
  Hypothesis cc_def : forall j, cell_centers j = (nodes j + h j / (1+1))%F.
  Hypothesis node_step : forall j, nodes (j+1) = (nodes j + h j)%F.
  Hypothesis cnode_def : forall I, cnodes I = nodes (2*I).
  Hypothesis ch_def : forall I, ch I = (h (2*I) + h (2*I+1))%F.
  Hypothesis ccc_def : forall I, ccell_centers I = (cnodes I + ch I / (1+1))%F.

  Notation RW := (restrict_weights n lh lch ln nodes cell_centers h cnodes ccell_centers ch).

  Lemma two_nz_R : ((1 + 1)%F : R) <> 0%F.
  Proof. runfold. lra. Qed.
  Lemma hpair_nz_R : forall i, (h (2*i-2) + h (2*i-1))%F <> (0%F : R).
  Proof. intros i. runfold. pose proof (h_pos (2*i-2)). pose proof (h_pos (2*i-1)). lra. Qed.

  Theorem restrict_weights_bounds I :
    (1 <= I < n -> (0 <= fst (fst RW) I <= 1)%R) /\
    snd (fst RW) I = 1%F /\
    (0 <= I < n - 1 -> (0 <= snd RW I <= 1)%R).
  Proof.
    split; [|split].
    - intros HI.
      rewrite (rw_left_closed Rth two_nz_R nodes cell_centers h cnodes ccell_centers ch
                 n lh lch ln hpair_nz_R cc_def node_step cnode_def ch_def ccc_def I HI).
      runfold. apply frac_bounds; apply h_pos.
    - apply (rw_center nodes cell_centers h cnodes ccell_centers ch n lh lch ln I).
    - intros HI.
      rewrite (rw_right_closed Rth two_nz_R nodes cell_centers h cnodes ccell_centers ch
                 n lh lch ln hpair_nz_R cc_def cnode_def ch_def ccc_def I HI).
      runfold. replace (h (2*I) + h (2*I+1))%R with (h (2*I+1) + h (2*I))%R by ring.
      apply frac_bounds; apply h_pos.
  Qed.
End RestrictWR.
