(* Proofs/SourceAlg.v -- C10: the algebraic clauses (abstract field), the loop
   geometry and the point-source sum (reals), the executable witnesses (Q). *)
From Coq Require Import ZArith List Bool Reals Lra Lia Field Psatz QArith Nsatz.
From V Require Import Base.FieldSig Base.Arr Base.ExecQ Model.Source Proofs.Source.
Import ListNotations.

(* ------------------------------------------------------- abstract field F *)
Section Alg.
  Context {F : Type} {FO : FOps F}.
  Hypothesis Fth : field_theory F0 F1 Fadd Fmul Fsub Fopp Fdiv Finv (@eq F).
  Hypothesis two_nz : (1 + 1)%F <> 0%F.
  Add Field Ff : Fth.
  Variable leb : F -> F -> bool.
  Local Open Scope F_scope.

  (* each cell puts exactly its length fraction on each component *)
  Lemma spread_unity (r1 r2 xl : F) :
    (1 - r1) * (1 - r2) * xl + r1 * (1 - r2) * xl + (1 - r1) * r2 * xl + r1 * r2 * xl = xl.
  Proof. ring. Qed.

  Variables cosd sind : F -> F.

  Lemma rotation_unit az el :
    cosd az * cosd az + sind az * sind az = 1 -> cosd el * cosd el + sind el * sind el = 1 ->
    let r := rotation cosd sind az el in px r * px r + py r * py r + pz r * pz r = 1.
  Proof.
    intros Ha He. cbn [rotation px py pz].
    transitivity ((cosd az * cosd az + sind az * sind az) * (cosd el * cosd el) + sind el * sind el);
      [ring|]. rewrite Ha.
    transitivity (cosd el * cosd el + sind el * sind el); [ring | exact He].
  Qed.

  (* get_source_field scaling *)
  Variables pi mu0 : F.
  Lemma scale_none sr si v :
    source_scale leb pi mu0 None (sr, si) false v = Some (v * sr, v * si).
  Proof. unfold source_scale, cmul. cbn [fst snd]. f_equal. f_equal; ring. Qed.

  Lemma scale_laplace f sr v : feqb leb f 0 = false -> fltb leb f 0 = true ->
    source_scale leb pi mu0 (Some f) (sr, 0) false v = Some (v * sr * (- (- f * mu0)), 0).
  Proof.
    intros H0 H1. unfold source_scale, smu0, sval. rewrite H0, H1. unfold cmul. cbn [andb fst snd].
    f_equal. f_equal; ring.
  Qed.

  Lemma scale_freq f sr si stc v : feqb leb f 0 = false -> fltb leb f 0 = false ->
    source_scale leb pi mu0 (Some f) (sr, si) stc v
    = Some (cmul (v * sr, v * si) (0, - ((1 + 1) * pi * f * mu0))).
  Proof.
    intros H0 H1. unfold source_scale, smu0, sval, two. rewrite H0, H1. unfold cmul. cbn [andb fst snd].
    f_equal. f_equal; ring.
  Qed.

  Lemma scale_complex_on_real f sr si v : feqb leb f 0 = false -> fltb leb f 0 = true ->
    source_scale leb pi mu0 (Some f) (sr, si) true v = None /\
    source_scale leb pi mu0 None (sr, si) true v = None.
  Proof. intros H0 H1. unfold source_scale. now rewrite H0, H1. Qed.

  (* electrodes -> (centre, azimuth, elevation, length) -> electrodes *)
  Variable sqrt : F -> F.
  Variable angle : F -> F -> F.
  Hypothesis angle_cos : forall x y, sqrt (x * x + y * y) * cosd (angle x y) = x.
  Hypothesis angle_sin : forall x y, sqrt (x * x + y * y) * sind (angle x y) = y.
  Hypothesis sqrt_sq : forall x y, sqrt (x * x + y * y) * sqrt (x * x + y * y) = x * x + y * y.

  Lemma roundtrip p0 p1 :
    let apl := dipole_to_point sqrt angle p0 p1 in
    point_to_dipole cosd sind (half_sum p0 p1) (fst (fst apl)) (snd (fst apl)) (snd apl) = (p0, p1).
  Proof.
    cbv zeta. unfold dipole_to_point, point_to_dipole, half_sum, norm3. cbn [fst snd].
    set (dx := px p1 - px p0). set (dy := py p1 - py p0). set (dz := pz p1 - pz p0).
    set (rho := sqrt (dx * dx + dy * dy)).
    set (az := angle dx dy). set (el := angle rho dz).
    assert (Ec : sqrt (dx * dx + dy * dy + dz * dz) * cosd el = rho).
    { rewrite <- (sqrt_sq dx dy). fold rho. apply angle_cos. }
    assert (Es : sqrt (dx * dx + dy * dy + dz * dz) * sind el = dz).
    { rewrite <- (sqrt_sq dx dy). fold rho. apply angle_sin. }
    set (len := sqrt (dx * dx + dy * dy + dz * dz)) in *.
    assert (Ex : cosd az * cosd el * len = dx).
    { transitivity (len * cosd el * cosd az); [ring|]. rewrite Ec. apply angle_cos. }
    assert (Ey : sind az * cosd el * len = dy).
    { transitivity (len * cosd el * sind az); [ring|]. rewrite Ec. apply angle_sin. }
    assert (Ez : sind el * len = dz) by (rewrite <- Es; ring).
    unfold rotation, pscale, padd, pneg, two. cbn [px py pz]. rewrite Ex, Ey, Ez.
    destruct p0 as [x0 y0 z0], p1 as [x1 y1 z1]. unfold dx, dy, dz. cbn [px py pz].
    f_equal; f_equal; field; exact two_nz.
  Qed.

  (* flat <-> pairs reshaping *)
  Lemma flat_pairs (p : P3 F * P3 F) : match points_to_flat p with
                       | [x1; x2; y1; y2; z1; z2] => flat_to_points x1 x2 y1 y2 z1 z2 = p
                       | _ => False end.
  Proof. destruct p as [[a b c] [d e f]]. reflexivity. Qed.

  (* trilinear spreading preserves the first moment across the cell *)
  Lemma spread_first_moment (xc n h : F) : h <> 0 ->
    (1 - (xc - n) / h) * n + (xc - n) / h * (n + h) = xc.
  Proof. intros Hh. field. exact Hh. Qed.

  (* input forms: coordinates + keywords give the electrodes of the Tx* instance *)
  Lemma plain_point_form electric c az el len :
    plain_points leb cosd sind sqrt angle electric (PI_dip (DPoint c az el)) len
    = dipole_points leb cosd sind sqrt angle (negb electric) (DPoint c az el) len.
  Proof. reflexivity. Qed.
  Lemma plain_electrode_forms electric x1 x2 y1 y2 z1 z2 len len' :
    plain_points leb cosd sind sqrt angle electric (PI_dip (DFlat x1 x2 y1 y2 z1 z2)) len
    = dipole_points leb cosd sind sqrt angle (negb electric) (DPair (mkP3 x1 y1 z1) (mkP3 x2 y2 z2)) len' /\
    plain_points leb cosd sind sqrt angle electric (PI_dip (DPair (mkP3 x1 y1 z1) (mkP3 x2 y2 z2))) len
    = dipole_points leb cosd sind sqrt angle (negb electric) (DPair (mkP3 x1 y1 z1) (mkP3 x2 y2 z2)) len'.
  Proof. split; reflexivity. Qed.
  Lemma plain_magnetic_point_loop c az el len :
    plain_points leb cosd sind sqrt angle false (PI_dip (DPoint c az el)) len
    = Some (point_to_square_loop cosd sind sqrt c az el len).
  Proof. reflexivity. Qed.
  Lemma plain_electric_point_dipole c az el len :
    plain_points leb cosd sind sqrt angle true (PI_dip (DPoint c az el)) len
    = Some (fst (point_to_dipole cosd sind c az el len) :: snd (point_to_dipole cosd sind c az el len) :: nil).
  Proof. reflexivity. Qed.

  Lemma option_map_pair_snd {A B} (o : option A) (b b' : B) (a : A) :
    option_map (fun p => (p, b)) o = Some (a, b') -> b' = b.
  Proof. destruct o; cbn; congruence. Qed.

  (* keywords: an explicit strength is the strength of the instance, also when
     it is zero; a missing one is 1; explicit None raises *)
  Lemma gsf_plain_strength st klen kel inp pts st' :
    gsf_plain leb cosd sind sqrt angle (KwVal st) klen kel inp = Some (pts, st') -> st' = st.
  Proof.
    unfold gsf_plain. destruct klen; try destruct inp as [[? ? ?|? ? ? ? ? ?|? ?]|?];
      cbv iota beta; first [discriminate | apply option_map_pair_snd].
  Qed.
  Lemma gsf_plain_missing_strength klen kel inp pts st' :
    gsf_plain leb cosd sind sqrt angle KwMissing klen kel inp = Some (pts, st') -> st' = (1, 0).
  Proof.
    unfold gsf_plain. destruct klen; try destruct inp as [[? ? ?|? ? ? ? ? ?|? ?]|?];
      cbv iota beta; first [discriminate | apply option_map_pair_snd].
  Qed.
  Lemma gsf_plain_none_strength klen kel inp :
    gsf_plain leb cosd sind sqrt angle KwNone klen kel inp = None.
  Proof. reflexivity. Qed.
  Lemma gsf_plain_length_point kst len kel c az el :
    kst <> KwNone ->
    gsf_plain leb cosd sind sqrt angle kst (KwVal len) kel (PI_dip (DPoint c az el))
    = option_map (fun p => (p, match kst with KwVal v => v | _ => (1, 0) end))
        (dipole_points leb cosd sind sqrt angle (negb (kw_electric kel)) (DPoint c az el) len).
  Proof. intros H. destruct kst; try reflexivity. contradiction. Qed.

  (* the source field is linear in the strength; strength zero gives the zero field *)
  Lemma scale_linear freq k sr si stc v :
    source_scale leb pi mu0 freq (k * sr, k * si) stc v
    = option_map (fun z => (k * fst z, k * snd z)) (source_scale leb pi mu0 freq (sr, si) stc v).
  Proof.
    unfold source_scale. destruct freq as [f|].
    - destruct (feqb leb f 0); [reflexivity|]. destruct (fltb leb f 0 && stc)%bool; [reflexivity|].
      unfold cmul, smu0, sval, two. destruct (fltb leb f 0); cbn [option_map fst snd]; f_equal; f_equal; ring.
    - destruct stc; [reflexivity|]. unfold cmul. cbn [option_map fst snd]. f_equal. f_equal; ring.
  Qed.
  Lemma scale_zero_strength freq stc v z :
    source_scale leb pi mu0 freq (0, 0) stc v = Some z -> z = (0, 0).
  Proof.
    unfold source_scale. destruct freq as [f|].
    - destruct (feqb leb f 0); [discriminate|]. destruct (fltb leb f 0 && stc)%bool; [discriminate|].
      unfold cmul, smu0, sval, two. destruct (fltb leb f 0); cbn [fst snd]; intros E; injection E as <-;
        f_equal; ring.
    - destruct stc; [discriminate|]. unfold cmul. cbn [fst snd]. intros E. injection E as <-. f_equal; ring.
  Qed.
End Alg.

(* ----------------------------------------------- loop geometry over R *)
Local Open Scope R_scope.
Section Loop.
  Variables cosd sind sqrt : R -> R.
  Variables az el area : R.
  Hypothesis Haz : cosd az * cosd az + sind az * sind az = 1.
  Hypothesis Hel : cosd el * cosd el + sind el * sind el = 1.
  Hypothesis c90a : cosd (az + 90) = - sind az.
  Hypothesis s90a : sind (az + 90) = cosd az.
  Hypothesis c90e : cosd (el + 90) = - sind el.
  Hypothesis s90e : sind (el + 90) = cosd el.
  Hypothesis c0 : cosd 0 = 1.
  Hypothesis s0 : sind 0 = 0.
  Hypothesis Hsq : sqrt (area / 2) * sqrt (area / 2) = area / 2.

  Definition pdot (a b : P3 R) : R := px a * px b + py a * py b + pz a * pz b.
  Definition pcross (a b : P3 R) : P3 R :=
    mkP3 (py a * pz b - pz a * py b) (pz a * px b - px a * pz b) (px a * py b - py a * px b).
  Definition pminus (a b : P3 R) : P3 R := mkP3 (px a - px b) (py a - py b) (pz a - pz b).

  Lemma ninety_R : @ninety R ROpsS = 90.
  Proof. unfold ninety. runf. lra. Qed.

  Lemma loop_geometry (c : P3 R) :
    exists q0 q1 q2 q3 q4,
      point_to_square_loop cosd sind sqrt c az el area = [q0; q1; q2; q3; q4] /\
      q4 = q0 /\
      (let n := rotation cosd sind az el in
       pdot (pminus q0 c) n = 0 /\ pdot (pminus q1 c) n = 0 /\
       pdot (pminus q2 c) n = 0 /\ pdot (pminus q3 c) n = 0 /\
       pdot (pminus q1 q0) (pminus q1 q0) = area /\ pdot (pminus q2 q1) (pminus q2 q1) = area /\
       pdot (pminus q3 q2) (pminus q3 q2) = area /\ pdot (pminus q4 q3) (pminus q4 q3) = area /\
       pdot (pminus q1 q0) (pminus q2 q1) = 0 /\
       pcross (pminus q1 q0) (pminus q2 q1) = mkP3 (area * px n) (area * py n) (area * pz n)).
  Proof.
    unfold point_to_square_loop. do 5 eexists. split; [reflexivity|]. split; [reflexivity|].
    cbv zeta. unfold rotation, pscale, padd, pneg, pdot, pminus, pcross. cbn [px py pz].
    rewrite !ninety_R. runf. rewrite c90a, s90a, c90e, s90e, c0, s0.
    set (h := sqrt (area / 2)) in *. set (ca := cosd az) in *. set (sa := sind az) in *.
    set (ce := cosd el) in *. set (se := sind el) in *.
    assert (Hh : h * h * 2 = area) by lra.
    repeat split; try (f_equal); nsatz.
  Qed.

  (* magnetic moment of the closed loop, 1/2 sum r_i x r_{i+1} about the centre,
     = area * rotation(az, el) *)
  Definition padd3 (a b : P3 R) : P3 R := mkP3 (px a + px b) (py a + py b) (pz a + pz b).
  Lemma loop_moment (c : P3 R) :
    exists q0 q1 q2 q3 q4,
      point_to_square_loop cosd sind sqrt c az el area = (q0 :: q1 :: q2 :: q3 :: q4 :: nil) /\
      (let n := rotation cosd sind az el in
       let m := padd3 (padd3 (pcross (pminus q0 c) (pminus q1 c)) (pcross (pminus q1 c) (pminus q2 c)))
                      (padd3 (pcross (pminus q2 c) (pminus q3 c)) (pcross (pminus q3 c) (pminus q4 c))) in
       m = mkP3 (2 * (area * px n)) (2 * (area * py n)) (2 * (area * pz n))).
  Proof.
    unfold point_to_square_loop. do 5 eexists. split; [reflexivity|].
    cbv zeta. unfold rotation, pscale, padd, pneg, pminus, pcross, padd3. cbn [px py pz].
    rewrite !ninety_R. runf. rewrite c90a, s90a, c90e, s90e, c0, s0.
    set (h := sqrt (area / 2)) in *. set (ca := cosd az) in *. set (sa := sind az) in *.
    set (ce := cosd el) in *. set (se := sind el) in *.
    assert (Hh : h * h * 2 = area) by lra.
    f_equal; nsatz.
  Qed.
End Loop.

(* the contracts hold for Coq's real sine and cosine in degrees *)
Definition cosdR (a : R) : R := cos (a * PI / 180).
Definition sindR (a : R) : R := sin (a * PI / 180).
Lemma trig_contract a :
  cosdR a * cosdR a + sindR a * sindR a = 1 /\ cosdR (a + 90) = - sindR a /\ sindR (a + 90) = cosdR a.
Proof.
  unfold cosdR, sindR. replace ((a + 90) * PI / 180) with (PI / 2 + a * PI / 180) by field.
  split; [|split].
  - pose proof (sin2_cos2 (a * PI / 180)) as H. unfold Rsqr in H. lra.
  - rewrite (sin_cos (a * PI / 180)). lra.
  - rewrite (cos_sin (a * PI / 180)). reflexivity.
Qed.
Lemma trig_zero : cosdR 0 = 1 /\ sindR 0 = 0.
Proof. unfold cosdR, sindR. replace (0 * PI / 180) with 0 by field. split; [apply cos_0 | apply sin_0]. Qed.

(* ------------------------------------------------ point source: total = 1 *)
Lemma lsum_scal_l {A} (f : A -> R) c l : lsum (fun x => c * f x) l = c * lsum f l.
Proof. induction l as [|x l IH]; cbn; [lra | rewrite IH; lra]. Qed.

Lemma lsum_upd1 (f : Z -> R) a v lo : forall m, (lo <= m)%Z ->
  lsum (upd1 f a v) (zrange lo m)
  = lsum f (zrange lo m) + (if (Z.leb lo a && Z.ltb a m)%bool then v - f a else 0).
Proof.
  apply zrange_ind.
  - rewrite zrange_nil by lia. cbn. destruct (Z.leb_spec lo a), (Z.ltb_spec a lo); cbn; try lra; lia.
  - intros m Hm IH. rewrite zrange_snoc by lia. rewrite !lsum_app, IH. cbn [lsum].
    replace (upd1 f a v m) with (if Z.eqb m a then v else f m) by reflexivity.
    destruct (Z.eqb_spec m a) as [->|Hne].
    + destruct (Z.leb_spec lo a), (Z.ltb_spec a a), (Z.ltb_spec a (a + 1)); cbn; try lra; lia.
    + destruct (Z.leb_spec lo a), (Z.ltb_spec a m), (Z.ltb_spec a (m + 1)); cbn; try lra; lia.
Qed.

Lemma lsum_zero lo m : lsum (fun _ : Z => 0) (zrange lo m) = 0.
Proof. unfold zrange. induction (seq 0 (Z.to_nat (m - lo))); cbn; lra. Qed.

(* one direction of point_source: the two weights, later assignment wins *)
Definition w1d (a b : Z) (e r : R) : Z -> R := upd1 (upd1 (fun _ => 0) a e) b r.

Lemma w1d_sum a b e r m : (0 <= a < m)%Z -> (0 <= b < m)%Z ->
  lsum (w1d a b e r) (zrange 0 m) = if Z.eqb b a then r else e + r.
Proof.
  intros Ha Hb. unfold w1d. rewrite !lsum_upd1 by lia. rewrite lsum_zero.
  destruct (Z.leb_spec 0 a), (Z.ltb_spec a m), (Z.leb_spec 0 b), (Z.ltb_spec b m); try lia. cbn [andb].
  unfold upd1. destruct (Z.eqb_spec b a); lra.
Qed.

Lemma point_source_product (xx yy zz : Z -> R) mx my mz p i j k :
  point_source Rleb xx yy zz mx my mz p i j k =
  w1d (cell_ind Rleb (px p) xx mx) (gis_i1 (cell_ind Rleb (px p) xx mx) mx)
      (gis_e (cell_ind Rleb (px p) xx mx) mx (px p) xx) (gis_r (cell_ind Rleb (px p) xx mx) mx (px p) xx) i *
  w1d (cell_ind Rleb (py p) yy my) (gis_i1 (cell_ind Rleb (py p) yy my) my)
      (gis_e (cell_ind Rleb (py p) yy my) my (py p) yy) (gis_r (cell_ind Rleb (py p) yy my) my (py p) yy) j *
  w1d (cell_ind Rleb (pz p) zz mz) (gis_i1 (cell_ind Rleb (pz p) zz mz) mz)
      (gis_e (cell_ind Rleb (pz p) zz mz) mz (pz p) zz) (gis_r (cell_ind Rleb (pz p) zz mz) mz (pz p) zz) k.
Proof.
  unfold point_source. cbv zeta.
  generalize (cell_ind Rleb (px p) xx mx) as ix. intros ix.
  generalize (cell_ind Rleb (py p) yy my) as iy. intros iy.
  generalize (cell_ind Rleb (pz p) zz mz) as iz. intros iz.
  generalize (gis_i1 ix mx) (gis_e ix mx (px p) xx) (gis_r ix mx (px p) xx). intros ix1 ex rx.
  generalize (gis_i1 iy my) (gis_e iy my (py p) yy) (gis_r iy my (py p) yy). intros iy1 ey ry.
  generalize (gis_i1 iz mz) (gis_e iz mz (pz p) zz) (gis_r iz mz (pz p) zz). intros iz1 ez rz.
  unfold w1d, upd3, upd1, zero3.
  destruct (Z.eqb i ix), (Z.eqb i ix1), (Z.eqb j iy), (Z.eqb j iy1), (Z.eqb k iz), (Z.eqb k iz1);
    cbn [andb]; runf; ring.
Qed.

Lemma cell_ind_range v vec m : (1 <= m)%Z -> (0 <= cell_ind Rleb v vec m < m)%Z.
Proof.
  intros Hm. unfold cell_ind, first_gt.
  pose proof (first_gt_aux_spec v vec (Z.to_nat m) 0%Z) as S. cbv zeta in S.
  rewrite Z2Nat.id in S by lia. lia.
Qed.

Lemma gis_sum ic nc csrc cvec : (0 <= ic < nc)%Z ->
  (0 <= gis_i1 ic nc < nc)%Z /\
  (if Z.eqb (gis_i1 ic nc) ic then gis_r ic nc csrc cvec else gis_e ic nc csrc cvec + gis_r ic nc csrc cvec) = 1.
Proof.
  intros H. unfold gis_i1, gis_e, gis_r. destruct (Z.eqb_spec ic (nc - 1)).
  - rewrite Z.eqb_refl. split; [lia | reflexivity].
  - destruct (Z.eqb_spec (ic + 1) ic); [lia|]. split; [lia|]. runf. lra.
Qed.

Definition sum3 (f : Z -> Z -> Z -> R) (m1 m2 m3 : Z) : R :=
  lsum (fun i => lsum (fun j => lsum (fun k => f i j k) (zrange 0 m3)) (zrange 0 m2)) (zrange 0 m1).

Lemma sum3_ext f g m1 m2 m3 : (forall i j k, f i j k = g i j k) -> sum3 f m1 m2 m3 = sum3 g m1 m2 m3.
Proof.
  intros H. unfold sum3. apply lsum_ext. intros i _. apply lsum_ext. intros j _.
  apply lsum_ext. intros k _. apply H.
Qed.

Lemma sum3_product (w1 w2 w3 : Z -> R) m1 m2 m3 :
  sum3 (fun i j k => w1 i * w2 j * w3 k) m1 m2 m3
  = lsum w1 (zrange 0 m1) * lsum w2 (zrange 0 m2) * lsum w3 (zrange 0 m3).
Proof.
  unfold sum3.
  rewrite (lsum_ext _ (fun i => w1 i * (lsum w2 (zrange 0 m2) * lsum w3 (zrange 0 m3)))).
  - rewrite lsum_scal. ring.
  - intros i _. rewrite (lsum_ext _ (fun j => w2 j * (w1 i * lsum w3 (zrange 0 m3)))).
    + rewrite lsum_scal. ring.
    + intros j _. rewrite (lsum_scal_l w3 (w1 i * w2 j)). ring.
Qed.

Lemma point_source_total xx yy zz mx my mz p : (1 <= mx)%Z -> (1 <= my)%Z -> (1 <= mz)%Z ->
  sum3 (point_source Rleb xx yy zz mx my mz p) mx my mz = 1.
Proof.
  intros Hx Hy Hz.
  pose proof (cell_ind_range (px p) xx mx Hx) as Rx. pose proof (cell_ind_range (py p) yy my Hy) as Ry.
  pose proof (cell_ind_range (pz p) zz mz Hz) as Rz.
  destruct (gis_sum _ mx (px p) xx Rx) as [Bx Sx]. destruct (gis_sum _ my (py p) yy Ry) as [By Sy].
  destruct (gis_sum _ mz (pz p) zz Rz) as [Bz Sz].
  rewrite (sum3_ext _ _ _ _ _ (point_source_product xx yy zz mx my mz p)).
  rewrite sum3_product.
  rewrite (w1d_sum _ _ _ _ mx Rx Bx), (w1d_sum _ _ _ _ my Ry By), (w1d_sum _ _ _ _ mz Rz Bz).
  rewrite Sx, Sy, Sz. lra.
Qed.

Lemma sum3_scal f c m1 m2 m3 : sum3 (fun i j k => f i j k * c) m1 m2 m3 = sum3 f m1 m2 m3 * c.
Proof.
  unfold sum3. rewrite <- lsum_scal. apply lsum_ext. intros i _.
  rewrite <- lsum_scal. apply lsum_ext. intros j _. apply lsum_scal.
Qed.

(* point_source_sum *)
Lemma point_vector_sum cosd sind G p az el fx fy fz :
  (1 <= an (gx G))%Z -> (1 <= an (gy G))%Z -> (1 <= an (gz G))%Z ->
  point_vector Rleb cosd sind G p az el = Some (fx, fy, fz) ->
  sum3 fx (an (gx G)) (an (gy G) + 1) (an (gz G) + 1) = cosd az * cosd el /\
  sum3 fy (an (gx G) + 1) (an (gy G)) (an (gz G) + 1) = sind az * cosd el /\
  sum3 fz (an (gx G) + 1) (an (gy G) + 1) (an (gz G)) = sind el.
Proof.
  intros Hx Hy Hz. unfold point_vector. destruct (outside Rleb G p); [discriminate|].
  cbv zeta. intros E. injection E as <- <- <-. cbn [rotation px py pz].
  repeat split; rewrite (sum3_scal _ _); rewrite point_source_total by lia; runf; lra.
Qed.

Lemma point_vector_outside cosd sind G p az el :
  point_vector Rleb cosd sind G p az el = None <-> ~ inside G p.
Proof.
  unfold point_vector. destruct (outside Rleb G p) eqn:E.
  - split; [|reflexivity]. intros _ H. apply outside_false in H. congruence.
  - cbv zeta. split; [discriminate|]. intros H. exfalso. apply H. now apply outside_false.
Qed.

(* ------------------------------------------------ executable witnesses (Q) *)
Definition wit_axis : Axis Q := mkAxis 2 (arr_of_list 0%Q [0%Q; 1%Q; 2%Q]) (arr_of_list 0%Q [1%Q; 1%Q]).
Definition wit_grid : Grid Q := mkGrid wit_axis wit_axis wit_axis.
Definition wit_p0 : P3 Q := mkP3 (1 # 2)%Q 2%Q (1 # 2)%Q.
Definition wit_p1 : P3 Q := mkP3 (3 # 2)%Q 2%Q (1 # 2)%Q.
Definition stat_of (r : SrcRes Q) : list (Z * Z * Z) := match r with SErr _ => [] | SOk _ st => st end.
Definition sums_of (r : SrcRes Q) : list Q :=
  match r with SErr _ => [] | SOk l _ => [csum 0 l; csum 1 l; csum 2 l] end.

(* the pinned code: a dipole in the upper boundary plane y = 2 of the grid
   [0,2]^3 is inside the grid by the function's own test, visits no cell and
   divides 0 by 0 in all three components *)
Lemma upper_boundary_refuted :
  outside Qle_bool wit_grid wit_p0 = false /\ outside Qle_bool wit_grid wit_p1 = false /\
  seg_cells Qle_bool false wit_grid wit_p0 wit_p1 = nil /\
  stat_of (dipole_vector Qle_bool false wit_grid (wit_p0 :: wit_p1 :: nil)) = ((2, 2, 2)%Z :: nil).
Proof. vm_compute. repeat split. Qed.

(* the repaired variant on the same input: moment (1, 0, 0), no warning *)
Lemma upper_boundary_repaired :
  stat_of (dipole_vector Qle_bool true wit_grid (wit_p0 :: wit_p1 :: nil)) = ((0, 0, 0)%Z :: nil) /\
  sums_of (dipole_vector Qle_bool true wit_grid (wit_p0 :: wit_p1 :: nil)) = (1%Q :: 0%Q :: 0%Q :: nil).
Proof. vm_compute. repeat split. Qed.

(* ------------------------------------------------------------ non-vacuity *)
Definition ex_axis : Axis R := mkAxis 2 IZR (fun _ => 1).
Definition ex_grid : Grid R := mkGrid ex_axis ex_axis ex_axis.
Definition ex_p0 : P3 R := mkP3 0 (1 / 2) 1.
Definition ex_p1 : P3 R := mkP3 2 (1 / 2) 1.

Lemma ex_axis_ok : axis_ok ex_axis.
Proof.
  split; [cbn; lia|]. intros i Hi. cbn [ex_axis ah anode]. split; [lra|]. rewrite plus_IZR. lra.
Qed.

(* endpoints on nodes, spanning the grid in x, no extent in y and z *)
Lemma ex_hyps : grid_ok ex_grid /\ inside ex_grid ex_p0 /\ inside ex_grid ex_p1 /\
                seg_upper_ok false ex_grid ex_p0 ex_p1.
Proof.
  split; [split; [apply ex_axis_ok | split; apply ex_axis_ok]|].
  unfold inside, inside1, seg_upper_ok, upper_ok. cbn. repeat split; try lra; right; (left; lra) || (right; lra).
Qed.

Lemma ex_point_some cosd sind az el :
  exists t, point_vector Rleb cosd sind ex_grid (mkP3 (1 / 2) 1 (3 / 2)) az el = Some t.
Proof.
  destruct (point_vector Rleb cosd sind ex_grid (mkP3 (1 / 2) 1 (3 / 2)) az el) eqn:E; [eauto|].
  apply point_vector_outside in E. exfalso. apply E.
  unfold inside, inside1. cbn. repeat split; lra.
Qed.

Lemma ex_loop_contract az el area : 0 <= area ->
  cosdR az * cosdR az + sindR az * sindR az = 1 /\ cosdR el * cosdR el + sindR el * sindR el = 1 /\
  cosdR (az + 90) = - sindR az /\ sindR (az + 90) = cosdR az /\
  cosdR (el + 90) = - sindR el /\ sindR (el + 90) = cosdR el /\
  cosdR 0 = 1 /\ sindR 0 = 0 /\ sqrt (area / 2) * sqrt (area / 2) = area / 2.
Proof.
  intros Ha. destruct (trig_contract az) as [A1 [A2 A3]]. destruct (trig_contract el) as [E1 [E2 E3]].
  destruct trig_zero. repeat split; try assumption. apply sqrt_sqrt. lra.
Qed.

Lemma ex_laplace : feqb Rleb (-1) 0 = false /\ fltb Rleb (-1) 0 = true.
Proof. split; [apply feqb_false; lra | apply fltb_true; lra]. Qed.

Lemma ex_zero_strength :
  source_scale Rleb PI 1 (Some 2) (0, 0) false 3 = Some (0, 0) /\
  source_scale Rleb PI 1 None (0, 0) false 3 = Some (0, 0).
Proof.
  assert (E1 : feqb Rleb 2 0 = false) by (apply feqb_false; lra).
  assert (E2 : fltb Rleb 2 0 = false) by (apply fltb_false; lra).
  unfold source_scale, smu0, sval, cmul. runf. rewrite E1, !E2. cbn [andb fst snd].
  split; f_equal; f_equal; ring.
Qed.
