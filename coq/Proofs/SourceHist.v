(* Proofs/SourceHist.v -- history independence of the get_source_field machine
   (Model/SourceHist.v) for ALL histories, by an invariant; and the refutation
   for the variant that keeps the vector with the instance and hands the stored
   array out without a copy. *)
From Coq Require Import List Arith Bool Lia ZArith.
From V Require Import Model.SourceHist.
Import ListNotations.

Section Proofs.
  Variables (Grid Freq Ed Vec : Type) (vdef : Vec).
  Variable geqb : Grid -> Grid -> bool.
  Variable is_real : Freq -> bool.
  Variable vecof : Grid -> Vec.
  Variable scale : Freq -> Vec -> Vec.
  Variable edit : Ed -> Vec -> Vec.
  Hypothesis geqb_true : forall a b, geqb a b = true -> a = b.

  Notation St := (St Grid Vec).
  Notation Op := (Op Grid Freq Ed).
  Notation Got := (Got Grid Vec).
  Notation step := (step Grid Freq Ed Vec geqb is_real vecof scale edit).
  Notation run := (run Grid Freq Ed Vec geqb is_real vecof scale edit).
  Notation spec_obs := (spec_obs Grid Freq Ed Vec vecof scale).
  Notation spec_outs_step := (spec_outs_step Grid Freq Ed Vec vecof scale edit).
  Notation spec_outs := (spec_outs Grid Freq Ed Vec vecof scale edit).
  Notation hset := (hset Vec).
  Notation get_vector := (get_vector Grid Vec geqb vecof).
  Notation hand_out := (hand_out Grid Vec).
  Notation as_field := (as_field Grid Freq Vec is_real).
  Notation list_upd := (list_upd Vec).

  Lemma hset_eq h i v : hset h i v i = v.
  Proof. unfold SourceHist.hset. now rewrite Nat.eqb_refl. Qed.
  Lemma hset_neq h i v j : j <> i -> hset h i v j = h j.
  Proof. intro H. unfold SourceHist.hset. destruct (Nat.eqb_spec j i); [contradiction | reflexivity]. Qed.

  Lemma map_hset_notin h i v l : ~ In i l -> map (hset h i v) l = map h l.
  Proof.
    induction l as [|a l IH]; intro H; [reflexivity|]. cbn [map].
    rewrite hset_neq by (intro E; apply H; left; now subst). f_equal. apply IH. intro; apply H; now right.
  Qed.

  Lemma map_hset_nth h l : forall k id fn, NoDup l -> nth_error l k = Some id ->
    map (hset h id (fn (h id))) l = list_upd (map h l) k fn.
  Proof.
    induction l as [|a l IH]; intros k id fn ND Hn; [destruct k; discriminate|].
    inversion ND as [|? ? Hnot ND']; subst. destruct k as [|k]; cbn in Hn |- *.
    - injection Hn as ->. rewrite hset_eq. f_equal. now apply map_hset_notin.
    - assert (a <> id) by (intro; subst; apply Hnot; eapply nth_error_In; eauto).
      rewrite hset_neq by assumption. f_equal. now apply IH.
  Qed.

  Lemma list_upd_ge (l : list Vec) : forall k fn, length l <= k -> list_upd l k fn = l.
  Proof.
    induction l as [|a l IH]; intros k fn H; [reflexivity|]. destruct k; cbn in *; [lia|].
    f_equal. apply IH. lia.
  Qed.

  Lemma NoDup_snoc (l : list nat) x : NoDup l -> ~ In x l -> NoDup (l ++ [x]).
  Proof.
    induction l as [|a l IH]; intros ND Hn; cbn; [constructor; [intros []|constructor]|].
    inversion ND as [|? ? Ha ND']; subst. constructor.
    - intro Hin. apply in_app_or in Hin. destruct Hin as [Hin|[E|[]]]; [contradiction|].
      apply Hn. left. auto.
    - apply IH; auto. intro; apply Hn; now right.
  Qed.

  (* ---- the invariant ---- *)
  Definition kept_ok (h : nat -> Vec) (n : nat) (k : option (Grid * nat)) (os : list nat) : Prop :=
    match k with Some (g, id) => id < n /\ h id = vecof g /\ ~ In id os | None => True end.

  Definition Inv (s : St) (l : list Vec) : Prop :=
    Forall (fun id => id < next _ _ s) (outs _ _ s) /\ NoDup (outs _ _ s) /\
    map (heap _ _ s) (outs _ _ s) = l /\
    kept_ok (heap _ _ s) (next _ _ s) (kept _ _ s) (outs _ _ s).

  Lemma inv_st0 : Inv (st0 Grid Vec vdef) [].
  Proof. repeat split; cbn; auto; constructor. Qed.

  (* what a request obtains: a fresh array id holding the unit vector of the grid *)
  Lemma request_shape memo copy_out s l g f : Inv s l -> memo = false \/ copy_out = true ->
    let v := as_field f (hand_out memo copy_out (get_vector memo s g)) in
    next _ _ s <= gid _ _ v < gnext _ _ v /\
    gheap _ _ v (gid _ _ v) = vecof g /\
    (forall j, j < next _ _ s -> gheap _ _ v j = heap _ _ s j) /\
    match gkept _ _ v with
    | Some (g', id) => id < gnext _ _ v /\ gheap _ _ v id = vecof g' /\ id <> gid _ _ v /\
                       (kept _ _ s = Some (g', id) \/ next _ _ s <= id)
    | None => True
    end.
  Proof.
    intros (Hlt & ND & Hmap & Hk) Hv.
    unfold SourceHist.as_field, SourceHist.hand_out, SourceHist.get_vector, kept_ok in *.
    destruct memo, copy_out; try (destruct Hv; discriminate); cbn [andb];
      destruct (kept _ _ s) as [[g' id]|] eqn:Ek;
      try (destruct (geqb g' g) eqn:Eg; [apply geqb_true in Eg; subst g'|]);
      destruct (is_real f); cbn [gheap gnext gid gkept];
      repeat match goal with H : _ /\ _ |- _ => destruct H end;
      repeat split; intros;
      repeat (rewrite ?hset_eq; rewrite ?hset_neq by lia); auto; try lia.
  Qed.

  Lemma step_inv memo copy_out s l o : Inv s l -> memo = false \/ copy_out = true ->
    Inv (fst (step memo copy_out s o)) (spec_outs_step l o) /\
    snd (step memo copy_out s o) = spec_obs o /\
    next _ _ s <= next _ _ (fst (step memo copy_out s o)).
  Proof.
    intros HI Hv. destruct o as [g f | k e].
    - pose proof (request_shape memo copy_out s l g f HI Hv) as HS. cbv zeta in HS.
      destruct HI as (Hlt & ND & Hmap & Hk).
      cbn [SourceHist.step fst snd spec_obs SourceHist.spec_obs spec_outs_step SourceHist.spec_outs_step].
      set (v := as_field f (hand_out memo copy_out (get_vector memo s g))) in *.
      destruct HS as ((Hlo & Hhi) & Hval & Hframe & Hkept).
      assert (Hnotin : ~ In (gid _ _ v) (outs _ _ s)).
      { intro Hin. rewrite Forall_forall in Hlt. apply Hlt in Hin. lia. }
      repeat split; cbn [heap next kept outs].
      + rewrite Forall_forall in *. intros id Hin. apply in_app_or in Hin. destruct Hin as [Hin|[<-|[]]].
        * apply Hlt in Hin. lia.
        * lia.
      + now apply NoDup_snoc.
      + rewrite map_app. cbn [map]. rewrite hset_eq, Hval. f_equal.
        rewrite map_hset_notin by assumption. rewrite <- Hmap. apply map_ext_in.
        intros a Ha. apply Hframe. rewrite Forall_forall in Hlt. now apply Hlt.
      + unfold kept_ok. destruct (gkept _ _ v) as [[g' id]|]; [|exact I].
        destruct Hkept as (H1 & H2 & H3 & H4). repeat split; auto.
        * now rewrite hset_neq.
        * intro Hin. apply in_app_or in Hin. destruct Hin as [Hin|[E|[]]]; [|now apply H3].
          destruct H4 as [H4|H4].
          -- unfold kept_ok in Hk. rewrite H4 in Hk. now apply Hk.
          -- rewrite Forall_forall in Hlt. apply Hlt in Hin. lia.
      + now rewrite hset_eq, Hval.
      + lia.
    - destruct HI as (Hlt & ND & Hmap & Hk).
      cbn [SourceHist.step spec_obs SourceHist.spec_obs spec_outs_step SourceHist.spec_outs_step].
      destruct (nth_error (outs _ _ s) k) as [id|] eqn:En; cbn [fst snd heap next kept outs].
      + assert (Hin : In id (outs _ _ s)) by (eapply nth_error_In; eauto).
        repeat split; auto.
        * rewrite <- Hmap. now apply map_hset_nth.
        * unfold kept_ok in *. destruct (kept _ _ s) as [[g' kid]|]; [|exact I].
          destruct Hk as (H1 & H2 & H3). repeat split; auto.
          cbn [heap]. rewrite hset_neq; auto. intro; subst; contradiction.
      + repeat split; auto. rewrite list_upd_ge; auto.
        rewrite <- Hmap, map_length. now apply nth_error_None.
  Qed.

  (* ---- all histories ---- *)
  Lemma run_inv memo copy_out ops : forall s l, Inv s l -> memo = false \/ copy_out = true ->
    Inv (fst (run memo copy_out s ops)) (spec_outs l ops) /\
    snd (run memo copy_out s ops) = map spec_obs ops.
  Proof.
    induction ops as [|o t IH]; intros s l HI Hv; [split; [exact HI | reflexivity]|].
    cbn [SourceHist.run fst snd map]. unfold SourceHist.spec_outs. cbn [fold_left].
    destruct (step_inv memo copy_out s l o HI Hv) as (HI' & Hob & _).
    destruct (IH _ _ HI' Hv) as (HI'' & Hobs). split; [exact HI''|]. now rewrite Hob, Hobs.
  Qed.

  (* Every request of every history (requests on any grids and frequencies,
     interleaved with in-place edits of returned arrays by the caller) returns
     scale f (vecof g); the returned arrays are pairwise distinct, are not the
     array kept with the instance, and hold what was returned changed only by
     the caller's own edits. *)
  Theorem history_independent_gen memo copy_out ops : memo = false \/ copy_out = true ->
    let r := run memo copy_out (st0 Grid Vec vdef) ops in
    snd r = map spec_obs ops /\
    map (heap _ _ (fst r)) (outs _ _ (fst r)) = spec_outs [] ops /\
    NoDup (outs _ _ (fst r)) /\
    (forall g id, kept _ _ (fst r) = Some (g, id) ->
       ~ In id (outs _ _ (fst r)) /\ heap _ _ (fst r) id = vecof g).
  Proof.
    intros Hv r. destruct (run_inv memo copy_out ops _ _ inv_st0 Hv) as ((H1 & H2 & H3 & H4) & Hobs).
    fold r in H1, H2, H3, H4, Hobs. repeat split; auto;
      unfold kept_ok in H4; rewrite H in H4; tauto.
  Qed.

  (* the pinned code never keeps anything with the instance *)
  Lemma run_keeps_nothing copy_out ops : forall s, kept _ _ s = None ->
    kept _ _ (fst (run false copy_out s ops)) = None.
  Proof.
    induction ops as [|o t IH]; intros s Hs; [exact Hs|]. cbn [SourceHist.run fst]. apply IH.
    destruct o as [g f|k e]; cbn [SourceHist.step fst].
    - unfold SourceHist.as_field, SourceHist.hand_out, SourceHist.get_vector. cbn [andb].
      destruct (is_real f); cbn [gkept kept]; exact Hs.
    - destruct (nth_error (outs _ _ s) k); cbn [fst kept]; exact Hs.
  Qed.
End Proofs.

(* ---- the excluded class is not empty: vector kept with the instance and the
        stored array handed out (memo = true, copy_out = false).  One grid,
        requests: true = real-valued (in-place scaling hits the stored array),
        scaling = times 3, unit vector = 1. ---- *)
Definition ex_run (memo copy_out : bool) (ops : list (Op unit bool unit)) : list (option Z) :=
  snd (run unit bool unit Z (fun _ _ => true) (fun b => b) (fun _ => 1%Z)
           (fun _ v => (3 * v)%Z) (fun _ v => v) memo copy_out (st0 unit Z 0%Z) ops).

Lemma memo_alias_refuted_lemma :
  ex_run true false [Request _ _ _ tt true; Request _ _ _ tt true; Request _ _ _ tt false]
  = [Some 3%Z; Some 9%Z; Some 27%Z] /\
  ex_run false false [Request _ _ _ tt true; Request _ _ _ tt true; Request _ _ _ tt false]
  = [Some 3%Z; Some 3%Z; Some 3%Z] /\
  ex_run true true [Request _ _ _ tt true; Request _ _ _ tt true; Request _ _ _ tt false]
  = [Some 3%Z; Some 3%Z; Some 3%Z].
Proof. repeat split; vm_compute; reflexivity. Qed.
