(* Proofs/MGContracts.v -- kernel-level instances of the contracts under which
   Proofs/MGSem.v proves that a multigrid cycle leaves an exact solution
   unchanged.  Each is about a REGENERATED kernel (Gen/CoreAmat.v,
   Gen/CoreRestrict.v) or the prolongation model (Model/Prolong.v):

     residual of the zero field is the source itself (A 0 = 0)      [coarse_zero_exact]
     restriction of an all-zero residual into zero arrays is zero   [restr_zero]
     prolongation of an all-zero coarse field adds nothing          [prol_zero]

   The fourth contract (a smoother returns an exact solution unchanged) is
   point_smoother_leaves_exact_solution_unchanged and the three
   line_*_smoother_leaves_exact_solution_unchanged of Props/C03.v. *)
From Coq Require Import ZArith Bool Field Lia.
From V Require Import Base.Loops Base.Loops3 Base.Arr Base.FieldSig.
From V Require Import Gen.CoreAmat Gen.CoreRestrict Gen.SolverHelpers.
From V Require Import Model.FIT Proofs.AmatFIT Model.Prolong Proofs.RestrictTensor.
Local Open Scope Z_scope.

Section K.
  Context {F : Type} {O : FOps F}.
  Hypothesis Fth : field_theory F0 F1 Fadd Fmul Fsub Fopp Fdiv Finv (@eq F).
  Hypothesis two_nz : (1 + 1)%F <> 0%F.
  Add Field FthK : Fth.

  (* --- residual of the zero field ---------------------------------------- *)
  Section Amat.
    Variables (eta_x eta_y eta_z zeta : Z -> Z -> Z -> F) (hx hy hz : Z -> F).
    Hypothesis hx_nz : forall i, hx i <> 0%F.
    Hypothesis hy_nz : forall i, hy i <> 0%F.
    Hypothesis hz_nz : forall i, hz i <> 0%F.
    Let z3 : Z -> Z -> Z -> F := fun _ _ _ => 0%F.

    Lemma A_x_zero i j k : A_x z3 z3 z3 eta_x zeta hx hy hz i j k = 0%F.
    Proof.
      unfold A_x, curlT_x, u_y, u_z, curl_y, curl_z, z3.
      destruct ((j =? 0) || (k =? 0))%bool; field; auto.
    Qed.
    Lemma A_y_zero i j k : A_y z3 z3 z3 eta_y zeta hx hy hz i j k = 0%F.
    Proof.
      unfold A_y, curlT_y, u_x, u_z, curl_x, curl_z, z3.
      destruct ((i =? 0) || (k =? 0))%bool; field; auto.
    Qed.
    Lemma A_z_zero i j k : A_z z3 z3 z3 eta_z zeta hx hy hz i j k = 0%F.
    Proof.
      unfold A_z, curlT_z, u_x, u_y, curl_x, curl_y, z3.
      destruct ((i =? 0) || (j =? 0))%bool; field; auto.
    Qed.

    (* solver.residual(model, sfield, efield = 0) = sfield, for every shape *)
    Theorem residual_of_zero_field_is_the_source nx ny nz (sx sy sz : Z -> Z -> Z -> F) :
      0 <= nx -> 0 <= ny -> 0 <= nz -> forall i j k,
      AmatFIT.get3 (amat_x nx ny nz sx sy sz z3 z3 z3 eta_x eta_y eta_z zeta hx hy hz) i j k
      = (sx i j k, sy i j k, sz i j k).
    Proof.
      intros Hx Hy Hz i j k.
      rewrite (amat_x_eq Fth two_nz z3 z3 z3 eta_x eta_y eta_z zeta hx hy hz
                         hx_nz hy_nz hz_nz nx ny nz sx sy sz Hx Hy Hz i j k).
      destruct (in_box nx ny nz i j k); [|reflexivity].
      rewrite A_x_zero, A_y_zero, A_z_zero.
      f_equal; [f_equal|]; ring.
    Qed.
  End Amat.

  (* --- restriction of a zero residual ------------------------------------- *)
  Section Restr.
    Let z3 : Z -> Z -> Z -> F := fun _ _ _ => 0%F.

    Lemma S1_zero c w n I : S1 c w n (fun _ => 0%F) I = 0%F.
    Proof. unfold S1. destruct c; [ring | reflexivity]. Qed.
    Lemma E1_zero c n I : E1 c n (fun _ : Z => 0%F) I = 0%F.
    Proof. unfold E1. destruct c; [ring | reflexivity]. Qed.
    Lemma S1_ext c w n f g I : (forall i, f i = g i) -> S1 c w n f I = S1 c w n g I.
    Proof. intros H. unfold S1. destruct c; rewrite ?H; reflexivity. Qed.

    Lemma Rx_spec_zero scd nx ny nz wy wz I J K : Rx_spec scd nx ny nz wy wz z3 I J K = 0%F.
    Proof.
      unfold Rx_spec, z3.
      erewrite S1_ext; [apply S1_zero|]. intros j. cbv beta.
      erewrite S1_ext; [apply S1_zero|]. intros k. cbv beta. apply E1_zero.
    Qed.
    Lemma Ry_spec_zero scd nx ny nz wx wz I J K : Ry_spec scd nx ny nz wx wz z3 I J K = 0%F.
    Proof.
      unfold Ry_spec, z3.
      erewrite S1_ext; [apply S1_zero|]. intros j. cbv beta.
      erewrite S1_ext; [apply S1_zero|]. intros k. cbv beta. apply E1_zero.
    Qed.
    Lemma Rz_spec_zero scd nx ny nz wx wy I J K : Rz_spec scd nx ny nz wx wy z3 I J K = 0%F.
    Proof.
      unfold Rz_spec, z3.
      erewrite S1_ext; [apply S1_zero|]. intros j. cbv beta.
      erewrite S1_ext; [apply S1_zero|]. intros k. cbv beta. apply E1_zero.
    Qed.

    (* core.restrict applied to an all-zero residual, writing into the fresh
       all-zero coarse source of solver.restriction: all zero, for every pattern,
       every shape and ANY weights *)
    Theorem restriction_of_zero_residual_is_zero
        (wx wy wz : (Z -> F) * (Z -> F) * (Z -> F)) (cnx cny cnz nx ny nz scd : Z) :
      0 <= scd <= 6 -> 0 <= cnx -> 0 <= cny -> 0 <= cnz -> forall i j k,
      RestrictTensor.get3 (restrict cnx cny cnz nx ny nz z3 z3 z3 z3 z3 z3 wx wy wz scd) i j k
      = (0%F, 0%F, 0%F).
    Proof.
      intros Hs Hx Hy Hz i j k.
      assert (T : RestrictTensor.get3 (restrict cnx cny cnz nx ny nz z3 z3 z3 z3 z3 z3 wx wy wz scd) i j k
                  = if in_box cnx cny cnz i j k
                    then (if i <? cnx - 1 then Rx_spec scd nx ny nz wy wz z3 i j k else z3 i j k,
                          if j <? cny - 1 then Ry_spec scd nx ny nz wx wz z3 i j k else z3 i j k,
                          if k <? cnz - 1 then Rz_spec scd nx ny nz wx wy z3 i j k else z3 i j k)
                    else (z3 i j k, z3 i j k, z3 i j k))
        by exact (restrict_eq (Field_theory.F_R Fth) z3 z3 z3 wx wy wz cnx cny cnz nx ny nz scd
                              z3 z3 z3 Hs Hx Hy Hz i j k).
      rewrite T. rewrite Rx_spec_zero, Ry_spec_zero, Rz_spec_zero.
      destruct (in_box cnx cny cnz i j k); [|reflexivity].
      destruct (i <? cnx - 1), (j <? cny - 1), (k <? cnz - 1); reflexivity.
    Qed.
  End Restr.

  (* --- prolongation of a zero coarse field --------------------------------- *)
  Section Prol.
    Let z3 : Z -> Z -> Z -> F := fun _ _ _ => 0%F.
    Lemma prolong1_zero c x j : prolong1 c x (fun _ : Z => 0%F) j = 0%F.
    Proof. unfold prolong1. destruct c; [destruct (Z.even j); [reflexivity | ring] | reflexivity]. Qed.
    Lemma prolong1_ext c x f g j : (forall i, f i = g i) -> prolong1 c x f j = prolong1 c x g j.
    Proof. intros H. unfold prolong1. destruct c; [destruct (Z.even j)|]; rewrite ?H; reflexivity. Qed.

    Theorem prolongation_of_zero_adds_nothing scd xn yn zn nx ny nz (ex ey ez : Z -> Z -> Z -> F) i j k :
      prolong_x scd yn zn nx ny nz z3 ex i j k = ex i j k /\
      prolong_y scd xn zn nx ny nz z3 ey i j k = ey i j k /\
      prolong_z scd xn yn nx ny nz z3 ez i j k = ez i j k.
    Proof.
      unfold prolong_x, prolong_y, prolong_z, z3. repeat split.
      - destruct (_ && _)%bool; [|reflexivity].
        erewrite prolong1_ext; [rewrite prolong1_zero; ring|].
        intros J. cbv beta. apply prolong1_zero.
      - destruct (_ && _)%bool; [|reflexivity].
        erewrite prolong1_ext; [rewrite prolong1_zero; ring|].
        intros J. cbv beta. apply prolong1_zero.
      - destruct (_ && _)%bool; [|reflexivity].
        erewrite prolong1_ext; [rewrite prolong1_zero; ring|].
        intros J. cbv beta. apply prolong1_zero.
    Qed.
  End Prol.
End K.
