(* Proofs/Fourier.v -- lemmas for property C20 (model: Model/Fourier.v). *)
From Coq Require Import List Bool ZArith Arith Lia Field.
From V Require Import Base.FieldSig Model.Fourier.
Import ListNotations.

(* ------------------------------------------------------------------ *)
(* The three groups                                                    *)
(* ------------------------------------------------------------------ *)
Section MaskProofs.
  Context {F : Type}.
  Variable leb : F -> F -> bool.
  Hypothesis leb_total : forall x y, leb x y = true \/ leb y x = true.
  Hypothesis leb_trans : forall x y z, leb x y = true -> leb y z = true -> leb x z = true.

  Lemma group_pointwise fmin fmax x :
    leb fmin fmax = true ->
    let e := ltb leb x fmin in
    let m := in_band leb fmin fmax x in
    let a := ltb leb fmax x in
    e && m = false /\ m && a = false /\ e && a = false /\ e || m || a = true.
  Proof.
    intros Hb. unfold ltb, in_band. cbn.
    destruct (leb fmin x) eqn:E1, (leb x fmax) eqn:E2; cbn; repeat split; auto.
    (* x < fmin and fmax < x is impossible when fmin <= fmax *)
    destruct (leb_total x fmin) as [H|H]; [|congruence].
    rewrite (leb_trans _ _ _ H Hb) in E2. discriminate.
  Qed.

  Lemma nth_map_in {A B} (g : A -> B) l i da db :
    i < List.length l -> nth i (map g l) db = g (nth i l da).
  Proof.
    intros H. rewrite (nth_indep _ db (g da)) by now rewrite map_length. apply map_nth.
  Qed.

  Lemma freq_partition_lemma fmin fmax req d i :
    leb fmin fmax = true -> i < List.length req ->
    let x := nth i req d in
    nth i (mask_extrapolate leb fmin req) false = ltb leb x fmin /\
    nth i (mask_interpolate leb fmin fmax req) false = in_band leb fmin fmax x /\
    nth i (mask_above leb fmax req) false = ltb leb fmax x /\
    (let e := nth i (mask_extrapolate leb fmin req) false in
     let m := nth i (mask_interpolate leb fmin fmax req) false in
     let a := nth i (mask_above leb fmax req) false in
     e && m = false /\ m && a = false /\ e && a = false /\ e || m || a = true).
  Proof.
    intros Hb Hi x. unfold mask_extrapolate, mask_interpolate, mask_above.
    rewrite !(nth_map_in _ req i d false Hi). fold x.
    repeat split; try reflexivity; apply (group_pointwise fmin fmax x Hb).
  Qed.

  Lemma zero_is_above_lemma fmin fmax req :
    leb fmin fmax = true -> mask_zero leb fmin fmax req = mask_above leb fmax req.
  Proof.
    intros Hb. unfold mask_zero, mask_above. apply map_ext. intros x.
    destruct (group_pointwise fmin fmax x Hb) as [A [B [C D]]].
    destruct (ltb leb x fmin), (in_band leb fmin fmax x), (ltb leb fmax x);
      cbn in *; congruence.
  Qed.

  Lemma masks_same_length fmin fmax (req : list F) :
    List.length (mask_extrapolate leb fmin req) = List.length req /\
    List.length (mask_interpolate leb fmin fmax req) = List.length req /\
    List.length (mask_zero leb fmin fmax req) = List.length req.
  Proof. unfold mask_extrapolate, mask_interpolate, mask_zero. now rewrite !map_length. Qed.

  Lemma compute_in_band_lemma fmin fmax every_x input_freq req x :
    In x (freq_compute leb fmin fmax (freq_coarse every_x input_freq req)) ->
    leb fmin x = true /\ leb x fmax = true /\ In x (freq_coarse every_x input_freq req).
  Proof.
    unfold freq_compute. intros H. apply filter_In in H. destruct H as [Hin Hb].
    unfold in_band in Hb. apply andb_true_iff in Hb. tauto.
  Qed.

  Lemma every_from_sub k : forall (l : list F) skip x, In x (every_from k skip l) -> In x l.
  Proof.
    induction l as [|a l IH]; intros skip x H; cbn in *; [exact H|].
    destruct skip; cbn in H.
    - destruct H as [->|H]; [now left|right; eapply IH; eassumption].
    - right; eapply IH; eassumption.
  Qed.

  Lemma coarse_every_sub k inp (req : list F) x :
    In x (freq_coarse (Some k) inp req) -> In x req.
  Proof. cbn. apply every_from_sub. Qed.

  Lemma every_one : forall l : list F, every_nth 1 l = l.
  Proof. unfold every_nth. induction l as [|a l IH]; cbn; [reflexivity|]. now rewrite IH. Qed.
End MaskProofs.

(* ------------------------------------------------------------------ *)
(* Masked assignment                                                   *)
(* ------------------------------------------------------------------ *)
Section FillProofs.
  Context {D : Type}.

  Lemma fill_length : forall mask (vals out : list D),
    List.length (fill mask vals out) = List.length out.
  Proof.
    induction mask as [|m mask IH]; intros vals out; cbn; [reflexivity|].
    destruct out as [|o out]; [reflexivity|].
    destruct m; [destruct vals|]; cbn; now rewrite IH.
  Qed.

  Lemma fill_false : forall mask (vals out : list D) i d,
    nth i mask false = false -> nth i (fill mask vals out) d = nth i out d.
  Proof.
    induction mask as [|m mask IH]; intros vals out i d H; cbn; [reflexivity|].
    destruct out as [|o out]; [reflexivity|].
    destruct i as [|i]; cbn in H.
    - subst m. reflexivity.
    - destruct m; [destruct vals|]; cbn; now apply IH.
  Qed.

  Lemma fill_true : forall mask (vals out : list D) i d,
    List.length mask = List.length out -> nth i mask false = true ->
    rank mask i < List.length vals ->
    nth i (fill mask vals out) d = nth (rank mask i) vals d.
  Proof.
    induction mask as [|m mask IH]; intros vals out i d Hl H Hr.
    - destruct i; discriminate.
    - destruct out as [|o out]; [discriminate|]. cbn in Hl. injection Hl as Hl.
      destruct i as [|i]; cbn in H.
      + subst m. unfold rank in *. cbn in *. destruct vals; [cbn in Hr; lia|reflexivity].
      + unfold rank in *. cbn [firstn] in *. destruct m; cbn [filter] in *.
        * unfold count_true in *. cbn [filter List.length] in *.
          destruct vals as [|v vals]; [cbn in Hr; lia|]. cbn [fill nth].
          apply IH; auto. cbn in Hr. lia.
        * unfold count_true in *. cbn [filter] in *. cbn [fill nth]. apply IH; auto.
  Qed.

  Lemma massign_some mask (vals out r : list D) :
    massign mask vals out = Some r ->
    exists vals', r = fill mask vals' out /\ List.length vals' = count_true mask /\
                  (List.length vals = count_true mask -> vals' = vals).
  Proof.
    unfold massign. destruct (Nat.eqb_spec (List.length vals) (count_true mask)) as [E|E].
    - intros H; inversion H. exists vals. auto.
    - destruct vals as [|v [|w vals]]; try discriminate.
      intros H; inversion H. eexists. split; [reflexivity|]. split.
      + apply repeat_length.
      + intros E'. contradiction.
  Qed.

  Lemma massign_exact mask (vals out : list D) :
    List.length vals = count_true mask -> massign mask vals out = Some (fill mask vals out).
  Proof. intros E. unfold massign. now rewrite E, Nat.eqb_refl. Qed.

  Lemma massign_mismatch mask (vals out : list D) :
    List.length vals <> count_true mask -> List.length vals <> 1 ->
    massign mask vals out = None.
  Proof.
    intros E1 E2. unfold massign.
    destruct (Nat.eqb_spec (List.length vals) (count_true mask)); [contradiction|].
    destruct vals as [|v [|w vals]]; try reflexivity. cbn in E2. lia.
  Qed.
End FillProofs.

Lemma count_map_filter {A} (p : A -> bool) (l : list A) :
  count_true (map p l) = List.length (filter p l).
Proof.
  unfold count_true. induction l as [|a l IH]; cbn; [reflexivity|].
  destruct (p a); cbn; now rewrite IH.
Qed.

Lemma rank_filter {A} (p : A -> bool) : forall (l : list A) i d,
  i < List.length l -> p (nth i l d) = true ->
  nth (rank (map p l) i) (filter p l) d = nth i l d /\
  rank (map p l) i < List.length (filter p l).
Proof.
  unfold rank, count_true.
  induction l as [|a l IH]; intros i d Hi Hp; [cbn in Hi; lia|].
  destruct i as [|i]; cbn in *.
  - rewrite Hp. cbn. split; [reflexivity|lia].
  - destruct (p a) eqn:Ea; cbn.
    + destruct (IH i d) as [HA HB]; [lia|exact Hp|]. split; [exact HA|lia].
    + apply IH; [lia|exact Hp].
Qed.

(* ------------------------------------------------------------------ *)
(* interpolate()                                                       *)
(* ------------------------------------------------------------------ *)
Section ListEq.
  Context {F : Type}.
  Variable leb : F -> F -> bool.
  Hypothesis leb_total : forall x y, leb x y = true \/ leb y x = true.

  Lemma list_eqb_refl (l : list F) : list_eqb leb l l = true.
  Proof.
    induction l as [|x l IH]; cbn; [reflexivity|]. rewrite IH. unfold feqb.
    destruct (leb_total x x) as [H|H]; now rewrite H.
  Qed.

  Lemma list_eqb_eq :
    (forall x y, leb x y = true -> leb y x = true -> x = y) ->
    forall a b : list F, list_eqb leb a b = true -> a = b.
  Proof.
    intros anti. induction a as [|x a IH]; intros [|y b] H; cbn in H;
      try discriminate; [reflexivity|].
    apply andb_true_iff in H. destruct H as [H1 H2]. unfold feqb in H1.
    apply andb_true_iff in H1. destruct H1. f_equal; [now apply anti|now apply IH].
  Qed.
End ListEq.

Section InterpolateProofs.
  Context {F : Type} {O : FOps F}.
  Variable leb : F -> F -> bool.
  Hypothesis leb_total : forall x y, leb x y = true \/ leb y x = true.
  Hypothesis leb_trans : forall x y z, leb x y = true -> leb y z = true -> leb x z = true.
  Variable logf : F -> F.
  Variable spline1 : list F -> list F -> F -> F.
  Variable pchip1 : list F -> list F -> F -> F.
  Variable tiny : F.
  Variable pass : list F -> list F -> bool.     (* the pass-through test *)

  Notation interp := (interpolate_with leb logf spline1 pchip1 tiny pass).

  Definition spline_vals fmin fmax (fc : list F) (fdata : list (F * F)) (req : list F)
    : list (F * F) :=
    map (fun x => (spline1 (map logf fc) (map fst fdata) (logf x),
                   spline1 (map logf fc) (map snd fdata) (logf x)))
        (freq_interpolate leb fmin fmax req).

  (* shape of a successful call *)
  Lemma interpolate_shape fmin fmax ex inp req fdata out :
    interp fmin fmax ex inp req fdata = Some out ->
    exists d0 rest vi,
      fdata = d0 :: rest /\
      let coarse := freq_coarse ex inp req in
      let fc := freq_compute leb fmin fmax coarse in
      let mi := mask_interpolate leb fmin fmax req in
      let me := mask_extrapolate leb fmin req in
      let ve := map (fun x => (pchip1 (tiny :: fc) (fst d0 :: map fst fdata) x,
                               pchip1 (tiny :: fc) ((- tiny)%F :: map snd fdata) x))
                    (freq_extrapolate leb fmin req) in
      out = fill me ve (fill mi vi (repeat czero (List.length req))) /\
      List.length vi = count_true mi /\
      (pass coarse req = true -> List.length fdata = count_true mi -> vi = fdata) /\
      (pass coarse req = false -> vi = spline_vals fmin fmax fc fdata req).
  Proof.
    unfold interpolate_with. intros H.
    match type of H with
    | match massign ?m ?v ?o with _ => _ end = _ =>
        destruct (massign m v o) as [out1|] eqn:E1; [|discriminate]
    end.
    destruct fdata as [|d0 rest]; [discriminate|].
    apply massign_some in E1. destruct E1 as [vi [E1 [Hl Hv]]].
    exists d0, rest, vi. split; [reflexivity|]. cbn zeta.
    rewrite massign_exact in H.
    - inversion H; subst. split; [reflexivity|]. split; [exact Hl|]. split.
      + intros Hc Hf. rewrite Hc in Hv. apply Hv. exact Hf.
      + intros Hc. rewrite Hc in Hv. apply Hv. unfold mask_interpolate, freq_interpolate.
        now rewrite map_length, count_map_filter.
    - rewrite map_length. unfold mask_extrapolate, freq_extrapolate.
      now rewrite count_map_filter.
  Qed.

  (* frequencies above fmax: 0 + 0j *)
  Lemma above_is_zero_lemma fmin fmax ex inp req fdata out i d :
    leb fmin fmax = true ->
    interp fmin fmax ex inp req fdata = Some out ->
    i < List.length req -> ltb leb fmax (nth i req d) = true ->
    nth i out czero = czero.
  Proof.
    intros Hb H Hi Ha. apply interpolate_shape in H.
    destruct H as [d0 [rest [vi [_ [-> _]]]]].
    destruct (freq_partition_lemma leb leb_total leb_trans fmin fmax req d i Hb Hi)
      as [Ee [Em [Ea [D1 [D2 [D3 _]]]]]].
    cbn zeta in *. rewrite Ea, Ha in *.
    rewrite fill_false by (rewrite andb_true_r in D3; exact D3).
    rewrite fill_false by (rewrite andb_true_r in D2; exact D2).
    apply nth_repeat.
  Qed.

  (* frequencies below fmin: the PCHIP oracle through (tiny, Re d0 - tiny j), data *)
  Lemma extrap_value_lemma fmin fmax ex inp req fdata out i d d0 rest :
    interp fmin fmax ex inp req fdata = Some out -> fdata = d0 :: rest ->
    i < List.length req -> ltb leb (nth i req d) fmin = true ->
    let fc := freq_compute leb fmin fmax (freq_coarse ex inp req) in
    nth i out czero = (pchip1 (tiny :: fc) (fst d0 :: map fst fdata) (nth i req d),
                       pchip1 (tiny :: fc) ((- tiny)%F :: map snd fdata) (nth i req d)).
  Proof.
    intros H Hf Hi He fc. apply interpolate_shape in H.
    destruct H as [d0' [rest' [vi [Hf' [-> [Hl _]]]]]].
    rewrite Hf in Hf'. inversion Hf'; subst d0' rest'. clear Hf'.
    destruct (rank_filter (fun x => ltb leb x fmin) req i d Hi He) as [A B].
    rewrite fill_true.
    - unfold mask_extrapolate, freq_extrapolate.
      etransitivity; [apply (nth_map_in _ _ _ d); exact B|]. cbv beta.
      rewrite A. subst fdata. reflexivity.
    - rewrite fill_length, repeat_length. unfold mask_extrapolate. now rewrite map_length.
    - unfold mask_extrapolate. rewrite (nth_map_in _ req i d false Hi). exact He.
    - rewrite map_length. exact B.
  Qed.

  Lemma inband_not_extrap fmin fmax req i d :
    i < List.length req -> in_band leb fmin fmax (nth i req d) = true ->
    nth i (mask_extrapolate leb fmin req) false = false.
  Proof.
    intros Hi Hm. unfold mask_extrapolate. rewrite (nth_map_in _ req i d false Hi).
    unfold in_band in Hm. apply andb_true_iff in Hm. destruct Hm as [Hm _].
    unfold ltb. now rewrite Hm.
  Qed.

  (* the pass-through branch: the j-th in-band entry is fdata[j] *)
  Lemma pass_branch_lemma fmin fmax ex inp req fdata out i d :
    pass (freq_coarse ex inp req) req = true ->
    interp fmin fmax ex inp req fdata = Some out ->
    List.length fdata = List.length (freq_interpolate leb fmin fmax req) ->
    i < List.length req -> in_band leb fmin fmax (nth i req d) = true ->
    let j := rank (mask_interpolate leb fmin fmax req) i in
    nth i out czero = nth j fdata czero /\
    nth j (freq_interpolate leb fmin fmax req) d = nth i req d /\
    j < List.length fdata.
  Proof.
    intros Hp H Hlen Hi Hm j. apply interpolate_shape in H.
    destruct H as [d0 [rest [vi [Hf [-> [Hl [Hv _]]]]]]]. cbn zeta in *.
    destruct (rank_filter (in_band leb fmin fmax) req i d Hi Hm) as [A B].
    assert (Hcnt : List.length fdata = count_true (mask_interpolate leb fmin fmax req)).
    { unfold mask_interpolate. rewrite count_map_filter. exact Hlen. }
    rewrite (Hv Hp Hcnt) in *.
    rewrite fill_false by (eapply inband_not_extrap; eassumption).
    split; [|split].
    - apply fill_true.
      + rewrite repeat_length. unfold mask_interpolate. now rewrite map_length.
      + unfold mask_interpolate. rewrite (nth_map_in _ req i d false Hi). exact Hm.
      + fold j. unfold j, mask_interpolate. unfold freq_interpolate in Hlen. rewrite Hlen. exact B.
    - exact A.
    - unfold j, mask_interpolate. unfold freq_interpolate in Hlen. rewrite Hlen. exact B.
  Qed.

  (* the other branch: every in-band entry is the spline oracle at log(frequency) *)
  Lemma spline_branch_lemma fmin fmax ex inp req fdata out i d :
    pass (freq_coarse ex inp req) req = false ->
    interp fmin fmax ex inp req fdata = Some out ->
    i < List.length req -> in_band leb fmin fmax (nth i req d) = true ->
    let fc := freq_compute leb fmin fmax (freq_coarse ex inp req) in
    nth i out czero = (spline1 (map logf fc) (map fst fdata) (logf (nth i req d)),
                       spline1 (map logf fc) (map snd fdata) (logf (nth i req d))).
  Proof.
    intros Hp H Hi Hm fc. apply interpolate_shape in H.
    destruct H as [d0 [rest [vi [Hf [-> [Hl [_ Hv]]]]]]]. cbn zeta in *.
    destruct (rank_filter (in_band leb fmin fmax) req i d Hi Hm) as [A B].
    rewrite (Hv Hp) in *.
    rewrite fill_false by (eapply inband_not_extrap; eassumption).
    rewrite fill_true.
    - unfold spline_vals, mask_interpolate, freq_interpolate.
      etransitivity; [apply (nth_map_in _ _ _ d); exact B|]. cbv beta. now rewrite A.
    - rewrite repeat_length. unfold mask_interpolate. now rewrite map_length.
    - unfold mask_interpolate. rewrite (nth_map_in _ req i d false Hi). exact Hm.
    - unfold spline_vals. rewrite map_length. exact B.
  Qed.

  (* pass-through with a wrong number of data: the masked assignment fails *)
  Lemma pass_branch_error fmin fmax ex inp req fdata :
    pass (freq_coarse ex inp req) req = true ->
    List.length fdata <> List.length (freq_interpolate leb fmin fmax req) ->
    List.length fdata <> 1 ->
    interp fmin fmax ex inp req fdata = None.
  Proof.
    intros Hp Hne H1. unfold interpolate_with. rewrite Hp.
    rewrite massign_mismatch; [reflexivity| |exact H1].
    unfold mask_interpolate. rewrite count_map_filter. exact Hne.
  Qed.
End InterpolateProofs.

(* the two instances *)
Section Instances.
  Context {F : Type} {O : FOps F}.
  Variable leb : F -> F -> bool.
  Hypothesis leb_total : forall x y, leb x y = true \/ leb y x = true.
  Variable logf : F -> F.
  Variable spline1 : list F -> list F -> F -> F.
  Variable pchip1 : list F -> list F -> F -> F.
  Variable tiny : F.

  (* FIXED code, no coarse option (or any option yielding the required
     frequencies): data pass through unchanged to the coinciding frequency *)
  Lemma passthrough_lemma fmin fmax ex inp req fdata out i d :
    freq_coarse ex inp req = req ->
    interpolate leb logf spline1 pchip1 tiny fmin fmax ex inp req fdata = Some out ->
    List.length fdata = List.length (freq_compute leb fmin fmax req) ->
    i < List.length req -> in_band leb fmin fmax (nth i req d) = true ->
    let j := rank (mask_interpolate leb fmin fmax req) i in
    nth i out czero = nth j fdata czero /\
    nth j (freq_compute leb fmin fmax req) d = nth i req d /\
    j < List.length fdata.
  Proof.
    intros Hc H Hlen Hi Hm.
    apply (pass_branch_lemma leb logf spline1 pchip1 tiny (list_eqb leb)
             fmin fmax ex inp req fdata out i d); auto.
    rewrite Hc. now apply list_eqb_refl.
  Qed.

  (* FIXED code: frequencies that differ from the required ones are never
     passed through, whatever their number *)
  Lemma differing_coarse_lemma fmin fmax ex inp req fdata out i d :
    list_eqb leb (freq_coarse ex inp req) req = false ->
    interpolate leb logf spline1 pchip1 tiny fmin fmax ex inp req fdata = Some out ->
    i < List.length req -> in_band leb fmin fmax (nth i req d) = true ->
    let fc := freq_compute leb fmin fmax (freq_coarse ex inp req) in
    nth i out czero = (spline1 (map logf fc) (map fst fdata) (logf (nth i req d)),
                       spline1 (map logf fc) (map snd fdata) (logf (nth i req d))).
  Proof.
    intros Hp H Hi Hm.
    exact (spline_branch_lemma leb logf spline1 pchip1 tiny (list_eqb leb)
             fmin fmax ex inp req fdata out i d Hp H Hi Hm).
  Qed.

  (* UNFIXED variant: same length is enough for pass-through *)
  Lemma unfixed_same_length_error fmin fmax inp req fdata :
    List.length inp = List.length req ->
    List.length fdata <> List.length (freq_interpolate leb fmin fmax req) ->
    List.length fdata <> 1 ->
    interpolate_unfixed leb logf spline1 pchip1 tiny fmin fmax None (Some inp) req fdata = None.
  Proof.
    intros Hl Hne H1.
    apply (pass_branch_error leb logf spline1 pchip1 tiny (@same_length F)); auto.
    cbn [freq_coarse]. unfold same_length. rewrite Hl. apply Nat.eqb_refl.
  Qed.

  Lemma unfixed_same_length_misplaced fmin fmax inp req fdata out i d :
    List.length inp = List.length req ->
    interpolate_unfixed leb logf spline1 pchip1 tiny fmin fmax None (Some inp) req fdata
      = Some out ->
    List.length fdata = List.length (freq_interpolate leb fmin fmax req) ->
    i < List.length req -> in_band leb fmin fmax (nth i req d) = true ->
    nth i out czero = nth (rank (mask_interpolate leb fmin fmax req) i) fdata czero.
  Proof.
    intros Hl H Hlen Hi Hm.
    apply (pass_branch_lemma leb logf spline1 pchip1 tiny (@same_length F)
             fmin fmax None (Some inp) req fdata out i d); auto.
    cbn [freq_coarse]. unfold same_length. rewrite Hl. apply Nat.eqb_refl.
  Qed.

  Context {TD : Type}.
  Variable tem : list (F * F) -> list F -> TD.

  Lemma freq2time_lemma fmin fmax ex inp req fdata filled :
    interpolate leb logf spline1 pchip1 tiny fmin fmax ex inp req fdata = Some filled ->
    freq2time leb logf spline1 pchip1 tiny tem fmin fmax ex inp req fdata
    = Some (tem filled req).
  Proof. intros H. unfold freq2time. now rewrite H. Qed.
End Instances.

(* ------------------------------------------------------------------ *)
(* PCHIP on the first interval                                         *)
(* ------------------------------------------------------------------ *)
Section PchipProofs.
  Context {F : Type} {O : FOps F}.
  Hypothesis Fth : field_theory F0 F1 Fadd Fmul Fsub Fopp Fdiv Finv (@eq F).
  Add Field Ff : Fth.
  Variable leb : F -> F -> bool.
  Hypothesis leb_total : forall x y, leb x y = true \/ leb y x = true.
  Hypothesis leb_antisym : forall x y, leb x y = true -> leb y x = true -> x = y.
  Local Open Scope F_scope.

  Lemma hermite_const y h t : hermite y y 0 0 h t = y.
  Proof. unfold hermite, F2, F3. ring. Qed.

  Lemma sgn_zero : sgn leb 0 = 0%Z.
  Proof. unfold sgn. destruct (leb_total 0 0) as [H|H]; now rewrite H. Qed.

  Lemma sgn_zero_inv x : sgn leb x = 0%Z -> x = 0.
  Proof.
    unfold sgn. destruct (leb x 0) eqn:A; [|discriminate].
    destruct (leb 0 x) eqn:B; [|discriminate]. intros _. now apply leb_antisym.
  Qed.

  Lemma interior_slope_flat h0 h1 m1 : interior_slope leb h0 h1 0 m1 = 0.
  Proof. unfold interior_slope. now rewrite sgn_zero. Qed.

  Lemma edge_slope_flat h0 h1 m1 : edge_slope leb h0 h1 0 m1 = 0.
  Proof.
    unfold edge_slope. rewrite sgn_zero.
    set (d := ((F2 * h0 + h1) * 0 - h0 * m1) / (h0 + h1)).
    destruct (Z.eqb_spec (sgn leb d) 0) as [E|E]; cbn [negb]; [|reflexivity].
    match goal with |- (if ?c then _ else _) = _ => destruct c end.
    - unfold F3. ring.
    - now apply sgn_zero_inv.
  Qed.

  (* real part: y0 = y1 = Re fdata[0]  =>  constant on the whole first interval *)
  Lemma pchip_first_flat x0 x1 x2 y y2 x :
    x1 - x0 <> 0 -> pchip_first leb x0 x1 x2 y y y2 x = y.
  Proof.
    intros Hh. unfold pchip_first.
    assert (E : (y - y) / (x1 - x0) = 0) by (field; exact Hh).
    rewrite E, edge_slope_flat, interior_slope_flat. apply hermite_const.
  Qed.

  Lemma pchip_two_flat x0 x1 y x : x1 - x0 <> 0 -> pchip_two x0 x1 y y x = y.
  Proof.
    intros Hh. unfold pchip_two.
    assert (E : (y - y) / (x1 - x0) = 0) by (field; exact Hh).
    rewrite E. apply hermite_const.
  Qed.
End PchipProofs.

(* ------------------------------------------------------------------ *)
(* Histories                                                           *)
(* ------------------------------------------------------------------ *)
Section HistoryProofs.
  Context {F : Type} {O : FOps F}.

  Lemma check_coarse_exclusive keep (e : option nat) (i : option (list F)) :
    fst (check_coarse keep e i) = None \/ snd (check_coarse keep e i) = None
    \/ (e = None \/ i = None).
  Proof. destruct e, i, keep; cbn; auto. Qed.

  Lemma fstep_exclusive (s : @fstate F) o : exclusive s -> exclusive (fstep s o).
  Proof.
    unfold exclusive. intros H. destruct o as [x|x|k|l|l]; cbn; auto.
    - destruct k, (s_inp s); cbn; auto.
    - destruct (s_every s), l; cbn; auto.
  Qed.

  Lemma frun_exclusive ops : forall s : @fstate F, exclusive s -> exclusive (frun s ops).
  Proof.
    induction ops as [|o ops IH]; intros s H; cbn; [exact H|]. apply IH. now apply fstep_exclusive.
  Qed.

  Lemma finit_exclusive fmin fmax e i (req : list F) : exclusive (finit fmin fmax e i req).
  Proof. unfold exclusive, finit. destruct e, i; cbn; auto. Qed.

  Lemma frun_app (s : @fstate F) a b : frun s (a ++ b) = frun (frun s a) b.
  Proof. unfold frun. apply fold_left_app. Qed.

  Lemma set_fmax_last_wins_lemma (s : @fstate F) ops x :
    s_fmax (frun s (ops ++ [SetFmax x])) = x /\
    s_fmin (frun s (ops ++ [SetFmax x])) = s_fmin (frun s ops) /\
    s_req (frun s (ops ++ [SetFmax x])) = s_req (frun s ops).
  Proof. rewrite frun_app. cbn. auto. Qed.

  Lemma coarse_exclusive_lemma fmin fmax e i (req : list F) ops :
    exclusive (frun (finit fmin fmax e i req) ops).
  Proof. apply frun_exclusive, finit_exclusive. Qed.

  Variable leb : F -> F -> bool.
  Hypothesis leb_total : forall x y, leb x y = true \/ leb y x = true.
  Hypothesis leb_trans : forall x y z, leb x y = true -> leb y z = true -> leb x z = true.
  Variable logf : F -> F.
  Variable spline1 : list F -> list F -> F -> F.
  Variable pchip1 : list F -> list F -> F -> F.
  Variable tiny : F.

  (* after ANY history the spectrum is 0 above the CURRENT fmax *)
  Lemma above_is_zero_history s0 ops fdata out i d :
    let s := frun s0 ops in
    leb (s_fmin s) (s_fmax s) = true ->
    interpolate_state leb logf spline1 pchip1 tiny s fdata = Some out ->
    i < List.length (s_req s) -> ltb leb (s_fmax s) (nth i (s_req s) d) = true ->
    nth i out czero = czero.
  Proof.
    intros s Hb H Hi Ha. unfold interpolate_state, interpolate in H.
    exact (above_is_zero_lemma leb leb_total leb_trans logf spline1 pchip1 tiny (list_eqb leb)
             _ _ _ _ _ fdata out i d Hb H Hi Ha).
  Qed.
End HistoryProofs.

Lemma dlf_kind_default_lemma (signal : Z) :
  dlf_kind signal None = if Z.ltb signal 0 then Cos else Sin.
Proof. unfold dlf_kind. destruct (Z.ltb_spec 0 signal), (Z.ltb_spec signal 0); auto; lia. Qed.
