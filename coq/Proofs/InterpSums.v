(* Proofs/InterpSums.v -- C09: finite sums over Z ranges and index boxes
   ([Zsum], [sum3] of Model/Interp.v) over any field: linearity, extensionality,
   sums against a Kronecker delta, exchange of summation order, index shift,
   summation by parts. *)
From Coq Require Import ZArith Lia Bool Field.
From V Require Import Base.Loops Base.Arr Base.FieldSig Model.Interp.
Local Open Scope Z_scope.

Section Sums.
  Context {F : Type} {O : FOps F}.
  Hypothesis Fth : field_theory F0 F1 Fadd Fmul Fsub Fopp Fdiv Finv (@eq F).
  Add Field Ffs : Fth.

  Lemma Zsum_empty lo hi (f : Z -> F) : hi <= lo -> Zsum lo hi f = 0%F.
  Proof. intros H. unfold Zsum. now rewrite Zfold_empty. Qed.

  Lemma Zsum_snoc lo hi (f : Z -> F) : lo <= hi ->
    Zsum lo (hi + 1) f = (Zsum lo hi f + f hi)%F.
  Proof. intros H. unfold Zsum. now rewrite Zfold_snoc. Qed.

  Lemma Zsum_first lo hi (f : Z -> F) : lo < hi ->
    Zsum lo hi f = (f lo + Zsum (lo + 1) hi f)%F.
  Proof.
    intros H.
    replace hi with (lo + 1 + Z.of_nat (Z.to_nat (hi - lo - 1))) by lia.
    induction (Z.to_nat (hi - lo - 1)) as [|n IH].
    - rewrite Z.add_0_r, Zsum_snoc by lia.
      rewrite !Zsum_empty by lia. ring.
    - replace (lo + 1 + Z.of_nat (S n)) with (lo + 1 + Z.of_nat n + 1) by lia.
      rewrite !Zsum_snoc by lia. rewrite IH. ring.
  Qed.

  (* induction principle: hi = lo + n *)
  Lemma Zsum_nat_ind (P : Z -> Prop) lo :
    P lo -> (forall hi, lo <= hi -> P hi -> P (hi + 1)) -> forall hi, lo <= hi -> P hi.
  Proof.
    intros H0 Hs hi Hle.
    replace hi with (lo + Z.of_nat (Z.to_nat (hi - lo))) by lia.
    induction (Z.to_nat (hi - lo)) as [|n IH].
    - now rewrite Z.add_0_r.
    - replace (lo + Z.of_nat (S n)) with (lo + Z.of_nat n + 1) by lia.
      apply Hs; [lia | exact IH].
  Qed.

  Lemma Zsum_ext lo hi (f g : Z -> F) :
    (forall i, lo <= i < hi -> f i = g i) -> Zsum lo hi f = Zsum lo hi g.
  Proof.
    intros H. unfold Zsum. apply Zfold_ext. intros i s Hi. now rewrite H.
  Qed.

  Lemma Zsum_zero lo hi : Zsum lo hi (fun _ => 0%F) = 0%F.
  Proof.
    destruct (Z_le_gt_dec lo hi) as [Hle|Hgt]; [|apply Zsum_empty; lia].
    revert hi Hle. apply Zsum_nat_ind.
    - apply Zsum_empty; lia.
    - intros hi Hle IH. rewrite Zsum_snoc, IH by lia. ring.
  Qed.

  Lemma Zsum_add lo hi (f g : Z -> F) :
    Zsum lo hi (fun i => (f i + g i)%F) = (Zsum lo hi f + Zsum lo hi g)%F.
  Proof.
    destruct (Z_le_gt_dec lo hi) as [Hle|Hgt];
      [|rewrite !Zsum_empty by lia; ring].
    revert hi Hle. apply Zsum_nat_ind.
    - rewrite !Zsum_empty by lia; ring.
    - intros hi Hle IH. rewrite !Zsum_snoc, IH by lia. ring.
  Qed.

  Lemma Zsum_sub lo hi (f g : Z -> F) :
    Zsum lo hi (fun i => (f i - g i)%F) = (Zsum lo hi f - Zsum lo hi g)%F.
  Proof.
    destruct (Z_le_gt_dec lo hi) as [Hle|Hgt];
      [|rewrite !Zsum_empty by lia; ring].
    revert hi Hle. apply Zsum_nat_ind.
    - rewrite !Zsum_empty by lia; ring.
    - intros hi Hle IH. rewrite !Zsum_snoc, IH by lia. ring.
  Qed.

  Lemma Zsum_scal lo hi (c : F) (f : Z -> F) :
    Zsum lo hi (fun i => (c * f i)%F) = (c * Zsum lo hi f)%F.
  Proof.
    destruct (Z_le_gt_dec lo hi) as [Hle|Hgt];
      [|rewrite !Zsum_empty by lia; ring].
    revert hi Hle. apply Zsum_nat_ind.
    - rewrite !Zsum_empty by lia; ring.
    - intros hi Hle IH. rewrite !Zsum_snoc, IH by lia. ring.
  Qed.

  Lemma Zsum_scal_r lo hi (c : F) (f : Z -> F) :
    Zsum lo hi (fun i => (f i * c)%F) = (Zsum lo hi f * c)%F.
  Proof.
    rewrite (Zsum_ext lo hi _ (fun i => (c * f i)%F)) by (intros; ring).
    rewrite Zsum_scal. ring.
  Qed.

  (* index shift *)
  Lemma Zsum_shift lo hi (d : Z) (f : Z -> F) :
    Zsum lo hi (fun i => f (i + d)) = Zsum (lo + d) (hi + d) f.
  Proof.
    destruct (Z_le_gt_dec lo hi) as [Hle|Hgt];
      [|rewrite !Zsum_empty by lia; reflexivity].
    revert hi Hle. apply Zsum_nat_ind.
    - rewrite !Zsum_empty by lia; reflexivity.
    - intros hi Hle IH.
      replace (hi + 1 + d) with (hi + d + 1) by lia.
      rewrite !Zsum_snoc, IH by lia. reflexivity.
  Qed.

  (* sum against a Kronecker delta *)
  Definition delta (a i : Z) : F := if (i =? a) then 1%F else 0%F.

  Lemma Zsum_delta lo hi a (f : Z -> F) : lo <= a < hi ->
    Zsum lo hi (fun i => (delta a i * f i)%F) = f a.
  Proof.
    intros Ha.
    assert (G : forall hi, lo <= hi ->
              Zsum lo hi (fun i => (delta a i * f i)%F)
              = if (a <? hi) then f a else 0%F).
    { apply Zsum_nat_ind.
      - rewrite Zsum_empty by lia. destruct (Z.ltb_spec a lo); [lia|reflexivity].
      - intros h Hle IH. rewrite Zsum_snoc, IH by lia. unfold delta.
        destruct (Z.ltb_spec a h), (Z.ltb_spec a (h + 1)), (Z.eqb_spec h a);
          try lia; subst; ring. }
    rewrite G by lia. destruct (Z.ltb_spec a hi); [reflexivity|lia].
  Qed.

  Lemma Zsum_delta_out lo hi a (f : Z -> F) : ~ (lo <= a < hi) ->
    Zsum lo hi (fun i => (delta a i * f i)%F) = 0%F.
  Proof.
    intros Ha.
    rewrite (Zsum_ext lo hi _ (fun _ => 0%F)); [apply Zsum_zero|].
    intros i Hi. unfold delta. destruct (Z.eqb_spec i a); [lia|ring].
  Qed.

  (* exchange of the order of summation *)
  Lemma Zsum_swap l1 h1 l2 h2 (f : Z -> Z -> F) :
    Zsum l1 h1 (fun i => Zsum l2 h2 (fun j => f i j))
    = Zsum l2 h2 (fun j => Zsum l1 h1 (fun i => f i j)).
  Proof.
    destruct (Z_le_gt_dec l1 h1) as [Hle|Hgt].
    - revert h1 Hle. apply Zsum_nat_ind.
      + rewrite Zsum_empty by lia.
        rewrite (Zsum_ext l2 h2 _ (fun _ => 0%F)) by (intros; apply Zsum_empty; lia).
        now rewrite Zsum_zero.
      + intros h1 Hle IH. rewrite Zsum_snoc, IH by lia.
        rewrite <- Zsum_add. apply Zsum_ext. intros j Hj.
        now rewrite Zsum_snoc by lia.
    - rewrite Zsum_empty by lia.
      rewrite (Zsum_ext l2 h2 _ (fun _ => 0%F)) by (intros; apply Zsum_empty; lia).
      now rewrite Zsum_zero.
  Qed.

  (* summation by parts without boundary terms: a vanishes at -1 and n *)
  Lemma Zsum_by_parts n (a b : Z -> F) : 0 <= n ->
    a (-1) = 0%F -> a n = 0%F ->
    Zsum 0 n (fun k => (a k * (b (k + 1)%Z - b k))%F)
    = Zsum 0 (n + 1) (fun k => ((a (k - 1)%Z - a k) * b k)%F).
  Proof.
    intros Hn Ha0 Han.
    assert (G : forall m, 0 <= m ->
              Zsum 0 m (fun k => (a k * (b (k + 1)%Z - b k))%F)
              = (Zsum 0 m (fun k => ((a (k - 1)%Z - a k) * b k)%F)
                 + a (m - 1)%Z * b m - a (-1)%Z * b 0%Z)%F).
    { apply Zsum_nat_ind.
      - rewrite !Zsum_empty by lia. replace (0 - 1) with (-1) by lia. ring.
      - intros m Hm IH. rewrite !Zsum_snoc, IH by lia.
        replace (m + 1 - 1) with m by lia. ring. }
    rewrite Zsum_snoc by lia. rewrite G by lia. rewrite Ha0, Han. ring.
  Qed.

  (* ------------------------------------------------------------ sum3 *)
  Lemma sum3_ext n1 n2 n3 (f g : Z -> Z -> Z -> F) :
    (forall i j k, 0 <= i < n1 -> 0 <= j < n2 -> 0 <= k < n3 -> f i j k = g i j k) ->
    sum3 n1 n2 n3 f = sum3 n1 n2 n3 g.
  Proof.
    intros H. unfold sum3.
    apply Zsum_ext; intros i Hi. apply Zsum_ext; intros j Hj.
    apply Zsum_ext; intros k Hk. now apply H.
  Qed.

  Lemma sum3_add n1 n2 n3 (f g : Z -> Z -> Z -> F) :
    sum3 n1 n2 n3 (fun i j k => (f i j k + g i j k)%F)
    = (sum3 n1 n2 n3 f + sum3 n1 n2 n3 g)%F.
  Proof.
    unfold sum3. rewrite <- Zsum_add. apply Zsum_ext; intros i _.
    rewrite <- Zsum_add. apply Zsum_ext; intros j _. now rewrite <- Zsum_add.
  Qed.

  Lemma sum3_sub n1 n2 n3 (f g : Z -> Z -> Z -> F) :
    sum3 n1 n2 n3 (fun i j k => (f i j k - g i j k)%F)
    = (sum3 n1 n2 n3 f - sum3 n1 n2 n3 g)%F.
  Proof.
    unfold sum3. rewrite <- Zsum_sub. apply Zsum_ext; intros i _.
    rewrite <- Zsum_sub. apply Zsum_ext; intros j _. now rewrite <- Zsum_sub.
  Qed.

  Lemma sum3_scal n1 n2 n3 (c : F) (f : Z -> Z -> Z -> F) :
    sum3 n1 n2 n3 (fun i j k => (c * f i j k)%F) = (c * sum3 n1 n2 n3 f)%F.
  Proof.
    unfold sum3. rewrite <- Zsum_scal. apply Zsum_ext; intros i _.
    rewrite <- Zsum_scal. apply Zsum_ext; intros j _. now rewrite <- Zsum_scal.
  Qed.

  Lemma sum3_zero n1 n2 n3 : sum3 n1 n2 n3 (fun _ _ _ => 0%F) = 0%F.
  Proof.
    unfold sum3.
    rewrite (Zsum_ext 0 n1 _ (fun _ => 0%F)); [apply Zsum_zero|].
    intros i _. rewrite (Zsum_ext 0 n2 _ (fun _ => 0%F)); [apply Zsum_zero|].
    intros j _. apply Zsum_zero.
  Qed.

  (* two-point weights: w at a, w' at a+1, zero elsewhere *)
  Definition w2 (a : Z) (e r : F) (i : Z) : F :=
    if (i =? a) then e else if (i =? a + 1) then r else 0%F.

  Lemma w2_delta a e r i : w2 a e r i = (e * delta a i + r * delta (a + 1)%Z i)%F.
  Proof.
    unfold w2, delta.
    destruct (Z.eqb_spec i a), (Z.eqb_spec i (a + 1)); try lia; ring.
  Qed.

  Lemma Zsum_w2 n a e r (f : Z -> F) : 0 <= a -> a + 1 < n ->
    Zsum 0 n (fun i => (w2 a e r i * f i)%F) = (e * f a + r * f (a + 1)%Z)%F.
  Proof.
    intros H0 H1.
    rewrite (Zsum_ext 0 n _ (fun i => (e * (delta a i * f i)
                                       + r * (delta (a + 1)%Z i * f i))%F))
      by (intros; rewrite w2_delta; ring).
    rewrite Zsum_add, !Zsum_scal, !Zsum_delta by lia. reflexivity.
  Qed.

  (* a tensor product of two-point weights against a 3-D array *)
  Lemma sum3_w2 n1 n2 n3 a ea ra b eb rb c ec rc (u : Z -> Z -> Z -> F) :
    0 <= a -> a + 1 < n1 -> 0 <= b -> b + 1 < n2 -> 0 <= c -> c + 1 < n3 ->
    sum3 n1 n2 n3 (fun i j k => (w2 a ea ra i * w2 b eb rb j * w2 c ec rc k * u i j k)%F)
    = (ea * eb * ec * u a b c + ea * eb * rc * u a b (c + 1)%Z
       + ea * rb * ec * u a (b + 1)%Z c + ea * rb * rc * u a (b + 1)%Z (c + 1)%Z
       + ra * eb * ec * u (a + 1)%Z b c + ra * eb * rc * u (a + 1)%Z b (c + 1)%Z
       + ra * rb * ec * u (a + 1)%Z (b + 1)%Z c
       + ra * rb * rc * u (a + 1)%Z (b + 1)%Z (c + 1)%Z)%F.
  Proof.
    intros. unfold sum3.
    set (g3 := fun i j => Zsum 0 n3 (fun k => (w2 c ec rc k * u i j k)%F)).
    set (g2 := fun i => Zsum 0 n2 (fun j => (w2 b eb rb j * g3 i j)%F)).
    rewrite (Zsum_ext 0 n1 _ (fun i => (w2 a ea ra i * g2 i)%F)).
    2:{ intros i _. unfold g2, g3. rewrite <- Zsum_scal. apply Zsum_ext; intros j _.
        rewrite <- !Zsum_scal. apply Zsum_ext; intros k _. ring. }
    rewrite (Zsum_w2 n1 a ea ra g2) by lia. unfold g2.
    rewrite (Zsum_w2 n2 b eb rb (g3 a)), (Zsum_w2 n2 b eb rb (g3 (a + 1))) by lia.
    unfold g3.
    rewrite (Zsum_w2 n3 c ec rc (u a b)), (Zsum_w2 n3 c ec rc (u a (b + 1))),
      (Zsum_w2 n3 c ec rc (u (a + 1) b)), (Zsum_w2 n3 c ec rc (u (a + 1) (b + 1))) by lia.
    ring.
  Qed.
End Sums.
