(* Proofs/CodecTables.v -- the FINITE key table of property C17 (definition of the table and the
   vm_compute decision over it).  Kept out of Props/C17.v so that the ~6 s evaluation is compiled
   once (make rebuilds it when Model/Codec.v or Proofs/Codec.v change) instead of on every run of
   the check, which re-runs Props/C17.v for Print Assumptions. *)
From Coq Require Import ZArith List Bool Ascii String.
From V Require Import Model.Codec Proofs.Codec.
Import ListNotations.
Local Open Scope string_scope.

Definition key_alpha : list ascii := ["_"; "a"; "-"; ">"]%char.
Definition key_tokens : list string := ["_"; "a"; "__array"; "__complex"; "-float64"; "/"; "."].
Fixpoint twords (n : nat) : list string :=
  match n with
  | O => [EmptyString]
  | S n' => EmptyString :: flat_map (fun w => map (fun t => t ++ w) key_tokens) (twords n')
  end.

Lemma key_guard_table :
  forallb (fun k => Bool.eqb (key_all_okb k) (simple_keyb k)) (words key_alpha 4 ++ twords 3) = true.
Proof. vm_compute. reflexivity. Qed.
