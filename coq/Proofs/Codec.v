(* Proofs/Codec.v -- lemmas about Model/Codec.v (property C17). *)
From Coq Require Import ZArith List Bool Ascii String Lia Permutation.
From V Require Import Model.Codec.
Import ListNotations.
Local Open Scope string_scope.
Local Open Scope list_scope.

(* ------------------------------------------------- induction over [val] *)
Section ValInd.
  Variable P : val -> Prop.
  Hypothesis HNone : P VNone.
  Hypothesis HBool : forall b, P (VBool b).
  Hypothesis HInt : forall z, P (VInt z).
  Hypothesis HFloat : forall x, P (VFloat x).
  Hypothesis HCplx : forall a b, P (VCplx a b).
  Hypothesis HStr : forall s, P (VStr s).
  Hypothesis HStr0 : forall s, P (VStr0 s).
  Hypothesis HBytes : forall s, P (VBytes s).
  Hypothesis HNps : forall dt x, P (VNps dt x).
  Hypothesis HArr : forall dt sh data, P (VArr dt sh data).
  Hypothesis HList : forall l, Forall P l -> P (VList l).
  Hypothesis HDict : forall kvs, Forall (fun kv => P (snd kv)) kvs -> P (VDict kvs).
  Fixpoint val_ind' (v : val) : P v :=
    match v with
    | VNone => HNone | VBool b => HBool b | VInt z => HInt z | VFloat x => HFloat x
    | VCplx a b => HCplx a b | VStr s => HStr s | VStr0 s => HStr0 s | VBytes s => HBytes s
    | VNps dt x => HNps dt x | VArr dt sh data => HArr dt sh data
    | VList l =>
        HList l ((fix go (l : list val) : Forall P l :=
                    match l with
                    | [] => Forall_nil _
                    | x :: t => Forall_cons x (val_ind' x) (go t)
                    end) l)
    | VDict kvs =>
        HDict kvs ((fix go (l : dict) : Forall (fun kv => P (snd kv)) l :=
                      match l with
                      | [] => Forall_nil _
                      | kv :: t => Forall_cons kv (val_ind' (snd kv)) (go t)
                      end) kvs)
    end.
End ValInd.

(* ------------------------------------------------------------ option/mapM *)
Lemma mapM_Some_iff {A B} (f : A -> option B) l l' :
  mapM f l = Some l' <-> Forall2 (fun a b => f a = Some b) l l'.
Proof.
  revert l'; induction l as [|a t IH]; intros l'; simpl.
  - split; intro H. + inversion H; constructor. + inversion H; reflexivity.
  - destruct (f a) eqn:Ha.
    + destruct (mapM f t) eqn:Ht.
      * split; intro H.
        -- inversion H; subst. constructor; auto. apply IH; reflexivity.
        -- inversion H; subst. apply IH in H4. rewrite Ha in H2. congruence.
      * split; intro H; [discriminate|]. inversion H; subst. apply IH in H4. discriminate.
    + split; intro H; [discriminate|]. inversion H; subst. congruence.
Qed.

Lemma mapM_map {A B C} (f : B -> option C) (g : A -> B) l :
  mapM f (map g l) = mapM (fun a => f (g a)) l.
Proof. induction l as [|a t IH]; simpl; [reflexivity|]. rewrite IH. reflexivity. Qed.

Lemma mapM_ext_in {A B} (f g : A -> option B) l :
  (forall a, In a l -> f a = g a) -> mapM f l = mapM g l.
Proof.
  induction l as [|a t IH]; intros H; simpl; [reflexivity|].
  rewrite (H a (or_introl eq_refl)), IH; [reflexivity|]. intros; apply H; right; assumption.
Qed.

Lemma mapM_all_Some {A B} (f : A -> option B) (g : A -> B) l :
  (forall a, In a l -> f a = Some (g a)) -> mapM f l = Some (map g l).
Proof.
  induction l as [|a t IH]; intros H; simpl; [reflexivity|].
  rewrite (H a (or_introl eq_refl)), IH; [reflexivity|]. intros; apply H; right; assumption.
Qed.

(* ------------------------------------------------------------- assoc lists *)
Section AssocLemmas.
  Context {A : Type}.
  Implicit Types (l : list (string * A)).

  Lemma dset_notin k (v : A) l : ~ In k (map fst l) -> dset k v l = l ++ [(k, v)].
  Proof.
    induction l as [|[k' v'] t IH]; simpl; intros H; [reflexivity|].
    destruct (String.eqb k k') eqn:E.
    - apply String.eqb_eq in E. subst. exfalso; apply H; left; reflexivity.
    - rewrite IH; [reflexivity|]. intro; apply H; right; assumption.
  Qed.

  Lemma fold_dset_nodup l : forall acc,
    NoDup (map fst (acc ++ l)) ->
    fold_left (fun acc kv => dset (fst kv) (snd kv) acc) l acc = acc ++ l.
  Proof.
    induction l as [|[k v] t IH]; intros acc H; simpl.
    - rewrite app_nil_r; reflexivity.
    - rewrite dset_notin.
      + rewrite IH; rewrite <- app_assoc; simpl; [reflexivity|assumption].
      + rewrite map_app in H. simpl in H. apply NoDup_remove_2 in H.
        intro Hin; apply H. apply in_or_app; left; assumption.
  Qed.

  Lemma dict_of_list_nodup l : NoDup (map fst l) -> dict_of_list l = l.
  Proof. intros H. unfold dict_of_list. rewrite fold_dset_nodup; [reflexivity|exact H]. Qed.

  Lemma lookup_notin k l : ~ In k (map fst l) -> lookup k l = None.
  Proof.
    induction l as [|[k' v'] t IH]; simpl; intros H; [reflexivity|].
    destruct (String.eqb k k') eqn:E.
    - apply String.eqb_eq in E. subst. exfalso; apply H; left; reflexivity.
    - apply IH. intro; apply H; right; assumption.
  Qed.

  Lemma lookup_app_last k (v : A) l : ~ In k (map fst l) -> lookup k (l ++ [(k, v)]) = Some v.
  Proof.
    induction l as [|[k' v'] t IH]; simpl; intros H.
    - rewrite String.eqb_refl; reflexivity.
    - destruct (String.eqb k k') eqn:E.
      + apply String.eqb_eq in E. subst. exfalso; apply H; left; reflexivity.
      + apply IH. intro; apply H; right; assumption.
  Qed.

  Lemma dset_app_last k (v w : A) l :
    ~ In k (map fst l) -> dset k w (l ++ [(k, v)]) = l ++ [(k, w)].
  Proof.
    induction l as [|[k' v'] t IH]; simpl; intros H.
    - rewrite String.eqb_refl; reflexivity.
    - destruct (String.eqb k k') eqn:E.
      + apply String.eqb_eq in E. subst. exfalso; apply H; left; reflexivity.
      + rewrite IH; [reflexivity|]. intro; apply H; right; assumption.
  Qed.
End AssocLemmas.

Lemma map_fst_map_snd {A B} (f : string * A -> B) (l : list (string * A)) :
  map fst (map (fun kv => (fst kv, f kv)) l) = map fst l.
Proof. rewrite map_map. simpl. reflexivity. Qed.

(* ------------------------------------------------------- well-formedness *)
(* [wfd Pk Pl v]: every dict of the tree has pairwise distinct keys, every
   item (key, value) satisfies [Pk], every non-dict value satisfies [Pl]. *)
Fixpoint wfd (Pk : string -> val -> Prop) (Pl : val -> Prop) (v : val) : Prop :=
  match v with
  | VDict kvs =>
      NoDup (map fst kvs) /\
      (fix go (l : dict) : Prop :=
         match l with
         | [] => True
         | kv :: t => (Pk (fst kv) (snd kv) /\ wfd Pk Pl (snd kv)) /\ go t
         end) kvs
  | _ => Pl v
  end.

Lemma wfd_dict Pk Pl kvs :
  wfd Pk Pl (VDict kvs) <->
  NoDup (map fst kvs) /\ Forall (fun kv => Pk (fst kv) (snd kv) /\ wfd Pk Pl (snd kv)) kvs.
Proof.
  simpl. split; intros [H1 H2]; split; try assumption.
  - induction kvs as [|kv t IH]; constructor; [apply H2|]. apply IH; [inversion H1; assumption|apply H2].
  - clear H1. induction H2; simpl; auto.
Qed.

Lemma wfd_weaken (Pk Pk' : string -> val -> Prop) (Pl Pl' : val -> Prop) :
  (forall k v, Pk k v -> Pk' k v) -> (forall v, Pl v -> Pl' v) ->
  forall v, wfd Pk Pl v -> wfd Pk' Pl' v.
Proof.
  intros HK HL. induction v using val_ind'; try (simpl; auto; fail).
  rewrite !wfd_dict. intros [Hn Hf]. split; [assumption|].
  rewrite Forall_forall in *. intros kv Hin. destruct (Hf kv Hin). split; auto.
Qed.

Definition not_dict (v : val) : Prop := is_dict v = false.

(* --------------------------------------------- _dict_serialize / _nonetype *)
Definition not_npbool (v : val) : Prop :=
  match v with
  | VNps DBool _ => False
  | VArr DBool _ _ => False
  | _ => True
  end.
Definition not_marker (v : val) : Prop := v <> VStr NONE_MARK.

Lemma ser_dict kvs :
  NoDup (map fst kvs) ->
  ser (VDict kvs) = VDict (map (fun kv => (fst kv, ser (snd kv))) kvs).
Proof.
  intros H. simpl. rewrite dict_of_list_nodup; [reflexivity|].
  rewrite map_map; simpl. exact H.
Qed.

Lemma nn_dict kvs :
  nn (VDict kvs) = option_map VDict (mapM (fun kv => option_map (pair (fst kv)) (nn (snd kv))) kvs).
Proof. reflexivity. Qed.

Lemma nn_ser_general (Pl : val -> Prop) (f : val -> val) :
  (forall v, not_dict v -> Pl v -> nn (ser v) = Some (f v)) ->
  forall v, wfd (fun _ _ => True) Pl v -> nn (ser v) = Some (map_leaves f v).
Proof.
  intros Hf. induction v using val_ind'; intros Hw; try (apply Hf; [reflexivity|exact Hw]).
  apply wfd_dict in Hw. destruct Hw as [Hn Hall].
  rewrite ser_dict by assumption. rewrite nn_dict, mapM_map. simpl.
  rewrite (mapM_all_Some _ (fun kv => (fst kv, map_leaves f (snd kv)))); [reflexivity|].
  intros kv Hin. rewrite Forall_forall in H, Hall.
  rewrite (H kv Hin); [reflexivity|]. apply (Hall kv Hin).
Qed.

Lemma map_id_iff {A} (g : A -> A) l : map g l = l <-> Forall (fun a => g a = a) l.
Proof.
  induction l as [|a t IH]; simpl; split; intro H; try constructor; try reflexivity.
  - inversion H; congruence.
  - apply IH. inversion H; congruence.
  - inversion H; subst. f_equal; [assumption|]. apply IH; assumption.
Qed.

Lemma map_leaves_fix_iff (Pl : val -> Prop) (f : val -> val) :
  (forall v, not_dict v -> not_dict (f v)) ->
  forall v, wfd (fun _ _ => True) Pl v ->
  (map_leaves f v = v <-> wfd (fun _ _ => True) (fun x => Pl x /\ f x = x) v).
Proof.
  intros Hnd. induction v using val_ind'; intros Hw;
    try (simpl in *; split; [intros E; split; [exact Hw|exact E] | intros [_ E]; exact E]).
  rewrite wfd_dict in Hw. destruct Hw as [Hn Hall]. rewrite wfd_dict.
  rewrite Forall_forall in H, Hall. simpl. split.
  - intros E. injection E as E. apply map_id_iff in E. rewrite Forall_forall in E.
    split; [assumption|]. apply Forall_forall. intros kv Hin. split; [exact I|].
    apply (H kv Hin); [apply (Hall kv Hin)|]. specialize (E kv Hin).
    destruct kv as [k x]; simpl in *. congruence.
  - intros [_ Hf]. rewrite Forall_forall in Hf. f_equal. apply map_id_iff. apply Forall_forall.
    intros kv Hin. destruct (Hf kv Hin) as [_ Hx].
    apply (H kv Hin) in Hx; [|apply (Hall kv Hin)]. destruct kv; simpl in *; congruence.
Qed.

(* what nn . ser does to one non-dict value that is not a numpy bool *)
Definition marker_leaf (v : val) : val :=
  match v with
  | VStr s => if String.eqb s NONE_MARK then VNone else v
  | _ => v
  end.

Lemma nn_ser_leaf v : not_dict v -> not_npbool v -> nn (ser v) = Some (marker_leaf v).
Proof.
  destruct v; simpl; intros Hd Hb; try reflexivity; try discriminate.
  - destruct (String.eqb s NONE_MARK); reflexivity.
  - destruct dt; try reflexivity; contradiction.
  - destruct dt; try reflexivity; contradiction.
Qed.

Lemma marker_leaf_fix v : marker_leaf v = v <-> not_marker v.
Proof.
  unfold not_marker. destruct v; simpl; try (split; [intros _; discriminate|reflexivity]).
  destruct (String.eqb s NONE_MARK) eqn:E.
  - apply String.eqb_eq in E. subst. split; [discriminate|intros H; exfalso; apply H; reflexivity].
  - split; [|reflexivity]. intros _ Heq. injection Heq as ->. rewrite String.eqb_refl in E. discriminate.
Qed.

Lemma marker_leaf_not_dict v : not_dict v -> not_dict (marker_leaf v).
Proof. destruct v; simpl; auto. destruct (String.eqb s NONE_MARK); reflexivity. Qed.

(* every dict has distinct keys and no value is a numpy bool / bool array *)
Definition clean (d : val) : Prop := wfd (fun _ _ => True) not_npbool d.
Definition no_marker (d : val) : Prop :=
  wfd (fun _ _ => True) (fun x => not_npbool x /\ not_marker x) d.

Lemma none_marker_roundtrip_l d : clean d -> (nn (ser d) = Some d <-> no_marker d).
Proof.
  intros Hc. unfold no_marker.
  rewrite (nn_ser_general not_npbool marker_leaf) by (auto using nn_ser_leaf).
  split.
  - intros E. injection E as E.
    apply (map_leaves_fix_iff not_npbool marker_leaf marker_leaf_not_dict d Hc) in E.
    revert E. apply wfd_weaken; [auto|]. intros v [? ?]; split; [assumption|].
    apply marker_leaf_fix; assumption.
  - intros Hm. f_equal.
    apply (map_leaves_fix_iff not_npbool marker_leaf marker_leaf_not_dict d Hc).
    revert Hm. apply wfd_weaken; [auto|]. intros v [? ?]; split; [assumption|].
    apply marker_leaf_fix; assumption.
Qed.

(* the marker string itself does not survive: it comes back as None *)
Lemma marker_becomes_none k :
  nn (ser (VDict [(k, VStr NONE_MARK)])) = Some (VDict [(k, VNone)]).
Proof. reflexivity. Qed.

(* --------------------------------------------------- flatten / unflatten *)
Fixpoint nosep (s : string) : Prop :=
  match s with
  | EmptyString => True
  | String a r => a <> SEPC /\ nosep r
  end.

Lemma split_on_nonnil c s : split_on c s <> [].
Proof.
  induction s as [|a r IH]; simpl; [discriminate|].
  destruct (Ascii.eqb a c); [discriminate|]. destruct (split_on c r); discriminate.
Qed.

Lemma split_nosep k : nosep k -> split_on SEPC k = [k].
Proof.
  induction k as [|a r IH]; simpl; intros H; [reflexivity|]. destruct H as [Ha Hr].
  destruct (Ascii.eqb a SEPC) eqn:E; [apply Ascii.eqb_eq in E; contradiction|].
  rewrite IH by assumption. reflexivity.
Qed.

Lemma split_prefixed' k r :
  nosep k -> split_on SEPC (k ++ String SEPC r)%string = k :: split_on SEPC r.
Proof.
  induction k as [|a k' IH]; intros H.
  - reflexivity.
  - destruct H as [Ha Hr]. change ((String a k' ++ String SEPC r)%string)
      with (String a (k' ++ String SEPC r)%string).
    cbn [split_on]. destruct (Ascii.eqb a SEPC) eqn:E; [apply Ascii.eqb_eq in E; contradiction|].
    rewrite IH by assumption. reflexivity.
Qed.
Lemma split_prefixed k r :
  nosep k -> split_on SEPC (k ++ SEP ++ r)%string = k :: split_on SEPC r.
Proof. apply split_prefixed'. Qed.

Lemma append_inj_l s a b : (s ++ a)%string = (s ++ b)%string -> a = b.
Proof. induction s; simpl; intros H; [assumption|]. injection H as H. auto. Qed.

Definition fpart (s : string) : string := hd EmptyString (split_on SEPC s).

Definition ustep (acc : option dict) (kv : string * val) : option dict :=
  o <- acc ;; uins (split_on SEPC (fst kv)) (unconv (snd kv)) o.
Lemma unflatten_fold l : unflatten l = fold_left ustep l (Some []).
Proof. reflexivity. Qed.

Definition prefixed (k : string) (kv : string * val) : string * val :=
  ((k ++ SEP ++ fst kv)%string, snd kv).

Lemma NoDup_app_intro {A} (a b : list A) :
  NoDup a -> NoDup b -> (forall x, In x a -> ~ In x b) -> NoDup (a ++ b).
Proof.
  induction a as [|x t IH]; simpl; intros Ha Hb Hd; [assumption|].
  inversion Ha; subst. constructor.
  - intro Hin. apply in_app_or in Hin. destruct Hin as [|Hin]; [contradiction|].
    apply (Hd x); [left; reflexivity|assumption].
  - apply IH; try assumption. intros y Hy. apply Hd. right; assumption.
Qed.

(* processing the flattened items of one sub-dict under key k *)
Lemma ustep_Some acc k v :
  ustep (Some acc) (k, v) = uins (split_on SEPC k) (unconv v) acc.
Proof. reflexivity. Qed.
Lemma fold_ustep_None l : fold_left ustep l None = None.
Proof. induction l; simpl; auto. Qed.

Lemma uins_cons2 k p ps v out :
  uins (k :: p :: ps) v out =
  match lookup k out with
  | None => sub <- uins (p :: ps) v [] ;; Some (dset k (VDict sub) out)
  | Some (VDict sub) => sub' <- uins (p :: ps) v sub ;; Some (dset k (VDict sub') out)
  | Some _ => None
  end.
Proof. reflexivity. Qed.

Lemma ustep_prefixed_cont k out its : nosep k -> ~ In k (map fst out) ->
  forall acc res,
  fold_left ustep its (Some acc) = Some res ->
  fold_left ustep (map (prefixed k) its) (Some (out ++ [(k, VDict acc)]))
  = Some (out ++ [(k, VDict res)]).
Proof.
  intros Hk Hout. induction its as [|[k' v] t IH]; intros acc res H; cbn [fold_left map] in *.
  - congruence.
  - rewrite ustep_Some in H.
    destruct (uins (split_on SEPC k') (unconv v) acc) as [acc'|] eqn:E.
    + unfold prefixed at 2. cbn [fst snd]. rewrite ustep_Some.
      rewrite split_prefixed by assumption.
      destruct (split_on SEPC k') as [|p ps] eqn:Es; [exfalso; eapply split_on_nonnil; eassumption|].
      rewrite uins_cons2. rewrite lookup_app_last by assumption. rewrite E. cbn [obind].
      rewrite dset_app_last by assumption. apply IH. exact H.
    + rewrite fold_ustep_None in H. discriminate.
Qed.

Lemma ustep_prefixed k out its res : nosep k -> ~ In k (map fst out) -> its <> [] ->
  fold_left ustep its (Some []) = Some res ->
  fold_left ustep (map (prefixed k) its) (Some out) = Some (out ++ [(k, VDict res)]).
Proof.
  intros Hk Hout Hne H. destruct its as [|[k' v] t]; [contradiction|]. cbn [fold_left map] in *.
  rewrite ustep_Some in H.
  destruct (uins (split_on SEPC k') (unconv v) []) as [acc'|] eqn:E.
  - unfold prefixed at 2. cbn [fst snd]. rewrite ustep_Some.
    rewrite split_prefixed by assumption.
    destruct (split_on SEPC k') as [|p ps] eqn:Es; [exfalso; eapply split_on_nonnil; eassumption|].
    rewrite uins_cons2. rewrite lookup_notin by assumption. rewrite E. cbn [obind].
    rewrite dset_notin by assumption.
    apply ustep_prefixed_cont; assumption.
  - rewrite fold_ustep_None in H. discriminate.
Qed.

(* npz guard: no key contains '>', no sub-dict is empty, no value is a 0-d
   numpy str array *)
Definition npz_item_ok (k : string) (v : val) : Prop := nosep k /\ v <> VDict [].
Definition wf_flat (d : val) : Prop := wfd npz_item_ok (fun v => unconv v = v) d.

Definition flat_item (kv : string * val) : dict :=
  match snd kv with
  | VDict _ => map (prefixed (fst kv)) (dict_of_list (flat_raw (snd kv)))
  | _ => [kv]
  end.
Lemma flat_raw_dict kvs : flat_raw (VDict kvs) = flat_map flat_item kvs.
Proof. reflexivity. Qed.

Lemma fpart_prefixed k kv : nosep k -> fpart (fst (prefixed k kv)) = k.
Proof. intros H. unfold fpart, prefixed. cbn [fst]. rewrite split_prefixed by assumption. reflexivity. Qed.
Lemma fpart_nosep k : nosep k -> fpart k = k.
Proof. intros H. unfold fpart. rewrite split_nosep by assumption. reflexivity. Qed.

Lemma NoDup_prefixed k (l : dict) :
  NoDup (map fst l) -> NoDup (map fst (map (prefixed k) l)).
Proof.
  induction l as [|[a b] t IH]; cbn [map fst]; intros Hnd; [constructor|].
  inversion Hnd; subst. constructor; [|auto]. intro Hin. apply H1.
  apply in_map_iff in Hin. destruct Hin as [[a' b'] [E Hin]].
  apply in_map_iff in Hin. destruct Hin as [[a2 b2] [E2 Hin]].
  unfold prefixed in *. cbn [fst snd] in *. injection E2 as <- <-.
  apply append_inj_l in E. change (SEP ++ a)%string with (String SEPC a) in E.
  injection E as ->.
  apply in_map_iff. exists (a, b2); auto.
Qed.

Definition on_snd (g : val -> val) (kv : string * val) : string * val := (fst kv, g (snd kv)).

Lemma on_snd_prefixed g k l :
  map (on_snd g) (map (prefixed k) l) = map (prefixed k) (map (on_snd g) l).
Proof. rewrite !map_map. reflexivity. Qed.

(* [g] is what the store does to a value between flatten and unflatten *)
Lemma flat_main (g : val -> val) (Pl : val -> Prop) v :
  forall kvs, v = VDict kvs -> wfd npz_item_ok Pl v ->
  NoDup (map fst (flat_raw v)) /\
  (forall key, In key (map fst (flat_raw v)) -> In (fpart key) (map fst kvs)) /\
  Forall (fun kv => not_dict (snd kv) /\ Pl (snd kv)) (flat_raw v) /\
  (forall out, (forall k, In k (map fst kvs) -> ~ In k (map fst out)) ->
     fold_left ustep (map (on_snd g) (flat_raw v)) (Some out)
     = Some (out ++ map (on_snd (map_leaves (fun x => unconv (g x)))) kvs)).
Proof.
  induction v using val_ind'; intros kvs0 Heq Hw; try discriminate.
  injection Heq as <-. apply wfd_dict in Hw. destruct Hw as [Hn Hall].
  rewrite flat_raw_dict.
  (* per-item facts *)
  assert (Hitem : forall kv, In kv kvs ->
            NoDup (map fst (flat_item kv)) /\
            (forall key, In key (map fst (flat_item kv)) -> fpart key = fst kv) /\
            Forall (fun kv => not_dict (snd kv) /\ Pl (snd kv)) (flat_item kv) /\
            (forall out, ~ In (fst kv) (map fst out) ->
               fold_left ustep (map (on_snd g) (flat_item kv)) (Some out)
               = Some (out ++ [on_snd (map_leaves (fun x => unconv (g x))) kv]))).
  { intros [k x] Hin. rewrite Forall_forall in H, Hall.
    specialize (H _ Hin). destruct (Hall _ Hin) as [[Hk Hne] Hwx]. simpl in *.
    unfold flat_item; simpl. destruct x as [| | | | | | | | | | |sub]; simpl in Hwx;
      try (split; [repeat constructor; simpl; tauto|]; split;
           [intros key [<-|[]]; apply fpart_nosep; assumption|]; split;
           [repeat constructor; assumption|];
           intros out Hout; simpl; unfold ustep; simpl; rewrite split_nosep by assumption;
           cbn [uins]; rewrite dset_notin by assumption; reflexivity).
    (* sub-dict *)
    destruct (H sub eq_refl Hwx) as [Hnd [_ [Hlv Hfold]]].
    rewrite dict_of_list_nodup by assumption.
    split; [|split; [|split]].
    - apply NoDup_prefixed; assumption.
    - intros key Hkey. rewrite map_map in Hkey. apply in_map_iff in Hkey.
      destruct Hkey as [kv' [<- _]]. apply fpart_prefixed; assumption.
    - apply Forall_forall. intros kv' Hin'. apply in_map_iff in Hin'.
      destruct Hin' as [kv0 [<- Hin0]]. rewrite Forall_forall in Hlv. apply (Hlv kv0 Hin0).
    - intros out Hout. rewrite on_snd_prefixed.
      change (on_snd (map_leaves (fun x => unconv (g x))) (k, VDict sub))
        with (k, VDict (map (on_snd (map_leaves (fun x => unconv (g x)))) sub)).
      apply ustep_prefixed; try assumption.
      + intro E. apply map_eq_nil in E. specialize (Hfold [] (fun _ _ => @in_nil _ _)).
        rewrite E in Hfold. simpl in Hfold. injection Hfold as Hfold.
        symmetry in Hfold. apply map_eq_nil in Hfold. subst. apply Hne; reflexivity.
      + apply (Hfold []). intros ? _ []. }
  clear H Hall. split; [|split; [|split]].
  - (* NoDup of all flat keys *)
    induction kvs as [|kv t IH]; simpl; [constructor|].
    rewrite map_app. inversion Hn; subst. apply NoDup_app_intro.
    + apply Hitem; left; reflexivity.
    + apply IH; [assumption|]. intros; apply Hitem; right; assumption.
    + intros key Hk1 Hk2. apply (proj1 (proj2 (Hitem kv (or_introl eq_refl)))) in Hk1.
      apply H1. clear -Hk1 Hk2 Hitem.
      induction t as [|kv' t IH]; simpl in *; [contradiction|].
      rewrite map_app in Hk2. apply in_app_or in Hk2. destruct Hk2 as [Hk2|Hk2].
      * left. apply (proj1 (proj2 (Hitem kv' (or_intror (or_introl eq_refl))))) in Hk2. congruence.
      * right. apply IH; [|assumption]. intros kv0 [->|Hin]; apply Hitem; [left|right; right]; auto.
  - intros key Hkey. induction kvs as [|kv t IH]; simpl in *; [contradiction|].
    rewrite map_app in Hkey. apply in_app_or in Hkey. destruct Hkey as [Hkey|Hkey].
    + left. symmetry. apply (proj1 (proj2 (Hitem kv (or_introl eq_refl)))); assumption.
    + right. apply IH; [inversion Hn; assumption| |assumption].
      intros; apply Hitem; right; assumption.
  - induction kvs as [|kv t IH]; simpl; [constructor|]. apply Forall_app. split.
    + apply Hitem; left; reflexivity.
    + apply IH; [inversion Hn; assumption|]. intros; apply Hitem; right; assumption.
  - induction kvs as [|kv t IH]; intros out Hout; simpl.
    + rewrite app_nil_r; reflexivity.
    + rewrite map_app, fold_left_app.
      rewrite (proj2 (proj2 (proj2 (Hitem kv (or_introl eq_refl))))) by (apply Hout; left; reflexivity).
      inversion Hn; subst. rewrite IH; try assumption.
      * rewrite <- app_assoc. reflexivity.
      * intros; apply Hitem; right; assumption.
      * intros k Hk Hin. rewrite map_app in Hin. apply in_app_or in Hin. simpl in Hin.
        destruct Hin as [Hin|[<-|[]]]; [|contradiction].
        apply (Hout k); [right; assumption|assumption].
Qed.

Lemma map_on_snd_id (l : dict) : map (on_snd (fun x => x)) l = l.
Proof. induction l as [|[k v] t IH]; simpl; [reflexivity|]. rewrite IH. reflexivity. Qed.

Lemma unconv_not_dict x : not_dict x -> not_dict (unconv x).
Proof. destruct x; simpl; auto. Qed.

Lemma flatten_nodup Pl kvs : wfd npz_item_ok Pl (VDict kvs) ->
  flatten (VDict kvs) = flat_raw (VDict kvs) /\ NoDup (map fst (flat_raw (VDict kvs))).
Proof.
  intros Hw. destruct (flat_main (fun x => x) Pl (VDict kvs) kvs eq_refl Hw) as [Hnd _].
  unfold flatten. rewrite dict_of_list_nodup by assumption. auto.
Qed.

(* unflatten after flatten, for any guard-respecting tree: identity up to
   the numpy-str conversion *)
Lemma unflatten_flatten_gen Pl kvs :
  wfd npz_item_ok Pl (VDict kvs) ->
  unflatten (flatten (VDict kvs)) = Some (map (on_snd (map_leaves unconv)) kvs).
Proof.
  intros Hw. destruct (flat_main (fun x => x) Pl (VDict kvs) kvs eq_refl Hw) as [Hnd [_ [_ Hfold]]].
  unfold flatten. rewrite dict_of_list_nodup by assumption.
  rewrite unflatten_fold. specialize (Hfold [] (fun _ _ => @in_nil _ _)).
  rewrite map_on_snd_id in Hfold. exact Hfold.
Qed.

(* the precise exception: an empty sub-dict contributes nothing to the flat
   dict, so the file is indistinguishable from one saved without that key *)
Lemma empty_dict_lost_l l1 k l2 :
  flatten (VDict (l1 ++ (k, VDict []) :: l2)) = flatten (VDict (l1 ++ l2)).
Proof.
  unfold flatten. rewrite !flat_raw_dict, !flat_map_app. simpl. reflexivity.
Qed.

(* ------------------------------------------------------------------ json *)
Lemma chunks_spec n m : forall data, List.length data = n * m ->
  List.length (chunks n m data) = n /\
  Forall (fun c => List.length c = m) (chunks n m data) /\
  List.concat (chunks n m data) = data.
Proof.
  induction n as [|n IH]; intros data Hl; simpl in *.
  - destruct data; [auto|discriminate].
  - assert (Hf : List.length (firstn m data) = m) by (rewrite firstn_length; lia).
    assert (Hs : List.length (skipn m data) = n * m) by (rewrite skipn_length; lia).
    destruct (IH _ Hs) as [H1 [H2 H3]]. split; [lia|]. split; [constructor; assumption|].
    rewrite H3. apply firstn_skipn.
Qed.

(* shapes json can carry: a zero-length axis only in last position *)
Fixpoint json_shape_ok (sh : list nat) : Prop :=
  match sh with
  | [] => True
  | n :: sh' => (n = 0 -> sh' = []) /\ json_shape_ok sh'
  end.

Lemma py_of_num_leaf x :
  shape_of (py_of_num x) = [] /\ regular [] (py_of_num x) = true /\
  flat_nested (py_of_num x) = [py_of_num x].
Proof. destruct x; simpl; auto. Qed.

Lemma flat_map_map {A B C} (f : B -> list C) (g : A -> B) l :
  flat_map f (map g l) = flat_map (fun a => f (g a)) l.
Proof. induction l; simpl; [reflexivity|]. rewrite IHl; reflexivity. Qed.

Lemma flat_map_map_concat {A B} (g : A -> B) (cs : list (list A)) :
  flat_map (fun c => map g c) cs = map g (List.concat cs).
Proof. induction cs; simpl; [reflexivity|]. rewrite map_app, IHcs. reflexivity. Qed.

Lemma flat_map_ext_in {A B} (f g : A -> list B) l :
  (forall a, In a l -> f a = g a) -> flat_map f l = flat_map g l.
Proof.
  induction l as [|a t IH]; intros H; simpl; [reflexivity|].
  rewrite (H a (or_introl eq_refl)), IH; [reflexivity|]. intros; apply H; right; assumption.
Qed.

Lemma tolist_spec sh : forall data,
  List.length data = prod sh -> json_shape_ok sh ->
  shape_of (tolist sh data) = sh /\ regular sh (tolist sh data) = true /\
  flat_nested (tolist sh data) = map py_of_num data.
Proof.
  induction sh as [|n sh' IH]; intros data Hl Hs.
  - simpl in Hl. destruct data as [|x [|y t]]; try discriminate. simpl.
    destruct (py_of_num_leaf x) as [H1 [H2 H3]]. auto.
  - destruct Hs as [Hz Hs]. change (prod (n :: sh')) with (n * prod sh') in Hl.
    destruct (chunks_spec n (prod sh') data Hl) as [Hc1 [Hc2 Hc3]].
    cbn [tolist]. set (cs := chunks n (prod sh') data) in *.
    assert (Hall : forall c, In c cs ->
              shape_of (tolist sh' c) = sh' /\ regular sh' (tolist sh' c) = true /\
              flat_nested (tolist sh' c) = map py_of_num c).
    { intros c Hin. rewrite Forall_forall in Hc2. apply IH; [apply Hc2; assumption|assumption]. }
    split; [|split].
    + cbn [shape_of]. rewrite map_length, Hc1. f_equal.
      destruct cs as [|c t] eqn:Ecs; simpl in *.
      * subst n. symmetry; apply Hz; reflexivity.
      * apply (Hall c); left; reflexivity.
    + cbn [regular]. rewrite map_length, Hc1, Nat.eqb_refl. simpl.
      apply forallb_forall. intros x Hin. apply in_map_iff in Hin. destruct Hin as [c [<- Hin]].
      apply (Hall c Hin).
    + cbn [flat_nested]. rewrite flat_map_map.
      rewrite (flat_map_ext_in _ (fun c => map py_of_num c)); [|intros c Hin; apply (Hall c Hin)].
      rewrite flat_map_map_concat, Hc3. reflexivity.
Qed.

(* element is representable in an array of dtype dt (and survives tolist/asarray) *)
Definition typed (dt : dtype) (x : num) : Prop := cast_num dt (py_of_num x) = Some x.

Lemma asarray_tolist dt sh data :
  List.length data = prod sh -> json_shape_ok sh -> Forall (typed dt) data ->
  asarray (tolist sh data) dt = Some (VArr dt sh data).
Proof.
  intros Hl Hs Ht. destruct (tolist_spec sh data Hl Hs) as [H1 [H2 H3]].
  unfold asarray. rewrite H1, H2, H3, mapM_map.
  rewrite (mapM_all_Some _ (fun x => x)); [rewrite map_id; reflexivity|].
  intros x Hin. rewrite Forall_forall in Ht. apply Ht; assumption.
Qed.

(* what a + 1j*b does to one complex element *)
Definition cnorm (x : num) : num :=
  match x with NC a b => NC (if finite b then a else FNaN) b | _ => x end.
Definition is_NC (x : num) : Prop := match x with NC _ _ => True | _ => False end.

Lemma zipM_re_im data : Forall is_NC data ->
  zipM (map re_of data) (map im_of data) = Some (map cnorm data).
Proof.
  induction data as [|x t IH]; intros H; simpl; [reflexivity|].
  inversion H; subst. destruct x; try contradiction. simpl. rewrite IH by assumption. reflexivity.
Qed.

Lemma firstn_app_exact {A} (a b : list A) n : List.length a = n -> firstn n (a ++ b) = a.
Proof. intros <-. rewrite firstn_app, Nat.sub_diag, firstn_all. simpl. apply app_nil_r. Qed.
Lemma skipn_app_exact {A} (a b : list A) n : List.length a = n -> skipn n (a ++ b) = b.
Proof. intros <-. rewrite skipn_app, Nat.sub_diag, skipn_all. reflexivity. Qed.

Lemma compose_stack dt sh data :
  List.length data = prod sh -> Forall is_NC data ->
  compose (VArr dt (2 :: sh) (map re_of data ++ map im_of data)) =
  match sh, map cnorm data with
  | [], [c] => Some (VNps (cplx_dt dt) c)
  | [], _ => None
  | _, cs => Some (VArr (cplx_dt dt) sh cs)
  end.
Proof.
  intros Hl Hc. unfold compose.
  rewrite firstn_app_exact by (rewrite map_length; assumption).
  rewrite skipn_app_exact by (rewrite map_length; assumption).
  rewrite firstn_all2 by (rewrite map_length; lia).
  rewrite zipM_re_im by assumption. reflexivity.
Qed.

(* ---- keys: the tag codec of one key, stated with the model's own string
   functions (Python's `in`, str.split, str.replace) *)
Definition key_plain_ok (k : string) : Prop :=
  contains TAG_A k = false /\ contains TAG_C k = false.
Definition atype_of (n : string) : string := ("array-" ++ n)%string.
Definition key_arr_ok (k n : string) : Prop :=
  let k' := (k ++ TAG_A ++ "-" ++ n)%string in
  contains TAG_A k' = true /\
  last (split_str "__" k') EmptyString = atype_of n /\
  remove_all ("__" ++ atype_of n) k' = k /\
  contains TAG_C k = false.
Definition key_carr_ok (k n : string) : Prop :=
  let k' := ((k ++ TAG_C) ++ TAG_A ++ "-" ++ n)%string in
  contains TAG_A k' = true /\
  last (split_str "__" k') EmptyString = atype_of n /\
  remove_all ("__" ++ atype_of n) k' = (k ++ TAG_C)%string /\
  contains TAG_C (k ++ TAG_C) = true /\
  remove_all TAG_C (k ++ TAG_C) = k.

Lemma dtype_of_name_name d : dtype_of_name (dtype_name d) = Some d.
Proof. destruct d; reflexivity. Qed.

Lemma dec_item_plain k v : key_plain_ok k -> dec_item k v = Some (k, v).
Proof. intros [H1 H2]. unfold dec_item. rewrite H1. cbn [obind fst]. rewrite H2. reflexivity. Qed.

Lemma dec_item_arr k d v a :
  key_arr_ok k (dtype_name d) -> asarray v d = Some a ->
  dec_item (k ++ TAG_A ++ "-" ++ dtype_name d) v = Some (k, a).
Proof.
  intros [H1 [H2 [H3 H4]]] Ha. unfold dec_item. rewrite H1, H2.
  change (drop 6 (atype_of (dtype_name d))) with (dtype_name d).
  rewrite dtype_of_name_name. cbn [obind]. rewrite Ha. cbn [obind fst snd].
  rewrite H3, H4. reflexivity.
Qed.

Lemma dec_item_carr k d v a c :
  key_carr_ok k (dtype_name d) -> asarray v d = Some a -> compose a = Some c ->
  dec_item ((k ++ TAG_C) ++ TAG_A ++ "-" ++ dtype_name d) v = Some (k, c).
Proof.
  intros [H1 [H2 [H3 [H4 H5]]]] Ha Hc. unfold dec_item. rewrite H1, H2.
  change (drop 6 (atype_of (dtype_name d))) with (dtype_name d).
  rewrite dtype_of_name_name. cbn [obind]. rewrite Ha. cbn [obind fst snd].
  rewrite H3, H4, Hc. cbn [obind]. rewrite H5. reflexivity.
Qed.

(* ---- leaves *)
Definition kind_matches (dt : dtype) (x : num) : Prop :=
  match kind_of dt, x with
  | KBool, NB _ | KInt, NI _ | KFloat, NF _ | KCplx, NC _ _ => True
  | _, _ => False
  end.

(* what the json round trip does to one non-dict value *)
Definition normj (v : val) : val :=
  match v with
  | VCplx a b => VNps DC128 (cnorm (NC a b))
  | VNps dt (NI z) => VInt z
  | VNps dt (NF f) => VFloat f
  | VNps dt (NB b) => VBool b
  | VNps dt (NC a b) => VNps dt (cnorm (NC a b))
  | VArr dt sh data =>
      if is_complex_dt dt
      then match sh, data with
           | [], [c] => VNps dt (cnorm c)
           | _, _ => VArr dt sh (map cnorm data)
           end
      else v
  | _ => v
  end.

(* json guard for one (key, non-dict value) *)
Definition jleaf_ok (k : string) (v : val) : Prop :=
  match v with
  | VNone | VBool _ | VInt _ | VFloat _ | VStr _ => key_plain_ok k
  | VCplx _ _ => key_carr_ok k (dtype_name DF64)
  | VNps dt x =>
      kind_matches dt x /\
      if is_complex_dt dt then key_carr_ok k (dtype_name (real_dt dt)) else key_plain_ok k
  | VArr dt sh data =>
      List.length data = prod sh /\ json_shape_ok sh /\
      if is_complex_dt dt
      then Forall is_NC data /\ key_carr_ok k (dtype_name (real_dt dt))
      else Forall (typed dt) data /\ key_arr_ok k (dtype_name dt)
  | _ => False
  end.

Lemma typed_re_im dt data : is_complex_dt dt = true -> Forall is_NC data ->
  Forall (typed (real_dt dt)) (map re_of data ++ map im_of data).
Proof.
  intros Hd H. apply Forall_app. split; apply Forall_forall; intros x Hin;
    apply in_map_iff in Hin; destruct Hin as [y [<- Hin]];
    rewrite Forall_forall in H; specialize (H y Hin); destruct y; try contradiction;
    destruct dt; try discriminate; reflexivity.
Qed.

Lemma cplx_real_dt dt : is_complex_dt dt = true -> cplx_dt (real_dt dt) = dt.
Proof. destruct dt; try discriminate; reflexivity. Qed.

Lemma prod_cons n sh : prod (n :: sh) = n * prod sh.
Proof. reflexivity. Qed.

Lemma strip_tolist sh data : strip_nps (tolist sh data) = tolist sh data.
Proof. destruct sh; [|reflexivity]. simpl. destruct data as [|x t]; [reflexivity|]. destruct x; reflexivity. Qed.

Lemma enc_dec_leaf k v : not_dict v -> jleaf_ok k v ->
  dec_item (fst (enc_leaf k v)) (snd (enc_leaf k v)) = Some (k, normj v).
Proof.
  intros Hd Hok. destruct v; try discriminate; try contradiction;
    try (simpl in Hok; apply dec_item_plain; assumption).
  - (* Python complex *)
    simpl in Hok. cbn [enc_leaf fst snd].
    eapply (dec_item_carr k DF64); [exact Hok|reflexivity|reflexivity].
  - (* numpy scalar *)
    destruct Hok as [Hk Hkey]. destruct x; destruct dt; try contradiction;
      try (apply dec_item_plain; exact Hkey);
      (cbn [enc_leaf fst snd is_complex_dt kind_of real_dt];
       eapply dec_item_carr; [exact Hkey|reflexivity|reflexivity]).
  - (* array *)
    destruct Hok as [Hl [Hs Hrest]]. unfold enc_leaf.
    destruct (is_complex_dt dt) eqn:Ec.
    + destruct Hrest as [Hnc Hkey]. cbn [fst snd]. rewrite strip_tolist.
      assert (Hl2 : List.length (map re_of data ++ map im_of data) = prod (2 :: sh))
        by (rewrite app_length, !map_length, prod_cons; lia).
      assert (Hs2 : json_shape_ok (2 :: sh)) by (split; [discriminate|assumption]).
      eapply dec_item_carr; [exact Hkey| |].
      * apply asarray_tolist; [exact Hl2|exact Hs2|apply typed_re_im; assumption].
      * rewrite compose_stack by assumption. rewrite cplx_real_dt by assumption.
        unfold normj. rewrite Ec.
        destruct sh as [|n sh']; [|reflexivity].
        simpl in Hl. destruct data as [|c [|c2 t]]; try discriminate. reflexivity.
    + destruct Hrest as [Hty Hkey]. cbn [fst snd]. rewrite strip_tolist.
      assert (E : normj (VArr dt sh data) = VArr dt sh data) by (unfold normj; rewrite Ec; reflexivity).
      rewrite E. apply dec_item_arr; [exact Hkey|]. apply asarray_tolist; assumption.
Qed.

(* key part of dec_item *)
Definition dec_key (e : string) : string :=
  let k1 := if contains TAG_A e
            then remove_all ("__" ++ last (split_str "__" e) EmptyString) e else e in
  if contains TAG_C k1 then remove_all TAG_C k1 else k1.

Lemma dec_item_key e v k x : dec_item e v = Some (k, x) -> dec_key e = k.
Proof.
  unfold dec_item, dec_key. destruct (contains TAG_A e).
  - destruct (dtype_of_name _); [|discriminate]. cbn [obind].
    destruct (asarray v d); [|discriminate]. cbn [obind fst snd].
    destruct (contains TAG_C _).
    + destruct (compose v0); [|discriminate]. cbn [obind]. congruence.
    + congruence.
  - cbn [obind fst snd]. destruct (contains TAG_C e).
    + destruct (compose v); [|discriminate]. cbn [obind]. congruence.
    + congruence.
Qed.

Lemma enc_leaf_not_dict k v : not_dict v -> not_dict (snd (enc_leaf k v)).
Proof.
  intros H. destruct v; try discriminate; try reflexivity.
  - destruct x; destruct dt; reflexivity.
  - unfold enc_leaf. destruct (is_complex_dt dt); cbn [fst snd]; rewrite strip_tolist.
    + reflexivity.
    + destruct sh; [|reflexivity]. simpl. destruct data as [|x t]; [reflexivity|]. destruct x; reflexivity.
Qed.

Definition jnum (x : num) : Prop := jsonable (py_of_num x) = true.

Lemma tolist_jsonable sh : forall data,
  List.length data = prod sh -> Forall jnum data -> jsonable (tolist sh data) = true.
Proof.
  induction sh as [|n sh' IH]; intros data Hl Hj.
  - simpl. destruct data as [|x t]; [reflexivity|]. inversion Hj; assumption.
  - rewrite prod_cons in Hl. destruct (chunks_spec n (prod sh') data Hl) as [_ [Hc2 Hc3]].
    cbn [tolist jsonable]. apply forallb_forall. intros y Hin.
    apply in_map_iff in Hin. destruct Hin as [c [<- Hin]].
    rewrite Forall_forall in Hc2. apply IH; [apply Hc2; assumption|].
    rewrite <- Hc3 in Hj. rewrite Forall_concat in Hj. rewrite Forall_forall in Hj. apply Hj; assumption.
Qed.

Lemma typed_jnum dt x : typed dt x -> jnum x.
Proof. unfold typed, jnum. destruct x; try reflexivity. destruct dt; discriminate. Qed.

Lemma enc_leaf_jsonable k v : not_dict v -> jleaf_ok k v -> jsonable (snd (enc_leaf k v)) = true.
Proof.
  intros Hd Hok. destruct v; try discriminate; try contradiction; try reflexivity.
  - destruct Hok as [Hk _]. destruct x; destruct dt; try contradiction; reflexivity.
  - destruct Hok as [Hl [Hs Hrest]]. unfold enc_leaf.
    destruct (is_complex_dt dt) eqn:Ec; cbn [fst snd]; rewrite strip_tolist.
    + destruct Hrest as [Hnc _]. apply tolist_jsonable.
      * rewrite app_length, !map_length, prod_cons. lia.
      * eapply Forall_impl; [intros x; apply (typed_jnum (real_dt dt))|].
        apply typed_re_im; assumption.
    + destruct Hrest as [Hty _]. apply tolist_jsonable; [assumption|].
      eapply Forall_impl; [intros x; apply (typed_jnum dt)|assumption].
Qed.

(* json guard of a whole tree *)
Definition jitem_ok (k : string) (v : val) : Prop :=
  if is_dict v then key_plain_ok k else jleaf_ok k v.
Definition wfj (d : val) : Prop := wfd jitem_ok (fun _ => True) d.

Definition enc_item (kv : string * val) : string * val :=
  match snd kv with
  | VDict _ => (fst kv, jenc (snd kv))
  | _ => enc_leaf (fst kv) (snd kv)
  end.
Definition dec_step (kv : string * val) : option (string * val) :=
  x <- match snd kv with VDict _ => jdec (snd kv) | y => Some y end ;; dec_item (fst kv) x.

Lemma jenc_dict kvs : jenc (VDict kvs) = VDict (dict_of_list (map enc_item kvs)).
Proof. reflexivity. Qed.
Lemma jdec_dict kvs :
  jdec (VDict kvs) = option_map (fun l => VDict (dict_of_list l)) (mapM dec_step kvs).
Proof. reflexivity. Qed.

Lemma dec_step_leaf k v : not_dict v -> dec_step (k, v) = dec_item k v.
Proof. intros H. unfold dec_step. destruct v; try reflexivity; discriminate. Qed.

Lemma NoDup_map_inv' {A B} (f : A -> B) l : NoDup (map f l) -> NoDup l.
Proof.
  induction l as [|a t IH]; simpl; intros H; [constructor|]. inversion H; subst.
  constructor; [|auto]. intro Hin. apply H2. apply in_map; assumption.
Qed.

Lemma json_main v : wfj v -> is_dict v = true ->
  jsonable (jenc v) = true /\ jdec (jenc v) = Some (map_leaves normj v).
Proof.
  induction v using val_ind'; intros Hw Hd; try discriminate. clear Hd.
  apply wfd_dict in Hw. destruct Hw as [Hn Hall]. rewrite Forall_forall in H, Hall.
  (* per item *)
  assert (Hitem : forall kv, In kv kvs ->
            jsonable (snd (enc_item kv)) = true /\
            dec_step (enc_item kv) = Some (fst kv, map_leaves normj (snd kv))).
  { intros [k x] Hin. destruct (Hall _ Hin) as [Hk Hwx]. specialize (H _ Hin). simpl in *.
    unfold jitem_ok in Hk. destruct (is_dict x) eqn:Ed.
    - destruct x; try discriminate. destruct (H Hwx eq_refl) as [Hj Hdec].
      unfold enc_item. cbn [fst snd]. split; [exact Hj|].
      unfold dec_step. cbn [fst snd]. rewrite jenc_dict in *. rewrite Hdec. cbn [obind].
      apply dec_item_plain; assumption.
    - assert (Hx : enc_item (k, x) = enc_leaf k x) by (destruct x; try reflexivity; discriminate).
      rewrite Hx. split; [apply enc_leaf_jsonable; assumption|].
      destruct (enc_leaf k x) as [e y] eqn:Ee.
      assert (Hy : not_dict y) by (change y with (snd (e, y)); rewrite <- Ee; apply enc_leaf_not_dict; assumption).
      rewrite dec_step_leaf by assumption.
      change e with (fst (e, y)). change y with (snd (e, y)) at 2. rewrite <- Ee.
      rewrite enc_dec_leaf by assumption. destruct x; try reflexivity; discriminate. }
  (* encoded keys are pairwise distinct *)
  assert (Hkeys : map dec_key (map fst (map enc_item kvs)) = map fst kvs).
  { rewrite !map_map. apply map_ext_in. intros kv Hin. destruct (Hitem kv Hin) as [_ Hdec].
    unfold dec_step in Hdec. destruct (match snd (enc_item kv) with VDict _ => _ | _ => _ end);
      [|discriminate]. cbn [obind] in Hdec. apply dec_item_key in Hdec. exact Hdec. }
  assert (Hnd : NoDup (map fst (map enc_item kvs))).
  { apply (NoDup_map_inv' dec_key). rewrite Hkeys. exact Hn. }
  rewrite jenc_dict, dict_of_list_nodup by assumption. split.
  - cbn [jsonable]. apply forallb_forall. intros kv' Hin. apply in_map_iff in Hin.
    destruct Hin as [kv [<- Hin]]. apply (Hitem kv Hin).
  - rewrite jdec_dict, mapM_map.
    rewrite (mapM_all_Some _ (fun kv => (fst kv, map_leaves normj (snd kv))));
      [|intros kv Hin; apply (Hitem kv Hin)].
    cbn [option_map]. rewrite dict_of_list_nodup; [reflexivity|].
    rewrite map_map. cbn [fst]. exact Hn.
Qed.

Lemma map_leaves_fixed (f : val -> val) v :
  (forall x, not_dict x -> not_dict (f x)) ->
  wfd (fun _ _ => True) (fun x => f x = x) v -> map_leaves f v = v.
Proof.
  intros Hnd Hw.
  apply (map_leaves_fix_iff (fun _ => True) f Hnd v).
  - revert Hw. apply wfd_weaken; auto.
  - revert Hw. apply wfd_weaken; auto.
Qed.

Lemma normj_not_dict x : not_dict x -> not_dict (normj x).
Proof.
  destruct x; try discriminate; try reflexivity.
  - destruct x; reflexivity.
  - intros _. unfold normj. destruct (is_complex_dt dt); [|reflexivity].
    destruct sh; [destruct data as [|? [|? ?]]|]; reflexivity.
Qed.

(* strict form of the npz codec round trip *)
Lemma unflatten_flatten_l kvs :
  wf_flat (VDict kvs) -> unflatten (flatten (VDict kvs)) = Some kvs.
Proof.
  intros Hw. rewrite (unflatten_flatten_gen _ kvs Hw). f_equal.
  assert (E : map_leaves unconv (VDict kvs) = VDict kvs).
  { apply map_leaves_fixed; [apply unconv_not_dict|]. revert Hw. apply wfd_weaken; auto. }
  simpl in E. injection E as E. exact E.
Qed.

(* ------------------------------------------------ generic tree lemmas *)
Definition TT (_ : string) (_ : val) : Prop := True.
Definition TL (_ : val) : Prop := True.

Lemma wfd_nodup_only (Pk : string -> val -> Prop) (Pl : val -> Prop) v : wfd Pk Pl v -> wfd TT TL v.
Proof. apply wfd_weaken; unfold TT, TL; auto. Qed.

Lemma map_leaves_dict f kvs :
  map_leaves f (VDict kvs) = VDict (map (on_snd (map_leaves f)) kvs).
Proof. reflexivity. Qed.

Lemma map_leaves_leaf f x : not_dict x -> map_leaves f x = f x.
Proof. destruct x; try reflexivity; discriminate. Qed.

Lemma ser_as_map v : wfd TT TL v -> ser v = map_leaves ser v.
Proof.
  induction v using val_ind'; intros Hw; try reflexivity.
  apply wfd_dict in Hw. destruct Hw as [Hn Hall]. rewrite ser_dict by assumption.
  simpl. f_equal. apply map_ext_in. intros kv Hin. rewrite Forall_forall in H, Hall.
  rewrite (H kv Hin); [reflexivity|apply (Hall kv Hin)].
Qed.

Lemma map_leaves_comp f g v :
  (forall x, not_dict x -> not_dict (g x)) ->
  map_leaves f (map_leaves g v) = map_leaves (fun x => f (g x)) v.
Proof.
  intros Hg. induction v using val_ind';
    try (simpl; apply map_leaves_leaf; apply Hg; reflexivity).
  simpl. f_equal. rewrite map_map. apply map_ext_in. intros kv Hin.
  rewrite Forall_forall in H. simpl. rewrite (H kv Hin). reflexivity.
Qed.

Lemma map_leaves_ext (Pk : string -> val -> Prop) (Pl : val -> Prop) (f g : val -> val) v :
  (forall x, not_dict x -> Pl x -> f x = g x) -> wfd Pk Pl v ->
  map_leaves f v = map_leaves g v.
Proof.
  intros Hfg. induction v using val_ind'; intros Hw; try (apply Hfg; [reflexivity|exact Hw]).
  apply wfd_dict in Hw. destruct Hw as [_ Hall]. simpl. f_equal. apply map_ext_in.
  intros kv Hin. rewrite Forall_forall in H, Hall. rewrite (H kv Hin); [reflexivity|apply (Hall kv Hin)].
Qed.

Lemma nn_map_leaves (Pk : string -> val -> Prop) (Pl : val -> Prop) (h q : val -> val) :
  (forall x, not_dict x -> Pl x -> nn (h x) = Some (q x)) ->
  (forall x, not_dict x -> not_dict (h x)) ->
  forall v, wfd Pk Pl v -> nn (map_leaves h v) = Some (map_leaves q v).
Proof.
  intros Hq Hnd. induction v using val_ind'; intros Hw; try (apply Hq; [reflexivity|exact Hw]).
  apply wfd_dict in Hw. destruct Hw as [_ Hall].
  rewrite map_leaves_dict, nn_dict, mapM_map.
  rewrite (mapM_all_Some _ (on_snd (map_leaves q))); [reflexivity|].
  intros kv Hin. rewrite Forall_forall in H, Hall. unfold on_snd at 1 2. cbn [fst snd].
  rewrite (H kv Hin); [reflexivity|apply (Hall kv Hin)].
Qed.

Lemma wfd_map_leaves (Pk Pk' : string -> val -> Prop) (Pl Pl' : val -> Prop) f :
  (forall x, not_dict x -> Pl x -> not_dict (f x) /\ Pl' (f x)) ->
  (forall k v, Pk k v -> (not_dict v -> Pl v) -> Pk' k (map_leaves f v)) ->
  forall v, wfd Pk Pl v -> wfd Pk' Pl' (map_leaves f v).
Proof.
  intros Hl Hk. induction v using val_ind'; intros Hw;
    try (match type of Hw with wfd _ _ ?x => destruct (Hl x eq_refl Hw) as [Hd Hp] end;
         cbn [map_leaves];
         match goal with |- wfd _ _ (f ?x) => destruct (f x); try discriminate; exact Hp end).
  apply wfd_dict in Hw. destruct Hw as [Hn Hall]. rewrite map_leaves_dict. apply wfd_dict.
  split; [rewrite map_map; exact Hn|]. apply Forall_forall. intros kv' Hin.
  apply in_map_iff in Hin. destruct Hin as [kv [<- Hin]]. rewrite Forall_forall in H, Hall.
  destruct (Hall kv Hin) as [Hpk Hwx]. unfold on_snd. cbn [fst snd]. split.
  - apply Hk; [assumption|]. intros Hd. destruct (snd kv); try discriminate; exact Hwx.
  - apply (H kv Hin); assumption.
Qed.

(* --------------------------------------------------------------- sorting *)
Lemma insert_key_perm kv l : Permutation (insert_key kv l) (kv :: l).
Proof.
  induction l as [|kv' t IH]; simpl; [reflexivity|].
  destruct (String.leb (fst kv) (fst kv')); [reflexivity|].
  rewrite IH. apply perm_swap.
Qed.
Lemma sort_keys_perm l : Permutation (sort_keys l) l.
Proof.
  induction l as [|kv t IH]; simpl; [reflexivity|].
  unfold sort_keys in *. simpl. rewrite insert_key_perm. constructor. exact IH.
Qed.
Lemma insert_key_map g kv l :
  insert_key (on_snd g kv) (map (on_snd g) l) = map (on_snd g) (insert_key kv l).
Proof.
  induction l as [|kv' t IH]; simpl; [reflexivity|].
  destruct (String.leb (fst kv) (fst kv')); simpl; [reflexivity|]. rewrite IH. reflexivity.
Qed.
Lemma sort_keys_map g l : sort_keys (map (on_snd g) l) = map (on_snd g) (sort_keys l).
Proof.
  induction l as [|kv t IH]; simpl; [reflexivity|].
  unfold sort_keys in *. simpl. rewrite IH. apply insert_key_map.
Qed.
Lemma wfd_sort_root (Pk : string -> val -> Prop) (Pl : val -> Prop) kvs : wfd Pk Pl (VDict kvs) -> wfd Pk Pl (VDict (sort_keys kvs)).
Proof.
  rewrite !wfd_dict. intros [Hn Hall]. pose proof (sort_keys_perm kvs) as Hp. split.
  - eapply Permutation_NoDup; [|exact Hn]. apply Permutation_map. symmetry; exact Hp.
  - eapply Permutation_Forall; [symmetry; exact Hp|exact Hall].
Qed.
(* same keys, same values: the sorted root is the same Python dict *)
Lemma lookup_perm {A} (l l' : list (string * A)) k :
  NoDup (map fst l) -> Permutation l l' -> lookup k l = lookup k l'.
Proof.
  intros Hn Hp. induction Hp.
  - reflexivity.
  - destruct x as [k' v]. simpl. destruct (String.eqb k k'); [reflexivity|].
    apply IHHp. inversion Hn; assumption.
  - destruct x as [k1 v1], y as [k2 v2]. simpl.
    destruct (String.eqb k k2) eqn:E2; destruct (String.eqb k k1) eqn:E1; try reflexivity.
    apply String.eqb_eq in E1, E2. subst. simpl in Hn. inversion Hn; subst.
    exfalso. apply H1. left; reflexivity.
  - rewrite IHHp1 by assumption. apply IHHp2.
    eapply Permutation_NoDup; [|exact Hn]. apply Permutation_map. exact Hp1.
Qed.
Lemma sort_keys_lookup (l : dict) k : NoDup (map fst l) -> lookup k (sort_keys l) = lookup k l.
Proof. intros Hn. symmetry. apply lookup_perm; [assumption|]. symmetry. apply sort_keys_perm. Qed.

(* ------------------------------------------------------ leaf guards, norms *)
Definition int_ok (z : Z) : Prop := in_i64 z || in_u64 z = true.

(* values every back end stores and returns (possibly as another Python type) *)
Definition leaf_ok_store (v : val) : Prop :=
  match v with
  | VNone | VBool _ | VFloat _ | VCplx _ _ => True
  | VInt z => int_ok z
  | VStr s => s <> NONE_MARK
  | VNps DBool x => exists b, x = NB b
  | VNps _ _ => True
  | VArr dt _ _ => dt <> DBool
  | _ => False
  end.
(* what reaches a store after _dict_serialize *)
Definition storable (v : val) : Prop :=
  match v with
  | VBool _ | VFloat _ | VCplx _ _ | VStr _ | VNps _ _ | VArr _ _ _ => True
  | VInt z => int_ok z
  | _ => False
  end.

Lemma ser_not_dict x : not_dict x -> not_dict (ser x).
Proof. destruct x; simpl; auto. Qed.
Lemma ser_storable x : not_dict x -> leaf_ok_store x -> storable (ser x).
Proof. destruct x; simpl; auto. Qed.

Definition cf_npz (v : val) : val := match npz_leaf_c v with Some y => y | None => v end.
Definition cf_h5 (v : val) : val := match h5_leaf_c v with Some y => y | None => v end.

Lemma npz_leaf_c_storable v : storable v -> npz_leaf_c v = Some (cf_npz v).
Proof.
  unfold cf_npz. destruct v; simpl; try contradiction; try reflexivity.
  unfold int_ok. intros H. destruct (in_i64 z); [reflexivity|]. simpl in H. rewrite H. reflexivity.
Qed.
Lemma h5_leaf_c_storable v : storable v -> h5_leaf_c v = Some (cf_h5 v).
Proof.
  unfold cf_h5. destruct v; simpl; try contradiction; try reflexivity.
  - unfold int_ok. intros H. destruct (in_i64 z); [reflexivity|]. simpl in H. rewrite H. reflexivity.
  - intros _. destruct sh; [destruct data as [|? [|? ?]]|]; reflexivity.
Qed.
Lemma cf_npz_not_dict v : not_dict v -> not_dict (cf_npz v).
Proof.
  unfold cf_npz. destruct v; simpl; auto.
  destruct (in_i64 z); [reflexivity|]. destruct (in_u64 z); reflexivity.
Qed.
Lemma cf_h5_not_dict v : not_dict v -> not_dict (cf_h5 v).
Proof.
  unfold cf_h5. destruct v; simpl; auto.
  - destruct (in_i64 z); [reflexivity|]. destruct (in_u64 z); reflexivity.
  - intros _. destruct sh; [destruct data as [|? [|? ?]]|]; reflexivity.
Qed.
Lemma h5_post_not_dict v : not_dict v -> not_dict (h5_post v).
Proof. destruct v; simpl; auto. Qed.

(* the value load returns for a saved non-dict value, per format *)
Definition norm_npz (v : val) : val :=
  match v with
  | VInt z => VArr (if in_i64 z then DI64 else DU64) [] [NI z]
  | VFloat f => VArr DF64 [] [NF f]
  | VCplx a b => VArr DC128 [] [NC a b]
  | VNps DBool (NB b) => VBool b
  | VNps dt x => VArr dt [] [x]
  | _ => v
  end.
Definition norm_h5 (v : val) : val :=
  match v with
  | VInt z => VNps (if in_i64 z then DI64 else DU64) (NI z)
  | VFloat f => VNps DF64 (NF f)
  | VCplx a b => VNps DC128 (NC a b)
  | VNps DBool (NB b) => VBool b
  | VArr dt [] [x] => VNps dt x
  | _ => v
  end.
Definition norm_json (v : val) : val := normj v.

Lemma leaf_npz x : not_dict x -> leaf_ok_store x ->
  nn (unconv (cf_npz (ser x))) = Some (norm_npz x).
Proof.
  destruct x; simpl; try contradiction; try discriminate; intros _ H; try reflexivity.
  - unfold cf_npz. simpl. unfold int_ok in H. destruct (in_i64 z); [reflexivity|].
    simpl in H. rewrite H. reflexivity.
  - unfold cf_npz. simpl. destruct (String.eqb s NONE_MARK) eqn:E; [|reflexivity].
    apply String.eqb_eq in E. contradiction.
  - destruct dt; try reflexivity. destruct H as [b ->]. reflexivity.
  - destruct dt; try reflexivity. exfalso; apply H; reflexivity.
Qed.

Lemma leaf_h5 x : not_dict x -> leaf_ok_store x ->
  nn (h5_post (cf_h5 (ser x))) = Some (norm_h5 x).
Proof.
  destruct x; simpl; try contradiction; try discriminate; intros _ H; try reflexivity.
  - unfold cf_h5. simpl. unfold int_ok in H. destruct (in_i64 z); [reflexivity|].
    simpl in H. rewrite H. reflexivity.
  - unfold cf_h5. simpl. destruct (String.eqb s NONE_MARK) eqn:E; [|reflexivity].
    apply String.eqb_eq in E. contradiction.
  - destruct dt; destruct x; reflexivity.
  - unfold cf_h5. destruct sh; [destruct data as [|y [|? ?]]|]; simpl;
      destruct dt; try reflexivity; try (exfalso; apply H; reflexivity); destruct y; reflexivity.
Qed.

(* ------------------------------------------------------------ round trips *)
Definition wf_npz (d : val) : Prop := wfd npz_item_ok leaf_ok_store d.
Definition h5_item_ok (k : string) (_ : val) : Prop := h5_key_ok k = true.
Definition wf_h5 (d : val) : Prop := wfd h5_item_ok leaf_ok_store d.
Definition jl_ok (v : val) : Prop :=
  match v with
  | VStr s => s <> NONE_MARK
  | VArr dt _ _ => dt <> DBool
  | _ => True
  end.
Definition wf_json (d : val) : Prop := wfd jitem_ok jl_ok d.

Lemma map_leaves_ser_ne v : v <> VDict [] -> map_leaves ser v <> VDict [].
Proof.
  destruct v; try discriminate. intros H. simpl. destruct kvs; [contradiction|discriminate].
Qed.

Section StoreContracts.
  Variable npz_leaf : val -> option val.
  Variable h5_leaf : val -> option val.
  Variable json_text : val -> option val.
  (* np.savez / np.load, h5py create_dataset / ds[()], json.dump / json.load:
     on the values emg3d hands them they behave like the concrete instances
     (which the correspondence validates against the real libraries) *)
  Hypothesis npz_contract : forall v, storable v -> npz_leaf v = npz_leaf_c v.
  Hypothesis h5_contract : forall v, storable v -> h5_leaf v = h5_leaf_c v.
  Hypothesis json_contract : forall v, jsonable v = true -> json_text v = Some v.

  Lemma npz_roundtrip_l kvs : wf_npz (VDict kvs) ->
    save_load_npz npz_leaf (VDict kvs) = Some (map_leaves norm_npz (VDict kvs)).
  Proof.
    intros Hw. unfold save_load_npz.
    rewrite (ser_as_map _ (wfd_nodup_only _ _ _ Hw)).
    assert (Hs : wfd npz_item_ok storable (map_leaves ser (VDict kvs))).
    { revert Hw. apply wfd_map_leaves.
      - intros x Hd Hx. split; [apply ser_not_dict|apply ser_storable]; assumption.
      - intros k v [Hk Hne] _. split; [assumption|apply map_leaves_ser_ne; assumption]. }
    rewrite map_leaves_dict in *. set (ks := map (on_snd (map_leaves ser)) kvs) in *.
    destruct (flat_main cf_npz storable (VDict ks) ks eq_refl Hs) as [Hnd [_ [Hlv Hfold]]].
    unfold flatten. rewrite dict_of_list_nodup by assumption.
    unfold npz_store.
    rewrite (mapM_all_Some _ (on_snd cf_npz)).
    2:{ intros kv Hin. rewrite Forall_forall in Hlv. destruct (Hlv kv Hin) as [_ Hst].
        rewrite npz_contract by assumption. rewrite npz_leaf_c_storable by assumption. reflexivity. }
    cbn [obind]. rewrite unflatten_fold.
    rewrite (Hfold [] (fun _ _ => @in_nil _ _)). cbn [obind app].
    rewrite <- map_leaves_dict. unfold ks. rewrite <- map_leaves_dict.
    rewrite map_leaves_comp by apply ser_not_dict.
    apply (nn_map_leaves npz_item_ok leaf_ok_store).
    - intros x Hd Hx. apply leaf_npz; assumption.
    - intros x Hd. apply unconv_not_dict, cf_npz_not_dict, ser_not_dict; assumption.
    - exact Hw.
  Qed.

  Lemma h5_tree_map v : wfd h5_item_ok storable v ->
    h5_tree h5_leaf v = Some (map_leaves (fun x => h5_post (cf_h5 x)) v).
  Proof.
    induction v using val_ind'; intros Hw;
      try (simpl in Hw; cbn [h5_tree map_leaves]; rewrite h5_contract by exact Hw;
           rewrite h5_leaf_c_storable by exact Hw; reflexivity);
      try contradiction.
    apply wfd_dict in Hw. destruct Hw as [_ Hall]. cbn [h5_tree]. rewrite map_leaves_dict.
    rewrite (mapM_all_Some _ (on_snd (map_leaves (fun x => h5_post (cf_h5 x))))); [reflexivity|].
    intros kv Hin. rewrite Forall_forall in H, Hall. destruct (Hall kv Hin) as [Hk Hwx].
    unfold h5_item_ok in Hk. rewrite Hk. rewrite (H kv Hin) by assumption. reflexivity.
  Qed.

  Lemma h5_roundtrip_l kvs : wf_h5 (VDict kvs) ->
    save_load_h5 h5_leaf (VDict kvs) = Some (map_leaves norm_h5 (VDict (sort_keys kvs))).
  Proof.
    intros Hw. unfold save_load_h5, h5_file.
    rewrite (ser_as_map _ (wfd_nodup_only _ _ _ Hw)).
    assert (Hs : wfd h5_item_ok storable (map_leaves ser (VDict kvs))).
    { revert Hw. apply wfd_map_leaves.
      - intros x Hd Hx. split; [apply ser_not_dict|apply ser_storable]; assumption.
      - intros k v Hk _. exact Hk. }
    rewrite h5_tree_map by assumption. cbn [obind].
    rewrite map_leaves_comp by apply ser_not_dict.
    rewrite map_leaves_dict. cbn [obind]. rewrite sort_keys_map. rewrite <- map_leaves_dict.
    apply (nn_map_leaves h5_item_ok leaf_ok_store).
    - intros x Hd Hx. apply leaf_h5; assumption.
    - intros x Hd. apply h5_post_not_dict, cf_h5_not_dict, ser_not_dict; assumption.
    - apply wfd_sort_root. exact Hw.
  Qed.

  Lemma jitem_ok_ser k v : jitem_ok k v -> jitem_ok k (map_leaves ser v).
  Proof. unfold jitem_ok. destruct v; simpl; auto. Qed.

  Lemma leaf_json x : not_dict x -> jl_ok x -> nn (normj (ser x)) = Some (norm_json x).
  Proof.
    unfold norm_json.
    destruct x; simpl; try discriminate; intros _ H; try reflexivity.
    - destruct (String.eqb s NONE_MARK) eqn:E; [|reflexivity].
      apply String.eqb_eq in E. contradiction.
    - destruct x; try reflexivity. destruct dt; reflexivity.
    - destruct (is_complex_dt dt) eqn:Ec.
      + destruct sh; [destruct data as [|y [|? ?]]|]; simpl; destruct dt; try discriminate; try reflexivity.
      + destruct dt; try reflexivity. exfalso; apply H; reflexivity.
  Qed.

  Lemma json_roundtrip_l kvs : wf_json (VDict kvs) ->
    save_load_json json_text (VDict kvs) = Some (map_leaves norm_json (VDict kvs)).
  Proof.
    intros Hw. unfold save_load_json.
    rewrite (ser_as_map _ (wfd_nodup_only _ _ _ Hw)).
    assert (Hs : wfj (map_leaves ser (VDict kvs))).
    { revert Hw. apply wfd_map_leaves.
      - intros x Hd Hx. split; [apply ser_not_dict; assumption|exact I].
      - intros k v Hk _. apply jitem_ok_ser; assumption. }
    destruct (json_main _ Hs eq_refl) as [Hj Hdec].
    rewrite json_contract by assumption. cbn [obind]. rewrite Hdec. cbn [obind].
    rewrite map_leaves_comp by apply ser_not_dict.
    apply (nn_map_leaves jitem_ok jl_ok).
    - intros x Hd Hx. apply leaf_json; assumption.
    - intros x Hd. apply normj_not_dict, ser_not_dict; assumption.
    - exact Hw.
  Qed.
End StoreContracts.

(* the concrete instances meet the contracts *)
Lemma json_text_c_contract v : jsonable v = true -> json_text_c v = Some v.
Proof. intros H. unfold json_text_c. rewrite H. reflexivity. Qed.

(* numpy-bool arrays: exactly one element survives (as a Python bool),
   anything else makes load raise *)
Lemma bool_array_rejected k sh a b t rest :
  nn (VDict ((k, VArr DBool sh (a :: b :: t)) :: rest)) = None.
Proof. simpl. destruct a; reflexivity. Qed.
Lemma bool_array_empty_rejected k sh rest : nn (VDict ((k, VArr DBool sh []) :: rest)) = None.
Proof. reflexivity. Qed.
Lemma bool_array_single k sh b : nn (VDict [(k, VArr DBool sh [NB b])]) = Some (VDict [(k, VBool b)]).
Proof. reflexivity. Qed.

(* ------------------------------------------------- one guard for all formats *)
Definition nps_ok (dt : dtype) (x : num) : Prop :=
  if is_complex_dt dt then is_NC x else typed dt x.
Definition leaf_all_ok (v : val) : Prop :=
  match v with
  | VNone | VBool _ | VFloat _ | VCplx _ _ => True
  | VInt z => int_ok z
  | VStr s => s <> NONE_MARK
  | VNps dt x => nps_ok dt x
  | VArr dt sh data =>
      dt <> DBool /\ List.length data = prod sh /\ json_shape_ok sh /\
      if is_complex_dt dt then Forall is_NC data else Forall (typed dt) data
  | _ => False
  end.
Definition key_all_ok (k : string) : Prop :=
  nosep k /\ h5_key_ok k = true /\ key_plain_ok k /\
  forall d, key_arr_ok k (dtype_name d) /\ key_carr_ok k (dtype_name d).
Definition item_all_ok (k : string) (v : val) : Prop :=
  key_all_ok k /\ v <> VDict [] /\ (not_dict v -> leaf_all_ok v).
Definition wf_all (d : val) : Prop := wfd item_all_ok leaf_all_ok d.

Lemma typed_kind dt x : typed dt x -> kind_matches dt x.
Proof.
  unfold typed, kind_matches. destruct x; destruct dt; simpl; auto; try discriminate;
    try (destruct (in_range _ _); discriminate);
    unfold cast_num; simpl;
    try (destruct (Z.leb _ _); discriminate);
    try (destruct x as [n d| | |]; try discriminate; destruct (in_range _ _); discriminate);
    try (destruct x as [n d| | |]; discriminate).
Qed.
Lemma typed_bool x : typed DBool x -> exists b, x = NB b.
Proof.
  unfold typed. destruct x; simpl; try discriminate; eauto.
  unfold cast_num; simpl. destruct x; discriminate.
Qed.

Lemma leaf_all_store x : leaf_all_ok x -> leaf_ok_store x.
Proof.
  destruct x; simpl; auto.
  - unfold nps_ok. destruct dt; simpl; auto. apply typed_bool.
  - tauto.
Qed.

Lemma wf_all_npz d : wf_all d -> wf_npz d.
Proof.
  apply wfd_weaken.
  - intros k v [[Hs _] [Hne _]]. split; assumption.
  - apply leaf_all_store.
Qed.
Lemma wf_all_h5 d : wf_all d -> wf_h5 d.
Proof.
  apply wfd_weaken.
  - intros k v [[_ [Hh _]] _]. exact Hh.
  - apply leaf_all_store.
Qed.
Lemma wf_all_json d : wf_all d -> wf_json d.
Proof.
  apply wfd_weaken.
  - intros k v [[_ [_ [Hp Hd]]] [_ Hl]]. unfold jitem_ok.
    destruct (is_dict v) eqn:Ed; [assumption|]. specialize (Hl Ed).
    destruct v; simpl in *; try contradiction; try assumption.
    + apply (Hd DF64).
    + unfold nps_ok in Hl. destruct (is_complex_dt dt) eqn:Ec.
      * split; [|apply Hd]. unfold kind_matches. unfold is_complex_dt in Ec.
        destruct (kind_of dt); try discriminate. destruct x; try contradiction. exact I.
      * split; [apply typed_kind; assumption|assumption].
    + destruct Hl as [_ [Hlen [Hsh Hty]]]. split; [assumption|]. split; [assumption|].
      destruct (is_complex_dt dt); (split; [assumption|apply Hd]).
  - intros v Hv. destruct v; simpl in *; auto. tauto.
Qed.

(* the dict load returns *)
Definition norm_of (f : fmt) : val -> val :=
  match f with H5 => norm_h5 | NPZ => norm_npz | JSON => norm_json end.
Definition root_of (f : fmt) (kvs : dict) : dict :=
  match f with H5 => sort_keys kvs | _ => kvs end.
Definition loaded (f : fmt) (kvs : dict) : val := map_leaves (norm_of f) (VDict (root_of f kvs)).

Lemma in_range_int_ok dt z : kind_of dt = KInt -> in_range dt z = true -> int_ok z.
Proof.
  unfold in_range, int_ok, in_i64, in_u64. intros Hk H.
  apply andb_true_iff in H. destruct H as [H1 H2].
  apply Z.leb_le in H1. apply Z.ltb_lt in H2.
  apply orb_true_iff.
  destruct (Z_lt_dec z 0) as [Hneg|Hpos].
  - left. apply andb_true_iff. split; [apply Z.leb_le|apply Z.ltb_lt];
      destruct dt; try discriminate; cbn in *; lia.
  - right. apply andb_true_iff. split; [apply Z.leb_le|apply Z.ltb_lt];
      destruct dt; try discriminate; cbn in *; lia.
Qed.

Lemma typed_int_ok dt z : typed dt (NI z) -> int_ok z.
Proof.
  unfold typed, cast_num. simpl. destruct (kind_of dt) eqn:Ek; try discriminate.
  - destruct (in_range dt z) eqn:Er; [|discriminate]. intros _. eapply in_range_int_ok; eassumption.
  - destruct (Z.leb _ _); discriminate.
Qed.

Lemma is_NC_cnorm c : is_NC c -> is_NC (cnorm c).
Proof. destruct c; simpl; auto. Qed.

Lemma typed_i64 z : in_i64 z = true -> typed DI64 (NI z).
Proof.
  intros H. unfold typed, cast_num. cbn [py_of_num kind_of].
  change (in_range DI64 z) with (in_i64 z). rewrite H. reflexivity.
Qed.
Lemma typed_u64 z : in_u64 z = true -> typed DU64 (NI z).
Proof.
  intros H. unfold typed, cast_num. cbn [py_of_num kind_of].
  change (in_range DU64 z) with (in_u64 z). rewrite H. reflexivity.
Qed.
Lemma typed_int_choice z : int_ok z -> typed (if in_i64 z then DI64 else DU64) (NI z).
Proof.
  unfold int_ok. intros H. destruct (in_i64 z) eqn:E.
  - apply typed_i64; assumption.
  - apply typed_u64. simpl in H. assumption.
Qed.
Lemma int_choice_cases z : (if in_i64 z then DI64 else DU64) = DI64 \/ (if in_i64 z then DI64 else DU64) = DU64.
Proof. destruct (in_i64 z); auto. Qed.

Lemma Forall_NC_cnorm data : Forall is_NC data -> Forall is_NC (map cnorm data).
Proof.
  intros H. apply Forall_forall. intros c Hin. apply in_map_iff in Hin.
  destruct Hin as [c0 [<- Hin]]. rewrite Forall_forall in H. apply is_NC_cnorm, H; assumption.
Qed.

Lemma norm_leaf_ok f x : not_dict x -> leaf_all_ok x ->
  not_dict (norm_of f x) /\ leaf_all_ok (norm_of f x).
Proof.
  intros Hd Hx. destruct f.
  - (* h5 *)
    destruct x; simpl in *; try contradiction; try discriminate; auto.
    + split; [reflexivity|]. simpl. unfold nps_ok.
      pose proof (typed_int_choice z Hx) as Ht.
      destruct (int_choice_cases z) as [E|E]; rewrite E in *; exact Ht.
    + split; reflexivity.
    + destruct dt; try (split; [reflexivity|exact Hx]).
      destruct x; split; try reflexivity; try exact Hx; try exact I.
    + destruct Hx as [Hb [Hl [Hs Hty]]].
      destruct sh; [destruct data as [|y [|? ?]]|];
        try (split; [reflexivity|exact (conj Hb (conj Hl (conj Hs Hty)))]).
      split; [reflexivity|]. simpl. unfold nps_ok.
      destruct (is_complex_dt dt); inversion Hty; assumption.
  - (* npz *)
    destruct x; simpl in *; try contradiction; try discriminate; auto.
    + split; [reflexivity|]. simpl.
      pose proof (typed_int_choice z Hx) as Ht.
      destruct (int_choice_cases z) as [E|E]; rewrite E in *;
        (split; [discriminate|]); (split; [reflexivity|]); (split; [exact I|]);
        cbn [is_complex_dt kind_of]; (apply Forall_cons; [exact Ht|apply Forall_nil]).
    + split; [reflexivity|]. simpl. repeat split; try discriminate. repeat constructor.
    + split; [reflexivity|]. simpl. repeat split; try discriminate. repeat constructor.
    + unfold nps_ok in Hx. destruct dt;
        try (split; [reflexivity|]; simpl; simpl in Hx; repeat split; try discriminate;
             repeat constructor; exact Hx).
      simpl in Hx. destruct (typed_bool _ Hx) as [b ->]. split; [reflexivity|exact I].
  - (* json *)
    unfold norm_json. destruct x; simpl in *; try contradiction; try discriminate; auto.
    + unfold nps_ok in Hx. destruct x.
      * split; [reflexivity|exact I].
      * split; [reflexivity|]. simpl. destruct (is_complex_dt dt) eqn:Ec.
        -- contradiction.
        -- eapply typed_int_ok; eassumption.
      * split; [reflexivity|exact I].
      * split; [reflexivity|]. simpl. unfold nps_ok. destruct (is_complex_dt dt) eqn:Ec; [exact I|].
        unfold typed, cast_num in Hx. simpl in Hx. destruct (kind_of dt); discriminate.
    + destruct Hx as [Hb [Hl [Hs Hty]]]. destruct (is_complex_dt dt) eqn:Ec.
      * assert (Hgen : forall sh', List.length data = prod sh' -> json_shape_ok sh' ->
                  leaf_all_ok (VArr dt sh' (map cnorm data))).
        { intros sh' Hl' Hs'. simpl. rewrite Ec, map_length.
          exact (conj Hb (conj Hl' (conj Hs' (Forall_NC_cnorm _ Hty)))). }
        destruct sh; [destruct data as [|y [|? ?]]|]; try (split; [reflexivity|apply Hgen; assumption]).
        split; [reflexivity|]. simpl. unfold nps_ok. rewrite Ec. apply is_NC_cnorm.
        inversion Hty; assumption.
      * split; [reflexivity|]. simpl. rewrite Ec. tauto.
Qed.

Lemma item_all_map f k v : item_all_ok k v -> item_all_ok k (map_leaves (norm_of f) v).
Proof.
  intros [Hk [Hne Hl]]. split; [assumption|]. destruct (is_dict v) eqn:Ed.
  - destruct v as [| | | | | | | | | | |sub]; try discriminate. split.
    + simpl. destruct sub; [contradiction|discriminate].
    + intros Hnd. discriminate Hnd.
  - rewrite map_leaves_leaf by exact Ed.
    destruct (norm_leaf_ok f v Ed (Hl Ed)) as [H1 H2]. split.
    + intro E. rewrite E in H1. discriminate.
    + intros _. exact H2.
Qed.

Lemma wf_all_loaded f kvs : wf_all (VDict kvs) -> wf_all (loaded f kvs).
Proof.
  intros Hw. unfold loaded.
  assert (Hr : wf_all (VDict (root_of f kvs))).
  { destruct f; simpl; try assumption. apply wfd_sort_root; assumption. }
  revert Hr. apply wfd_map_leaves.
  - intros x Hd Hx. apply norm_leaf_ok; assumption.
  - intros k v Hi _. apply item_all_map; assumption.
Qed.

Lemma save_load_ok f kvs : wf_all (VDict kvs) -> save_load f (VDict kvs) = Some (loaded f kvs).
Proof.
  intros Hw. destruct f; unfold save_load, loaded; simpl.
  - apply h5_roundtrip_l; [reflexivity|apply wf_all_h5; assumption].
  - apply npz_roundtrip_l; [reflexivity|apply wf_all_npz; assumption].
  - apply json_roundtrip_l; [apply json_text_c_contract|apply wf_all_json; assumption].
Qed.

Definition dict_items (v : val) : dict := match v with VDict l => l | _ => [] end.
Lemma loaded_is_dict f kvs : loaded f kvs = VDict (dict_items (loaded f kvs)).
Proof. reflexivity. Qed.

(* convert(f1 -> f2): the second file loads as the second format's view of
   what the first file loads as *)
Lemma convert_ok f1 f2 kvs : wf_all (VDict kvs) ->
  convert_load f1 f2 (VDict kvs) = Some (loaded f2 (dict_items (loaded f1 kvs))).
Proof.
  intros Hw. unfold convert_load. rewrite save_load_ok by assumption. cbn [obind].
  rewrite (loaded_is_dict f1 kvs). apply save_load_ok.
  rewrite <- loaded_is_dict. apply wf_all_loaded; assumption.
Qed.

(* ------------------------------------------------------ content is preserved *)
(* Python-level value of a leaf: numpy scalars and 0-d arrays compare equal to
   the Python number they hold; arrays with ndim >= 1 keep dtype, shape, data *)
Definition abs_num (x : num) : val :=
  match x with NB b => VBool b | NI z => VInt z | NF f => VFloat f | NC a b => VCplx a b end.
Definition absv (v : val) : val :=
  match v with
  | VNps _ x => abs_num x
  | VArr _ [] [x] => abs_num x
  | _ => v
  end.
(* complex values that a + 1j*b reproduces: finite imaginary part (or NaN real part) *)
Definition cfix (c : num) : Prop := cnorm c = c.
Definition cplx_fixed (v : val) : Prop :=
  match v with
  | VCplx a b => cfix (NC a b)
  | VNps _ c => cfix c
  | VArr _ _ data => Forall cfix data
  | _ => True
  end.

Lemma cnorm_idem c : cnorm (cnorm c) = cnorm c.
Proof. destruct c; simpl; try reflexivity. destruct (finite im); reflexivity. Qed.

Ltac fin_abs Hc :=
  first [exact I | exact Hc | reflexivity
        | (apply Forall_cons; [first [exact Hc | reflexivity]|apply Forall_nil])].

Lemma abs_norm f x : not_dict x -> leaf_all_ok x -> cplx_fixed x ->
  absv (norm_of f x) = absv x /\ cplx_fixed (norm_of f x).
Proof.
  intros Hd Hx Hc. destruct f.
  - (* h5 *)
    destruct x as [| b | z | f0 | a b | s | s | s | dt c | dt sh data | l | kvs];
      simpl in *; try contradiction; try discriminate;
      try (split; [reflexivity|fin_abs Hc]).
    + destruct dt; destruct c; split; try reflexivity; fin_abs Hc.
    + destruct sh; [destruct data as [|y [|? ?]]|]; split; try reflexivity; try exact Hc.
      simpl. inversion Hc; assumption.
  - (* npz *)
    destruct x as [| b | z | f0 | a b | s | s | s | dt c | dt sh data | l | kvs];
      simpl in *; try contradiction; try discriminate;
      try (split; [reflexivity|fin_abs Hc]).
    + unfold nps_ok in Hx. destruct dt; try (split; [reflexivity|fin_abs Hc]).
      simpl in Hx. destruct (typed_bool _ Hx) as [b ->]. split; [reflexivity|exact I].
  - (* json *)
    unfold norm_json.
    destruct x as [| b | z | f0 | a b | s | s | s | dt c | dt sh data | l | kvs];
      simpl in *; try contradiction; try discriminate;
      try (split; [reflexivity|fin_abs Hc]).
    + unfold cfix in Hc. simpl in Hc. injection Hc as Hc'. rewrite !Hc'.
      split; [reflexivity|]. simpl. unfold cfix. simpl. rewrite Hc'. reflexivity.
    + destruct c; try (split; [reflexivity|exact I]).
      unfold cfix in Hc. simpl in Hc. injection Hc as Hc'. rewrite !Hc'.
      split; [reflexivity|]. simpl. unfold cfix. simpl. rewrite Hc'. reflexivity.
    + assert (Hm : map cnorm data = data) by (apply map_id_iff; exact Hc).
      destruct (is_complex_dt dt).
      * destruct sh; [destruct data as [|y [|? ?]]|]; rewrite ?Hm; try (split; [reflexivity|exact Hc]).
        inversion Hc; subst. unfold cfix in H1. rewrite H1. split; [reflexivity|]. simpl. exact H1.
      * split; [reflexivity|exact Hc].
Qed.

Definition wf_conv (d : val) : Prop :=
  wfd item_all_ok (fun x => leaf_all_ok x /\ cplx_fixed x) d.

Lemma wf_conv_all d : wf_conv d -> wf_all d.
Proof. apply wfd_weaken; [auto|]. intros v [? _]; assumption. Qed.

Lemma content_preserved f kvs : wf_conv (VDict kvs) ->
  map_leaves absv (loaded f kvs) = map_leaves absv (VDict (root_of f kvs)) /\
  wf_conv (loaded f kvs).
Proof.
  intros Hw. unfold loaded.
  assert (Hr : wf_conv (VDict (root_of f kvs))).
  { destruct f; simpl; try assumption. apply wfd_sort_root; assumption. }
  split.
  - rewrite map_leaves_comp by (intros x Hd; destruct f; destruct x; try discriminate; try reflexivity;
                                simpl; unfold norm_json, normj;
                                repeat match goal with |- context [match ?u with _ => _ end] => destruct u end;
                                reflexivity).
    eapply map_leaves_ext; [|exact Hr]. intros x Hd [Hx Hc]. apply abs_norm; assumption.
  - revert Hr. apply wfd_map_leaves.
    + intros x Hd [Hx Hc]. destruct (norm_leaf_ok f x Hd Hx) as [H1 H2].
      destruct (abs_norm f x Hd Hx Hc) as [_ H3]. auto.
    + intros k v Hi _. apply item_all_map; assumption.
Qed.

Lemma root_of_map f g l : root_of f (map (on_snd g) l) = map (on_snd g) (root_of f l).
Proof. destruct f; simpl; try reflexivity. apply sort_keys_map. Qed.

(* content after convert(f1 -> f2) *)
Lemma convert_content f1 f2 kvs : wf_conv (VDict kvs) ->
  map_leaves absv (loaded f2 (dict_items (loaded f1 kvs)))
  = map_leaves absv (VDict (root_of f2 (root_of f1 kvs))).
Proof.
  intros Hw. destruct (content_preserved f1 kvs Hw) as [A1 W1].
  rewrite (loaded_is_dict f1 kvs) in A1, W1. set (l1 := dict_items (loaded f1 kvs)) in *.
  destruct (content_preserved f2 l1 W1) as [A2 _]. rewrite A2.
  rewrite !map_leaves_dict in *. injection A1 as A1.
  rewrite <- (root_of_map f2 _ l1), <- (root_of_map f2 _ (root_of f1 kvs)). rewrite A1. reflexivity.
Qed.

(* ------------------------------------------ decidable form of the key guards *)
Definition key_plain_okb (k : string) : bool :=
  negb (contains TAG_A k) && negb (contains TAG_C k).
Definition key_arr_okb (k n : string) : bool :=
  let k' := (k ++ TAG_A ++ "-" ++ n)%string in
  contains TAG_A k' && String.eqb (last (split_str "__" k') EmptyString) (atype_of n)
  && String.eqb (remove_all ("__" ++ atype_of n) k') k && negb (contains TAG_C k).
Definition key_carr_okb (k n : string) : bool :=
  let k' := ((k ++ TAG_C) ++ TAG_A ++ "-" ++ n)%string in
  contains TAG_A k' && String.eqb (last (split_str "__" k') EmptyString) (atype_of n)
  && String.eqb (remove_all ("__" ++ atype_of n) k') (k ++ TAG_C)
  && contains TAG_C (k ++ TAG_C) && String.eqb (remove_all TAG_C (k ++ TAG_C)) k.
Fixpoint nosepb (s : string) : bool :=
  match s with EmptyString => true | String a r => negb (Ascii.eqb a SEPC) && nosepb r end.
Definition key_all_okb (k : string) : bool :=
  nosepb k && h5_key_ok k && key_plain_okb k &&
  forallb (fun d => key_arr_okb k (dtype_name d) && key_carr_okb k (dtype_name d)) all_dtypes.

Lemma nosepb_sound k : nosepb k = true -> nosep k.
Proof.
  induction k as [|a r IH]; simpl; [auto|]. intros H. apply andb_true_iff in H. destruct H as [H1 H2].
  split; [|auto]. intro E. subst. rewrite Ascii.eqb_refl in H1. discriminate.
Qed.
Lemma key_plain_okb_sound k : key_plain_okb k = true -> key_plain_ok k.
Proof.
  unfold key_plain_okb, key_plain_ok. intros H. apply andb_true_iff in H. destruct H as [H1 H2].
  apply negb_true_iff in H1, H2. auto.
Qed.
Lemma key_arr_okb_sound k n : key_arr_okb k n = true -> key_arr_ok k n.
Proof.
  unfold key_arr_okb, key_arr_ok. intros H.
  repeat (apply andb_true_iff in H; destruct H as [H ?]).
  repeat match goal with H : String.eqb _ _ = true |- _ => apply String.eqb_eq in H end.
  repeat match goal with H : negb _ = true |- _ => apply negb_true_iff in H end. auto.
Qed.
Lemma key_carr_okb_sound k n : key_carr_okb k n = true -> key_carr_ok k n.
Proof.
  unfold key_carr_okb, key_carr_ok. intros H.
  repeat (apply andb_true_iff in H; destruct H as [H ?]).
  repeat match goal with H : String.eqb _ _ = true |- _ => apply String.eqb_eq in H end. auto.
Qed.
Lemma key_all_okb_sound k : key_all_okb k = true -> key_all_ok k.
Proof.
  unfold key_all_okb, key_all_ok. intros H.
  repeat (apply andb_true_iff in H; destruct H as [H ?]).
  split; [apply nosepb_sound; assumption|]. split; [assumption|].
  split; [apply key_plain_okb_sound; assumption|]. intros d.
  rewrite forallb_forall in H0. specialize (H0 d).
  assert (Hin : In d all_dtypes) by (destruct d; simpl; tauto).
  specialize (H0 Hin). apply andb_true_iff in H0. destruct H0.
  split; [apply key_arr_okb_sound|apply key_carr_okb_sound]; assumption.
Qed.

(* syntactic description of the keys the three formats can carry *)
Fixpoint all_us (s : string) : bool :=
  match s with EmptyString => true | String a r => Ascii.eqb a "_"%char && all_us r end.
Fixpoint trailing_us (s : string) : nat :=
  match s with
  | EmptyString => 0
  | String a r =>
      if all_us r
      then (if Ascii.eqb a "_"%char then S (String.length r) else String.length r)
      else trailing_us r
  end.
Definition simple_keyb (k : string) : bool :=
  nonempty k && negb (String.eqb k ".") && nosepb k && negb (contains SLASH k) &&
  negb (contains TAG_A k) && negb (contains TAG_C k) && Nat.even (trailing_us k).

(* all strings over an alphabet up to a length *)
Fixpoint words (alpha : list ascii) (n : nat) : list string :=
  match n with
  | O => [EmptyString]
  | S n' => EmptyString :: flat_map (fun w => map (fun a => String a w) alpha) (words alpha n')
  end.
