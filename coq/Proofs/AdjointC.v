(* Proofs/AdjointC.v -- C07/C08: the section hypotheses of Proofs/Adjoint.v are
   satisfiable: Coquelicot's complex numbers with complex conjugation are an
   instance of (K, conj), s = i is purely imaginary and non-zero, and a
   one-edge / one-cell system gives operators K0, Av, AvT with the required
   symmetry / transpose / realness properties. *)
From Coq Require Import Reals Lra List Bool Field.
From Coquelicot Require Import Coquelicot.
From V Require Import Base.FieldSig Base.Sums Model.Adjoint.
Import ListNotations.

#[export] Instance COps : FOps C := {
  F0 := RtoC 0; F1 := RtoC 1; Fadd := Cplus; Fmul := Cmult; Fsub := Cminus;
  Fopp := Copp; Fdiv := Cdiv; Finv := Cinv }.

Lemma C_is_field : field_theory F0 F1 Fadd Fmul Fsub Fopp Fdiv Finv (@eq C).
Proof. exact C_field_theory. Qed.

Lemma C_two_nz : (1 + 1)%F <> (0 : C)%F.
Proof. intros H. apply (f_equal fst) in H. cbn in H. lra. Qed.

Lemma Cconj_add x y : Cconj (x + y)%F = (Cconj x + Cconj y)%F.
Proof. destruct x, y. apply injective_projections; cbn; ring. Qed.

Lemma Cconj_mul x y : Cconj (x * y)%F = (Cconj x * Cconj y)%F.
Proof. destruct x, y. apply injective_projections; cbn; ring. Qed.

Lemma Cconj_invol x : Cconj (Cconj x) = x.
Proof. destruct x. apply injective_projections; cbn; ring. Qed.

Lemma Ci_imag : Cconj Ci = (- Ci)%F.
Proof. apply injective_projections; cbn; ring. Qed.

Lemma Ci_nz : Ci <> (0 : C)%F.
Proof. intros H. apply (f_equal snd) in H. cbn in H. lra. Qed.

Definition E1 : list unit := [tt].
Definition K01 (u : unit -> C) (i : unit) : C := u i.
Definition Av1 (a : unit -> C) (i : unit) : C := a tt.
Definition AvT1 (x : unit -> C) (k : unit) : C := x tt.

Lemma instance_K0_sym u v : dotE E1 (K01 u) v = dotE E1 u (K01 v).
Proof. reflexivity. Qed.
Lemma instance_Av_add a b i : Av1 (fun k => a k + b k)%F i = (Av1 a i + Av1 b i)%F.
Proof. reflexivity. Qed.
Lemma instance_Av_T a x : dotE E1 (Av1 a) x = dotC E1 a (AvT1 x).
Proof. reflexivity. Qed.
Lemma instance_Av_real a :
  (forall k, Cconj (a k) = a k) -> forall i, Cconj (Av1 a i) = Av1 a i.
Proof. intros H i. apply H. Qed.

(* the zero field solves the homogeneous forward problems; the adjoint
   problem of the 1x1 system is solvable for every right-hand side *)
Lemma instance_solutions (sig : unit -> C) :
  (forall i, In i E1 -> Aop K01 Av1 Ci sig (fun _ => 0%F) i = 0%F) /\
  (sig tt = RtoC 1 -> forall rhs : C,
     exists b, forall i, In i E1 -> Aop K01 Av1 Ci sig b i = rhs).
Proof.
  split.
  - intros i _. unfold Aop, K01, Av1. cbn. apply injective_projections; cbn; ring.
  - intros Hs rhs. exists (fun _ => (rhs / (1 + Ci))%F). intros i _.
    unfold Aop, K01, Av1. rewrite Hs. cbn.
    assert (N : (RtoC 1 + Ci)%C <> RtoC 0).
    { intros H. apply (f_equal fst) in H. cbn in H. lra. }
    change (rhs / (RtoC 1 + Ci) + Ci * RtoC 1 * (rhs / (RtoC 1 + Ci)) = rhs)%C.
    field. exact N.
Qed.
