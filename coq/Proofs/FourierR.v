(* Proofs/FourierR.v -- C20 over the reals: the monotone-cubic claim for the
   imaginary part on PCHIP's first interval, and the instances of the order
   hypotheses for R. *)
From Coq Require Import Reals RealField Lra Psatz List Bool ZArith.
From V Require Import Base.FieldSig Model.Fourier Proofs.Fourier.
Local Open Scope R_scope.

#[global] Instance ROps : FOps R := {
  F0 := 0; F1 := 1; Fadd := Rplus; Fmul := Rmult; Fsub := Rminus;
  Fopp := Ropp; Fdiv := Rdiv; Finv := Rinv }.

Definition Rleb (x y : R) : bool := if Rle_dec x y then true else false.

Lemma Rleb_true x y : Rleb x y = true <-> x <= y.
Proof. unfold Rleb. destruct (Rle_dec x y); split; intros; auto; discriminate. Qed.

Lemma Rleb_total x y : Rleb x y = true \/ Rleb y x = true.
Proof. rewrite !Rleb_true. lra. Qed.

Lemma Rleb_trans x y z : Rleb x y = true -> Rleb y z = true -> Rleb x z = true.
Proof. rewrite !Rleb_true. lra. Qed.

Lemma Rleb_antisym x y : Rleb x y = true -> Rleb y x = true -> x = y.
Proof. rewrite !Rleb_true. lra. Qed.

Lemma R_field_theory : field_theory 0 1 Rplus Rmult Rminus Ropp Rdiv Rinv (@eq R).
Proof. exact Rfield. Qed.

(* the Hermite cubic of Model/Fourier.v on R, unfolded *)
Lemma hermite_R y0 y1 d0 d1 h t :
  hermite (O := ROps) y0 y1 d0 d1 h t =
  (2 * (t*t*t) - 3 * (t*t) + 1) * y0 + ((t*t*t) - 2 * (t*t) + t) * (h * d0)
  + (3 * (t*t) - 2 * (t*t*t)) * y1 + ((t*t*t) - (t*t)) * (h * d1).
Proof. unfold hermite, F2, F3. cbn. ring. Qed.

(* Fritsch-Carlson box: 0 <= h d0 <= 3 (y1-y0), 0 <= h d1 <= 3 (y1-y0)
   =>  the cubic is non-decreasing on [0,1].
   Proof: 9 D^2 (H(t2)-H(t1)) is a combination with non-negative weights
   (3D-m0)(3D-m1), m0(3D-m1), (3D-m0)m1, m0 m1 of the increments of the four
   monotone corner cubics 3t^2-2t^3, 1-(1-t)^3, t^3, ((2t-1)^3+1)/2. *)
Lemma hermite_monotone_up y0 y1 d0 d1 h t1 t2 :
  0 <= h * d0 <= 3 * (y1 - y0) -> 0 <= h * d1 <= 3 * (y1 - y0) ->
  0 <= t1 -> t1 <= t2 -> t2 <= 1 ->
  hermite (O := ROps) y0 y1 d0 d1 h t1 <= hermite (O := ROps) y0 y1 d0 d1 h t2.
Proof.
  intros [Ha0 Ha1] [Hb0 Hb1] H0 H12 H1. rewrite !hermite_R.
  set (m0 := h * d0) in *. set (m1 := h * d1) in *. set (D := y1 - y0) in *.
  assert (HD : 0 <= D) by lra.
  destruct (Req_dec D 0) as [E|E].
  { assert (m0 = 0) by lra. assert (m1 = 0) by lra. assert (y1 = y0) by (unfold D in E; lra).
    subst y1. rewrite H, H2. lra. }
  assert (HDp : 0 < D) by lra.
  pose (q00 := fun t => 3 * (t*t) - 2 * (t*t*t)).
  pose (q30 := fun t => 1 - (1-t)*(1-t)*(1-t)).
  pose (q03 := fun t => t*t*t).
  pose (q33 := fun t => ((2*t-1)*(2*t-1)*(2*t-1) + 1) / 2).
  assert (I00 : 0 <= q00 t2 - q00 t1).
  { unfold q00.
    replace (3 * (t2*t2) - 2 * (t2*t2*t2) - (3 * (t1*t1) - 2 * (t1*t1*t1)))
      with ((t2 - t1) * (t1 * (3 - 2*t1 - t2) + t2 * (3 - 2*t2 - t1))) by ring.
    apply Rmult_le_pos; [lra|]. apply Rplus_le_le_0_compat; apply Rmult_le_pos; lra. }
  assert (I30 : 0 <= q30 t2 - q30 t1).
  { unfold q30.
    replace (1 - (1-t2)*(1-t2)*(1-t2) - (1 - (1-t1)*(1-t1)*(1-t1)))
      with ((t2 - t1) * ((1-t1)*(1-t1) + (1-t1)*(1-t2) + (1-t2)*(1-t2))) by ring.
    apply Rmult_le_pos; [lra|].
    repeat apply Rplus_le_le_0_compat; apply Rmult_le_pos; lra. }
  assert (I03 : 0 <= q03 t2 - q03 t1).
  { unfold q03.
    replace (t2*t2*t2 - t1*t1*t1) with ((t2 - t1) * (t1*t1 + t1*t2 + t2*t2)) by ring.
    apply Rmult_le_pos; [lra|].
    repeat apply Rplus_le_le_0_compat; apply Rmult_le_pos; lra. }
  assert (I33 : 0 <= q33 t2 - q33 t1).
  { unfold q33.
    replace (((2*t2-1)*(2*t2-1)*(2*t2-1) + 1) / 2 - ((2*t1-1)*(2*t1-1)*(2*t1-1) + 1) / 2)
      with ((t2 - t1) * ((2*t1-1)*(2*t1-1) + (2*t1-1)*(2*t2-1) + (2*t2-1)*(2*t2-1))) by field.
    apply Rmult_le_pos; [lra|].
    pose proof (Rle_0_sqr ((2*t1-1) + (2*t2-1)/2)) as S1.
    pose proof (Rle_0_sqr (2*t2-1)) as S2. unfold Rsqr in S1, S2. lra. }
  set (H1v := (2 * (t1*t1*t1) - 3 * (t1*t1) + 1) * y0 + ((t1*t1*t1) - 2 * (t1*t1) + t1) * m0
              + (3 * (t1*t1) - 2 * (t1*t1*t1)) * y1 + ((t1*t1*t1) - (t1*t1)) * m1).
  set (H2v := (2 * (t2*t2*t2) - 3 * (t2*t2) + 1) * y0 + ((t2*t2*t2) - 2 * (t2*t2) + t2) * m0
              + (3 * (t2*t2) - 2 * (t2*t2*t2)) * y1 + ((t2*t2*t2) - (t2*t2)) * m1).
  assert (Hid : 9 * D * (H2v - H1v) =
                (3*D - m0) * (3*D - m1) * (q00 t2 - q00 t1)
                + m0 * (3*D - m1) * (q30 t2 - q30 t1)
                + (3*D - m0) * m1 * (q03 t2 - q03 t1)
                + m0 * m1 * (q33 t2 - q33 t1)).
  { unfold H1v, H2v, q00, q30, q03, q33, D. field. }
  assert (Hpos : 0 <= 9 * D * (H2v - H1v)).
  { rewrite Hid.
    repeat apply Rplus_le_le_0_compat; apply Rmult_le_pos; try assumption;
      apply Rmult_le_pos; lra. }
  assert (0 <= H2v - H1v); [|lra].
  apply (Rmult_le_reg_l (9 * D)); [lra|]. rewrite Rmult_0_r. exact Hpos.
Qed.

Lemma hermite_monotone_down y0 y1 d0 d1 h t1 t2 :
  3 * (y1 - y0) <= h * d0 <= 0 -> 3 * (y1 - y0) <= h * d1 <= 0 ->
  0 <= t1 -> t1 <= t2 -> t2 <= 1 ->
  hermite (O := ROps) y0 y1 d0 d1 h t2 <= hermite (O := ROps) y0 y1 d0 d1 h t1.
Proof.
  intros Ha Hb H0 H12 H1.
  pose proof (hermite_monotone_up (- y0) (- y1) (- d0) (- d1) h t1 t2) as M.
  rewrite !hermite_R in *.
  assert (A : 0 <= h * - d0 <= 3 * (- y1 - - y0)) by lra.
  assert (B : 0 <= h * - d1 <= 3 * (- y1 - - y0)) by lra.
  specialize (M A B H0 H12 H1). lra.
Qed.

(* |Im| shrinks towards the low-frequency end: between the extra point
   (x0, y0) and the first computed point (x1, y1) the cubic never leaves
   [min(y0,y1), max(y0,y1)] and is monotone *)
Lemma hermite_endpoints y0 y1 d0 d1 h :
  hermite (O := ROps) y0 y1 d0 d1 h 0 = y0 /\ hermite (O := ROps) y0 y1 d0 d1 h 1 = y1.
Proof. rewrite !hermite_R. split; ring. Qed.

Example hermite_monotone_nonvacuous :
  0 <= 2 * 1 <= 3 * (5 - 1) /\ 0 <= 2 * 3 <= 3 * (5 - 1) /\
  hermite (O := ROps) 1 5 1 3 2 0 < hermite (O := ROps) 1 5 1 3 2 1.
Proof. rewrite !hermite_R. repeat split; lra. Qed.
