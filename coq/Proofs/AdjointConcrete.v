(* Proofs/AdjointConcrete.v -- C07/C08: the concrete pieces of Model/Adjoint.v:
   anisotropy collection = transpose of the aliasing (four cases), shapes,
   and the GENERATED volume averaging interp_edges_to_vol_averages
   (Gen/MapsVol.v, translated from emg3d/maps.py on every run). *)
From Coq Require Import ZArith List Bool Ring Field Lia.
From V Require Import Base.FieldSig Base.Sums Base.Loops Base.Arr Base.Tactics.
From V Require Import Model.FIT Gen.MapsVol Model.Adjoint.
Import ListNotations.
Local Open Scope Z_scope.

Section Concrete.
  Context {K : Type} {O : FOps K}.
  Hypothesis Fth : field_theory F0 F1 Fadd Fmul Fsub Fopp Fdiv Finv (@eq K).
  Hypothesis two_nz : (1 + 1)%F <> 0%F.
  Add Field Kc : Fth.
  Notation A3 := (Z -> Z -> Z -> K).

  Lemma one_nz : (1 : K)%F <> 0%F.
  Proof. exact (F_1_neq_0 Fth). Qed.

  Lemma four_lit_nz : ((1 + 1) * ((1 + 1) * 1))%F <> (0 : K)%F.
  Proof.
    intros H. apply two_nz.
    assert (E : (1 + 1)%F = (((1 + 1) * ((1 + 1) * 1)) / (1 + 1) : K)%F)
      by (field; exact two_nz).
    rewrite E, H. field. exact two_nz.
  Qed.

  (* ---- anisotropy -------------------------------------------------------- *)
  Definition valid_case (case : Z) : Prop := case = 0 \/ case = 1 \/ case = 2 \/ case = 3.

  (* shape of the returned gradient: 1, 2, 2, 3 components *)
  Lemma gradient_shape case g (cx cy cz : A3) :
    length (collect case g cx cy cz) = ncomp case.
  Proof.
    unfold collect, ncomp. destruct (has_y case), (has_z case); reflexivity.
  Qed.

  Lemma ncomp_values : ncomp 0 = 1%nat /\ ncomp 1 = 2%nat /\ ncomp 2 = 2%nat /\ ncomp 3 = 3%nat.
  Proof. repeat split. Qed.

  (* collection (with the chain factors) is the transpose of
     expansion-after-chain-multiplication, cell by cell *)
  Lemma aniso_collection case (g : A3 * A3 * A3) (v : list A3) (cx cy cz : A3) i j k :
    valid_case case ->
    sum (seq 0 (ncomp case))
        (fun m => nth m (collect case g cx cy cz) zero3 i j k * nth m v zero3 i j k)%F
    = (let cv := expand case (chain_mul case v cx cy cz) in
       fst (fst g) i j k * fst (fst cv) i j k + snd (fst g) i j k * snd (fst cv) i j k
       + snd g i j k * snd cv i j k)%F.
  Proof.
    intros [-> | [-> | [-> | ->]]]; cbn; unfold mul3, add3; ring.
  Qed.

  (* ---- volume averaging: one iteration of the generated loop nest -------- *)
  Lemma upd3_add (o : A3) x y z (v : K) i j k :
    upd3 o x y z (o x y z + v)%F i j k
    = (o i j k + (if ((i =? x) && (j =? y) && (k =? z))%bool then v else 0))%F.
  Proof.
    unfold upd3.
    destruct (Z.eqb_spec i x), (Z.eqb_spec j y), (Z.eqb_spec k z); subst; cbn [andb]; ring.
  Qed.

  Lemma mul_nz (a b : K) : a <> 0%F -> b <> 0%F -> (a * b)%F <> 0%F.
  Proof.
    intros Ha Hb H. apply Hb.
    transitivity ((a * b) / a)%F; [field; exact Ha|]. rewrite H. field. exact Ha.
  Qed.

  Ltac side := repeat first [exact one_nz | exact two_nz | apply mul_nz].
  Ltac fld := field; repeat split; side.

  Lemma four_updates (o vol : A3) (q : K) ix a b c d i j k :
    let o1 := upd3 o ix a c (o ix a c + vol ix a c * q / Flit 4 1)%F in
    let o2 := upd3 o1 ix b c (o1 ix b c + vol ix b c * q / Flit 4 1)%F in
    let o3 := upd3 o2 ix a d (o2 ix a d + vol ix a d * q / Flit 4 1)%F in
    let o4 := upd3 o3 ix b d (o3 ix b d + vol ix b d * q / Flit 4 1)%F in
    o4 i j k = (o i j k + (if Z.eqb i ix
                           then hits a b j * hits c d k * (vol i j k * q / Flit 4 1)
                           else 0))%F.
  Proof.
    intros o1 o2 o3 o4.
    unfold o4. rewrite upd3_add. unfold o3. rewrite upd3_add.
    unfold o2. rewrite upd3_add. unfold o1. rewrite upd3_add.
    unfold hits. flit.
    destruct (Z.eqb_spec i ix), (Z.eqb_spec j a), (Z.eqb_spec j b),
      (Z.eqb_spec k c), (Z.eqb_spec k d); subst; cbn [andb]; fld.
  Qed.

  Lemma four_updates_y (o vol : A3) (q : K) iy a b c d i j k :
    let o1 := upd3 o a iy c (o a iy c + vol a iy c * q / Flit 4 1)%F in
    let o2 := upd3 o1 b iy c (o1 b iy c + vol b iy c * q / Flit 4 1)%F in
    let o3 := upd3 o2 a iy d (o2 a iy d + vol a iy d * q / Flit 4 1)%F in
    let o4 := upd3 o3 b iy d (o3 b iy d + vol b iy d * q / Flit 4 1)%F in
    o4 i j k = (o i j k + (if Z.eqb j iy
                           then hits a b i * hits c d k * (vol i j k * q / Flit 4 1)
                           else 0))%F.
  Proof.
    intros o1 o2 o3 o4.
    unfold o4. rewrite upd3_add. unfold o3. rewrite upd3_add.
    unfold o2. rewrite upd3_add. unfold o1. rewrite upd3_add.
    unfold hits. flit.
    destruct (Z.eqb_spec j iy), (Z.eqb_spec i a), (Z.eqb_spec i b),
      (Z.eqb_spec k c), (Z.eqb_spec k d); subst; cbn [andb]; fld.
  Qed.

  Lemma four_updates_z (o vol : A3) (q : K) iz a b c d i j k :
    let o1 := upd3 o a c iz (o a c iz + vol a c iz * q / Flit 4 1)%F in
    let o2 := upd3 o1 b c iz (o1 b c iz + vol b c iz * q / Flit 4 1)%F in
    let o3 := upd3 o2 a d iz (o2 a d iz + vol a d iz * q / Flit 4 1)%F in
    let o4 := upd3 o3 b d iz (o3 b d iz + vol b d iz * q / Flit 4 1)%F in
    o4 i j k = (o i j k + (if Z.eqb k iz
                           then hits a b i * hits c d j * (vol i j k * q / Flit 4 1)
                           else 0))%F.
  Proof.
    intros o1 o2 o3 o4.
    unfold o4. rewrite upd3_add. unfold o3. rewrite upd3_add.
    unfold o2. rewrite upd3_add. unfold o1. rewrite upd3_add.
    unfold hits. flit.
    destruct (Z.eqb_spec k iz), (Z.eqb_spec i a), (Z.eqb_spec i b),
      (Z.eqb_spec j c), (Z.eqb_spec j d); subst; cbn [andb]; fld.
  Qed.

  (* One iteration (ix,iy,iz) of the generated loop nest adds to every cell
     (i,j,k) of the three outputs exactly contrib_x/_y/_z: volume/4 times the
     edge value, once for each of the (clamped) neighbour cells that coincide
     with (i,j,k).  For all shapes, arrays and indices. *)
  Lemma vol_avg_body nx ny nz (vol ex ey ez ox oy oz : A3) iz iy ix i j k :
    let r := interp_edges_to_vol_averages_L3 ex ey ez vol nx nx ny ny nz nz
               iz (ixm iz) (ixp nz iz) iy (ixm iy) (ixp ny iy) ix (ox, oy, oz) in
    fst (fst r) i j k = (ox i j k + contrib_x nx ny nz vol ex ix iy iz i j k)%F /\
    snd (fst r) i j k = (oy i j k + contrib_y nx ny nz vol ey ix iy iz i j k)%F /\
    snd r i j k = (oz i j k + contrib_z nx ny nz vol ez ix iy iz i j k)%F.
  Proof.
    unfold interp_edges_to_vol_averages_L3, contrib_x, contrib_y, contrib_z.
    cbv zeta. cbn [fst snd]. fold (ixm ix). fold (ixp nx ix).
    repeat split.
    - destruct (ix <? nx); cbn [andb].
      + apply (four_updates ox vol (ex ix iy iz) ix (ixm iy) (ixp ny iy) (ixm iz) (ixp nz iz)).
      + ring.
    - destruct (iy <? ny); cbn [andb].
      + apply (four_updates_y oy vol (ey ix iy iz) iy (ixm ix) (ixp nx ix) (ixm iz) (ixp nz iz)).
      + ring.
    - destruct (iz <? nz); cbn [andb].
      + apply (four_updates_z oz vol (ez ix iy iz) iz (ixm ix) (ixp nx ix) (ixm iy) (ixp ny iy)).
      + ring.
  Qed.

  (* ---- adjoint of the volume averaging: accumulate semantics ------------- *)
  (* _interp_volume_average_adj ADDS P^T nval to what oval already holds:
     entry (i,j,k) of the result = old entry + sum over the matrix entries that
     target (i,j,k) of weight * nval(source cell).  For every entry list, every
     arrays. *)
  Lemma vt_add_spec (T : list (cell3 * cell3 * K)) (nval oval : A3) i j k :
    vt_add T nval oval i j k
    = (oval i j k
       + sum T (fun t => if ((i =? fst (fst (fst (fst t)))) && (j =? snd (fst (fst (fst t))))
                             && (k =? snd (fst (fst t))))%bool
                         then snd t * nval (fst (fst (snd (fst t)))) (snd (fst (snd (fst t))))
                                         (snd (snd (fst t)))
                         else 0))%F.
  Proof.
    revert oval. induction T as [|t T IH]; intros oval.
    - cbn. ring.
    - unfold vt_add in *. cbn [fold_left sum]. rewrite IH. cbv zeta.
      rewrite upd3_add. ring.
  Qed.

  (* calling it twice accumulates both contributions (what gradient relies on
     for the sum over source-frequency pairs) *)
  Lemma vt_add_twice (T1 T2 : list (cell3 * cell3 * K)) (n1 n2 oval : A3) i j k :
    vt_add T2 n2 (vt_add T1 n1 oval) i j k
    = (oval i j k + (vt_add T1 n1 zero3 i j k + vt_add T2 n2 zero3 i j k))%F.
  Proof. rewrite !vt_add_spec. unfold zero3. ring. Qed.

  (* ---- V / VT for entry-list matrices are transposes ---------------------- *)
  (* The forward volume averaging [v_apply T] (jvec) and the accumulating
     adjoint [vt_add T] (gradient/jtvec) built from the SAME entry list satisfy
     <V a, x>_comp = <a, VT x>_model: hypothesis V_T of jt_adjoint holds for the
     model's pair, for every entry list whose cells lie in the (duplicate-free)
     cell lists summed over. *)
  Definition at3 (a : A3) (m : cell3) : K := a (fst (fst m)) (snd (fst m)) (snd m).
  Definition cell_eqb (m m' : cell3) : bool :=
    ((fst (fst m) =? fst (fst m')) && (snd (fst m) =? snd (fst m')) && (snd m =? snd m'))%bool.

  Lemma cell_eqb_eq m m' : cell_eqb m m' = true <-> m = m'.
  Proof.
    destruct m as [[a b] c], m' as [[a' b'] c']. unfold cell_eqb. cbn.
    rewrite !andb_true_iff, !Z.eqb_eq. split.
    - intros [[-> ->] ->]. reflexivity.
    - intros H. inversion H. auto.
  Qed.

  Lemma entry_form (T : list (cell3 * cell3 * K)) (a x : A3) :
    forall (Cm : list cell3), NoDup Cm -> (forall t, In t T -> In (fst (fst t)) Cm) ->
    sum Cm (fun m => (at3 a m * at3 (vt_add T x zero3) m)%F)
    = sum T (fun t => (snd t * at3 a (fst (fst t)) * at3 x (snd (fst t)))%F).
  Proof.
    intros Cm Hnd Hin.
    transitivity (sum Cm (fun m => sum T (fun t =>
                    (if cell_eqb m (fst (fst t))
                     then at3 a m * (snd t * at3 x (snd (fst t))) else 0)%F))).
    { apply sum_ext. intros m _. unfold at3 at 2. rewrite vt_add_spec. unfold zero3.
      transitivity (at3 a m * sum T (fun t =>
        (if cell_eqb m (fst (fst t)) then snd t * at3 x (snd (fst t)) else 0))%F)%F.
      - unfold cell_eqb, at3. ring.
      - rewrite <- (sum_scale_l Fth). apply sum_ext. intros t _.
        destruct (cell_eqb m (fst (fst t))); ring. }
    rewrite (sum_exchange Fth). apply sum_ext. intros t Ht.
    rewrite (sum_single Fth cell_eqb Cm (fst (fst t))
               (fun m => (at3 a m * (snd t * at3 x (snd (fst t))))%F) cell_eqb_eq Hnd (Hin t Ht)).
    ring.
  Qed.

  Lemma entry_form_V (T : list (cell3 * cell3 * K)) (a x : A3) :
    forall (Cc : list cell3), NoDup Cc -> (forall t, In t T -> In (snd (fst t)) Cc) ->
    sum Cc (fun c => (at3 (v_apply T a) c * at3 x c)%F)
    = sum T (fun t => (snd t * at3 a (fst (fst t)) * at3 x (snd (fst t)))%F).
  Proof.
    intros Cc Hnd Hin.
    transitivity (sum Cc (fun c => sum T (fun t =>
                    (if cell_eqb c (snd (fst t))
                     then (snd t * at3 a (fst (fst t))) * at3 x c else 0)%F))).
    { apply sum_ext. intros c _. unfold at3 at 1, v_apply. cbv zeta.
      rewrite <- (sum_scale_r Fth). apply sum_ext. intros t _.
      unfold cell_eqb, at3. destruct ((fst (fst c) =? fst (fst (snd (fst t))))
        && (snd (fst c) =? snd (fst (snd (fst t)))) && (snd c =? snd (snd (fst t))))%bool; ring. }
    rewrite (sum_exchange Fth). apply sum_ext. intros t Ht.
    rewrite (sum_single Fth cell_eqb Cc (snd (fst t))
               (fun c => ((snd t * at3 a (fst (fst t))) * at3 x c)%F) cell_eqb_eq Hnd (Hin t Ht)).
    ring.
  Qed.

  Theorem v_apply_vt_add_transpose (T : list (cell3 * cell3 * K)) (a x : A3)
          (Cm Cc : list cell3) :
    NoDup Cm -> NoDup Cc ->
    (forall t, In t T -> In (fst (fst t)) Cm /\ In (snd (fst t)) Cc) ->
    sum Cc (fun c => (at3 (v_apply T a) c * at3 x c)%F)
    = sum Cm (fun m => (at3 a m * at3 (vt_add T x zero3) m)%F).
  Proof.
    intros Hm Hc Hin.
    rewrite (entry_form_V T a x Cc Hc) by (intros t Ht; apply (Hin t Ht)).
    rewrite (entry_form T a x Cm Hm) by (intros t Ht; apply (Hin t Ht)).
    reflexivity.
  Qed.

  (* ---- lifting to the loop nest ------------------------------------------ *)
  Definition zsum (lo hi : Z) (f : Z -> K) : K :=
    Zfold lo hi (fun t acc => (acc + f t)%F) 0%F.

  Lemma zsum_snoc lo hi f : lo <= hi -> zsum lo (hi + 1) f = (zsum lo hi f + f hi)%F.
  Proof. intros H. unfold zsum. now rewrite Zfold_snoc. Qed.

  Lemma zsum_empty lo f : zsum lo lo f = 0%F.
  Proof. unfold zsum. now rewrite Zfold_empty by lia. Qed.

  Notation St := ((A3 * A3 * A3)%type).
  Definition gx (s : St) : A3 := fst (fst s).
  Definition gy (s : St) : A3 := snd (fst s).
  Definition gz (s : St) : A3 := snd s.

  (* a loop whose body adds c t to every entry adds the sum *)
  Lemma additive_fold (body : Z -> St -> St) (cx cy cz : Z -> Z -> Z -> Z -> K) lo hi s :
    lo <= hi ->
    (forall t s' i j k, lo <= t < hi ->
        gx (body t s') i j k = (gx s' i j k + cx t i j k)%F /\
        gy (body t s') i j k = (gy s' i j k + cy t i j k)%F /\
        gz (body t s') i j k = (gz s' i j k + cz t i j k)%F) ->
    forall i j k,
      gx (Zfold lo hi body s) i j k = (gx s i j k + zsum lo hi (fun t => cx t i j k))%F /\
      gy (Zfold lo hi body s) i j k = (gy s i j k + zsum lo hi (fun t => cy t i j k))%F /\
      gz (Zfold lo hi body s) i j k = (gz s i j k + zsum lo hi (fun t => cz t i j k))%F.
  Proof.
    intros Hle Hb.
    apply (Zfold_ind (fun n s' => forall i j k,
      gx s' i j k = (gx s i j k + zsum lo n (fun t => cx t i j k))%F /\
      gy s' i j k = (gy s i j k + zsum lo n (fun t => cy t i j k))%F /\
      gz s' i j k = (gz s i j k + zsum lo n (fun t => cz t i j k))%F)); [exact Hle| |].
    - intros i j k. rewrite !zsum_empty. repeat split; ring.
    - intros n s' Hn IH i j k.
      destruct (Hb n s' i j k Hn) as (B1 & B2 & B3).
      destruct (IH i j k) as (I1 & I2 & I3).
      rewrite B1, B2, B3, I1, I2, I3, !zsum_snoc by lia. repeat split; ring.
  Qed.

  Lemma tuple_eta (s : St) : (fst (fst s), snd (fst s), snd s) = s.
  Proof. destruct s as [[a b] c]. reflexivity. Qed.

  (* The generated interp_edges_to_vol_averages, for every shape and all
     arrays: each output cell receives its previous value plus the sum over
     ALL edges (ix,iy,iz) of the box of the per-edge contribution. *)
  Theorem vol_avg_sum nx ny nz (vol ex ey ez ox oy oz : A3) i j k :
    0 <= nx -> 0 <= ny -> 0 <= nz ->
    let r := interp_edges_to_vol_averages nx ny nz ex ey ez vol ox oy oz in
    gx r i j k = (ox i j k + zsum 0 (nz+1) (fun iz => zsum 0 (ny+1) (fun iy =>
                   zsum 0 (nx+1) (fun ix => contrib_x nx ny nz vol ex ix iy iz i j k))))%F /\
    gy r i j k = (oy i j k + zsum 0 (nz+1) (fun iz => zsum 0 (ny+1) (fun iy =>
                   zsum 0 (nx+1) (fun ix => contrib_y nx ny nz vol ey ix iy iz i j k))))%F /\
    gz r i j k = (oz i j k + zsum 0 (nz+1) (fun iz => zsum 0 (ny+1) (fun iy =>
                   zsum 0 (nx+1) (fun ix => contrib_z nx ny nz vol ez ix iy iz i j k))))%F.
  Proof.
    intros Hx Hy Hz. cbv zeta.
    unfold interp_edges_to_vol_averages. cbv zeta.
    match goal with |- context [Zfold 0 (nz+1) ?b ?s] => set (B1 := b); set (S0 := s) end.
    rewrite tuple_eta.
    apply (additive_fold B1
             (fun iz i j k => zsum 0 (ny+1) (fun iy => zsum 0 (nx+1)
                 (fun ix => contrib_x nx ny nz vol ex ix iy iz i j k)))
             (fun iz i j k => zsum 0 (ny+1) (fun iy => zsum 0 (nx+1)
                 (fun ix => contrib_y nx ny nz vol ey ix iy iz i j k)))
             (fun iz i j k => zsum 0 (ny+1) (fun iy => zsum 0 (nx+1)
                 (fun ix => contrib_z nx ny nz vol ez ix iy iz i j k)))
             0 (nz+1) S0); [lia|].
    intros iz s1 i1 j1 k1 _. unfold B1, interp_edges_to_vol_averages_L1. cbv zeta.
    match goal with |- context [Zfold 0 (ny+1) ?b ?s] => set (B2 := b); set (S1 := s) end.
    rewrite tuple_eta.
    replace (gx s1) with (gx S1) by reflexivity.
    replace (gy s1) with (gy S1) by reflexivity.
    replace (gz s1) with (gz S1) by reflexivity.
    apply (additive_fold B2
             (fun iy i j k => zsum 0 (nx+1)
                 (fun ix => contrib_x nx ny nz vol ex ix iy iz i j k))
             (fun iy i j k => zsum 0 (nx+1)
                 (fun ix => contrib_y nx ny nz vol ey ix iy iz i j k))
             (fun iy i j k => zsum 0 (nx+1)
                 (fun ix => contrib_z nx ny nz vol ez ix iy iz i j k))
             0 (ny+1) S1); [lia|].
    intros iy s2 i2 j2 k2 _. unfold B2, interp_edges_to_vol_averages_L2. cbv zeta.
    match goal with |- context [Zfold 0 (nx+1) ?b ?s] => set (B3 := b); set (S2 := s) end.
    rewrite tuple_eta.
    replace (gx s2) with (gx S2) by reflexivity.
    replace (gy s2) with (gy S2) by reflexivity.
    replace (gz s2) with (gz S2) by reflexivity.
    apply (additive_fold B3
             (fun ix i j k => contrib_x nx ny nz vol ex ix iy iz i j k)
             (fun ix i j k => contrib_y nx ny nz vol ey ix iy iz i j k)
             (fun ix i j k => contrib_z nx ny nz vol ez ix iy iz i j k)
             0 (nx+1) S2); [lia|].
    intros ix s3 i3 j3 k3 _. unfold B3.
    rewrite <- (tuple_eta s3) at 1 2 3. fold (gx s3) (gy s3) (gz s3).
    apply (vol_avg_body nx ny nz vol ex ey ez (gx s3) (gy s3) (gz s3) iz iy ix i3 j3 k3).
  Qed.
End Concrete.
