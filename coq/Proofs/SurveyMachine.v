(* Proofs/SurveyMachine.v -- lemmas about Model/SurveyMachine.v (property C13). *)
From Coq Require Import ZArith List Bool Arith Lia Field Permutation.
From V Require Import Base.FieldSig Model.SurveyMachine.
Import ListNotations.

(* ------------------------------------------------------------------ lists *)
Section Lists.
  Context {A : Type}.

  Lemma nth_ltab {B} (n : nat) (f : nat -> B) (d : B) i :
    i < n -> nth i (ltab n f) d = f i.
  Proof.
    intros H. unfold ltab.
    rewrite nth_indep with (d' := f 0) by (rewrite map_length, seq_length; exact H).
    rewrite map_nth. rewrite seq_nth by exact H. reflexivity.
  Qed.

  Lemma length_ltab {B} (n : nat) (f : nat -> B) : length (ltab n f) = n.
  Proof. unfold ltab. now rewrite map_length, seq_length. Qed.

  Lemma nth_map_lt {B} (f : A -> B) (l : list A) (d : A) (d' : B) i :
    i < length l -> nth i (map f l) d' = f (nth i l d).
  Proof.
    intros H. rewrite nth_indep with (d' := f d) by (now rewrite map_length).
    apply map_nth.
  Qed.

  Lemma upd_nth_length (n : nat) (x : A) (l : list A) : length (upd_nth n x l) = length l.
  Proof. revert n. induction l as [|h t IH]; intros [|n]; cbn; auto. Qed.

  Lemma nth_error_upd_same (n : nat) (x : A) (l : list A) :
    n < length l -> nth_error (upd_nth n x l) n = Some x.
  Proof.
    revert n. induction l as [|h t IH]; intros [|n] H; cbn in *; try lia; auto.
    apply IH. lia.
  Qed.

  Lemma nth_error_upd_other (n m : nat) (x : A) (l : list A) :
    n <> m -> nth_error (upd_nth n x l) m = nth_error l m.
  Proof.
    revert n m. induction l as [|h t IH]; intros [|n] [|m] H; cbn; auto; try lia.
  Qed.

  Lemma Forall_upd_nth (P : A -> Prop) n x l :
    Forall P l -> P x -> Forall P (upd_nth n x l).
  Proof.
    intros Hl Hx. revert n. induction Hl as [|h t Hh Ht IH]; intros [|n]; cbn; auto.
  Qed.

  Lemma nth_error_Some_lt (l : list A) i x : nth_error l i = Some x -> i < length l.
  Proof. intros H. apply nth_error_Some. congruence. Qed.

  Lemma nth_app_new (l e : list A) (x d : A) : nth (length l) ((l ++ [x]) ++ e) d = x.
  Proof.
    rewrite <- app_assoc. rewrite app_nth2 by lia. rewrite Nat.sub_diag. reflexivity.
  Qed.
End Lists.

Section Proofs.
  Context {F : Type} {FO : FOps F}.
  Variable ltb : F -> F -> bool.
  Variable off2 : Z -> Z -> F.
  Local Notation cell := (@cell F).
  Local Notation cube := (@cube F).
  Local Notation survey := (@survey F).
  Local Notation world := (@world F).

  (* ------------------------------------------------------------ cubes *)
  Lemma cget_ctab n1 n2 n3 (f : nat -> nat -> nat -> cell) i j k :
    i < n1 -> j < n2 -> k < n3 -> cget (ctab n1 n2 n3 f) i j k = f i j k.
  Proof.
    intros Hi Hj Hk. unfold cget, ctab.
    rewrite nth_ltab by exact Hi. rewrite nth_ltab by exact Hj. now rewrite nth_ltab.
  Qed.

  Lemma cget_sel3 (c : cube) Is Js Ks i j k :
    i < length Is -> j < length Js -> k < length Ks ->
    cget (sel3 c Is Js Ks) i j k = cget c (nth i Is 0) (nth j Js 0) (nth k Ks 0).
  Proof.
    intros Hi Hj Hk. unfold sel3. unfold cget at 1.
    rewrite nth_map_lt with (d := 0) by exact Hi.
    rewrite nth_map_lt with (d := 0) by exact Hj.
    rewrite nth_map_lt with (d := 0) by exact Hk. reflexivity.
  Qed.

  Lemma cdims_sel3 (c : cube) Is Js Ks :
    Is <> nil -> Js <> nil ->
    cdims (sel3 c Is Js Ks) = (length Is, length Js, length Ks).
  Proof.
    intros HI HJ. unfold cdims, sel3.
    destruct Is as [|i Is]; [congruence|]. destruct Js as [|j Js]; [congruence|].
    cbn. now rewrite !map_length.
  Qed.

  Lemma cget_bcast (c : cube) n1 n2 n3 i j k :
    i < n1 -> j < n2 -> k < n3 ->
    cget (bcast c n1 n2 n3) i j k
    = cget c (if Nat.eqb (fst (fst (cdims c))) 1 then 0 else i)
             (if Nat.eqb (snd (fst (cdims c))) 1 then 0 else j)
             (if Nat.eqb (snd (cdims c)) 1 then 0 else k).
  Proof.
    intros Hi Hj Hk. unfold bcast. destruct (cdims c) as [[d1 d2] d3]. cbn [fst snd].
    now rewrite cget_ctab.
  Qed.

  (* ------------------------------------------------ heap extension frame *)
  Definition sfields (sv : survey) : attr * attr * option nat * option nat * option nat :=
    (nf_attr sv, re_attr sv, nf_arr sv, re_arr sv, std_arr sv).

  Lemma opt_lt_mono r n m : opt_lt r n -> n <= m -> opt_lt r m.
  Proof. destruct r; cbn; lia. Qed.

  Lemma refs_ok_mono n m (sv : survey) : refs_ok n sv -> n <= m -> refs_ok m sv.
  Proof. intros (a & b & c) H. repeat split; eapply opt_lt_mono; eauto. Qed.

  Lemma refs_ok_fields n (sv sv' : survey) :
    sfields sv' = sfields sv -> refs_ok n sv -> refs_ok n sv'.
  Proof.
    unfold sfields, refs_ok. intros E. injection E as _ _ E1 E2 E3. now rewrite E1, E2, E3.
  Qed.

  Lemma deref_app (h e : list cube) r : r < length h -> deref (h ++ e) r = deref h r.
  Proof. intros H. unfold deref. now rewrite app_nth1. Qed.

  Lemma deref_o_app (h e : list cube) r : opt_lt r (length h) -> deref_o (h ++ e) r = deref_o h r.
  Proof. destruct r; cbn; auto. apply deref_app. Qed.

  Lemma settings_ext (h e : list cube) (sv sv' : survey) :
    sfields sv' = sfields sv -> refs_ok (length h) sv ->
    settings (h ++ e) sv' = settings h sv.
  Proof.
    intros E (H1 & H2 & H3). unfold sfields in E. injection E as E1 E2 E3 E4 E5.
    unfold settings, nf_view, re_view, std_view, view. rewrite E1, E2, E3, E4, E5.
    rewrite !deref_o_app by assumption.
    destruct (std_arr sv) as [r|]; cbn in *; [rewrite deref_app by assumption|]; reflexivity.
  Qed.

  (* w' extends w: the setting heap only grows, existing surveys keep their
     setting fields (except survey [exc]), and w' is well formed *)
  Definition ext (exc : option nat) (w w' : world) : Prop :=
    (exists e, hset w' = hset w ++ e) /\
    (forall i sv, nth_error (svs w) i = Some sv -> Some i <> exc ->
                  exists sv', nth_error (svs w') i = Some sv' /\ sfields sv' = sfields sv) /\
    wf w'.

  Lemma ext_refl exc w : wf w -> ext exc w w.
  Proof.
    intros H. split; [exists nil; now rewrite app_nil_r|]. split; [|exact H].
    intros i sv Hi _. exists sv. auto.
  Qed.

  Lemma wf_grow (w : world) hs' hd' e :
    wf w -> hs' = hset w ++ e -> wf (mkW hs' hd' (svs w)).
  Proof.
    unfold wf. cbn. intros H ->. eapply Forall_impl; [|exact H].
    intros sv Hs. eapply refs_ok_mono; [exact Hs|]. rewrite app_length. lia.
  Qed.

  (* replace survey s *)
  Lemma ext_upd exc (w : world) s sv sv' hs' hd' e :
    wf w -> nth_error (svs w) s = Some sv -> hs' = hset w ++ e ->
    refs_ok (length hs') sv' -> (Some s = exc \/ sfields sv' = sfields sv) ->
    ext exc w (mkW hs' hd' (upd_nth s sv' (svs w))).
  Proof.
    intros Hw Hs -> Hr Hx. split; [exists e; reflexivity|]. split.
    - intros i svi Hi Hne. cbn. destruct (Nat.eq_dec s i) as [<-|Hd].
      + exists sv'. split; [apply nth_error_upd_same; eapply nth_error_Some_lt; eauto|].
        destruct Hx as [Hx|Hx]; [congruence|]. congruence.
      + exists svi. split; [now rewrite nth_error_upd_other|reflexivity].
    - unfold wf. cbn. apply Forall_upd_nth; [|exact Hr].
      eapply Forall_impl; [|exact Hw]. intros x Hxx. eapply refs_ok_mono; [exact Hxx|].
      rewrite app_length. lia.
  Qed.

  (* append a new survey *)
  Lemma ext_app exc (w : world) svn hs' hd' e :
    wf w -> hs' = hset w ++ e -> refs_ok (length hs') svn ->
    ext exc w (mkW hs' hd' (svs w ++ [svn])).
  Proof.
    intros Hw -> Hr. split; [exists e; reflexivity|]. split.
    - intros i svi Hi _. cbn. exists svi. split; [|reflexivity].
      rewrite nth_error_app1; [exact Hi|]. eapply nth_error_Some_lt; eauto.
    - unfold wf. cbn. apply Forall_app. split; [|constructor; [exact Hr|constructor]].
      eapply Forall_impl; [|exact Hw]. intros x Hxx. eapply refs_ok_mono; [exact Hxx|].
      rewrite app_length. lia.
  Qed.

  Lemma wf_nth (w : world) s sv : wf w -> nth_error (svs w) s = Some sv ->
    refs_ok (length (hset w)) sv.
  Proof.
    intros Hw Hs. unfold wf in Hw. rewrite Forall_forall in Hw. apply Hw.
    eapply nth_error_In; eauto.
  Qed.

  (* --- setters *)
  Lemma set_nfre_ext isnf s v (w : world) :
    wf w -> ext (Some s) w (fst (set_nfre ltb isnf s v w)).
  Proof.
    intros Hw. unfold set_nfre.
    destruct (nth_error (svs w) s) as [sv|] eqn:Hs; [|now apply ext_refl].
    pose proof (wf_nth _ _ _ Hw Hs) as (R1 & R2 & R3).
    assert (Hup : forall a, ext (Some s) w (set_svs w (upd_nth s
               ((if isnf then with_nf sv a (nf_arr sv) else with_re sv a (re_arr sv)))
               (svs w)))).
    { intros a. unfold set_svs.
      apply ext_upd with (sv := sv) (e := nil);
        [exact Hw | exact Hs | now rewrite app_nil_r | | left; reflexivity].
      destruct isnf; repeat split; cbn; assumption. }
    destruct v as [|q|c].
    - cbn [fst]. destruct isnf; apply (Hup ANone).
    - destruct (ltb 0%F q); cbn [fst]; [|now apply ext_refl].
      destruct isnf; apply (Hup (AScal q)).
    - destruct (cdims c) as [[d1 d2] d3]. destruct (shape sv) as [[n1 n2] n3].
      destruct (negb (call (pos_cell ltb) c)); [now apply ext_refl|].
      destruct (Nat.eqb (d1 * d2 * d3) 1).
      { destruct (cget c 0 0 0) as [|q q']; cbn [fst]; [now apply ext_refl|].
        destruct isnf; apply (Hup (AScal q)). }
      destruct (negb (dim_ok d1 n1 && dim_ok d2 n2 && dim_ok d3 n3)); [now apply ext_refl|].
      cbn [fst].
      apply ext_upd with (sv := sv) (e := [bcast c n1 n2 n3]);
        [exact Hw | exact Hs | reflexivity | | left; reflexivity].
      rewrite app_length. cbn [length].
      destruct isnf; repeat split; cbn; try lia;
        (eapply opt_lt_mono; [eassumption|lia]).
  Qed.

  Lemma set_std_ext s v (w : world) :
    wf w -> ext (Some s) w (fst (set_std ltb s v w)).
  Proof.
    intros Hw. unfold set_std.
    destruct (nth_error (svs w) s) as [sv|] eqn:Hs; [|now apply ext_refl].
    pose proof (wf_nth _ _ _ Hw Hs) as (R1 & R2 & R3).
    destruct v as [c|].
    - destruct (cdims c) as [[d1 d2] d3]. destruct (shape sv) as [[n1 n2] n3].
      destruct (negb (call (pos_cell ltb) c)); [now apply ext_refl|].
      destruct (negb (Nat.eqb d1 n1 && Nat.eqb d2 n2 && Nat.eqb d3 n3)); [now apply ext_refl|].
      cbn [fst].
      apply ext_upd with (sv := sv) (e := [c]);
        [exact Hw | exact Hs | reflexivity | | left; reflexivity].
      rewrite app_length. cbn [length].
      repeat split; cbn; try lia; (eapply opt_lt_mono; [eassumption|lia]).
    - cbn [fst]. unfold set_svs.
      apply ext_upd with (sv := sv) (e := nil);
        [exact Hw | exact Hs | now rewrite app_nil_r | | left; reflexivity].
      repeat split; cbn; assumption.
  Qed.

  (* --- add_noise (repaired: inplace = false) *)
  Lemma amp_threshold_false hs (sv : survey) m : fst (amp_threshold false hs sv m) = hs.
  Proof.
    unfold amp_threshold. destruct m; try reflexivity. destruct (nf_attr sv); reflexivity.
  Qed.

  Lemma add_noise_ext s p noise (w : world) :
    wf w -> ext None w (fst (add_noise ltb off2 false s p noise w)).
  Proof.
    intros Hw. unfold add_noise.
    destruct (nth_error (svs w) s) as [sv|] eqn:Hs; [|now apply ext_refl].
    pose proof (wf_nth _ _ _ Hw Hs) as Hr.
    destruct (shape sv) as [[n1 n2] n3].
    set (tg := match a_to p with
               | TObs => (hdat w, sv, obs sv)
               | TNamed n =>
                 match lookup n (named sv) with
                 | Some r => (hdat w, sv, r)
                 | None => (hdat w ++ [ctab n1 n2 n3 (fun _ _ _ => zero)],
                            with_named sv (named sv ++ [(n, length (hdat w))]), length (hdat w))
                 end
               end).
    assert (Hf : sfields (snd (fst tg)) = sfields sv).
    { unfold tg. destruct (a_to p); [reflexivity|]. destruct (lookup n (named sv)); reflexivity. }
    destruct tg as [[hd1 sv1] tgt]. cbn [fst snd] in Hf.
    pose proof (amp_threshold_false (hset w) sv1 (a_minamp p)) as Ha.
    destruct (amp_threshold false (hset w) sv1 (a_minamp p)) as [hs1 thr]. cbn [fst] in Ha.
    subst hs1.
    match goal with |- context [std2 ?w2 sv1] => destruct (std2 w2 sv1) end; cbn [fst svs hdat];
      (apply ext_upd with (sv := sv) (e := nil);
       [exact Hw | exact Hs | now rewrite app_nil_r
        | eapply refs_ok_fields; [exact Hf|exact Hr] | right; exact Hf]).
  Qed.

  (* --- copies *)
  Lemma copy_opt_spec f (h : list cube) r :
    exists e, fst (copy_opt f h r) = h ++ e /\
              opt_lt (snd (copy_opt f h r)) (length (fst (copy_opt f h r))).
  Proof.
    destruct r as [r|]; cbn.
    - exists [f (deref h r)]. split; [reflexivity|]. rewrite app_length. cbn. lia.
    - exists nil. now rewrite app_nil_r.
  Qed.

  Lemma copy_survey_ext f ks kr kf (w : world) (sv : survey) :
    exists e, hset (fst (copy_survey f ks kr kf w sv)) = hset w ++ e /\
              svs (fst (copy_survey f ks kr kf w sv)) = svs w /\
              refs_ok (length (hset w ++ e)) (snd (copy_survey f ks kr kf w sv)).
  Proof.
    unfold copy_survey. cbn [copy_arr].
    destruct (copy_named f (hdat w ++ [f (deref (hdat w) (obs sv))]) (named sv)) as [hd2 nm].
    destruct (copy_opt_spec f (hset w) (nf_arr sv)) as (e1 & E1 & L1).
    destruct (copy_opt f (hset w) (nf_arr sv)) as [hs1 a1]. cbn [fst snd] in *.
    destruct (copy_opt_spec f hs1 (re_arr sv)) as (e2 & E2 & L2).
    destruct (copy_opt f hs1 (re_arr sv)) as [hs2 a2]. cbn [fst snd] in *.
    destruct (copy_opt_spec f hs2 (std_arr sv)) as (e3 & E3 & L3).
    destruct (copy_opt f hs2 (std_arr sv)) as [hs3 a3]. cbn [fst snd] in *.
    exists (e1 ++ e2 ++ e3). subst hs1 hs2 hs3. cbn [fst snd hset svs].
    split; [now rewrite !app_assoc|]. split; [reflexivity|].
    rewrite !app_assoc. repeat split; cbn; [| |exact L3];
      (eapply opt_lt_mono; [eassumption|]); rewrite !app_length; lia.
  Qed.

  Lemma select_once_ext (w : world) (sv : survey) a b c w1 sv1 :
    refs_ok (length (hset w)) sv ->
    select_once w sv a b c = Some (w1, sv1) ->
    exists e, hset w1 = hset w ++ e /\ svs w1 = svs w /\ refs_ok (length (hset w ++ e)) sv1.
  Proof.
    intros Hr. unfold select_once.
    destruct (sel_axis (src sv) a) as [[ks Is]|]; [|discriminate].
    destruct (sel_axis (rec sv) b) as [[kr Js]|]; [|discriminate].
    destruct (sel_axis (frq sv) c) as [[kf Ks]|]; [|discriminate].
    destruct (all_none a b c).
    - intros E. injection E as <- <-. exists nil. rewrite app_nil_r. auto.
    - intros E.
      destruct (copy_survey_ext (fun c0 => sel3 c0 Is Js Ks) ks kr kf w sv) as (e & E1 & E2 & E3).
      destruct (copy_survey (fun c0 => sel3 c0 Is Js Ks) ks kr kf w sv) as [w' sv'].
      injection E as <- <-. exists e. auto.
  Qed.

  Lemma select_ext s a b c rm (w : world) :
    wf w -> ext None w (fst (select s a b c rm w)).
  Proof.
    intros Hw. unfold select.
    destruct (nth_error (svs w) s) as [sv|] eqn:Hs; [|now apply ext_refl].
    pose proof (wf_nth _ _ _ Hw Hs) as Hr.
    destruct (select_once w sv a b c) as [[w1 sv1]|] eqn:E1; [|now apply ext_refl].
    destruct (select_once_ext _ _ _ _ _ _ _ Hr E1) as (e1 & H1 & S1 & R1).
    destruct (shape sv1) as [[n1 n2] n3].
    match goal with |- context [if ?b then _ else _] => destruct b end.
    - match goal with |- context [select_once w1 sv1 ?x ?y ?z] =>
        destruct (select_once w1 sv1 x y z) as [[w2 sv2]|] eqn:E2 end; [|now apply ext_refl].
      rewrite <- H1 in R1.
      destruct (select_once_ext _ _ _ _ _ _ _ R1 E2) as (e2 & H2 & S2 & R2).
      cbn [fst]. unfold set_svs. rewrite S2, S1.
      apply ext_app with (e := e1 ++ e2); [exact Hw | | ].
      + rewrite H2, H1. now rewrite app_assoc.
      + rewrite H2. exact R2.
    - cbn [fst]. unfold set_svs. rewrite S1.
      apply ext_app with (e := e1); [exact Hw | exact H1 | rewrite H1; exact R1].
  Qed.

  Lemma dict_ext s k (w : world) : wf w -> ext None w (fst (dict s k w)).
  Proof.
    intros Hw. unfold dict.
    destruct (nth_error (svs w) s) as [sv|] eqn:Hs; [|now apply ext_refl].
    pose proof (wf_nth _ _ _ Hw Hs) as Hr.
    destruct (Z.eqb k 0).
    - cbn [fst]. unfold set_svs.
      apply ext_app with (e := nil); [exact Hw | now rewrite app_nil_r | exact Hr].
    - destruct (copy_survey_ext (fun c => c) (src sv) (rec sv) (frq sv) w sv) as (e & E1 & E2 & E3).
      destruct (copy_survey (fun c => c) (src sv) (rec sv) (frq sv) w sv) as [w1 sv1].
      cbn [fst snd] in *. unfold set_svs. rewrite E2.
      apply ext_app with (e := e); [exact Hw | exact E1 | rewrite E1; exact E3].
  Qed.

  Definition setter_target (o : @op F) : option nat :=
    match o with
    | OSetNf s _ | OSetRe s _ | OSetStd s _ => Some s
    | _ => None
    end.

  Lemma step_ext o (w : world) :
    wf w -> ext (setter_target o) w (fst (step ltb off2 false o w)).
  Proof.
    intros Hw. destruct o; cbn [step setter_target].
    - now apply set_nfre_ext.
    - now apply set_nfre_ext.
    - now apply set_std_ext.
    - now apply add_noise_ext.
    - now apply select_ext.
    - now apply dict_ext.
  Qed.

  Lemma is_setter_target i o :
    is_setter_on i o = false -> Some i <> setter_target o.
  Proof.
    destruct o; cbn; try discriminate; intros H E; injection E as ->;
      now rewrite Nat.eqb_refl in H.
  Qed.

  Lemma ext_settings exc (w w' : world) i :
    wf w -> ext exc w w' -> Some i <> exc -> i < length (svs w) ->
    settings_at w' i = settings_at w i /\ i < length (svs w').
  Proof.
    intros Hw ((e & He) & Hk & _) Hne Hi.
    destruct (nth_error (svs w) i) as [sv|] eqn:Hs; [|apply nth_error_None in Hs; lia].
    destruct (Hk i sv Hs Hne) as (sv' & Hs' & Hf).
    split; [|eapply nth_error_Some_lt; eauto].
    unfold settings_at. rewrite Hs, Hs', He. f_equal.
    apply settings_ext; [exact Hf|]. eapply wf_nth; eauto.
  Qed.

  (* THE FRAME THEOREM: over every history, no operation other than a setter
     applied to survey i changes noise floor / relative error / explicit std
     (by value) of survey i -- whichever surveys the other operations are
     applied to, whatever arrays they share, whatever the noise is. *)
  Theorem settings_frame_all ops (w : world) i :
    wf w -> i < length (svs w) ->
    (forall o, In o ops -> is_setter_on i o = false) ->
    settings_at (run ltb off2 false ops w) i = settings_at w i.
  Proof.
    revert w. induction ops as [|o t IH]; intros w Hw Hi Hno; [reflexivity|].
    cbn [run].
    pose proof (step_ext o w Hw) as Hx.
    assert (Hne : Some i <> setter_target o)
      by (apply is_setter_target, Hno; now left).
    destruct (ext_settings _ _ _ _ Hw Hx Hne Hi) as (E & Hi').
    rewrite IH.
    - exact E.
    - apply Hx.
    - exact Hi'.
    - intros o' Ho'. apply Hno. now right.
  Qed.

  Lemma run_wf ops (w : world) : wf w -> wf (run ltb off2 false ops w).
  Proof.
    revert w. induction ops as [|o t IH]; intros w Hw; [exact Hw|].
    cbn [run]. apply IH. apply (step_ext o w Hw).
  Qed.

  (* --- new surveys carry the settings of their parent *)
  Lemma nth_error_app_new {A} (l : list A) x : nth_error (l ++ [x]) (length l) = Some x.
  Proof. rewrite nth_error_app2 by lia. now rewrite Nat.sub_diag. Qed.

  Lemma copy_opt_deref f (h : list cube) r :
    opt_lt r (length h) ->
    forall e, deref_o (fst (copy_opt f h r) ++ e) (snd (copy_opt f h r))
              = match r with Some _ => f (deref_o h r) | None => nil end.
  Proof.
    destruct r as [r|]; cbn; intros H e; [|reflexivity].
    unfold deref at 1. now rewrite nth_app_new.
  Qed.

  (* the arrays of a copy made with [f] are f(arrays of the original) *)
  Lemma copy_survey_settings f ks kr kf (w : world) (sv : survey) :
    refs_ok (length (hset w)) sv ->
    let w1 := fst (copy_survey f ks kr kf w sv) in
    let sv1 := snd (copy_survey f ks kr kf w sv) in
    nf_attr sv1 = nf_attr sv /\ re_attr sv1 = re_attr sv /\
    deref_o (hset w1) (nf_arr sv1) = match nf_arr sv with Some _ => f (deref_o (hset w) (nf_arr sv)) | None => nil end /\
    deref_o (hset w1) (re_arr sv1) = match re_arr sv with Some _ => f (deref_o (hset w) (re_arr sv)) | None => nil end /\
    deref_o (hset w1) (std_arr sv1) = match std_arr sv with Some _ => f (deref_o (hset w) (std_arr sv)) | None => nil end /\
    (std_arr sv1 = None <-> std_arr sv = None) /\
    deref (hdat w1) (obs sv1) = f (deref (hdat w) (obs sv)) /\
    src sv1 = ks /\ rec sv1 = kr /\ frq sv1 = kf.
  Proof.
    intros (R1 & R2 & R3). unfold copy_survey. cbn [copy_arr].
    destruct (copy_named f (hdat w ++ [f (deref (hdat w) (obs sv))]) (named sv)) as [hd2 nm] eqn:En.
    assert (Hd2 : exists e, hd2 = (hdat w ++ [f (deref (hdat w) (obs sv))]) ++ e).
    { clear - En. revert En. generalize (hdat w ++ [f (deref (hdat w) (obs sv))]).
      revert hd2 nm. induction (named sv) as [|[n r] t IH]; intros hd2 nm h En; cbn in En.
      - injection En as <- _. exists nil. now rewrite app_nil_r.
      - destruct (copy_named f (h ++ [f (deref h r)]) t) as [h2 t2] eqn:E2.
        injection En as <- _. destruct (IH _ _ _ E2) as (e & ->).
        exists ([f (deref h r)] ++ e). now rewrite app_assoc. }
    destruct Hd2 as (ed & ->).
    pose proof (copy_opt_spec f (hset w) (nf_arr sv)) as (e1 & E1 & _).
    pose proof (copy_opt_deref f (hset w) (nf_arr sv) R1) as D1.
    destruct (copy_opt f (hset w) (nf_arr sv)) as [hs1 a1]. cbn [fst snd] in *. subst hs1.
    assert (R2' : opt_lt (re_arr sv) (length (hset w ++ e1)))
      by (eapply opt_lt_mono; [exact R2|rewrite app_length; lia]).
    pose proof (copy_opt_spec f (hset w ++ e1) (re_arr sv)) as (e2 & E2 & _).
    pose proof (copy_opt_deref f (hset w ++ e1) (re_arr sv) R2') as D2.
    destruct (copy_opt f (hset w ++ e1) (re_arr sv)) as [hs2 a2]. cbn [fst snd] in *. subst hs2.
    assert (R3' : opt_lt (std_arr sv) (length ((hset w ++ e1) ++ e2)))
      by (eapply opt_lt_mono; [exact R3|rewrite !app_length; lia]).
    pose proof (copy_opt_spec f ((hset w ++ e1) ++ e2) (std_arr sv)) as (e3 & E3 & _).
    pose proof (copy_opt_deref f ((hset w ++ e1) ++ e2) (std_arr sv) R3') as D3.
    assert (S3 : snd (copy_opt f ((hset w ++ e1) ++ e2) (std_arr sv)) = None <-> std_arr sv = None)
      by (destruct (std_arr sv); cbn; split; congruence).
    destruct (copy_opt f ((hset w ++ e1) ++ e2) (std_arr sv)) as [hs3 a3]. cbn [fst snd] in *.
    subst hs3. cbn [hset hdat nf_attr re_attr nf_arr re_arr std_arr obs src rec frq].
    repeat split; try tauto.
    - specialize (D1 (e2 ++ e3)). rewrite app_assoc in D1. exact D1.
    - specialize (D2 e3). rewrite D2. rewrite deref_o_app by exact R2. reflexivity.
    - specialize (D3 nil). rewrite app_nil_r in D3. rewrite D3.
      rewrite (deref_o_app (hset w ++ e1) e2)
        by (eapply opt_lt_mono; [exact R3|rewrite app_length; lia]).
      rewrite deref_o_app by exact R3. reflexivity.
    - unfold deref. now rewrite nth_app_new.
  Qed.

  (* ------------------------------------------------ std^2, formula *)
  Lemma std2_none (w : world) (sv : survey) :
    std2 w sv = None <->
    (std_arr sv = None /\ nf_view (hset w) sv = SNone /\ re_view (hset w) sv = SNone).
  Proof.
    unfold std2. destruct (shape sv) as [[n1 n2] n3].
    destruct (std_arr sv); [split; [discriminate|intros (H & _); discriminate]|].
    destruct (nf_view (hset w) sv), (re_view (hset w) sv); split;
      try discriminate; try (intros (_ & H1 & H2); discriminate); auto.
  Qed.

  Lemma std2_explicit (w : world) (sv : survey) r i j k :
    std_arr sv = Some r ->
    i < length (src sv) -> j < length (rec sv) -> k < length (frq sv) ->
    exists c, std2 w sv = Some c /\
              cget c i j k = sq_real (cget (deref (hset w) r) i j k).
  Proof.
    intros E Hi Hj Hk. unfold std2, shape. rewrite E. eexists. split; [reflexivity|].
    now rewrite cget_ctab.
  Qed.

  Lemma std2_computed (w : world) (sv : survey) i j k :
    std_arr sv = None ->
    (nf_view (hset w) sv <> SNone \/ re_view (hset w) sv <> SNone) ->
    i < length (src sv) -> j < length (rec sv) -> k < length (frq sv) ->
    exists c, std2 w sv = Some c /\
              cget c i j k = std2_cell (sval_at (nf_view (hset w) sv) i j k)
                                       (sval_at (re_view (hset w) sv) i j k)
                                       (cget (deref (hdat w) (obs sv)) i j k).
  Proof.
    intros E Hs Hi Hj Hk. unfold std2, shape. rewrite E.
    destruct (nf_view (hset w) sv) eqn:En, (re_view (hset w) sv) eqn:Er;
      try (destruct Hs; congruence);
      (eexists; split; [reflexivity|]; now rewrite cget_ctab).
  Qed.

  (* ------------------------------------------------ selection *)
  Lemma pos_of_nth keys k n : pos_of keys k = Some n -> nth n keys 0%Z = k /\ n < length keys.
  Proof.
    revert n. induction keys as [|h t IH]; intros n; cbn; [discriminate|].
    destruct (Z.eqb_spec h k) as [->|Hne].
    - intros E. injection E as <-. split; [reflexivity|lia].
    - destruct (pos_of t k) as [m|]; [|discriminate]. intros E. injection E as <-.
      destruct (IH m eq_refl). split; [assumption|lia].
  Qed.

  Lemma map_opt_spec {A B} (f : A -> option B) l r :
    map_opt f l = Some r ->
    length r = length l /\ forall i a b, i < length l -> f (nth i l a) = Some (nth i r b).
  Proof.
    revert r. induction l as [|h t IH]; intros r; cbn.
    - intros E. injection E as <-. split; [reflexivity|]. intros; lia.
    - destruct (f h) as [x|] eqn:Eh; [|discriminate].
      destruct (map_opt f t) as [r'|]; [|discriminate]. intros E. injection E as <-.
      destruct (IH r' eq_refl) as (L & Hn). split; [cbn; lia|].
      intros [|i] a b Hi; cbn; [exact Eh|]. apply Hn. cbn in Hi. lia.
  Qed.

  (* an axis of a selection: the new keys, and for each new position the old
     position holding the same key *)
  Lemma sel_axis_spec keys s ks Is :
    sel_axis keys s = Some (ks, Is) ->
    length Is = length ks /\
    ks = match s with None => keys | Some l => l end /\
    forall i, i < length ks -> nth (nth i Is 0) keys 0%Z = nth i ks 0%Z /\ nth i Is 0 < length keys.
  Proof.
    unfold sel_axis. destruct s as [l|].
    - destruct (nodupb l); [|discriminate].
      destruct (map_opt (pos_of keys) l) as [ps|] eqn:Em; [|discriminate].
      intros E. injection E as <- <-. destruct (map_opt_spec _ _ _ Em) as (L & Hn).
      split; [exact L|]. split; [reflexivity|]. intros i Hi.
      apply pos_of_nth. apply Hn. exact Hi.
    - intros E. injection E as <- <-. rewrite seq_length. split; [reflexivity|].
      split; [reflexivity|]. intros i Hi. rewrite seq_nth by exact Hi. cbn. split; [reflexivity|lia].
  Qed.

  Theorem select_once_exact (w : world) (sv : survey) a b c w1 sv1 :
    refs_ok (length (hset w)) sv ->
    all_none a b c = false ->
    select_once w sv a b c = Some (w1, sv1) ->
    exists Is Js Ks,
      sel_axis (src sv) a = Some (src sv1, Is) /\
      sel_axis (rec sv) b = Some (rec sv1, Js) /\
      sel_axis (frq sv) c = Some (frq sv1, Ks) /\
      deref (hdat w1) (obs sv1) = sel3 (deref (hdat w) (obs sv)) Is Js Ks /\
      nf_attr sv1 = nf_attr sv /\ re_attr sv1 = re_attr sv /\
      deref_o (hset w1) (nf_arr sv1)
        = match nf_arr sv with Some _ => sel3 (deref_o (hset w) (nf_arr sv)) Is Js Ks | None => nil end /\
      deref_o (hset w1) (re_arr sv1)
        = match re_arr sv with Some _ => sel3 (deref_o (hset w) (re_arr sv)) Is Js Ks | None => nil end /\
      deref_o (hset w1) (std_arr sv1)
        = match std_arr sv with Some _ => sel3 (deref_o (hset w) (std_arr sv)) Is Js Ks | None => nil end /\
      (std_arr sv1 = None <-> std_arr sv = None).
  Proof.
    intros Hr Hn. unfold select_once.
    destruct (sel_axis (src sv) a) as [[ks Is]|]; [|discriminate].
    destruct (sel_axis (rec sv) b) as [[kr Js]|]; [|discriminate].
    destruct (sel_axis (frq sv) c) as [[kf Ks]|]; [|discriminate].
    rewrite Hn. intros E.
    pose proof (copy_survey_settings (fun c0 => sel3 c0 Is Js Ks) ks kr kf w sv Hr) as H.
    cbv zeta in H.
    destruct (copy_survey (fun c0 => sel3 c0 Is Js Ks) ks kr kf w sv) as [w' sv'].
    injection E as <- <-. cbn [fst snd] in H.
    destruct H as (A1 & A2 & A3 & A4 & A5 & A6 & A7 & A8 & A9 & A10).
    exists Is, Js, Ks. rewrite A8, A9, A10. repeat split; try assumption; apply A6.
  Qed.

  (* pointwise: entry (i,j,k) of the selection is the entry of the original
     that carries the same (source, receiver, frequency) keys *)
  Theorem select_once_pointwise (w : world) (sv : survey) a b c w1 sv1 i j k :
    refs_ok (length (hset w)) sv ->
    all_none a b c = false ->
    select_once w sv a b c = Some (w1, sv1) ->
    i < length (src sv1) -> j < length (rec sv1) -> k < length (frq sv1) ->
    exists i' j' k',
      (nth i' (src sv) 0%Z = nth i (src sv1) 0%Z /\ i' < length (src sv)) /\
      (nth j' (rec sv) 0%Z = nth j (rec sv1) 0%Z /\ j' < length (rec sv)) /\
      (nth k' (frq sv) 0%Z = nth k (frq sv1) 0%Z /\ k' < length (frq sv)) /\
      cget (deref (hdat w1) (obs sv1)) i j k = cget (deref (hdat w) (obs sv)) i' j' k' /\
      (forall r, nf_arr sv = Some r ->
         cget (deref_o (hset w1) (nf_arr sv1)) i j k = cget (deref (hset w) r) i' j' k') /\
      (forall r, re_arr sv = Some r ->
         cget (deref_o (hset w1) (re_arr sv1)) i j k = cget (deref (hset w) r) i' j' k') /\
      (forall r, std_arr sv = Some r ->
         cget (deref_o (hset w1) (std_arr sv1)) i j k = cget (deref (hset w) r) i' j' k').
  Proof.
    intros Hr Hn E Hi Hj Hk.
    destruct (select_once_exact _ _ _ _ _ _ _ Hr Hn E)
      as (Is & Js & Ks & S1 & S2 & S3 & D0 & _ & _ & D1 & D2 & D3 & _).
    destruct (sel_axis_spec _ _ _ _ S1) as (L1 & _ & P1).
    destruct (sel_axis_spec _ _ _ _ S2) as (L2 & _ & P2).
    destruct (sel_axis_spec _ _ _ _ S3) as (L3 & _ & P3).
    exists (nth i Is 0), (nth j Js 0), (nth k Ks 0).
    split; [apply P1; exact Hi|]. split; [apply P2; exact Hj|]. split; [apply P3; exact Hk|].
    assert (Hi' : i < length Is) by lia. assert (Hj' : j < length Js) by lia.
    assert (Hk' : k < length Ks) by lia.
    split; [rewrite D0; now apply cget_sel3|].
    split; [|split]; intros r Er.
    - rewrite D1, Er. cbn [deref_o]. now apply cget_sel3.
    - rewrite D2, Er. cbn [deref_o]. now apply cget_sel3.
    - rewrite D3, Er. cbn [deref_o]. now apply cget_sel3.
  Qed.

  (* a copy (copy(), save+load) has the same settings, by value *)
  Theorem dict_copy_settings s k (w : world) sv :
    wf w -> nth_error (svs w) s = Some sv ->
    settings_at (fst (dict s k w)) (length (svs w)) = settings_at w s.
  Proof.
    intros Hw Hs. unfold dict. rewrite Hs.
    pose proof (wf_nth _ _ _ Hw Hs) as Hr.
    destruct (Z.eqb k 0).
    - cbn [fst]. unfold settings_at, set_svs. cbn [svs hset].
      now rewrite nth_error_app_new, Hs.
    - pose proof (copy_survey_settings (fun c => c) (src sv) (rec sv) (frq sv) w sv Hr) as H.
      pose proof (copy_survey_ext (fun c => c) (src sv) (rec sv) (frq sv) w sv) as (e & _ & E2 & _).
      cbv zeta in H.
      destruct (copy_survey (fun c => c) (src sv) (rec sv) (frq sv) w sv) as [w1 sv1].
      cbn [fst snd] in *. destruct H as (A1 & A2 & A3 & A4 & A5 & A6 & _).
      unfold settings_at, set_svs. cbn [svs hset]. rewrite E2, nth_error_app_new, Hs.
      f_equal. unfold settings, nf_view, re_view, std_view, view. rewrite A1, A2.
      destruct Hr as (R1 & R2 & R3).
      f_equal; [f_equal|].
      + destruct (nf_attr sv); try reflexivity. rewrite A3. destruct (nf_arr sv); reflexivity.
      + destruct (re_attr sv); try reflexivity. rewrite A4. destruct (re_arr sv); reflexivity.
      + destruct (std_arr sv1) as [r1|] eqn:E1, (std_arr sv) as [r|] eqn:E; cbn in A5.
        * now rewrite <- A5.
        * destruct A6 as [_ A6]. specialize (A6 eq_refl). discriminate.
        * destruct A6 as [A6 _]. specialize (A6 eq_refl). discriminate.
        * reflexivity.
  Qed.

  (* ------------------------------------------------ add_noise cuts *)
  Lemma amp_threshold_repaired hs (sv : survey) :
    snd (amp_threshold false hs sv MHalfNf)
    = match nf_view hs sv with
      | SNone => SNone
      | SScal q => SScal (q / (1 + 1))%F
      | SCube c => SCube (cmap halve c)
      end.
  Proof. unfold amp_threshold, nf_view, view. destruct (nf_attr sv); reflexivity. Qed.

  Lemma deref_upd_same (h : list cube) r x : r < length h -> deref (upd_nth r x h) r = x.
  Proof.
    intros H. unfold deref. pose proof (nth_error_upd_same r x h H) as E.
    apply nth_error_nth with (d := nil) in E. exact E.
  Qed.

  (* add_noise to the observed data: every entry selected by the amplitude or
     offset cut is NaN afterwards *)
  Theorem add_noise_cut_is_nan s p noise (w : world) sv i j k :
    nth_error (svs w) s = Some sv -> a_to p = TObs -> obs sv < length (hdat w) ->
    i < length (src sv) -> j < length (rec sv) -> k < length (frq sv) ->
    cut_mask ltb off2 p (snd (amp_threshold false (hset w) sv (a_minamp p)))
             (deref (hdat w) (obs sv)) sv i j k = true ->
    cget (deref (hdat (fst (add_noise ltb off2 false s p noise w))) (obs sv)) i j k = NaN.
  Proof.
    intros Hs Ht Ho Hi Hj Hk Hc. unfold add_noise. rewrite Hs, Ht. unfold shape.
    destruct (amp_threshold false (hset w) sv (a_minamp p)) as [hs1 thr]. cbn [snd] in Hc.
    match goal with |- context [std2 ?w2 sv] => destruct (std2 w2 sv) as [sd|] end;
      cbn [fst hdat].
    - rewrite deref_upd_same by (rewrite upd_nth_length; exact Ho).
      rewrite cget_ctab by assumption. rewrite cget_ctab by assumption.
      rewrite Hc. destruct (cget sd i j k); reflexivity.
    - rewrite deref_upd_same by exact Ho. rewrite cget_ctab by assumption. now rewrite Hc.
  Qed.

  (* ... and every other entry is left alone when no standard deviation is defined *)
  Theorem add_noise_uncut_unchanged s p noise (w : world) sv i j k :
    nth_error (svs w) s = Some sv -> a_to p = TObs -> obs sv < length (hdat w) ->
    i < length (src sv) -> j < length (rec sv) -> k < length (frq sv) ->
    std_arr sv = None -> nf_attr sv = ANone -> re_attr sv = ANone ->
    cut_mask ltb off2 p (snd (amp_threshold false (hset w) sv (a_minamp p)))
             (deref (hdat w) (obs sv)) sv i j k = false ->
    cget (deref (hdat (fst (add_noise ltb off2 false s p noise w))) (obs sv)) i j k
    = cget (deref (hdat w) (obs sv)) i j k.
  Proof.
    intros Hs Ht Ho Hi Hj Hk E1 E2 E3 Hc. unfold add_noise. rewrite Hs, Ht. unfold shape.
    destruct (amp_threshold false (hset w) sv (a_minamp p)) as [hs1 thr]. cbn [snd] in Hc.
    unfold std2, shape, nf_view, re_view, view. rewrite E1, E2, E3. cbn [fst hdat].
    rewrite deref_upd_same by exact Ho. rewrite cget_ctab by assumption. now rewrite Hc.
  Qed.
End Proofs.

(* ------------------------------------------------------- field-dependent *)
Section FieldProofs.
  Context {F : Type} {FO : FOps F}.
  Hypothesis Fth : field_theory F0 F1 Fadd Fmul Fsub Fopp Fdiv Finv (@eq F).
  Add Field FfSM : Fth.
  Local Open Scope F_scope.

  (* documented formula, without a square root: for every m with m^2 = |d|^2 *)
  Lemma std2_cell_formula (n x r y a b m : F) :
    m * m = a * a + b * b ->
    std2_cell (Some (V n x)) (Some (V r y)) (V a b) = V (n * n + (r * m) * (r * m)) 0.
  Proof.
    intros Hm. cbn. f_equal; [|ring].
    transitivity (n * n + r * r * (m * m)); [rewrite Hm|]; ring.
  Qed.
  Lemma std2_cell_nf_only (n x : F) (o : @cell F) :
    std2_cell (Some (V n x)) None o = V (n * n) 0.
  Proof. cbn. f_equal; ring. Qed.
  Lemma std2_cell_re_only (r y a b m : F) :
    m * m = a * a + b * b ->
    std2_cell None (Some (V r y)) (V a b) = V ((r * m) * (r * m)) 0.
  Proof.
    intros Hm. cbn. f_equal; [|ring].
    transitivity (r * r * (m * m)); [rewrite Hm|]; ring.
  Qed.
  Lemma std2_cell_nan_obs (nf : option (@cell F)) (r : @cell F) :
    std2_cell nf (Some r) NaN = NaN.
  Proof. unfold std2_cell. destruct nf as [[|n x]|], r; reflexivity. Qed.

  (* --- misfit *)
  Definition fsum (l : list F) : F := fold_right Fadd 0 l.
  Definition finite_terms (l : list (option F)) : list F :=
    flat_map (fun t => match t with Some x => [x] | None => [] end) l.

  Lemma osum_finite l : osum l = fsum (finite_terms l).
  Proof.
    unfold osum, fsum, finite_terms.
    induction l as [|[x|] t IH]; cbn; [reflexivity| |exact IH]. now rewrite IH.
  Qed.

  Lemma osum_perm l l' : Permutation l l' -> osum l = osum l'.
  Proof.
    unfold osum.
    induction 1 as [|x l l' _ IH|x y l|l l' l'' _ IH1 _ IH2]; cbn.
    - reflexivity.
    - destruct x; now rewrite IH.
    - destruct x, y; try reflexivity. ring.
    - congruence.
  Qed.

  Lemma misfit_of_perm l l' : Permutation l l' -> misfit_of l = misfit_of l'.
  Proof. intros H. unfold misfit_of. now rewrite (osum_perm _ _ H). Qed.

  Lemma flat_map_perm_ext {A B} (f g : A -> list B) l :
    (forall x, Permutation (f x) (g x)) -> Permutation (flat_map f l) (flat_map g l).
  Proof.
    intros H. induction l as [|h t IH]; cbn; [constructor|]. now apply Permutation_app.
  Qed.

  Lemma terms_idx_perm (ob sy sd : @cube F) Is Is' Js Js' Ks Ks' :
    Permutation Is Is' -> Permutation Js Js' -> Permutation Ks Ks' ->
    Permutation (terms_idx ob sy sd Is Js Ks) (terms_idx ob sy sd Is' Js' Ks').
  Proof.
    intros HI HJ HK. unfold terms_idx.
    eapply Permutation_trans; [apply Permutation_flat_map; exact HI|].
    apply flat_map_perm_ext. intros i.
    eapply Permutation_trans; [apply Permutation_flat_map; exact HJ|].
    apply flat_map_perm_ext. intros j. now apply Permutation_map.
  Qed.

  Lemma term_spec (a b c d v x : F) :
    term (V a b) (V c d) (V v x) = Some (((c - a) * (c - a) + (d - b) * (d - b)) / v).
  Proof. reflexivity. Qed.
  Lemma term_nan_obs (s sd : @cell F) : term NaN s sd = None.
  Proof. reflexivity. Qed.
End FieldProofs.

(* --------------------------------------------- concrete instances (Q, Qc) *)
From Coq Require Import QArith Qcanon.
From V Require Import Base.ExecQ Model.SurveyMachineExec.

Section Witnesses.
  Local Open Scope Q_scope.
  (* one source, two receivers, one frequency; noise floor stored as an array
     [1, 2] (per receiver), observed data 3+4i and 1/4 *)
  Definition ex_nf : qcube := [[[V 1 0]; [V 2 0]]].
  Definition ex_obs : qcube := [[[V 3 4]; [V (1 # 4) 0]]].
  Definition ex_sv : @survey Q :=
    mkS [1%Z] [1%Z; 2%Z] [1%Z] 0 [] AData ANone (Some 0%nat) None None.
  Definition ex_w : qworld := mkW [ex_nf] [ex_obs] [ex_sv].
  Definition ex_off (_ _ : Z) : Q := 0.
  Definition ex_noise : qcube := [[[V (1 # 2) (1 # 2)]; [V 0 1]]].
  Definition ex_an (s : nat) : @op Q := OAddNoise s (mkP 0 None MHalfNf TObs) ex_noise.

  Lemma ex_w_wf : wf ex_w.
  Proof. unfold wf, ex_w. cbn. repeat constructor. Qed.

  (* unrepaired add_noise (inplace = true): ONE call on a survey with an
     array-valued noise floor changes the noise floor *)
  Lemma frame_refuted_direct :
    settings_at (run qltb ex_off true [ex_an 0] ex_w) 0 <> settings_at ex_w 0.
  Proof. vm_compute. discriminate. Qed.

  (* ... and through a shared selection it changes the PARENT's noise floor *)
  Lemma frame_refuted_parent :
    settings_at (run qltb ex_off true [OSelect 0 None None None false; ex_an 1] ex_w) 0
    <> settings_at ex_w 0.
  Proof. vm_compute. discriminate. Qed.

  Lemma frame_refuted :
    exists (ops : list (@op Q)) (w : qworld) (i : nat),
      wf w /\ (i < length (svs w))%nat /\
      (forall o, In o ops -> is_setter_on i o = false) /\
      settings_at (run qltb ex_off true ops w) i <> settings_at w i.
  Proof.
    exists [ex_an 0], ex_w, 0%nat. split; [exact ex_w_wf|]. split; [cbn; lia|].
    split; [|exact frame_refuted_direct].
    intros o [<-|[]]. reflexivity.
  Qed.

  (* the halved values, explicitly *)
  Lemma frame_refuted_values :
    settings_at (run qltb ex_off true [ex_an 0; ex_an 0] ex_w) 0
    = Some (SCube [[[V (1 # 4) 0]; [V (1 # 2) 0]]], SNone, None).
  Proof. vm_compute. reflexivity. Qed.

  (* non-vacuity of the frame theorem: a history with add_noise, a shared
     selection, noise on the selection, a copy, and a setter on ANOTHER survey *)
  Definition ex_ops : list (@op Q) :=
    [ex_an 0; OSelect 0 None None None false; ex_an 1; ODict 0 1%Z;
     OSetNf 1 (IScal (7 # 1)); OSelect 0 (Some [1%Z]) (Some [2%Z; 1%Z]) None true; ex_an 3].
  Lemma ex_ops_no_setter : forall o, In o ex_ops -> is_setter_on 0 o = false.
  Proof. intros o H. cbn in H. repeat (destruct H as [<-|H]; [reflexivity|]). destruct H. Qed.
  Lemma ex_ops_frame :
    settings_at (run qltb ex_off false ex_ops ex_w) 0 = Some (SCube ex_nf, SNone, None)
    /\ length (svs (run qltb ex_off false ex_ops ex_w)) = 4%nat.
  Proof. vm_compute. split; reflexivity. Qed.

  (* the amplitude cut of the repaired code on the example: |1/4| < 2/2 is cut *)
  Lemma ex_cut :
    d_cube (deref (hdat (run qltb ex_off false [ex_an 0] ex_w)) 0)
    = [[[Some ((7%Z, 2%Z), (9%Z, 2%Z))]; [None]]].
  Proof. vm_compute. reflexivity. Qed.
End Witnesses.


  #[global] Instance QcOps : FOps Qc := {
    F0 := 0%Qc; F1 := 1%Qc; Fadd := Qcplus; Fmul := Qcmult; Fsub := Qcminus;
    Fopp := Qcopp; Fdiv := Qcdiv; Finv := Qcinv }.
  Local Open Scope F_scope.
  Definition c2 : Qc := 1 + 1.
  Definition c3 : Qc := 1 + 1 + 1.
  Definition c4 : Qc := c2 * c2.
  Definition c5 : Qc := c4 + 1.
  (* nf = 1, re = 2, d = 3 + 4i, |d| = 5:  std^2 = 1 + (2*5)^2 *)
  Lemma std_formula_instance :
    std2_cell (Some (V 1 0)) (Some (V c2 0)) (V c3 c4) = V (1 * 1 + (c2 * c5) * (c2 * c5)) 0.
  Proof.
    apply (@std2_cell_formula Qc QcOps Qcft). unfold c5, c4, c3, c2. cbn. ring.
  Qed.
  Lemma misfit_perm_instance (x y z : Qc) :
    misfit_of [Some x; None; Some y; Some z] = misfit_of [Some z; Some y; None; Some x].
  Proof.
    apply (@misfit_of_perm Qc QcOps Qcft).
    exact (Permutation_rev [Some x; None; Some y; Some z]).
  Qed.

