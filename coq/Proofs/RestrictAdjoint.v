(* Proofs/RestrictAdjoint.v -- C04: the residual restriction is the TRANSPOSE of
   the field prolongation as a summed (inner-product) identity over all interior
   edges:   <R r, g>_coarse = <r, P g>_fine   for every fine residual r and
   every coarse field g with vanishing tangential boundary values, for all
   seven coarsening patterns, all shapes and all (stretched) meshes.

   Built from (1) 1-D adjoint pairs (S1 / prolong1 across the edge direction,
   E1 / copy-to-children along it), (2) a generic three-fold tensor lemma. *)
From Coq Require Import ZArith Lia Bool Field.
From V Require Import Base.Loops Base.Arr Base.FieldSig Base.Tactics.
From V Require Import Gen.SolverHelpers Model.Interp Model.Prolong Proofs.InterpSums.
Local Open Scope Z_scope.

Section Adjoint.
  Context {F : Type} {O : FOps F}.
  Hypothesis Fth : field_theory F0 F1 Fadd Fmul Fsub Fopp Fdiv Finv (@eq F).
  Add Field Fra : Fth.

  (* ------------------------------------------------------------ helpers *)
  (* sum over 1 <= j < 2N, split into even and odd indices *)
  Lemma Zsum_even_odd (f : Z -> F) N : 1 <= N ->
    Zsum 1 (2*N) f
    = (Zsum 1 N (fun m => f (2*m)%Z) + Zsum 0 N (fun m => f (2*m+1)%Z))%F.
  Proof.
    revert N. apply Zsum_nat_ind.
    - change (2*1) with 2.
      rewrite (Zsum_first Fth 1 2) by lia. rewrite (Zsum_empty (1+1) 2) by lia.
      rewrite (Zsum_empty 1 1) by lia.
      rewrite (Zsum_first Fth 0 1) by lia. rewrite (Zsum_empty (0+1) 1) by lia.
      change (2*0+1) with 1. ring.
    - intros N HN IH.
      replace (2*(N+1)) with (2*N+1+1) by lia.
      rewrite !Zsum_snoc by lia. rewrite IH.
      replace (2*N+1) with (2*N+1) by lia. ring.
  Qed.

  Lemma Zsum_last lo hi (f : Z -> F) : lo < hi ->
    Zsum lo hi f = (Zsum lo (hi - 1) f + f (hi - 1)%Z)%F.
  Proof.
    intros H. replace hi with (hi - 1 + 1) at 1 by lia. apply Zsum_snoc. lia.
  Qed.

  (* sum over 0 <= i < 2N in pairs *)
  Lemma Zsum_pairs (f : Z -> F) N : 0 <= N ->
    Zsum 0 (2*N) f = Zsum 0 N (fun m => (f (2*m)%Z + f (2*m+1)%Z)%F).
  Proof.
    revert N. apply Zsum_nat_ind.
    - rewrite !Zsum_empty by lia. reflexivity.
    - intros N HN IH.
      replace (2*(N+1)) with (2*N+1+1) by lia.
      rewrite !Zsum_snoc by lia. rewrite IH. ring.
  Qed.

  (* coarse function with its two boundary nodes zeroed *)
  Definition zb (cn : Z) (g : Z -> F) (I : Z) : F :=
    if ((1 <=? I) && (I <? cn - 1))%bool then g I else 0%F.

  Lemma zb_in cn g I : 1 <= I < cn - 1 -> zb cn g I = g I.
  Proof. intros H. unfold zb. zb_true (1 <=? I). zb_true (I <? cn - 1). reflexivity. Qed.
  Lemma zb_lo cn g : zb cn g 0 = 0%F.
  Proof. reflexivity. Qed.
  Lemma zb_hi cn g : zb cn g (cn - 1) = 0%F.
  Proof. unfold zb. zb_false (cn - 1 <? cn - 1). now rewrite andb_false_r. Qed.

  (* ------------------------------------------- 1-D pair ACROSS the edge *)
  (* cn coarse nodes; n fine nodes (n = 2 cn - 1 when coarsened, n = cn else);
     the weights are the transposed interpolation weights on interior nodes *)
  Section Across.
    Variables (c : bool) (w : (Z -> F) * (Z -> F) * (Z -> F)) (x : Z -> F) (cn n : Z).
    Hypothesis Hcn : 2 <= cn.
    Hypothesis Hn : n = if c then 2*cn - 1 else cn.
    Hypothesis Wt : c = true -> forall I j, 1 <= I < cn - 1 -> R1 w I j = P1 x j I.

    Lemma Wt0 I : c = true -> 1 <= I < cn - 1 -> w0 w I = 1%F.
    Proof.
      intros Hc HI. pose proof (Wt Hc I (2*I) HI) as E. unfold R1, P1 in E.
      rewrite Z.eqb_refl in E. exact E.
    Qed.
    Lemma Wtl I : c = true -> 1 <= I < cn - 1 -> wl w I = P1 x (2*I-1) I.
    Proof.
      intros Hc HI. pose proof (Wt Hc I (2*I-1) HI) as E. unfold R1 in E.
      replace (2*I-1 =? 2*I) with false in E by (symmetry; lia). rewrite Z.eqb_refl in E. exact E.
    Qed.
    Lemma Wtr I : c = true -> 1 <= I < cn - 1 -> wr w I = P1 x (2*I+1) I.
    Proof.
      intros Hc HI. pose proof (Wt Hc I (2*I+1) HI) as E. unfold R1 in E.
      replace (2*I+1 =? 2*I) with false in E by (symmetry; lia).
      replace (2*I+1 =? 2*I-1) with false in E by (symmetry; lia). rewrite Z.eqb_refl in E. exact E.
    Qed.

    Theorem across_adjoint (f g : Z -> F) :
      Zsum 1 (cn - 1) (fun I => (S1 c w n f I * g I)%F)
      = Zsum 1 (n - 1) (fun j => (f j * prolong1 c x (zb cn g) j)%F).
    Proof.
      pose proof Hn as Hn'.
      destruct (Bool.bool_dec c true) as [Ec|Ec].
      - (* coarsened *)
        rewrite Ec in Hn'. rewrite Ec.
        rewrite Hn'. replace (2*cn - 1 - 1) with (2*(cn-1)) by lia.
        rewrite Zsum_even_odd by lia.
        (* even fine nodes *)
        rewrite (Zsum_ext 1 (cn-1) (fun m => (f (2*m)%Z * prolong1 true x (zb cn g) (2*m)%Z)%F)
                   (fun m => (f (2*m)%Z * g m)%F)).
        2:{ intros m Hm. unfold prolong1.
            replace (Z.even (2*m)) with true by (symmetry; rewrite Z.even_mul; reflexivity).
            replace (2*m/2) with m by (Z.div_mod_to_equations; lia).
            rewrite zb_in by lia. reflexivity. }
        (* odd fine nodes: two coarse neighbours *)
        rewrite (Zsum_ext 0 (cn-1)
                   (fun m => (f (2*m+1)%Z * prolong1 true x (zb cn g) (2*m+1)%Z)%F)
                   (fun m => (f (2*m+1)%Z * P1 x (2*m+1) m * zb cn g m
                              + f (2*m+1)%Z * P1 x (2*m+1) (m+1) * zb cn g (m+1)%Z)%F)).
        2:{ intros m Hm. unfold prolong1.
            replace (Z.even (2*m+1)) with false
              by (symmetry; rewrite Z.even_add, Z.even_mul; reflexivity).
            replace ((2*m+1-1)/2) with m by (Z.div_mod_to_equations; lia).
            replace ((2*m+1+1)/2) with (m+1) by (Z.div_mod_to_equations; lia).
            ring. }
        rewrite (Zsum_add Fth).
        (* first odd part: coarse node m; m = 0 contributes nothing *)
        assert (P1_ : Zsum 0 (cn-1) (fun m => (f (2*m+1)%Z * P1 x (2*m+1) m * zb cn g m)%F)
                      = Zsum 1 (cn-1) (fun I => (f (2*I+1)%Z * P1 x (2*I+1) I * g I)%F)).
        { rewrite (Zsum_first Fth 0 (cn-1)) by lia. rewrite zb_lo. change (0+1) with 1.
          rewrite (Zsum_ext 1 (cn-1) _ (fun I => (f (2*I+1)%Z * P1 x (2*I+1) I * g I)%F)).
          - ring.
          - intros I HI. rewrite zb_in by lia. reflexivity. }
        (* second odd part: coarse node I = m+1; I = cn-1 contributes nothing *)
        assert (P2_ : Zsum 0 (cn-1) (fun m => (f (2*m+1)%Z * P1 x (2*m+1) (m+1) * zb cn g (m+1)%Z)%F)
                      = Zsum 1 (cn-1) (fun I => (f (2*I-1)%Z * P1 x (2*I-1) I * g I)%F)).
        { transitivity (Zsum 1 cn (fun I => (f (2*I-1)%Z * P1 x (2*I-1) I * zb cn g I)%F)).
          - pose (h' := fun I => (f (2*I-1)%Z * P1 x (2*I-1) I * zb cn g I)%F).
            change (Zsum 1 cn (fun I => (f (2*I-1)%Z * P1 x (2*I-1) I * zb cn g I)%F))
              with (Zsum 1 cn h').
            rewrite (Zsum_ext 0 (cn-1) _ (fun m => h' (m+1))).
            + rewrite (Zsum_shift 0 (cn-1) 1 h').
              replace (0+1) with 1 by lia. replace (cn-1+1) with cn by lia. reflexivity.
            + intros m Hm. unfold h'. replace (2*(m+1)-1) with (2*m+1) by lia. reflexivity.
          - rewrite (Zsum_last 1 cn) by lia. rewrite zb_hi.
            rewrite (Zsum_ext 1 (cn-1) _ (fun I => (f (2*I-1)%Z * P1 x (2*I-1) I * g I)%F)).
            + ring.
            + intros I HI. rewrite zb_in by lia. reflexivity. }
        rewrite P1_, P2_. rewrite <- !(Zsum_add Fth).
        apply Zsum_ext. intros I HI. unfold S1.
        rewrite Wt0, Wtl, Wtr by (assumption || lia).
        rewrite Z.max_r by lia. rewrite Z.min_r by lia. ring.
      - (* not coarsened: identity on both sides *)
        apply Bool.not_true_is_false in Ec. rewrite Ec in Hn'. rewrite Ec.
        rewrite Hn'. apply Zsum_ext. intros I HI. unfold S1, prolong1.
        rewrite zb_in by lia. ring.
    Qed.
  End Across.

  (* -------------------------------------------- 1-D pair ALONG the edge *)
  (* cn coarse nodes = cn - 1 coarse cells; n fine nodes = n - 1 fine cells *)
  Section Along.
    Variables (c : bool) (cn n : Z).
    Hypothesis Hcn : 2 <= cn.
    Hypothesis Hn : n = if c then 2*cn - 1 else cn.

    Theorem along_adjoint (f g : Z -> F) :
      Zsum 0 (cn - 1) (fun I => (E1 c n f I * g I)%F)
      = Zsum 0 (n - 1) (fun i => (f i * g (cidx c i))%F).
    Proof.
      pose proof Hn as Hn'.
      destruct (Bool.bool_dec c true) as [Ec|Ec].
      - rewrite Ec in Hn'. rewrite Ec.
        rewrite Hn'. replace (2*cn - 1 - 1) with (2*(cn-1)) by lia.
        rewrite Zsum_pairs by lia. apply Zsum_ext. intros I HI.
        unfold E1, cidx. rewrite Z.min_r by lia.
        replace (2*I/2) with I by (Z.div_mod_to_equations; lia).
        replace ((2*I+1)/2) with I by (Z.div_mod_to_equations; lia).
        ring.
      - apply Bool.not_true_is_false in Ec. rewrite Ec in Hn'. rewrite Ec.
        rewrite Hn'. apply Zsum_ext. intros I HI. unfold E1, cidx. reflexivity.
    Qed.
  End Along.

  (* ------------------------------------------------ three-fold tensor *)
  (* nest "outer / middle / inner":  T O M N = Ao (fun o => Am (fun m => An (fun n => r o m n) N) M) O *)
  Section Tensor3.
    Variables (Ao Am An Bo Bm Bn : (Z -> F) -> Z -> F).
    Variables (col coh cml cmh cnl cnh fol foh fml fmh fnl fnh : Z).
    Hypothesis Ho : forall f g, Zsum col coh (fun I => (Ao f I * g I)%F) = Zsum fol foh (fun i => (f i * Bo g i)%F).
    Hypothesis Hm : forall f g, Zsum cml cmh (fun I => (Am f I * g I)%F) = Zsum fml fmh (fun i => (f i * Bm g i)%F).
    Hypothesis Hn : forall f g, Zsum cnl cnh (fun I => (An f I * g I)%F) = Zsum fnl fnh (fun i => (f i * Bn g i)%F).

    Theorem tensor_adjoint (r g : Z -> Z -> Z -> F) :
      Zsum col coh (fun O_ => Zsum cml cmh (fun M => Zsum cnl cnh (fun N =>
        (Ao (fun o => Am (fun m => An (fun n => r o m n) N) M) O_ * g O_ M N)%F)))
      = Zsum fol foh (fun o => Zsum fml fmh (fun m => Zsum fnl fnh (fun n =>
        (r o m n * Bn (fun N => Bm (fun M => Bo (fun O_ => g O_ M N) o) m) n)%F))).
    Proof.
      (* bring the outer coarse sum inside and transpose it *)
      rewrite (Zsum_swap Fth col coh cml cmh).
      rewrite (Zsum_ext cml cmh _
                 (fun M => Zsum cnl cnh (fun N => Zsum col coh (fun O_ =>
                    (Ao (fun o => Am (fun m => An (fun n => r o m n) N) M) O_ * g O_ M N)%F)))).
      2:{ intros M _. apply (Zsum_swap Fth). }
      rewrite (Zsum_ext cml cmh _
                 (fun M => Zsum cnl cnh (fun N => Zsum fol foh (fun o =>
                    (Am (fun m => An (fun n => r o m n) N) M * Bo (fun O_ => g O_ M N) o)%F)))).
      2:{ intros M _. apply Zsum_ext. intros N _.
          exact (Ho (fun o => Am (fun m => An (fun n => r o m n) N) M) (fun O_ => g O_ M N)). }
      (* middle *)
      rewrite (Zsum_swap Fth cml cmh cnl cnh).
      rewrite (Zsum_ext cnl cnh _
                 (fun N => Zsum fol foh (fun o => Zsum cml cmh (fun M =>
                    (Am (fun m => An (fun n => r o m n) N) M * Bo (fun O_ => g O_ M N) o)%F)))).
      2:{ intros N _. apply (Zsum_swap Fth). }
      rewrite (Zsum_ext cnl cnh _
                 (fun N => Zsum fol foh (fun o => Zsum fml fmh (fun m =>
                    (An (fun n => r o m n) N * Bm (fun M => Bo (fun O_ => g O_ M N) o) m)%F)))).
      2:{ intros N _. apply Zsum_ext. intros o _.
          exact (Hm (fun m => An (fun n => r o m n) N) (fun M => Bo (fun O_ => g O_ M N) o)). }
      (* inner *)
      rewrite (Zsum_swap Fth cnl cnh fol foh).
      apply Zsum_ext. intros o _.
      rewrite (Zsum_swap Fth cnl cnh fml fmh).
      apply Zsum_ext. intros m _.
      exact (Hn (fun n => r o m n) (fun N => Bm (fun M => Bo (fun O_ => g O_ M N) o) m)).
    Qed.
  End Tensor3.

  (* prolong1 respects pointwise equality and commutes with itself in another direction *)
  Lemma prolong1_ext c x (f g : Z -> F) j :
    (forall I, f I = g I) -> prolong1 c x f j = prolong1 c x g j.
  Proof. intros E. unfold prolong1. destruct c; [destruct (Z.even j)|]; now rewrite ?E. Qed.

  Lemma prolong1_comm c1 x1 c2 x2 (G : Z -> Z -> F) j k :
    prolong1 c1 x1 (fun J => prolong1 c2 x2 (fun K => G J K) k) j
    = prolong1 c2 x2 (fun K => prolong1 c1 x1 (fun J => G J K) j) k.
  Proof.
    unfold prolong1. destruct c1, c2; try reflexivity;
      destruct (Z.even j); destruct (Z.even k); try reflexivity; ring.
  Qed.
End Adjoint.

(* ------------------------------------------------------------------ 3-D *)
Section Adjoint3D.
  Context {F : Type} {O : FOps F}.
  Hypothesis Fth : field_theory F0 F1 Fadd Fmul Fsub Fopp Fdiv Finv (@eq F).
  Add Field Fra3 : Fth.

  Variable scd : Z.
  Variables cnx cny cnz nx ny nz : Z.          (* coarse / fine node counts *)
  Variables wx wy wz : (Z -> F) * (Z -> F) * (Z -> F).
  Variables xn yn zn : Z -> F.                 (* fine node coordinates *)
  Hypothesis Hcx : 2 <= cnx.
  Hypothesis Hcy : 2 <= cny.
  Hypothesis Hcz : 2 <= cnz.
  Hypothesis Hnx : nx = if coars scd 0 then 2*cnx - 1 else cnx.
  Hypothesis Hny : ny = if coars scd 1 then 2*cny - 1 else cny.
  Hypothesis Hnz : nz = if coars scd 2 then 2*cnz - 1 else cnz.
  (* in every coarsened direction the restriction weights are the transposed
     interpolation weights (conclusion of Proofs/Prolong.v: transpose1d) *)
  Hypothesis Wx : coars scd 0 = true -> forall I j, 1 <= I < cnx - 1 -> R1 wx I j = P1 xn j I.
  Hypothesis Wy : coars scd 1 = true -> forall I j, 1 <= I < cny - 1 -> R1 wy I j = P1 yn j I.
  Hypothesis Wz : coars scd 2 = true -> forall I j, 1 <= I < cnz - 1 -> R1 wz I j = P1 zn j I.

  Lemma Zsum_rot (l1 h1 l2 h2 l3 h3 : Z) (f : Z -> Z -> Z -> F) :
    Zsum l1 h1 (fun a => Zsum l2 h2 (fun b => Zsum l3 h3 (fun c => f a b c)))
    = Zsum l2 h2 (fun b => Zsum l3 h3 (fun c => Zsum l1 h1 (fun a => f a b c))).
  Proof.
    rewrite (Zsum_swap Fth l1 h1 l2 h2). apply Zsum_ext. intros b _.
    apply (Zsum_swap Fth l1 h1 l3 h3).
  Qed.

  Lemma prolong1_zero c x (f : Z -> F) j : (forall I, f I = 0%F) -> prolong1 c x f j = 0%F.
  Proof. intros E. unfold prolong1. destruct c; [destruct (Z.even j)|]; rewrite ?E; ring. Qed.

  Lemma zb_id cn (g : Z -> F) : (forall I, (I <= 0 \/ cn - 1 <= I) -> g I = 0%F) ->
    forall I, zb cn g I = g I.
  Proof.
    intros H I. unfold zb.
    destruct (Z.leb_spec 1 I); destruct (Z.ltb_spec I (cn-1)); cbn [andb];
      try reflexivity; symmetry; apply H; lia.
  Qed.

  (* x-edges: cell index I, transverse nodes J, K *)
  Theorem restrict_x_adjoint (rx g : Z -> Z -> Z -> F) :
    (forall I J K, (J <= 0 \/ cny - 1 <= J \/ K <= 0 \/ cnz - 1 <= K) -> g I J K = 0%F) ->
    Zsum 0 (cnx - 1) (fun I => Zsum 1 (cny - 1) (fun J => Zsum 1 (cnz - 1) (fun K =>
      (Rx_spec scd nx ny nz wy wz rx I J K * g I J K)%F)))
    = Zsum 0 (nx - 1) (fun i => Zsum 1 (ny - 1) (fun j => Zsum 1 (nz - 1) (fun k =>
      (rx i j k * prolong_x scd yn zn nx ny nz g (fun _ _ _ => 0%F) i j k)%F))).
  Proof.
    intros PEC.
    rewrite (Zsum_rot 0 (cnx-1) 1 (cny-1) 1 (cnz-1)).
    rewrite (Zsum_rot 0 (nx-1) 1 (ny-1) 1 (nz-1)).
    pose proof (tensor_adjoint Fth
      (S1 (coars scd 1) wy ny) (S1 (coars scd 2) wz nz) (E1 (coars scd 0) nx)
      (fun g' => prolong1 (coars scd 1) yn (zb cny g'))
      (fun g' => prolong1 (coars scd 2) zn (zb cnz g'))
      (fun g' i => g' (cidx (coars scd 0) i))
      1 (cny-1) 1 (cnz-1) 0 (cnx-1) 1 (ny-1) 1 (nz-1) 0 (nx-1)
      (across_adjoint Fth (coars scd 1) wy yn cny ny Hcy Hny Wy)
      (across_adjoint Fth (coars scd 2) wz zn cnz nz Hcz Hnz Wz)
      (along_adjoint Fth (coars scd 0) cnx nx Hcx Hnx)
      (fun j k i => rx i j k) (fun J K I => g I J K)) as T.
    cbv beta in T. unfold Rx_spec. rewrite T. clear T.
    apply Zsum_ext. intros j Hj. apply Zsum_ext. intros k Hk. apply Zsum_ext. intros i Hi.
    f_equal. unfold prolong_x.
    zb_true (0 <=? i). zb_true (i <? nx - 1). zb_true (1 <=? j). zb_true (j <? ny - 1).
    zb_true (1 <=? k). zb_true (k <? nz - 1). cbn [andb].
    rewrite (prolong1_comm Fth).
    transitivity (prolong1 (coars scd 2) zn
                    (fun K => prolong1 (coars scd 1) yn (fun J => g (cidx (coars scd 0) i) J K) j) k);
      [|ring].
    transitivity (prolong1 (coars scd 2) zn
                    (fun K => prolong1 (coars scd 1) yn
                                (zb cny (fun J => g (cidx (coars scd 0) i) J K)) j) k).
    - apply prolong1_ext. apply zb_id. intros K HK.
      apply prolong1_zero. intros J. unfold zb.
      destruct ((1 <=? J) && (J <? cny - 1))%bool; [|reflexivity]. apply PEC. lia.
    - apply prolong1_ext. intros K. apply prolong1_ext. apply zb_id. intros J HJ. apply PEC. lia.
  Qed.
  Lemma Zsum_swap23 (l1 h1 l2 h2 l3 h3 : Z) (f : Z -> Z -> Z -> F) :
    Zsum l1 h1 (fun a => Zsum l2 h2 (fun b => Zsum l3 h3 (fun c => f a b c)))
    = Zsum l1 h1 (fun a => Zsum l3 h3 (fun c => Zsum l2 h2 (fun b => f a b c))).
  Proof. apply Zsum_ext. intros a _. apply (Zsum_swap Fth). Qed.

  (* y-edges: cell index J, transverse nodes I, K *)
  Theorem restrict_y_adjoint (ry g : Z -> Z -> Z -> F) :
    (forall I J K, (I <= 0 \/ cnx - 1 <= I \/ K <= 0 \/ cnz - 1 <= K) -> g I J K = 0%F) ->
    Zsum 1 (cnx - 1) (fun I => Zsum 0 (cny - 1) (fun J => Zsum 1 (cnz - 1) (fun K =>
      (Ry_spec scd nx ny nz wx wz ry I J K * g I J K)%F)))
    = Zsum 1 (nx - 1) (fun i => Zsum 0 (ny - 1) (fun j => Zsum 1 (nz - 1) (fun k =>
      (ry i j k * prolong_y scd xn zn nx ny nz g (fun _ _ _ => 0%F) i j k)%F))).
  Proof.
    intros PEC.
    rewrite (Zsum_swap23 1 (cnx-1) 0 (cny-1) 1 (cnz-1)).
    rewrite (Zsum_swap23 1 (nx-1) 0 (ny-1) 1 (nz-1)).
    pose proof (tensor_adjoint Fth
      (S1 (coars scd 0) wx nx) (S1 (coars scd 2) wz nz) (E1 (coars scd 1) ny)
      (fun g' => prolong1 (coars scd 0) xn (zb cnx g'))
      (fun g' => prolong1 (coars scd 2) zn (zb cnz g'))
      (fun g' j => g' (cidx (coars scd 1) j))
      1 (cnx-1) 1 (cnz-1) 0 (cny-1) 1 (nx-1) 1 (nz-1) 0 (ny-1)
      (across_adjoint Fth (coars scd 0) wx xn cnx nx Hcx Hnx Wx)
      (across_adjoint Fth (coars scd 2) wz zn cnz nz Hcz Hnz Wz)
      (along_adjoint Fth (coars scd 1) cny ny Hcy Hny)
      (fun i k j => ry i j k) (fun I K J => g I J K)) as T.
    cbv beta in T. unfold Ry_spec. rewrite T. clear T.
    apply Zsum_ext. intros i Hi. apply Zsum_ext. intros k Hk. apply Zsum_ext. intros j Hj.
    f_equal. unfold prolong_y.
    zb_true (1 <=? i). zb_true (i <? nx - 1). zb_true (0 <=? j). zb_true (j <? ny - 1).
    zb_true (1 <=? k). zb_true (k <? nz - 1). cbn [andb].
    rewrite (prolong1_comm Fth).
    transitivity (prolong1 (coars scd 2) zn
                    (fun K => prolong1 (coars scd 0) xn (fun I => g I (cidx (coars scd 1) j) K) i) k);
      [|ring].
    transitivity (prolong1 (coars scd 2) zn
                    (fun K => prolong1 (coars scd 0) xn
                                (zb cnx (fun I => g I (cidx (coars scd 1) j) K)) i) k).
    - apply prolong1_ext. apply zb_id. intros K HK.
      apply prolong1_zero. intros I. unfold zb.
      destruct ((1 <=? I) && (I <? cnx - 1))%bool; [|reflexivity]. apply PEC. lia.
    - apply prolong1_ext. intros K. apply prolong1_ext. apply zb_id. intros I HI. apply PEC. lia.
  Qed.

  (* z-edges: cell index K, transverse nodes I, J *)
  Theorem restrict_z_adjoint (rz g : Z -> Z -> Z -> F) :
    (forall I J K, (I <= 0 \/ cnx - 1 <= I \/ J <= 0 \/ cny - 1 <= J) -> g I J K = 0%F) ->
    Zsum 1 (cnx - 1) (fun I => Zsum 1 (cny - 1) (fun J => Zsum 0 (cnz - 1) (fun K =>
      (Rz_spec scd nx ny nz wx wy rz I J K * g I J K)%F)))
    = Zsum 1 (nx - 1) (fun i => Zsum 1 (ny - 1) (fun j => Zsum 0 (nz - 1) (fun k =>
      (rz i j k * prolong_z scd xn yn nx ny nz g (fun _ _ _ => 0%F) i j k)%F))).
  Proof.
    intros PEC.
    pose proof (tensor_adjoint Fth
      (S1 (coars scd 0) wx nx) (S1 (coars scd 1) wy ny) (E1 (coars scd 2) nz)
      (fun g' => prolong1 (coars scd 0) xn (zb cnx g'))
      (fun g' => prolong1 (coars scd 1) yn (zb cny g'))
      (fun g' k => g' (cidx (coars scd 2) k))
      1 (cnx-1) 1 (cny-1) 0 (cnz-1) 1 (nx-1) 1 (ny-1) 0 (nz-1)
      (across_adjoint Fth (coars scd 0) wx xn cnx nx Hcx Hnx Wx)
      (across_adjoint Fth (coars scd 1) wy yn cny ny Hcy Hny Wy)
      (along_adjoint Fth (coars scd 2) cnz nz Hcz Hnz)
      (fun i j k => rz i j k) (fun I J K => g I J K)) as T.
    cbv beta in T. unfold Rz_spec. rewrite T. clear T.
    apply Zsum_ext. intros i Hi. apply Zsum_ext. intros j Hj. apply Zsum_ext. intros k Hk.
    f_equal. unfold prolong_z.
    zb_true (1 <=? i). zb_true (i <? nx - 1). zb_true (1 <=? j). zb_true (j <? ny - 1).
    zb_true (0 <=? k). zb_true (k <? nz - 1). cbn [andb].
    rewrite (prolong1_comm Fth).
    transitivity (prolong1 (coars scd 1) yn
                    (fun J => prolong1 (coars scd 0) xn (fun I => g I J (cidx (coars scd 2) k)) i) j);
      [|ring].
    transitivity (prolong1 (coars scd 1) yn
                    (fun J => prolong1 (coars scd 0) xn
                                (zb cnx (fun I => g I J (cidx (coars scd 2) k))) i) j).
    - apply prolong1_ext. apply zb_id. intros J HJ.
      apply prolong1_zero. intros I. unfold zb.
      destruct ((1 <=? I) && (I <? cnx - 1))%bool; [|reflexivity]. apply PEC. lia.
    - apply prolong1_ext. intros J. apply prolong1_ext. apply zb_id. intros I HI. apply PEC. lia.
  Qed.
End Adjoint3D.

(* ---------------------------------------------------------- conservation *)
(* the coarse material parameters sum to the same total as the fine ones, for
   every coarsening pattern (volume-weighted conductivity, V/mu_r conserved) *)
Section Conservation.
  Context {F : Type} {O : FOps F}.
  Hypothesis Fth : field_theory F0 F1 Fadd Fmul Fsub Fopp Fdiv Finv (@eq F).
  Add Field Fra4 : Fth.

  Lemma children_sum (c : bool) (cn n : Z) (f : Z -> F) :
    0 <= cn -> n = (if c then 2*cn else cn) ->
    Zsum 0 cn (fun I => sum_children1 c f I) = Zsum 0 n f.
  Proof.
    intros Hc Hn. destruct c; subst n.
    - rewrite (Zsum_pairs Fth) by lia. reflexivity.
    - reflexivity.
  Qed.

  Variable scd : Z.
  Variables cx cy cz nx ny nz : Z.     (* numbers of coarse / fine CELLS *)
  Hypothesis Hcx : 0 <= cx.
  Hypothesis Hcy : 0 <= cy.
  Hypothesis Hcz : 0 <= cz.
  Hypothesis Hnx : nx = if coars scd 0 then 2*cx else cx.
  Hypothesis Hny : ny = if coars scd 1 then 2*cy else cy.
  Hypothesis Hnz : nz = if coars scd 2 then 2*cz else cz.

  Theorem restrict_param_conserves_total (p : Z -> Z -> Z -> F) :
    sum3 cx cy cz (fun I J K => restrict_param scd p I J K) = sum3 nx ny nz p.
  Proof.
    unfold sum3, restrict_param.
    (* x *)
    rewrite (Zsum_swap Fth 0 cx 0 cy).
    rewrite (Zsum_ext 0 cy _ (fun J => Zsum 0 cz (fun K => Zsum 0 cx (fun I =>
               sum_children1 (coars scd 0) (fun i =>
                 sum_children1 (coars scd 1) (fun j =>
                   sum_children1 (coars scd 2) (fun k => p i j k) K) J) I)))).
    2:{ intros J _. apply (Zsum_swap Fth). }
    rewrite (Zsum_ext 0 cy _ (fun J => Zsum 0 cz (fun K => Zsum 0 nx (fun i =>
               sum_children1 (coars scd 1) (fun j =>
                 sum_children1 (coars scd 2) (fun k => p i j k) K) J)))).
    2:{ intros J _. apply Zsum_ext. intros K _.
        exact (children_sum (coars scd 0) cx nx _ Hcx Hnx). }
    (* y *)
    rewrite (Zsum_swap Fth 0 cy 0 cz).
    rewrite (Zsum_ext 0 cz _ (fun K => Zsum 0 nx (fun i => Zsum 0 cy (fun J =>
               sum_children1 (coars scd 1) (fun j =>
                 sum_children1 (coars scd 2) (fun k => p i j k) K) J)))).
    2:{ intros K _. apply (Zsum_swap Fth). }
    rewrite (Zsum_ext 0 cz _ (fun K => Zsum 0 nx (fun i => Zsum 0 ny (fun j =>
               sum_children1 (coars scd 2) (fun k => p i j k) K)))).
    2:{ intros K _. apply Zsum_ext. intros i _.
        exact (children_sum (coars scd 1) cy ny _ Hcy Hny). }
    (* z *)
    rewrite (Zsum_swap Fth 0 cz 0 nx). apply Zsum_ext. intros i _.
    rewrite (Zsum_swap Fth 0 cz 0 ny). apply Zsum_ext. intros j _.
    exact (children_sum (coars scd 2) cz nz _ Hcz Hnz).
  Qed.
End Conservation.
