(* Proofs/BandLDL.v -- C03 item 1: the banded symmetric solver
   [emg3d.core.solve] (generated model Gen/CoreBand.v, [solve]) is correct.

   Storage: the lower band of the symmetric 11-diagonal matrix is
   A(i,j) = amat (i + 5*j) for j <= i <= j+5.  [solve n amat bvec] returns the
   pair (amat', x): amat' holds the unit lower factor L below the diagonal and
   1/D on the diagonal, x the solution (both overwritten in place in Python).

   PIVOT HYPOTHESIS.  [ldl n amat] is the array produced by the factorisation
   loops of [solve] (the prefix of the generated term up to, not including, the
   "replace diagonal by 1/D" step; the right-hand side does not enter, lemma
   [st_fact_bvec]).  [pivot n amat j := ldl n amat (6*j)] is D(j), the number
   the code divides by (`d = 1./amat[6*j]`); for j = 0 it is amat 0.  The
   hypothesis of every theorem is
        forall j, 0 <= j < n -> pivot n amat j <> 0.
   [pivot_rec] shows these are the pivots of the textbook recurrence
   D(j) = A(j,j) - sum_k L(j,k)^2 D(k).

   Ranges of sums are half-open: [sumZ lo hi f] = sum_{lo <= k < hi} f k, so
   the row sum  sum_{j = max 0 (i-5)}^{min (n-1) (i+5)}  is
   [sumZ (Z.max 0 (i-5)) (Z.min n (i+6))].

   Main results (all closed under the global context):
     solve_eq         the generated term is the composition of five named stages
                      (by reflexivity: breaks if the generated code changes shape)
     factor_spec      L, D satisfy the defining recurrences (E1, E2 / pivot_rec);
     bandLDLt         A(i,j) = sum_k L(i,k) L(j,k) D(k) on the band (A = L D L^T)
     fwd_spec, scl_spec, bwd_spec   L y = b,  z = y/D,  L^T x = z
     LDLt_mul         A v = L (D (L^T v)) for every v (exchange of the band sums)
     solve_correct    A x = b        (solve_correct_explicit: sum written out)
     solve_unique     A x' = b  ->  x' = solve n A b
     solve_mul_id     solve n A (A x) = x
     solve_linear_rhs solve is linear in the right-hand side
     solve_frame      nothing outside amat[0,6n), bvec[0,n) is written, nor the
                      unused tail amat[6k+r], k+r >= n, of the band storage
                      (no pivot hypothesis needed)
     solve_amat_out   the returned amat: 1/D on the diagonal, the factor elsewhere
     pivot_example, pivot_example_complex
                      indefinite rational / complex symmetric 11x11 systems that
                      meet the hypothesis and are solved exactly (non-vacuity).
   Nothing is left unproved. *)
From Coq Require Import ZArith Lia Bool Field List QArith.
From V Require Import Base.Loops Base.Arr Base.FieldSig Base.Tactics Base.ExecQ.
From V Require Import Gen.CoreBand Proofs.BandSums.
Local Open Scope Z_scope.

(* ------------------------------------------------------------------ *)
(* The five stages of [solve], named.                                   *)
Section Stages.
  Context {F : Type} {O : FOps F}.

  (* 1. factorisation loops: state (h, amat, d) *)
  Definition st_fact (n : Z) (amat bvec : Z -> F) : F * (Z -> F) * F :=
    Zfold 1 n (fun j st_ => solve_L2 bvec n n j st_)
      (F0,
       Zfold 1 (Z.min n 6)
         (fun i st_ => solve_L1 bvec n n F0 (F1 / amat 0%Z)%F i st_) amat,
       (F1 / amat 0%Z)%F).

  (* 2. diagonal replaced by its reciprocal *)
  Definition st_inv (n : Z) (amat bvec : Z -> F) : Z -> F :=
    let t := st_fact n amat bvec in
    Zfold_down (n - 2) (- (1))
      (fun j st_ => solve_L6 bvec n n (fst (fst t)) (snd t) j st_)
      (upd1 (snd (fst t)) (6 * (n - 1)) (snd t)).

  (* 3. forward substitution: state (h, bvec) *)
  Definition st_fwd (n : Z) (amat bvec : Z -> F) : F * (Z -> F) :=
    let t := st_fact n amat bvec in
    Zfold 1 n (fun j st_ => solve_L7 (st_inv n amat bvec) n n (snd t) j st_)
      (fst (fst t), bvec).

  (* 4. scaling by 1/D *)
  Definition st_scl (n : Z) (amat bvec : Z -> F) : Z -> F :=
    let t := st_fact n amat bvec in
    Zfold 0 n
      (fun j st_ => solve_L9 (st_inv n amat bvec) n n
                      (fst (st_fwd n amat bvec)) (snd t) j st_)
      (snd (st_fwd n amat bvec)).

  (* 5. back substitution *)
  Definition st_bwd (n : Z) (amat bvec : Z -> F) : F * (Z -> F) :=
    let t := st_fact n amat bvec in
    Zfold_down (n - 2) (- (1))
      (fun j st_ => solve_L10 (st_inv n amat bvec) n n (snd t) j st_)
      (fst (st_fwd n amat bvec), st_scl n amat bvec).

  Lemma solve_eq n amat bvec :
    solve n amat bvec = (st_inv n amat bvec, snd (st_bwd n amat bvec)).
  Proof. reflexivity. Qed.

  (* the factor with D on the diagonal, and the pivots *)
  Definition ldl (n : Z) (amat : Z -> F) : Z -> F :=
    snd (fst (st_fact n amat (fun _ => F0))).
  Definition pivot (n : Z) (amat : Z -> F) (j : Z) : F := ldl n amat (6 * j).

  (* symmetric completion of the stored lower band, and the banded product *)
  Definition Asym (amat : Z -> F) (i j : Z) : F :=
    if j <=? i then amat (i + 5 * j) else amat (j + 5 * i).
  Definition bandmul (n : Z) (amat x : Z -> F) (i : Z) : F :=
    sumZ (Z.max 0 (i - 5)) (Z.min n (i + 6)) (fun j => (Asym amat i j * x j)%F).
End Stages.

Section BandLDL.
  Context {F : Type} {O : FOps F}.
  Hypothesis Fth : field_theory F0 F1 Fadd Fmul Fsub Fopp Fdiv Finv (@eq F).
  Add Field Fbl : Fth.
  Local Open Scope F_scope.

  Notation sumZ_ext := (sumZ_ext (F:=F)).

  (* the right-hand side is a dummy argument of the factorisation loops *)
  Lemma st_fact_bvec n amat b1 b2 : st_fact n amat b1 = st_fact n amat b2.
  Proof. reflexivity. Qed.

  (* ---------------- inner accumulation loops as sums ---------------- *)
  Lemma L3_sum (a bv : Z -> F) l n d j lo h :
    Zfold lo j (fun k st_ => solve_L3 a bv l n d j k st_) h
    = h + sumZ lo j (fun k => a (j + 5 * k)%Z * a (j + 5 * k)%Z * a (6 * k)%Z).
  Proof.
    exact (Zfold_acc Fth lo j
             (fun k => a (j + 5 * k)%Z * a (j + 5 * k)%Z * a (6 * k)%Z) h).
  Qed.

  Lemma L5_sum (a bv : Z -> F) l n d j i lo h :
    Zfold lo j (fun k st_ => solve_L5 a bv l n d j i k st_) h
    = h + sumZ lo j (fun k => a (i + 5 * k)%Z * a (j + 5 * k)%Z * a (6 * k)%Z).
  Proof.
    exact (Zfold_acc Fth lo j
             (fun k => a (i + 5 * k)%Z * a (j + 5 * k)%Z * a (6 * k)%Z) h).
  Qed.

  Lemma L8_sum (a bv : Z -> F) l n d j lo hi h :
    Zfold lo hi (fun k st_ => solve_L8 a bv l n d j k st_) h
    = h + sumZ lo hi (fun k => a (j + 5 * k)%Z * bv k).
  Proof. exact (Zfold_acc Fth lo hi (fun k => a (j + 5 * k)%Z * bv k) h). Qed.

  Lemma L11_sum (a bv : Z -> F) l n d j lo hi h :
    Zfold lo hi (fun k st_ => solve_L11 a bv l n d j k st_) h
    = h + sumZ lo hi (fun k => a (k + 5 * j)%Z * bv k).
  Proof. exact (Zfold_acc Fth lo hi (fun k => a (k + 5 * j)%Z * bv k) h). Qed.

  (* ---------------- 1. factorisation ---------------- *)
  Section Fact.
    Variable n : Z.
    Variable A : Z -> F.          (* the input array *)

    (* defining equations of column k, stated on the array [a] itself *)
    Definition E1 (a : Z -> F) (k : Z) : Prop :=
      a (6 * k)%Z
      = A (6 * k)%Z
        - sumZ (Z.max 0 (k - 5)) k
            (fun m => a (k + 5 * m)%Z * a (k + 5 * m)%Z * a (6 * m)%Z).
    Definition E2 (a : Z -> F) (k i : Z) : Prop :=
      a (i + 5 * k)%Z
      = (A (i + 5 * k)%Z
         - sumZ (Z.max 0 (i - 5)) k
             (fun m => a (i + 5 * m)%Z * a (k + 5 * m)%Z * a (6 * m)%Z))
        * (1 / a (6 * k)%Z).
    Definition ColOK (a : Z -> F) (k : Z) : Prop :=
      E1 a k /\ forall i, (k < i < Z.min n (k + 6))%Z -> E2 a k i.

    Lemma ColOK_ext a a' k : (0 <= k)%Z ->
      (forall idx, (0 <= idx < 6 * k + 6)%Z -> a' idx = a idx) ->
      ColOK a k -> ColOK a' k.
    Proof.
      intros Hk H [H1 H2]. split.
      - unfold E1 in *. rewrite H by lia. rewrite H1. f_equal.
        apply sumZ_ext. intros m Hm. rewrite !H by lia. reflexivity.
      - intros i Hi. specialize (H2 i Hi). unfold E2 in *.
        rewrite !H by lia. rewrite H2. f_equal. f_equal.
        apply sumZ_ext. intros m Hm. rewrite !H by lia. reflexivity.
    Qed.

    (* the loop over the rows of column j *)
    Lemma L4_loop (bv : Z -> F) l d j hi h1 (a1 : Z -> F) :
      (0 <= j)%Z -> (j + 1 <= hi <= j + 6)%Z ->
      let a2 := snd (Zfold (j + 1) hi (fun i st_ => solve_L4 bv l n d j i st_) (h1, a1)) in
      (forall idx, ~ (6 * j < idx < hi + 5 * j)%Z -> a2 idx = a1 idx) /\
      (forall i, (j < i < hi)%Z ->
         a2 (i + 5 * j)%Z
         = (a1 (i + 5 * j)%Z
            - sumZ (Z.max 0 (i - 5)) j
                (fun m => a1 (i + 5 * m)%Z * a1 (j + 5 * m)%Z * a1 (6 * m)%Z)) * d).
    Proof.
      intros Hj Hhi a2. subst a2.
      apply (Zfold_ind
        (fun i' (st : F * (Z -> F)) =>
           (forall idx, ~ (6 * j < idx < i' + 5 * j)%Z -> snd st idx = a1 idx) /\
           (forall i, (j < i < i')%Z ->
              snd st (i + 5 * j)%Z
              = (a1 (i + 5 * j)%Z
                 - sumZ (Z.max 0 (i - 5)) j
                     (fun m => a1 (i + 5 * m)%Z * a1 (j + 5 * m)%Z * a1 (6 * m)%Z)) * d))).
      - lia.
      - cbn [snd]. split; [reflexivity | intros; lia].
      - intros i [h a] Hi [IH1 IH2]. cbn [snd] in IH1, IH2.
        unfold solve_L4. cbv zeta. cbn [fst snd]. split.
        + intros idx Hidx. upd_simpl. apply IH1. lia.
        + intros i' Hi'.
          destruct (Z.eq_dec i' i) as [->|Hne].
          * upd_simpl. rewrite L5_sum. rewrite IH1 by lia.
            rewrite (sumZ_ext _ _
              (fun k => a (i + 5 * k)%Z * a (j + 5 * k)%Z * a (6 * k)%Z)
              (fun m => a1 (i + 5 * m)%Z * a1 (j + 5 * m)%Z * a1 (6 * m)%Z)).
            { ring. }
            intros m Hm. rewrite !IH1 by lia. reflexivity.
          * upd_simpl. apply IH2. lia.
    Qed.

    (* invariant of the loop over the columns *)
    Definition FInv (j : Z) (st : F * (Z -> F) * F) : Prop :=
      let a := snd (fst st) in
      (forall k, (0 <= k < j)%Z -> ColOK a k) /\
      (forall idx, (idx < 0 \/ 6 * j <= idx)%Z -> a idx = A idx) /\
      snd st = 1 / a (6 * (j - 1))%Z /\
      (* the unused tail of the band storage (rows >= n) is never written *)
      (forall k r, (1 <= r <= 5)%Z -> (n <= k + r)%Z -> a (6 * k + r)%Z = A (6 * k + r)%Z).

    Lemma FInv_step bv j st : (1 <= j < n)%Z ->
      FInv j st -> FInv (j + 1) (solve_L2 bv n n j st).
    Proof.
      intros Hj. destruct st as [[h a] d]. unfold FInv. cbn [fst snd].
      intros (Hcol & Hun & Hd & Htl).
      unfold solve_L2. cbv zeta. cbn [fst snd].
      rewrite L3_sum.
      set (h1 := h * 0 + sumZ _ _ _).
      set (a1 := upd1 a (6 * j)%Z (a (6 * j)%Z - h1)).
      set (d1 := 1 / a1 (6 * j)%Z).
      destruct (L4_loop bv n d1 j (Z.min n (j + 6)) h1 a1) as [Hfr Hrow];
        [lia | lia |].
      set (a2 := snd (Zfold (j + 1) (Z.min n (j + 6))
                        (fun i st_ => solve_L4 bv n n d1 j i st_) (h1, a1))) in *.
      assert (Hlow : forall idx, (idx < 6 * j)%Z -> a2 idx = a idx).
      { intros idx Hidx. rewrite Hfr by lia. unfold a1. now upd_simpl. }
      assert (Hdiag : a2 (6 * j)%Z = a (6 * j)%Z - h1).
      { rewrite Hfr by lia. unfold a1. now upd_simpl. }
      split; [|split; [|split]].
      - intros k Hk. destruct (Z.eq_dec k j) as [->|Hne].
        + split.
          * unfold E1. rewrite Hdiag. rewrite Hun by lia. unfold h1.
            rewrite (sumZ_ext _ _
              (fun m => a2 (j + 5 * m)%Z * a2 (j + 5 * m)%Z * a2 (6 * m)%Z)
              (fun k => a (j + 5 * k)%Z * a (j + 5 * k)%Z * a (6 * k)%Z)).
            { ring. }
            intros m Hm. rewrite !Hlow by lia. reflexivity.
          * intros i Hi. unfold E2. rewrite Hrow by lia.
            assert (E : a1 (i + 5 * j)%Z = A (i + 5 * j)%Z).
            { unfold a1. upd_simpl. apply Hun. lia. }
            rewrite E.
            assert (Ed : d1 = 1 / a2 (6 * j)%Z).
            { unfold d1. rewrite Hdiag. unfold a1. now upd_simpl. }
            rewrite Ed. f_equal. f_equal.
            apply sumZ_ext. intros m Hm.
            rewrite !Hlow by lia. unfold a1. now upd_simpl.
        + apply (ColOK_ext a a2 k); [lia | | apply Hcol; lia].
          intros idx Hidx. apply Hlow. lia.
      - intros idx Hidx. rewrite Hfr by lia. unfold a1. upd_simpl.
        apply Hun. lia.
      - replace (6 * (j + 1 - 1))%Z with (6 * j)%Z by lia.
        unfold d1. rewrite Hdiag. unfold a1. now upd_simpl.
      - intros k r Hr Hkr. rewrite Hfr by lia. unfold a1. upd_simpl.
        apply Htl; assumption.
    Qed.

    (* first column *)
    Lemma L1_loop bv h d hi :
      (1 <= hi)%Z ->
      let a0 := Zfold 1 hi (fun i st_ => solve_L1 bv n n h d i st_) A in
      (forall idx, ~ (1 <= idx < hi)%Z -> a0 idx = A idx) /\
      (forall i, (1 <= i < hi)%Z -> a0 i = A i * d).
    Proof.
      intros Hhi a0. subst a0.
      apply (Zfold_ind
        (fun i' (a : Z -> F) =>
           (forall idx, ~ (1 <= idx < i')%Z -> a idx = A idx) /\
           (forall i, (1 <= i < i')%Z -> a i = A i * d))).
      - lia.
      - split; [reflexivity | intros; lia].
      - intros i a Hi [IH1 IH2]. unfold solve_L1. cbv zeta. split.
        + intros idx Hidx. upd_simpl. apply IH1. lia.
        + intros i' Hi'. destruct (Z.eq_dec i' i) as [->|Hne].
          * upd_simpl. rewrite IH1 by lia. reflexivity.
          * upd_simpl. apply IH2. lia.
    Qed.

    Lemma FInv_init bv : (1 <= n)%Z ->
      FInv 1 (F0,
              Zfold 1 (Z.min n 6)
                (fun i st_ => solve_L1 bv n n F0 (1 / A 0%Z) i st_) A,
              1 / A 0%Z).
    Proof.
      intros Hn. unfold FInv. cbn [fst snd].
      destruct (L1_loop bv F0 (1 / A 0%Z) (Z.min n 6)) as [Hfr Hrow]; [lia|].
      set (a0 := Zfold 1 (Z.min n 6) _ A) in *.
      assert (H0 : a0 0%Z = A 0%Z) by (apply Hfr; lia).
      split; [|split; [|split]].
      - intros k Hk. assert (k = 0)%Z by lia. subst k. split.
        + unfold E1. change (6 * 0)%Z with 0%Z. rewrite H0.
          rewrite sumZ_empty by (exact Fth || lia). ring.
        + intros i Hi. unfold E2.
          replace (i + 5 * 0)%Z with i by lia. change (6 * 0)%Z with 0%Z.
          rewrite Hrow by lia. rewrite H0.
          rewrite sumZ_empty by (exact Fth || lia). ring.
      - intros idx Hidx. apply Hfr. lia.
      - change (6 * (1 - 1))%Z with 0%Z. now rewrite H0.
      - intros k r Hr Hkr. apply Hfr. lia.
    Qed.

    Lemma FInv_final bv : (1 <= n)%Z -> FInv n (st_fact n A bv).
    Proof.
      intros Hn. unfold st_fact.
      apply (Zfold_ind FInv 1 n).
      - lia.
      - apply FInv_init. exact Hn.
      - intros j st Hj Hinv. apply FInv_step; assumption.
    Qed.
  End Fact.

  (* ---------------- 2. reciprocal of the diagonal ---------------- *)
  Lemma L6_loop (bv : Z -> F) l n h d (fa : Z -> F) :
    (1 <= n)%Z -> d = 1 / fa (6 * (n - 1))%Z ->
    let ia := Zfold_down (n - 2) (- (1))
                (fun j st_ => solve_L6 bv l n h d j st_)
                (upd1 fa (6 * (n - 1))%Z d) in
    (forall j, (0 <= j < n)%Z -> ia (6 * j)%Z = 1 / fa (6 * j)%Z) /\
    (forall idx, (forall j, (0 <= j < n)%Z -> idx <> (6 * j)%Z) -> ia idx = fa idx).
  Proof.
    intros Hn Hd ia. subst ia.
    match goal with |- context [Zfold_down ?s0 ?e0 ?b0 ?i0] =>
      generalize (Zfold_down_ind
      (fun i (a : Z -> F) =>
         (forall j, (i < j < n)%Z -> a (6 * j)%Z = 1 / fa (6 * j)%Z) /\
         (forall idx, (forall j, (i < j < n)%Z -> idx <> (6 * j)%Z) -> a idx = fa idx))
      s0 e0 b0 i0);
      set (res := Zfold_down s0 e0 b0 i0) end.
    intros G.
    assert (G' : (forall j, (- (1) < j < n)%Z -> res (6 * j)%Z = 1 / fa (6 * j)%Z) /\
         (forall idx, (forall j, (- (1) < j < n)%Z -> idx <> (6 * j)%Z) -> res idx = fa idx));
    [ apply G; clear G res
    | destruct G' as [G1 G2]; split;
      [ intros j Hj; apply G1; lia
      | intros idx Hidx; apply G2; intros j Hj; apply Hidx; lia ] ].
    - lia.
    - split.
      + intros j Hj. assert (j = n - 1)%Z by lia. subst j. upd_simpl. exact Hd.
      + intros idx Hidx. rewrite upd1_other; [reflexivity|]. apply Hidx. lia.
    - intros i a Hi [IH1 IH2]. unfold solve_L6. cbv zeta. split.
      + intros j Hj. destruct (Z.eq_dec j i) as [->|Hne].
        * upd_simpl. rewrite IH2; [reflexivity|]. intros j Hj'. lia.
        * upd_simpl. apply IH1. lia.
      + intros idx Hidx. rewrite upd1_other by (apply Hidx; lia).
        apply IH2. intros j Hj. apply Hidx. lia.
  Qed.

  (* ---------------- 3. forward substitution ---------------- *)
  Lemma L7_loop (a : Z -> F) l n d h (b : Z -> F) :
    (1 <= n)%Z ->
    let y := snd (Zfold 1 n (fun j st_ => solve_L7 a l n d j st_) (h, b)) in
    (forall j, (1 <= j < n)%Z ->
       y j = b j - sumZ (Z.max 0 (j - 5)) j (fun k => a (j + 5 * k)%Z * y k)) /\
    (forall idx, ~ (1 <= idx < n)%Z -> y idx = b idx).
  Proof.
    intros Hn y. subst y.
    apply (Zfold_ind
      (fun i (st : F * (Z -> F)) =>
         (forall j, (1 <= j < i)%Z ->
            snd st j = b j - sumZ (Z.max 0 (j - 5)) j
                               (fun k => a (j + 5 * k)%Z * snd st k)) /\
         (forall idx, ~ (1 <= idx < i)%Z -> snd st idx = b idx)) 1 n).
    - lia.
    - cbn [snd]. split; [intros; lia | reflexivity].
    - intros i [h' y] Hi [IH1 IH2]. cbn [snd] in IH1, IH2.
      unfold solve_L7. cbv zeta. cbn [fst snd]. rewrite L8_sum. split.
      + intros j Hj. destruct (Z.eq_dec j i) as [->|Hne].
        * upd_simpl. rewrite IH2 by lia.
          rewrite (sumZ_ext _ _
            (fun k => a (i + 5 * k)%Z *
                      upd1 y i (b i - (h' * 0 + sumZ (Z.max 0 (i - 5)) i
                                  (fun k0 => a (i + 5 * k0)%Z * y k0))) k)
            (fun k => a (i + 5 * k)%Z * y k)).
          { ring. }
          intros k Hk. now upd_simpl.
        * upd_simpl. rewrite IH1 by lia. f_equal.
          apply sumZ_ext. intros k Hk. now upd_simpl.
      + intros idx Hidx. upd_simpl. apply IH2. lia.
  Qed.

  (* ---------------- 4. scaling ---------------- *)
  Lemma L9_loop (a : Z -> F) l n h d (y : Z -> F) :
    (0 <= n)%Z ->
    let z := Zfold 0 n (fun j st_ => solve_L9 a l n h d j st_) y in
    (forall j, (0 <= j < n)%Z -> z j = y j * a (6 * j)%Z) /\
    (forall idx, ~ (0 <= idx < n)%Z -> z idx = y idx).
  Proof.
    intros Hn z. subst z.
    apply (Zfold_ind
      (fun i (z : Z -> F) =>
         (forall j, (0 <= j < i)%Z -> z j = y j * a (6 * j)%Z) /\
         (forall idx, ~ (0 <= idx < i)%Z -> z idx = y idx)) 0 n).
    - lia.
    - split; [intros; lia | reflexivity].
    - intros i z Hi [IH1 IH2]. unfold solve_L9. cbv zeta. split.
      + intros j Hj. destruct (Z.eq_dec j i) as [->|Hne].
        * upd_simpl. rewrite IH2 by lia. reflexivity.
        * upd_simpl. apply IH1. lia.
      + intros idx Hidx. upd_simpl. apply IH2. lia.
  Qed.

  (* ---------------- 5. back substitution ---------------- *)
  Lemma L10_loop (a : Z -> F) l n d h (z : Z -> F) :
    (1 <= n)%Z ->
    let x := snd (Zfold_down (n - 2) (- (1))
                    (fun j st_ => solve_L10 a l n d j st_) (h, z)) in
    (forall j, (0 <= j < n - 1)%Z ->
       x j = z j - sumZ (j + 1) (Z.min n (j + 6)) (fun k => a (k + 5 * j)%Z * x k)) /\
    (forall idx, ~ (0 <= idx < n - 1)%Z -> x idx = z idx).
  Proof.
    intros Hn x. subst x.
    match goal with |- context [Zfold_down ?s0 ?e0 ?b0 ?i0] =>
      generalize (Zfold_down_ind
      (fun i (st : F * (Z -> F)) =>
         (forall j, (i < j < n - 1)%Z ->
            snd st j = z j - sumZ (j + 1) (Z.min n (j + 6))
                               (fun k => a (k + 5 * j)%Z * snd st k)) /\
         (forall idx, ~ (i < idx < n - 1)%Z -> snd st idx = z idx))
      s0 e0 b0 i0);
      set (res := Zfold_down s0 e0 b0 i0) end.
    intros G.
    assert (G' : (forall j, (- (1) < j < n - 1)%Z ->
            snd res j = z j - sumZ (j + 1) (Z.min n (j + 6))
                               (fun k => a (k + 5 * j)%Z * snd res k)) /\
         (forall idx, ~ (- (1) < idx < n - 1)%Z -> snd res idx = z idx));
    [ apply G; clear G res
    | destruct G' as [G1 G2]; split;
      [ intros j Hj; apply G1; lia
      | intros idx Hidx; apply G2; lia ] ].
    - lia.
    - cbn [snd]. split; [intros; lia | reflexivity].
    - intros i [h' x] Hi [IH1 IH2]. cbn [snd] in IH1, IH2.
      unfold solve_L10. cbv zeta. cbn [fst snd]. rewrite L11_sum. split.
      + intros j Hj. destruct (Z.eq_dec j i) as [->|Hne].
        * upd_simpl. rewrite IH2 by lia.
          rewrite (sumZ_ext _ _
            (fun k => a (k + 5 * i)%Z *
                      upd1 x i (z i - (h' * 0 + sumZ (i + 1) (Z.min n (i + 6))
                                  (fun k0 => a (k0 + 5 * i)%Z * x k0))) k)
            (fun k => a (k + 5 * i)%Z * x k)).
          { ring. }
          intros k Hk. now upd_simpl.
        * upd_simpl. rewrite IH1 by lia. f_equal.
          apply sumZ_ext. intros k Hk. now upd_simpl.
      + intros idx Hidx. upd_simpl. apply IH2. lia.
  Qed.

  (* ---------------- algebra: A = L D L^T on the band ---------------- *)
  Section Algebra.
    Variable n : Z.
    Variable A fa : Z -> F.
    Hypothesis Hn : (1 <= n)%Z.
    Hypothesis Hcol : forall k, (0 <= k < n)%Z -> ColOK n A fa k.
    Hypothesis Hpiv : forall k, (0 <= k < n)%Z -> fa (6 * k)%Z <> 0.

    (* unit lower factor read off the array *)
    Definition Lf (i k : Z) : F := if (i =? k)%Z then 1 else fa (i + 5 * k)%Z.
    (* (L v) i   and   (L^T v) k   restricted to the band *)
    Definition Lmul (v : Z -> F) (i : Z) : F :=
      sumZ (Z.max 0 (i - 5)) (i + 1) (fun k => Lf i k * v k).
    Definition Ltmul (v : Z -> F) (k : Z) : F :=
      sumZ k (Z.min n (k + 6)) (fun j => Lf j k * v j).

    Lemma Lf_diag i : Lf i i = 1.
    Proof. unfold Lf. now rewrite Z.eqb_refl. Qed.
    Lemma Lf_off i k : i <> k -> Lf i k = fa (i + 5 * k)%Z.
    Proof. intros H. unfold Lf. apply Z.eqb_neq in H. now rewrite H. Qed.

    Lemma Lmul_snoc v i : (0 <= i)%Z ->
      Lmul v i = sumZ (Z.max 0 (i - 5)) i (fun k => fa (i + 5 * k)%Z * v k) + v i.
    Proof.
      intros Hi. unfold Lmul. rewrite sumZ_snoc by lia. rewrite Lf_diag.
      rewrite (sumZ_ext _ _ (fun k => Lf i k * v k)
                 (fun k => fa (i + 5 * k)%Z * v k)).
      { ring. }
      intros k Hk. rewrite Lf_off by lia. reflexivity.
    Qed.

    Lemma Ltmul_first v k : (0 <= k < n)%Z ->
      Ltmul v k = v k + sumZ (k + 1) (Z.min n (k + 6)) (fun j => fa (j + 5 * k)%Z * v j).
    Proof.
      intros Hk. unfold Ltmul. rewrite (sumZ_first Fth) by lia. rewrite Lf_diag.
      rewrite (sumZ_ext _ _ (fun j => Lf j k * v j)
                 (fun j => fa (j + 5 * k)%Z * v j)).
      { ring. }
      intros j Hj. rewrite Lf_off by lia. reflexivity.
    Qed.

    (* entry (i,j) of the band, j <= i, is (L D L^T)(i,j) *)
    Lemma bandLDLt i j : (0 <= j <= i)%Z -> (i < n)%Z -> (i < j + 6)%Z ->
      A (i + 5 * j)%Z
      = sumZ (Z.max 0 (i - 5)) (j + 1) (fun k => Lf i k * Lf j k * fa (6 * k)%Z).
    Proof.
      intros Hj Hi Hb. rewrite sumZ_snoc by lia. rewrite Lf_diag.
      destruct (Hcol j ltac:(lia)) as [H1 H2].
      destruct (Z.eq_dec i j) as [->|Hne].
      - rewrite Lf_diag. unfold E1 in H1.
        replace (j + 5 * j)%Z with (6 * j)%Z by lia.
        rewrite (sumZ_ext _ _ (fun k => Lf j k * Lf j k * fa (6 * k)%Z)
                   (fun m => fa (j + 5 * m)%Z * fa (j + 5 * m)%Z * fa (6 * m)%Z)).
        2:{ intros k Hk. rewrite Lf_off by lia. reflexivity. }
        set (S1 := sumZ _ _ _) in *.
        transitivity (fa (6 * j)%Z + S1); [rewrite H1|]; ring.
      - specialize (H2 i ltac:(lia)). unfold E2 in H2.
        rewrite (sumZ_ext _ _ (fun k => Lf i k * Lf j k * fa (6 * k)%Z)
                   (fun m => fa (i + 5 * m)%Z * fa (j + 5 * m)%Z * fa (6 * m)%Z)).
        2:{ intros k Hk. rewrite !Lf_off by lia. reflexivity. }
        rewrite (Lf_off i j) by lia.
        set (S1 := sumZ _ _ _) in *.
        rewrite H2. field. apply Hpiv. lia.
    Qed.

    (* symmetric completion: any in-band entry *)
    Lemma Asym_LDLt i j : (0 <= i < n)%Z -> (0 <= j < n)%Z -> (i - 5 <= j <= i + 5)%Z ->
      Asym A i j
      = sumZ (Z.max 0 (Z.max i j - 5)) (Z.min i j + 1)
          (fun k => Lf i k * Lf j k * fa (6 * k)%Z).
    Proof.
      intros Hi Hj Hb. unfold Asym. destruct (Z.leb_spec j i) as [Hle|Hgt].
      - replace (Z.max i j) with i by lia. replace (Z.min i j) with j by lia.
        apply bandLDLt; lia.
      - replace (Z.max i j) with j by lia. replace (Z.min i j) with i by lia.
        rewrite (bandLDLt j i) by lia.
        apply sumZ_ext. intros k Hk. ring.
    Qed.

    (* A x = L (D (L^T x)) for every x *)
    Lemma LDLt_mul (x : Z -> F) i : (0 <= i < n)%Z ->
      bandmul n A x i = Lmul (fun k => fa (6 * k)%Z * Ltmul x k) i.
    Proof.
      intros Hi. unfold bandmul, Lmul, Ltmul.
      rewrite (sumZ_ext _ _
        (fun k => Lf i k * (fa (6 * k)%Z * sumZ k (Z.min n (k + 6)) (fun j => Lf j k * x j)))
        (fun k => sumZ k (Z.min n (k + 6))
                    (fun j => Lf i k * Lf j k * fa (6 * k)%Z * x j))).
      2:{ intros k Hk.
          rewrite <- (sumZ_scale_l Fth), <- (sumZ_scale_l Fth).
          apply sumZ_ext. intros j Hj. ring. }
      rewrite (sumZ_exchange_dep Fth
                 (Z.max 0 (i - 5)) (i + 1) (Z.max 0 (i - 5)) (Z.min n (i + 6))
                 (fun k => k) (fun k => Z.min n (k + 6))
                 (fun j => Z.max 0 (Z.max i j - 5)) (fun j => (Z.min i j + 1)%Z)
                 (fun k j => Lf i k * Lf j k * fa (6 * k)%Z * x j)).
      2:{ intros k j. lia. }
      apply sumZ_ext. intros j Hj.
      rewrite (sumZ_scale_r Fth). rewrite <- Asym_LDLt by lia. reflexivity.
    Qed.

    (* unit triangular systems have unique solutions *)
    Lemma Lmul_inj (u v : Z -> F) :
      (forall i, (0 <= i < n)%Z -> Lmul u i = Lmul v i) ->
      forall i, (0 <= i < n)%Z -> u i = v i.
    Proof.
      intros H.
      assert (G : forall m, (0 <= m)%Z ->
                  forall i, (0 <= i < m)%Z -> (i < n)%Z -> u i = v i).
      { apply (Zrange_ind 0%Z
                 (fun m => forall i, (0 <= i < m)%Z -> (i < n)%Z -> u i = v i)).
        - intros; lia.
        - intros m Hm IH i Hi Hin.
          destruct (Z.eq_dec i m) as [->|Hne]; [|apply IH; lia].
          specialize (H m ltac:(lia)). rewrite !Lmul_snoc in H by lia.
          rewrite (sumZ_ext _ _ (fun k => fa (m + 5 * k)%Z * u k)
                     (fun k => fa (m + 5 * k)%Z * v k)) in H.
          2:{ intros k Hk. rewrite (IH k) by lia. reflexivity. }
          set (S1 := sumZ _ _ _) in H.
          transitivity (S1 + u m - S1); [ring | rewrite H; ring]. }
      intros i Hi. apply (G (i + 1)%Z); lia.
    Qed.

    Lemma Ltmul_inj (u v : Z -> F) :
      (forall k, (0 <= k < n)%Z -> Ltmul u k = Ltmul v k) ->
      forall k, (0 <= k < n)%Z -> u k = v k.
    Proof.
      intros H.
      assert (G : forall m, (m <= n)%Z ->
                  forall k, (m <= k < n)%Z -> (0 <= k)%Z -> u k = v k).
      { apply (Zrange_ind_down n
                 (fun m => forall k, (m <= k < n)%Z -> (0 <= k)%Z -> u k = v k)).
        - intros; lia.
        - intros m Hm IH k Hk Hk0.
          destruct (Z.eq_dec k (m - 1)%Z) as [->|Hne]; [|apply IH; lia].
          specialize (H (m - 1)%Z ltac:(lia)). rewrite !Ltmul_first in H by lia.
          rewrite (sumZ_ext _ _ (fun j => fa (j + 5 * (m - 1))%Z * u j)
                     (fun j => fa (j + 5 * (m - 1))%Z * v j)) in H.
          2:{ intros j Hj. rewrite (IH j) by lia. reflexivity. }
          set (S1 := sumZ _ _ _) in H.
          transitivity (u (m - 1)%Z + S1 - S1); [ring | rewrite H; ring]. }
      intros k Hk. apply (G k); lia.
    Qed.
  End Algebra.

  (* ---------------- the stages of [solve], specified ---------------- *)
  Section Main.
    Variable n : Z.
    Variables amat bvec : Z -> F.
    Hypothesis Hn : (1 <= n)%Z.

    Notation fa := (ldl n amat).
    Notation ia := (st_inv n amat bvec).
    Notation y := (snd (st_fwd n amat bvec)).
    Notation z := (st_scl n amat bvec).
    Notation x := (snd (st_bwd n amat bvec)).

    (* L and D satisfy the defining recurrences of the L D L^T factorisation
       (no hypothesis on the pivots is needed for this: 1/0 is just a number) *)
    Lemma factor_spec :
      (forall k, (0 <= k < n)%Z -> ColOK n amat fa k) /\
      (forall idx, (idx < 0 \/ 6 * n <= idx)%Z -> fa idx = amat idx) /\
      (forall k r, (1 <= r <= 5)%Z -> (n <= k + r)%Z ->
         fa (6 * k + r)%Z = amat (6 * k + r)%Z).
    Proof.
      destruct (FInv_final n amat (fun _ => F0) Hn) as (H1 & H2 & _ & H3).
      split; [|split]; assumption.
    Qed.

    Lemma pivot_rec j : (0 <= j < n)%Z ->
      pivot n amat j
      = amat (6 * j)%Z
        - sumZ (Z.max 0 (j - 5)) j
            (fun k => fa (j + 5 * k)%Z * fa (j + 5 * k)%Z * pivot n amat k).
    Proof. intros Hj. exact (proj1 (proj1 factor_spec j Hj)). Qed.

    Lemma inv_spec :
      (forall j, (0 <= j < n)%Z -> ia (6 * j)%Z = 1 / fa (6 * j)%Z) /\
      (forall idx, (forall j, (0 <= j < n)%Z -> idx <> (6 * j)%Z) -> ia idx = fa idx).
    Proof.
      destruct (FInv_final n amat bvec Hn) as (_ & _ & Hd & _).
      exact (L6_loop bvec n n _ _ _ Hn Hd).
    Qed.

    Lemma fwd_raw :
      (forall j, (1 <= j < n)%Z ->
         y j = bvec j - sumZ (Z.max 0 (j - 5)) j (fun k => ia (j + 5 * k)%Z * y k)) /\
      (forall idx, ~ (1 <= idx < n)%Z -> y idx = bvec idx).
    Proof. exact (L7_loop ia n n _ _ bvec Hn). Qed.

    Lemma scl_raw :
      (forall j, (0 <= j < n)%Z -> z j = y j * ia (6 * j)%Z) /\
      (forall idx, ~ (0 <= idx < n)%Z -> z idx = y idx).
    Proof. exact (L9_loop ia n n _ _ y ltac:(lia)). Qed.

    Lemma bwd_raw :
      (forall j, (0 <= j < n - 1)%Z ->
         x j = z j - sumZ (j + 1) (Z.min n (j + 6)) (fun k => ia (k + 5 * j)%Z * x k)) /\
      (forall idx, ~ (0 <= idx < n - 1)%Z -> x idx = z idx).
    Proof. exact (L10_loop ia n n _ _ z Hn). Qed.

    (* forward substitution solves L y = b *)
    Lemma fwd_spec i : (0 <= i < n)%Z -> Lmul fa y i = bvec i.
    Proof.
      intros Hi. destruct fwd_raw as [H1 H2]. destruct inv_spec as [_ I2].
      rewrite Lmul_snoc by lia.
      destruct (Z.eq_dec i 0) as [->|Hne].
      - rewrite sumZ_empty by lia. rewrite H2 by lia. ring.
      - rewrite (H1 i) by lia.
        rewrite (sumZ_ext _ _ (fun k => ia (i + 5 * k)%Z * y k)
                   (fun k => fa (i + 5 * k)%Z * y k)).
        { ring. }
        intros k Hk. rewrite I2; [reflexivity|]. intros j Hj. lia.
    Qed.

    (* scaling: z = y / D *)
    Lemma scl_spec k : (0 <= k < n)%Z -> z k = y k * (1 / fa (6 * k)%Z).
    Proof.
      intros Hk. destruct scl_raw as [H1 _]. destruct inv_spec as [I1 _].
      rewrite H1, I1 by lia. reflexivity.
    Qed.

    (* back substitution solves L^T x = z *)
    Lemma bwd_spec k : (0 <= k < n)%Z -> Ltmul n fa x k = z k.
    Proof.
      intros Hk. destruct bwd_raw as [H1 H2]. destruct inv_spec as [_ I2].
      rewrite Ltmul_first by lia.
      destruct (Z.eq_dec k (n - 1)%Z) as [->|Hne].
      - rewrite sumZ_empty by lia. rewrite H2 by lia. ring.
      - rewrite (H1 k) by lia.
        rewrite (sumZ_ext _ _ (fun j => ia (j + 5 * k)%Z * x j)
                   (fun j => fa (j + 5 * k)%Z * x j)).
        { ring. }
        intros j Hj. rewrite I2; [reflexivity|]. intros j' Hj'. lia.
    Qed.

    (* ---------------- main theorems ---------------- *)
    Hypothesis Hpiv : forall j, (0 <= j < n)%Z -> pivot n amat j <> 0.

    Theorem solve_correct i : (0 <= i < n)%Z ->
      bandmul n amat (snd (solve n amat bvec)) i = bvec i.
    Proof.
      intros Hi. rewrite solve_eq. cbn [snd].
      destruct factor_spec as (Hcol & _ & _).
      rewrite (LDLt_mul n amat fa Hcol Hpiv x i Hi).
      rewrite <- (fwd_spec i Hi). unfold Lmul.
      apply sumZ_ext. intros k Hk. f_equal.
      rewrite bwd_spec, scl_spec by lia.
      field. apply Hpiv. lia.
    Qed.

    (* the solution is the only one: whoever solves A x' = b got x *)
    Theorem solve_unique (x' : Z -> F) :
      (forall i, (0 <= i < n)%Z -> bandmul n amat x' i = bvec i) ->
      forall i, (0 <= i < n)%Z -> snd (solve n amat bvec) i = x' i.
    Proof.
      intros Hx'. destruct factor_spec as (Hcol & _ & _).
      apply (Ltmul_inj n fa). intros k Hk.
      assert (E : fa (6 * k)%Z * Ltmul n fa (snd (solve n amat bvec)) k
                  = fa (6 * k)%Z * Ltmul n fa x' k).
      { revert k Hk.
        apply (Lmul_inj n fa
                 (fun k => fa (6 * k)%Z * Ltmul n fa (snd (solve n amat bvec)) k)
                 (fun k => fa (6 * k)%Z * Ltmul n fa x' k)).
        intros i Hi.
        rewrite <- !(LDLt_mul n amat fa Hcol Hpiv) by exact Hi.
        rewrite solve_correct, Hx' by exact Hi. reflexivity. }
      assert (Hd : fa (6 * k)%Z <> 0) by (apply Hpiv; lia).
      set (u := Ltmul n fa (snd (solve n amat bvec)) k) in *.
      set (v := Ltmul n fa x' k) in *.
      transitivity (fa (6 * k)%Z * u / fa (6 * k)%Z); [field; exact Hd|].
      rewrite E. field. exact Hd.
    Qed.
  End Main.

  (* the same statement with the sum written out, inclusive upper limit
     min (n-1) (i+5) *)
  Corollary solve_correct_explicit n amat bvec : (1 <= n)%Z ->
    (forall j, (0 <= j < n)%Z -> pivot n amat j <> 0) ->
    forall i, (0 <= i < n)%Z ->
      sumZ (Z.max 0 (i - 5)) (Z.min (n - 1) (i + 5) + 1)
        (fun j => (if (j <=? i)%Z then amat (i + 5 * j)%Z else amat (j + 5 * i)%Z)
                  * snd (solve n amat bvec) j)
      = bvec i.
  Proof.
    intros Hn Hpiv i Hi.
    replace (Z.min (n - 1) (i + 5) + 1)%Z with (Z.min n (i + 6)) by lia.
    exact (solve_correct n amat bvec Hn Hpiv i Hi).
  Qed.

  (* solve n A (A x) = x *)
  Corollary solve_mul_id n amat (x : Z -> F) : (1 <= n)%Z ->
    (forall j, (0 <= j < n)%Z -> pivot n amat j <> 0) ->
    forall i, (0 <= i < n)%Z ->
      snd (solve n amat (bandmul n amat x)) i = x i.
  Proof.
    intros Hn Hpiv. apply (solve_unique n amat (bandmul n amat x) Hn Hpiv x).
    reflexivity.
  Qed.

  Lemma bandmul_lin n amat (al be : F) (x1 x2 : Z -> F) i :
    bandmul n amat (fun j => al * x1 j + be * x2 j) i
    = al * bandmul n amat x1 i + be * bandmul n amat x2 i.
  Proof.
    unfold bandmul.
    rewrite <- !(sumZ_scale_l Fth), <- (sumZ_add Fth).
    apply sumZ_ext. intros j Hj. ring.
  Qed.

  (* solve is linear in the right-hand side *)
  Theorem solve_linear_rhs n amat (al be : F) (b1 b2 : Z -> F) : (1 <= n)%Z ->
    (forall j, (0 <= j < n)%Z -> pivot n amat j <> 0) ->
    forall i, (0 <= i < n)%Z ->
      snd (solve n amat (fun k => al * b1 k + be * b2 k)) i
      = al * snd (solve n amat b1) i + be * snd (solve n amat b2) i.
  Proof.
    intros Hn Hpiv.
    apply (solve_unique n amat (fun k => al * b1 k + be * b2 k) Hn Hpiv
             (fun i => al * snd (solve n amat b1) i + be * snd (solve n amat b2) i)).
    intros i Hi. rewrite bandmul_lin.
    rewrite !solve_correct by assumption. reflexivity.
  Qed.

  (* nothing outside amat[0, 6n) and bvec[0, n) is written (no pivot
     hypothesis needed) *)
  Theorem solve_frame n amat bvec : (1 <= n)%Z ->
    (forall idx, (idx < 0 \/ 6 * n <= idx)%Z -> fst (solve n amat bvec) idx = amat idx) /\
    (forall k r, (1 <= r <= 5)%Z -> (n <= k + r)%Z ->
       fst (solve n amat bvec) (6 * k + r)%Z = amat (6 * k + r)%Z) /\
    (forall idx, (idx < 0 \/ n <= idx)%Z -> snd (solve n amat bvec) idx = bvec idx).
  Proof.
    intros Hn. rewrite solve_eq. cbn [fst snd].
    destruct (inv_spec n amat bvec Hn) as [_ I2'].
    destruct (factor_spec n amat Hn) as (_ & _ & Htl').
    split; [|split].
    2:{ intros k r Hr Hkr. rewrite I2' by (intros j Hj; lia). apply Htl'; assumption. }
    - intros idx Hidx.
      destruct (inv_spec n amat bvec Hn) as [_ I2].
      destruct (factor_spec n amat Hn) as (_ & Hf & Htl).
      rewrite I2 by (intros j Hj; lia). apply Hf. exact Hidx.
    - intros idx Hidx.
      rewrite (proj2 (bwd_raw n amat bvec Hn)) by lia.
      rewrite (proj2 (scl_raw n amat bvec Hn)) by lia.
      apply (proj2 (fwd_raw n amat bvec Hn)). lia.
  Qed.

  (* what the returned matrix array holds: 1/D on the diagonal, the factor
     (hence L below the diagonal, and the untouched input elsewhere) off it *)
  Theorem solve_amat_out n amat bvec : (1 <= n)%Z ->
    (forall j, (0 <= j < n)%Z ->
       fst (solve n amat bvec) (6 * j)%Z = 1 / pivot n amat j) /\
    (forall idx, (forall j, (0 <= j < n)%Z -> idx <> (6 * j)%Z) ->
       fst (solve n amat bvec) idx = ldl n amat idx).
  Proof. intros Hn. rewrite solve_eq. cbn [fst]. exact (inv_spec n amat bvec Hn). Qed.
End BandLDL.

(* ------------------------------------------------------------------ *)
(* Non-vacuity: a concrete indefinite 11x11 rational system (n = 11, all
   eleven diagonals populated, pivots of both signs) meets the pivot
   hypothesis; [solve] returns its exact solution [exX]; the right-hand side
   [exB] is A exX.  The entries 77 are the unused tail of the band storage
   (rows >= n): they are never read.  Computed on Q (Base/ExecQ.v, [QOps]). *)
Import ListNotations.

(* Bounded quantifiers by one evaluation: the array is computed once (the
   [let] is evaluated first by the VM), then read at every index. *)
Lemma in_range n j : 0 <= j < n -> In j (range n).
Proof.
  intros Hj. unfold range. apply in_map_iff. exists (Z.to_nat j). split; [lia|].
  apply in_seq. lia.
Qed.

Lemma eq_by_dump {A} n (f g : Z -> A) :
  (let f' := f in map f' (range n)) = (let g' := g in map g' (range n)) ->
  forall i, 0 <= i < n -> f i = g i.
Proof.
  cbv zeta. intros H i Hi.
  rewrite map_ext_in_iff in H. apply H. apply in_range. exact Hi.
Qed.

Lemma nz_by_test {A} (t : A -> bool) (z : A) n (a : Z -> A) :
  t z = true ->
  (let a' := a in forallb (fun j => negb (t (a' (6 * j)))) (range n)) = true ->
  forall j, 0 <= j < n -> a (6 * j) <> z.
Proof.
  cbv zeta. intros Hz H j Hj E.
  rewrite forallb_forall in H. specialize (H j (in_range n j Hj)).
  rewrite E, Hz in H. discriminate H.
Qed.

Definition qzero (q : Q) : bool := (Qnum q =? 0)%Z.
Definition czero (c : Q * Q) : bool := qzero (fst c) && qzero (snd c).

(* (the statements are matched syntactically with [exact]: letting [apply]
   unify would make the unifier evaluate the solver by lazy reduction) *)
Ltac by_dump n f g :=
  let H := fresh "H" in
  assert (H : (let f' := f in map f' (range n)) = (let g' := g in map g' (range n)))
    by (vm_compute; reflexivity);
  exact (eq_by_dump n _ _ H).
Ltac by_nz t n a :=
  let H := fresh "H" in
  unfold pivot;
  assert (H : (let a' := a in forallb (fun j => negb (t (a' (6 * j)))) (range n)) = true)
    by (vm_compute; reflexivity);
  exact (nz_by_test t 0%F n a eq_refl H).

Definition exA : Z -> Q := arr1_of
  [ qz (5) 2; qz (4) 1; qz (-5) 1; qz (-1) 1; qz (1) 1; qz (-6) 1;
    qz (-6) 1; qz (-3) 1; qz (1) 2; qz (-6) 1; qz (-3) 1; qz (3) 4;
    qz (3) 1; qz (1) 1; qz (-1) 2; qz (-4) 1; qz (1) 1; qz (1) 1;
    qz (3) 2; qz (-5) 1; qz (3) 1; qz (3) 2; qz (1) 4; qz (2) 1;
    qz (-3) 1; qz (-1) 1; qz (3) 1; qz (5) 2; qz (-5) 3; qz (1) 2;
    qz (-5) 2; qz (3) 1; qz (-5) 4; qz (-4) 3; qz (-1) 1; qz (0) 1;
    qz (4) 1; qz (-1) 3; qz (3) 4; qz (3) 4; qz (-5) 1; qz (77) 1;
    qz (-5) 1; qz (-2) 1; qz (1) 1; qz (-1) 2; qz (77) 1; qz (77) 1;
    qz (-8) 1; qz (1) 3; qz (-4) 1; qz (77) 1; qz (77) 1; qz (77) 1;
    qz (6) 1; qz (2) 1; qz (77) 1; qz (77) 1; qz (77) 1; qz (77) 1;
    qz (2) 1; qz (77) 1; qz (77) 1; qz (77) 1; qz (77) 1; qz (77) 1 ].
Definition exX : Z -> Q := arr1_of
  [ qz (3) 5; qz (-7) 2; qz (1) 1; qz (8) 3; qz (-1) 1; qz (8) 3;
    qz (4) 3; qz (3) 2; qz (-5) 1; qz (-2) 1; qz (-1) 1 ].
Definition exB : Z -> Q := arr1_of
  [ qz (-223) 6; qz (311) 15; qz (35) 6; qz (321) 40; qz (1391) 60;
    qz (641) 40; qz (287) 24; qz (-65) 18; qz (403) 9; qz (-49) 3;
    qz (79) 12 ].

Example pivot_example :
  (forall j, 0 <= j < 11 -> pivot 11 exA j <> 0%F) /\
  (forall i, 0 <= i < 11 -> bandmul 11 exA exX i = exB i) /\
  (forall i, 0 <= i < 11 -> snd (solve 11 exA exB) i = exX i) /\
  pivot 11 exA 1 = qz (-62) 5 /\ pivot 11 exA 10 = qz (-93879183835848) 37965020020745.
Proof.
  split; [|split; [|split; [|split]]].
  - by_nz qzero 11 (ldl 11 exA).
  - by_dump 11 (bandmul 11 exA exX) exB.
  - by_dump 11 (snd (solve 11 exA exB)) exX.
  - vm_compute; reflexivity.
  - vm_compute; reflexivity.
Qed.

(* The use case in emg3d: a complex symmetric (not Hermitian) 11x11 system,
   numbers = pairs of rationals ([CxOps] over [QOps]). *)
Definition arrc_of (l : list (Q * Q)) : Z -> Q * Q := arr_of_list (0%Q, 0%Q) l.
Definition exAc : Z -> Q * Q := arrc_of
  [
    cq (5) 1 (5) 2; cq (1) 1 (-1) 1; cq (2) 1 (-2) 1;
    cq (3) 2 (-2) 1; cq (4) 3 (-2) 1; cq (1) 1 (-2) 1;
    cq (8) 1 (5) 1; cq (-4) 1 (-1) 1; cq (-2) 1 (1) 2;
    cq (-1) 3 (-1) 2; cq (3) 1 (-3) 2; cq (0) 1 (4) 1;
    cq (7) 1 (3) 2; cq (-1) 3 (0) 1; cq (-1) 1 (-3) 2;
    cq (-3) 2 (2) 1; cq (-4) 3 (-4) 1; cq (-1) 1 (3) 2;
    cq (7) 1 (2) 1; cq (-1) 1 (-1) 2; cq (1) 1 (0) 1;
    cq (-2) 1 (-3) 1; cq (-1) 3 (-3) 1; cq (-2) 1 (3) 1;
    cq (7) 1 (5) 1; cq (1) 1 (-1) 1; cq (2) 3 (2) 1;
    cq (1) 1 (-1) 1; cq (0) 1 (0) 1; cq (-1) 1 (2) 1;
    cq (2) 1 (2) 1; cq (3) 2 (-2) 1; cq (0) 1 (-3) 1;
    cq (-3) 1 (-1) 1; cq (1) 2 (3) 1; cq (1) 1 (-1) 1;
    cq (3) 1 (6) 1; cq (0) 1 (-1) 1; cq (-2) 3 (4) 1;
    cq (1) 1 (-3) 2; cq (-4) 1 (-3) 1; cq (77) 1 (-77) 1;
    cq (6) 1 (3) 1; cq (1) 1 (1) 1; cq (0) 1 (-2) 1;
    cq (-2) 1 (3) 1; cq (77) 1 (-77) 1; cq (77) 1 (-77) 1;
    cq (4) 1 (2) 1; cq (-4) 1 (0) 1; cq (3) 1 (-4) 1;
    cq (77) 1 (-77) 1; cq (77) 1 (-77) 1; cq (77) 1 (-77) 1;
    cq (3) 1 (3) 2; cq (4) 3 (-2) 1; cq (77) 1 (-77) 1;
    cq (77) 1 (-77) 1; cq (77) 1 (-77) 1; cq (77) 1 (-77) 1;
    cq (4) 1 (1) 1; cq (77) 1 (-77) 1; cq (77) 1 (-77) 1;
    cq (77) 1 (-77) 1; cq (77) 1 (-77) 1; cq (77) 1 (-77) 1 ].
Definition exXc : Z -> Q * Q := arrc_of
  [
    cq (0) 1 (3) 1; cq (4) 1 (-5) 2; cq (0) 1 (-1) 1;
    cq (-5) 3 (5) 1; cq (2) 1 (-1) 2; cq (-3) 1 (-2) 1;
    cq (3) 2 (-5) 1; cq (0) 1 (-2) 1; cq (-2) 1 (-5) 2;
    cq (4) 1 (2) 1; cq (1) 3 (-5) 1 ].
Definition exBc : Z -> Q * Q := arrc_of
  [
    cq (-35) 6 (50) 3; cq (653) 12 (-1) 6; cq (-853) 36 (1) 2;
    cq (-241) 6 (277) 6; cq (223) 12 (65) 6; cq (-29) 6 (-59) 6;
    cq (158) 3 (65) 3; cq (583) 18 (-25) 6; cq (-65) 3 (-37) 1;
    cq (17) 18 (23) 12; cq (-61) 3 (-4) 1 ].

Example pivot_example_complex :
  (forall j, 0 <= j < 11 -> pivot 11 exAc j <> 0%F) /\
  (forall i, 0 <= i < 11 -> bandmul 11 exAc exXc i = exBc i) /\
  (forall i, 0 <= i < 11 -> snd (solve 11 exAc exBc) i = exXc i).
Proof.
  split; [|split].
  - by_nz czero 11 (ldl 11 exAc).
  - by_dump 11 (bandmul 11 exAc exXc) exBc.
  - by_dump 11 (snd (solve 11 exAc exBc)) exXc.
Qed.

Print Assumptions solve_correct.
Print Assumptions solve_correct_explicit.
Print Assumptions solve_unique.
Print Assumptions solve_mul_id.
Print Assumptions solve_linear_rhs.
Print Assumptions solve_frame.
Print Assumptions solve_amat_out.
Print Assumptions factor_spec.
Print Assumptions pivot_example.
Print Assumptions pivot_example_complex.
