(* Proofs/RestrictW.v -- closed forms of the generated [restrict_weights]
   (Gen/CoreRestrict.v, regenerated from emg3d/core.py) on a tensor mesh whose
   coarse grid consists of every second fine node. *)
From Coq Require Import ZArith Lia Bool Field.
From V Require Import Base.Loops Base.Loops1 Base.Arr Base.FieldSig Base.Tactics.
From V Require Import Gen.CoreRestrict.
Local Open Scope Z_scope.

Section RestrictW.
  Context {F : Type} {O : FOps F}.
  Hypothesis Fth : field_theory F0 F1 Fadd Fmul Fsub Fopp Fdiv Finv (@eq F).
  Hypothesis two_nz : (1 + 1)%F <> 0%F.
  Add Field Fw : Fth.

  Variables (nodes cell_centers h cnodes ccell_centers ch : Z -> F).
  Variables (n lh lch ln : Z).   (* len(cnodes), len(h), len(ch), len(nodes) *)

  Notation RW := (restrict_weights n lh lch ln nodes cell_centers h cnodes ccell_centers ch).

  Definition dual (i : Z) : F := ((h (2*i-2) + h (2*i-1)) / (1+1))%F.

  Hypothesis hpair_nz : forall i, (h (2*i-2) + h (2*i-1))%F <> 0%F.

  Lemma one_nz : (1 : F)%F <> 0%F.
  Proof. exact (Field_theory.F_1_neq_0 Fth). Qed.

  Ltac side := first [ exact two_nz | exact one_nz | apply hpair_nz ].
  Ltac in_range := symmetry; apply andb_true_iff; split; [apply Z.leb_le|apply Z.ltb_lt]; lia.

  (* what the code computes, for the interior coarse nodes *)
  Lemma rw_left_raw I : 1 <= I < n ->
    fst (fst RW) I = ((1 / dual I) * (cell_centers (2*I-1) - ccell_centers (I-1)))%F.
  Proof.
    intros HI. unfold restrict_weights. cbv zeta. cbn [fst snd].
    unfold restrict_weights_L2, restrict_weights_L1. cbv zeta.
    rewrite (Zfold_upd1_pointwise
               (fun i v => (v * (cell_centers (2*i-1) - ccell_centers (i-1)))%F)) by lia.
    replace ((1 <=? I) && (I <? n))%bool with true by in_range.
    rewrite upd1_other by lia.
    rewrite (Zfold_upd1_pointwise (fun i _ => ((h (2*i-2) + h (2*i-1)) / Flit 2 1)%F)) by lia.
    replace ((1 <=? I) && (I <? n))%bool with true by in_range.
    unfold dual. flit. field. repeat split; side.
  Qed.

  Lemma rw_center I : snd (fst RW) I = 1%F.
  Proof. unfold restrict_weights. cbv zeta. cbn [fst snd]. reflexivity. Qed.

  Lemma rw_right_raw I : 0 <= I < n - 1 ->
    snd RW I = ((1 / dual (I+1)) * (ccell_centers I - cell_centers (2*I)))%F.
  Proof.
    intros HI. unfold restrict_weights. cbv zeta. cbn [fst snd].
    unfold restrict_weights_L3, restrict_weights_L1. cbv zeta.
    rewrite (Zfold_upd1_pointwise
               (fun i v => (v * (ccell_centers i - cell_centers (2*i)))%F)) by lia.
    replace ((0 <=? I) && (I <? n - 1))%bool with true by in_range.
    rewrite upd1_other by lia.
    rewrite (Zfold_upd1_pointwise (fun i _ => ((h (2*i-2) + h (2*i-1)) / Flit 2 1)%F)) by lia.
    replace ((1 <=? I + 1) && (I + 1 <? n))%bool with true by in_range.
    unfold dual. flit. field. repeat split; side.
  Qed.

  (* --- on a tensor mesh ------------------------------------------------- *)
  Hypothesis cc_def : forall j, cell_centers j = (nodes j + h j / (1+1))%F.
  Hypothesis node_step : forall j, nodes (j+1) = (nodes j + h j)%F.
  Hypothesis cnode_def : forall I, cnodes I = nodes (2*I).
  Hypothesis ch_def : forall I, ch I = (h (2*I) + h (2*I+1))%F.
  Hypothesis ccc_def : forall I, ccell_centers I = (cnodes I + ch I / (1+1))%F.

  Theorem rw_left_closed I : 1 <= I < n ->
    fst (fst RW) I = (h (2*I-2) / (h (2*I-2) + h (2*I-1)))%F.
  Proof.
    intros HI. rewrite rw_left_raw by assumption. unfold dual.
    rewrite ccc_def, cnode_def, ch_def, cc_def.
    replace (2 * I - 1) with ((2 * I - 2) + 1) at 2 by lia. rewrite node_step.
    replace (2 * (I - 1)) with (2 * I - 2) by lia.
    replace (2 * I - 2 + 1) with (2 * I - 1) by lia.
    field. repeat split; side.
  Qed.

  Theorem rw_right_closed I : 0 <= I < n - 1 ->
    snd RW I = (h (2*I+1) / (h (2*I) + h (2*I+1)))%F.
  Proof.
    intros HI. rewrite rw_right_raw by assumption. unfold dual.
    rewrite ccc_def, cnode_def, ch_def, cc_def.
    replace (2 * (I + 1) - 2) with (2 * I) by lia.
    replace (2 * (I + 1) - 1) with (2 * I + 1) by lia.
    pose proof (hpair_nz (I+1)) as Hn.
    replace (2 * (I + 1) - 2) with (2 * I) in Hn by lia.
    replace (2 * (I + 1) - 1) with (2 * I + 1) in Hn by lia.
    field. repeat split; first [exact Hn | side].
  Qed.

  (* the two weights that a fine odd node 2I+1 receives (right weight of coarse
     node I, left weight of coarse node I+1) sum to one: partition of unity *)
  Theorem rw_partition_of_unity I : 0 <= I < n - 1 ->
    (snd RW I + fst (fst RW) (I+1)%Z)%F = 1%F.
  Proof.
    intros HI. rewrite rw_right_closed by assumption. rewrite rw_left_closed by lia.
    replace (2 * (I + 1) - 2) with (2 * I) by lia.
    replace (2 * (I + 1) - 1) with (2 * I + 1) by lia.
    pose proof (hpair_nz (I+1)) as Hn.
    replace (2 * (I + 1) - 2) with (2 * I) in Hn by lia.
    replace (2 * (I + 1) - 1) with (2 * I + 1) in Hn by lia.
    field. exact Hn.
  Qed.
End RestrictW.
