(* Proofs/JtWeights.v -- C08 (round 6): for EVERY history of public operations
   on one Simulation, what jtvec hands to the back-propagation solve does not
   depend on the noise model / the cached weights, and the adjoint identity
   holds on every reachable state.  Model: Model/JtWeights.v. *)
From Coq Require Import ZArith List Bool Ring Field Lia.
From V Require Import Base.FieldSig Base.Sums Model.Adjoint Model.JtWeights Proofs.Adjoint.
Import ListNotations.

Section JtWeightsProofs.
  Context {K : Type} {O : FOps K}.
  Hypothesis Fth : field_theory F0 F1 Fadd Fmul Fsub Fopp Fdiv Finv (@eq K).
  Hypothesis two_nz : (1 + 1)%F <> 0%F.
  Add Field Kjw : Fth.
  Local Open Scope F_scope.

  Variable conj : K -> K.
  Hypothesis conj_add : forall x y, conj (x + y) = conj x + conj y.
  Hypothesis conj_mul : forall x y, conj (x * y) = conj x * conj y.
  Hypothesis conj_invol : forall x, conj (conj x) = x.

  Context {IE IC ID IM : Type}.
  Variables (E : list IE) (C : list IC) (Dt : list ID) (M : list IM).
  Variable K0 : (IE -> K) -> IE -> K.
  Variable Av : (IC -> K) -> IE -> K.
  Variable AvT : (IE -> K) -> IC -> K.
  Variable s : K.
  Variable p : ID -> IE -> K.
  Variable fin : ID -> bool.
  Hypothesis K0_sym : forall u v, dotE E (K0 u) v = dotE E u (K0 v).
  Hypothesis Av_T : forall a x, dotE E (Av a) x = dotC C a (AvT x).
  Hypothesis Av_real : forall a, (forall k, conj (a k) = a k) ->
                                 forall i, conj (Av a i) = Av a i.
  Hypothesis s_imag : conj s = - s.
  Hypothesis s_nz : s <> 0.

  Notation good_sd := (good_sd conj fin).
  Notation good_w := (good_w conj fin).
  Notation good_state := (good_state conj fin).
  Notation good_op := (good_op conj fin).
  Notation step := (step conj Dt s p fin).
  Notation final := (final conj Dt s p fin).
  Notation run := (run conj Dt s p fin).
  Notation jt_source := (jt_source conj Dt s p fin).
  Notation jt_source_ideal := (jt_source_ideal conj Dt p fin).

  Let cdiv := conj_div Fth conj conj_add conj_mul conj_invol.
  Let copp := conj_opp Fth conj conj_add.
  Let cnz := conj_nz Fth conj conj_add conj_invol.

  Lemma neg_s_nz' : - s <> 0.
  Proof. intros H. apply s_nz. transitivity (- - s); [ring|]. rewrite H. ring. Qed.

  Lemma one_nz : (1 : K) <> 0.
  Proof. exact (F_1_neq_0 Fth). Qed.

  Lemma conj_1 : conj 1 = 1.
  Proof.
    assert (N : conj 1 <> 0) by (apply cnz; exact one_nz).
    assert (E1 : conj 1 * conj 1 = conj 1) by (rewrite <- conj_mul; f_equal; ring).
    transitivity (conj 1 * conj 1 / conj 1); [field; exact N|]. rewrite E1. field. exact N.
  Qed.

  (* ---- one state: the division by the weights in jtvec and the
     multiplication by THE SAME weights in _get_rfield cancel ----------------- *)
  Lemma jt_source_any_weights w y i :
    good_w w -> jt_source w y i = jt_source_ideal y i.
  Proof.
    intros Hw. unfold JtWeights.jt_source, JtWeights.jt_source_ideal, Adjoint.rsource, Adjoint.PT.
    rewrite <- (sum_opp Fth). apply sum_ext. intros j _.
    destruct (fin j) eqn:Ej; [|ring].
    destruct (Hw j Ej) as [Hr Hn].
    unfold Adjoint.strength, Adjoint.jt_residual.
    rewrite cdiv by exact neg_s_nz'.
    rewrite conj_mul, cdiv by exact Hn.
    rewrite Hr, copp, s_imag.
    replace (- - s) with s by ring. field. split; assumption.
  Qed.

  Lemma weights_of_good sd : good_sd sd -> good_w (weights_of sd).
  Proof.
    intros H j Ej. destruct (H j Ej) as [Hr Hn]. unfold weights_of.
    assert (N2 : sd j * sd j <> 0).
    { intros Z. apply Hn. transitivity (sd j * sd j / sd j); [field; exact Hn|].
      rewrite Z. field. exact Hn. }
    split.
    - rewrite cdiv by exact N2. rewrite conj_mul, Hr, conj_1. reflexivity.
    - intros Z. apply one_nz. transitivity (1 / (sd j * sd j) * (sd j * sd j)); [field; exact Hn|].
      rewrite Z. ring.
  Qed.

  (* ---- invariant over all histories --------------------------------------- *)
  Lemma do_misfit_good st : good_state st -> good_state (do_misfit st).
  Proof.
    intros (Hs & Hw & Hm). unfold do_misfit. destruct (st_mis st) eqn:Em.
    - split; [|split]; [exact Hs | exact Hw | intros _; now apply Hm].
    - split; [|split]; cbn.
      + exact Hs.
      + intros w. destruct (st_w st) eqn:Ew.
        * intros Q. inversion Q; subst. now apply Hw.
        * intros Q. inversion Q; subst. now apply weights_of_good.
      + intros _. destruct (st_w st); discriminate.
  Qed.

  Lemma do_misfit_has_weights st :
    good_state st -> exists w, st_w (do_misfit st) = Some w /\ good_w w.
  Proof.
    intros G. pose proof (do_misfit_good st G) as (Hs & Hw & Hm).
    assert (Mt : st_mis (do_misfit st) = true).
    { unfold do_misfit. destruct (st_mis st) eqn:Em; [exact Em | reflexivity]. }
    destruct (st_w (do_misfit st)) as [w|] eqn:Ew.
    - exists w. split; [reflexivity | now apply Hw].
    - exfalso. now apply (Hm Mt).
  Qed.

  Lemma step_good st o : good_state st -> good_op o -> good_state (fst (step st o)).
  Proof.
    intros G Ho. destruct o; cbn.
    - now apply do_misfit_good.
    - now apply do_misfit_good.
    - now apply do_misfit_good.
    - destruct G as (Hs & Hw & Hm). split; [|split]; cbn; assumption.
    - destruct G as (Hs & Hw & Hm). split; [|split]; cbn.
      + exact Hs.
      + intros w Q. discriminate.
      + intros Q. discriminate.
    - destruct (st_w (do_misfit st)); cbn; now apply do_misfit_good.
  Qed.

  Lemma final_good ops : forall st,
    good_state st -> Forall good_op ops -> good_state (final ops st).
  Proof.
    induction ops as [|o r IH]; intros st G F; cbn.
    - exact G.
    - inversion F; subst. apply IH; [now apply step_good | assumption].
  Qed.

  Lemma fresh_good sd : good_sd sd -> good_state (fresh sd).
  Proof.
    intros H. split; [|split]; cbn.
    - exact H.
    - intros w Q. discriminate.
    - intros Q. discriminate.
  Qed.

  (* ---- (A) jtvec after ANY history: never fails, and hands the solver the
     history-independent source ------------------------------------------------ *)
  Theorem jtvec_after_history ops st y :
    good_state st -> Forall good_op ops ->
    exists f, snd (step (final ops st) (OpJtvec y)) = Rsource f
              /\ forall i, f i = jt_source_ideal y i.
  Proof.
    intros G F. pose proof (final_good ops st G F) as Gf.
    destruct (do_misfit_has_weights _ Gf) as (w & Ew & Gw).
    exists (jt_source w y). split.
    - cbn. rewrite Ew. reflexivity.
    - intros i. now apply jt_source_any_weights.
  Qed.

  (* (A') two arbitrary histories on two arbitrary (good) simulations -- e.g. a
     re-used one whose noise model changed after the weights were cached and a
     fresh one with any noise model -- pose the same adjoint problem *)
  Theorem jtvec_history_independent ops1 ops2 st1 st2 y f1 f2 :
    good_state st1 -> good_state st2 -> Forall good_op ops1 -> Forall good_op ops2 ->
    snd (step (final ops1 st1) (OpJtvec y)) = Rsource f1 ->
    snd (step (final ops2 st2) (OpJtvec y)) = Rsource f2 ->
    forall i, f1 i = f2 i.
  Proof.
    intros G1 G2 F1 F2 H1 H2 i.
    destruct (jtvec_after_history ops1 st1 y G1 F1) as (g1 & E1 & I1).
    destruct (jtvec_after_history ops2 st2 y G2 F2) as (g2 & E2 & I2).
    rewrite H1 in E1. rewrite H2 in E2. inversion E1; inversion E2; subst.
    now rewrite I1, I2.
  Qed.

  (* jtvec leaves behind exactly what a misfit evaluation leaves behind
     (weights cached if they were not; nothing else of the book-keeping moves) *)
  Theorem jtvec_state_is_misfit_state st y :
    fst (step st (OpJtvec y)) = fst (step st OpMisfit).
  Proof. cbn. destruct (st_w (do_misfit st)); reflexivity. Qed.

  (* ---- (B) the adjoint identity on every reachable state -------------------- *)
  Section AdjointOnReachable.
    Variable V : (IM -> K) -> IC -> K.
    Variable VT : (IC -> K) -> IM -> K.
    Variable c : IM -> K.
    Variables (sig : IC -> K) (e u b : IE -> K) (v : IM -> K).
    Hypothesis V_T : forall a x, dotC C (V a) x = dotM M a (VT x).
    Hypothesis V_real : forall a, (forall m, conj (a m) = a m) ->
                                  forall k, conj (V a k) = V a k.
    Hypothesis c_real : forall m, conj (c m) = c m.
    Hypothesis v_real : forall m, conj (v m) = v m.
    Hypothesis Hu : forall i, In i E ->
        Aop K0 Av s sig u i = jsource Av s e (jvec_dsig V c v) i.

    Theorem jt_adjoint_reachable ops st y f :
      good_state st -> Forall good_op ops ->
      snd (step (final ops st) (OpJtvec y)) = Rsource f ->
      (forall i, In i E -> Aop K0 Av s sig b i = f i) ->
      re conj (sum (filter fin Dt) (fun j => conj (y j) * P E p u j))
      = dotM M (jtvec_of conj AvT s VT c e b) v.
    Proof.
      intros G F Hf Hb.
      destruct (jtvec_after_history ops st y G F) as (g & Eg & Ig).
      rewrite Hf in Eg. inversion Eg; subst g.
      set (w1 := fun _ : ID => (1 : K)).
      assert (G1 : good_w w1).
      { intros j _. split; [exact conj_1 | exact one_nz]. }
      apply (jt_adjoint_eq Fth two_nz conj conj_add conj_mul conj_invol E C Dt M K0 Av AvT s p
               fin w1 K0_sym Av_T Av_real (fun _ => conj_1) s_imag s_nz V VT c sig e u b v y
               V_T V_real c_real v_real (fun _ _ => one_nz) Hu).
      intros i Hi. rewrite (Hb i Hi), Ig.
      symmetry. exact (jt_source_any_weights w1 y i G1).
    Qed.
  End AdjointOnReachable.

  (* ---- (C) applied to the weighted residual (weighted with the weights the
     state holds, i.e. those the gradient uses) jtvec poses the adjoint problem
     of the gradient, on every reachable state -------------------------------- *)
  Theorem jtvec_weighted_residual_reachable ops st r w :
    good_state st -> Forall good_op ops ->
    st_w (do_misfit (final ops st)) = Some w ->
    snd (step (final ops st) (OpJtvec (fun j => r j * w j)))
    = Rsource (jt_source w (fun j => r j * w j))
    /\ forall i, jt_source w (fun j => r j * w j) i = rsource conj Dt s p fin w r i.
  Proof.
    intros G F Ew. split.
    - cbn. rewrite Ew. reflexivity.
    - intros i. pose proof (final_good ops st G F) as Gf.
      destruct (do_misfit_good _ Gf) as (_ & Hw & _).
      pose proof (Hw w Ew) as Gw.
      unfold JtWeights.jt_source.
      apply (jtvec_weighted_residual_source Fth conj Dt s p fin w r i).
      intros j Ej. now destruct (Gw j Ej).
  Qed.
End JtWeightsProofs.
