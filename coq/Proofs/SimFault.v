(* Proofs/SimFault.v -- operations that raise mid-way (Model/SimFault.v) preserve
   the coherence invariant; history independence for histories that include
   failed operations; a jtvec that raises restores residual and gradient cache;
   refutation of the variant without `finally`.  (Property C12, fault paths.) *)
From Coq Require Import ZArith List Bool Arith Lia.
From V Require Import Model.SimMachine Model.SimFault Proofs.SimMachine.
Import ListNotations.

(* ------------------------------------------------- invariant: frame lemmas *)
Lemma inv_ext n s s' : Inv_sim n s ->
  s_model s' = s_model s -> s_efield s' = s_efield s -> s_syn s' = s_syn s ->
  s_computed s' = s_computed s -> s_residual s' = s_residual s -> s_weights s' = s_weights s ->
  s_misfit s' = s_misfit s -> s_gradient s' = s_gradient s -> Inv_sim n s'.
Proof.
  intros H E1 E2 E3 E4 E5 E6 E7 E8. unfold Inv_sim; cbv zeta.
  rewrite E1, E2, E3, E4, E5, E6, E7, E8. exact H.
Qed.

(* same, but the gradient cache was dropped *)
Lemma inv_gnone n s s' : Inv_sim n s ->
  s_model s' = s_model s -> s_efield s' = s_efield s -> s_syn s' = s_syn s ->
  s_computed s' = s_computed s -> s_residual s' = s_residual s -> s_weights s' = s_weights s ->
  s_misfit s' = s_misfit s -> s_gradient s' = None -> Inv_sim n s'.
Proof.
  intros H E1 E2 E3 E4 E5 E6 E7 E8. inv_destruct H. unfold Inv_sim; cbv zeta.
  rewrite E1, E2, E3, E4, E5, E6, E7, E8.
  repeat (split; [assumption|]). intros t Ht. discriminate.
Qed.

Lemma inv_efok n s : Inv_sim n s -> EfOK s.
Proof. intros H. inv_destruct H. exact He. Qed.

(* ------------------------------------------------- the forward batch raises *)
Lemma fwd_fault_mem st s sl : EfOK s ->
  fwd_fault false st s sl = mkRes (match sl with [] => s | _ => set_tol s TFwd end) st [] (Some EInj).
Proof.
  intros He. unfold fwd_fault.
  rewrite (existsb_all_false _ _ (fun i => missing_mem st s i He)). reflexivity.
Qed.

Lemma fwd_fault_inv n st s sl : Inv_sim n s ->
  let r := fwd_fault false st s sl in
  r_err r = Some EInj /\ Inv_sim n (r_sim r) /\ s_model (r_sim r) = s_model s /\
  s_gradient (r_sim r) = s_gradient s.
Proof.
  intros H. cbv zeta. rewrite (fwd_fault_mem st s sl (inv_efok n s H)).
  cbn [r_err r_sim]. destruct sl; auto.
Qed.

Lemma do_compute_f_mem fl n st s : Inv_sim n s ->
  let r := do_compute_f fl n false st s in
  Inv_sim n (r_sim r) /\ s_model (r_sim r) = s_model s.
Proof.
  intros H. cbv zeta. unfold do_compute_f. destruct (is_fwd fl).
  - destruct (fwd_fault_inv n st s (seq 0 n) H) as (_ & A & B & _). auto.
  - destruct (do_compute_mem n st s H) as (_ & A & B & _). auto.
Qed.

Lemma do_misfit_f_cases fl n f st s :
  do_misfit_f fl n f st s = do_misfit n f st s \/
  do_misfit_f fl n f st s = fwd_fault f st s (seq 0 n).
Proof. unfold do_misfit_f. destruct (_ && _); auto. Qed.

Lemma do_misfit_f_cached fl n f st s t : s_misfit s = Some t ->
  do_misfit_f fl n f st s = mkRes s st [] None.
Proof.
  intros E. unfold do_misfit_f. rewrite E. cbn [isSome negb]. rewrite andb_false_r. cbn [andb].
  apply (do_misfit_cached n f st s t E).
Qed.

Lemma do_misfit_f_mem fl n st s : Inv_sim n s ->
  let r := do_misfit_f fl n false st s in
  Inv_sim n (r_sim r) /\ s_model (r_sim r) = s_model s /\ s_gradient (r_sim r) = s_gradient s /\
  (r_err r = None -> s_misfit (r_sim r) = Some (Misfit (s_model s))).
Proof.
  intros H. cbv zeta. destruct (do_misfit_f_cases fl n false st s) as [E|E]; rewrite E.
  - destruct (do_misfit_mem n st s H) as (_ & A & B & C & D). auto.
  - destruct (fwd_fault_inv n st s (seq 0 n) H) as (A & B & C & D).
    repeat (split; [assumption|]). rewrite A. discriminate.
Qed.

Lemma ensure_slot_f_mem fl n st s i : Inv_sim n s ->
  let r := ensure_slot_f fl false st s i in
  Inv_sim n (r_sim r) /\ s_model (r_sim r) = s_model s.
Proof.
  intros H. cbv zeta. pose proof (inv_efok n s H) as He.
  assert (Hplain : Inv_sim n (r_sim (ensure_slot false st s i)) /\
                   s_model (r_sim (ensure_slot false st s i)) = s_model s).
  { unfold ensure_slot. rewrite eff_mem. destruct (s_efield s i) as [t|] eqn:Ee.
    - rewrite (He i t Ee). cbn. auto.
    - rewrite (compute_slots_mem st s [i] He). cbn [r_sim]. split; [apply after_fwd_inv; exact H|].
      apply after_fwd_model. }
  unfold ensure_slot_f. destruct (eff false st s i); [exact Hplain|].
  destruct (is_fwd fl); [|exact Hplain].
  destruct (fwd_fault_inv n st s [i] H) as (_ & A & B & _). auto.
Qed.

(* ------------------------------------------------- gradient with a fault *)
Definition core_same (s s' : sim) : Prop :=
  s_model s' = s_model s /\ s_efield s' = s_efield s /\ s_syn s' = s_syn s /\
  s_computed s' = s_computed s /\ s_residual s' = s_residual s /\ s_weights s' = s_weights s /\
  s_misfit s' = s_misfit s.

Lemma grad_core_f_cases fl q n f st s : s_gradient s = None ->
  grad_core_f fl q n f st s = grad_core q n f st s \/
  (r_err (grad_core_f fl q n f st s) = Some EInj /\
   core_same s (r_sim (grad_core_f fl q n f st s)) /\
   s_gradient (r_sim (grad_core_f fl q n f st s)) = None).
Proof.
  intros Eg. unfold grad_core_f. destruct (q_keep q); [left; reflexivity|].
  destruct fl as [|kd|]; [|destruct kd|]; try (left; reflexivity).
  - right. cbn [r_err r_sim]. unfold core_same. repeat split; auto.
  - destruct (first_todo _ _ _ _); [|left; reflexivity].
    right. cbn [r_err r_sim]. unfold core_same. repeat split; auto.
  - right. cbn [r_err r_sim]. unfold core_same. repeat split; auto.
Qed.

Lemma grad_core_f_mem fl q n st s : q_keep q = false ->
  EfOK s -> s_weights s = Some Weights ->
  (s_residual s = Some (Residual (s_model s)) \/ exists w, s_residual s = Some (WOverW w)) ->
  s_gradient s = None ->
  let r := grad_core_f fl q n false st s in
  s_model (r_sim r) = s_model s /\ s_computed (r_sim r) = s_computed s /\
  s_misfit (r_sim r) = s_misfit s /\ s_residual (r_sim r) = s_residual s /\
  s_weights (r_sim r) = s_weights s /\ EfOK (r_sim r) /\
  (forall i, s_syn (r_sim r) i = s_syn s i \/ s_syn (r_sim r) i = Syn (s_model s) i) /\
  (forall i, s_syn s i = Syn (s_model s) i -> s_syn (r_sim r) i = Syn (s_model s) i) /\
  (r_err r = None -> s_gradient (r_sim r) = Some (grad_expected s)) /\
  (r_err r <> None -> s_gradient (r_sim r) = None).
Proof.
  intros Hq He Ew Er Eg. cbv zeta.
  destruct (grad_core_f_cases fl q n false st s Eg) as [E | (E1 & (C1 & C2 & C3 & C4 & C5 & C6 & C7) & E3)].
  - rewrite E. pose proof (grad_core_mem q n st s Hq He Ew Er) as HG. cbv zeta in HG.
    destruct HG as (G1 & G2 & G3 & G4 & G5 & G6 & G7 & G8 & G9 & G10).
    repeat (split; [assumption|]). split; [intros _; exact G2|]. intros X. rewrite G1 in X. congruence.
  - set (r := grad_core_f fl q n false st s) in *.
    repeat (split; [assumption|]).
    split. { intros i t. rewrite C1, C2. apply He. }
    split. { intros i. left. rewrite C3. reflexivity. }
    split. { intros i Hy. rewrite C3. exact Hy. }
    split; [rewrite E1; discriminate | intros _; exact E3].
Qed.

Lemma do_gradient_f_mem fl q n st s : q_keep q = false -> Inv_sim n s ->
  let r := do_gradient_f fl q n false st s in
  Inv_sim n (r_sim r) /\ s_model (r_sim r) = s_model s /\
  (r_err r = None -> s_gradient (r_sim r) = Some (Grad (s_model s))).
Proof.
  intros Hq H. cbv zeta. pose proof H as H0. inv_destruct H0. unfold do_gradient_f.
  destruct (s_gradient s) as [g|] eqn:Eg.
  - cbn [r_sim r_err]. rewrite (Hg g eq_refl) in Eg. auto.
  - pose proof (do_misfit_f_mem fl n st s H) as HM. cbv zeta in HM.
    destruct HM as (M2 & M3 & M5 & M4).
    destruct (r_err (do_misfit_f fl n false st s)) as [e|] eqn:Ee.
    + split; [exact M2|]. split; [exact M3|]. rewrite Ee. discriminate.
    + specialize (M4 eq_refl).
      set (s1 := r_sim (do_misfit_f fl n false st s)) in *.
      set (st1 := r_store (do_misfit_f fl n false st s)).
      pose proof M2 as M2'. inv_destruct M2'.
      destruct (Hm0 _ M4) as (_ & Er1 & Ew1).
      assert (Eg1 : s_gradient s1 = None) by (rewrite M5; exact Eg).
      pose proof (grad_core_f_mem fl q n st1 s1 Hq He0 Ew1 (or_introl Er1) Eg1) as HG. cbv zeta in HG.
      destruct HG as (G3 & G4 & G5 & G6 & G7 & G8 & G9 & G10 & G11 & G12).
      cbn [r_err r_sim r_store r_trace].
      assert (Hexp : grad_expected s1 = Grad (s_model s1)) by (unfold grad_expected; rewrite Er1; reflexivity).
      split.
      { unfold Inv_sim; cbv zeta. rewrite G3, G4, G5, G6, G7.
        split; [rewrite <- G3; exact G8|].
        split; [intros i; destruct (G9 i) as [E|E]; rewrite E; auto|].
        split; [intros Hcomp i Hi; apply G10; apply Hc0; assumption|].
        split; [assumption|]. split; [assumption|]. split; [assumption|].
        intros t E. destruct (r_err (grad_core_f fl q n false st1 s1)) as [e|] eqn:Ee2.
        - rewrite G12 in E by discriminate. discriminate.
        - rewrite (G11 eq_refl) in E. inversion E. exact Hexp. }
      split; [congruence|].
      intros X. rewrite (G11 X), Hexp, M3. reflexivity.
Qed.

(* ------------------------------------------------- jvec with a fault *)
Lemma jvec_core_f_mem fl q n st s v : q_keep q = false -> Inv_sim n s ->
  let r := jvec_core_f fl q n false st s v in
  Inv_sim n (r_sim r) /\ s_model (r_sim r) = s_model s.
Proof.
  intros Hq H. cbv zeta.
  assert (Hplain : Inv_sim n (r_sim (jvec_core q n false st s v)) /\
                   s_model (r_sim (jvec_core q n false st s v)) = s_model s).
  { destruct (jvec_core_mem q n st s v Hq H) as (_ & A & B & _). auto. }
  unfold jvec_core_f. rewrite Hq.
  destruct fl as [|kd|]; [exact Hplain|destruct kd|exact Hplain]; [| exact Hplain |].
  - destruct (first_todo _ _ _ _); [|exact Hplain]. cbn [r_sim]. split; [exact H | reflexivity].
  - rewrite (ensure_all_mem n st s (inv_efok n s H)). cbn [r_err r_sim r_store r_trace].
    destruct n as [|n']; [exact Hplain|]. cbn [r_sim].
    split.
    + apply (inv_ext (S n') (after_fwd s (todo_of (S n') s))); try reflexivity.
      apply after_fwd_inv. exact H.
    + cbn [set_tol s_model]. apply after_fwd_model.
Qed.

Lemma do_jvec_f_mem fl q n st s v : q_keep q = false -> Inv_sim n s ->
  let r := do_jvec_f fl q n false st s v in
  Inv_sim n (r_sim r) /\ s_model (r_sim r) = s_model s.
Proof.
  intros Hq H. cbv zeta. unfold do_jvec_f.
  pose proof (do_misfit_f_mem fl n st s H) as HM. cbv zeta in HM.
  destruct HM as (M2 & M3 & _ & _).
  destruct (r_err (do_misfit_f fl n false st s)); [auto|].
  pose proof (jvec_core_f_mem fl q n (r_store (do_misfit_f fl n false st s)) _ v Hq M2) as HJ.
  cbv zeta in HJ. destruct HJ as (J1 & J2). cbn [r_sim]. split; [exact J1 | congruence].
Qed.

(* ------------------------------------------------- jtvec with a fault: restore in `finally` *)
Lemma do_jtvec_f_mem fl q n st s w : q_keep q = false -> Inv_sim n s ->
  let rv := do_jtvec_f true fl n q false st s w in
  Inv_sim n (r_sim (fst rv)) /\ s_model (r_sim (fst rv)) = s_model s /\
  s_gradient (r_sim (fst rv)) = s_gradient s.
Proof.
  intros Hq H. cbv zeta. unfold do_jtvec_f.
  pose proof (do_misfit_f_mem fl n st s H) as HM. cbv zeta in HM.
  destruct HM as (M2 & M3 & M5 & M4).
  destruct (r_err (do_misfit_f fl n false st s)) as [e|] eqn:Ee; [cbn [fst]; auto|].
  specialize (M4 eq_refl).
  set (s0 := r_sim (do_misfit_f fl n false st s)) in *.
  set (st0 := r_store (do_misfit_f fl n false st s)).
  pose proof M2 as M2'. inv_destruct M2'.
  destruct (Hm _ M4) as (_ & Er0 & Ew0).
  set (s1 := set_grad (set_residual s0 (wow s0 w)) None false).
  assert (Hwow : wow s0 w = Some (WOverW w)) by (unfold wow; rewrite Ew0; reflexivity).
  assert (E1 : s_gradient s1 = None) by reflexivity.
  assert (E2 : s_misfit s1 = Some (Misfit (s_model s))) by exact M4.
  (* the body: `gradient` on s1 = the gradient core (misfit is cached) *)
  assert (EG : do_gradient_f fl q n false st0 s1 =
               let r2 := grad_core_f fl q n false st0 s1 in
               mkRes (r_sim r2) (r_store r2) (r_trace r2) (r_err r2)).
  { unfold do_gradient_f. rewrite E1, (do_misfit_f_cached fl n false st0 s1 _ E2). reflexivity. }
  rewrite EG. cbv zeta. cbn [r_err r_sim r_store r_trace].
  assert (Ew1 : s_weights s1 = Some Weights) by exact Ew0.
  assert (Er1 : exists w', s_residual s1 = Some (WOverW w')) by (exists w; exact Hwow).
  pose proof (grad_core_f_mem fl q n st0 s1 Hq He Ew1 (or_intror Er1) E1) as HG. cbv zeta in HG.
  destruct HG as (G3 & G4 & G5 & G6 & G7 & G8 & G9 & G10 & _ & _).
  assert (Hres : (match r_err (grad_core_f fl q n false st0 s1) with None => true | Some _ => true end) = true)
    by (destruct (r_err (grad_core_f fl q n false st0 s1)); reflexivity).
  rewrite Hres. cbn [fst r_sim].
  split.
  { unfold Inv_sim; cbv zeta.
    cbn [set_grad set_residual s_model s_efield s_syn s_computed s_residual s_weights s_misfit s_gradient].
    rewrite G3, G4, G5, G7. change (s_model s1) with (s_model s0). change (s_computed s1) with (s_computed s0).
    change (s_misfit s1) with (s_misfit s0). change (s_weights s1) with (s_weights s0).
    split; [change (s_model s0) with (s_model s1); rewrite <- G3; exact G8|].
    split; [intros i; destruct (G9 i) as [E|E]; rewrite E; [exact (Hs i) | right; reflexivity]|].
    split; [intros Hcomp i Hi; apply G10; exact (Hc Hcomp i Hi)|].
    split; [exact Hr|]. split; [exact Hw|]. split; [exact Hm|]. exact Hg. }
  split; [cbn [set_grad set_residual s_model]; rewrite G3; exact M3|].
  cbn [set_grad s_gradient]. exact M5.
Qed.

(* ================================================================ world level *)
Lemma fstep_shape fin q w kof :
  w_n (fst (fstep fin q w kof)) = w_n w /\ w_file (fst (fstep fin q w kof)) = w_file w.
Proof.
  unfold fstep. destruct kof as [[k o] f]. destruct f as [fl|]; [|apply step_shape].
  destruct (nth_error (w_sims w) k) as [s|]; [|auto].
  destruct o; try apply step_shape; unfold of_res, put; try (cbn; auto; fail).
  - destruct (q_jtvec q); [apply step_shape|]. destruct (do_jtvec_f _ _ _ _ _ _ _ _). cbn. auto.
  - destruct fl; try apply step_shape. destruct (_ && _); [cbn; auto | apply step_shape].
Qed.

Lemma frun_shape fin q ops : forall w,
  w_n (frun fin q w ops) = w_n w /\ w_file (frun fin q w ops) = w_file w.
Proof.
  induction ops as [|o ops IH]; intros w; cbn; [auto|].
  destruct (IH (fst (fstep fin q w o))) as (A & B). destruct (fstep_shape fin q w o) as (C & D).
  unfold frun in *. cbn. rewrite A, B. auto.
Qed.

(* the invariant is preserved by every operation, completed or failed *)
Lemma inv_fstep_proof w kof : Inv w -> Inv (fst (fstep true fixed w kof)).
Proof.
  intros H. destruct kof as [[k o] f]. unfold fstep.
  destruct f as [fl|]; [|apply inv_step_proof; exact H].
  pose proof (inv_step_proof w (k, o) H) as HS.
  pose proof H as (Hf & Hall).
  destruct (nth_error (w_sims w) k) as [s|] eqn:E; [|exact H].
  pose proof (Forall_nth_error _ _ _ _ Hall E) as HI.
  set (n := w_n w) in *. set (st := w_store w).
  destruct o; try exact HS.
  - rewrite Hf. unfold of_res; cbn [fst]. apply inv_put; [exact H|].
    destruct (do_compute_f_mem fl n st s HI) as (X & _). exact X.
  - rewrite Hf. unfold of_res; cbn [fst]. apply inv_put; [exact H|].
    destruct (do_misfit_f_mem fl n st s HI) as (X & _). exact X.
  - rewrite Hf. unfold of_res; cbn [fst]. apply inv_put; [exact H|].
    destruct (do_gradient_f_mem fl fixed n st s eq_refl HI) as (X & _). exact X.
  - rewrite Hf. unfold of_res; cbn [fst]. apply inv_put; [exact H|].
    destruct (do_jvec_f_mem fl fixed n st s v eq_refl HI) as (X & _). exact X.
  - rewrite Hf. change (q_jtvec fixed) with false. cbv iota.
    pose proof (do_jtvec_f_mem fl fixed n st s w0 eq_refl HI) as X. cbv zeta in X.
    destruct (do_jtvec_f true fl n fixed false st s w0) as [r v]. cbn [fst snd] in X.
    unfold of_res; cbn [fst]. apply inv_put; [exact H|]. tauto.
  - rewrite Hf. unfold of_res; cbn [fst]. apply inv_put; [exact H|].
    destruct (ensure_slot_f_mem fl n st s i HI) as (X & _). exact X.
  - rewrite Hf. unfold of_res; cbn [fst]. apply inv_put; [exact H|].
    destruct (ensure_slot_f_mem fl n st s i HI) as (X & _). exact X.
  - destruct fl; try exact HS. destruct (_ && _); [|exact HS].
    cbn [fst]. apply inv_put; [exact H|]. exact HI.
Qed.

Lemma inv_freachable_proof ops : forall w, Inv w -> Inv (frun true fixed w ops).
Proof.
  induction ops as [|o ops IH]; intros w H; [exact H|].
  cbn. apply IH. apply inv_fstep_proof. exact H.
Qed.

(* history independence for histories that include failed operations *)
Lemma history_independence_faults_proof n m0 ops k s qu :
  nth_error (w_sims (frun true fixed (init_world n false m0) ops)) k = Some s ->
  ask fixed (frun true fixed (init_world n false m0) ops) k qu
  = ask fixed (init_world n false (s_model s)) 0 qu.
Proof.
  intros E.
  rewrite (ask_expected _ k s qu (inv_freachable_proof ops _ (inv_init n m0)) E).
  rewrite (ask_expected (init_world n false (s_model s)) 0 (init_sim (s_model s)) qu
             (inv_init n (s_model s)) eq_refl).
  destruct (frun_shape true fixed ops (init_world n false m0)) as (A & _). rewrite A. reflexivity.
Qed.

(* an operation on simulation k -- completed or failed -- leaves every other simulation alone *)
Lemma fstep_others_proof fin q w k o f j : j <> k -> j < length (w_sims w) ->
  nth_error (w_sims (fst (fstep fin q w (k, o, f)))) j = nth_error (w_sims w) j.
Proof.
  intros Hjk Hj. pose proof (copies_independent_proof q w k o j Hjk Hj) as HS.
  unfold fstep. destruct f as [fl|]; [|exact HS].
  destruct (nth_error (w_sims w) k) as [s|]; [|reflexivity].
  destruct o; try exact HS; unfold of_res, put;
    try (cbn [fst w_sims]; apply nth_error_upd_other; exact Hjk).
  - destruct (q_jtvec q); [exact HS|]. destruct (do_jtvec_f _ _ _ _ _ _ _ _).
    cbn [fst w_sims]. apply nth_error_upd_other; exact Hjk.
  - destruct fl; try exact HS. destruct (_ && _); [|exact HS].
    cbn [fst w_sims]. apply nth_error_upd_other; exact Hjk.
Qed.

(* a failed (or completed) operation never changes the model version of its simulation,
   unless it is the model update itself *)
Lemma fstep_keeps_model_proof w k o fl s : Inv w -> nth_error (w_sims w) k = Some s ->
  (forall m a r, o <> OSetModel m a r) -> (forall x d, o <> OExport x d) -> (forall c, o <> OClean c) ->
  exists s', nth_error (w_sims (fst (fstep true fixed w (k, o, Some fl)))) k = Some s' /\
             s_model s' = s_model s.
Proof.
  intros H E N1 N2 N3. pose proof H as (Hf & Hall).
  pose proof (Forall_nth_error _ _ _ _ Hall E) as HI.
  assert (Hk : k < length (w_sims w)) by (apply nth_error_Some; congruence).
  unfold fstep. rewrite E, Hf. set (n := w_n w) in *. set (st := w_store w).
  destruct o; try (exfalso; eapply N1; reflexivity); try (exfalso; eapply N2; reflexivity);
    try (exfalso; eapply N3; reflexivity).
  - unfold of_res; cbn [fst put w_sims]. rewrite (nth_error_upd_same k _ _ Hk). eexists; split; [reflexivity|].
    destruct (do_compute_f_mem fl n st s HI) as (_ & X). exact X.
  - unfold of_res; cbn [fst put w_sims]. rewrite (nth_error_upd_same k _ _ Hk). eexists; split; [reflexivity|].
    destruct (do_misfit_f_mem fl n st s HI) as (_ & X & _). exact X.
  - unfold of_res; cbn [fst put w_sims]. rewrite (nth_error_upd_same k _ _ Hk). eexists; split; [reflexivity|].
    destruct (do_gradient_f_mem fl fixed n st s eq_refl HI) as (_ & X & _). exact X.
  - unfold of_res; cbn [fst put w_sims]. rewrite (nth_error_upd_same k _ _ Hk). eexists; split; [reflexivity|].
    destruct (do_jvec_f_mem fl fixed n st s v eq_refl HI) as (_ & X). exact X.
  - change (q_jtvec fixed) with false. cbv iota.
    pose proof (do_jtvec_f_mem fl fixed n st s w0 eq_refl HI) as X. cbv zeta in X.
    destruct (do_jtvec_f true fl n fixed false st s w0) as [r v]. cbn [fst snd] in X.
    unfold of_res; cbn [fst put w_sims]. rewrite (nth_error_upd_same k _ _ Hk). eexists; split; [reflexivity|].
    tauto.
  - unfold of_res; cbn [fst put w_sims]. rewrite (nth_error_upd_same k _ _ Hk). eexists; split; [reflexivity|].
    destruct (ensure_slot_f_mem fl n st s i HI) as (_ & X). exact X.
  - unfold of_res; cbn [fst put w_sims]. rewrite (nth_error_upd_same k _ _ Hk). eexists; split; [reflexivity|].
    destruct (ensure_slot_f_mem fl n st s i HI) as (_ & X). exact X.
Qed.

(* a jtvec during which anything raises leaves the gradient cache as it was and a
   coherent state (in particular data.residual is the residual again, never w/weights) *)
Lemma failed_jtvec_restores_proof w k wi fl s : Inv w -> nth_error (w_sims w) k = Some s ->
  exists s', nth_error (w_sims (fst (fstep true fixed w (k, OJtvec wi, Some fl)))) k = Some s' /\
             s_gradient s' = s_gradient s /\ s_model s' = s_model s /\
             (forall t, s_residual s' = Some t -> t = Residual (s_model s)) /\
             Inv_sim (w_n w) s'.
Proof.
  intros H E. pose proof H as (Hf & Hall).
  pose proof (Forall_nth_error _ _ _ _ Hall E) as HI.
  assert (Hk : k < length (w_sims w)) by (apply nth_error_Some; congruence).
  unfold fstep. rewrite E, Hf. change (q_jtvec fixed) with false. cbv iota.
  pose proof (do_jtvec_f_mem fl fixed (w_n w) (w_store w) s wi eq_refl HI) as X. cbv zeta in X.
  destruct (do_jtvec_f true fl (w_n w) fixed false (w_store w) s wi) as [r v]. cbn [fst snd] in X.
  destruct X as (X1 & X2 & X3).
  unfold of_res; cbn [fst put w_sims]. rewrite (nth_error_upd_same k _ _ Hk).
  eexists; split; [reflexivity|]. repeat (split; [assumption|]).
  split; [|exact X1]. pose proof X1 as X1'. inv_destruct X1'. rewrite <- X2. exact Hr.
Qed.

(* ----------------------------------------------------------- refutation *)
(* without `finally` (restore only when the body finishes): a jtvec whose
   back-propagation raises leaves w/weights in data.residual, and `gradient`
   then returns J^T w *)
Definition wit_nofinally : list (nat * sop * option fault) :=
  [(0, OMisfit, None); (0, OJtvec 0, Some (FBatch KB))].

Lemma refuted_nofinally :
  fired (snd (fstep false fixed (frun false fixed (init_world 2 false 0) [(0, OMisfit, None)])
                    (0, OJtvec 0, Some (FBatch KB)))) = true /\
  ask fixed (frun false fixed (init_world 2 false 0) wit_nofinally) 0 QGradient
  = (RVal (Jt 0 0), []) /\
  ask fixed (init_world 2 false 0) 0 QGradient = (RVal (Grad 0), []).
Proof. vm_compute. repeat split. Qed.

Lemma refuted_nofinally_neq :
  exists ops k qu,
  ask fixed (frun false fixed (init_world 2 false 0) ops) k qu <> ask fixed (init_world 2 false 0) 0 qu.
Proof. exists wit_nofinally, 0, QGradient. vm_compute. discriminate. Qed.

(* ------------------------------------------------------------- non-vacuity *)
(* every fault of this history FIRES (the operation ends with the injected
   exception); afterwards misfit, gradient and synthetic data are the fresh ones *)
Definition ex_fault_ops : list (nat * sop * option fault) :=
  [(0, OCompute, Some (FBatch KF)); (0, OGradient, Some (FBatch KB)); (0, OJtvec 1, Some FWarn);
   (0, OClean CKeep, None); (0, OJtvec 0, Some (FBatch KF)); (0, OJvec 1, Some (FBatch KG));
   (0, OExport VH5 DAll, Some FIo); (0, OExport VCopy DResults, None);
   (1, OSetModel 1 false true, None); (1, OGradient, Some (FBatch KF)); (1, OGetE 0, Some (FBatch KF))].

Fixpoint frets (w : world) (ops : list (nat * sop * option fault)) : list ret :=
  match ops with
  | [] => []
  | o :: rest => o_ret (snd (fstep true fixed w o)) :: frets (fst (fstep true fixed w o)) rest
  end.

Example ex_faults_fire :
  frets (init_world 2 false 0) ex_fault_ops =
  [RErr EInj; RErr EInj; RErr EInj; RNone; RErr EInj; RErr EInj; RErr EFile; RNew 1; RNone;
   RErr EInj; RErr EInj]
  /\ (let w := frun true fixed (init_world 2 false 0) ex_fault_ops in
      ask fixed w 0 QGradient = (RVal (Grad 0), []) /\ ask fixed w 0 QMisfit = (RVal (Misfit 0), []) /\
      ask fixed w 1 QGradient = (RVal (Grad 1), []) /\
      ask fixed w 1 QSynthetic = (RNone, [Syn 1 0; Syn 1 1])).
Proof. vm_compute. repeat split. Qed.
