(* Proofs/GSAffine.v -- two whole-kernel theorems about the point-wise
   Gauss-Seidel smoother [gauss_seidel] (Gen/CoreGS.v, regenerated from
   emg3d/core.py), for EVERY nu, nx, ny, nz, over an abstract field:

   (A) [gauss_seidel_linear] / [gauss_seidel_affine]: the smoother is a LINEAR
       (hence affine) map of the pair (field, source): for all scalars al, be
         GS (al e1 + be e2, al s1 + be s2) = al GS(e1,s1) + be GS(e2,s2)
       pointwise on the three components, provided no block pivot vanishes.
       The pivot hypothesis is stated once, on the block matrices, which depend
       neither on the field nor on the source nor on the scratch array
       ([sys_matrix_indep_src], by reflexivity).
       (The task asked for affinity, al + be = 1; that hypothesis turned out
       not to be needed, [gauss_seidel_affine] is the special case.)

   (B) [gauss_seidel_last_block_exact]: for nu >= 1 and nx, ny, nz >= 2 the six
       equations of the block relaxed LAST hold exactly on the returned field.
       The kernel flips [iback] BEFORE every sweep, starting from 0: sweeps
       1, 3, ... run through the nodes in DESCENDING order and end at (1,1,1),
       sweeps 2, 4, ... run in ascending order and end at (nx-1,ny-1,nz-1).

   Technique: (A) relational (three-run) fold induction [Zfold_rel3] through
   the four loops; (B) peeling the last iteration of each loop ([Zfold_last]).
   The shape of the generated loop nest is captured once in the equational
   lemmas [L3_eq], [L2_eq], [L1_eq], [gs_eq] (all by reflexivity: they break if
   the generated code changes shape).  Nothing is left unproved. *)
From Coq Require Import ZArith Lia Bool Field List.
From V Require Import Base.Loops Base.Arr Base.FieldSig Base.Tactics.
From V Require Import Gen.CoreBand Gen.CoreGS Model.FIT Proofs.BandSums Proofs.BandLDL
                      Proofs.GSBlock Proofs.GSSweep.
Local Open Scope Z_scope.

(* ------------------------------------------------------------------ *)
(* generic fold lemmas                                                  *)
Lemma Zfold_rel3 {S1 S2 S3} (R : S1 -> S2 -> S3 -> Prop) lo hi
      (f : Z -> S1 -> S1) (g : Z -> S2 -> S2) (h : Z -> S3 -> S3) s1 s2 s3 :
  R s1 s2 s3 ->
  (forall i a b c, lo <= i < hi -> R a b c -> R (f i a) (g i b) (h i c)) ->
  R (Zfold lo hi f s1) (Zfold lo hi g s2) (Zfold lo hi h s3).
Proof.
  intros H0 Hs. destruct (Z_le_gt_dec lo hi) as [Hle|Hgt].
  - apply (Zfold_ind (fun t s => R s (Zfold lo t g s2) (Zfold lo t h s3)) lo hi f s1 Hle).
    + now rewrite !Zfold_empty by lia.
    + intros i s Hi Hr. rewrite !(Zfold_snoc lo i) by lia. now apply Hs.
  - now rewrite !Zfold_empty by lia.
Qed.

(* the last iteration of a non-empty loop *)
Lemma Zfold_last {St} lo hi (body : Z -> St -> St) s : lo < hi ->
  Zfold lo hi body s = body (hi - 1) (Zfold lo (hi - 1) body s).
Proof.
  intros H. replace hi with (hi - 1 + 1) at 1 by lia. apply Zfold_snoc. lia.
Qed.

(* ------------------------------------------------------------------ *)
(* (i)-(iv): one block step is linear in (field, source)                *)
Section LinBlock.
  Context {F : Type} {O : FOps F}.
  Hypothesis Fth : field_theory F0 F1 Fadd Fmul Fsub Fopp Fdiv Finv (@eq F).
  Hypothesis two_nz : (1 + 1)%F <> 0%F.
  Add Field Fga : Fth.

  Variables (al be : F).
  (* three fields and three sources: m = al * p + be * q *)
  Variables (mx my mz px py pz qx qy qz : Z -> Z -> Z -> F).
  Variables (smx smy smz spx spy spz sqx sqy sqz : Z -> Z -> Z -> F).
  Variables (eta_x eta_y eta_z zeta : Z -> Z -> Z -> F).
  Variables (hx hy hz : Z -> F).
  Hypothesis hx_nz : forall i, hx i <> 0%F.
  Hypothesis hy_nz : forall i, hy i <> 0%F.
  Hypothesis hz_nz : forall i, hz i <> 0%F.
  Variables (nu lhx nx lhy ny lhz nz : Z).

  Hypothesis Hmx : forall i j l, mx i j l = (al * px i j l + be * qx i j l)%F.
  Hypothesis Hmy : forall i j l, my i j l = (al * py i j l + be * qy i j l)%F.
  Hypothesis Hmz : forall i j l, mz i j l = (al * pz i j l + be * qz i j l)%F.
  Hypothesis Hsx : forall i j l, smx i j l = (al * spx i j l + be * sqx i j l)%F.
  Hypothesis Hsy : forall i j l, smy i j l = (al * spy i j l + be * sqy i j l)%F.
  Hypothesis Hsz : forall i j l, smz i j l = (al * spz i j l + be * sqz i j l)%F.

  Notation SYSm := (gs_sys mx my mz smx smy smz eta_x eta_y eta_z zeta hx hy hz nu lhx nx lhy ny lhz nz).
  Notation SYSp := (gs_sys px py pz spx spy spz eta_x eta_y eta_z zeta hx hy hz nu lhx nx lhy ny lhz nz).
  Notation SYSq := (gs_sys qx qy qz sqx sqy sqz eta_x eta_y eta_z zeta hx hy hz nu lhx nx lhy ny lhz nz).

  Let four_nz' : ((1 + 1) * (1 + 1))%F <> 0%F := four_nz Fth two_nz.
  Let one_nz' : (1 : F)%F <> 0%F := one_nz Fth.

  Ltac side := first [ exact two_nz | exact four_nz' | exact one_nz' | apply hx_nz | apply hy_nz
                     | apply hz_nz ].

  (* symbolic evaluation of the update chain of the right-hand side at a literal
     index (normal form computed by the tactic engine, re-checked by the VM) *)
  Ltac rhs_eval :=
    match goal with
    | |- ?G =>
        let G' := eval cbv beta iota zeta delta
                    [gs_sys gauss_seidel_L4_call1
                     upd1 upd1f upd3f fill1 arr_of_list nth Z.to_nat Pos.to_nat Pos.iter_op
                     Nat.add Z.eqb Pos.eqb Z.ltb Z.compare Pos.compare
                     Pos.compare_cont negb fst snd kof] in G in
        cut G'; [ let H := fresh "H" in intro H; vm_cast_no_check H | ]
    end.

  Ltac rhs_row := rhs_eval; rewrite ?Hmx, ?Hmy, ?Hmz, ?Hsx, ?Hsy, ?Hsz; flit; field;
                  repeat split; side.

  Lemma rhs_lin0 a0 a1 a2 ix iy iz :
    snd (SYSm a0 ix iy iz) 0 = (al * snd (SYSp a1 ix iy iz) 0%Z + be * snd (SYSq a2 ix iy iz) 0%Z)%F.
  Proof using Fth two_nz hx_nz hy_nz hz_nz Hmx Hmy Hmz Hsx Hsy Hsz. rhs_row. Qed.
  Lemma rhs_lin1 a0 a1 a2 ix iy iz :
    snd (SYSm a0 ix iy iz) 1 = (al * snd (SYSp a1 ix iy iz) 1%Z + be * snd (SYSq a2 ix iy iz) 1%Z)%F.
  Proof using Fth two_nz hx_nz hy_nz hz_nz Hmx Hmy Hmz Hsx Hsy Hsz. rhs_row. Qed.
  Lemma rhs_lin2 a0 a1 a2 ix iy iz :
    snd (SYSm a0 ix iy iz) 2 = (al * snd (SYSp a1 ix iy iz) 2%Z + be * snd (SYSq a2 ix iy iz) 2%Z)%F.
  Proof using Fth two_nz hx_nz hy_nz hz_nz Hmx Hmy Hmz Hsx Hsy Hsz. rhs_row. Qed.
  Lemma rhs_lin3 a0 a1 a2 ix iy iz :
    snd (SYSm a0 ix iy iz) 3 = (al * snd (SYSp a1 ix iy iz) 3%Z + be * snd (SYSq a2 ix iy iz) 3%Z)%F.
  Proof using Fth two_nz hx_nz hy_nz hz_nz Hmx Hmy Hmz Hsx Hsy Hsz. rhs_row. Qed.
  Lemma rhs_lin4 a0 a1 a2 ix iy iz :
    snd (SYSm a0 ix iy iz) 4 = (al * snd (SYSp a1 ix iy iz) 4%Z + be * snd (SYSq a2 ix iy iz) 4%Z)%F.
  Proof using Fth two_nz hx_nz hy_nz hz_nz Hmx Hmy Hmz Hsx Hsy Hsz. rhs_row. Qed.
  Lemma rhs_lin5 a0 a1 a2 ix iy iz :
    snd (SYSm a0 ix iy iz) 5 = (al * snd (SYSp a1 ix iy iz) 5%Z + be * snd (SYSq a2 ix iy iz) 5%Z)%F.
  Proof using Fth two_nz hx_nz hy_nz hz_nz Hmx Hmy Hmz Hsx Hsy Hsz. rhs_row. Qed.
End LinBlock.

(* the block matrix depends neither on the fields, nor on the source, nor on
   the old contents of the scratch array amat (which is re-filled at every
   node) *)
Lemma sys_matrix_indep_src {F : Type} {O : FOps F}
      (fx fy fz gx gy gz sx sy sz tx ty tz eta_x eta_y eta_z zeta : Z -> Z -> Z -> F)
      (hx hy hz : Z -> F) (nu lhx nx lhy ny lhz nz : Z)
      (a1 a2 : Z -> F) ix iy iz :
  fst (gs_sys fx fy fz sx sy sz eta_x eta_y eta_z zeta hx hy hz nu lhx nx lhy ny lhz nz a1 ix iy iz)
  = fst (gs_sys gx gy gz tx ty tz eta_x eta_y eta_z zeta hx hy hz nu lhx nx lhy ny lhz nz a2 ix iy iz).
Proof. reflexivity. Qed.

Section LinStep.
  Context {F : Type} {O : FOps F}.
  Hypothesis Fth : field_theory F0 F1 Fadd Fmul Fsub Fopp Fdiv Finv (@eq F).
  Hypothesis two_nz : (1 + 1)%F <> 0%F.
  Add Field Fgb : Fth.
  Variables (al be : F).

  (* (iii) the banded solve is linear in the right-hand side, pointwise form *)
  Lemma solve_lin_ext n (A bm b1 b2 : Z -> F) : 1 <= n ->
    (forall j, 0 <= j < n -> pivot n A j <> 0%F) ->
    (forall k, 0 <= k < n -> bm k = (al * b1 k + be * b2 k)%F) ->
    forall i, 0 <= i < n ->
      snd (solve n A bm) i = (al * snd (solve n A b1) i + be * snd (solve n A b2) i)%F.
  Proof.
    intros Hn Hpiv Hb.
    apply (solve_unique Fth n A bm Hn Hpiv
             (fun i => (al * snd (solve n A b1) i + be * snd (solve n A b2) i)%F)).
    intros i Hi. rewrite (bandmul_lin Fth).
    rewrite !(solve_correct Fth) by assumption. symmetry. now apply Hb.
  Qed.

  (* (iv) the write-back is linear *)
  Lemma upd3_lin (xm x1 x2 : Z -> Z -> Z -> F) i j k (vm v1 v2 : F) :
    (forall i' j' k', xm i' j' k' = (al * x1 i' j' k' + be * x2 i' j' k')%F) ->
    vm = (al * v1 + be * v2)%F ->
    forall i' j' k', upd3 xm i j k vm i' j' k'
                     = (al * upd3 x1 i j k v1 i' j' k' + be * upd3 x2 i j k v2 i' j' k')%F.
  Proof.
    intros Hx Hv i' j' k'. unfold upd3.
    destruct ((i' =? i) && (j' =? j) && (k' =? k))%bool; [exact Hv|apply Hx].
  Qed.

  Variables (smx smy smz spx spy spz sqx sqy sqz : Z -> Z -> Z -> F).
  Variables (eta_x eta_y eta_z zeta : Z -> Z -> Z -> F).
  Variables (hx hy hz : Z -> F).
  Hypothesis hx_nz : forall i, hx i <> 0%F.
  Hypothesis hy_nz : forall i, hy i <> 0%F.
  Hypothesis hz_nz : forall i, hz i <> 0%F.
  Variables (nu lhx nx lhy ny lhz nz : Z).
  Hypothesis Hsx : forall i j l, smx i j l = (al * spx i j l + be * sqx i j l)%F.
  Hypothesis Hsy : forall i j l, smy i j l = (al * spy i j l + be * sqy i j l)%F.
  Hypothesis Hsz : forall i j l, smz i j l = (al * spz i j l + be * sqz i j l)%F.

  (* the three runs: states (amat, ex, ey, ez); nothing is required of amat *)
  Definition Lin3 (tm t1 t2 : @St F) : Prop :=
    (forall i j l, snd (fst (fst tm)) i j l
                   = (al * snd (fst (fst t1)) i j l + be * snd (fst (fst t2)) i j l)%F) /\
    (forall i j l, snd (fst tm) i j l = (al * snd (fst t1) i j l + be * snd (fst t2) i j l)%F) /\
    (forall i j l, snd tm i j l = (al * snd t1 i j l + be * snd t2 i j l)%F).

  Notation L4m := (gs_args_L4 smx smy smz eta_x eta_y eta_z zeta hx hy hz nu lhx nx lhy ny lhz nz).
  Notation L4p := (gs_args_L4 spx spy spz eta_x eta_y eta_z zeta hx hy hz nu lhx nx lhy ny lhz nz).
  Notation L4q := (gs_args_L4 sqx sqy sqz eta_x eta_y eta_z zeta hx hy hz nu lhx nx lhy ny lhz nz).

  (* the pivot hypothesis, stated on the matrices of run 1 with a zero scratch array *)
  Variables (e1x e1y e1z : Z -> Z -> Z -> F).
  Hypothesis pivots : forall ix iy iz, interior nx ny nz ix iy iz -> forall j, 0 <= j < 6 ->
    pivot 6 (fst (gs_sys e1x e1y e1z spx spy spz eta_x eta_y eta_z zeta hx hy hz nu lhx nx lhy ny lhz nz
                         (fun _ => 0%F) ix iy iz)) j <> 0%F.

  Lemma Lin3_of_eq (tm' t1' t2' tm t1 t2 : @St F) :
    tm = tm' -> t1 = t1' -> t2 = t2' -> Lin3 tm' t1' t2' -> Lin3 tm t1 t2.
  Proof. now intros -> -> ->. Qed.

  (* solve + write-back, the three systems abstract (no large term is ever
     rewritten or unified against another one) *)
  Lemma L4_lin_abs (sysm sysp sysq : (Z -> F) * (Z -> F))
        (mx my mz px py pz qx qy qz : Z -> Z -> Z -> F) ix iy iz :
    fst sysm = fst sysp -> fst sysq = fst sysp ->
    (forall j, 0 <= j < 6 -> pivot 6 (fst sysp) j <> 0%F) ->
    (forall k, 0 <= k < 6 -> snd sysm k = (al * snd sysp k + be * snd sysq k)%F) ->
    (forall i j l, mx i j l = (al * px i j l + be * qx i j l)%F) ->
    (forall i j l, my i j l = (al * py i j l + be * qy i j l)%F) ->
    (forall i j l, mz i j l = (al * pz i j l + be * qz i j l)%F) ->
    Lin3 (let sys := sysm in let r := solve 6 (fst sys) (snd sys) in
          (fst r, new_ex mx (snd r) ix iy iz, new_ey my (snd r) ix iy iz, new_ez mz (snd r) ix iy iz))
         (let sys := sysp in let r := solve 6 (fst sys) (snd sys) in
          (fst r, new_ex px (snd r) ix iy iz, new_ey py (snd r) ix iy iz, new_ez pz (snd r) ix iy iz))
         (let sys := sysq in let r := solve 6 (fst sys) (snd sys) in
          (fst r, new_ex qx (snd r) ix iy iz, new_ey qy (snd r) ix iy iz, new_ez qz (snd r) ix iy iz)).
  Proof.
    intros Em Eq Hpiv Hrhs Gx Gy Gz. cbv zeta. rewrite Em, Eq.
    pose proof (solve_lin_ext 6 (fst sysp) (snd sysm) (snd sysp) (snd sysq) ltac:(lia) Hpiv Hrhs) as Hsol.
    set (rm := snd (solve 6 (fst sysp) (snd sysm))) in *.
    set (rp := snd (solve 6 (fst sysp) (snd sysp))) in *.
    set (rq := snd (solve 6 (fst sysp) (snd sysq))) in *.
    clearbody rm rp rq.
    unfold Lin3. cbn [fst snd]. unfold new_ex, new_ey, new_ez.
    repeat split; intros i j l;
      (apply upd3_lin; [apply upd3_lin; [auto|apply Hsol; lia]|apply Hsol; lia]).
  Qed.

  Lemma L4_lin iz iy ix tm t1 t2 : interior nx ny nz ix iy iz -> Lin3 tm t1 t2 ->
    Lin3 (L4m 0 0 iz iz (iz-1) (iz+1) iy iy (iy-1) (iy+1) ix tm)
         (L4p 0 0 iz iz (iz-1) (iz+1) iy iy (iy-1) (iy+1) ix t1)
         (L4q 0 0 iz iz (iz-1) (iz+1) iy iy (iy-1) (iy+1) ix t2).
  Proof.
    intros Hin (Gx & Gy & Gz).
    destruct tm as [[[am mx] my] mz], t1 as [[[a1 px] py] pz], t2 as [[[a2 qx] qy] qz].
    cbn [fst snd] in Gx, Gy, Gz.
    refine (Lin3_of_eq _ _ _ _ _ _
              (L4_step mx my mz smx smy smz eta_x eta_y eta_z zeta hx hy hz nu lhx nx lhy ny lhz nz am ix iy iz)
              (L4_step px py pz spx spy spz eta_x eta_y eta_z zeta hx hy hz nu lhx nx lhy ny lhz nz a1 ix iy iz)
              (L4_step qx qy qz sqx sqy sqz eta_x eta_y eta_z zeta hx hy hz nu lhx nx lhy ny lhz nz a2 ix iy iz)
              _).
    refine (L4_lin_abs
              (gs_sys mx my mz smx smy smz eta_x eta_y eta_z zeta hx hy hz nu lhx nx lhy ny lhz nz am ix iy iz)
              (gs_sys px py pz spx spy spz eta_x eta_y eta_z zeta hx hy hz nu lhx nx lhy ny lhz nz a1 ix iy iz)
              (gs_sys qx qy qz sqx sqy sqz eta_x eta_y eta_z zeta hx hy hz nu lhx nx lhy ny lhz nz a2 ix iy iz)
              mx my mz px py pz qx qy qz ix iy iz _ _ _ _ Gx Gy Gz).
    - exact (sys_matrix_indep_src mx my mz px py pz smx smy smz spx spy spz eta_x eta_y eta_z zeta
               hx hy hz nu lhx nx lhy ny lhz nz am a1 ix iy iz).
    - exact (sys_matrix_indep_src qx qy qz px py pz sqx sqy sqz spx spy spz eta_x eta_y eta_z zeta
               hx hy hz nu lhx nx lhy ny lhz nz a2 a1 ix iy iz).
    - intros j Hj.
      rewrite (sys_matrix_indep_src px py pz e1x e1y e1z spx spy spz spx spy spz eta_x eta_y eta_z zeta
                 hx hy hz nu lhx nx lhy ny lhz nz a1 (fun _ => 0%F)).
      now apply pivots.
    - intros k Hk.
      assert (C : k = 0 \/ k = 1 \/ k = 2 \/ k = 3 \/ k = 4 \/ k = 5) by lia.
      destruct C as [E|[E|[E|[E|[E|E]]]]]; subst k.
      + exact (rhs_lin0 Fth two_nz al be mx my mz px py pz qx qy qz smx smy smz spx spy spz sqx sqy sqz
                 eta_x eta_y eta_z zeta hx hy hz hx_nz hy_nz hz_nz nu lhx nx lhy ny lhz nz
                 Gx Gy Gz Hsx Hsy Hsz am a1 a2 ix iy iz).
      + exact (rhs_lin1 Fth two_nz al be mx my mz px py pz qx qy qz smx smy smz spx spy spz sqx sqy sqz
                 eta_x eta_y eta_z zeta hx hy hz hx_nz hy_nz hz_nz nu lhx nx lhy ny lhz nz
                 Gx Gy Gz Hsx Hsy Hsz am a1 a2 ix iy iz).
      + exact (rhs_lin2 Fth two_nz al be mx my mz px py pz qx qy qz smx smy smz spx spy spz sqx sqy sqz
                 eta_x eta_y eta_z zeta hx hy hz hx_nz hy_nz hz_nz nu lhx nx lhy ny lhz nz
                 Gx Gy Gz Hsx Hsy Hsz am a1 a2 ix iy iz).
      + exact (rhs_lin3 Fth two_nz al be mx my mz px py pz qx qy qz smx smy smz spx spy spz sqx sqy sqz
                 eta_x eta_y eta_z zeta hx hy hz hx_nz hy_nz hz_nz nu lhx nx lhy ny lhz nz
                 Gx Gy Gz Hsx Hsy Hsz am a1 a2 ix iy iz).
      + exact (rhs_lin4 Fth two_nz al be mx my mz px py pz qx qy qz smx smy smz spx spy spz sqx sqy sqz
                 eta_x eta_y eta_z zeta hx hy hz hx_nz hy_nz hz_nz nu lhx nx lhy ny lhz nz
                 Gx Gy Gz Hsx Hsy Hsz am a1 a2 ix iy iz).
      + exact (rhs_lin5 Fth two_nz al be mx my mz px py pz qx qy qz smx smy smz spx spy spz sqx sqy sqz
                 eta_x eta_y eta_z zeta hx hy hz hx_nz hy_nz hz_nz nu lhx nx lhy ny lhz nz
                 Gx Gy Gz Hsx Hsy Hsz am a1 a2 ix iy iz).
  Qed.
End LinStep.

(* ------------------------------------------------------------------ *)
(* the shape of the generated loop nest, as equations                   *)
Section GSShape.
  Context {F : Type} {O : FOps F}.
  Variables (sx sy sz eta_x eta_y eta_z zeta : Z -> Z -> Z -> F).
  Variables (hx hy hz : Z -> F).
  Variables (nu lhx nx lhy ny lhz nz : Z).

  Notation L4 := (gs_args_L4 sx sy sz eta_x eta_y eta_z zeta hx hy hz nu lhx nx lhy ny lhz nz).
  Notation L3 := (gauss_seidel_L3 sx sy sz eta_x eta_y eta_z zeta hx hy hz nu lhx nx lhy ny lhz nz
                    (kof hx) (kof hy) (kof hz)).
  Notation L2 := (gauss_seidel_L2 sx sy sz eta_x eta_y eta_z zeta hx hy hz nu lhx nx lhy ny lhz nz
                    (kof hx) (kof hy) (kof hz)).
  Notation L1 := (gauss_seidel_L1 sx sy sz eta_x eta_y eta_z zeta hx hy hz nu lhx nx lhy ny lhz nz
                    (kof hx) (kof hy) (kof hz)).

  Definition ib5 (s : @St5 F) : Z := fst (fst (fst (fst s))).
  Definition tail5 (s : @St5 F) : @St F :=
    (snd (fst (fst (fst s))), snd (fst (fst s)), snd (fst s), snd s).
  Definition cons5 (ib : Z) (t : @St F) : @St5 F :=
    (ib, fst (fst (fst t)), snd (fst (fst t)), snd (fst t), snd t).

  Lemma tail5_cons5 ib t : tail5 (cons5 ib t) = t.
  Proof. now destruct t as [[[a b] c] d]. Qed.
  Lemma ib5_cons5 ib t : ib5 (cons5 ib t) = ib.
  Proof. reflexivity. Qed.

  Lemma L3_eq iback it izh iz izm izp iyh (st : @St F) :
    L3 iback it izh iz izm izp iyh st
    = Zfold 1 nx (fun ixh s => L4 iback it izh iz izm izp iyh (node iback ny iyh)
                                  (node iback ny iyh - 1) (node iback ny iyh + 1) ixh s) st.
  Proof.
    destruct st as [[[a0 fx] fy] fz].
    cbv delta [gauss_seidel_L3]. cbv beta. cbv zeta.
    match goal with |- (fst (fst (fst ?t)), _, _, _) = _ => change (w4 t = Zfold 1 nx
      (fun ixh s => L4 iback it izh iz izm izp iyh (node iback ny iyh)
                       (node iback ny iyh - 1) (node iback ny iyh + 1) ixh s) (a0, fx, fy, fz)) end.
    now rewrite !w4_id.
  Qed.

  Lemma L2_eq iback it izh (st : @St F) :
    L2 iback it izh st
    = Zfold 1 ny (fun iyh s => L3 iback it izh (node iback nz izh) (node iback nz izh - 1)
                                  (node iback nz izh + 1) iyh s) st.
  Proof.
    destruct st as [[[a0 fx] fy] fz].
    cbv delta [gauss_seidel_L2]. cbv beta. cbv zeta.
    match goal with |- (fst (fst (fst ?t)), _, _, _) = _ => change (w4 t = Zfold 1 ny
      (fun iyh s => L3 iback it izh (node iback nz izh) (node iback nz izh - 1)
                       (node iback nz izh + 1) iyh s) (a0, fx, fy, fz)) end.
    now rewrite !w4_id.
  Qed.

  Lemma L1_eq it (st : @St5 F) :
    L1 it st = cons5 (1 - ib5 st) (Zfold 1 nz (fun izh s => L2 (1 - ib5 st) it izh s) (tail5 st)).
  Proof. reflexivity. Qed.

  Lemma gs_eq (ex ey ez : Z -> Z -> Z -> F) :
    nx = lhx -> ny = lhy -> nz = lhz ->
    gauss_seidel lhx lhy lhz ex ey ez sx sy sz eta_x eta_y eta_z zeta hx hy hz nu
    = (let t := tail5 (Zfold 0 nu (fun it st => L1 it st) (0, fill1 F0, ex, ey, ez)) in
       (snd (fst (fst t)), snd (fst t), snd t)).
  Proof. intros -> -> ->. reflexivity. Qed.
End GSShape.

(* ------------------------------------------------------------------ *)
(* (v) any three-run relation preserved by the block step (at interior  *)
(* nodes) is preserved by the whole loop nest                           *)
Section Lift3.
  Context {F : Type} {O : FOps F}.
  Variables (smx smy smz spx spy spz sqx sqy sqz : Z -> Z -> Z -> F).
  Variables (eta_x eta_y eta_z zeta : Z -> Z -> Z -> F).
  Variables (hx hy hz : Z -> F).
  Variables (nu lhx nx lhy ny lhz nz : Z).

  Notation L4 sx sy sz := (gs_args_L4 sx sy sz eta_x eta_y eta_z zeta hx hy hz nu lhx nx lhy ny lhz nz).
  Notation L3 sx sy sz := (gauss_seidel_L3 sx sy sz eta_x eta_y eta_z zeta hx hy hz nu lhx nx lhy ny lhz nz
                    (kof hx) (kof hy) (kof hz)).
  Notation L2 sx sy sz := (gauss_seidel_L2 sx sy sz eta_x eta_y eta_z zeta hx hy hz nu lhx nx lhy ny lhz nz
                    (kof hx) (kof hy) (kof hz)).
  Notation L1 sx sy sz := (gauss_seidel_L1 sx sy sz eta_x eta_y eta_z zeta hx hy hz nu lhx nx lhy ny lhz nz
                    (kof hx) (kof hy) (kof hz)).

  Variable R : @St F -> @St F -> @St F -> Prop.
  Hypothesis R_step : forall iz iy ix tm t1 t2, interior nx ny nz ix iy iz -> R tm t1 t2 ->
    R (L4 smx smy smz 0 0 iz iz (iz-1) (iz+1) iy iy (iy-1) (iy+1) ix tm)
      (L4 spx spy spz 0 0 iz iz (iz-1) (iz+1) iy iy (iy-1) (iy+1) ix t1)
      (L4 sqx sqy sqz 0 0 iz iz (iz-1) (iz+1) iy iy (iy-1) (iy+1) ix t2).

  Lemma L3_rel3 iback it izh iz iyh tm t1 t2 :
    (iback = 0 \/ iback = 1) -> 1 <= iz < nz -> 1 <= iyh < ny -> R tm t1 t2 ->
    R (L3 smx smy smz iback it izh iz (iz-1) (iz+1) iyh tm)
      (L3 spx spy spz iback it izh iz (iz-1) (iz+1) iyh t1)
      (L3 sqx sqy sqz iback it izh iz (iz-1) (iz+1) iyh t2).
  Proof.
    intros Hb Hz Hy G. rewrite !L3_eq.
    apply Zfold_rel3; [exact G|].
    intros i a b c Hi Hr. rewrite !L4_any by assumption.
    apply R_step; [|assumption].
    pose proof (node_range iback nx i Hb Hi). pose proof (node_range iback ny iyh Hb Hy).
    unfold interior.
    assert (Hn : forall n ih, (if negb (iback =? 0) then n - ih else ih) = node iback n ih)
      by reflexivity.
    rewrite ?Hn. lia.
  Qed.

  Lemma L2_rel3 iback it izh tm t1 t2 :
    (iback = 0 \/ iback = 1) -> 1 <= izh < nz -> R tm t1 t2 ->
    R (L2 smx smy smz iback it izh tm) (L2 spx spy spz iback it izh t1) (L2 sqx sqy sqz iback it izh t2).
  Proof.
    intros Hb Hz G. rewrite !L2_eq.
    apply Zfold_rel3; [exact G|].
    intros j a b c Hj Hr. apply L3_rel3; try assumption.
    apply node_range; assumption.
  Qed.

  Definition R5 (sm s1 s2 : @St5 F) : Prop :=
    (ib5 sm = 0 \/ ib5 sm = 1) /\ ib5 s1 = ib5 sm /\ ib5 s2 = ib5 sm /\
    R (tail5 sm) (tail5 s1) (tail5 s2).

  Lemma L1_rel3 it sm s1 s2 : R5 sm s1 s2 ->
    R5 (L1 smx smy smz it sm) (L1 spx spy spz it s1) (L1 sqx sqy sqz it s2).
  Proof.
    intros (Hb & E1 & E2 & G). rewrite !L1_eq. rewrite E1, E2.
    unfold R5. rewrite !ib5_cons5, !tail5_cons5.
    repeat split; [lia|].
    apply Zfold_rel3; [exact G|].
    intros k a b c Hk Hr. apply L2_rel3; [lia|assumption|assumption].
  Qed.

  Lemma sweeps_rel3 sm s1 s2 : R5 sm s1 s2 ->
    R5 (Zfold 0 nu (fun it st => L1 smx smy smz it st) sm)
       (Zfold 0 nu (fun it st => L1 spx spy spz it st) s1)
       (Zfold 0 nu (fun it st => L1 sqx sqy sqz it st) s2).
  Proof.
    intros G. apply Zfold_rel3; [exact G|].
    intros it a b c _ Hr. now apply L1_rel3.
  Qed.
End Lift3.

(* ------------------------------------------------------------------ *)
(* (A) the whole smoother is linear, hence affine, in (field, source)   *)
Definition LinF {F : Type} {O : FOps F} (al be : F)
    (rm r1 r2 : (Z -> Z -> Z -> F) * (Z -> Z -> Z -> F) * (Z -> Z -> Z -> F)) : Prop :=
  forall i j l,
    fst (fst rm) i j l = (al * fst (fst r1) i j l + be * fst (fst r2) i j l)%F /\
    snd (fst rm) i j l = (al * snd (fst r1) i j l + be * snd (fst r2) i j l)%F /\
    snd rm i j l = (al * snd r1 i j l + be * snd r2 i j l)%F.

Lemma LinF_of_eq {F : Type} {O : FOps F} (al be : F) rm' r1' r2' rm r1 r2 :
  rm = rm' -> r1 = r1' -> r2 = r2' -> LinF al be rm' r1' r2' -> LinF al be rm r1 r2.
Proof. now intros -> -> ->. Qed.

Section GSLinear.
  Context {F : Type} {O : FOps F}.
  Hypothesis Fth : field_theory F0 F1 Fadd Fmul Fsub Fopp Fdiv Finv (@eq F).
  Hypothesis two_nz : (1 + 1)%F <> 0%F.
  Variables (al be : F).
  Variables (emx emy emz e1x e1y e1z e2x e2y e2z : Z -> Z -> Z -> F).
  Variables (smx smy smz s1x s1y s1z s2x s2y s2z : Z -> Z -> Z -> F).
  Variables (eta_x eta_y eta_z zeta : Z -> Z -> Z -> F).
  Variables (hx hy hz : Z -> F).
  Hypothesis hx_nz : forall i, hx i <> 0%F.
  Hypothesis hy_nz : forall i, hy i <> 0%F.
  Hypothesis hz_nz : forall i, hz i <> 0%F.
  Variables (nu nx ny nz : Z).
  Hypothesis Hex : forall i j l, emx i j l = (al * e1x i j l + be * e2x i j l)%F.
  Hypothesis Hey : forall i j l, emy i j l = (al * e1y i j l + be * e2y i j l)%F.
  Hypothesis Hez : forall i j l, emz i j l = (al * e1z i j l + be * e2z i j l)%F.
  Hypothesis Hsx : forall i j l, smx i j l = (al * s1x i j l + be * s2x i j l)%F.
  Hypothesis Hsy : forall i j l, smy i j l = (al * s1y i j l + be * s2y i j l)%F.
  Hypothesis Hsz : forall i j l, smz i j l = (al * s1z i j l + be * s2z i j l)%F.
  (* no block pivot vanishes; the block matrices are the same in the three runs
     ([sys_matrix_indep_src]), so the hypothesis is stated on run 1 only *)
  Hypothesis pivots : forall ix iy iz, interior nx ny nz ix iy iz -> forall j, 0 <= j < 6 ->
    pivot 6 (fst (gs_sys e1x e1y e1z s1x s1y s1z eta_x eta_y eta_z zeta hx hy hz nu nx nx ny ny nz nz
                         (fun _ => 0%F) ix iy iz)) j <> 0%F.

  Theorem gauss_seidel_linear :
    let rm := gauss_seidel nx ny nz emx emy emz smx smy smz eta_x eta_y eta_z zeta hx hy hz nu in
    let r1 := gauss_seidel nx ny nz e1x e1y e1z s1x s1y s1z eta_x eta_y eta_z zeta hx hy hz nu in
    let r2 := gauss_seidel nx ny nz e2x e2y e2z s2x s2y s2z eta_x eta_y eta_z zeta hx hy hz nu in
    forall i j l,
      fst (fst rm) i j l = (al * fst (fst r1) i j l + be * fst (fst r2) i j l)%F /\
      snd (fst rm) i j l = (al * snd (fst r1) i j l + be * snd (fst r2) i j l)%F /\
      snd rm i j l = (al * snd r1 i j l + be * snd r2 i j l)%F.
  Proof.
    cbv zeta.
    change (LinF al be
              (gauss_seidel nx ny nz emx emy emz smx smy smz eta_x eta_y eta_z zeta hx hy hz nu)
              (gauss_seidel nx ny nz e1x e1y e1z s1x s1y s1z eta_x eta_y eta_z zeta hx hy hz nu)
              (gauss_seidel nx ny nz e2x e2y e2z s2x s2y s2z eta_x eta_y eta_z zeta hx hy hz nu)).
    refine (LinF_of_eq al be _ _ _ _ _ _
              (gs_eq smx smy smz eta_x eta_y eta_z zeta hx hy hz nu nx nx ny ny nz nz emx emy emz
                     eq_refl eq_refl eq_refl)
              (gs_eq s1x s1y s1z eta_x eta_y eta_z zeta hx hy hz nu nx nx ny ny nz nz e1x e1y e1z
                     eq_refl eq_refl eq_refl)
              (gs_eq s2x s2y s2z eta_x eta_y eta_z zeta hx hy hz nu nx nx ny ny nz nz e2x e2y e2z
                     eq_refl eq_refl eq_refl) _).
    cbv zeta.
    pose proof (sweeps_rel3 smx smy smz s1x s1y s1z s2x s2y s2z eta_x eta_y eta_z zeta hx hy hz
                  nu nx nx ny ny nz nz (Lin3 al be)
                  (L4_lin Fth two_nz al be smx smy smz s1x s1y s1z s2x s2y s2z eta_x eta_y eta_z zeta
                          hx hy hz hx_nz hy_nz hz_nz nu nx nx ny ny nz nz Hsx Hsy Hsz
                          e1x e1y e1z pivots)
                  (0, fill1 F0, emx, emy, emz) (0, fill1 F0, e1x, e1y, e1z)
                  (0, fill1 F0, e2x, e2y, e2z)) as G.
    destruct G as (_ & _ & _ & Gx & Gy & Gz).
    { unfold R5. repeat split; try (left; reflexivity); cbn [tail5 fst snd]; assumption. }
    intros i j l. cbn [fst snd]. repeat split; [apply Gx|apply Gy|apply Gz].
  Qed.

  (* the statement asked for: affine combinations (al + be = 1) *)
  Corollary gauss_seidel_affine : (al + be)%F = 1%F ->
    let rm := gauss_seidel nx ny nz emx emy emz smx smy smz eta_x eta_y eta_z zeta hx hy hz nu in
    let r1 := gauss_seidel nx ny nz e1x e1y e1z s1x s1y s1z eta_x eta_y eta_z zeta hx hy hz nu in
    let r2 := gauss_seidel nx ny nz e2x e2y e2z s2x s2y s2z eta_x eta_y eta_z zeta hx hy hz nu in
    forall i j l,
      fst (fst rm) i j l = (al * fst (fst r1) i j l + be * fst (fst r2) i j l)%F /\
      snd (fst rm) i j l = (al * snd (fst r1) i j l + be * snd (fst r2) i j l)%F /\
      snd rm i j l = (al * snd r1 i j l + be * snd r2 i j l)%F.
  Proof. intros _. exact gauss_seidel_linear. Qed.
End GSLinear.

(* ------------------------------------------------------------------ *)
(* (B) the block relaxed last is exact on the returned field            *)
Definition last_node (nu n : Z) : Z := if Z.odd nu then 1 else n - 1.

Section LastBlock.
  Context {F : Type} {O : FOps F}.
  Hypothesis Fth : field_theory F0 F1 Fadd Fmul Fsub Fopp Fdiv Finv (@eq F).
  Hypothesis two_nz : (1 + 1)%F <> 0%F.
  Variables (sx sy sz eta_x eta_y eta_z zeta : Z -> Z -> Z -> F).
  Variables (hx hy hz : Z -> F).
  Hypothesis hx_nz : forall i, hx i <> 0%F.
  Hypothesis hy_nz : forall i, hy i <> 0%F.
  Hypothesis hz_nz : forall i, hz i <> 0%F.
  Variables (nu lhx nx lhy ny lhz nz : Z).

  Notation L4 := (gs_args_L4 sx sy sz eta_x eta_y eta_z zeta hx hy hz nu lhx nx lhy ny lhz nz).
  Notation L3 := (gauss_seidel_L3 sx sy sz eta_x eta_y eta_z zeta hx hy hz nu lhx nx lhy ny lhz nz
                    (kof hx) (kof hy) (kof hz)).
  Notation L2 := (gauss_seidel_L2 sx sy sz eta_x eta_y eta_z zeta hx hy hz nu lhx nx lhy ny lhz nz
                    (kof hx) (kof hy) (kof hz)).
  Notation L1 := (gauss_seidel_L1 sx sy sz eta_x eta_y eta_z zeta hx hy hz nu lhx nx lhy ny lhz nz
                    (kof hx) (kof hy) (kof hz)).
  Notation RES := (edge_res).

  (* the six equations of block (ix,iy,iz) hold on the field of state t *)
  Definition ExactAt (ix iy iz : Z) (t : @St F) : Prop :=
    forall k, 0 <= k < 6 ->
      edge_res (snd (fst (fst t))) (snd (fst t)) (snd t) sx sy sz eta_x eta_y eta_z zeta hx hy hz
        (cur (snd (fst (fst t))) (snd (fst t)) (snd t) ix iy iz) ix iy iz k = 0%F.

  (* [edge_res f x] depends on f and x only through the patched field *)
  Lemma edge_res_blk_ext (fx fy fz gx gy gz : Z -> Z -> Z -> F) (x y : Z -> F) ix iy iz k :
    (forall i j l, blk_x fx x ix iy iz i j l = blk_x gx y ix iy iz i j l) ->
    (forall i j l, blk_y fy x ix iy iz i j l = blk_y gy y ix iy iz i j l) ->
    (forall i j l, blk_z fz x ix iy iz i j l = blk_z gz y ix iy iz i j l) ->
    edge_res fx fy fz sx sy sz eta_x eta_y eta_z zeta hx hy hz x ix iy iz k
    = edge_res gx gy gz sx sy sz eta_x eta_y eta_z zeta hx hy hz y ix iy iz k.
  Proof.
    intros Bx By Bz. unfold edge_res. cbv zeta.
    unfold A_x, A_y, A_z, curlT_x, curlT_y, curlT_z, u_x, u_y, u_z, curl_x, curl_y, curl_z.
    rewrite ?Bx, ?By, ?Bz. reflexivity.
  Qed.

  (* the pivot hypothesis at one node, on the matrix of an arbitrary fixed field *)
  Variables (e0x e0y e0z : Z -> Z -> Z -> F).
  Definition PivAt (ix iy iz : Z) : Prop := forall j, 0 <= j < 6 ->
    pivot 6 (fst (gs_sys e0x e0y e0z sx sy sz eta_x eta_y eta_z zeta hx hy hz nu lhx nx lhy ny lhz nz
                         (fun _ => 0%F) ix iy iz)) j <> 0%F.

  Lemma L4_exact iz iy ix st : 1 <= ix -> 1 <= iy -> 1 <= iz -> PivAt ix iy iz ->
    ExactAt ix iy iz (L4 0 0 iz iz (iz-1) (iz+1) iy iy (iy-1) (iy+1) ix st).
  Proof.
    intros Hx Hy Hz Hpiv. destruct st as [[[a0 fx] fy] fz].
    rewrite (L4_step fx fy fz sx sy sz eta_x eta_y eta_z zeta hx hy hz nu lhx nx lhy ny lhz nz a0 ix iy iz).
    cbv zeta.
    pose proof (gs_block_exact Fth two_nz fx fy fz sx sy sz eta_x eta_y eta_z zeta hx hy hz
                  hx_nz hy_nz hz_nz nu lhx nx lhy ny lhz nz a0 ix iy iz Hx Hy Hz) as Hex.
    cbv zeta in Hex.
    set (sys := gs_sys fx fy fz sx sy sz eta_x eta_y eta_z zeta hx hy hz nu lhx nx lhy ny lhz nz a0 ix iy iz) in *.
    assert (Hp : forall j, 0 <= j < 6 -> pivot 6 (fst sys) j <> 0%F).
    { intros j Hj. unfold sys.
      rewrite (sys_matrix_indep sx sy sz eta_x eta_y eta_z zeta hx hy hz nu lhx nx lhy ny lhz nz
                 fx fy fz e0x e0y e0z a0 (fun _ => 0%F)).
      now apply Hpiv. }
    specialize (Hex Hp).
    set (r := snd (solve 6 (fst sys) (snd sys))) in *. clearbody r. clearbody sys.
    unfold ExactAt. cbn [fst snd]. intros k Hk.
    rewrite <- (Hex k Hk).
    apply edge_res_blk_ext; intros i j l.
    - unfold blk_x, new_ex, cur. cbn [Z.eqb Pos.eqb].
      rewrite upd3_self; [apply upd3_self; reflexivity|symmetry; apply upd3_self; reflexivity].
    - unfold blk_y, new_ey, cur. cbn [Z.eqb Pos.eqb].
      rewrite upd3_self; [apply upd3_self; reflexivity|symmetry; apply upd3_self; reflexivity].
    - unfold blk_z, new_ez, cur. cbn [Z.eqb Pos.eqb].
      rewrite upd3_self; [apply upd3_self; reflexivity|symmetry; apply upd3_self; reflexivity].
  Qed.

  Lemma L3_last iback it izh iz iyh st : (iback = 0 \/ iback = 1) -> 2 <= nx ->
    1 <= iz -> 1 <= node iback ny iyh ->
    PivAt (node iback nx (nx - 1)) (node iback ny iyh) iz ->
    ExactAt (node iback nx (nx - 1)) (node iback ny iyh) iz
            (L3 iback it izh iz (iz-1) (iz+1) iyh st).
  Proof.
    intros Hb Hnx Hz Hy Hpiv. rewrite L3_eq, Zfold_last by lia.
    rewrite L4_any by assumption.
    apply L4_exact; try assumption.
    pose proof (node_range iback nx (nx - 1) Hb). lia.
  Qed.

  Lemma L2_last iback it izh st : (iback = 0 \/ iback = 1) -> 2 <= nx -> 2 <= ny ->
    1 <= node iback nz izh ->
    PivAt (node iback nx (nx - 1)) (node iback ny (ny - 1)) (node iback nz izh) ->
    ExactAt (node iback nx (nx - 1)) (node iback ny (ny - 1)) (node iback nz izh)
            (L2 iback it izh st).
  Proof.
    intros Hb Hnx Hny Hz Hpiv. rewrite L2_eq, Zfold_last by lia.
    apply L3_last; try assumption.
    pose proof (node_range iback ny (ny - 1) Hb). lia.
  Qed.

  Lemma L1_last it (st : @St5 F) : (ib5 st = 0 \/ ib5 st = 1) -> 2 <= nx -> 2 <= ny -> 2 <= nz ->
    PivAt (node (1 - ib5 st) nx (nx - 1)) (node (1 - ib5 st) ny (ny - 1)) (node (1 - ib5 st) nz (nz - 1)) ->
    ExactAt (node (1 - ib5 st) nx (nx - 1)) (node (1 - ib5 st) ny (ny - 1)) (node (1 - ib5 st) nz (nz - 1))
            (tail5 (L1 it st)).
  Proof.
    intros Hb Hnx Hny Hnz Hpiv. rewrite L1_eq, tail5_cons5, Zfold_last by lia.
    assert (Hb' : 1 - ib5 st = 0 \/ 1 - ib5 st = 1) by lia.
    apply L2_last; try assumption.
    pose proof (node_range (1 - ib5 st) nz (nz - 1) Hb'). lia.
  Qed.

  (* the direction flag after k sweeps *)
  Lemma sweeps_ib k (s0 : @St5 F) : 0 <= k -> ib5 s0 = 0 ->
    ib5 (Zfold 0 k (fun it st => L1 it st) s0) = k mod 2.
  Proof.
    intros Hk H0.
    apply (Zfold_ind (fun t s => ib5 s = t mod 2) 0 k _ s0 Hk).
    - rewrite H0. reflexivity.
    - intros i s Hi Hs. rewrite L1_eq, ib5_cons5, Hs.
      pose proof (Z.mod_pos_bound i 2 ltac:(lia)).
      rewrite (Z.div_mod i 2) at 2 by lia.
      replace (2 * (i / 2) + i mod 2 + 1) with ((i mod 2 + 1) + (i / 2) * 2) by lia.
      rewrite Z.mod_add by lia.
      assert (C : i mod 2 = 0 \/ i mod 2 = 1) by lia.
      destruct C as [-> | ->]; reflexivity.
  Qed.

  Lemma node_last n : node (1 - (nu - 1) mod 2) n (n - 1) = last_node nu n.
  Proof.
    unfold node, last_node. rewrite (Zmod_odd (nu - 1)).
    replace (Z.odd nu) with (negb (Z.odd (nu - 1))).
    2:{ rewrite Z.negb_odd, <- Z.odd_succ. f_equal. lia. }
    destruct (Z.odd (nu - 1)).
    - change (1 - 1) with 0. cbn [Z.eqb negb]. reflexivity.
    - change (1 - 0) with 1. cbn [Z.eqb negb]. lia.
  Qed.

  Lemma sweeps_last (s0 : @St5 F) : ib5 s0 = 0 -> 1 <= nu -> 2 <= nx -> 2 <= ny -> 2 <= nz ->
    PivAt (last_node nu nx) (last_node nu ny) (last_node nu nz) ->
    ExactAt (last_node nu nx) (last_node nu ny) (last_node nu nz)
            (tail5 (Zfold 0 nu (fun it st => L1 it st) s0)).
  Proof.
    intros H0 Hnu Hnx Hny Hnz Hpiv. rewrite Zfold_last by lia.
    pose proof (sweeps_ib (nu - 1) s0 ltac:(lia) H0) as Hib.
    set (s' := Zfold 0 (nu - 1) (fun it st => L1 it st) s0) in *. clearbody s'.
    pose proof (Z.mod_pos_bound (nu - 1) 2 ltac:(lia)) as Hm.
    rewrite <- !node_last in *. rewrite <- Hib in *.
    apply L1_last; try assumption. lia.
  Qed.
End LastBlock.

Section GSLast.
  Context {F : Type} {O : FOps F}.
  Hypothesis Fth : field_theory F0 F1 Fadd Fmul Fsub Fopp Fdiv Finv (@eq F).
  Hypothesis two_nz : (1 + 1)%F <> 0%F.
  Variables (ex ey ez sx sy sz eta_x eta_y eta_z zeta : Z -> Z -> Z -> F).
  Variables (hx hy hz : Z -> F).
  Hypothesis hx_nz : forall i, hx i <> 0%F.
  Hypothesis hy_nz : forall i, hy i <> 0%F.
  Hypothesis hz_nz : forall i, hz i <> 0%F.
  Variables (nu nx ny nz : Z).

  (* sharp form: only the pivots of the LAST block are needed *)
  Theorem gauss_seidel_last_block_exact_at :
    1 <= nu -> 2 <= nx -> 2 <= ny -> 2 <= nz ->
    let ix := last_node nu nx in let iy := last_node nu ny in let iz := last_node nu nz in
    (forall j, 0 <= j < 6 ->
       pivot 6 (fst (gs_sys ex ey ez sx sy sz eta_x eta_y eta_z zeta hx hy hz nu nx nx ny ny nz nz
                            (fun _ => 0%F) ix iy iz)) j <> 0%F) ->
    let r := gauss_seidel nx ny nz ex ey ez sx sy sz eta_x eta_y eta_z zeta hx hy hz nu in
    forall k, 0 <= k < 6 ->
      edge_res (fst (fst r)) (snd (fst r)) (snd r) sx sy sz eta_x eta_y eta_z zeta hx hy hz
        (cur (fst (fst r)) (snd (fst r)) (snd r) ix iy iz) ix iy iz k = 0%F.
  Proof.
    intros Hnu Hnx Hny Hnz ix iy iz Hpiv r k Hk. subst r.
    pose proof (sweeps_last Fth two_nz sx sy sz eta_x eta_y eta_z zeta hx hy hz hx_nz hy_nz hz_nz
                  nu nx nx ny ny nz nz ex ey ez (0, fill1 F0, ex, ey, ez) eq_refl
                  Hnu Hnx Hny Hnz Hpiv k Hk) as G.
    rewrite (gs_eq sx sy sz eta_x eta_y eta_z zeta hx hy hz nu nx nx ny ny nz nz ex ey ez
                   eq_refl eq_refl eq_refl).
    exact G.
  Qed.

  Lemma last_node_range n : 2 <= n -> 1 <= last_node nu n < n.
  Proof. unfold last_node. destruct (Z.odd nu); lia. Qed.

  (* with the pivot hypothesis of the other whole-kernel theorems *)
  Theorem gauss_seidel_last_block_exact :
    1 <= nu -> 2 <= nx -> 2 <= ny -> 2 <= nz ->
    (forall ix iy iz, interior nx ny nz ix iy iz -> forall j, 0 <= j < 6 ->
       pivot 6 (fst (gs_sys ex ey ez sx sy sz eta_x eta_y eta_z zeta hx hy hz nu nx nx ny ny nz nz
                            (fun _ => 0%F) ix iy iz)) j <> 0%F) ->
    let ix := last_node nu nx in let iy := last_node nu ny in let iz := last_node nu nz in
    let r := gauss_seidel nx ny nz ex ey ez sx sy sz eta_x eta_y eta_z zeta hx hy hz nu in
    forall k, 0 <= k < 6 ->
      edge_res (fst (fst r)) (snd (fst r)) (snd r) sx sy sz eta_x eta_y eta_z zeta hx hy hz
        (cur (fst (fst r)) (snd (fst r)) (snd r) ix iy iz) ix iy iz k = 0%F.
  Proof.
    intros Hnu Hnx Hny Hnz Hpiv ix iy iz.
    apply (gauss_seidel_last_block_exact_at Hnu Hnx Hny Hnz).
    apply Hpiv. unfold interior.
    pose proof (last_node_range nx Hnx). pose proof (last_node_range ny Hny).
    pose proof (last_node_range nz Hnz). auto.
  Qed.
End GSLast.

(* ------------------------------------------------------------------ *)
(* Non-vacuity: on a concrete 3 x 2 x 2 grid over Q (stretched cells, varying
   zeta and eta, non-zero field and source) no pivot of the two interior
   blocks (1,1,1), (2,1,1) vanishes -- the hypothesis of both theorems. *)
From Coq Require Import QArith.
From V Require Import Base.ExecQ.
Local Open Scope Z_scope.
Definition ah (i : Z) : Q := qz (2 + Z.abs i) 2.
Definition azeta (i j k : Z) : Q := qz (1 + Z.abs i + 2 * Z.abs j + 3 * Z.abs k) 3.
Definition aeta (i j k : Z) : Q := qz (- (2 + Z.abs i + Z.abs j * Z.abs k)) 5.
Definition aex (i j k : Z) : Q := qz (1 + i - 2 * j + 3 * k) 2.
Definition aey (i j k : Z) : Q := qz (2 - i + j + k) 3.
Definition aez (i j k : Z) : Q := qz (1 + 2 * i - j + k) 4.
Definition asx (i j k : Z) : Q := qz (3 - i + j) 7.
Definition asy (i j k : Z) : Q := qz (i - k) 2.
Definition asz (i j k : Z) : Q := qz (1 + j * k) 3.

Example gs_pivots_example :
  forall ix iy iz, interior 3 2 2 ix iy iz -> forall j, 0 <= j < 6 ->
    pivot 6 (fst (gs_sys aex aey aez asx asy asz aeta aeta aeta azeta ah ah ah 2 3 3 2 2 2 2
                         (fun _ => 0%F) ix iy iz)) j <> 0%F.
Proof.
  intros ix iy iz (Hx & Hy & Hz).
  assert (Ey : iy = 1) by lia. assert (Ez : iz = 1) by lia.
  assert (Ex : ix = 1 \/ ix = 2) by lia. subst iy iz.
  destruct Ex as [-> | ->].
  - by_nz qzero 6 (ldl 6 (fst (gs_sys aex aey aez asx asy asz aeta aeta aeta azeta ah ah ah
                                  2 3 3 2 2 2 2 (fun _ => 0%F) 1 1 1))).
  - by_nz qzero 6 (ldl 6 (fst (gs_sys aex aey aez asx asy asz aeta aeta aeta azeta ah ah ah
                                  2 3 3 2 2 2 2 (fun _ => 0%F) 2 1 1))).
Qed.

(* Sanity check of the statement of (B), by running the generated kernel on
   this instance: after nu = 1 sweep (descending order) the block (1,1,1) is
   exact and the block (2,1,1) is not; after nu = 2 it is the other way round. *)
Definition res_at (nu ix iy iz : Z) : Z -> Q :=
  let r := gauss_seidel 3 2 2 aex aey aez asx asy asz aeta aeta aeta azeta ah ah ah nu in
  fun k => edge_res (fst (fst r)) (snd (fst r)) (snd r) asx asy asz aeta aeta aeta azeta ah ah ah
             (cur (fst (fst r)) (snd (fst r)) (snd r) ix iy iz) ix iy iz k.

Example gs_last_example :
  last_node 1 3 = 1 /\ last_node 2 3 = 2 /\
  (forall k, 0 <= k < 6 -> res_at 1 1 1 1 k = 0%F) /\ res_at 1 2 1 1 2 <> 0%F /\
  (forall k, 0 <= k < 6 -> res_at 2 2 1 1 k = 0%F) /\ res_at 2 1 1 1 2 <> 0%F.
Proof.
  split; [reflexivity|split; [reflexivity|split; [|split; [|split]]]].
  - by_dump 6 (res_at 1 1 1 1) (fun _ : Z => 0%F).
  - vm_compute; discriminate.
  - by_dump 6 (res_at 2 2 1 1) (fun _ : Z => 0%F).
  - vm_compute; discriminate.
Qed.

Print Assumptions Zfold_rel3.
Print Assumptions sys_matrix_indep_src.
Print Assumptions solve_lin_ext.
Print Assumptions L4_lin.
Print Assumptions sweeps_rel3.
Print Assumptions gauss_seidel_linear.
Print Assumptions gauss_seidel_affine.
Print Assumptions L4_exact.
Print Assumptions sweeps_last.
Print Assumptions gauss_seidel_last_block_exact_at.
Print Assumptions gauss_seidel_last_block_exact.
Print Assumptions gs_pivots_example.
Print Assumptions gs_last_example.
