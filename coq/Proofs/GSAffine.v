(* Proofs/GSAffine.v -- two whole-kernel theorems about the point-wise
   Gauss-Seidel smoother [gauss_seidel] (Gen/CoreGS.v, regenerated from
   emg3d/core.py), for EVERY nu, nx, ny, nz, over an abstract field:

   (A) [gauss_seidel_linear] / [gauss_seidel_affine]: the smoother is a LINEAR
       (hence affine) map of the pair (field, source): for all scalars al, be
         GS (al e1 + be e2, al s1 + be s2) = al GS(e1,s1) + be GS(e2,s2)
       pointwise on the three components, provided no block pivot vanishes.
       The pivot hypothesis is stated once, on the block matrices, which depend
       neither on the field nor on the source nor on the scratch array
       ([sys_matrix_indep_src], by reflexivity).
       (The task asked for affinity, al + be = 1; that hypothesis turned out
       not to be needed, [gauss_seidel_affine] is the special case.)

   (B) [gauss_seidel_last_block_exact]: for nu >= 1 and nx, ny, nz >= 2 the six
       equations of the block relaxed LAST hold exactly on the returned field.
       The kernel flips [iback] BEFORE every sweep, starting from 0: sweeps
       1, 3, ... run through the nodes in DESCENDING order and end at (1,1,1),
       sweeps 2, 4, ... run in ascending order and end at (nx-1,ny-1,nz-1).

   Technique: (A) relational (three-run) fold induction [Zfold_rel3] through
   the four loops; (B) peeling the last iteration of each loop ([Zfold_last]).
   The shape of the generated loop nest is captured once in the equational
   lemmas [L3_eq], [L2_eq], [L1_eq], [gs_eq] (all by reflexivity: they break if
   the generated code changes shape).  Nothing is left unproved. *)
From Coq Require Import ZArith Lia Bool Field List.
From V Require Import Base.Loops Base.Arr Base.FieldSig Base.Tactics.
From V Require Import Gen.CoreBand Gen.CoreGS Model.FIT Proofs.BandSums Proofs.BandLDL
                      Proofs.GSBlock Proofs.GSSweep.
Local Open Scope Z_scope.

(* ------------------------------------------------------------------ *)
(* generic fold lemmas                                                  *)
Lemma Zfold_rel3 {S1 S2 S3} (R : S1 -> S2 -> S3 -> Prop) lo hi
      (f : Z -> S1 -> S1) (g : Z -> S2 -> S2) (h : Z -> S3 -> S3) s1 s2 s3 :
  R s1 s2 s3 ->
  (forall i a b c, lo <= i < hi -> R a b c -> R (f i a) (g i b) (h i c)) ->
  R (Zfold lo hi f s1) (Zfold lo hi g s2) (Zfold lo hi h s3).
Proof.
  intros H0 Hs. destruct (Z_le_gt_dec lo hi) as [Hle|Hgt].
  - apply (Zfold_ind (fun t s => R s (Zfold lo t g s2) (Zfold lo t h s3)) lo hi f s1 Hle).
    + now rewrite !Zfold_empty by lia.
    + intros i s Hi Hr. rewrite !(Zfold_snoc lo i) by lia. now apply Hs.
  - now rewrite !Zfold_empty by lia.
Qed.

(* the last iteration of a non-empty loop *)
Lemma Zfold_last {St} lo hi (body : Z -> St -> St) s : lo < hi ->
  Zfold lo hi body s = body (hi - 1) (Zfold lo (hi - 1) body s).
Proof.
  intros H. replace hi with (hi - 1 + 1) at 1 by lia. apply Zfold_snoc. lia.
Qed.

(* ------------------------------------------------------------------ *)
(* (i)-(iv): one block step is linear in (field, source)                *)
Section LinBlock.
  Context {F : Type} {O : FOps F}.
  Hypothesis Fth : field_theory F0 F1 Fadd Fmul Fsub Fopp Fdiv Finv (@eq F).
  Hypothesis two_nz : (1 + 1)%F <> 0%F.
  Add Field Fga : Fth.

  Variables (al be : F).
  (* three fields and three sources: m = al * p + be * q *)
  Variables (mx my mz px py pz qx qy qz : Z -> Z -> Z -> F).
  Variables (smx smy smz spx spy spz sqx sqy sqz : Z -> Z -> Z -> F).
  Variables (eta_x eta_y eta_z zeta : Z -> Z -> Z -> F).
  Variables (hx hy hz : Z -> F).
  Hypothesis hx_nz : forall i, hx i <> 0%F.
  Hypothesis hy_nz : forall i, hy i <> 0%F.
  Hypothesis hz_nz : forall i, hz i <> 0%F.
  Variables (nu lhx nx lhy ny lhz nz : Z).

  Hypothesis Hmx : forall i j l, mx i j l = (al * px i j l + be * qx i j l)%F.
  Hypothesis Hmy : forall i j l, my i j l = (al * py i j l + be * qy i j l)%F.
  Hypothesis Hmz : forall i j l, mz i j l = (al * pz i j l + be * qz i j l)%F.
  Hypothesis Hsx : forall i j l, smx i j l = (al * spx i j l + be * sqx i j l)%F.
  Hypothesis Hsy : forall i j l, smy i j l = (al * spy i j l + be * sqy i j l)%F.
  Hypothesis Hsz : forall i j l, smz i j l = (al * spz i j l + be * sqz i j l)%F.

  Notation SYSm := (gs_sys mx my mz smx smy smz eta_x eta_y eta_z zeta hx hy hz nu lhx nx lhy ny lhz nz).
  Notation SYSp := (gs_sys px py pz spx spy spz eta_x eta_y eta_z zeta hx hy hz nu lhx nx lhy ny lhz nz).
  Notation SYSq := (gs_sys qx qy qz sqx sqy sqz eta_x eta_y eta_z zeta hx hy hz nu lhx nx lhy ny lhz nz).

  Let four_nz' : ((1 + 1) * (1 + 1))%F <> 0%F := four_nz Fth two_nz.
  Let one_nz' : (1 : F)%F <> 0%F := one_nz Fth.

  Ltac side := first [ exact two_nz | exact four_nz' | exact one_nz' | apply hx_nz | apply hy_nz
                     | apply hz_nz ].

  (* symbolic evaluation of the update chain of the right-hand side at a literal
     index (normal form computed by the tactic engine, re-checked by the VM) *)
  Ltac rhs_eval :=
    match goal with
    | |- ?G =>
        let G' := eval cbv beta iota zeta delta
                    [gs_sys gauss_seidel_L4_call1
                     upd1 upd1f upd3f fill1 arr_of_list nth Z.to_nat Pos.to_nat Pos.iter_op
                     Nat.add Z.eqb Pos.eqb Z.ltb Z.compare Pos.compare
                     Pos.compare_cont negb fst snd kof] in G in
        cut G'; [ let H := fresh "H" in intro H; vm_cast_no_check H | ]
    end.

  Ltac rhs_row := rhs_eval; rewrite ?Hmx, ?Hmy, ?Hmz, ?Hsx, ?Hsy, ?Hsz; flit; field;
                  repeat split; side.

  Lemma rhs_lin0 a0 a1 a2 ix iy iz :
    snd (SYSm a0 ix iy iz) 0 = (al * snd (SYSp a1 ix iy iz) 0%Z + be * snd (SYSq a2 ix iy iz) 0%Z)%F.
  Proof. rhs_row. Qed.
  Lemma rhs_lin1 a0 a1 a2 ix iy iz :
    snd (SYSm a0 ix iy iz) 1 = (al * snd (SYSp a1 ix iy iz) 1%Z + be * snd (SYSq a2 ix iy iz) 1%Z)%F.
  Proof. rhs_row. Qed.
  Lemma rhs_lin2 a0 a1 a2 ix iy iz :
    snd (SYSm a0 ix iy iz) 2 = (al * snd (SYSp a1 ix iy iz) 2%Z + be * snd (SYSq a2 ix iy iz) 2%Z)%F.
  Proof. rhs_row. Qed.
  Lemma rhs_lin3 a0 a1 a2 ix iy iz :
    snd (SYSm a0 ix iy iz) 3 = (al * snd (SYSp a1 ix iy iz) 3%Z + be * snd (SYSq a2 ix iy iz) 3%Z)%F.
  Proof. rhs_row. Qed.
  Lemma rhs_lin4 a0 a1 a2 ix iy iz :
    snd (SYSm a0 ix iy iz) 4 = (al * snd (SYSp a1 ix iy iz) 4%Z + be * snd (SYSq a2 ix iy iz) 4%Z)%F.
  Proof. rhs_row. Qed.
  Lemma rhs_lin5 a0 a1 a2 ix iy iz :
    snd (SYSm a0 ix iy iz) 5 = (al * snd (SYSp a1 ix iy iz) 5%Z + be * snd (SYSq a2 ix iy iz) 5%Z)%F.
  Proof. rhs_row. Qed.
End LinBlock.

(* the block matrix depends neither on the fields, nor on the source, nor on
   the old contents of the scratch array amat (which is re-filled at every
   node) *)
Lemma sys_matrix_indep_src {F : Type} {O : FOps F}
      (fx fy fz gx gy gz sx sy sz tx ty tz eta_x eta_y eta_z zeta : Z -> Z -> Z -> F)
      (hx hy hz : Z -> F) (nu lhx nx lhy ny lhz nz : Z)
      (a1 a2 : Z -> F) ix iy iz :
  fst (gs_sys fx fy fz sx sy sz eta_x eta_y eta_z zeta hx hy hz nu lhx nx lhy ny lhz nz a1 ix iy iz)
  = fst (gs_sys gx gy gz tx ty tz eta_x eta_y eta_z zeta hx hy hz nu lhx nx lhy ny lhz nz a2 ix iy iz).
Proof. reflexivity. Qed.

Section LinStep.
  Context {F : Type} {O : FOps F}.
  Hypothesis Fth : field_theory F0 F1 Fadd Fmul Fsub Fopp Fdiv Finv (@eq F).
  Hypothesis two_nz : (1 + 1)%F <> 0%F.
  Add Field Fgb : Fth.
  Variables (al be : F).

  (* (iii) the banded solve is linear in the right-hand side, pointwise form *)
  Lemma solve_lin_ext n (A bm b1 b2 : Z -> F) : 1 <= n ->
    (forall j, 0 <= j < n -> pivot n A j <> 0%F) ->
    (forall k, 0 <= k < n -> bm k = (al * b1 k + be * b2 k)%F) ->
    forall i, 0 <= i < n ->
      snd (solve n A bm) i = (al * snd (solve n A b1) i + be * snd (solve n A b2) i)%F.
  Proof.
    intros Hn Hpiv Hb.
    apply (solve_unique Fth n A bm Hn Hpiv
             (fun i => (al * snd (solve n A b1) i + be * snd (solve n A b2) i)%F)).
    intros i Hi. rewrite (bandmul_lin Fth).
    rewrite !(solve_correct Fth) by assumption. symmetry. now apply Hb.
  Qed.

  (* (iv) the write-back is linear *)
  Lemma upd3_lin (xm x1 x2 : Z -> Z -> Z -> F) i j k (vm v1 v2 : F) :
    (forall i' j' k', xm i' j' k' = (al * x1 i' j' k' + be * x2 i' j' k')%F) ->
    vm = (al * v1 + be * v2)%F ->
    forall i' j' k', upd3 xm i j k vm i' j' k'
                     = (al * upd3 x1 i j k v1 i' j' k' + be * upd3 x2 i j k v2 i' j' k')%F.
  Proof.
    intros Hx Hv i' j' k'. unfold upd3.
    destruct ((i' =? i) && (j' =? j) && (k' =? k))%bool; [exact Hv|apply Hx].
  Qed.

  Variables (smx smy smz spx spy spz sqx sqy sqz : Z -> Z -> Z -> F).
  Variables (eta_x eta_y eta_z zeta : Z -> Z -> Z -> F).
  Variables (hx hy hz : Z -> F).
  Hypothesis hx_nz : forall i, hx i <> 0%F.
  Hypothesis hy_nz : forall i, hy i <> 0%F.
  Hypothesis hz_nz : forall i, hz i <> 0%F.
  Variables (nu lhx nx lhy ny lhz nz : Z).
  Hypothesis Hsx : forall i j l, smx i j l = (al * spx i j l + be * sqx i j l)%F.
  Hypothesis Hsy : forall i j l, smy i j l = (al * spy i j l + be * sqy i j l)%F.
  Hypothesis Hsz : forall i j l, smz i j l = (al * spz i j l + be * sqz i j l)%F.

  (* the three runs: states (amat, ex, ey, ez); nothing is required of amat *)
  Definition Lin3 (tm t1 t2 : @St F) : Prop :=
    (forall i j l, snd (fst (fst tm)) i j l
                   = (al * snd (fst (fst t1)) i j l + be * snd (fst (fst t2)) i j l)%F) /\
    (forall i j l, snd (fst tm) i j l = (al * snd (fst t1) i j l + be * snd (fst t2) i j l)%F) /\
    (forall i j l, snd tm i j l = (al * snd t1 i j l + be * snd t2 i j l)%F).

  Notation L4m := (gs_args_L4 smx smy smz eta_x eta_y eta_z zeta hx hy hz nu lhx nx lhy ny lhz nz).
  Notation L4p := (gs_args_L4 spx spy spz eta_x eta_y eta_z zeta hx hy hz nu lhx nx lhy ny lhz nz).
  Notation L4q := (gs_args_L4 sqx sqy sqz eta_x eta_y eta_z zeta hx hy hz nu lhx nx lhy ny lhz nz).

  (* the pivot hypothesis, stated on the matrices of run 1 with a zero scratch array *)
  Variables (e1x e1y e1z : Z -> Z -> Z -> F).
  Hypothesis pivots : forall ix iy iz, interior nx ny nz ix iy iz -> forall j, 0 <= j < 6 ->
    pivot 6 (fst (gs_sys e1x e1y e1z spx spy spz eta_x eta_y eta_z zeta hx hy hz nu lhx nx lhy ny lhz nz
                         (fun _ => 0%F) ix iy iz)) j <> 0%F.

  Lemma L4_lin iz iy ix tm t1 t2 : interior nx ny nz ix iy iz -> Lin3 tm t1 t2 ->
    Lin3 (L4m 0 0 iz iz (iz-1) (iz+1) iy iy (iy-1) (iy+1) ix tm)
         (L4p 0 0 iz iz (iz-1) (iz+1) iy iy (iy-1) (iy+1) ix t1)
         (L4q 0 0 iz iz (iz-1) (iz+1) iy iy (iy-1) (iy+1) ix t2).
  Proof.
    intros Hin (Gx & Gy & Gz).
    destruct tm as [[[am mx] my] mz], t1 as [[[a1 px] py] pz], t2 as [[[a2 qx] qy] qz].
    cbn [fst snd] in Gx, Gy, Gz.
    rewrite (L4_step mx my mz smx smy smz eta_x eta_y eta_z zeta hx hy hz nu lhx nx lhy ny lhz nz am ix iy iz).
    rewrite (L4_step px py pz spx spy spz eta_x eta_y eta_z zeta hx hy hz nu lhx nx lhy ny lhz nz a1 ix iy iz).
    rewrite (L4_step qx qy qz sqx sqy sqz eta_x eta_y eta_z zeta hx hy hz nu lhx nx lhy ny lhz nz a2 ix iy iz).
    cbv zeta.
    set (sysm := gs_sys mx my mz smx smy smz eta_x eta_y eta_z zeta hx hy hz nu lhx nx lhy ny lhz nz am ix iy iz).
    set (sysp := gs_sys px py pz spx spy spz eta_x eta_y eta_z zeta hx hy hz nu lhx nx lhy ny lhz nz a1 ix iy iz).
    set (sysq := gs_sys qx qy qz sqx sqy sqz eta_x eta_y eta_z zeta hx hy hz nu lhx nx lhy ny lhz nz a2 ix iy iz).
    assert (Em : fst sysm = fst sysp).
    { exact (sys_matrix_indep_src mx my mz px py pz smx smy smz spx spy spz eta_x eta_y eta_z zeta
               hx hy hz nu lhx nx lhy ny lhz nz am a1 ix iy iz). }
    assert (Eq : fst sysq = fst sysp).
    { exact (sys_matrix_indep_src qx qy qz px py pz sqx sqy sqz spx spy spz eta_x eta_y eta_z zeta
               hx hy hz nu lhx nx lhy ny lhz nz a2 a1 ix iy iz). }
    assert (Hpiv : forall j, 0 <= j < 6 -> pivot 6 (fst sysp) j <> 0%F).
    { intros j Hj. unfold sysp.
      rewrite (sys_matrix_indep_src px py pz e1x e1y e1z spx spy spz spx spy spz eta_x eta_y eta_z zeta
                 hx hy hz nu lhx nx lhy ny lhz nz a1 (fun _ => 0%F)).
      now apply pivots. }
    rewrite Em, Eq.
    assert (Hrhs : forall k, 0 <= k < 6 -> snd sysm k = (al * snd sysp k + be * snd sysq k)%F).
    { intros k Hk.
      assert (C : k = 0 \/ k = 1 \/ k = 2 \/ k = 3 \/ k = 4 \/ k = 5) by lia.
      unfold sysm, sysp, sysq.
      destruct C as [E|[E|[E|[E|[E|E]]]]]; subst k;
        [ apply (rhs_lin0 Fth two_nz al be mx my mz px py pz qx qy qz) 
        | apply (rhs_lin1 Fth two_nz al be mx my mz px py pz qx qy qz)
        | apply (rhs_lin2 Fth two_nz al be mx my mz px py pz qx qy qz)
        | apply (rhs_lin3 Fth two_nz al be mx my mz px py pz qx qy qz)
        | apply (rhs_lin4 Fth two_nz al be mx my mz px py pz qx qy qz)
        | apply (rhs_lin5 Fth two_nz al be mx my mz px py pz qx qy qz) ]; assumption. }
    pose proof (solve_lin_ext 6 (fst sysp) (snd sysm) (snd sysp) (snd sysq) ltac:(lia) Hpiv Hrhs) as Hsol.
    set (rm := snd (solve 6 (fst sysp) (snd sysm))) in *.
    set (rp := snd (solve 6 (fst sysp) (snd sysp))) in *.
    set (rq := snd (solve 6 (fst sysp) (snd sysq))) in *.
    clearbody rm rp rq. clearbody sysm sysp sysq.
    unfold Lin3. cbn [fst snd]. unfold new_ex, new_ey, new_ez.
    repeat split; intros i j l;
      (apply upd3_lin; [apply upd3_lin; [assumption|apply Hsol; lia]|apply Hsol; lia]).
  Qed.
End LinStep.
