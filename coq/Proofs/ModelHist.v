(* Proofs/ModelHist.v -- lemmas about Model/ModelHist.v (property C02, round 6):
   the coefficients a VolumeModel hands to the kernel are a function of the
   model's CURRENT arrays, for every history of operations on one Model. *)
From Coq Require Import ZArith Bool List Field Lia.
From V Require Import Base.FieldSig Model.VolumeModel Model.ModelHist.
Import ListNotations.

Section Hist.
  Context {F : Type} {O : FOps F}.
  Variable pos : F -> bool.
  Local Notation stepP := (step pos).
  Local Notation runP := (run pos).

  (* ---- building a VolumeModel ---- *)
  Lemma step_build (st : mstate) a b :
    stepP st (OBuild a b) = (st, Coeffs (coeffs st a b)).
  Proof. reflexivity. Qed.

  Lemma run_app (st : mstate) h1 h2 :
    runP st (h1 ++ h2) =
    (fst (runP (fst (runP st h1)) h2), snd (runP st h1) ++ snd (runP (fst (runP st h1)) h2)).
  Proof.
    revert st; induction h1 as [|o t IH]; intro st; simpl.
    - destruct (runP st h2); reflexivity.
    - rewrite IH. reflexivity.
  Qed.

  (* VolumeModels built along the way leave no trace in the Model *)
  Lemma run_erase (st : mstate) h :
    fst (runP st h) = fst (runP st (erase_builds h)).
  Proof.
    revert st; induction h as [|o t IH]; intro st; simpl; auto.
    destruct o as [p vals|p w|p f k|a b]; simpl; try apply IH.
  Qed.

  (* ... and the non-build outcomes are the same too *)
  Lemma run_erase_outcomes (st : mstate) h :
    filter (fun r => match r with Coeffs _ => false | _ => true end) (snd (runP st h))
    = snd (runP st (erase_builds h)).
  Proof.
    revert st; induction h as [|o t IH]; intro st; simpl; auto.
    destruct o as [p vals|p w|p f k|a b]; simpl; try apply IH.
    - destruct (getp st p); simpl; [destruct (forallb pos vals); simpl|]; f_equal; apply IH.
    - destruct (getp st p); simpl; f_equal; apply IH.
    - destruct (getp st p); simpl;
        [destruct (forallb pos (map (fun a => apply_aop f a k) l)); simpl|]; f_equal; apply IH.
  Qed.

  Lemma build_sees_current (st : mstate) h a b :
    snd (runP st (h ++ [OBuild a b]))
    = snd (runP st h) ++ [Coeffs (coeffs (fst (runP st (erase_builds h))) a b)].
  Proof. rewrite run_app. simpl. rewrite <- run_erase. reflexivity. Qed.

  Lemma coeffs_of_equal_arrays (st1 st2 : mstate) h1 h2 a b :
    fst (runP st1 h1) = fst (runP st2 h2) ->
    snd (stepP (fst (runP st1 h1)) (OBuild a b)) = snd (stepP (fst (runP st2 h2)) (OBuild a b)).
  Proof. intros E. rewrite E. reflexivity. Qed.

  (* ---- what never changes: mapping, eps0, volumes, which parameters exist ---- *)
  Lemma step_frame (st : mstate) o : frame (fst (stepP st o)) = frame st.
  Proof.
    destruct st as [r e v x y z mu ep].
    destruct o as [p vals|p w|p f k|a b]; try reflexivity;
      destruct p, y, z, mu, ep; simpl; try reflexivity;
      try (destruct (forallb pos vals); reflexivity).
  Qed.

  Lemma run_frame (st : mstate) h : frame (fst (runP st h)) = frame st.
  Proof.
    revert st; induction h as [|o t IH]; intro st; simpl; auto.
    rewrite IH. apply step_frame.
  Qed.

  (* ---- failed operations ---- *)
  Lemma set_failed_unchanged (st : mstate) p vals :
    snd (stepP st (OSet p vals)) <> Done -> fst (stepP st (OSet p vals)) = st.
  Proof.
    simpl. destruct (getp st p); simpl; auto.
    destruct (forallb pos vals); simpl; auto. intros H; exfalso; apply H; reflexivity.
  Qed.

  Lemma none_unchanged (st : mstate) o :
    snd (stepP st o) = NoneErr -> fst (stepP st o) = st.
  Proof.
    destruct o as [p vals|p w|p f k|a b]; simpl; try discriminate.
    - destruct (getp st p); simpl; auto. destruct (forallb pos vals); simpl; discriminate.
    - destruct (getp st p); simpl; auto. discriminate.
    - destruct (getp st p); simpl; auto.
      destruct (forallb pos (map (fun a => apply_aop f a k) l)); simpl; discriminate.
  Qed.

  Lemma failed_then_build (st : mstate) p vals a b :
    snd (stepP st (OSet p vals)) <> Done ->
    snd (runP st [OSet p vals; OBuild a b])
    = [snd (stepP st (OSet p vals)); Coeffs (coeffs st a b)].
  Proof.
    intros H. cbn [run fst snd]. rewrite (set_failed_unchanged st p vals H). reflexivity.
  Qed.

  (* ---- input forms: the setter is a full in-place write ---- *)
  Lemma overlay_full (old vals : list F) :
    length old = length vals -> overlay old (map Some vals) = vals.
  Proof.
    revert vals; induction old as [|o t IH]; intros [|v vs]; simpl; try discriminate; auto.
    intros E. f_equal. apply IH. lia.
  Qed.

  Lemma setter_is_full_slice (st : mstate) p old vals :
    getp st p = Some old -> length old = length vals -> forallb pos vals = true ->
    fst (stepP st (OSet p vals)) = fst (stepP st (OSlice p (map Some vals))).
  Proof.
    intros G L P. simpl. rewrite G, P. simpl. rewrite overlay_full; auto.
  Qed.

  (* ---- locality: cell i of the coefficients is a function of cell i ---- *)
  Lemma coeffs_length (st : mstate) a b : length (coeffs st a b) = length (m_vol st).
  Proof. unfold coeffs. rewrite map_length, seq_length. reflexivity. Qed.

  Lemma coeffs_local (st : mstate) a b i d :
    (i < length (m_vol st))%nat -> nth i (coeffs st a b) d = coeff_at st a b i.
  Proof.
    intros Hi. rewrite (nth_indep _ d (coeff_at st a b 0%nat)) by (rewrite coeffs_length; exact Hi).
    unfold coeffs. rewrite map_nth. rewrite seq_nth by exact Hi. reflexivity.
  Qed.

  Lemma nth_overlay (old : list F) w i d :
    (i < length old)%nat ->
    nth i (overlay old w) d = match nth i w None with Some v => v | None => nth i old d end.
  Proof.
    revert w i; induction old as [|o t IH]; intros w i Hi; simpl in Hi; [lia|].
    destruct w as [|[v|] w']; destruct i as [|i]; simpl; auto; apply IH; lia.
  Qed.

  (* an in-place write to mu_r is what the NEXT VolumeModel divides by, whatever
     happened before (in particular whatever mu_r was when an earlier one was built) *)
  Lemma slice_mu_then_build (st : mstate) old w a b i d :
    m_mu st = Some old -> (i < length old)%nat -> (i < length (m_vol st))%nat ->
    snd (nth i (coeffs (fst (stepP st (OSlice PMu w))) a b) d)
    = zeta_of true (nth i (m_vol st) 0%F)
              (match nth i w None with Some v => v | None => nth i old 0%F end).
  Proof.
    intros M Hi Hv. simpl. rewrite M. simpl.
    rewrite coeffs_local by (simpl; exact Hv).
    unfold coeff_at, cell_coeff. simpl. rewrite nth_overlay by exact Hi. reflexivity.
  Qed.

  Lemma slice_x_then_build (st : mstate) w a b i d :
    (i < length (m_x st))%nat -> (i < length (m_vol st))%nat ->
    fst (fst (fst (nth i (coeffs (fst (stepP st (OSlice PX w))) a b) d)))
    = eta_of a b (m_eps0 st) (is_some (m_eps st)) (nth i (m_vol st) 0%F)
             (cond_of (m_resist st)
                (match nth i w None with Some v => v | None => nth i (m_x st) 0%F end))
             (oget (m_eps st) i).
  Proof.
    intros Hi Hv. simpl.
    rewrite coeffs_local by (simpl; exact Hv).
    unfold coeff_at, cell_coeff. simpl. rewrite nth_overlay by exact Hi. reflexivity.
  Qed.
End Hist.

(* ---- zeta = V / mu_r reduces to V exactly when mu_r = 1 (pointwise) ---- *)
Section Zeta.
  Context {F : Type} {O : FOps F}.
  Hypothesis Fth : field_theory F0 F1 Fadd Fmul Fsub Fopp Fdiv Finv (@eq F).
  Add Field Fz : Fth.

  Lemma zeta_no_mu (vol mur : F) : zeta_of false vol mur = vol.
  Proof. reflexivity. Qed.

  Lemma zeta_unit_iff (vol mur : F) :
    vol <> 0%F -> mur <> 0%F -> (zeta_of true vol mur = vol <-> mur = 1%F).
  Proof.
    intros Hv Hm. unfold zeta_of. split.
    - intros H.
      assert (E : mur = (vol / (vol / mur))%F) by (field; split; assumption).
      rewrite H in E. rewrite E. field. exact Hv.
    - intros ->. field. exact (F_1_neq_0 Fth).
  Qed.
End Zeta.
