(* Proofs/AmatSym.v -- the operator of C02 is (complex-)symmetric on fields with
   vanishing tangential boundary values:  <A e, g> = <e, A g>  (bilinear, no
   conjugation), for every shape, all widths <> 0, all coefficients.  Uses the
   3-D summation-by-parts identity [curl_adjoint] of Proofs/InterpMag.v. *)
From Coq Require Import ZArith Lia Bool Field.
From V Require Import Base.Loops Base.Arr Base.FieldSig Base.Tactics.
From V Require Import Model.FIT Model.Interp Proofs.InterpSums Proofs.InterpMag.
Local Open Scope Z_scope.

Section AmatSym.
  Context {F : Type} {O : FOps F}.
  Hypothesis Fth : field_theory F0 F1 Fadd Fmul Fsub Fopp Fdiv Finv (@eq F).
  Add Field Fas : Fth.

  Variables (eta_x eta_y eta_z zeta : Z -> Z -> Z -> F).
  Variables (hx hy hz : Z -> F).
  Variables (nx ny nz : Z).
  Hypothesis Hnx : 0 <= nx.
  Hypothesis Hny : 0 <= ny.
  Hypothesis Hnz : 0 <= nz.

  (* vanishing tangential boundary values (PEC) *)
  Definition pec (fx fy fz : Z -> Z -> Z -> F) : Prop :=
    (forall i j k, (j = 0 \/ j = ny \/ k = 0 \/ k = nz) -> fx i j k = 0%F) /\
    (forall i j k, (i = 0 \/ i = nx \/ k = 0 \/ k = nz) -> fy i j k = 0%F) /\
    (forall i j k, (i = 0 \/ i = nx \/ j = 0 \/ j = ny) -> fz i j k = 0%F).

  (* inner products over all edges / the quadratic form over all faces *)
  Definition edge_dot (ax ay az bx by_ bz : Z -> Z -> Z -> F) : F :=
    (sum3 nx (ny + 1) (nz + 1) (fun i j k => (ax i j k * bx i j k)%F)
     + sum3 (nx + 1) ny (nz + 1) (fun i j k => (ay i j k * by_ i j k)%F)
     + sum3 (nx + 1) (ny + 1) nz (fun i j k => (az i j k * bz i j k)%F))%F.

  Definition Q (ex ey ez gx gy gz : Z -> Z -> Z -> F) : F :=
    (sum3 (nx + 1) ny nz (fun i j k =>
        (Mf_x zeta i j k * curl_x ey ez hy hz i j k * curl_x gy gz hy hz i j k)%F)
     + sum3 nx (ny + 1) nz (fun i j k =>
        (Mf_y zeta i j k * curl_y ex ez hx hz i j k * curl_y gx gz hx hz i j k)%F)
     + sum3 nx ny (nz + 1) (fun i j k =>
        (Mf_z zeta i j k * curl_z ex ey hx hy i j k * curl_z gx gy hx hy i j k)%F))%F.

  Lemma Q_sym ex ey ez gx gy gz : Q ex ey ez gx gy gz = Q gx gy gz ex ey ez.
  Proof.
    unfold Q. f_equal; [f_equal|]; apply sum3_ext; intros; ring.
  Qed.

  Section OneSide.
    Variables (ex ey ez gx gy gz : Z -> Z -> Z -> F).
    Hypothesis Hg : pec gx gy gz.

    (* M_f curl e, extended by zero outside the face ranges *)
    Definition zx i j k : F :=
      if ((0 <=? j) && (j <? ny) && (0 <=? k) && (k <? nz))%bool
      then u_x ey ez zeta hy hz i j k else 0%F.
    Definition zy i j k : F :=
      if ((0 <=? i) && (i <? nx) && (0 <=? k) && (k <? nz))%bool
      then u_y ex ez zeta hx hz i j k else 0%F.
    Definition zz i j k : F :=
      if ((0 <=? i) && (i <? nx) && (0 <=? j) && (j <? ny))%bool
      then u_z ex ey zeta hx hy i j k else 0%F.

    Ltac inr := repeat match goal with
      | |- context [?a <=? ?b] => destruct (Z.leb_spec a b); try lia
      | |- context [?a <? ?b] => destruct (Z.ltb_spec a b); try lia
      end; cbn [andb].

    (* the curl-curl part of A e, as the kernel computes it (masked) *)
    Definition CCx i j k : F :=
      if ((j =? 0) || (k =? 0))%bool then 0%F
      else curlT_x (u_y ex ez zeta hx hz) (u_z ex ey zeta hx hy) hy hz i j k.
    Definition CCy i j k : F :=
      if ((i =? 0) || (k =? 0))%bool then 0%F
      else curlT_y (u_x ey ez zeta hy hz) (u_z ex ey zeta hx hy) hx hz i j k.
    Definition CCz i j k : F :=
      if ((i =? 0) || (j =? 0))%bool then 0%F
      else curlT_z (u_x ey ez zeta hy hz) (u_y ex ez zeta hx hz) hx hy i j k.

    Lemma cc_form : edge_dot CCx CCy CCz gx gy gz = Q ex ey ez gx gy gz.
    Proof.
      destruct Hg as [Gx [Gy Gz]].
      unfold edge_dot.
      (* 1. on every edge the masked curl-curl times g equals curlT of the
            zero-extended face field times g *)
      rewrite (sum3_ext nx (ny + 1) (nz + 1) _
                 (fun i j k => (curlT_x zy zz hy hz i j k * gx i j k)%F)).
      2:{ intros i j k Hi Hj Hk.
          destruct (Z.eq_dec j 0) as [->|J0]; [rewrite Gx by lia; ring|].
          destruct (Z.eq_dec j ny) as [->|J1]; [rewrite Gx by lia; ring|].
          destruct (Z.eq_dec k 0) as [->|K0]; [rewrite Gx by lia; ring|].
          destruct (Z.eq_dec k nz) as [->|K1]; [rewrite Gx by lia; ring|].
          unfold CCx. zb_false (j =? 0). zb_false (k =? 0). cbn [orb].
          unfold curlT_x, zy, zz. inr. reflexivity. }
      rewrite (sum3_ext (nx + 1) ny (nz + 1) _
                 (fun i j k => (curlT_y zx zz hx hz i j k * gy i j k)%F)).
      2:{ intros i j k Hi Hj Hk.
          destruct (Z.eq_dec i 0) as [->|I0]; [rewrite Gy by lia; ring|].
          destruct (Z.eq_dec i nx) as [->|I1]; [rewrite Gy by lia; ring|].
          destruct (Z.eq_dec k 0) as [->|K0]; [rewrite Gy by lia; ring|].
          destruct (Z.eq_dec k nz) as [->|K1]; [rewrite Gy by lia; ring|].
          unfold CCy. zb_false (i =? 0). zb_false (k =? 0). cbn [orb].
          unfold curlT_y, zx, zz. inr. reflexivity. }
      rewrite (sum3_ext (nx + 1) (ny + 1) nz _
                 (fun i j k => (curlT_z zx zy hx hy i j k * gz i j k)%F)).
      2:{ intros i j k Hi Hj Hk.
          destruct (Z.eq_dec i 0) as [->|I0]; [rewrite Gz by lia; ring|].
          destruct (Z.eq_dec i nx) as [->|I1]; [rewrite Gz by lia; ring|].
          destruct (Z.eq_dec j 0) as [->|J0]; [rewrite Gz by lia; ring|].
          destruct (Z.eq_dec j ny) as [->|J1]; [rewrite Gz by lia; ring|].
          unfold CCz. zb_false (i =? 0). zb_false (j =? 0). cbn [orb].
          unfold curlT_z, zx, zy. inr. reflexivity. }
      (* 2. summation by parts *)
      rewrite <- (curl_adjoint Fth nx ny nz hx hy hz Hnx Hny Hnz zx zy zz gx gy gz).
      2-13: intros; unfold zx, zy, zz; inr; reflexivity.
      (* 3. inside the face ranges the extension is M_f curl e *)
      unfold Q. f_equal; [f_equal|]; apply sum3_ext; intros i j k Hi Hj Hk.
      - unfold zx, u_x. inr. ring.
      - unfold zy, u_y. inr. ring.
      - unfold zz, u_z. inr. ring.
    Qed.
  End OneSide.

  (* <A e, g> = <e, A g> *)
  Theorem amat_symmetric ex ey ez gx gy gz : pec ex ey ez -> pec gx gy gz ->
    edge_dot (A_x ex ey ez eta_x zeta hx hy hz) (A_y ex ey ez eta_y zeta hx hy hz)
             (A_z ex ey ez eta_z zeta hx hy hz) gx gy gz
    = edge_dot (A_x gx gy gz eta_x zeta hx hy hz) (A_y gx gy gz eta_y zeta hx hy hz)
               (A_z gx gy gz eta_z zeta hx hy hz) ex ey ez.
  Proof.
    intros He Hg.
    assert (S : forall ax ay az bx by_ bz,
              edge_dot (A_x ax ay az eta_x zeta hx hy hz) (A_y ax ay az eta_y zeta hx hy hz)
                       (A_z ax ay az eta_z zeta hx hy hz) bx by_ bz
              = (edge_dot (CCx ax ay az) (CCy ax ay az) (CCz ax ay az) bx by_ bz
                 - edge_dot (fun i j k => (Me_x eta_x i j k * ax i j k)%F)
                            (fun i j k => (Me_y eta_y i j k * ay i j k)%F)
                            (fun i j k => (Me_z eta_z i j k * az i j k)%F) bx by_ bz)%F).
    { intros. unfold edge_dot.
      rewrite (sum3_ext nx (ny + 1) (nz + 1) (fun i j k => (A_x _ _ _ _ _ _ _ _ i j k * bx i j k)%F)
                 (fun i j k => (CCx ax ay az i j k * bx i j k
                                - Me_x eta_x i j k * ax i j k * bx i j k)%F))
        by (intros; unfold A_x, CCx; ring).
      rewrite (sum3_ext (nx + 1) ny (nz + 1) (fun i j k => (A_y _ _ _ _ _ _ _ _ i j k * by_ i j k)%F)
                 (fun i j k => (CCy ax ay az i j k * by_ i j k
                                - Me_y eta_y i j k * ay i j k * by_ i j k)%F))
        by (intros; unfold A_y, CCy; ring).
      rewrite (sum3_ext (nx + 1) (ny + 1) nz (fun i j k => (A_z _ _ _ _ _ _ _ _ i j k * bz i j k)%F)
                 (fun i j k => (CCz ax ay az i j k * bz i j k
                                - Me_z eta_z i j k * az i j k * bz i j k)%F))
        by (intros; unfold A_z, CCz; ring).
      rewrite !(sum3_sub Fth). ring. }
    rewrite !S. rewrite (cc_form ex ey ez gx gy gz Hg), (cc_form gx gy gz ex ey ez He).
    rewrite Q_sym. f_equal.
    unfold edge_dot. f_equal; [f_equal|]; apply sum3_ext; intros; ring.
  Qed.
End AmatSym.
