(* Proofs/Prolong.v -- the 1-D restriction weights are the transpose of the
   1-D prolongation (linear interpolation) weights; partition of unity;
   children sums of the restricted model parameters. *)
From Coq Require Import ZArith Lia Bool Field.
From V Require Import Base.Loops Base.Arr Base.FieldSig Base.Tactics.
From V Require Import Gen.SolverHelpers Gen.CoreRestrict Model.Prolong Proofs.RestrictW.
Local Open Scope Z_scope.

Section Transpose1D.
  Context {F : Type} {O : FOps F}.
  Hypothesis Fth : field_theory F0 F1 Fadd Fmul Fsub Fopp Fdiv Finv (@eq F).
  Hypothesis two_nz : (1 + 1)%F <> 0%F.
  Add Field Fp : Fth.

  (* a tensor mesh direction and its coarse version (every second node) *)
  Variables (nodes cell_centers h cnodes ccell_centers ch : Z -> F).
  Variables (n lh lch ln : Z).
  Hypothesis hpair_nz : forall i, (h (2*i-2) + h (2*i-1))%F <> 0%F.
  Hypothesis cc_def : forall j, cell_centers j = (nodes j + h j / (1+1))%F.
  Hypothesis node_step : forall j, nodes (j+1) = (nodes j + h j)%F.
  Hypothesis cnode_def : forall I, cnodes I = nodes (2*I).
  Hypothesis ch_def : forall I, ch I = (h (2*I) + h (2*I+1))%F.
  Hypothesis ccc_def : forall I, ccell_centers I = (cnodes I + ch I / (1+1))%F.

  Notation RW := (restrict_weights n lh lch ln nodes cell_centers h cnodes ccell_centers ch).

  Lemma hpair_nz' I : (h (2*I) + h (2*I+1))%F <> 0%F.
  Proof.
    pose proof (hpair_nz (I+1)) as Hn.
    replace (2 * (I + 1) - 2) with (2 * I) in Hn by lia.
    replace (2 * (I + 1) - 1) with (2 * I + 1) in Hn by lia. exact Hn.
  Qed.

  (* R(I, j) = P(j, I): restriction weight of fine node j in coarse node I equals
     the interpolation weight of coarse node I at fine node j. *)
  Theorem transpose1d I j : 1 <= I < n - 1 ->
    R1 RW I j = P1 nodes j I.
  Proof.
    intros HI. unfold R1, P1, w0, wl, wr.
    destruct (j =? 2 * I); [apply rw_center|].
    destruct (j =? 2 * I - 1).
    - rewrite (rw_left_closed Fth two_nz) by first [assumption | lia].
      assert (A1 : nodes (2*I-1) = (nodes (2*I-2) + h (2*I-2))%F).
      { pose proof (node_step (2*I-2)) as Q. replace (2*I-2+1) with (2*I-1) in Q by lia. exact Q. }
      assert (A2 : nodes (2*I) = (nodes (2*I-2) + h (2*I-2) + h (2*I-1))%F).
      { pose proof (node_step (2*I-1)) as Q. replace (2*I-1+1) with (2*I) in Q by lia.
        rewrite Q, A1. reflexivity. }
      rewrite A2, A1. field. pose proof (hpair_nz I) as Hn.
      repeat split; first [exact Hn | intros E; apply Hn; rewrite <- E; ring].
    - destruct (j =? 2 * I + 1); [|reflexivity].
      rewrite (rw_right_closed Fth two_nz) by first [assumption | lia].
      assert (A1 : nodes (2*I+1) = (nodes (2*I) + h (2*I))%F) by apply node_step.
      assert (A2 : nodes (2*I+2) = (nodes (2*I) + h (2*I) + h (2*I+1))%F).
      { pose proof (node_step (2*I+1)) as Q. replace (2*I+1+1) with (2*I+2) in Q by lia.
        rewrite Q, A1. reflexivity. }
      rewrite A2, A1. field. pose proof (hpair_nz' I) as Hn.
      repeat split; first [exact Hn | intros E; apply Hn; rewrite <- E; ring].
  Qed.

  (* interpolation weights of an odd fine node sum to one *)
  Theorem prolong_partition_of_unity m :
    (P1 nodes (2*m+1) m + P1 nodes (2*m+1) (m+1)%Z)%F = 1%F.
  Proof.
    unfold P1.
    replace (2 * m + 1 =? 2 * m) with false by (symmetry; apply Z.eqb_neq; lia).
    replace (2 * m + 1 =? 2 * m - 1) with false by (symmetry; apply Z.eqb_neq; lia).
    rewrite Z.eqb_refl.
    replace (2 * m + 1 =? 2 * (m + 1)) with false by (symmetry; apply Z.eqb_neq; lia).
    replace (2 * m + 1 =? 2 * (m + 1) - 1) with true by (symmetry; apply Z.eqb_eq; lia).
    replace (2 * (m + 1) - 1) with (2 * m + 1) by lia.
    replace (2 * (m + 1) - 2) with (2 * m) by lia.
    replace (2 * (m + 1)) with (2 * m + 2) by lia.
    assert (A1 : nodes (2*m+1) = (nodes (2*m) + h (2*m))%F) by apply node_step.
    assert (A2 : nodes (2*m+2) = (nodes (2*m) + h (2*m) + h (2*m+1))%F).
    { pose proof (node_step (2*m+1)) as Q. replace (2*m+1+1) with (2*m+2) in Q by lia.
      rewrite Q, A1. reflexivity. }
    rewrite A2, A1. field. pose proof (hpair_nz' m) as Hn.
    repeat split; first [exact Hn | intros E; apply Hn; rewrite <- E; ring].
  Qed.

  (* an even fine node copies its coarse node *)
  Theorem prolong_even_copies (cf : Z -> F) m : prolong1 true nodes cf (2*m) = cf m.
  Proof.
    unfold prolong1. rewrite Z.even_mul. cbn [Z.even orb].
    f_equal. rewrite Z.mul_comm. apply Z.div_mul. lia.
  Qed.
End Transpose1D.

Section Children.
  Context {F : Type} {O : FOps F}.
  (* each coarse parameter is the sum of its fine-cell children: 8, 4, 2 (or 1)
     cells according to the pattern *)
  Theorem restrict_param_full (p : Z -> Z -> Z -> F) I J K :
    restrict_param 0 p I J K =
    (((p (2*I)%Z (2*J)%Z (2*K)%Z + p (2*I)%Z (2*J)%Z (2*K+1)%Z) + (p (2*I)%Z (2*J+1)%Z (2*K)%Z + p (2*I)%Z (2*J+1)%Z (2*K+1)%Z))
     + ((p (2*I+1)%Z (2*J)%Z (2*K)%Z + p (2*I+1)%Z (2*J)%Z (2*K+1)%Z)
        + (p (2*I+1)%Z (2*J+1)%Z (2*K)%Z + p (2*I+1)%Z (2*J+1)%Z (2*K+1)%Z)))%F.
  Proof. reflexivity. Qed.
  Theorem restrict_param_yz (p : Z -> Z -> Z -> F) I J K :
    restrict_param 1 p I J K =
    ((p I (2*J)%Z (2*K)%Z + p I (2*J)%Z (2*K+1)%Z) + (p I (2*J+1)%Z (2*K)%Z + p I (2*J+1)%Z (2*K+1)%Z))%F.
  Proof. reflexivity. Qed.
  Theorem restrict_param_x (p : Z -> Z -> Z -> F) I J K :
    restrict_param 4 p I J K = (p (2*I)%Z J K + p (2*I+1)%Z J K)%F.
  Proof. reflexivity. Qed.
End Children.
