(* Proofs/RestrictTensor.v -- the generated [restrict] (Gen/CoreRestrict.v) is,
   for each of the seven coarsening patterns and each field component, the
   tensor product of the 1-D restriction maps of Model/Prolong.v; it writes
   every coarse edge in its box exactly once and nothing else. *)
From Coq Require Import ZArith Lia Bool Ring.
From V Require Import Base.Loops Base.Loops3 Base.Arr Base.FieldSig Base.Tactics.
From V Require Import Gen.SolverHelpers Gen.CoreRestrict Model.Prolong.
Local Open Scope Z_scope.

Section RestrictTensor.
  Context {F : Type} {O : FOps F}.
  Hypothesis Rth : ring_theory F0 F1 Fadd Fmul Fsub Fopp (@eq F).
  Add Ring Fr : Rth.

  Variables (rx ry rz : Z -> Z -> Z -> F).
  Variables (wx wy wz : (Z -> F) * (Z -> F) * (Z -> F)).
  Variables (cnx cny cnz nx ny nz : Z).

  Definition get3 (s : (Z -> Z -> Z -> F) * (Z -> Z -> Z -> F) * (Z -> Z -> Z -> F))
             (i j k : Z) : F * F * F :=
    (fst (fst s) i j k, snd (fst s) i j k, snd s i j k).

  (* what one visit of coarse index (i,j,k) does to the three coarse arrays *)
  Definition rstep (scd : Z) (i j k : Z) (v : F * F * F) : F * F * F :=
    (if i <? cnx - 1 then Rx_spec scd nx ny nz wy wz rx i j k else fst (fst v),
     if j <? cny - 1 then Ry_spec scd nx ny nz wx wz ry i j k else snd (fst v),
     if k <? cnz - 1 then Rz_spec scd nx ny nz wx wy rz i j k else snd v).

  Ltac unfold_spec :=
    unfold rstep, Rx_spec, Ry_spec, Rz_spec, S1, E1, coars, restrict_factors, wl, w0, wr;
    cbv zeta; cbn [Z.eqb Pos.eqb orb fst snd].

  (* generic: a wrapped triple loop whose body is the pointwise step *)
  Lemma nest_spec scd body s :
    0 <= cnx -> 0 <= cny -> 0 <= cnz ->
    (forall i j k st, 0 <= i < cnx -> 0 <= j < cny -> 0 <= k < cnz ->
       forall i' j' k', get3 (body k j i st) i' j' k' =
         if ((i' =? i) && (j' =? j) && (k' =? k))%bool
         then rstep scd i j k (get3 st i j k) else get3 st i' j' k') ->
    forall i j k,
    get3 (loopw_k body cnx cny cnz s) i j k
    = if in_box cnx cny cnz i j k then rstep scd i j k (get3 s i j k) else get3 s i j k.
  Proof.
    intros Hx Hy Hz Hb i j k. rewrite loopw_k_eq.
    now rewrite (loop_k_spec get3 (rstep scd) body cnx cny cnz Hb) by assumption.
  Qed.

  Ltac body_tac :=
    let i := fresh "i" in let j := fresh "j" in let k := fresh "k" in
    let a := fresh "a" in let b := fresh "b" in let c := fresh "c" in
    let E := fresh "E" in let E1 := fresh "E1" in let E2 := fresh "E2" in let E3 := fresh "E3" in
    intros i j k [[a b] c] ? ? ? i' j' k';
    unfold restrict_L3, restrict_L6, restrict_L9, restrict_L12, restrict_L15,
           restrict_L18, restrict_L21;
    cbv zeta; cbn [fst snd]; unfold get3; cbn [fst snd]; unfold_spec;
    destruct ((i' =? i) && (j' =? j) && (k' =? k))%bool eqn:E;
    [ apply andb_true_iff in E; destruct E as [E E3];
      apply andb_true_iff in E; destruct E as [E1 E2];
      apply Z.eqb_eq in E1, E2, E3; subst i' j' k';
      f_equal; [f_equal|];
      (match goal with |- context [if ?t then _ else _] => destruct t end;
       [repeat rewrite upd3_same; ring | reflexivity])
    | f_equal; [f_equal|];
      (match goal with |- context [if ?t then _ else _] => destruct t end;
       [unfold upd3; rewrite E; reflexivity | reflexivity]) ].

  Ltac pattern_tac :=
    intros Hx Hy Hz;
    unfold restrict; cbv zeta; cbn [Z.eqb Pos.eqb fst snd];
    match goal with
    | |- forall i j k, get3 (fst (fst ?t), snd (fst ?t), snd ?t) i j k = _ =>
        change (fst (fst t), snd (fst t), snd t) with (w3 t)
    end;
    rewrite w3_id;
    unfold restrict_L1, restrict_L2, restrict_L4, restrict_L5, restrict_L7, restrict_L8,
           restrict_L10, restrict_L11, restrict_L13, restrict_L14, restrict_L16,
           restrict_L17, restrict_L19, restrict_L20;
    eapply nest_spec; try assumption; body_tac.

  (* all seven coarsening patterns *)
  Theorem restrict_eq scd crx cry crz : 0 <= scd <= 6 ->
    0 <= cnx -> 0 <= cny -> 0 <= cnz -> forall i j k,
    get3 (restrict cnx cny cnz nx ny nz crx cry crz rx ry rz wx wy wz scd) i j k
    = if in_box cnx cny cnz i j k then rstep scd i j k (get3 (crx, cry, crz) i j k)
      else get3 (crx, cry, crz) i j k.
  Proof.
    intros Hs.
    assert (C : scd = 0 \/ scd = 1 \/ scd = 2 \/ scd = 3 \/ scd = 4 \/ scd = 5 \/ scd = 6) by lia.
    destruct C as [E|[E|[E|[E|[E|[E|E]]]]]]; subst scd; pattern_tac.
  Qed.
End RestrictTensor.
