(* Proofs/I2GOpts.v -- C15: the option resolution in front of the volume
   averaging has no memory.  For every history of calls (arbitrary entry points,
   arbitrary user options, calls that raise included) the tables of defaults are
   what they were, so a later call without options is routed to the volume
   averaging with the log flag of its own mapping, and returns the
   volume-average map of its own model. *)
From Coq Require Import Reals ZArith Bool String List Sorted.
From V Require Import Base.FieldSig Model.VolAvg Model.I2GOpts Proofs.VolAvg Proofs.VolAvgInd.
Import ListNotations.
Local Open Scope R_scope.

Lemma step_state st c : fst (step st c) = st.
Proof. reflexivity. Qed.

Lemma run_state cs : forall st, fst (run st cs) = st.
Proof.
  induction cs as [|c t IH]; intro st; [reflexivity|].
  cbn [run]. unfold step. specialize (IH st).
  destruct (run st t) as [st2 rs]. cbn in *. exact IH.
Qed.

Lemma run_routes_length cs : forall st, length (snd (run st cs)) = length cs.
Proof.
  induction cs as [|c t IH]; intro st; [reflexivity|].
  cbn [run]. unfold step. specialize (IH st).
  destruct (run st t) as [st2 rs]. cbn in *. now rewrite IH.
Qed.

(* the routes of a later segment are those it has when run on its own *)
Lemma run_routes_app cs cs' : forall st,
  snd (run st (cs ++ cs')) = (snd (run st cs) ++ snd (run st cs'))%list.
Proof.
  induction cs as [|c t IH]; intro st.
  - reflexivity.
  - cbn [app run]. unfold step. specialize (IH st).
    destruct (run st (t ++ cs')) as [st2 rs]. destruct (run st t) as [st3 rs3].
    cbn in *. now rewrite IH.
Qed.

Lemma default_route st lg s t :
  d_model st = d_model defaults0 ->
  route_of (resolve st (default_call lg s t)) = RVolume lg.
Proof.
  intro H. unfold resolve, default_call; cbn [c_entry c_user c_src c_tgt].
  rewrite H. destruct lg; reflexivity.
Qed.

Lemma default_after_history cs lg s t :
  snd (step (fst (run defaults0 cs)) (default_call lg s t)) = RVolume lg.
Proof.
  rewrite run_state. unfold step; cbn [snd]. now apply default_route.
Qed.

Lemma call_history_independent cs cs' c :
  snd (step (fst (run defaults0 cs)) c) = snd (step (fst (run defaults0 cs')) c).
Proof. now rewrite !run_state. Qed.

Lemma default_result_after_history tp cs lg s t T vol v o :
  interp_result tp (snd (step (fst (run defaults0 cs)) (default_call lg s t))) T vol v o
  = Some (if lg then apply_va_log idx3_eqb T vol v o
          else apply_va idx3_eqb T vol (fun _ => 0) v o).
Proof. rewrite default_after_history. destruct lg; reflexivity. Qed.

(* user options win over the defaults, the two grids over the user options:
   an executable instance (the general statement needs unique keys only) *)
Lemma resolve_example :
  route_of (resolve defaults0
     {| c_entry := ModelI2G true; c_src := 0; c_tgt := 1;
        c_user := [("method", OStr "linear"); ("fill_value", ONum 3); ("xi", OGrid 7)]%string |})
  = ROther (OStr "linear") true true [("fill_value", ONum 3)]%string
  /\ dget "xi" (resolve defaults0
     {| c_entry := ModelI2G true; c_src := 0; c_tgt := 1;
        c_user := [("method", OStr "linear"); ("xi", OGrid 7)]%string |}) = Some (OGrid 1)
  /\ snd (run defaults0
       [ {| c_entry := ModelI2G true; c_src := 0; c_tgt := 1;
            c_user := [("method", OStr "linear")]%string |};
         {| c_entry := FieldI2G; c_src := 0; c_tgt := 1;
            c_user := [("method", OStr "volume")]%string |};
         {| c_entry := Direct; c_src := 0; c_tgt := 1; c_user := [("values", ONone)]%string |};
         default_call true 0 1; default_call false 0 1 ])
     = [ROther (OStr "linear") true true []; RVolume false; RTypeError; RVolume true; RVolume false]
  /\ entry_accepts FieldI2G (RVolume false) = false.
Proof. repeat split; reflexivity. Qed.

(* ---- the clauses of C15 for the default call after ANY history ------------ *)
Notation sorted := (StronglySorted Rlt).

(* log mode (Resistivity / Conductivity): the integral of log10 is conserved *)
Lemma default_conserves_log_after_history tp cs s t nx ny nz mx my mz (v : idx3 -> R) :
  sorted nx -> sorted ny -> sorted nz -> sorted mx -> sorted my -> sorted mz ->
  (2 <= length nx)%nat -> (2 <= length ny)%nat -> (2 <= length nz)%nat ->
  (2 <= length mx)%nat -> (2 <= length my)%nat -> (2 <= length mz)%nat ->
  nth 0 nx 0 = nth 0 mx 0 -> nth (length nx - 1) nx 0 = nth (length mx - 1) mx 0 ->
  nth 0 ny 0 = nth 0 my 0 -> nth (length ny - 1) ny 0 = nth (length my - 1) my 0 ->
  nth 0 nz 0 = nth 0 mz 0 -> nth (length nz - 1) nz 0 = nth (length mz - 1) mz 0 ->
  exists out : idx3 -> R,
    (forall o, interp_result tp (snd (step (fst (run defaults0 cs)) (default_call true s t)))
                 (trip3 (va_weights Rleb nx mx) (va_weights Rleb ny my) (va_weights Rleb nz mz))
                 (vol3 mx my mz) v o = Some (out o))
    /\ sumL (fun o => vol3 mx my mz o * log10R (out o)) (cells3 mx my mz)
       = sumL (fun i => vol3 nx ny nz i * log10R (v i)) (cells3 nx ny nz).
Proof.
  intros.
  exists (apply_va_log idx3_eqb
            (trip3 (va_weights Rleb nx mx) (va_weights Rleb ny my) (va_weights Rleb nz mz))
            (vol3 mx my mz) v).
  split.
  - intro o. now rewrite default_result_after_history.
  - now apply interp_va_log_conserves.
Qed.

(* linear mode (the Lg / Ln mappings): range and conservation *)
Lemma default_in_range_after_history tp cs s t nx ny nz mx my mz (v : idx3 -> R) a b c m M :
  sorted nx -> sorted ny -> sorted nz -> sorted mx -> sorted my -> sorted mz ->
  (1 <= length nx)%nat -> (1 <= length ny)%nat -> (1 <= length nz)%nat ->
  (a + 1 < length mx)%nat -> (b + 1 < length my)%nat -> (c + 1 < length mz)%nat ->
  (forall i, m <= v i <= M) ->
  exists r : R,
    interp_result tp (snd (step (fst (run defaults0 cs)) (default_call false s t)))
       (trip3 (va_weights Rleb nx mx) (va_weights Rleb ny my) (va_weights Rleb nz mz))
       (vol3 mx my mz) v (a, b, c) = Some r
    /\ m <= r <= M.
Proof.
  intros.
  exists (interp_va Rleb nx ny nz mx my mz (vol3 mx my mz) (fun _ => 0) v (a, b, c)).
  split.
  - now rewrite default_result_after_history.
  - now apply interp_va_convex.
Qed.

Lemma default_conserves_after_history tp cs s t nx ny nz mx my mz (v : idx3 -> R) :
  sorted nx -> sorted ny -> sorted nz -> sorted mx -> sorted my -> sorted mz ->
  (2 <= length nx)%nat -> (2 <= length ny)%nat -> (2 <= length nz)%nat ->
  (2 <= length mx)%nat -> (2 <= length my)%nat -> (2 <= length mz)%nat ->
  nth 0 nx 0 = nth 0 mx 0 -> nth (length nx - 1) nx 0 = nth (length mx - 1) mx 0 ->
  nth 0 ny 0 = nth 0 my 0 -> nth (length ny - 1) ny 0 = nth (length my - 1) my 0 ->
  nth 0 nz 0 = nth 0 mz 0 -> nth (length nz - 1) nz 0 = nth (length mz - 1) mz 0 ->
  exists out : idx3 -> R,
    (forall o, interp_result tp (snd (step (fst (run defaults0 cs)) (default_call false s t)))
                 (trip3 (va_weights Rleb nx mx) (va_weights Rleb ny my) (va_weights Rleb nz mz))
                 (vol3 mx my mz) v o = Some (out o))
    /\ sumL (fun o => vol3 mx my mz o * out o) (cells3 mx my mz)
       = sumL (fun i => vol3 nx ny nz i * v i) (cells3 nx ny nz).
Proof.
  intros.
  exists (interp_va Rleb nx ny nz mx my mz (vol3 mx my mz) (fun _ => 0) v).
  split.
  - intro o. now rewrite default_result_after_history.
  - now apply interp_va_conserves.
Qed.
