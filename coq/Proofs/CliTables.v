(* Proofs/CliTables.v -- facts about the option tables REGENERATED from the
   current sources (Gen/CliTable.v), decided by vm_compute, and the instances of
   the generic lemmas of Proofs/Cli.v for these tables.  When emg3d changes so
   that a fact no longer holds, the corresponding `vm_compute. reflexivity.`
   fails and the check reports the broken obligation. *)
From Coq Require Import String Ascii List ZArith Bool.
From V Require Import Model.CliTypes Gen.CliTable Model.Cli Proofs.Cli.
Import ListNotations.
Local Open Scope string_scope.
Local Open Scope list_scope.

(* ---- every key the parser can emit is accepted downstream *)
Lemma parsed_keys_accepted_b : forallb entry_accepted parser_table = true.
Proof. vm_compute. reflexivity. Qed.

Lemma parsed_keys_accepted_P : forall e, In e parser_table ->
  accepted (p_path e) (translate_key (p_path e) (p_key e)) = true /\
  nesting_ok (p_path e) = true.
Proof.
  intros e He.
  pose proof (proj1 (forallb_forall _ _) parsed_keys_accepted_b _ He) as H.
  unfold entry_accepted in H. apply andb_true_iff in H. exact H.
Qed.

(* ---- sections *)
Lemma sections_reject_t : sections_reject_b = true.
Proof. vm_compute. reflexivity. Qed.

Lemma sections_reject_P :
  (forall s k t, In (s, k, t) doc_table -> In s rejecting_sections) /\
  (forall s, In s ("files" :: section_order) -> In s rejecting_sections) /\
  (forall e, In e parser_table -> In (p_sec e) section_order).
Proof.
  pose proof sections_reject_t as H. unfold sections_reject_b in H.
  apply andb_true_iff in H. destruct H as [H H3].
  apply andb_true_iff in H. destruct H as [H1 H2].
  split; [|split].
  - intros s k t Hin. apply str_mem_In.
    exact (proj1 (forallb_forall _ _) H1 _ Hin).
  - intros s Hin. apply str_mem_In. exact (proj1 (forallb_forall _ _) H2 _ Hin).
  - intros e Hin. apply str_mem_In. exact (proj1 (forallb_forall _ _) H3 _ Hin).
Qed.

Lemma rej_mem s : In s ("files" :: section_order) -> str_mem s rejecting_sections = true.
Proof. intros H. apply str_mem_In. apply (proj1 (proj2 sections_reject_P)). exact H. Qed.

(* ---- terminal flags *)
Lemma doc_flags_b : forallb flag_ok doc_flags = true.
Proof. vm_compute. reflexivity. Qed.

Lemma doc_flags_P : forall s k f, In (s, k, f) doc_flags ->
  exists dest, In (f, dest) term_args /\ In dest term_consumed /\
               exists o, In o term_overrides /\ o_dest o = dest /\ o_sec o = s /\ o_key o = k.
Proof.
  intros s k f Hin.
  pose proof (proj1 (forallb_forall _ _) doc_flags_b _ Hin) as H.
  unfold flag_ok in H. apply existsb_exists in H. destruct H as [[f' dest] [Ha H]].
  cbn [fst snd] in H.
  apply andb_true_iff in H. destruct H as [H H3].
  apply andb_true_iff in H. destruct H as [H1 H2].
  apply String.eqb_eq in H1. subst f'.
  exists dest. split; [exact Ha|]. split; [apply str_mem_In; exact H2|].
  apply existsb_exists in H3. destruct H3 as [o [Ho H3]].
  apply andb_true_iff in H3. destruct H3 as [H3 H6].
  apply andb_true_iff in H3. destruct H3 as [H4 H5].
  exists o. split; [exact Ho|].
  split; [apply String.eqb_eq; exact H4|].
  split; apply String.eqb_eq; assumption.
Qed.

Lemma term_args_consumed_t : term_args_consumed_b = true.
Proof. vm_compute. reflexivity. Qed.

Lemma term_args_consumed_P :
  (forall f dest, In (f, dest) term_args ->
                  In dest term_consumed \/ In dest term_popped_in_main) /\
  (forall dest, In dest term_consumed -> exists f, In (f, dest) term_args).
Proof.
  pose proof term_args_consumed_t as H. unfold term_args_consumed_b in H.
  apply andb_true_iff in H. destruct H as [H1 H2]. split.
  - intros f dest Hin.
    pose proof (proj1 (forallb_forall _ _) H1 _ Hin) as H. cbn [fst snd] in H.
    apply orb_true_iff in H. destruct H as [H|H]; [left|right]; apply str_mem_In; exact H.
  - intros dest Hin.
    pose proof (proj1 (forallb_forall _ _) H2 _ Hin) as H.
    apply existsb_exists in H. destruct H as [[f d] [Ha H]]. cbn [fst snd] in H.
    apply String.eqb_eq in H. subst d. exists f. exact Ha.
Qed.

(* ---- routing of the parsed dictionaries, files keys *)
Lemma routes_t : routes_b = true.
Proof. vm_compute. reflexivity. Qed.

Lemma routes_P :
  In ("simulation_options", "Simulation") routes /\ In ("noise_kwargs", "compute") routes.
Proof.
  pose proof routes_t as H. unfold routes_b in H.
  apply andb_true_iff in H. destruct H as [H1 H2].
  apply existsb_exists in H1. destruct H1 as [[a b] [Hr1 H1]].
  apply existsb_exists in H2. destruct H2 as [[a2 b2] [Hr2 H2]].
  cbn [fst snd] in H1, H2.
  apply andb_true_iff in H1. destruct H1 as [E1 E2].
  apply andb_true_iff in H2. destruct H2 as [E3 E4].
  apply String.eqb_eq in E1, E2, E3, E4. subst. split; assumption.
Qed.

Lemma files_read_t : files_read_b = true.
Proof. vm_compute. reflexivity. Qed.

Lemma files_read_P : forall k, In k files_emitted -> accepted "files" k = true.
Proof. intros k Hk. exact (proj1 (forallb_forall _ _) files_read_t _ Hk). Qed.

(* ---- instances of the generic lemmas for the regenerated tables *)
Lemma unknown_key_rejected_i ap c t sec k v :
  In sec section_order -> In (k, v) (cfg_section c sec) ->
  known_key parser_table sec k = false -> forall o, parse ap c t <> Ok o.
Proof.
  intros Hs Hkv Hu. unfold parse.
  apply (unknown_key_rejected_g _ _ _ _ _ _ _ _ c t sec k v Hs); try assumption.
  apply rej_mem. right. exact Hs.
Qed.

Lemma unknown_file_key_rejected_i ap c t k v :
  In (k, v) (cfg_section c "files") -> k <> "path" -> ~ In k files_keys ->
  forall o, parse ap c t <> Ok o.
Proof.
  intros Hkv Hp Hk. unfold parse.
  apply (unknown_file_key_rejected_g _ _ _ _ _ _ _ _ c t k v); try assumption.
  apply rej_mem. left. reflexivity.
Qed.

Lemma typed_value_roundtrip_i ap c t o e s :
  parse ap c t = Ok o -> In e parser_table ->
  (forall dest, override_dest term_overrides e = Some dest -> term_value t dest = None) ->
  cfg_get c (p_sec e) (p_key e) = Some s ->
  exists ov, read_value (p_ty e) s = Ok ov /\
             forall v, ov = Some v -> In (p_path e, p_key e, v) (o_opts o).
Proof.
  intros H He Hov Hget. unfold parse in H.
  apply (typed_value_roundtrip_g _ _ _ _ _ _ _ _ c t o e s H He); try assumption.
  apply (proj2 (proj2 sections_reject_P)). exact He.
Qed.

Lemma terminal_overrides_file_i ap c t o e dest v :
  parse ap c t = Ok o -> In e parser_table ->
  override_dest term_overrides e = Some dest -> term_value t dest = Some v ->
  In (p_path e, p_key e, v) (o_opts o).
Proof.
  intros H He Hd Hv. unfold parse in H.
  apply (terminal_overrides_file_g _ _ _ _ _ _ _ _ c t o e dest v H He); try assumption.
  apply (proj2 (proj2 sections_reject_P)). exact He.
Qed.

Lemma terminal_file_overrides_i ap c t o key f :
  parse ap c t = Ok o ->
  In key files_keys -> key <> "cache" -> key <> "load" -> key <> "save" ->
  term_file t key = Some f -> f <> "" ->
  In (key, Some (fix_suffix (join (files_path ap c t) f))) (o_files o).
Proof.
  intros H Hk Hc Hl Hs Ht Hf. unfold parse in H.
  apply parse_ok_inv in H. destruct H as [_ [fs [Hfs [_ [Ho _]]]]]. rewrite Ho.
  apply (terminal_file_overrides_g _ _ _ _ c t fs key f Hfs); assumption.
Qed.

(* ---- the --clean branch uses a mode of Simulation.clean that discards every
   result of the old model *)
Lemma clean_mode_resets_results_b :
  forallb (fun n => str_mem n (resets_of clean_resets clean_mode)) old_results = true.
Proof. vm_compute. reflexivity. Qed.

Lemma clean_leaves_no_old_result_P : forall st n,
  In n old_results -> ~ In n (apply_clean clean_resets clean_mode st).
Proof. exact (clean_removes _ _ _ clean_mode_resets_results_b). Qed.
