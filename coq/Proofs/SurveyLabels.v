(* Proofs/SurveyLabels.v -- C13, second part: the complete specification of
   add_noise (cuts + noise + frame), selection BY LABEL for every array
   (observed, named data sets, setting arrays) including remove_empty,
   composition of selections, and the data / key invariants of the machine. *)
From Coq Require Import ZArith List Bool Arith Lia Permutation.
From V Require Import Base.FieldSig Model.SurveyMachine Proofs.SurveyMachine.
Import ListNotations.

Section Labels.
  Context {F : Type} {FO : FOps F}.
  Variable ltb : F -> F -> bool.
  Variable off2 : Z -> Z -> F.
  Local Notation cell := (@cell F).
  Local Notation cube := (@cube F).
  Local Notation survey := (@survey F).
  Local Notation world := (@world F).

  (* ------------------------------------------------------- heap helpers *)
  Lemma deref_upd_other (h : list cube) r r' x : r <> r' -> deref (upd_nth r x h) r' = deref h r'.
  Proof.
    intros H. unfold deref.
    pose proof (nth_error_upd_other r r' x h H) as E.
    destruct (nth_error h r') as [c|] eqn:Ec.
    - apply nth_error_nth with (d := nil) in E. apply nth_error_nth with (d := nil) in Ec.
      congruence.
    - apply nth_error_None in Ec. rewrite !nth_overflow; auto. now rewrite upd_nth_length.
  Qed.

  (* ------------------------------------------------ add_noise, complete *)
  (* the std^2 at an entry depends only on the settings and on the observed
     datum at that entry *)
  Lemma std2_at_local (w w2 : world) (sv sv1 : survey) i j k :
    hset w2 = hset w -> sfields sv1 = sfields sv ->
    src sv1 = src sv -> rec sv1 = rec sv -> frq sv1 = frq sv ->
    i < length (src sv) -> j < length (rec sv) -> k < length (frq sv) ->
    cget (deref (hdat w2) (obs sv1)) i j k = cget (deref (hdat w) (obs sv)) i j k ->
    std2_at w2 sv1 i j k = std2_at w sv i j k.
  Proof.
    intros Hh Hf E1 E2 E3 Hi Hj Hk Ho. unfold sfields in Hf. injection Hf as F1 F2 F3 F4 F5.
    unfold std2_at, std2, shape, nf_view, re_view, view.
    rewrite Hh, E1, E2, E3, F1, F2, F3, F4, F5.
    destruct (std_arr sv) as [r|].
    - now rewrite !cget_ctab.
    - destruct (nf_attr sv), (re_attr sv); try reflexivity; rewrite !cget_ctab by assumption;
        now rewrite Ho.
  Qed.

  Lemma std2_none_local (w w2 : world) (sv sv1 : survey) :
    hset w2 = hset w -> sfields sv1 = sfields sv ->
    (std2 w2 sv1 = None <-> std2 w sv = None).
  Proof.
    intros Hh Hf. rewrite !std2_none. unfold sfields in Hf. injection Hf as F1 F2 F3 F4 F5.
    unfold nf_view, re_view, view. rewrite Hh, F1, F2, F3, F4, F5. tauto.
  Qed.

  Lemma an_spec_cut sd t0 nz : @an_spec_cell F FO true sd t0 nz = NaN.
  Proof. reflexivity. Qed.

  (* core: given the resolved target *)
  Lemma add_noise_core (w : world) s (sv sv1 : survey) p noise hd1 tgt i j k :
    hset w = hset w ->
    sfields sv1 = sfields sv -> src sv1 = src sv -> rec sv1 = rec sv -> frq sv1 = frq sv ->
    obs sv1 = obs sv ->
    obs sv < length hd1 -> tgt < length hd1 ->
    deref hd1 (obs sv) = deref (hdat w) (obs sv) ->
    (tgt = obs sv \/ tgt <> obs sv) ->
    i < length (src sv) -> j < length (rec sv) -> k < length (frq sv) ->
    let thr := snd (amp_threshold false (hset w) sv1 (a_minamp p)) in
    let t0 := deref hd1 tgt in
    let t1 := ctab (length (src sv)) (length (rec sv)) (length (frq sv)) (fun i j k =>
                if cut_mask ltb off2 p thr (deref hd1 (obs sv)) sv1 i j k then NaN
                else cget t0 i j k) in
    let w2 := mkW (hset w) (upd_nth tgt t1 hd1) (upd_nth s sv1 (svs w)) in
    forall res,
      res = match std2 w2 sv1 with
            | None => w2
            | Some sd =>
              mkW (hset w) (upd_nth tgt (ctab (length (src sv)) (length (rec sv)) (length (frq sv))
                     (fun i j k => match cget sd i j k with
                                   | NaN => NaN
                                   | V _ _ => cadd (cget t1 i j k) (cget noise i j k)
                                   end)) (hdat w2)) (svs w2)
            end ->
      cget (deref (hdat res) tgt) i j k
      = an_spec_cell (cut_mask ltb off2 p thr (deref hd1 (obs sv)) sv1 i j k)
                     (std2_at w sv i j k) (cget t0 i j k) (cget noise i j k).
  Proof.
    intros _ Hf E1 E2 E3 Eo Ho Ht Hob Hcase Hi Hj Hk thr t0 t1 w2 res ->.
    assert (Ht1 : cget t1 i j k = if cut_mask ltb off2 p thr (deref hd1 (obs sv)) sv1 i j k
                                  then NaN else cget t0 i j k)
      by (unfold t1; now rewrite cget_ctab).
    destruct (cut_mask ltb off2 p thr (deref hd1 (obs sv)) sv1 i j k) eqn:Hc.
    - (* cut *)
      rewrite an_spec_cut.
      destruct (std2 w2 sv1) as [sd|]; cbn [hdat].
      + rewrite deref_upd_same by (unfold w2; cbn [hdat]; rewrite upd_nth_length; exact Ht).
        rewrite cget_ctab by assumption. rewrite Ht1. destruct (cget sd i j k); reflexivity.
      + unfold w2. cbn [hdat]. rewrite deref_upd_same by exact Ht. exact Ht1.
    - (* not cut: the observed datum seen by the std is the original one *)
      assert (Hobs2 : cget (deref (hdat w2) (obs sv1)) i j k = cget (deref (hdat w) (obs sv)) i j k).
      { unfold w2. cbn [hdat]. rewrite Eo. destruct Hcase as [->|Hne].
        - rewrite deref_upd_same by exact Ho. rewrite Ht1. unfold t0. now rewrite Hob.
        - rewrite deref_upd_other by exact Hne. now rewrite Hob. }
      pose proof (std2_at_local w w2 sv sv1 i j k eq_refl Hf E1 E2 E3 Hi Hj Hk Hobs2) as Hsd.
      unfold std2_at in Hsd. unfold an_spec_cell.
      destruct (std2 w2 sv1) as [sd|] eqn:Es.
      + cbn [hdat]. rewrite deref_upd_same by (unfold w2; cbn [hdat]; rewrite upd_nth_length; exact Ht).
        rewrite cget_ctab by assumption. rewrite Ht1.
        unfold std2_at. destruct (std2 w sv) as [sd0|]; [|discriminate].
        injection Hsd as Hsd. rewrite <- Hsd. destruct (cget sd i j k); reflexivity.
      + unfold std2_at. destruct (std2 w sv) as [sd0|]; [discriminate|].
        unfold w2. cbn [hdat]. rewrite deref_upd_same by exact Ht. exact Ht1.
  Qed.
  Lemma amp_threshold_fields inplace hs (sv sv1 : survey) m :
    sfields sv1 = sfields sv ->
    snd (amp_threshold inplace hs sv1 m) = snd (amp_threshold inplace hs sv m).
  Proof.
    intros Hf. unfold sfields in Hf. injection Hf as F1 F2 F3 F4 F5.
    unfold amp_threshold. now rewrite F1, F3.
  Qed.

  Lemma cut_mask_keys p thr ob (sv sv1 : survey) i j k :
    src sv1 = src sv -> rec sv1 = rec sv ->
    cut_mask ltb off2 p thr ob sv1 i j k = cut_mask ltb off2 p thr ob sv i j k.
  Proof. intros E1 E2. unfold cut_mask. now rewrite E1, E2. Qed.

  Lemma lookup_In n (l : list (Z * nat)) r : lookup n l = Some r -> In (n, r) l.
  Proof.
    unfold lookup. destruct (find (fun p => Z.eqb (fst p) n) l) as [[n' r']|] eqn:E; [|discriminate].
    intros H. injection H as <-. apply find_some in E. destruct E as (Hin & Hn).
    cbn in Hn. apply Z.eqb_eq in Hn. now subst.
  Qed.

  (* THE COMPLETE SPECIFICATION OF add_noise (repaired code), every target:
     after the call, entry (i,j,k) of the array the noise is added to is
       NaN                      if the amplitude or the offset cut selects it,
       what it was              if no standard deviation is defined,
       NaN                      if its standard deviation is NaN,
       what it was + noise      otherwise;
     cuts are decided on data.observed, std from the untouched settings. *)
  Theorem add_noise_spec s p noise (w : world) sv i j k :
    nth_error (svs w) s = Some sv -> drefs_ok (length (hdat w)) sv ->
    i < length (src sv) -> j < length (rec sv) -> k < length (frq sv) ->
    cget (deref (hdat (fst (add_noise ltb off2 false s p noise w))) (an_tgt w sv p)) i j k
    = an_spec_cell
        (cut_mask ltb off2 p (snd (amp_threshold false (hset w) sv (a_minamp p)))
                  (deref (hdat w) (obs sv)) sv i j k)
        (std2_at w sv i j k) (an_t0 w sv p i j k) (cget noise i j k).
  Proof.
    intros Hs (Ho & Hn) Hi Hj Hk. unfold add_noise. rewrite Hs. unfold shape.
    unfold an_tgt, an_t0.
    destruct (a_to p) as [|n] eqn:Eto.
    - (* observed *)
      destruct (amp_threshold false (hset w) sv (a_minamp p)) as [hs1 thr] eqn:Ea.
      assert (hs1 = hset w) by (pose proof (amp_threshold_false (hset w) sv (a_minamp p)) as H;
                                now rewrite Ea in H). subst hs1. cbn [snd].
      pose proof (add_noise_core w s sv sv p noise (hdat w) (obs sv) i j k eq_refl eq_refl
                    eq_refl eq_refl eq_refl eq_refl Ho Ho eq_refl (or_introl eq_refl) Hi Hj Hk) as H.
      cbv zeta in H. rewrite Ea in H. cbn [snd] in H. apply H.
      match goal with |- context [std2 ?w2 sv] => destruct (std2 w2 sv) end; reflexivity.
    - destruct (lookup n (named sv)) as [r|] eqn:El.
      + (* existing named data set *)
        assert (Hr : r < length (hdat w)).
        { apply lookup_In in El. rewrite Forall_forall in Hn. apply (Hn _ El). }
        destruct (amp_threshold false (hset w) sv (a_minamp p)) as [hs1 thr] eqn:Ea.
        assert (hs1 = hset w) by (pose proof (amp_threshold_false (hset w) sv (a_minamp p)) as H;
                                  now rewrite Ea in H). subst hs1. cbn [snd].
        pose proof (add_noise_core w s sv sv p noise (hdat w) r i j k eq_refl eq_refl
                      eq_refl eq_refl eq_refl eq_refl Ho Hr eq_refl) as H.
        specialize (H (match Nat.eq_dec r (obs sv) with left e => or_introl e | right e => or_intror e end)
                      Hi Hj Hk).
        cbv zeta in H. rewrite Ea in H. cbn [snd] in H. apply H.
        match goal with |- context [std2 ?w2 sv] => destruct (std2 w2 sv) end; reflexivity.
      + (* new data set of zeros *)
        set (sv1 := with_named sv (named sv ++ [(n, length (hdat w))])).
        set (hd1 := hdat w ++ [ctab (length (src sv)) (length (rec sv)) (length (frq sv))
                                    (fun _ _ _ => zero)]).
        assert (Hf : sfields sv1 = sfields sv) by reflexivity.
        destruct (amp_threshold false (hset w) sv1 (a_minamp p)) as [hs1 thr] eqn:Ea.
        assert (hs1 = hset w) by (pose proof (amp_threshold_false (hset w) sv1 (a_minamp p)) as H;
                                  now rewrite Ea in H). subst hs1.
        assert (Hthr : thr = snd (amp_threshold false (hset w) sv (a_minamp p)))
          by (rewrite <- (amp_threshold_fields false (hset w) sv sv1 (a_minamp p) Hf);
              now rewrite Ea).
        assert (Hl1 : obs sv < length hd1) by (unfold hd1; rewrite app_length; cbn; lia).
        assert (Hl2 : length (hdat w) < length hd1) by (unfold hd1; rewrite app_length; cbn; lia).
        assert (Hob : deref hd1 (obs sv) = deref (hdat w) (obs sv))
          by (unfold hd1; now apply deref_app).
        assert (Hne : length (hdat w) = obs sv \/ length (hdat w) <> obs sv) by (right; lia).
        pose proof (add_noise_core w s sv sv1 p noise hd1 (length (hdat w)) i j k eq_refl Hf
                      eq_refl eq_refl eq_refl eq_refl Hl1 Hl2 Hob Hne Hi Hj Hk) as H.
        cbv zeta in H. rewrite Ea in H. cbn [snd] in H.
        assert (Ht0 : cget (deref hd1 (length (hdat w))) i j k = zero).
        { unfold hd1, deref. rewrite app_nth2 by lia. rewrite Nat.sub_diag. cbn [nth].
          now rewrite cget_ctab. }
        match type of H with forall res, _ -> _ = ?R => transitivity R end.
        * apply H. change (obs sv1) with (obs sv).
          match goal with |- context [std2 ?w2 sv1] => destruct (std2 w2 sv1) end; reflexivity.
        * rewrite Ht0, Hob, (cut_mask_keys p thr _ sv sv1) by reflexivity. now rewrite Hthr.
  Qed.

  (* ... and it writes to nothing else: every other data array is untouched,
     and (settings_frame) so is every setting array *)
  Theorem add_noise_data_frame s p noise (w : world) sv r :
    nth_error (svs w) s = Some sv ->
    r < length (hdat w) -> r <> an_tgt w sv p ->
    deref (hdat (fst (add_noise ltb off2 false s p noise w))) r = deref (hdat w) r.
  Proof.
    intros Hs Hr Hne. unfold add_noise. rewrite Hs. unfold shape. unfold an_tgt in Hne.
    destruct (a_to p) as [|n].
    - destruct (amp_threshold false (hset w) sv (a_minamp p)) as [hs1 thr].
      match goal with |- context [std2 ?w2 sv] => destruct (std2 w2 sv) end; cbn [fst hdat];
        rewrite !deref_upd_other by congruence; reflexivity.
    - destruct (lookup n (named sv)) as [r0|].
      + destruct (amp_threshold false (hset w) sv (a_minamp p)) as [hs1 thr].
        match goal with |- context [std2 ?w2 sv] => destruct (std2 w2 sv) end; cbn [fst hdat];
          rewrite !deref_upd_other by congruence; reflexivity.
      + match goal with |- context [amp_threshold false (hset w) ?sv1 (a_minamp p)] =>
          destruct (amp_threshold false (hset w) sv1 (a_minamp p)) as [hs1 thr] end.
        match goal with |- context [std2 ?w2 ?sv1] => destruct (std2 w2 sv1) end; cbn [fst hdat];
          rewrite !deref_upd_other by congruence; now apply deref_app.
  Qed.
  (* ===================================================== selection BY LABEL *)
  Lemma pos_of_In keys a : In a keys -> exists i, pos_of keys a = Some i.
  Proof.
    induction keys as [|h t IH]; cbn; [tauto|]. intros [->|H].
    - rewrite Z.eqb_refl. eauto.
    - destruct (Z.eqb h a); [eauto|]. destruct (IH H) as (i & ->). eauto.
  Qed.

  Lemma pos_of_Some_In keys a i : pos_of keys a = Some i -> In a keys.
  Proof.
    intros H. destruct (pos_of_nth _ _ _ H) as (E & L). rewrite <- E. now apply nth_In.
  Qed.

  Lemma pos_of_nth_nodup keys i :
    NoDup keys -> i < length keys -> pos_of keys (nth i keys 0%Z) = Some i.
  Proof.
    intros Hn. revert i. induction Hn as [|h t Hh Ht IH]; intros i Hi; cbn in *; [lia|].
    destruct i as [|i].
    - now rewrite Z.eqb_refl.
    - destruct (Z.eqb_spec h (nth i t 0%Z)) as [E|_].
      + exfalso. apply Hh. rewrite E. apply nth_In. lia.
      + rewrite IH by lia. reflexivity.
  Qed.

  Lemma nodupb_NoDup l : nodupb l = true <-> NoDup l.
  Proof.
    induction l as [|h t IH]; cbn; [split; [constructor|reflexivity]|].
    rewrite andb_true_iff, negb_true_iff, IH. split.
    - intros (E & Hn). constructor; [|exact Hn]. intros Hin.
      assert (existsb (Z.eqb h) t = true) by (apply existsb_exists; exists h; split;
        [exact Hin|apply Z.eqb_refl]). congruence.
    - intros Hn. inversion Hn as [|? ? Hh Ht]; subst. split; [|exact Ht].
      destruct (existsb (Z.eqb h) t) eqn:E; [|reflexivity]. exfalso. apply Hh.
      apply existsb_exists in E. destruct E as (x & Hx & Ex). apply Z.eqb_eq in Ex. now subst.
  Qed.

  Lemma map_opt_total {A B} (f : A -> option B) l :
    (forall x, In x l -> exists y, f x = Some y) -> exists r, map_opt f l = Some r.
  Proof.
    induction l as [|h t IH]; intros H; cbn; [eauto|].
    destruct (H h (or_introl eq_refl)) as (y & ->).
    destruct IH as (r & ->); [intros x Hx; apply H; now right|]. eauto.
  Qed.

  Lemma map_opt_In {A B} (f : A -> option B) l r x :
    map_opt f l = Some r -> In x l -> exists y, f x = Some y.
  Proof.
    revert r. induction l as [|h t IH]; intros r; cbn; [tauto|].
    destruct (f h) as [y|] eqn:Eh; [|discriminate].
    destruct (map_opt f t) as [r'|]; [|discriminate]. intros _ [<-|Hx]; [eauto|].
    eapply IH; eauto.
  Qed.

  (* which selections are accepted on an axis: ANY order, no duplicates, known keys *)
  Lemma sel_axis_accepts keys s :
    sel_axis keys s <> None <->
    match s with None => True | Some l => NoDup l /\ incl l keys end.
  Proof.
    unfold sel_axis. destruct s as [l|]; [|split; [trivial|discriminate]].
    destruct (nodupb l) eqn:En.
    - apply nodupb_NoDup in En. split.
      + destruct (map_opt (pos_of keys) l) as [ps|] eqn:Em; [|congruence]. intros _.
        split; [exact En|]. intros x Hx. destruct (map_opt_In _ _ _ _ Em Hx) as (y & Hy).
        eapply pos_of_Some_In; eauto.
      + intros (_ & Hi). destruct (map_opt_total (pos_of keys) l) as (r & ->); [|discriminate].
        intros x Hx. apply pos_of_In. now apply Hi.
    - split; [congruence|]. intros (Hn & _). apply nodupb_NoDup in Hn. congruence.
  Qed.

  (* keys of the selection, and for every new position the ORIGINAL position of
     the same label *)
  Lemma sel_axis_label keys s ks Is :
    NoDup keys -> sel_axis keys s = Some (ks, Is) ->
    ks = chosen keys s /\ length Is = length ks /\ NoDup ks /\ incl ks keys /\
    forall i, i < length ks -> pos_of keys (nth i ks 0%Z) = Some (nth i Is 0).
  Proof.
    intros Hn. unfold sel_axis, chosen. destruct s as [l|].
    - destruct (nodupb l) eqn:En; [|discriminate].
      destruct (map_opt (pos_of keys) l) as [ps|] eqn:Em; [|discriminate].
      intros E. injection E as <- <-. destruct (map_opt_spec _ _ _ Em) as (L & Hp).
      split; [reflexivity|]. split; [exact L|]. split; [now apply nodupb_NoDup|]. split.
      + intros x Hx. destruct (map_opt_In _ _ _ _ Em Hx) as (y & Hy). eapply pos_of_Some_In; eauto.
      + intros i Hi. now apply Hp.
    - intros E. injection E as <- <-. rewrite seq_length.
      split; [reflexivity|]. split; [reflexivity|]. split; [exact Hn|]. split; [apply incl_refl|].
      intros i Hi. rewrite seq_nth by exact Hi. now apply pos_of_nth_nodup.
  Qed.

  (* the key lemma: label access commutes with positional sub-cube extraction *)
  Lemma lget_sel3 (c : cube) keys1 keys2 keys3 s1 s2 s3 ks kr kf Is Js Ks a b d :
    NoDup keys1 -> NoDup keys2 -> NoDup keys3 ->
    sel_axis keys1 s1 = Some (ks, Is) -> sel_axis keys2 s2 = Some (kr, Js) ->
    sel_axis keys3 s3 = Some (kf, Ks) ->
    In a ks -> In b kr -> In d kf ->
    lget (sel3 c Is Js Ks) ks kr kf a b d = lget c keys1 keys2 keys3 a b d.
  Proof.
    intros N1 N2 N3 S1 S2 S3 Ha Hb Hd.
    destruct (sel_axis_label _ _ _ _ N1 S1) as (_ & L1 & _ & _ & P1).
    destruct (sel_axis_label _ _ _ _ N2 S2) as (_ & L2 & _ & _ & P2).
    destruct (sel_axis_label _ _ _ _ N3 S3) as (_ & L3 & _ & _ & P3).
    unfold lget.
    destruct (pos_of_In _ _ Ha) as (i & Ei). destruct (pos_of_In _ _ Hb) as (j & Ej).
    destruct (pos_of_In _ _ Hd) as (k & Ek). rewrite Ei, Ej, Ek.
    destruct (pos_of_nth _ _ _ Ei) as (Ni & Li). destruct (pos_of_nth _ _ _ Ej) as (Nj & Lj).
    destruct (pos_of_nth _ _ _ Ek) as (Nk & Lk).
    specialize (P1 i Li). specialize (P2 j Lj). specialize (P3 k Lk).
    rewrite Ni in P1. rewrite Nj in P2. rewrite Nk in P3. rewrite P1, P2, P3.
    f_equal. apply cget_sel3; lia.
  Qed.

  (* --- copies of the named data sets *)
  Lemma Forall2_impl_r {A B} (P : B -> Prop) (R R' : A -> B -> Prop) l2 l :
    Forall P l -> Forall2 R l2 l -> (forall a b, P b -> R a b -> R' a b) -> Forall2 R' l2 l.
  Proof.
    intros HP HR Himp. induction HR as [|a b l2 l Hab _ IH]; [constructor|].
    inversion HP; subst. constructor; auto.
  Qed.

  Lemma copy_named_spec f (l : list (Z * nat)) : forall (h : list cube),
    Forall (fun p => snd p < length h) l ->
    exists e, fst (copy_named f h l) = h ++ e /\
      Forall2 (fun p1 p => fst p1 = fst p /\ snd p1 < length (fst (copy_named f h l)) /\
                           deref (fst (copy_named f h l)) (snd p1) = f (deref h (snd p)))
              (snd (copy_named f h l)) l.
  Proof.
    induction l as [|[n r] t IH]; intros h Hl; cbn [copy_named].
    - exists nil. cbn. rewrite app_nil_r. split; [reflexivity|constructor].
    - inversion Hl as [|? ? Hr Ht]; subst. cbn [snd] in Hr.
      assert (Ht' : Forall (fun p => snd p < length (h ++ [f (deref h r)])) t).
      { eapply Forall_impl; [|exact Ht]. intros p Hp. cbn beta in *. rewrite app_length.
        cbn [length]. lia. }
      destruct (IH (h ++ [f (deref h r)]) Ht') as (e & E & F2).
      destruct (copy_named f (h ++ [f (deref h r)]) t) as [h2 t2]. cbn [fst snd] in *.
      exists ([f (deref h r)] ++ e). split; [now rewrite app_assoc|].
      constructor.
      + cbn [fst snd]. split; [reflexivity|]. subst h2. split.
        * rewrite !app_length. cbn. lia.
        * unfold deref at 1. now rewrite nth_app_new.
      + eapply Forall2_impl_r; [exact Ht|exact F2|]. intros p1 p Hp (A & B & C). cbn beta in Hp.
        split; [exact A|]. split; [exact B|]. rewrite C. now rewrite deref_app.
  Qed.

  Lemma lookup_Forall n (l : list (Z * nat)) r (P : Z * nat -> Prop) :
    Forall P l -> lookup n l = Some r -> P (n, r).
  Proof. intros H E. rewrite Forall_forall in H. apply H. now apply lookup_In. Qed.

  (* everything a copy made with [f] contains *)
  Lemma copy_survey_full f ks kr kf (w : world) (sv : survey) :
    refs_ok (length (hset w)) sv -> drefs_ok (length (hdat w)) sv ->
    let w1 := fst (copy_survey f ks kr kf w sv) in
    let sv1 := snd (copy_survey f ks kr kf w sv) in
    src sv1 = ks /\ rec sv1 = kr /\ frq sv1 = kf /\
    nf_attr sv1 = nf_attr sv /\ re_attr sv1 = re_attr sv /\
    deref (hdat w1) (obs sv1) = f (deref (hdat w) (obs sv)) /\
    Forall2 (fun p1 p => fst p1 = fst p /\ deref (hdat w1) (snd p1) = f (deref (hdat w) (snd p)))
            (named sv1) (named sv) /\
    (match nf_arr sv1, nf_arr sv with
     | Some r1, Some r => deref (hset w1) r1 = f (deref (hset w) r) | None, None => True
     | _, _ => False end) /\
    (match re_arr sv1, re_arr sv with
     | Some r1, Some r => deref (hset w1) r1 = f (deref (hset w) r) | None, None => True
     | _, _ => False end) /\
    (match std_arr sv1, std_arr sv with
     | Some r1, Some r => deref (hset w1) r1 = f (deref (hset w) r) | None, None => True
     | _, _ => False end) /\
    drefs_ok (length (hdat w1)) sv1 /\ refs_ok (length (hset w1)) sv1 /\
    (exists e, hdat w1 = hdat w ++ e) /\ (exists e, hset w1 = hset w ++ e) /\ svs w1 = svs w.
  Proof.
    intros Hr (Ho & Hn).
    pose proof (copy_survey_ext f ks kr kf w sv) as (es & Es1 & Es2 & Es3).
    pose proof (copy_survey_settings f ks kr kf w sv Hr) as Hs. cbv zeta in Hs.
    destruct Hs as (A1 & A2 & A3 & A4 & A5 & A6 & A7 & A8 & A9 & A10).
    assert (Hn' : Forall (fun p => snd p < length (hdat w ++ [f (deref (hdat w) (obs sv))])) (named sv)).
    { eapply Forall_impl; [|exact Hn]. intros p Hp. cbn beta in *. rewrite app_length.
      cbn [length]. lia. }
    pose proof (copy_named_spec f (named sv) _ Hn') as (e & E & F2).
    revert A3 A4 A5 A6 A7 Es1 Es2 Es3 E F2. unfold copy_survey. cbn [copy_arr].
    destruct (copy_named f (hdat w ++ [f (deref (hdat w) (obs sv))]) (named sv)) as [hd2 nm].
    destruct (copy_opt f (hset w) (nf_arr sv)) as [hs1 a1] eqn:C1.
    destruct (copy_opt f hs1 (re_arr sv)) as [hs2 a2] eqn:C2.
    destruct (copy_opt f hs2 (std_arr sv)) as [hs3 a3] eqn:C3.
    cbn [fst snd hset hdat svs src rec frq nf_attr re_attr nf_arr re_arr std_arr obs named].
    intros A3 A4 A5 A6 A7 Es1 Es2 Es3 E F2. subst hd2.
    assert (K1 : a1 = None <-> nf_arr sv = None)
      by (destruct (nf_arr sv); cbn in C1; injection C1 as _ <-; split; congruence).
    assert (K2 : a2 = None <-> re_arr sv = None)
      by (destruct (re_arr sv); cbn in C2; injection C2 as _ <-; split; congruence).
    assert (M : forall (a : option nat) (r0 : option nat),
               (a = None <-> r0 = None) ->
               deref_o hs3 a = match r0 with Some _ => f (deref_o (hset w) r0) | None => nil end ->
               match a, r0 with
               | Some r1, Some r => deref hs3 r1 = f (deref (hset w) r)
               | None, None => True
               | _, _ => False
               end).
    { intros a r0 K D. destruct a as [r1|], r0 as [r|]; cbn in *; auto.
      - destruct K as [_ K]. now specialize (K eq_refl).
      - destruct K as [K _]. now specialize (K eq_refl). }
    split; [reflexivity|]. split; [reflexivity|]. split; [reflexivity|].
    split; [reflexivity|]. split; [reflexivity|]. split; [exact A7|].
    split.
    { eapply Forall2_impl_r; [exact Hn|exact F2|]. intros p1 p Hp (B1 & B2 & B3). cbn beta in Hp.
      split; [exact B1|]. rewrite B3. f_equal. now apply deref_app. }
    split; [apply M; assumption|]. split; [apply M; assumption|]. split; [apply M; assumption|].
    split.
    { split; cbn [obs named].
      - rewrite !app_length. cbn [length]. lia.
      - clear - F2. induction F2 as [|p1 p l2 l (B1 & B2 & B3) _ IH]; constructor; auto. }
    split; [rewrite Es1; exact Es3|].
    split; [exists ([f (deref (hdat w) (obs sv))] ++ e); now rewrite app_assoc|].
    split; [exists es; exact Es1|reflexivity].
  Qed.
  (* --- the relation "restriction by label" *)
  Lemma Forall2_imp {A B} (R R' : A -> B -> Prop) l2 l :
    Forall2 R l2 l -> (forall a b, R a b -> R' a b) -> Forall2 R' l2 l.
  Proof. intros H Hi. induction H; constructor; auto. Qed.

  Lemma Forall2_diag {A} (R : A -> A -> Prop) l : (forall a, R a a) -> Forall2 R l l.
  Proof. intros H. induction l; constructor; auto. Qed.

  Lemma Forall2_comp {A B C} (R1 : A -> B -> Prop) (R2 : B -> C -> Prop) (R3 : A -> C -> Prop)
        l2 l1 l :
    Forall2 R1 l2 l1 -> Forall2 R2 l1 l -> (forall a b c, R1 a b -> R2 b c -> R3 a c) ->
    Forall2 R3 l2 l.
  Proof.
    intros H1. revert l. induction H1 as [|a b l2 l1 Hab _ IH]; intros l H2 Hc;
      inversion H2; subst; constructor; eauto.
  Qed.

  Lemma sub_by_label_refl (w : world) (sv : survey) : sub_by_label w sv w sv.
  Proof.
    unfold sub_by_label, same_by_label_o, same_by_label.
    repeat split; try apply incl_refl; auto.
    - apply Forall2_diag. intros a. split; auto.
    - destruct (nf_arr sv); auto.
    - destruct (re_arr sv); auto.
    - destruct (std_arr sv); auto.
  Qed.

  Lemma same_by_label_trans h2 (sv2 : survey) r2 h1 (sv1 : survey) r1 h (sv : survey) r :
    incl (src sv2) (src sv1) -> incl (rec sv2) (rec sv1) -> incl (frq sv2) (frq sv1) ->
    same_by_label h2 sv2 r2 h1 sv1 r1 -> same_by_label h1 sv1 r1 h sv r ->
    same_by_label h2 sv2 r2 h sv r.
  Proof.
    intros I1 I2 I3 H1 H2 a b d Ha Hb Hd. rewrite H1 by assumption. apply H2; auto.
  Qed.

  Lemma same_by_label_o_trans h2 (sv2 : survey) r2 h1 (sv1 : survey) r1 h (sv : survey) r :
    incl (src sv2) (src sv1) -> incl (rec sv2) (rec sv1) -> incl (frq sv2) (frq sv1) ->
    same_by_label_o h2 sv2 r2 h1 sv1 r1 -> same_by_label_o h1 sv1 r1 h sv r ->
    same_by_label_o h2 sv2 r2 h sv r.
  Proof.
    intros I1 I2 I3. destruct r2, r1, r; cbn; try tauto. now apply same_by_label_trans.
  Qed.

  Theorem sub_by_label_trans (w2 : world) sv2 (w1 : world) sv1 (w : world) sv :
    sub_by_label w2 sv2 w1 sv1 -> sub_by_label w1 sv1 w sv -> sub_by_label w2 sv2 w sv.
  Proof.
    intros (I1 & I2 & I3 & O & N & A1 & A2 & S1 & S2 & S3)
           (J1 & J2 & J3 & O' & N' & B1 & B2 & T1 & T2 & T3).
    unfold sub_by_label.
    split; [eapply incl_tran; eauto|]. split; [eapply incl_tran; eauto|].
    split; [eapply incl_tran; eauto|].
    split; [eapply same_by_label_trans; eauto|].
    split.
    { eapply Forall2_comp; [exact N|exact N'|]. intros p2 p1 p (E1 & H1) (E2 & H2).
      split; [congruence|]. eapply same_by_label_trans; eauto. }
    split; [congruence|]. split; [congruence|].
    split; [eapply same_by_label_o_trans; eauto|].
    split; eapply same_by_label_o_trans; eauto.
  Qed.

  Lemma same_by_label_copy (h1 h : list cube) (sv sv1 : survey) r1 r sS sR sF Is Js Ks :
    keys_ok sv ->
    sel_axis (src sv) sS = Some (src sv1, Is) -> sel_axis (rec sv) sR = Some (rec sv1, Js) ->
    sel_axis (frq sv) sF = Some (frq sv1, Ks) ->
    deref h1 r1 = sel3 (deref h r) Is Js Ks ->
    same_by_label h1 sv1 r1 h sv r.
  Proof.
    intros (N1 & N2 & N3) S1 S2 S3 D a b d Ha Hb Hd. unfold sv_lget. rewrite D.
    eapply lget_sel3; eauto.
  Qed.

  (* ONE PASS OF select: the result is the restriction by label to the chosen
     keys, in the chosen order, for EVERY array; all invariants carry over *)
  Theorem select_once_sub (w : world) (sv : survey) a b c w1 sv1 :
    keys_ok sv -> refs_ok (length (hset w)) sv -> drefs_ok (length (hdat w)) sv ->
    select_once w sv a b c = Some (w1, sv1) ->
    sub_by_label w1 sv1 w sv /\
    src sv1 = chosen (src sv) a /\ rec sv1 = chosen (rec sv) b /\ frq sv1 = chosen (frq sv) c /\
    keys_ok sv1 /\ refs_ok (length (hset w1)) sv1 /\ drefs_ok (length (hdat w1)) sv1 /\
    (exists e, hdat w1 = hdat w ++ e) /\ (exists e, hset w1 = hset w ++ e) /\ svs w1 = svs w.
  Proof.
    intros Hk Hr Hd. pose proof Hk as (N1 & N2 & N3). unfold select_once.
    destruct (sel_axis (src sv) a) as [[ks Is]|] eqn:S1; [|discriminate].
    destruct (sel_axis (rec sv) b) as [[kr Js]|] eqn:S2; [|discriminate].
    destruct (sel_axis (frq sv) c) as [[kf Ks]|] eqn:S3; [|discriminate].
    destruct (sel_axis_label _ _ _ _ N1 S1) as (C1 & _ & D1 & I1 & _).
    destruct (sel_axis_label _ _ _ _ N2 S2) as (C2 & _ & D2 & I2 & _).
    destruct (sel_axis_label _ _ _ _ N3 S3) as (C3 & _ & D3 & I3 & _).
    destruct (all_none a b c) eqn:Ea.
    - intros E. injection E as <- <-.
      destruct a, b, c; try discriminate. cbn [chosen].
      split; [apply sub_by_label_refl|].
      split; [reflexivity|]. split; [reflexivity|]. split; [reflexivity|].
      split; [exact Hk|]. split; [exact Hr|]. split; [exact Hd|].
      split; [exists nil; now rewrite app_nil_r|].
      split; [exists nil; now rewrite app_nil_r|reflexivity].
    - intros E.
      pose proof (copy_survey_full (fun c0 => sel3 c0 Is Js Ks) ks kr kf w sv Hr Hd) as H.
      cbv zeta in H.
      destruct (copy_survey (fun c0 => sel3 c0 Is Js Ks) ks kr kf w sv) as [w' sv'].
      injection E as <- <-. cbn [fst snd] in H.
      destruct H as (K1 & K2 & K3 & A1 & A2 & O & N & M1 & M2 & M3 & Hd' & Hr' & He1 & He2 & Hs).
      rewrite <- K1 in S1. rewrite <- K2 in S2. rewrite <- K3 in S3.
      assert (SB : forall h1 h r1 r, deref h1 r1 = sel3 (deref h r) Is Js Ks ->
                                     same_by_label h1 sv' r1 h sv r)
        by (intros; eapply same_by_label_copy; eauto).
      assert (SO : forall (h1 h : list cube) (r1 r : option nat),
                 match r1, r with
                 | Some r1, Some r => deref h1 r1 = sel3 (deref h r) Is Js Ks
                 | None, None => True
                 | _, _ => False
                 end -> same_by_label_o h1 sv' r1 h sv r)
        by (intros h1 h [r1|] [r|]; cbn; auto).
      split.
      { unfold sub_by_label. rewrite K1, K2, K3.
        split; [exact I1|]. split; [exact I2|]. split; [exact I3|].
        split; [apply SB; exact O|].
        split; [eapply Forall2_imp; [exact N|]; intros p1 p (B1 & B2); split; auto|].
        split; [exact A1|]. split; [exact A2|].
        split; [apply SO; exact M1|]. split; [apply SO; exact M2|apply SO; exact M3]. }
      rewrite K1, K2, K3.
      split; [exact C1|]. split; [exact C2|]. split; [exact C3|].
      split; [unfold keys_ok; rewrite K1, K2, K3; auto|].
      split; [exact Hr'|]. split; [exact Hd'|]. split; [exact He1|]. split; [exact He2|exact Hs].
  Qed.

  (* which requests are accepted: any order of known keys without repetition;
     a repeated or unknown key is an error and leaves the world unchanged *)
  Theorem select_once_accepts (w : world) (sv : survey) a b c :
    select_once w sv a b c <> None <->
    (sel_axis (src sv) a <> None /\ sel_axis (rec sv) b <> None /\ sel_axis (frq sv) c <> None).
  Proof.
    unfold select_once.
    destruct (sel_axis (src sv) a) as [[ks Is]|]; [|split; [congruence|intros (H & _); congruence]].
    destruct (sel_axis (rec sv) b) as [[kr Js]|]; [|split; [congruence|intros (_ & H & _); congruence]].
    destruct (sel_axis (frq sv) c) as [[kf Ks]|]; [|split; [congruence|intros (_ & _ & H); congruence]].
    destruct (all_none a b c); split; intros; repeat split; congruence.
  Qed.
  (* --- remove_empty, by label *)
  Lemma bool_eq_iff (x y : bool) : (x = true <-> y = true) -> x = y.
  Proof.
    destruct x, y; intros [H1 H2]; try reflexivity.
    - symmetry. now apply H1.
    - now apply H2.
  Qed.

  Lemma existsb_ext_in {A} (f g : A -> bool) l :
    (forall x, In x l -> f x = g x) -> existsb f l = existsb g l.
  Proof.
    induction l as [|h t IH]; intros H; cbn; [reflexivity|].
    rewrite (H h (or_introl eq_refl)), IH; [reflexivity|]. intros x Hx. apply H. now right.
  Qed.

  Lemma existsb_seq_nth (f : Z -> bool) (l : list Z) :
    existsb (fun j => f (nth j l 0%Z)) (seq 0 (length l)) = existsb f l.
  Proof.
    apply bool_eq_iff. rewrite !existsb_exists. split.
    - intros (j & Hj & Hf). apply in_seq in Hj. exists (nth j l 0%Z). split; [apply nth_In; lia|exact Hf].
    - intros (x & Hx & Hf). destruct (In_nth l x 0%Z Hx) as (j & Hj & E).
      exists j. split; [apply in_seq; lia|now rewrite E].
  Qed.

  Lemma is_val_lget (c : cube) ks kr kf i j k :
    NoDup ks -> NoDup kr -> NoDup kf -> i < length ks -> j < length kr -> k < length kf ->
    is_val_o (lget c ks kr kf (nth i ks 0%Z) (nth j kr 0%Z) (nth k kf 0%Z)) = is_val (cget c i j k).
  Proof.
    intros N1 N2 N3 Hi Hj Hk. unfold lget.
    rewrite !pos_of_nth_nodup by assumption. cbn. destruct (cget c i j k); reflexivity.
  Qed.

  Lemma src_nonempty_label (h : list cube) (sv : survey) i :
    keys_ok sv -> i < length (src sv) ->
    src_nonempty (deref h (obs sv)) (length (rec sv)) (length (frq sv)) i
    = src_has_data h sv (rec sv) (frq sv) (nth i (src sv) 0%Z).
  Proof.
    intros (N1 & N2 & N3) Hi. unfold src_nonempty, src_has_data, sv_lget.
    rewrite <- (existsb_seq_nth _ (rec sv)). apply existsb_ext_in. intros j Hj. apply in_seq in Hj.
    rewrite <- (existsb_seq_nth _ (frq sv)). apply existsb_ext_in. intros k Hk. apply in_seq in Hk.
    symmetry. apply is_val_lget; auto; lia.
  Qed.
  Lemma rec_nonempty_label (h : list cube) (sv : survey) j :
    keys_ok sv -> j < length (rec sv) ->
    rec_nonempty (deref h (obs sv)) (length (src sv)) (length (frq sv)) j
    = rec_has_data h sv (src sv) (frq sv) (nth j (rec sv) 0%Z).
  Proof.
    intros (N1 & N2 & N3) Hj. unfold rec_nonempty, rec_has_data, sv_lget.
    rewrite <- (existsb_seq_nth _ (src sv)). apply existsb_ext_in. intros i Hi. apply in_seq in Hi.
    rewrite <- (existsb_seq_nth _ (frq sv)). apply existsb_ext_in. intros k Hk. apply in_seq in Hk.
    symmetry. apply is_val_lget; auto; lia.
  Qed.
  Lemma frq_nonempty_label (h : list cube) (sv : survey) k :
    keys_ok sv -> k < length (frq sv) ->
    frq_nonempty (deref h (obs sv)) (length (src sv)) (length (rec sv)) k
    = frq_has_data h sv (src sv) (rec sv) (nth k (frq sv) 0%Z).
  Proof.
    intros (N1 & N2 & N3) Hk. unfold frq_nonempty, frq_has_data, sv_lget.
    rewrite <- (existsb_seq_nth _ (src sv)). apply existsb_ext_in. intros i Hi. apply in_seq in Hi.
    rewrite <- (existsb_seq_nth _ (rec sv)). apply existsb_ext_in. intros j Hj. apply in_seq in Hj.
    symmetry. apply is_val_lget; auto; lia.
  Qed.

  Lemma keep_keys_filter_gen (p : nat -> bool) (q : Z -> bool) keys : forall s,
    (forall i, i < length keys -> p (s + i) = q (nth i keys 0%Z)) ->
    map snd (filter (fun ik => p (fst ik)) (combine (seq s (length keys)) keys)) = filter q keys.
  Proof.
    induction keys as [|h t IH]; intros s H; [reflexivity|].
    cbn [length seq combine filter fst]. pose proof (H 0 ltac:(cbn; lia)) as H0.
    rewrite Nat.add_0_r in H0. cbn [nth] in H0. rewrite H0.
    assert (IHt : map snd (filter (fun ik => p (fst ik)) (combine (seq (S s) (length t)) t))
                  = filter q t).
    { apply IH. intros i Hi. specialize (H (S i) ltac:(cbn; lia)). cbn [nth] in H.
      now rewrite <- H, Nat.add_succ_r. }
    destruct (q h); cbn [map snd]; now rewrite IHt.
  Qed.
  Lemma keep_keys_filter (p : nat -> bool) (q : Z -> bool) keys :
    (forall i, i < length keys -> p i = q (nth i keys 0%Z)) -> keep_keys p keys = filter q keys.
  Proof. intros H. unfold keep_keys. now apply keep_keys_filter_gen. Qed.

  Lemma filter_ext_in' {A} (f g : A -> bool) l :
    (forall x, In x l -> f x = g x) -> filter f l = filter g l.
  Proof.
    induction l as [|h t IH]; intros H; cbn; [reflexivity|].
    rewrite (H h (or_introl eq_refl)), IH; [reflexivity|]. intros x Hx. apply H. now right.
  Qed.

  (* data predicates are the same on a restriction by label *)
  Lemma has_data_sub (w1 : world) sv1 (w : world) sv :
    sub_by_label w1 sv1 w sv ->
    (forall a, In a (src sv1) ->
       src_has_data (hdat w1) sv1 (rec sv1) (frq sv1) a = src_has_data (hdat w) sv (rec sv1) (frq sv1) a) /\
    (forall b, In b (rec sv1) ->
       rec_has_data (hdat w1) sv1 (src sv1) (frq sv1) b = rec_has_data (hdat w) sv (src sv1) (frq sv1) b) /\
    (forall d, In d (frq sv1) ->
       frq_has_data (hdat w1) sv1 (src sv1) (rec sv1) d = frq_has_data (hdat w) sv (src sv1) (rec sv1) d).
  Proof.
    intros (_ & _ & _ & O & _). unfold same_by_label in O.
    unfold src_has_data, rec_has_data, frq_has_data.
    repeat split; intros x Hx; apply existsb_ext_in; intros y Hy; apply existsb_ext_in;
      intros z Hz; now rewrite O.
  Qed.

  Lemma filter_NoDup (f : Z -> bool) l : NoDup l -> NoDup (filter f l).
  Proof.
    induction 1 as [|h t Hh Ht IH]; cbn; [constructor|]. destruct (f h); [|exact IH].
    constructor; [|exact IH]. intros Hin. apply filter_In in Hin. tauto.
  Qed.

  (* THE FULL select: a new survey is appended; it is the restriction by label
     of the original to the chosen keys (in the chosen order), from which -- if
     remove_empty is set and any chosen datum is finite -- exactly the sources /
     receivers / frequencies without any finite chosen datum are removed *)
  Theorem select_by_label s sS sR sF rm (w : world) sv w' :
    nth_error (svs w) s = Some sv ->
    keys_ok sv -> refs_ok (length (hset w)) sv -> drefs_ok (length (hdat w)) sv ->
    select s sS sR sF rm w = (w', OutOk) ->
    exists sv',
      svs w' = svs w ++ [sv'] /\ sub_by_label w' sv' w sv /\
      keys_ok sv' /\ refs_ok (length (hset w')) sv' /\ drefs_ok (length (hdat w')) sv' /\
      (exists e, hdat w' = hdat w ++ e) /\ (exists e, hset w' = hset w ++ e) /\
      let ks := chosen (src sv) sS in
      let kr := chosen (rec sv) sR in
      let kf := chosen (frq sv) sF in
      if rm && any_data (hdat w) sv ks kr kf
      then src sv' = filter (src_has_data (hdat w) sv kr kf) ks /\
           rec sv' = filter (rec_has_data (hdat w) sv ks kf) kr /\
           frq sv' = filter (frq_has_data (hdat w) sv ks kr) kf
      else src sv' = ks /\ rec sv' = kr /\ frq sv' = kf.
  Proof.
    intros Hs Hk Hr Hd. unfold select. rewrite Hs.
    destruct (select_once w sv sS sR sF) as [[w1 sv1]|] eqn:E1; [|discriminate].
    destruct (select_once_sub _ _ _ _ _ _ _ Hk Hr Hd E1)
      as (Sub1 & K1 & K2 & K3 & Hk1 & Hr1 & Hd1 & (e1 & He1) & (e1' & He1') & Hs1).
    unfold shape.
    destruct (has_data_sub _ _ _ _ Sub1) as (HS & HR & HF).
    (* the emptiness test, by label *)
    assert (Hany : any_finite (deref (hdat w1) (obs sv1)) (length (src sv1)) (length (rec sv1))
                              (length (frq sv1))
                   = any_data (hdat w) sv (chosen (src sv) sS) (chosen (rec sv) sR) (chosen (frq sv) sF)).
    { unfold any_finite, any_data. rewrite <- K1, <- K2, <- K3.
      rewrite <- (existsb_seq_nth _ (src sv1)). apply existsb_ext_in. intros i Hi. apply in_seq in Hi.
      rewrite src_nonempty_label by (auto; lia). apply HS. apply nth_In. lia. }
    rewrite Hany.
    destruct (rm && any_data (hdat w) sv (chosen (src sv) sS) (chosen (rec sv) sR) (chosen (frq sv) sF)).
    - (* remove_empty recursion *)
      match goal with |- context [select_once w1 sv1 (Some ?x) (Some ?y) (Some ?z)] =>
        set (ks2 := x); set (kr2 := y); set (kf2 := z) end.
      destruct (select_once w1 sv1 (Some ks2) (Some kr2) (Some kf2)) as [[w2 sv2]|] eqn:E2;
        [|discriminate].
      intros E. injection E as <-.
      destruct (select_once_sub _ _ _ _ _ _ _ Hk1 Hr1 Hd1 E2)
        as (Sub2 & L1 & L2 & L3 & Hk2 & Hr2 & Hd2 & (e2 & He2) & (e2' & He2') & Hs2).
      cbn [chosen] in L1, L2, L3.
      exists sv2. unfold set_svs. cbn [svs hset hdat].
      split; [now rewrite Hs2, Hs1|].
      split; [eapply sub_by_label_trans; [exact Sub2|exact Sub1]|].
      split; [exact Hk2|]. split; [exact Hr2|]. split; [exact Hd2|].
      split; [exists (e1 ++ e2); now rewrite He2, He1, app_assoc|].
      split; [exists (e1' ++ e2'); now rewrite He2', He1', app_assoc|].
      cbv zeta. rewrite L1, L2, L3. unfold ks2, kr2, kf2. rewrite <- K1, <- K2, <- K3.
      split; [|split].
      + rewrite (keep_keys_filter _ (src_has_data (hdat w1) sv1 (rec sv1) (frq sv1)))
          by (intros i Hi; now apply src_nonempty_label).
        now apply filter_ext_in'.
      + rewrite (keep_keys_filter _ (rec_has_data (hdat w1) sv1 (src sv1) (frq sv1)))
          by (intros i Hi; now apply rec_nonempty_label).
        now apply filter_ext_in'.
      + rewrite (keep_keys_filter _ (frq_has_data (hdat w1) sv1 (src sv1) (rec sv1)))
          by (intros i Hi; now apply frq_nonempty_label).
        now apply filter_ext_in'.
    - intros E. injection E as <-. exists sv1. unfold set_svs. cbn [svs hset hdat].
      split; [now rewrite Hs1|]. split; [exact Sub1|].
      split; [exact Hk1|]. split; [exact Hr1|]. split; [exact Hd1|].
      split; [eauto|]. split; [eauto|]. cbv zeta. auto.
  Qed.
  (* --- composition: selecting from a selection = selecting directly *)
  Lemma chosen_compose keys a a' : chosen (chosen keys a) a' = chosen keys (compose_sel a a').
  Proof. destruct a'; reflexivity. Qed.

  Lemma sel_axis_compose keys keys1 a a' :
    sel_axis keys a <> None -> incl keys1 keys -> sel_axis keys1 a' <> None ->
    sel_axis keys (compose_sel a a') <> None.
  Proof.
    intros H1 Hi H2. destruct a' as [l|]; cbn [compose_sel]; [|exact H1].
    apply sel_axis_accepts. apply sel_axis_accepts in H2. destruct H2 as (Hn & Hl).
    split; [exact Hn|]. eapply incl_tran; eauto.
  Qed.

  Theorem select_once_compose (w : world) (sv : survey) a b c w1 sv1 a' b' c' w2 sv2 :
    keys_ok sv -> refs_ok (length (hset w)) sv -> drefs_ok (length (hdat w)) sv ->
    select_once w sv a b c = Some (w1, sv1) ->
    select_once w1 sv1 a' b' c' = Some (w2, sv2) ->
    sub_by_label w2 sv2 w sv /\
    src sv2 = chosen (src sv) (compose_sel a a') /\
    rec sv2 = chosen (rec sv) (compose_sel b b') /\
    frq sv2 = chosen (frq sv) (compose_sel c c') /\
    exists w3 sv3,
      select_once w sv (compose_sel a a') (compose_sel b b') (compose_sel c c') = Some (w3, sv3) /\
      src sv3 = src sv2 /\ rec sv3 = rec sv2 /\ frq sv3 = frq sv2 /\
      sub_by_label w3 sv3 w sv /\
      (* both routes give the same data, label by label *)
      same_by_label (hdat w2) sv2 (obs sv2) (hdat w3) sv3 (obs sv3).
  Proof.
    intros Hk Hr Hd E1 E2.
    destruct (select_once_sub _ _ _ _ _ _ _ Hk Hr Hd E1)
      as (Sub1 & K1 & K2 & K3 & Hk1 & Hr1 & Hd1 & _ & _ & _).
    destruct (select_once_sub _ _ _ _ _ _ _ Hk1 Hr1 Hd1 E2)
      as (Sub2 & L1 & L2 & L3 & _).
    pose proof (sub_by_label_trans _ _ _ _ _ _ Sub2 Sub1) as Sub.
    rewrite K1 in L1. rewrite K2 in L2. rewrite K3 in L3. rewrite chosen_compose in L1, L2, L3.
    split; [exact Sub|]. split; [exact L1|]. split; [exact L2|]. split; [exact L3|].
    assert (A1 : select_once w sv a b c <> None) by congruence.
    assert (A2 : select_once w1 sv1 a' b' c' <> None) by congruence.
    apply select_once_accepts in A1. apply select_once_accepts in A2.
    destruct A1 as (P1 & P2 & P3). destruct A2 as (Q1 & Q2 & Q3).
    destruct Sub1 as (I1 & I2 & I3 & _).
    assert (A3 : select_once w sv (compose_sel a a') (compose_sel b b') (compose_sel c c') <> None).
    { apply select_once_accepts. repeat split; eapply sel_axis_compose; eauto. }
    destruct (select_once w sv (compose_sel a a') (compose_sel b b') (compose_sel c c'))
      as [[w3 sv3]|] eqn:E3; [|congruence].
    destruct (select_once_sub _ _ _ _ _ _ _ Hk Hr Hd E3) as (Sub3 & M1 & M2 & M3 & _).
    exists w3, sv3. split; [reflexivity|].
    split; [congruence|]. split; [congruence|]. split; [congruence|]. split; [exact Sub3|].
    destruct Sub as (_ & _ & _ & O2 & _). destruct Sub3 as (_ & _ & _ & O3 & _).
    intros x y z Hx Hy Hz. rewrite O2 by assumption. symmetry. apply O3; congruence.
  Qed.

  (* ========================================================= invariants *)
  Lemma drefs_ok_mono n m (sv : survey) : drefs_ok n sv -> n <= m -> drefs_ok m sv.
  Proof.
    intros (A & B) H. split; [lia|]. eapply Forall_impl; [|exact B]. intros p Hp. cbn beta in *. lia.
  Qed.

  Lemma Forall_nth_error {A} (P : A -> Prop) l i x : Forall P l -> nth_error l i = Some x -> P x.
  Proof. intros H E. rewrite Forall_forall in H. apply H. eapply nth_error_In; eauto. Qed.

  Lemma wfd_upd (w : world) s sv' hs' hd' :
    wfd w -> length (hdat w) <= length hd' -> drefs_ok (length hd') sv' ->
    wfd (mkW hs' hd' (upd_nth s sv' (svs w))).
  Proof.
    intros Hw Hl Hs. unfold wfd. cbn. apply Forall_upd_nth; [|exact Hs].
    eapply Forall_impl; [|exact Hw]. intros x Hx. eapply drefs_ok_mono; eauto.
  Qed.
  Lemma wfd_app (w : world) svn hs' hd' :
    wfd w -> length (hdat w) <= length hd' -> drefs_ok (length hd') svn ->
    wfd (mkW hs' hd' (svs w ++ [svn])).
  Proof.
    intros Hw Hl Hs. unfold wfd. cbn. apply Forall_app. split; [|constructor; [exact Hs|constructor]].
    eapply Forall_impl; [|exact Hw]. intros x Hx. eapply drefs_ok_mono; eauto.
  Qed.
  Lemma wfk_upd (w : world) s sv' hs' hd' :
    wfk w -> keys_ok sv' -> wfk (mkW hs' hd' (upd_nth s sv' (svs w))).
  Proof. intros Hw Hs. unfold wfk. cbn. now apply Forall_upd_nth. Qed.
  Lemma wfk_app (w : world) svn hs' hd' :
    wfk w -> keys_ok svn -> wfk (mkW hs' hd' (svs w ++ [svn])).
  Proof. intros Hw Hs. unfold wfk. cbn. apply Forall_app. split; [exact Hw|constructor; [exact Hs|constructor]]. Qed.

  Lemma world_eta (w : world) : w = mkW (hset w) (hdat w) (svs w).
  Proof. destruct w; reflexivity. Qed.

  Lemma set_nfre_inv isnf s v (w : world) :
    wfd w -> wfk w -> wfd (fst (set_nfre ltb isnf s v w)) /\ wfk (fst (set_nfre ltb isnf s v w)).
  Proof.
    intros Hd Hk. unfold set_nfre.
    destruct (nth_error (svs w) s) as [sv|] eqn:Hs; [|now split].
    pose proof (Forall_nth_error _ _ _ _ Hd Hs) as Hds.
    pose proof (Forall_nth_error _ _ _ _ Hk Hs) as Hks.
    assert (Hup : forall a r hs', wfd (mkW hs' (hdat w) (upd_nth s
                   (if isnf then with_nf sv a r else with_re sv a r) (svs w))) /\
                  wfk (mkW hs' (hdat w) (upd_nth s
                   (if isnf then with_nf sv a r else with_re sv a r) (svs w)))).
    { intros a r hs'. split; [apply wfd_upd; auto|apply wfk_upd; auto]; destruct isnf; exact Hds || exact Hks. }
    destruct v as [|q|c].
    - cbn [fst]. unfold set_svs. destruct isnf; apply Hup.
    - destruct (ltb 0%F q); cbn [fst]; [|now split]. unfold set_svs. destruct isnf; apply Hup.
    - destruct (cdims c) as [[d1 d2] d3]. destruct (shape sv) as [[n1 n2] n3].
      destruct (negb (call (pos_cell ltb) c)); [now split|].
      destruct (Nat.eqb (d1 * d2 * d3) 1).
      { destruct (cget c 0 0 0) as [|q q']; cbn [fst]; [now split|].
        unfold set_svs. destruct isnf; apply Hup. }
      destruct (negb (dim_ok d1 n1 && dim_ok d2 n2 && dim_ok d3 n3)); [now split|].
      cbn [fst]. destruct isnf; apply Hup.
  Qed.

  Lemma set_std_inv s v (w : world) :
    wfd w -> wfk w -> wfd (fst (set_std ltb s v w)) /\ wfk (fst (set_std ltb s v w)).
  Proof.
    intros Hd Hk. unfold set_std.
    destruct (nth_error (svs w) s) as [sv|] eqn:Hs; [|now split].
    pose proof (Forall_nth_error _ _ _ _ Hd Hs) as Hds.
    pose proof (Forall_nth_error _ _ _ _ Hk Hs) as Hks.
    assert (Hup : forall r hs', wfd (mkW hs' (hdat w) (upd_nth s (with_std sv r) (svs w))) /\
                                wfk (mkW hs' (hdat w) (upd_nth s (with_std sv r) (svs w)))).
    { intros r hs'. split; [apply wfd_upd; auto|apply wfk_upd; auto]. }
    destruct v as [c|].
    - destruct (cdims c) as [[d1 d2] d3]. destruct (shape sv) as [[n1 n2] n3].
      destruct (negb (call (pos_cell ltb) c)); [now split|].
      destruct (negb (Nat.eqb d1 n1 && Nat.eqb d2 n2 && Nat.eqb d3 n3)); [now split|].
      cbn [fst]. apply Hup.
    - cbn [fst]. unfold set_svs. apply Hup.
  Qed.

  Lemma add_noise_inv inplace s p noise (w : world) :
    wfd w -> wfk w ->
    wfd (fst (add_noise ltb off2 inplace s p noise w)) /\
    wfk (fst (add_noise ltb off2 inplace s p noise w)).
  Proof.
    intros Hd Hk. unfold add_noise.
    destruct (nth_error (svs w) s) as [sv|] eqn:Hs; [|now split].
    pose proof (Forall_nth_error _ _ _ _ Hd Hs) as (Ho & Hn).
    pose proof (Forall_nth_error _ _ _ _ Hk Hs) as Hks.
    destruct (shape sv) as [[n1 n2] n3].
    set (tg := match a_to p with
               | TObs => (hdat w, sv, obs sv)
               | TNamed n =>
                 match lookup n (named sv) with
                 | Some r => (hdat w, sv, r)
                 | None => (hdat w ++ [ctab n1 n2 n3 (fun _ _ _ => zero)],
                            with_named sv (named sv ++ [(n, length (hdat w))]), length (hdat w))
                 end
               end).
    assert (Ht : length (hdat w) <= length (fst (fst tg)) /\
                 drefs_ok (length (fst (fst tg))) (snd (fst tg)) /\ keys_ok (snd (fst tg))).
    { unfold tg. destruct (a_to p) as [|n].
      { cbn [fst snd]. split; [lia|]. split; [split; assumption|exact Hks]. }
      destruct (lookup n (named sv)).
      { cbn [fst snd]. split; [lia|]. split; [split; assumption|exact Hks]. }
      cbn [fst snd]. rewrite app_length. cbn [length]. split; [lia|]. split; [|exact Hks].
      split; cbn [obs named with_named]; [lia|]. apply Forall_app. split.
      - eapply Forall_impl; [|exact Hn]. intros q Hq. cbn beta in *. lia.
      - repeat constructor. cbn. lia. }
    destruct tg as [[hd1 sv1] tgt]. cbn [fst snd] in Ht. destruct Ht as (Hl & Hd1 & Hk1).
    destruct (amp_threshold inplace (hset w) sv1 (a_minamp p)) as [hs1 thr].
    match goal with |- context [std2 ?w2 sv1] => destruct (std2 w2 sv1) end; cbn [fst svs hdat];
      (split; [apply wfd_upd; auto; rewrite ?upd_nth_length; auto|apply wfk_upd; auto]).
  Qed.

  Lemma select_unchanged_on_error s a b c rm (w w' : world) o :
    select s a b c rm w = (w', o) -> o = OutOk \/ w' = w.
  Proof.
    unfold select. destruct (nth_error (svs w) s) as [sv|]; [|intros E; injection E; auto].
    destruct (select_once w sv a b c) as [[w1 sv1]|]; [|intros E; injection E; auto].
    destruct (shape sv1) as [[n1 n2] n3].
    match goal with |- context [if ?x then _ else _] => destruct x end.
    - match goal with |- context [select_once w1 sv1 ?x ?y ?z] =>
        destruct (select_once w1 sv1 x y z) as [[w2 sv2]|] end; intros E; injection E; auto.
    - intros E; injection E; auto.
  Qed.

  Lemma select_inv s a b c rm (w : world) :
    wf_all w -> wfd (fst (select s a b c rm w)) /\ wfk (fst (select s a b c rm w)).
  Proof.
    intros (Hw & Hd & Hk).
    destruct (select s a b c rm w) as [w' o] eqn:E. cbn [fst].
    destruct (select_unchanged_on_error _ _ _ _ _ _ _ _ E) as [->| ->]; [|now split].
    destruct (nth_error (svs w) s) as [sv|] eqn:Hs.
    - pose proof (Forall_nth_error _ _ _ _ Hd Hs) as Hds.
      pose proof (Forall_nth_error _ _ _ _ Hk Hs) as Hks.
      pose proof (wf_nth _ _ _ Hw Hs) as Hrs.
      destruct (select_by_label _ _ _ _ _ _ _ _ Hs Hks Hrs Hds E)
        as (sv' & S & _ & K' & _ & D' & (e & He) & _).
      rewrite (world_eta w'), S. split.
      + apply wfd_app; auto. rewrite He, app_length. lia.
      + apply wfk_app; auto.
    - unfold select in E. rewrite Hs in E. discriminate.
  Qed.

  Lemma dict_inv s k (w : world) :
    wf_all w -> wfd (fst (dict s k w)) /\ wfk (fst (dict s k w)).
  Proof.
    intros (Hw & Hd & Hk). unfold dict.
    destruct (nth_error (svs w) s) as [sv|] eqn:Hs; [|now split].
    pose proof (Forall_nth_error _ _ _ _ Hd Hs) as Hds.
    pose proof (Forall_nth_error _ _ _ _ Hk Hs) as Hks.
    pose proof (wf_nth _ _ _ Hw Hs) as Hrs.
    destruct (Z.eqb k 0).
    - cbn [fst]. unfold set_svs. split; [apply wfd_app; auto|apply wfk_app; auto].
    - pose proof (copy_survey_full (fun c => c) (src sv) (rec sv) (frq sv) w sv Hrs Hds) as H.
      cbv zeta in H.
      destruct (copy_survey (fun c => c) (src sv) (rec sv) (frq sv) w sv) as [w1 sv1].
      cbn [fst snd] in *.
      destruct H as (K1 & K2 & K3 & _ & _ & _ & _ & _ & _ & _ & D1 & _ & (e & He) & _ & S).
      unfold set_svs. rewrite S. split.
      + apply wfd_app; auto. rewrite He, app_length. lia.
      + apply wfk_app; auto. unfold keys_ok. now rewrite K1, K2, K3.
  Qed.

  Theorem step_wf_all o (w : world) : wf_all w -> wf_all (fst (step ltb off2 false o w)).
  Proof.
    intros H. pose proof H as (Hw & Hd & Hk).
    split; [apply (step_ext ltb off2 o w Hw)|].
    destruct o; cbn [step].
    - now apply set_nfre_inv.
    - now apply set_nfre_inv.
    - now apply set_std_inv.
    - now apply add_noise_inv.
    - now apply select_inv.
    - now apply dict_inv.
  Qed.

  Theorem run_wf_all ops (w : world) : wf_all w -> wf_all (run ltb off2 false ops w).
  Proof.
    revert w. induction ops as [|o t IH]; intros w Hw; [exact Hw|].
    cbn [run]. apply IH. now apply step_wf_all.
  Qed.
  Lemma select_settings_frame s a b c rm (w : world) i :
    wf w -> i < length (svs w) ->
    settings_at (fst (select s a b c rm w)) i = settings_at w i.
  Proof.
    intros Hw Hi.
    apply (settings_frame_all ltb off2 [OSelect s a b c rm] w i Hw Hi).
    intros o [<-|[]]. reflexivity.
  Qed.
End Labels.

(* ------------------------------------------------ concrete instances (Q) *)
From Coq Require Import QArith.
From V Require Import Base.ExecQ Model.SurveyMachineExec.

Section LabelWitnesses.
  Local Open Scope Q_scope.
  (* three sources, two receivers, one frequency.  Source 2 and receiver 2 hold
     no finite datum; per-source noise floor 5, 6, 7; one named data set. *)
  Definition ex2_obs : qcube := [[[V 3 4]; [NaN]]; [[NaN]; [NaN]]; [[V 1 0]; [NaN]]].
  Definition ex2_syn : qcube := [[[V 1 1]; [V 2 2]]; [[V 3 3]; [V 4 4]]; [[V 5 5]; [V 6 6]]].
  Definition ex2_nf : qcube := [[[V 5 0]; [V 5 0]]; [[V 6 0]; [V 6 0]]; [[V 7 0]; [V 7 0]]].
  Definition ex2_sv : @survey Q :=
    mkS [1%Z; 2%Z; 3%Z] [1%Z; 2%Z] [1%Z] 0 [(0%Z, 1%nat)] AData ANone (Some 0%nat) None None.
  Definition ex2_w : qworld := mkW [ex2_nf] [ex2_obs; ex2_syn] [ex2_sv].

  Lemma ex2_wf_all : wf_all ex2_w.
  Proof.
    unfold wf_all, wf, wfd, wfk, ex2_w. cbn.
    repeat split; repeat constructor; cbn; try lia; intuition (try discriminate; try lia).
  Qed.

  (* descending request with remove_empty: keys [3;1] x [1] x [1]; data, named
     data and noise floor follow their LABELS *)
  Definition ex2_sel : qworld := fst (select 0 (Some [3%Z; 2%Z; 1%Z]) None None true ex2_w).
  Lemma ex2_select_ok :
    snd (select 0 (Some [3%Z; 2%Z; 1%Z]) None None true ex2_w) = OutOk /\
    map (fun sv => (src sv, rec sv, frq sv)) (svs ex2_sel)
    = [([1%Z; 2%Z; 3%Z], [1%Z; 2%Z], [1%Z]); ([3%Z; 1%Z], [1%Z], [1%Z])].
  Proof. vm_compute. split; reflexivity. Qed.
  Lemma ex2_select_by_label :
    match nth_error (svs ex2_sel) 1 with
    | Some sv' =>
      (sv_lget (hdat ex2_sel) sv' (obs sv') 3%Z 1%Z 1%Z, sv_lget (hdat ex2_sel) sv' (obs sv') 1%Z 1%Z 1%Z,
       match lookup 0%Z (named sv') with
       | Some r => sv_lget (hdat ex2_sel) sv' r 3%Z 1%Z 1%Z | None => None end,
       match nf_arr sv' with
       | Some r => sv_lget (hset ex2_sel) sv' r 3%Z 1%Z 1%Z | None => None end,
       match nf_arr sv' with
       | Some r => sv_lget (hset ex2_sel) sv' r 1%Z 1%Z 1%Z | None => None end)
    | None => (None, None, None, None, None)
    end
    = (Some (V 1 0), Some (V 3 4), Some (V 5 5), Some (V 7 0), Some (V 5 0)).
  Proof. vm_compute. reflexivity. Qed.

  (* repeated or unknown names are rejected and nothing changes *)
  Lemma ex2_select_rejects :
    select 0 (Some [1%Z; 1%Z]) None None false ex2_w = (ex2_w, OutErr 2) /\
    select 0 None (Some [2%Z; 9%Z]) None false ex2_w = (ex2_w, OutErr 2).
  Proof. vm_compute. split; reflexivity. Qed.

  (* composition on the example: [3;2;1] then [1;3] = [1;3] directly *)
  Lemma ex2_compose :
    match select_once ex2_w ex2_sv (Some [3%Z; 2%Z; 1%Z]) None None with
    | Some (w1, sv1) =>
      match select_once w1 sv1 (Some [1%Z; 3%Z]) (Some [2%Z; 1%Z]) None,
            select_once ex2_w ex2_sv (Some [1%Z; 3%Z]) (Some [2%Z; 1%Z]) None with
      | Some (w2, sv2), Some (w3, sv3) =>
        (src sv2, rec sv2, d_cube (deref (hdat w2) (obs sv2)))
        = (src sv3, rec sv3, d_cube (deref (hdat w3) (obs sv3)))
        /\ src sv2 = [1%Z; 3%Z]
      | _, _ => False
      end
    | None => False
    end.
  Proof. vm_compute. split; reflexivity. Qed.

  (* the complete add_noise equation on the first example: entry (0,0,0) gets
     data + noise, entry (0,1,0) is cut (|1/4| < 2/2) *)
  Lemma ex_cuts_spec_values :
    (d_cell (an_spec_cell
       (cut_mask qltb ex_off (mkP 0 None MHalfNf TObs)
                 (snd (amp_threshold false (hset ex_w) ex_sv MHalfNf)) (deref (hdat ex_w) 0) ex_sv 0 0 0)
       (std2_at ex_w ex_sv 0 0 0) (cget ex_obs 0 0 0) (cget ex_noise 0 0 0)),
     d_cell (an_spec_cell
       (cut_mask qltb ex_off (mkP 0 None MHalfNf TObs)
                 (snd (amp_threshold false (hset ex_w) ex_sv MHalfNf)) (deref (hdat ex_w) 0) ex_sv 0 1 0)
       (std2_at ex_w ex_sv 0 1 0) (cget ex_obs 0 1 0) (cget ex_noise 0 1 0)))
    = (Some ((7%Z, 2%Z), (9%Z, 2%Z)), None).
  Proof. vm_compute. reflexivity. Qed.
End LabelWitnesses.
