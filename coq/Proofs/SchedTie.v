(* Proofs/SchedTie.v -- C11: lemmas ABOUT THE GENERATED shape table
   Gen/MpShape.v (re-extracted from emg3d on every run). *)
From Coq Require Import List Arith Bool String Ascii ZArith Lia Permutation.
From V Require Import Model.Sched Proofs.Sched Gen.MpShape.
Import ListNotations.

Lemma select_in bs mw tq b : select_branch bs mw tq = Some b -> In b bs.
Proof.
  induction bs as [|a bs IH]; cbn; [discriminate|].
  destruct (guard_holds (br_guard a) mw tq).
  - intros H; inversion H; now left.
  - intros H; right; now apply IH.
Qed.

Lemma select_some bs mw tq :
  existsb (fun b => guard_holds (br_guard b) mw tq) bs = true ->
  exists b, select_branch bs mw tq = Some b.
Proof.
  induction bs as [|a bs IH]; cbn; [discriminate|].
  destruct (guard_holds (br_guard a) mw tq); cbn; [intros _; now exists a|exact IH].
Qed.

Definition is_else (g : guard) : bool := match g with GElse => true | _ => false end.

Lemma else_holds bs mw tq :
  existsb (fun b => is_else (br_guard b)) bs = true ->
  existsb (fun b => guard_holds (br_guard b) mw tq) bs = true.
Proof.
  intros H. apply existsb_exists in H. destruct H as [b [Hin He]].
  apply existsb_exists. exists b. split; [exact Hin|].
  destruct (br_guard b); try discriminate. reflexivity.
Qed.

(* facts about the CURRENT source, decided by computation on the generated table *)
Lemma mpshape_all_ordered :
  forallb (fun b => is_ordered (br_collector b)) process_map_branches = true.
Proof. vm_compute. reflexivity. Qed.

Lemma mpshape_has_else :
  existsb (fun b => is_else (br_guard b)) process_map_branches = true.
Proof. vm_compute. reflexivity. Qed.

Lemma mpshape_sites_positional :
  forallb store_by_position store_sites = true /\
  map ss_fn store_sites = ["_compute"; "_bcompute"; "jvec"]%string.
Proof. split; vm_compute; reflexivity. Qed.

Lemma mpshape_srcfreq : is_product srcfreq_shape = true.
Proof. vm_compute. reflexivity. Qed.

(* process_map: whatever max_workers and whether or not tqdm is importable,
   the branch that runs returns the sequential list, for every schedule *)
Lemma process_map_any_config_lemma {T R} (f : T -> R) (max_workers : Z) (tqdm_none : bool) :
  exists b, select_branch process_map_branches max_workers tqdm_none = Some b /\
    forall tasks nw tr p,
      run f nw (submit_all tasks) tr = Some p -> quiescent p = true ->
      collect f (br_collector b) tasks (completed p) = sequential f tasks.
Proof.
  destruct (select_some process_map_branches max_workers tqdm_none) as [b Hb].
  { apply else_holds, mpshape_has_else. }
  exists b. split; [exact Hb|].
  intros tasks nw tr p Hr Hq. apply (collect_ordered_tag f _ nw tr); auto.
  pose proof mpshape_all_ordered as Ho. rewrite forallb_forall in Ho.
  apply Ho. eapply select_in; eassumption.
Qed.

(* ---- file names ---- *)
Definition fname (what src freq : string) : string := render fname_pattern what src freq.

Lemma fname_is what src freq :
  fname what src freq
  = String.append what (String.append "_" (String.append src
      (String.append "_" (String.append freq ".h5")))).
Proof.
  unfold fname.
  assert (E : fname_pattern = [PWhat; PLit "_"; PSource; PLit "_"; PFrequency; PLit ".h5"])
    by (vm_compute; reflexivity).
  rewrite E. cbn [render]. 
  assert (A : forall s, String.append s EmptyString = s).
  { induction s as [|c s IH]; cbn; [reflexivity|now rewrite IH]. }
  now rewrite A.
Qed.

Lemma append_inj_l a x y : String.append a x = String.append a y -> x = y.
Proof. induction a as [|c a IH]; cbn; [auto|]. intros H. inversion H. auto. Qed.

Lemma length_append a b :
  String.length (String.append a b) = String.length a + String.length b.
Proof. induction a as [|c a IH]; cbn; [reflexivity|now rewrite IH]. Qed.

Lemma append_inj_r c : forall a b, String.append a c = String.append b c -> a = b.
Proof.
  induction a as [|x a IH]; intros b H; destruct b as [|y b]; cbn in H.
  - reflexivity.
  - exfalso. apply (f_equal String.length) in H. cbn in H. rewrite length_append in H. lia.
  - exfalso. apply (f_equal String.length) in H. cbn in H. rewrite length_append in H. lia.
  - inversion H. f_equal. now apply IH.
Qed.

Lemma split_at_us : forall s1 s2 r1 r2,
  has_us s1 = false -> has_us s2 = false ->
  String.append s1 (String "_"%char r1) = String.append s2 (String "_"%char r2) ->
  s1 = s2 /\ r1 = r2.
Proof.
  induction s1 as [|c s1 IH]; intros s2 r1 r2 H1 H2 H; destruct s2 as [|d s2]; cbn in *.
  - inversion H. auto.
  - inversion H; subst d. rewrite Ascii.eqb_refl in H2. discriminate.
  - inversion H; subst c. rewrite Ascii.eqb_refl in H1. discriminate.
  - inversion H; subst d.
    destruct (Ascii.eqb c "_"%char); [discriminate|].
    destruct (IH s2 r1 r2 H1 H2) as [-> ->]; auto.
Qed.

Lemma fname_injective_lemma what s1 f1 s2 f2 :
  has_us s1 = false -> has_us s2 = false ->
  fname what s1 f1 = fname what s2 f2 -> s1 = s2 /\ f1 = f2.
Proof.
  intros H1 H2 H. rewrite !fname_is in H.
  apply append_inj_l in H. cbn [String.append] in H. inversion H as [H'].
  change (String.append "_" ?x) with (String "_"%char x) in H'.
  destruct (split_at_us _ _ _ _ H1 H2 H') as [-> Hr]. split; [reflexivity|].
  now apply append_inj_r in Hr.
Qed.

Lemma fname_collision_lemma :
  exists s1 f1 s2 f2 : string,
    (s1, f1) <> (s2, f2) /\ fname "efield" s1 f1 = fname "efield" s2 f2.
Proof.
  exists "Tx"%string, "A_f1"%string, "Tx_A"%string, "f1"%string.
  split; [intros H; inversion H|vm_compute; reflexivity].
Qed.
