(* Proofs/SchedTie.v -- C11: lemmas ABOUT THE GENERATED shape table
   Gen/MpShape.v (re-extracted from emg3d on every run). *)
From Coq Require Import List Arith Bool String Ascii ZArith Lia Permutation DecimalString DecimalNat.
From V Require Import Model.Sched Proofs.Sched Gen.MpShape.
Import ListNotations.

Lemma select_in bs mw tq b : select_branch bs mw tq = Some b -> In b bs.
Proof.
  induction bs as [|a bs IH]; cbn; [discriminate|].
  destruct (guard_holds (br_guard a) mw tq).
  - intros H; inversion H; now left.
  - intros H; right; now apply IH.
Qed.

Lemma select_some bs mw tq :
  existsb (fun b => guard_holds (br_guard b) mw tq) bs = true ->
  exists b, select_branch bs mw tq = Some b.
Proof.
  induction bs as [|a bs IH]; cbn; [discriminate|].
  destruct (guard_holds (br_guard a) mw tq); cbn; [intros _; now exists a|exact IH].
Qed.

Definition is_else (g : guard) : bool := match g with GElse => true | _ => false end.

Lemma else_holds bs mw tq :
  existsb (fun b => is_else (br_guard b)) bs = true ->
  existsb (fun b => guard_holds (br_guard b) mw tq) bs = true.
Proof.
  intros H. apply existsb_exists in H. destruct H as [b [Hin He]].
  apply existsb_exists. exists b. split; [exact Hin|].
  destruct (br_guard b); try discriminate. reflexivity.
Qed.

(* facts about the CURRENT source, decided by computation on the generated table *)
Lemma mpshape_all_ordered :
  forallb (fun b => is_ordered (br_collector b)) process_map_branches = true.
Proof. vm_compute. reflexivity. Qed.

Lemma mpshape_has_else :
  existsb (fun b => is_else (br_guard b)) process_map_branches = true.
Proof. vm_compute. reflexivity. Qed.

Lemma mpshape_sites_positional :
  forallb store_by_position store_sites = true /\
  map ss_fn store_sites = ["_compute"; "_bcompute"; "jvec"]%string.
Proof. split; vm_compute; reflexivity. Qed.

Lemma mpshape_srcfreq : is_product srcfreq_shape = true.
Proof. vm_compute. reflexivity. Qed.

(* process_map: whatever max_workers and whether or not tqdm is importable,
   the branch that runs returns the sequential list, for every schedule *)
Lemma process_map_any_config_lemma {T R} (f : T -> R) (max_workers : Z) (tqdm_none : bool) :
  exists b, select_branch process_map_branches max_workers tqdm_none = Some b /\
    forall tasks nw tr p,
      run f nw (submit_all tasks) tr = Some p -> quiescent p = true ->
      collect f (br_collector b) tasks (completed p) = sequential f tasks.
Proof.
  destruct (select_some process_map_branches max_workers tqdm_none) as [b Hb].
  { apply else_holds, mpshape_has_else. }
  exists b. split; [exact Hb|].
  intros tasks nw tr p Hr Hq. apply (collect_ordered_tag f _ nw tr); auto.
  pose proof mpshape_all_ordered as Ho. rewrite forallb_forall in Ho.
  apply Ho. eapply select_in; eassumption.
Qed.

(* ---- file names ---- *)
Lemma append_nil_r s : String.append s EmptyString = s.
Proof. induction s as [|c s IH]; cbn; [reflexivity|now rewrite IH]. Qed.

Lemma append_inj_l a x y : String.append a x = String.append a y -> x = y.
Proof. induction a as [|c a IH]; cbn; [auto|]. intros H. inversion H. auto. Qed.

Lemma length_append a b :
  String.length (String.append a b) = String.length a + String.length b.
Proof. induction a as [|c a IH]; cbn; [reflexivity|now rewrite IH]. Qed.

Lemma append_inj_r c : forall a b, String.append a c = String.append b c -> a = b.
Proof.
  induction a as [|x a IH]; intros b H; destruct b as [|y b]; cbn in H.
  - reflexivity.
  - exfalso. apply (f_equal String.length) in H. cbn in H. rewrite length_append in H. lia.
  - exfalso. apply (f_equal String.length) in H. cbn in H. rewrite length_append in H. lia.
  - inversion H. f_equal. now apply IH.
Qed.

Lemma split_at_us : forall s1 s2 r1 r2,
  has_us s1 = false -> has_us s2 = false ->
  String.append s1 (String "_"%char r1) = String.append s2 (String "_"%char r2) ->
  s1 = s2 /\ r1 = r2.
Proof.
  induction s1 as [|c s1 IH]; intros s2 r1 r2 H1 H2 H; destruct s2 as [|d s2]; cbn in *.
  - inversion H. auto.
  - inversion H; subst d. rewrite Ascii.eqb_refl in H2. discriminate.
  - inversion H; subst c. rewrite Ascii.eqb_refl in H1. discriminate.
  - inversion H; subst d.
    destruct (Ascii.eqb c "_"%char); [discriminate|].
    destruct (IH s2 r1 r2 H1 H2) as [-> ->]; auto.
Qed.

(* decimal numerals: no '_' and injective *)
Lemma dec_no_us n : has_us (dec n) = false.
Proof.
  unfold dec. generalize (Nat.to_uint n). intros d.
  induction d; cbn; auto.
Qed.

Lemma dec_inj n m : dec n = dec m -> n = m.
Proof.
  unfold dec. intros H.
  apply (f_equal NilEmpty.uint_of_string) in H. rewrite !NilEmpty.usu in H.
  inversion H as [H'].
  apply (f_equal Nat.of_uint) in H'. now rewrite !DecimalNat.Unsigned.of_to in H'.
Qed.

Lemma index_of_inj k1 k2 l :
  In k1 l -> In k2 l -> index_of k1 l = index_of k2 l -> k1 = k2.
Proof.
  induction l as [|x l IH]; intros H1 H2 H; [contradiction|]. cbn in H.
  destruct (String.eqb_spec x k1) as [E1|E1], (String.eqb_spec x k2) as [E2|E2];
    try congruence; try discriminate.
  injection H as H. destruct H1 as [?|H1]; [congruence|]. destruct H2 as [?|H2]; [congruence|].
  now apply IH.
Qed.

(* ---- the UNFIXED variant (emg3d before the fix): keys joined with '_' ---- *)
Definition fname_unfixed (what src freq : string) : string :=
  render fname_unfixed_pattern what src freq 0 0.

Lemma fname_unfixed_is what src freq :
  fname_unfixed what src freq
  = String.append what (String.append "_" (String.append src
      (String.append "_" (String.append freq ".h5")))).
Proof. unfold fname_unfixed, fname_unfixed_pattern. cbn [render]. now rewrite append_nil_r. Qed.

Lemma fname_unfixed_injective_lemma what s1 f1 s2 f2 :
  has_us s1 = false -> has_us s2 = false ->
  fname_unfixed what s1 f1 = fname_unfixed what s2 f2 -> s1 = s2 /\ f1 = f2.
Proof.
  intros H1 H2 H. rewrite !fname_unfixed_is in H.
  apply append_inj_l in H. cbn [String.append] in H. inversion H as [H'].
  change (String.append "_" ?x) with (String "_"%char x) in H'.
  destruct (split_at_us _ _ _ _ H1 H2 H') as [-> Hr]. split; [reflexivity|].
  now apply append_inj_r in Hr.
Qed.

Lemma fname_unfixed_collision_lemma :
  exists s1 f1 s2 f2 : string,
    (s1, f1) <> (s2, f2) /\ fname_unfixed "efield" s1 f1 = fname_unfixed "efield" s2 f2.
Proof.
  exists "Tx"%string, "A_f1"%string, "Tx_A"%string, "f1"%string.
  split; [intros H; inversion H|vm_compute; reflexivity].
Qed.

(* ---- the CURRENT source: the extracted pattern is the fixed one ---- *)
Lemma mpshape_fname_fixed : fname_pattern = fname_fixed_pattern.
Proof. vm_compute. reflexivity. Qed.

Definition fname (what : string) (sources freqs : list string) (k : string * string) : string :=
  fname_of fname_pattern what sources freqs k.

Lemma fname_is what sources freqs k :
  fname what sources freqs k
  = String.append what (String.append "_" (String.append (dec (index_of (fst k) sources))
      (String.append "_" (String.append (dec (index_of (snd k) freqs)) ".h5")))).
Proof.
  unfold fname, fname_of. rewrite mpshape_fname_fixed. unfold fname_fixed_pattern.
  cbn [render]. now rewrite append_nil_r.
Qed.

(* injective in (what, source, frequency) for ARBITRARY string keys of the survey *)
Lemma fname_injective_lemma w1 w2 sources freqs k1 k2 :
  has_us w1 = false -> has_us w2 = false ->
  In (fst k1) sources -> In (fst k2) sources -> In (snd k1) freqs -> In (snd k2) freqs ->
  fname w1 sources freqs k1 = fname w2 sources freqs k2 -> w1 = w2 /\ k1 = k2.
Proof.
  intros Hw1 Hw2 Hs1 Hs2 Hf1 Hf2 H. rewrite !fname_is in H.
  cbn [String.append] in H.
  change (String.append "_" ?x) with (String "_"%char x) in H.
  destruct (split_at_us _ _ _ _ Hw1 Hw2 H) as [-> H1]. split; [reflexivity|].
  change (String.append "_" ?x) with (String "_"%char x) in H1.
  destruct (split_at_us _ _ _ _ (dec_no_us _) (dec_no_us _) H1) as [Hi Hr].
  apply append_inj_r in Hr. apply dec_inj in Hi. apply dec_inj in Hr.
  destruct k1 as [s1 f1], k2 as [s2 f2]. cbn in *.
  f_equal; eapply index_of_inj; eassumption.
Qed.

Lemma nodup_map_inj {A B} (g : A -> B) (l : list A) :
  NoDup l -> (forall x y, In x l -> In y l -> g x = g y -> x = y) -> NoDup (map g l).
Proof.
  induction 1 as [|a l Hnotin Hnd IH]; intros Hinj; cbn; constructor.
  - intros Hin. apply in_map_iff in Hin. destruct Hin as [y [Hy Hiny]].
    assert (y = a) by (apply Hinj; [now right|now left|exact Hy]). subst. contradiction.
  - apply IH. intros x y Hx Hy. apply Hinj; now right.
Qed.

(* the hypothesis of file_mode_same holds for every survey *)
Lemma fname_distinct_lemma what sources freqs :
  has_us what = false -> NoDup sources -> NoDup freqs ->
  NoDup (map (fname what sources freqs) (srcfreq sources freqs)).
Proof.
  intros Hw Hs Hf. apply nodup_map_inj; [now apply srcfreq_nodup_lemma|].
  intros [s1 f1] [s2 f2] H1 H2 H.
  apply srcfreq_complete_lemma in H1. apply srcfreq_complete_lemma in H2.
  destruct H1, H2.
  now destruct (fname_injective_lemma what what sources freqs (s1, f1) (s2, f2)) as [_ ?].
Qed.

(* ---- the on-demand path (get_efield / get_hfield / recomputation) ---- *)
Lemma mpshape_ondemand : ondemand_keys_ok = true.
Proof. vm_compute. reflexivity. Qed.

(* History: a hand-over name built from the RUNNING NUMBER of the task in the list
   being dispatched (unique within one full compute) is the same for every
   on-demand task, because each is dispatched in a one-element list. *)
Definition fname_by_task_number (what : string) (dispatched : list (string * string))
           (k : string * string) : string :=
  String.append what (String.append "_"
    (String.append (dec (index_of (String.append (fst k) (String.append "|" (snd k)))
                                   (map (fun q => String.append (fst q) (String.append "|" (snd q)))
                                        dispatched))) ".h5")).

Lemma fname_by_task_number_collision :
  exists k1 k2 : string * string,
    k1 <> k2 /\ fname_by_task_number "efield" [k1] k1 = fname_by_task_number "efield" [k2] k2.
Proof.
  exists ("TxED-1", "f-1")%string, ("TxED-2", "f-1")%string.
  split; [intros H; inversion H|vm_compute; reflexivity].
Qed.

(* every collector of the CURRENT source writes the tolerance of ITS OWN kind of run
   into the shared solver options right before it hands its task over *)
Lemma mpshape_tol_writes : forall k, collector_tol_writes k = TWrite k.
Proof. intros []; vm_compute; reflexivity. Qed.

Lemma history_tasks_tolerance_lemma {A} (tf tg : A) (wrap : bool) ops st reg :
  Forall (task_ok tf tg) (run_hist tf tg collector_tol_writes wrap st reg ops).
Proof. apply run_hist_ok. exact mpshape_tol_writes. Qed.
