(* Proofs/Gridding.v -- C16: lemmas about Model/Gridding.v (integers exactly,
   numbers over the reals). *)
From Coq Require Import Reals ZArith Bool List Arith Lra Lia Sorted Psatz.
From V Require Import Base.FieldSig Model.Gridding.
Import ListNotations.

(* ================================================== 1. good_mg_cell_nr (Z) *)
Local Open Scope Z_scope.

Lemma zinsert_in x l y : In y (zinsert x l) <-> y = x \/ In y l.
Proof.
  induction l as [|z t IH]; cbn [zinsert].
  - cbn. intuition.
  - destruct (Z.ltb_spec x z); [cbn; intuition|].
    destruct (Z.eqb_spec x z).
    + subst. cbn. intuition.
    + cbn [In]. rewrite IH. intuition.
Qed.

Lemma zusort_in l y : In y (zusort l) <-> In y l.
Proof.
  induction l as [|a t IH]; cbn [zusort fold_right]; [reflexivity|].
  fold (zusort t). rewrite zinsert_in, IH. cbn. intuition.
Qed.

Lemma zinsert_sorted x l : StronglySorted Z.lt l -> StronglySorted Z.lt (zinsert x l).
Proof.
  induction l as [|z t IH]; intros Hs; cbn [zinsert].
  - constructor; constructor.
  - inversion Hs as [|? ? Hs' Hall]; subst.
    destruct (Z.ltb_spec x z).
    + constructor; [exact Hs|]. constructor; [assumption|].
      rewrite Forall_forall in *. intros w Hw. specialize (Hall w Hw). lia.
    + destruct (Z.eqb_spec x z); [exact Hs|].
      constructor; [apply IH; exact Hs'|].
      rewrite Forall_forall in *. intros w Hw. apply zinsert_in in Hw.
      destruct Hw as [->|Hw]; [lia|apply Hall; exact Hw].
Qed.

Lemma zusort_sorted l : StronglySorted Z.lt (zusort l).
Proof.
  induction l as [|a t IH]; cbn [zusort fold_right]; [constructor|].
  apply zinsert_sorted. exact IH.
Qed.

Lemma zrange_in lo hi n : In n (zrange lo hi) <-> lo <= n < hi.
Proof.
  unfold zrange. rewrite in_map_iff. split.
  - intros [i [<- Hi]]. apply in_seq in Hi. lia.
  - intros H. exists (Z.to_nat (n - lo)). split; [lia|]. apply in_seq. lia.
Qed.

Lemma filter_sorted {A} (R : A -> A -> Prop) (p : A -> bool) l :
  StronglySorted R l -> StronglySorted R (filter p l).
Proof.
  induction l as [|a t IH]; intros Hs; cbn [filter]; [constructor|].
  inversion Hs as [|? ? Hs' Hall]; subst.
  destruct (p a); [|apply IH; exact Hs'].
  constructor; [apply IH; exact Hs'|].
  rewrite Forall_forall in *. intros w Hw. apply filter_In in Hw. apply Hall. tauto.
Qed.

Lemma good_none max_nr pl nd :
  good_mg_cell_nr max_nr pl nd = None <-> 19 < pl \/ nd < 0.
Proof.
  unfold good_mg_cell_nr.
  destruct (Z.ltb_spec 19 pl); [intuition|].
  destruct (Z.ltb_spec nd 0); [intuition|].
  split; [discriminate|lia].
Qed.

Local Opaque lowest_all.
Lemma good_spec max_nr pl nd l x :
  good_mg_cell_nr max_nr pl nd = Some l ->
  (In x l <-> exists p n, In p lowest_all /\ p <= pl /\ nd <= n < 30
                          /\ x = p * 2 ^ n /\ x <= max_nr).
Proof.
  unfold good_mg_cell_nr.
  destruct (Z.ltb_spec 19 pl); [discriminate|].
  destruct (Z.ltb_spec nd 0); [discriminate|].
  intros E. injection E as <-.
  rewrite filter_In, zusort_in, in_flat_map. split.
  - intros [[p [Hp Hx]] Hle]. apply filter_In in Hp. destruct Hp as [Hp Hpl].
    apply in_map_iff in Hx. destruct Hx as [n [<- Hn]]. apply zrange_in in Hn.
    exists p, n. repeat split; try lia; try assumption.
  - intros [p [n [Hp [Hpl [Hn [-> Hle]]]]]]. split; [|lia].
    exists p. split; [apply filter_In; split; [assumption|lia]|].
    apply in_map_iff. exists n. split; [reflexivity|apply zrange_in; lia].
Qed.

Lemma good_sorted max_nr pl nd l :
  good_mg_cell_nr max_nr pl nd = Some l -> StronglySorted Z.lt l.
Proof.
  unfold good_mg_cell_nr.
  destruct (19 <? pl); [discriminate|]. destruct (nd <? 0); [discriminate|].
  intros E. injection E as <-. apply filter_sorted, zusort_sorted.
Qed.

Local Transparent lowest_all.
Lemma lowest_ge2 p : In p lowest_all -> 2 <= p.
Proof. unfold lowest_all. cbn. intuition lia. Qed.

(* the cap n < 30 of the code is invisible as long as max_nr < 2^31 *)
Lemma good_spec_unbounded max_nr pl nd l x :
  max_nr < 2 ^ 31 ->
  good_mg_cell_nr max_nr pl nd = Some l ->
  (In x l <-> exists p n, In p lowest_all /\ p <= pl /\ nd <= n
                          /\ x = p * 2 ^ n /\ x <= max_nr).
Proof.
  intros HM E. rewrite (good_spec _ _ _ _ x E). split.
  - intros [p [n [Hp [Hpl [Hn [Hx Hle]]]]]]. exists p, n. repeat split; try lia; assumption.
  - intros [p [n [Hp [Hpl [Hn [Hx Hle]]]]]]. exists p, n. repeat split; try lia; try assumption.
    destruct (Z_lt_ge_dec n 30) as [|Hge]; [assumption|exfalso].
    pose proof (lowest_ge2 p Hp) as H2.
    assert (2 ^ 30 <= 2 ^ n) by (apply Z.pow_le_mono_r; lia).
    assert (2 ^ 31 = 2 * 2 ^ 30) by reflexivity.
    nia.
Qed.

Lemma Zhalves r : r / 2 + (r + 1) / 2 = r.
Proof.
  destruct (Z.Even_or_Odd r) as [[k ->]|[k ->]].
  - replace (2 * k / 2) with k by (apply Z.div_unique with 0; lia).
    replace ((2 * k + 1) / 2) with k by (apply Z.div_unique with 1; lia). lia.
  - replace ((2 * k + 1) / 2) with k by (apply Z.div_unique with 1; lia).
    replace ((2 * k + 1 + 1) / 2) with (k + 1) by (apply Z.div_unique with 0; lia). lia.
Qed.

(* ============================================================ 2. first_some *)
Lemma first_some_some {A B} (f : A -> option B) l b :
  first_some f l = Some b -> exists a, In a l /\ f a = Some b.
Proof.
  induction l as [|a t IH]; cbn [first_some]; [discriminate|].
  destruct (f a) eqn:E.
  - intros H. injection H as <-. exists a. split; [now left|assumption].
  - intros H. destruct (IH H) as [a' [Hin Hf]]. exists a'. split; [now right|assumption].
Qed.

Lemma first_some_none {A B} (f : A -> option B) l :
  first_some f l = None <-> forall a, In a l -> f a = None.
Proof.
  induction l as [|a t IH]; cbn [first_some].
  - split; [intros _ a []|reflexivity].
  - destruct (f a) eqn:E.
    + split; [discriminate|]. intros H. rewrite (H a (or_introl eq_refl)) in E. discriminate.
    + rewrite IH. split.
      * intros H a' [<-|Hin]; [assumption|apply H; assumption].
      * intros H a' Hin. apply H. now right.
Qed.

(* =============================================================== 3. the reals *)
Local Open Scope R_scope.

#[global] Instance GROps : FOps R := {
  F0 := 0%R; F1 := 1%R; Fadd := Rplus; Fmul := Rmult; Fsub := Rminus;
  Fopp := Ropp; Fdiv := Rdiv; Finv := Rinv }.
Definition gleb (x y : R) : bool := if Rle_dec x y then true else false.

Lemma gleb_true x y : gleb x y = true <-> x <= y.
Proof. unfold gleb. destruct (Rle_dec x y); split; intros; auto; discriminate. Qed.
Lemma gleb_false x y : gleb x y = false <-> y < x.
Proof. unfold gleb. destruct (Rle_dec x y); split; intros; try discriminate; try lra; auto. Qed.
Lemma gltb_true x y : ltb gleb x y = true <-> x < y.
Proof. unfold ltb. rewrite negb_true_iff. apply gleb_false. Qed.

Lemma Fpos_IZR p : @Fpos R GROps p = IZR (Z.pos p).
Proof.
  induction p as [p IH|p IH|]; cbn [Fpos].
  - rewrite IH, Pos2Z.inj_xI, plus_IZR, mult_IZR. cbn. lra.
  - rewrite IH, Pos2Z.inj_xO, mult_IZR. cbn. lra.
  - reflexivity.
Qed.
Lemma FofZ_IZR z : @FofZ R GROps z = IZR z.
Proof.
  destruct z as [|p|p]; cbn [FofZ]; [reflexivity|apply Fpos_IZR|].
  rewrite Fpos_IZR. cbn [Fopp GROps]. rewrite <- opp_IZR. reflexivity.
Qed.

Definition posR (x : R) : Prop := 0 < x.

Lemma lsum_cons a l : lsum (a :: l) = a + lsum l.
Proof. reflexivity. Qed.
Lemma lsum_nil : lsum (@nil R) = 0.
Proof. reflexivity. Qed.
Lemma lsum_app l1 l2 : lsum (l1 ++ l2) = lsum l1 + lsum l2.
Proof.
  induction l1 as [|a t IH].
  - rewrite app_nil_l, lsum_nil. lra.
  - rewrite <- app_comm_cons, !lsum_cons, IH. lra.
Qed.
Lemma lsum_rev l : lsum (rev l) = lsum l.
Proof.
  induction l as [|a t IH]; [reflexivity|].
  cbn [rev]. rewrite lsum_app, IH, !lsum_cons, lsum_nil. lra.
Qed.
Lemma lsum_nonneg l : Forall posR l -> 0 <= lsum l.
Proof.
  induction 1 as [|a t Ha _ IH]; [rewrite lsum_nil; lra|].
  rewrite lsum_cons. unfold posR in Ha. lra.
Qed.
Lemma Forall_firstn {A} (P : A -> Prop) n l : Forall P l -> Forall P (firstn n l).
Proof.
  intros H. rewrite Forall_forall in *. intros x Hx. apply H.
  rewrite <- (firstn_skipn n l). apply in_or_app. now left.
Qed.
Lemma Forall_skipn {A} (P : A -> Prop) n l : Forall P l -> Forall P (skipn n l).
Proof.
  intros H. rewrite Forall_forall in *. intros x Hx. apply H.
  rewrite <- (firstn_skipn n l). apply in_or_app. now right.
Qed.
Lemma lsum_firstn_mono l n m :
  Forall posR l -> (n <= m)%nat -> lsum (firstn n l) <= lsum (firstn m l).
Proof.
  revert n m. induction l as [|a t IH]; intros n m Hp Hnm.
  - rewrite !firstn_nil. lra.
  - inversion Hp as [|? ? Ha Ht]; subst. unfold posR in Ha.
    destruct n as [|n]; destruct m as [|m]; try lia.
    + cbn [firstn]. rewrite lsum_nil. lra.
    + cbn [firstn]. rewrite lsum_nil, lsum_cons.
      pose proof (lsum_nonneg (firstn m t) (Forall_firstn _ _ _ Ht)). lra.
    + cbn [firstn]. rewrite !lsum_cons.
      assert (lsum (firstn n t) <= lsum (firstn m t)) by (apply IH; [assumption|lia]). lra.
Qed.

Lemma pows_from_pos cur a n : 0 < cur -> 0 < a -> Forall posR (pows_from cur a n).
Proof.
  revert cur. induction n as [|n IH]; intros cur Hc Ha; cbn [pows_from]; constructor.
  - exact Hc.
  - apply IH; [|exact Ha]. cbn [Fmul GROps]. apply Rmult_lt_0_compat; assumption.
Qed.
Lemma pows_from_length cur a n : length (pows_from cur a n) = n.
Proof. revert cur. induction n as [|n IH]; intros cur; cbn [pows_from length]; [|rewrite IH]; reflexivity. Qed.

Lemma map_scale_pos w l : 0 < w -> Forall posR l -> Forall posR (map (fun s => w * s)%F l).
Proof.
  intros Hw H. induction H as [|a t Ha _ IH]; cbn [map]; constructor; [|exact IH].
  unfold posR in *. cbn [Fmul GROps]. apply Rmult_lt_0_compat; assumption.
Qed.

(* outward chain: every width is the previous one times a *)
Fixpoint geo_chain (a prev : R) (l : list R) : Prop :=
  match l with [] => True | x :: t => x = prev * a /\ geo_chain a x t end.

Lemma geo_chain_pows a w cur prev n :
  prev * a = w * cur ->
  geo_chain a prev (map (fun s => w * s)%F (pows_from cur a n)).
Proof.
  revert cur prev. induction n as [|n IH]; intros cur prev H; cbn [pows_from map geo_chain]; [exact I|].
  split; [cbn [Fmul GROps]; lra|]. apply IH. cbn [Fmul GROps]. ring.
Qed.
Lemma geo_chain_firstn a prev l n : geo_chain a prev l -> geo_chain a prev (firstn n l).
Proof.
  revert prev n. induction l as [|x t IH]; intros prev n H; [rewrite firstn_nil; exact I|].
  destruct n as [|n]; [exact I|]. cbn [firstn geo_chain] in *. destruct H as [H1 H2].
  split; [exact H1|apply IH; exact H2].
Qed.

(* ================================================================ 4. _stretch *)
Lemma last0_in (l : list R) : l <> [] -> In (last0 l) l.
Proof.
  unfold last0. induction l as [|a t IH]; [congruence|intros _].
  destruct t as [|b t']; [now left|]. right. apply IH. discriminate.
Qed.
Lemma hd0_in (l : list R) : l <> [] -> In (hd0 l) l.
Proof. destruct l; [congruence|intros _; now left]. Qed.

Lemma stretch_post edges widths alpha nx dom use_up e' w' rem :
  Forall posR widths -> widths <> [] -> 0 < alpha ->
  stretch gleb edges widths alpha nx dom use_up = Some (e', w', rem) ->
  exists l r,
    w' = rev l ++ widths ++ r /\
    geo_chain alpha (hd0 widths) l /\ geo_chain alpha (last0 widths) r /\
    Forall posR w' /\
    (Z.of_nat (length w') + rem = nx)%Z /\ (0 <= rem)%Z /\ (use_up = true -> rem = 0%Z) /\
    fst e' = fst edges - lsum l /\ snd e' = snd edges + lsum r /\
    fst e' <= fst dom /\ snd dom <= snd e'.
Proof.
  intros Hpos Hne Ha. unfold stretch.
  set (sf := pows alpha (Z.to_nat nx)).
  set (shxl := map (fun s => (hd0 widths * s)%F) sf).
  set (shxr := map (fun s => (last0 widths * s)%F) sf).
  set (nl := if gleb (fst edges) (fst dom) then 0%nat else _).
  set (nr := if gleb (snd dom) (snd edges) then 0%nat else _).
  set (remain := (nx - Z.of_nat (length widths) - Z.of_nat nl - Z.of_nat nr)%Z).
  assert (Hw0 : 0 < hd0 widths).
  { pose proof (hd0_in widths Hne) as H. rewrite Forall_forall in Hpos. apply Hpos, H. }
  assert (Hw1 : 0 < last0 widths).
  { pose proof (last0_in widths Hne) as H. rewrite Forall_forall in Hpos. apply Hpos, H. }
  assert (Hsf : Forall posR sf) by (apply pows_from_pos; assumption).
  assert (Hlp : Forall posR shxl) by (apply map_scale_pos; assumption).
  assert (Hrp : Forall posR shxr) by (apply map_scale_pos; assumption).
  assert (Hll : length shxl = Z.to_nat nx).
  { unfold shxl, sf, pows. rewrite map_length, pows_from_length. reflexivity. }
  assert (Hlr : length shxr = Z.to_nat nx).
  { unfold shxr, sf, pows. rewrite map_length, pows_from_length. reflexivity. }
  assert (Hgl : geo_chain alpha (hd0 widths) shxl).
  { unfold shxl, sf, pows. apply geo_chain_pows. cbn [Fmul GROps]. ring. }
  assert (Hgr : geo_chain alpha (last0 widths) shxr).
  { unfold shxr, sf, pows. apply geo_chain_pows. cbn [Fmul GROps]. ring. }
  destruct (gleb (fst edges - lsum (firstn nl shxl))%F (fst dom)) eqn:E0; cbn [andb]; [|discriminate].
  destruct (gleb (snd dom) (snd edges + lsum (firstn nr shxr))%F) eqn:E1; cbn [andb]; [|discriminate].
  destruct (Z.leb_spec 0 remain) as [Hrem|]; [|discriminate].
  apply gleb_true in E0. apply gleb_true in E1. cbn [Fsub Fadd GROps] in E0, E1.
  set (nl' := if use_up then _ else nl). set (nr' := if use_up then _ else nr).
  intros H. injection H as <- <- <-.
  assert (Hlen0 : (0 < length widths)%nat) by (destruct widths; [congruence|cbn; lia]).
  assert (Hd1 : (0 <= remain / 2)%Z) by (apply Z.div_pos; lia).
  assert (Hd2 : (0 <= (remain + 1) / 2)%Z) by (apply Z.div_pos; lia).
  pose proof (Zhalves remain) as Hsplit.
  assert (Hnl : (nl <= nl')%nat) by (unfold nl'; destruct use_up; lia).
  assert (Hnr : (nr <= nr')%nat) by (unfold nr'; destruct use_up; lia).
  assert (Hsum : (Z.of_nat nl' + Z.of_nat nr' + (if use_up then 0 else remain)
                  = Z.of_nat nl + Z.of_nat nr + remain)%Z).
  { unfold nl', nr'. destruct use_up; lia. }
  assert (Hnx : (0 <= nx)%Z) by lia.
  assert (Hb1 : (nl' <= Z.to_nat nx)%nat) by (unfold nl' in *; destruct use_up; lia).
  assert (Hb2 : (nr' <= Z.to_nat nx)%nat) by (unfold nr' in *; destruct use_up; lia).
  exists (firstn nl' shxl), (firstn nr' shxr).
  split; [reflexivity|].
  split; [apply geo_chain_firstn; exact Hgl|].
  split; [apply geo_chain_firstn; exact Hgr|].
  split.
  { apply Forall_app. split; [|apply Forall_app; split].
    - apply Forall_rev, Forall_firstn, Hlp.
    - exact Hpos.
    - apply Forall_firstn, Hrp. }
  split.
  { rewrite !app_length, rev_length, !firstn_length, Hll, Hlr.
    rewrite !Nat.min_l by assumption. lia. }
  split; [destruct use_up; lia|].
  split; [intros ->; reflexivity|].
  cbn [fst snd Fsub Fadd GROps].
  split; [reflexivity|]. split; [reflexivity|].
  pose proof (lsum_firstn_mono shxl nl nl' Hlp Hnl).
  pose proof (lsum_firstn_mono shxr nr nr' Hrp Hnr).
  split; lra.
Qed.

(* the extent equals the sum of the widths when that held for the centre part *)
Lemma stretch_extent edges widths alpha nx dom use_up e' w' rem :
  Forall posR widths -> widths <> [] -> 0 < alpha ->
  stretch gleb edges widths alpha nx dom use_up = Some (e', w', rem) ->
  snd edges - fst edges = lsum widths -> snd e' - fst e' = lsum w'.
Proof.
  intros Hp Hne Ha H Hext.
  destruct (stretch_post _ _ _ _ _ _ _ _ _ Hp Hne Ha H)
    as [l [r [-> [_ [_ [_ [_ [_ [_ [E0 [E1 _]]]]]]]]]]].
  rewrite !lsum_app, lsum_rev, E0, E1. lra.
Qed.

Lemma stretch_nonempty edges widths alpha nx dom use_up e' w' rem :
  widths <> [] ->
  stretch gleb edges widths alpha nx dom use_up = Some (e', w', rem) -> w' <> [].
Proof.
  intros Hne. unfold stretch.
  match goal with |- context [if ?c then _ else None] => destruct c end; [|discriminate].
  intros H. injection H as _ <- _. intros E. apply app_eq_nil in E. destruct E as [_ E].
  apply app_eq_nil in E. destruct E as [E _]. contradiction.
Qed.

(* ================================================================ 5. linspace *)
Lemma linspace_bounds a b n x :
  In x (linspace a b n) -> Rmin a b <= x <= Rmax a b.
Proof.
  unfold linspace.
  destruct (Z.leb_spec n 1) as [H1|H1].
  - destruct (Z.leb_spec n 0); [intros []|]. intros [<-|[]].
    unfold Rmin, Rmax. destruct (Rle_dec a b); lra.
  - intros H. apply in_map_iff in H. destruct H as [i [<- Hi]]. apply in_seq in Hi.
    rewrite !FofZ_IZR. cbn [Fadd Fmul Fsub Fdiv GROps].
    assert (Hd : 0 < IZR (n - 1)) by (apply IZR_lt; lia).
    assert (Hi0 : 0 <= IZR (Z.of_nat i)) by (apply IZR_le; lia).
    assert (Hi1 : IZR (Z.of_nat i) <= IZR (n - 1)) by (apply IZR_le; lia).
    set (d := IZR (n - 1)) in *. set (k := IZR (Z.of_nat i)) in *.
    set (u := k / d).
    assert (Hu0 : 0 <= u) by (unfold u; apply Rmult_le_pos; [lra|left; apply Rinv_0_lt_compat; lra]).
    assert (Hu1 : u <= 1).
    { unfold u. apply Rmult_le_reg_r with d; [lra|]. unfold Rdiv.
      rewrite Rmult_assoc, Rinv_l by lra. lra. }
    replace (a + k * ((b - a) / d)) with (a + u * (b - a)) by (unfold u; field; lra).
    unfold Rmin, Rmax. destruct (Rle_dec a b); nra.
Qed.

Lemma linspace_pos a b n x : 0 < a -> 0 < b -> In x (linspace a b n) -> 0 < x.
Proof.
  intros Ha Hb H. apply linspace_bounds in H. revert H. unfold Rmin.
  destruct (Rle_dec a b); lra.
Qed.

(* ================================================================== 6. search *)
Definition center_ok (ce : R * R) (cw : list R) : Prop :=
  Forall posR cw /\ cw <> [] /\ snd ce - fst ce = lsum cw.

Section Search.
  Variable floorZ : R -> Z.

  Lemma search_sound cedges cw s0 s1 cells dom cdom x0 hx nx sa ca n :
    search gleb floorZ cedges cw s0 s1 cells dom cdom = Some (x0, hx, nx, sa, ca, n) ->
    In nx cells /\ In sa (linspace 1 s0 (nsteps floorZ 1 s0)) /\
    exists sde sdw srem,
      stretch gleb cedges cw sa nx dom false = Some (sde, sdw, srem) /\
      In ca (linspace sa s1 (nsteps floorZ sa s1)) /\ n = length sdw /\
      exists cde crem,
        stretch gleb sde sdw ca nx cdom true = Some (cde, hx, crem) /\ x0 = fst cde.
  Proof.
    unfold search. intros H.
    apply first_some_some in H. destruct H as [nx' [Hnx H]].
    apply first_some_some in H. destruct H as [sa' [Hsa H]].
    destruct (stretch gleb cedges cw sa' nx' dom false) as [[[sde sdw] srem]|] eqn:E1; [|discriminate].
    apply first_some_some in H. destruct H as [ca' [Hca H]].
    cbn [fst snd] in H.
    destruct (stretch gleb sde sdw ca' nx' cdom true) as [[[cde hx'] crem]|] eqn:E2; [|discriminate].
    cbn [fst snd] in H. injection H as <- <- <- <- <- <-.
    split; [apply zusort_in; exact Hnx|]. split; [exact Hsa|].
    exists sde, sdw, srem. split; [exact E1|]. split; [exact Hca|]. split; [reflexivity|].
    exists cde, crem. split; [exact E2|reflexivity].
  Qed.

  (* no result  <->  no candidate (nx, sa, ca) of the searched lists is admissible *)
  Lemma search_none cedges cw s0 s1 cells dom cdom :
    search gleb floorZ cedges cw s0 s1 cells dom cdom = None <->
    forall nx sa sd ca,
      In nx cells -> In sa (linspace 1 s0 (nsteps floorZ 1 s0)) ->
      stretch gleb cedges cw sa nx dom false = Some sd ->
      In ca (linspace sa s1 (nsteps floorZ sa s1)) ->
      stretch gleb (fst (fst sd)) (snd (fst sd)) ca nx cdom true = None.
  Proof.
    unfold search. rewrite first_some_none. split.
    - intros H nx sa sd ca Hnx Hsa E1 Hca.
      rewrite <- zusort_in in Hnx. specialize (H nx Hnx). rewrite first_some_none in H.
      specialize (H sa Hsa). rewrite E1 in H. rewrite first_some_none in H.
      specialize (H ca Hca). destruct (stretch gleb (fst (fst sd)) (snd (fst sd)) ca nx cdom true);
        [discriminate|reflexivity].
    - intros H nx Hnx. rewrite zusort_in in Hnx. rewrite first_some_none. intros sa Hsa.
      destruct (stretch gleb cedges cw sa nx dom false) as [sd|] eqn:E1; [|reflexivity].
      rewrite first_some_none. intros ca Hca. rewrite (H nx sa sd ca Hnx Hsa E1 Hca). reflexivity.
  Qed.

  (* what a returned candidate guarantees *)
  Lemma search_post ce cw s0 s1 cells dom cdom x0 hx nx sa ca n :
    center_ok ce cw -> 0 < s0 -> 0 < s1 ->
    search gleb floorZ ce cw s0 s1 cells dom cdom = Some (x0, hx, nx, sa, ca, n) ->
    In (Z.of_nat (length hx)) cells /\ Z.of_nat (length hx) = nx /\
    Forall posR hx /\
    x0 <= fst dom /\ snd dom <= x0 + lsum hx /\
    x0 <= fst cdom /\ snd cdom <= x0 + lsum hx /\
    Rmin 1 s0 <= sa <= Rmax 1 s0 /\ Rmin sa s1 <= ca <= Rmax sa s1 /\
    exists l1 r1 l2 r2,
      hx = rev l2 ++ (rev l1 ++ cw ++ r1) ++ r2 /\
      geo_chain sa (hd0 cw) l1 /\ geo_chain sa (last0 cw) r1 /\
      geo_chain ca (hd0 (rev l1 ++ cw ++ r1)) l2 /\
      geo_chain ca (last0 (rev l1 ++ cw ++ r1)) r2 /\
      n = length (rev l1 ++ cw ++ r1) /\
      x0 + lsum (rev l2 ++ rev l1) = fst ce.
  Proof.
    intros [Hp [Hne Hext]] Hs0 Hs1 H.
    apply search_sound in H.
    destruct H as [Hnx [Hsa [sde [sdw [srem [E1 [Hca [Hn [cde [crem [E2 Hx0]]]]]]]]]]].
    assert (Hsa0 : 0 < sa) by (eapply linspace_pos; [| |exact Hsa]; lra).
    assert (Hca0 : 0 < ca) by (eapply linspace_pos; [| |exact Hca]; lra).
    pose proof (stretch_extent _ _ _ _ _ _ _ _ _ Hp Hne Hsa0 E1 Hext) as Hext1.
    pose proof (stretch_nonempty _ _ _ _ _ _ _ _ _ Hne E1) as Hne1.
    destruct (stretch_post _ _ _ _ _ _ _ _ _ Hp Hne Hsa0 E1)
      as [l1 [r1 [Ew1 [G1l [G1r [Hp1 [_ [_ [_ [A0 [A1 [A2 A3]]]]]]]]]]]].
    pose proof (stretch_extent _ _ _ _ _ _ _ _ _ Hp1 Hne1 Hca0 E2 Hext1) as Hext2.
    destruct (stretch_post _ _ _ _ _ _ _ _ _ Hp1 Hne1 Hca0 E2)
      as [l2 [r2 [Ew2 [G2l [G2r [Hp2 [Hlen [_ [Hrem [B0 [B1 [B2 B3]]]]]]]]]]]].
    specialize (Hrem eq_refl). subst crem.
    assert (Hl2 : 0 <= lsum l2).
    { apply lsum_nonneg. rewrite Ew2 in Hp2. apply Forall_app in Hp2. destruct Hp2 as [Hp2 _].
      rewrite Forall_forall in *. intros y Hy. apply Hp2. apply in_rev in Hy. exact Hy. }
    assert (Hr2 : 0 <= lsum r2).
    { apply lsum_nonneg. rewrite Ew2 in Hp2. apply Forall_app in Hp2. destruct Hp2 as [_ Hp2].
      apply Forall_app in Hp2. tauto. }
    assert (Hlenx : Z.of_nat (length hx) = nx) by lia.
    split; [rewrite Hlenx; exact Hnx|]. split; [exact Hlenx|]. split; [exact Hp2|].
    subst x0.
    assert (Hend : fst cde + lsum hx = snd cde) by lra.
    rewrite Hend.
    split; [lra|]. split; [lra|]. split; [lra|]. split; [lra|].
    split; [apply linspace_bounds in Hsa; exact Hsa|].
    split; [apply linspace_bounds in Hca; exact Hca|].
    exists l1, r1, l2, r2. subst sdw.
    split; [exact Ew2|]. split; [exact G1l|]. split; [exact G1r|].
    split; [exact G2l|]. split; [exact G2r|]. split; [exact Hn|].
    rewrite lsum_app, !lsum_rev. lra.
  Qed.
End Search.

(* ======================================================= 7. origin_and_widths *)
Section Oaw.
  Variable floorZ : R -> Z.
  Variable brentq : R -> R -> Z -> R.
  Variable argsort13 : list R -> list nat.
  Variable twopi : R.
  Notation oaw := (origin_and_widths gleb floorZ brentq argsort13 twopi).
  Notation cpart := (center_part gleb floorZ brentq argsort13).

  Definition sea_dom (i : @OawIn R) (dom0 : R * R) : R * R :=
    match i_sea i with Some s => (fst dom0, fmax gleb (snd dom0) s) | None => dom0 end.

  (* unfolding origin_and_widths on its successful path *)
  Lemma oaw_ok_inv i ws x0 hx nx sa ca n :
    oaw i = mkOawOut ws (ROk x0 hx nx sa ca n) ->
    exists dom0,
      domain_of gleb i = Some dom0 /\
      search gleb floorZ (fst (snd (cpart i dom0))) (snd (snd (cpart i dom0)))
             (fst (i_stretching i)) (snd (i_stretching i)) (i_cell_numbers i)
             (sea_dom i dom0) (comp_domain gleb twopi i (sea_dom i dom0))
      = Some (x0, hx, nx, sa, ca, n).
  Proof.
    unfold origin_and_widths. destruct (domain_of gleb i) as [dom0|]; [|discriminate].
    match goal with |- context [if ?c then _ else _] => destruct c end; [discriminate|].
    fold (sea_dom i dom0).
    destruct (search gleb floorZ _ _ _ _ _ _ _) as [r|] eqn:E.
    - intros H. injection H as _ <- <- <- <- <- <-. exists dom0. split; [reflexivity|].
      rewrite E. destruct r as [[[[[a b] c] d] e] f]. reflexivity.
    - destruct (i_raise_error i); discriminate.
  Qed.

  (* no admissible candidate => RuntimeError (raise_error) or None's; and a
     result is only ever produced from an admissible candidate *)
  Lemma oaw_none_means_error i dom0 :
    domain_of gleb i = Some dom0 ->
    match i_sea i with Some s => gleb s (i_center i) | None => false end = false ->
    search gleb floorZ (fst (snd (cpart i dom0))) (snd (snd (cpart i dom0)))
           (fst (i_stretching i)) (snd (i_stretching i)) (i_cell_numbers i)
           (sea_dom i dom0) (comp_domain gleb twopi i (sea_dom i dom0)) = None ->
    o_res (oaw i) = if i_raise_error i then RErrRuntime else RNone.
  Proof.
    intros Hd Hs E. unfold origin_and_widths. rewrite Hd, Hs. fold (sea_dom i dom0).
    rewrite E. reflexivity.
  Qed.

  Lemma oaw_error_means_none i :
    o_res (oaw i) = RErrRuntime \/ o_res (oaw i) = RNone ->
    exists dom0, domain_of gleb i = Some dom0 /\
      search gleb floorZ (fst (snd (cpart i dom0))) (snd (snd (cpart i dom0)))
             (fst (i_stretching i)) (snd (i_stretching i)) (i_cell_numbers i)
             (sea_dom i dom0) (comp_domain gleb twopi i (sea_dom i dom0)) = None.
  Proof.
    unfold origin_and_widths. destruct (domain_of gleb i) as [dom0|];
      [|cbn; intros [H|H]; discriminate].
    match goal with |- context [if ?c then _ else _] => destruct c end;
      [cbn; intros [H|H]; discriminate|].
    fold (sea_dom i dom0).
    destruct (search gleb floorZ _ _ _ _ _ _ _) as [r|] eqn:E.
    - cbn. intros [H|H]; discriminate.
    - intros _. exists dom0. split; [reflexivity|exact E].
  Qed.

  (* the computational domain contains the survey domain +- the buffer *)
  Lemma comp_domain_buffer i dom :
    i_lambda_from_center i = false ->
    comp_domain gleb twopi i dom
    = (fst dom - fmin gleb (i_lambda_factor i * (twopi * sd_at i 1)) (i_max_buffer i),
       snd dom + fmin gleb (i_lambda_factor i * (twopi * sd_at i 2)) (i_max_buffer i)).
  Proof. unfold comp_domain. intros ->. reflexivity. Qed.

  Lemma fmin_spec x y : fmin gleb x y = Rmin x y.
  Proof.
    unfold fmin, Rmin, gleb. destruct (Rle_dec x y); reflexivity.
  Qed.
  Lemma fmax_spec x y : fmax gleb x y = Rmax x y.
  Proof.
    unfold fmax, Rmax, gleb. destruct (Rle_dec x y); reflexivity.
  Qed.
  Lemma fabs_spec x : fabs gleb x = Rabs x.
  Proof.
    unfold fabs, gleb. cbn [F0 Fopp GROps]. destruct (Rle_dec 0 x).
    - symmetry. apply Rabs_right. lra.
    - symmetry. apply Rabs_left. lra.
  Qed.

  (* lambda_from_center: centre-to-boundary distance is
     min(max(|domain - c|, lambda + |domain - c|/2), max_buffer) *)
  Lemma comp_domain_from_center i dom :
    i_lambda_from_center i = true ->
    let c := i_center i in
    let wl0 := i_lambda_factor i * (twopi * sd_at i 1) in
    let wl1 := i_lambda_factor i * (twopi * sd_at i 2) in
    comp_domain gleb twopi i dom
    = (Rmax (fst dom - Rmax 0 ((2 * wl0 - Rabs (fst dom - c)) / 2)) (c - i_max_buffer i),
       Rmin (snd dom + Rmax 0 ((2 * wl1 - Rabs (snd dom - c)) / 2)) (c + i_max_buffer i)).
  Proof.
    unfold comp_domain. intros ->. cbn zeta.
    rewrite !fmax_spec, !fmin_spec, !fabs_spec. unfold half.
    cbn [F0 F1 Fadd Fmul Fsub Fdiv GROps].
    replace (1 + 1) with 2 by lra. reflexivity.
  Qed.

  (* main post-condition, given a well-formed centre part *)
  Lemma oaw_post i ws x0 hx nx sa ca n :
    oaw i = mkOawOut ws (ROk x0 hx nx sa ca n) ->
    0 < fst (i_stretching i) -> 0 < snd (i_stretching i) ->
    exists dom0,
      domain_of gleb i = Some dom0 /\
      let dom := sea_dom i dom0 in
      let cdom := comp_domain gleb twopi i dom in
      let ce := fst (snd (cpart i dom0)) in
      let cw := snd (snd (cpart i dom0)) in
      (center_ok ce cw ->
       In (Z.of_nat (length hx)) (i_cell_numbers i) /\ Z.of_nat (length hx) = nx /\
       Forall posR hx /\
       x0 <= fst dom /\ snd dom <= x0 + lsum hx /\
       x0 <= fst cdom /\ snd cdom <= x0 + lsum hx /\
       Rmin 1 (fst (i_stretching i)) <= sa <= Rmax 1 (fst (i_stretching i)) /\
       Rmin sa (snd (i_stretching i)) <= ca <= Rmax sa (snd (i_stretching i)) /\
       exists l1 r1 l2 r2,
         hx = rev l2 ++ (rev l1 ++ cw ++ r1) ++ r2 /\
         geo_chain sa (hd0 cw) l1 /\ geo_chain sa (last0 cw) r1 /\
         geo_chain ca (hd0 (rev l1 ++ cw ++ r1)) l2 /\
         geo_chain ca (last0 (rev l1 ++ cw ++ r1)) r2 /\
         n = length (rev l1 ++ cw ++ r1) /\
         x0 + lsum (rev l2 ++ rev l1) = fst ce).
  Proof.
    intros H Hs0 Hs1. apply oaw_ok_inv in H. destruct H as [dom0 [Hd Hs]].
    exists dom0. split; [exact Hd|]. cbn zeta. intros Hok.
    exact (search_post floorZ _ _ _ _ _ _ _ _ _ _ _ _ _ Hok Hs0 Hs1 Hs).
  Qed.

  (* the survey domain contains the sea surface *)
  Lemma sea_dom_contains i dom0 s :
    i_sea i = Some s -> s <= snd (sea_dom i dom0) /\ fst (sea_dom i dom0) = fst dom0
                        /\ snd dom0 <= snd (sea_dom i dom0).
  Proof.
    unfold sea_dom. intros ->. cbn [fst snd]. rewrite fmax_spec.
    pose proof (Rmax_l (snd dom0) s). pose proof (Rmax_r (snd dom0) s). lra.
  Qed.
End Oaw.

(* ===================================================== 8. the centre part *)
Inductive limits_pos : @Limits R -> Prop :=
| lp_none : limits_pos LimNone
| lp_one v : 0 < v -> limits_pos (LimOne v)
| lp_two lo hi : 0 < hi -> limits_pos (LimTwo lo hi).

Lemma cell_width_pos sd pps lim :
  0 < sd -> 0 < pps -> limits_pos lim -> 0 < cell_width gleb sd pps lim.
Proof.
  intros Hsd Hp Hl. assert (Hq : 0 < sd / pps) by (apply Rdiv_lt_0_compat; assumption).
  destruct Hl as [|v Hv|lo hi Hhi]; cbn [cell_width Fdiv GROps]; [exact Hq|exact Hv|].
  unfold fmin, fmax. cbn [Fdiv GROps].
  destruct (gleb (sd / pps) lo) eqn:E1.
  - apply gleb_true in E1. destruct (gleb lo hi) eqn:E2; [lra|exact Hhi].
  - destruct (gleb (sd / pps) hi); [exact Hq|exact Hhi].
Qed.

Lemma diffs_cons2 (a b : R) t : diffs (a :: b :: t) = (b - a) :: diffs (b :: t).
Proof. reflexivity. Qed.

Lemma diffs_pos v : StronglySorted Rlt v -> Forall posR (diffs v).
Proof.
  induction v as [|a t IH]; intros Hs; [constructor|].
  destruct t as [|b t']; [constructor|].
  inversion Hs as [|? ? Hs' Hall]; subst. rewrite diffs_cons2. constructor.
  - inversion Hall; subst. unfold posR. lra.
  - apply IH. exact Hs'.
Qed.

(* node k of a vector = first node + the first k widths *)
Lemma diffs_telescope v k :
  (k < length v)%nat -> hd0 v + lsum (firstn k (diffs v)) = nth k v 0.
Proof.
  revert k. induction v as [|a t IH]; intros k Hk; [cbn in Hk; lia|].
  destruct k as [|k]; [cbn [firstn nth hd0 hd]; rewrite lsum_nil; lra|].
  destruct t as [|b t']; [cbn in Hk; lia|].
  rewrite diffs_cons2. cbn [firstn]. rewrite lsum_cons.
  change (nth (S k) (a :: b :: t') 0) with (nth k (b :: t') 0).
  assert (Hk' : (k < length (b :: t'))%nat) by (cbn [length] in *; lia).
  specialize (IH k Hk'). cbn [hd0 hd] in *. lra.
Qed.

Lemma diffs_length (v : list R) : length (diffs v) = (length v - 1)%nat.
Proof.
  induction v as [|a t IH]; [reflexivity|].
  destruct t as [|b t']; [reflexivity|]. rewrite diffs_cons2. cbn [length] in *. lia.
Qed.

Lemma last0_cons2 (a b : R) t : last0 (a :: b :: t) = last0 (b :: t).
Proof. reflexivity. Qed.
Lemma last0_nth (v : list R) : last0 v = nth (length v - 1) v 0.
Proof.
  induction v as [|a t IH]; [reflexivity|].
  destruct t as [|b t']; [reflexivity|].
  rewrite last0_cons2, IH.
  replace (length (a :: b :: t') - 1)%nat with (S (length (b :: t') - 1)) by (cbn [length]; lia).
  reflexivity.
Qed.

Lemma diffs_sum v : v <> [] -> last0 v - hd0 v = lsum (diffs v).
Proof.
  intros Hne. assert (Hl : (length v - 1 < length v)%nat) by (destruct v; [congruence|cbn; lia]).
  pose proof (diffs_telescope v (length v - 1) Hl) as H.
  rewrite <- last0_nth in H. rewrite <- diffs_length, firstn_all in H. lra.
Qed.

Lemma center_ok_vector v :
  StronglySorted Rlt v -> (2 <= length v)%nat -> center_ok (hd0 v, last0 v) (diffs v).
Proof.
  intros Hs Hl. split; [apply diffs_pos; exact Hs|]. split.
  - intros E. pose proof (diffs_length v) as H. rewrite E in H. cbn in H. lia.
  - cbn [fst snd]. apply diffs_sum. destruct v; [cbn in Hl; lia|discriminate].
Qed.

Lemma SS_skipn {A} (Rel : A -> A -> Prop) n l :
  StronglySorted Rel l -> StronglySorted Rel (skipn n l).
Proof.
  revert l. induction n as [|n IH]; intros l Hs; [exact Hs|].
  destruct l as [|a t]; [constructor|]. inversion Hs; subst. apply IH. assumption.
Qed.
Lemma SS_firstn {A} (Rel : A -> A -> Prop) n l :
  StronglySorted Rel l -> StronglySorted Rel (firstn n l).
Proof.
  revert n. induction l as [|a t IH]; intros n Hs; [rewrite firstn_nil; constructor|].
  destruct n as [|n]; [constructor|]. inversion Hs; subst. cbn [firstn].
  constructor; [apply IH; assumption|apply Forall_firstn; assumption].
Qed.

(* the cut keeps a contiguous piece of the vector, at least 3 nodes *)
Lemma vector_cut_sublist v dom v' :
  vector_cut gleb v dom = Some v' ->
  (exists a b, v' = firstn b (skipn a v)) /\ (3 <= length v')%nat.
Proof.
  unfold vector_cut. cbv zeta.
  remember (idx_where (fun x => gleb x (fst dom)) v) as vmin eqn:Evmin.
  remember (if (1 <? length vmin)%nat then skipn (last vmin 0%nat) v else v) as v1 eqn:Ev1.
  remember (idx_where (fun x => gleb (snd dom) x) v1) as vmax eqn:Evmax.
  remember (if (1 <? length vmax)%nat then firstn (nth 1 vmax 0%nat) v1 else v1) as v2 eqn:Ev2.
  destruct (Nat.ltb_spec (length v2) 3); [discriminate|].
  intros E. injection E as <-. split; [|assumption].
  assert (H1 : exists a, v1 = skipn a v).
  { rewrite Ev1. destruct (1 <? length vmin)%nat; [eexists; reflexivity|exists 0%nat; reflexivity]. }
  destruct H1 as [a Ha].
  assert (H2 : exists b, v2 = firstn b v1).
  { rewrite Ev2. destruct (1 <? length vmax)%nat; [eexists; reflexivity|].
    exists (length v1). symmetry. apply firstn_all. }
  destruct H2 as [b Hb]. exists a, b. rewrite Hb, Ha. reflexivity.
Qed.

Lemma vector_cut_ok v dom v' :
  StronglySorted Rlt v -> vector_cut gleb v dom = Some v' ->
  center_ok (hd0 v', last0 v') (diffs v') /\ StronglySorted Rlt v'.
Proof.
  intros Hs E. apply vector_cut_sublist in E. destruct E as [[a [b ->]] Hl].
  assert (Hs' : StronglySorted Rlt (firstn b (skipn a v))) by (apply SS_firstn, SS_skipn, Hs).
  split; [apply center_ok_vector; [exact Hs'|lia]|exact Hs'].
Qed.

Section CenterPart.
  Variable floorZ : R -> Z.
  Variable brentq : R -> R -> Z -> R.
  Variable argsort13 : list R -> list nat.
  Notation cpart := (center_part gleb floorZ brentq argsort13).
  Notation dmin_of i := (cell_width gleb (sd_at i 0) (i_pps i) (i_limits i)).

  (* no vector, no sea surface, centre requested at a cell centre *)
  Lemma cpart_cell_centre i dom :
    i_vector i = None -> i_sea i = None -> i_center_on_edge i = Some false ->
    cpart i dom = ([], ((i_center i - dmin_of i / 2, i_center i + dmin_of i / 2), [dmin_of i])).
  Proof.
    intros Hv Hs Hc. unfold center_part. rewrite Hv, Hs, Hc. unfold half.
    cbn [F1 Fadd Fsub Fdiv GROps]. replace (1 + 1) with 2 by lra. reflexivity.
  Qed.

  (* no vector, no sea surface, centre requested at a node (also the default) *)
  Lemma cpart_node i dom :
    i_vector i = None -> i_sea i = None -> i_center_on_edge i <> Some false ->
    cpart i dom = ([], ((i_center i - dmin_of i, i_center i + dmin_of i),
                        [i_center i - (i_center i - dmin_of i); i_center i + dmin_of i - i_center i])).
  Proof.
    intros Hv Hs Hc. unfold center_part. rewrite Hv, Hs.
    destruct (i_center_on_edge i) as [[|]|]; [reflexivity|congruence|reflexivity].
  Qed.

  (* a user vector of which at least 3 nodes survive the cut, no sea surface *)
  Lemma cpart_vector i dom v v' :
    i_vector i = Some v -> vector_cut gleb v dom = Some v' -> i_sea i = None ->
    cpart i dom = ([], ((hd0 v', last0 v'), diffs v')).
  Proof.
    intros Hv Hc Hs. unfold center_part. rewrite Hv, Hc, Hs. reflexivity.
  Qed.

  Lemma center_ok_cell_centre c d : 0 < d -> center_ok (c - d / 2, c + d / 2) [d].
  Proof.
    intros Hd. split; [repeat constructor; exact Hd|]. split; [discriminate|].
    cbn [fst snd]. rewrite lsum_cons, lsum_nil. lra.
  Qed.
  Lemma center_ok_node c d : 0 < d -> center_ok (c - d, c + d) [c - (c - d); c + d - c].
  Proof.
    intros Hd. split; [repeat constructor; unfold posR; lra|]. split; [discriminate|].
    cbn [fst snd]. rewrite !lsum_cons, lsum_nil. lra.
  Qed.

  (* whether the warning is raised is exactly the isclose test on the nodes of
     the centre part *)
  Lemma lmin_in d l : lmin gleb d l = d \/ In (lmin gleb d l) l.
  Proof.
    induction l as [|a t IH]; [now left|]. cbn [lmin]. unfold fmin.
    destruct (gleb a (lmin gleb d t)); [right; now left|].
    destruct IH as [IH|IH]; [now left|right; now right].
  Qed.

  Lemma seasurface_node_or_warning edges widths center sea s0 s1 hv lim e' w' :
    seasurface_adjust gleb floorZ brentq argsort13 edges widths center sea s0 s1 hv lim
      = (e', w', false) ->
    exists v, In v (nodes_of (fst e') w') /\ isclose0 gleb (Rabs (v - sea)) = true.
  Proof.
    unfold seasurface_adjust. set (ew := if (_ && _)%bool then _ else _).
    intros H. pose proof (f_equal fst H) as Hew. pose proof (f_equal snd H) as Hc.
    cbv zeta in Hew, Hc. cbn [fst snd] in Hew, Hc. apply negb_false_iff in Hc.
    rewrite Hew in Hc.
    change (fst (fst (e', w'))) with (fst e') in Hc. change (snd (e', w')) with w' in Hc.
    match type of Hc with isclose0 _ (lmin _ ?d ?l) = true => destruct (lmin_in d l) as [E|E] end.
    - rewrite E in Hc. exists (fst e'). split; [now left|].
      rewrite fabs_spec in Hc. exact Hc.
    - apply in_map_iff in E. destruct E as [v [E Hv]]. exists v. split; [exact Hv|].
      rewrite <- E in Hc. rewrite fabs_spec in Hc. exact Hc.
  Qed.
End CenterPart.

(* ========================================================= 9. construct_mesh *)
Section Routing.
  Context {F : Type} {O : FOps F}.

  Lemma route_props_3 (a b c : F) :
    route_props [a; b; c] = ([a; c; c], [a; c; c], [a; b; c]).
  Proof. reflexivity. Qed.
  Lemma route_props_4 (a b c d : F) :
    route_props [a; b; c; d] = ([a; b; b], [a; b; b], [a; c; d]).
  Proof. reflexivity. Qed.
  Lemma route_props_7 (a b c d e f g : F) :
    route_props [a; b; c; d; e; f; g] = ([a; b; c], [a; d; e], [a; f; g]).
  Proof. reflexivity. Qed.
  Lemma route_props_other (p : list F) :
    length p <> 3%nat -> length p <> 4%nat -> length p <> 7%nat -> route_props p = (p, p, p).
  Proof.
    intros H3 H4 H7. unfold route_props.
    destruct (length p) as [|[|[|[|[|[|[|[|n]]]]]]]]; try reflexivity; congruence.
  Qed.

  (* the three skin depths used in one direction: min width, negative side, positive side *)
  Lemma sd_at_1 (i : @OawIn F) a : i_sds i = [a] -> sd_at i 0 = a /\ sd_at i 1 = a /\ sd_at i 2 = a.
  Proof. unfold sd_at. intros ->. repeat split. Qed.
  Lemma sd_at_2 (i : @OawIn F) a b :
    i_sds i = [a; b] -> sd_at i 0 = a /\ sd_at i 1 = b /\ sd_at i 2 = b.
  Proof. unfold sd_at. intros ->. repeat split. Qed.
  Lemma sd_at_3 (i : @OawIn F) a b c :
    i_sds i = [a; b; c] -> sd_at i 0 = a /\ sd_at i 1 = b /\ sd_at i 2 = c.
  Proof. unfold sd_at. intros ->. repeat split. Qed.

  Lemma route_dv_dict (x y z : @Val F) : route_dv (VDict x y z) = (x, y, z).
  Proof. reflexivity. Qed.
  Lemma route_dv_seq3 (x y z : @Val F) : route_dv (VSeq [x; y; z]) = (x, y, z).
  Proof. reflexivity. Qed.
  Lemma route_dv_arr (l : list F) : route_dv (VArr l) = (VArr l, VArr l, VArr l).
  Proof. reflexivity. Qed.
  Lemma route_dv_pair (a b : @Val F) :
    route_dv (VSeq [a; b]) = (VSeq [a; b], VSeq [a; b], VSeq [a; b]).
  Proof. reflexivity. Qed.
  Lemma route_kw_num (x : F) : route_kw (VNum x) = (VArr [x], VArr [x], VArr [x]).
  Proof. reflexivity. Qed.
  Lemma route_kw_bool b : route_kw (@VBool F b) = (VBool b, VBool b, VBool b).
  Proof. reflexivity. Qed.
  Lemma route_kw_dict (x y z : @Val F) : route_kw (VDict x y z) = (x, y, z).
  Proof. reflexivity. Qed.
  Lemma route_kw_seq3 (x y z : @Val F) : route_kw (VSeq [x; y; z]) = (x, y, z).
  Proof. reflexivity. Qed.
  Lemma route_kw_pair (a b : @Val F) :
    route_kw (VSeq [a; b]) = (VSeq [a; b], VSeq [a; b], VSeq [a; b]).
  Proof. reflexivity. Qed.
End Routing.

Section ConstructMesh.
  Variable floorZ : R -> Z.
  Variable brentq : R -> R -> Z -> R.
  Variable argsort13 : list R -> list nat.
  Variable twopi : R.
  Variable skin : R -> R.
  Notation oaw := (origin_and_widths gleb floorZ brentq argsort13 twopi).
  Notation cmesh := (construct_mesh gleb floorZ brentq argsort13 twopi skin).

  (* a mesh is returned only when all three directions returned a grid, and
     then it consists of exactly those three grids *)
  Lemma construct_mesh_ok c ws org hx hy hz :
    cmesh c = mkCmOut ws (COk org hx hy hz) ->
    exists ix iy iz,
      cm_inputs skin c = (Some ix, Some iy, Some iz) /\
      (exists nx sa ca n, o_res (oaw ix) = ROk (fst (fst org)) hx nx sa ca n) /\
      (exists nx sa ca n, o_res (oaw iy) = ROk (snd (fst org)) hy nx sa ca n) /\
      (exists nx sa ca n, o_res (oaw iz) = ROk (snd org) hz nx sa ca n).
  Proof.
    unfold construct_mesh.
    destruct (cm_inputs skin c) as [[[ix|] [iy|]] [iz|]]; try discriminate.
    destruct (is_value_err (o_res (oaw ix))); [discriminate|].
    destruct (is_value_err (o_res (oaw iy))); [discriminate|].
    destruct (is_value_err (o_res (oaw iz))); [discriminate|].
    destruct (o_res (oaw ix)) eqn:Ex; try discriminate.
    destruct (o_res (oaw iy)) eqn:Ey; try discriminate.
    destruct (o_res (oaw iz)) eqn:Ez; try discriminate.
    intros H. injection H as _ <- <- <- <-. exists ix, iy, iz. split; [reflexivity|].
    cbn [fst snd]. repeat split; do 4 eexists; eassumption.
  Qed.

  (* a direction without a grid makes construct_mesh fail loudly *)
  Lemma construct_mesh_fails_loudly c ix iy iz :
    cm_inputs skin c = (Some ix, Some iy, Some iz) ->
    (forall x0 hx nx sa ca n, o_res (oaw ix) <> ROk x0 hx nx sa ca n) \/
    (forall x0 hx nx sa ca n, o_res (oaw iy) <> ROk x0 hx nx sa ca n) \/
    (forall x0 hx nx sa ca n, o_res (oaw iz) <> ROk x0 hx nx sa ca n) ->
    exists d, cm_res (cmesh c) = CErrRuntime \/ cm_res (cmesh c) = CErrValue d.
  Proof.
    intros Hin H. unfold construct_mesh. rewrite Hin.
    destruct (is_value_err (o_res (oaw ix))); [exists 0%nat; now right|].
    destruct (is_value_err (o_res (oaw iy))); [exists 1%nat; now right|].
    destruct (is_value_err (o_res (oaw iz))); [exists 2%nat; now right|].
    exists 0%nat. left.
    destruct (o_res (oaw ix)) eqn:Ex; try reflexivity.
    destruct (o_res (oaw iy)) eqn:Ey; try reflexivity.
    destruct (o_res (oaw iz)) eqn:Ez; try reflexivity.
    exfalso. destruct H as [H|[H|H]]; eapply H; reflexivity.
  Qed.
End ConstructMesh.
