(* Proofs/CliExtra.v -- C18, round 7 additions.

   (1) A section that holds ONLY unknown options is rejected with the
       TypeError naming that section -- whatever the terminal dictionary, the
       function and the other sections are; in particular the rejection does
       not depend on a documented option of the same section being present.
   (2) The call sequence of the front end does not depend on the NAMES (hence
       the formats .h5 / .npz / .json) of the survey / model / simulation /
       output files: two parse results that differ only in file names issue
       the same API calls up to the file-name arguments. *)
From Coq Require Import String Ascii List ZArith Bool.
From V Require Import Model.CliTypes Gen.CliTable Model.Cli Proofs.Cli Proofs.CliTables.
Import ListNotations.
Local Open Scope string_scope.
Local Open Scope list_scope.

Lemma assoc_In {A} k (l : list (string * A)) v : assoc k l = Some v -> In (k, v) l.
Proof.
  induction l as [|[k' v'] r IH]; simpl; [discriminate|].
  destruct (String.eqb k k') eqn:E.
  - intros H. injection H as <-. apply String.eqb_eq in E. subst k'. left. reflexivity.
  - intros H. right. apply IH. exact H.
Qed.

Section OnlyUnknown.
  Variable tbl : list pentry.
  Variable defs : list pdefault.
  Variable tovs : list toverride.
  Variable rej : list string.
  Variable order : list string.
  Variable fkeys : list string.
  Variable fdefs : list (string * option string).
  Variable abspath : string -> string.

  Notation psec := (parse_section tbl defs tovs rej).
  Notation psecs := (parse_sections tbl defs tovs rej).

  (* the section has at least one key and none of its keys is in the table *)
  Definition only_unknown (sec : string) (kvs : section) : Prop :=
    kvs <> [] /\ forall k v, In (k, v) kvs -> known_key tbl sec k = false.

  Lemma known_key_of_entry sec e :
    In e (sec_entries tbl sec) -> known_key tbl sec (p_key e) = true.
  Proof.
    intros H. unfold known_key. apply existsb_exists. exists e.
    split; [exact H | apply String.eqb_refl].
  Qed.

  (* no entry finds a text: nothing can fail while reading *)
  Lemma read_entries_no_text t fn kvs es :
    (forall e, In e es -> assoc (p_key e) kvs = None) ->
    exists os, read_entries defs tovs t fn kvs es = Ok os.
  Proof.
    induction es as [|e r IH]; intros H; simpl.
    - eexists. reflexivity.
    - assert (He : exists ov, entry_value defs tovs t fn kvs e = Ok ov).
      { unfold entry_value, from_cfg. rewrite (H e (or_introl eq_refl)).
        destruct (override_dest tovs e) as [d|];
          [destruct (term_value t d)|]; eexists; reflexivity. }
      destruct He as [ov Hov]. rewrite Hov.
      destruct IH as [os Hos]. { intros e' He'. apply H. right. exact He'. }
      rewrite Hos. eexists. reflexivity.
  Qed.

  Lemma empty_section_ok c t fn sec :
    cfg_section c sec = [] -> exists os, psec c t fn sec = Ok os.
  Proof.
    intros He. unfold parse_section. rewrite He.
    destruct (read_entries_no_text t fn [] (sec_entries tbl sec)) as [os Hos].
    { intros e _. reflexivity. }
    rewrite Hos. unfold section_unknown. simpl. eexists. reflexivity.
  Qed.

  (* the exact error of the section *)
  Lemma section_only_unknown_g c t fn sec :
    str_mem sec rej = true -> only_unknown sec (cfg_section c sec) ->
    psec c t fn sec = Err (ETypeError sec).
  Proof.
    intros Hrej [Hne Hall]. unfold parse_section.
    destruct (read_entries_no_text t fn (cfg_section c sec) (sec_entries tbl sec)) as [os Hos].
    { intros e He. destruct (assoc (p_key e) (cfg_section c sec)) as [v|] eqn:Ha; [|reflexivity].
      apply assoc_In in Ha. pose proof (Hall _ _ Ha) as Hu.
      rewrite (known_key_of_entry sec e He) in Hu. discriminate Hu. }
    rewrite Hos, Hrej, andb_true_r.
    assert (Hun : section_unknown tbl sec (cfg_section c sec) = true).
    { unfold section_unknown. apply negb_true_iff.
      destruct (cfg_section c sec) as [|[k v] r]; [contradiction Hne; reflexivity|].
      simpl. rewrite (Hall k v (or_introl eq_refl)). reflexivity. }
    rewrite Hun. reflexivity.
  Qed.

  Lemma sections_lone_unknown_g c t fn sec secs :
    str_mem sec rej = true -> only_unknown sec (cfg_section c sec) ->
    (forall s, In s secs -> s <> sec -> cfg_section c s = []) ->
    In sec secs -> psecs c t fn secs = Err (ETypeError sec).
  Proof.
    intros Hrej Hu. induction secs as [|a r IH]; intros Hoth Hin; [destruct Hin|].
    simpl. destruct (string_dec a sec) as [->|Hne].
    - rewrite (section_only_unknown_g c t fn sec Hrej Hu). reflexivity.
    - destruct (empty_section_ok c t fn a (Hoth a (or_introl eq_refl) Hne)) as [osa Ha].
      rewrite Ha. rewrite IH.
      + reflexivity.
      + intros s Hs. apply Hoth. right. exact Hs.
      + destruct Hin as [E|Hin]; [contradiction (Hne E) | exact Hin].
  Qed.

  Lemma lone_unknown_section_rejected_g c t sec fs :
    In sec order -> str_mem sec rej = true ->
    only_unknown sec (cfg_section c sec) ->
    (forall s, In s order -> s <> sec -> cfg_section c s = []) ->
    t_extra t = false ->
    parse_files rej fkeys fdefs abspath c t = Ok fs ->
    parse_with tbl defs tovs rej order fkeys fdefs abspath c t = Err (ETypeError sec).
  Proof.
    intros Hin Hrej Hu Hoth Hx Hf. unfold parse_with. rewrite Hx, Hf.
    rewrite (sections_lone_unknown_g c t (term_function t) sec order Hrej Hu Hoth Hin).
    reflexivity.
  Qed.
End OnlyUnknown.

(* ---- instances for the regenerated tables *)
Lemma section_only_unknown_i c t fn sec :
  In sec section_order ->
  only_unknown parser_table sec (cfg_section c sec) ->
  parse_section parser_table parser_defaults term_overrides rejecting_sections c t fn sec
  = Err (ETypeError sec).
Proof.
  intros Hs Hu. apply section_only_unknown_g; [|exact Hu].
  apply rej_mem. right. exact Hs.
Qed.

Lemma lone_unknown_section_rejected_i ap c t sec fs :
  In sec section_order ->
  only_unknown parser_table sec (cfg_section c sec) ->
  (forall s, In s section_order -> s <> sec -> cfg_section c s = []) ->
  t_extra t = false ->
  parse_files rejecting_sections files_keys files_defaults ap c t = Ok fs ->
  parse ap c t = Err (ETypeError sec).
Proof.
  intros Hs Hu Hoth Hx Hf. unfold parse.
  apply (lone_unknown_section_rejected_g _ _ _ _ _ _ _ _ c t sec fs); try assumption.
  apply rej_mem. right. exact Hs.
Qed.

(* finite: for every section, a lone mistyped option; decided on the regenerated tables *)
Definition term_plain : term :=
  Term 0%Z None false false None true false false None None None None None None None false.

Definition lone_unknown_rejected_b (sec : string) : bool :=
  match parse (fun s => s) [(sec, [("another_c18", "1")])] term_plain with
  | Err (ETypeError s) => String.eqb s sec
  | _ => false
  end.

Lemma lone_unknown_every_section_b :
  forallb lone_unknown_rejected_b ("files" :: section_order) = true.
Proof. vm_compute. reflexivity. Qed.

Lemma lone_unknown_every_section_P : forall sec, In sec ("files" :: section_order) ->
  parse (fun s => s) [(sec, [("another_c18", "1")])] term_plain = Err (ETypeError sec).
Proof.
  intros sec Hin.
  pose proof (proj1 (forallb_forall _ _) lone_unknown_every_section_b sec Hin) as H.
  unfold lone_unknown_rejected_b in H.
  destruct (parse (fun s => s) [(sec, [("another_c18", "1")])] term_plain) as [o|e];
    [discriminate H|].
  destruct e as [s| | |]; try discriminate H.
  apply String.eqb_eq in H. subst s. reflexivity.
Qed.

(* ------------------------------------------------ file names / formats *)
Section FileNames.
  Variable trans : list (string * string * string).
  Variable cmode : string.

  (* a call with its file-name argument erased *)
  Definition strip_file (c : call) : call :=
    match c with
    | CLoadSim _ => CLoadSim ""
    | CLoadModel _ => CLoadModel ""
    | CLoadSurvey _ => CLoadSurvey ""
    | CSaveSim _ => CSaveSim ""
    | CSaveOut _ ks => CSaveOut "" ks
    | x => x
    end.

  (* two parse results that differ at most in the NAMES of their files *)
  Definition same_but_file_names (o1 o2 : output) : Prop :=
    o_function o1 = o_function o2 /\ o_verbosity o1 = o_verbosity o2 /\
    o_dry_run o1 = o_dry_run o2 /\ o_clean o1 = o_clean o2 /\ o_opts o1 = o_opts o2 /\
    forall k, file_of o1 k = None <-> file_of o2 k = None.

  Lemma compute_calls_same o1 o2 :
    same_but_file_names o1 o2 -> compute_calls o1 = compute_calls o2.
  Proof.
    intros (Hf & _ & Hd & _ & Ho & _).
    unfold compute_calls, noise_opts. rewrite Hf, Hd, Ho. reflexivity.
  Qed.

  Lemma save_calls_same o1 o2 :
    same_but_file_names o1 o2 ->
    map strip_file (save_calls o1) = map strip_file (save_calls o2).
  Proof.
    intros (Hf & _ & _ & _ & _ & Hk).
    unfold save_calls. rewrite Hf. pose proof (Hk "save") as [H1 H2].
    destruct (file_of o1 "save") as [f1|], (file_of o2 "save") as [f2|];
      try (discriminate (H1 eq_refl)); try (discriminate (H2 eq_refl)); reflexivity.
  Qed.

  Lemma setup_calls_same o1 o2 sl :
    same_but_file_names o1 o2 ->
    map strip_file (setup_calls trans cmode o1 sl) = map strip_file (setup_calls trans cmode o2 sl).
  Proof.
    intros (_ & Hv & _ & Hc & Ho & Hk).
    unfold setup_calls, wants_layered, gopt, data_opts, sim_opts.
    rewrite Ho, Hc, Hv. pose proof (Hk "load") as [H1 H2].
    destruct (file_of o1 "load") as [f1|], (file_of o2 "load") as [f2|];
      try (discriminate (H1 eq_refl)); try (discriminate (H2 eq_refl)).
    - rewrite !map_app.
      destruct (o_clean o2); [|reflexivity].
      rewrite !map_app. reflexivity.
    - rewrite !map_app. reflexivity.
  Qed.

  Lemma run_format_independent_g o1 o2 ok sl :
    same_but_file_names o1 o2 ->
    map strip_file (run_with trans cmode o1 ok sl) = map strip_file (run_with trans cmode o2 ok sl).
  Proof.
    intros H. unfold run_with. destruct ok; [|reflexivity].
    rewrite !map_app, (setup_calls_same o1 o2 sl H), (compute_calls_same o1 o2 H),
      (save_calls_same o1 o2 H).
    reflexivity.
  Qed.
End FileNames.

Lemma run_format_independent_i o1 o2 ok sl :
  same_but_file_names o1 o2 ->
  map strip_file (run o1 ok sl) = map strip_file (run o2 ok sl).
Proof. intros H. unfold run. apply run_format_independent_g. exact H. Qed.
