(* Proofs/AmatFIT.v -- the generated kernel [amat_x] (Gen/CoreAmat.v, translated
   from emg3d/core.py on every run) equals the finite-integration operator of
   Model/FIT.v, for every grid shape, all widths <> 0, all coefficient arrays and
   all fields, over any field of characteristic <> 2. *)
From Coq Require Import ZArith Lia Bool Field.
From V Require Import Base.Loops Base.Loops3 Base.Arr Base.FieldSig Base.Tactics.
From V Require Import Gen.CoreAmat Model.FIT.
Local Open Scope Z_scope.

Section AmatFIT.
  Context {F : Type} {O : FOps F}.
  Hypothesis Fth : field_theory F0 F1 Fadd Fmul Fsub Fopp Fdiv Finv (@eq F).
  Hypothesis two_nz : (1 + 1)%F <> 0%F.
  Add Field Ff : Fth.

  Variables (ex ey ez eta_x eta_y eta_z zeta : Z -> Z -> Z -> F).
  Variables (hx hy hz : Z -> F).
  Hypothesis hx_nz : forall i, hx i <> 0%F.
  Hypothesis hy_nz : forall i, hy i <> 0%F.
  Hypothesis hz_nz : forall i, hz i <> 0%F.

  Notation Ax := (A_x ex ey ez eta_x zeta hx hy hz).
  Notation Ay := (A_y ex ey ez eta_y zeta hx hy hz).
  Notation Az := (A_z ex ey ez eta_z zeta hx hy hz).

  Lemma four_nz : ((1 + 1) * (1 + 1))%F <> 0%F.
  Proof.
    intros H. apply two_nz.
    assert (E : (1 + 1)%F = (((1 + 1) * (1 + 1)) / (1 + 1))%F)
      by (field; exact two_nz).
    rewrite E, H. field. exact two_nz.
  Qed.

  Ltac side := first [ exact two_nz | exact four_nz | apply hx_nz | apply hy_nz
                     | apply hz_nz ].
  Ltac fld := field; repeat split; side.

  (* One iteration of the innermost loop subtracts exactly (A e) at (ix,iy,iz)
     from the three residual arrays and touches nothing else. *)
  Lemma amat_x_L3_eq lhx nx lhy ny lhz nz iz iy ix rx ry rz :
    0 <= ix -> 0 <= iy -> 0 <= iz ->
    amat_x_L3 ex ey ez eta_x eta_y eta_z zeta hx hy hz lhx nx lhy ny lhz nz
              iz (Z.max 0 (iz-1)) (iz+1) iy (Z.max 0 (iy-1)) (iy+1) ix (rx, ry, rz)
    = (upd3 rx ix iy iz (rx ix iy iz - Ax ix iy iz)%F,
       upd3 ry ix iy iz (ry ix iy iz - Ay ix iy iz)%F,
       upd3 rz ix iy iz (rz ix iy iz - Az ix iy iz)%F).
  Proof.
    intros Hx Hy Hz.
    unfold amat_x_L3. cbv zeta. cbn [fst snd].
    unfold A_x, A_y, A_z, curlT_x, curlT_y, curlT_z, u_x, u_y, u_z,
      Mf_x, Mf_y, Mf_z, Me_x, Me_y, Me_z, curl_x, curl_y, curl_z, pm.
    flit.
    destruct (Z.eqb_spec ix 0) as [->|Nx];
    destruct (Z.eqb_spec iy 0) as [->|Ny];
    destruct (Z.eqb_spec iz 0) as [->|Nz];
    cbn [orb]; zmax_norm; idx_norm;
    (f_equal; [f_equal|]); f_equal; fld.
  Qed.

  (* ---- lifting to the whole loop nest ---- *)
  Definition get3 (s : (Z -> Z -> Z -> F) * (Z -> Z -> Z -> F) * (Z -> Z -> Z -> F))
             (i j k : Z) : F * F * F :=
    (fst (fst s) i j k, snd (fst s) i j k, snd s i j k).
  Definition sub3 (i j k : Z) (v : F * F * F) : F * F * F :=
    ((fst (fst v) - Ax i j k)%F, (snd (fst v) - Ay i j k)%F, (snd v - Az i j k)%F).

  Section Nest.
    Variables (lhx nx lhy ny lhz nz : Z).
    Definition body3 (k j i : Z) s :=
      amat_x_L3 ex ey ez eta_x eta_y eta_z zeta hx hy hz lhx nx lhy ny lhz nz
                k (Z.max 0 (k-1)) (k+1) j (Z.max 0 (j-1)) (j+1) i s.

    Lemma body3_pointwise i j k s : 0 <= i < nx -> 0 <= j < ny -> 0 <= k < nz ->
      forall i' j' k',
        get3 (body3 k j i s) i' j' k' =
        if ((i' =? i) && (j' =? j) && (k' =? k))%bool
        then sub3 i j k (get3 s i j k) else get3 s i' j' k'.
    Proof.
      intros Hi Hj Hk i' j' k'. destruct s as [[rx ry] rz].
      unfold body3. rewrite amat_x_L3_eq by lia.
      unfold get3, sub3, upd3; cbn [fst snd].
      destruct ((i' =? i) && (j' =? j) && (k' =? k))%bool; reflexivity.
    Qed.

    Lemma L2_is_loop_i k j s :
      amat_x_L2 ex ey ez eta_x eta_y eta_z zeta hx hy hz lhx nx lhy ny lhz nz
                k (Z.max 0 (k-1)) (k+1) j s = loop_i body3 nx k j s.
    Proof.
      unfold amat_x_L2, loop_i, body3. cbv zeta.
      destruct s as [[rx ry] rz]; cbn [fst snd].
      match goal with |- (fst (fst ?t), _, _) = _ => destruct t as [[a b] c] end.
      reflexivity.
    Qed.

    Lemma L1_is_loop_j k s :
      amat_x_L1 ex ey ez eta_x eta_y eta_z zeta hx hy hz lhx nx lhy ny lhz nz k s
      = loop_j body3 nx ny k s.
    Proof.
      unfold amat_x_L1, loop_j. cbv zeta.
      destruct s as [[rx ry] rz]; cbn [fst snd].
      rewrite (Zfold_ext _ _ _ (fun j s => loop_i body3 nx k j s))
        by (intros; apply L2_is_loop_i).
      match goal with |- (fst (fst ?t), _, _) = _ => destruct t as [[a b] c] end.
      reflexivity.
    Qed.
  End Nest.

  (* The whole kernel: on the index box visited it subtracts A e, elsewhere it
     leaves the residual arrays untouched -- for all shapes. *)
  Theorem amat_x_eq nx ny nz rx ry rz : 0 <= nx -> 0 <= ny -> 0 <= nz ->
    forall i j k,
      get3 (amat_x nx ny nz rx ry rz ex ey ez eta_x eta_y eta_z zeta hx hy hz) i j k
      = if in_box nx ny nz i j k
        then ((rx i j k - Ax i j k)%F, (ry i j k - Ay i j k)%F, (rz i j k - Az i j k)%F)
        else (rx i j k, ry i j k, rz i j k).
  Proof.
    intros Hx Hy Hz i j k.
    assert (E : amat_x nx ny nz rx ry rz ex ey ez eta_x eta_y eta_z zeta hx hy hz
                = loop_k (body3 nx nx ny ny nz nz) nx ny nz (rx, ry, rz)).
    { unfold amat_x, loop_k. cbv zeta.
      rewrite (Zfold_ext _ _ _ (fun k s => loop_j (body3 nx nx ny ny nz nz) nx ny k s))
        by (intros; apply L1_is_loop_j).
      match goal with |- (fst (fst ?t), _, _) = _ => destruct t as [[a b] c] end.
      reflexivity. }
    rewrite E.
    rewrite (loop_k_spec get3 sub3 (body3 nx nx ny ny nz nz) nx ny nz
               (body3_pointwise nx nx ny ny nz nz)) by assumption.
    unfold get3, sub3; cbn [fst snd]. reflexivity.
  Qed.

  (* On interior edges masks and index clamps vanish: the operator is the plain
     curl^T M_f curl - M_e with the documented 2-cell / 4-cell averages. *)
  Lemma A_x_interior i j k : 1 <= j -> 1 <= k ->
    Ax i j k =
    (curlT_x (u_y ex ez zeta hx hz) (u_z ex ey zeta hx hy) hy hz i j k
     - ((eta_x i (j-1) (k-1) + eta_x i (j-1) k + eta_x i j (k-1) + eta_x i j k)
        / ((1+1)*(1+1))) * ex i j k)%F.
  Proof.
    intros Hj Hk. unfold A_x, Me_x, pm.
    zb_false (j =? 0). zb_false (k =? 0). cbn [orb]. zmax_norm. reflexivity.
  Qed.
  Lemma A_y_interior i j k : 1 <= i -> 1 <= k ->
    Ay i j k =
    (curlT_y (u_x ey ez zeta hy hz) (u_z ex ey zeta hx hy) hx hz i j k
     - ((eta_y (i-1) j (k-1) + eta_y i j (k-1) + eta_y (i-1) j k + eta_y i j k)
        / ((1+1)*(1+1))) * ey i j k)%F.
  Proof.
    intros Hi Hk. unfold A_y, Me_y, pm.
    zb_false (i =? 0). zb_false (k =? 0). cbn [orb]. zmax_norm. reflexivity.
  Qed.
  Lemma A_z_interior i j k : 1 <= i -> 1 <= j ->
    Az i j k =
    (curlT_z (u_x ey ez zeta hy hz) (u_y ex ez zeta hx hz) hx hy i j k
     - ((eta_z (i-1) (j-1) k + eta_z i (j-1) k + eta_z (i-1) j k + eta_z i j k)
        / ((1+1)*(1+1))) * ez i j k)%F.
  Proof.
    intros Hi Hj. unfold A_z, Me_z, pm.
    zb_false (i =? 0). zb_false (j =? 0). cbn [orb]. zmax_norm. reflexivity.
  Qed.

  (* On the lower tangential boundary the curl-curl part is masked; with PEC
     (zero tangential field) nothing at all is subtracted there. *)
  Lemma A_x_boundary i j k : (j = 0 \/ k = 0) -> ex i j k = 0%F -> Ax i j k = 0%F.
  Proof.
    intros H E. unfold A_x. rewrite E.
    replace ((j =? 0) || (k =? 0))%bool with true
      by (symmetry; apply orb_true_iff; rewrite !Z.eqb_eq; exact H).
    ring.
  Qed.
  Lemma A_y_boundary i j k : (i = 0 \/ k = 0) -> ey i j k = 0%F -> Ay i j k = 0%F.
  Proof.
    intros H E. unfold A_y. rewrite E.
    replace ((i =? 0) || (k =? 0))%bool with true
      by (symmetry; apply orb_true_iff; rewrite !Z.eqb_eq; exact H).
    ring.
  Qed.
  Lemma A_z_boundary i j k : (i = 0 \/ j = 0) -> ez i j k = 0%F -> Az i j k = 0%F.
  Proof.
    intros H E. unfold A_z. rewrite E.
    replace ((i =? 0) || (j =? 0))%bool with true
      by (symmetry; apply orb_true_iff; rewrite !Z.eqb_eq; exact H).
    ring.
  Qed.
End AmatFIT.

(* The curl of a discrete gradient vanishes identically, so the curl-curl part
   of the operator annihilates every discrete gradient. *)
Section Gradients.
  Context {F : Type} {O : FOps F}.
  Hypothesis Fth : field_theory F0 F1 Fadd Fmul Fsub Fopp Fdiv Finv (@eq F).
  Add Field Fg : Fth.
  Hypothesis two_nz : (1 + 1)%F <> 0%F.
  Lemma four_nz' : ((1 + 1) * (1 + 1))%F <> 0%F.
  Proof.
    intros H. apply two_nz.
    assert (E : (1 + 1)%F = (((1 + 1) * (1 + 1)) / (1 + 1))%F)
      by (field; exact two_nz).
    rewrite E, H. field. exact two_nz.
  Qed.
  Variable phi : Z -> Z -> Z -> F.
  Variables (hx hy hz : Z -> F).
  Hypothesis hx_nz : forall i, hx i <> 0%F.
  Hypothesis hy_nz : forall i, hy i <> 0%F.
  Hypothesis hz_nz : forall i, hz i <> 0%F.
  Definition grad_x i j k : F := ((phi (i+1) j k - phi i j k) / hx i)%F.
  Definition grad_y i j k : F := ((phi i (j+1) k - phi i j k) / hy j)%F.
  Definition grad_z i j k : F := ((phi i j (k+1) - phi i j k) / hz k)%F.

  Lemma curl_grad_x i j k : curl_x grad_y grad_z hy hz i j k = 0%F.
  Proof. unfold curl_x, grad_y, grad_z. field. auto. Qed.
  Lemma curl_grad_y i j k : curl_y grad_x grad_z hx hz i j k = 0%F.
  Proof. unfold curl_y, grad_x, grad_z. field. auto. Qed.
  Lemma curl_grad_z i j k : curl_z grad_x grad_y hx hy i j k = 0%F.
  Proof. unfold curl_z, grad_x, grad_y. field. auto. Qed.

  (* hence, for any zeta and eta = 0, A(grad phi) = 0 on every edge *)
  Variable zeta : Z -> Z -> Z -> F.
  Definition zero3 : Z -> Z -> Z -> F := fun _ _ _ => 0%F.
  Theorem curlcurl_kills_gradients i j k :
    A_x grad_x grad_y grad_z zero3 zeta hx hy hz i j k = 0%F /\
    A_y grad_x grad_y grad_z zero3 zeta hx hy hz i j k = 0%F /\
    A_z grad_x grad_y grad_z zero3 zeta hx hy hz i j k = 0%F.
  Proof.
    unfold A_x, A_y, A_z, curlT_x, curlT_y, curlT_z, u_x, u_y, u_z.
    rewrite !curl_grad_x, !curl_grad_y, !curl_grad_z.
    unfold Me_x, Me_y, Me_z, zero3.
    repeat split; destruct (_ || _)%bool; field;
      repeat split; first [exact two_nz | exact four_nz' | auto].
  Qed.
End Gradients.
