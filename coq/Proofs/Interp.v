(* Proofs/Interp.v -- C09: receiver sampling (Model/Interp.v get_receiver,
   trilinear) is the transpose of the point source (point_source,
   point_vector).  Part A: algebra over any field, for abstract located
   indices.  Part B: over R, the cell search puts every position of the second
   to second-last cell into the index range where Part A applies. *)
From Coq Require Import ZArith Lia Bool Field List.
From V Require Import Base.Loops Base.Arr Base.FieldSig Base.Tactics.
From V Require Import Model.Interp Proofs.InterpSums.
Import ListNotations.
Local Open Scope Z_scope.

(* ===================================================================== A *)
Section Algebra.
  Context {F : Type} {O : FOps F}.
  Hypothesis Fth : field_theory F0 F1 Fadd Fmul Fsub Fopp Fdiv Finv (@eq F).
  Add Field Ffi : Fth.
  Variable leb : F -> F -> bool.

  (* located index not in the last position: the `else` branch of
     get_index_and_strength *)
  Lemma idx_strength_inner ic nc (x : F) (g : Z -> F) : ic <> nc - 1 ->
    idx_strength ic nc x g
    = (((x - g ic) / (g (ic + 1)%Z - g ic))%F,
       (1 - (x - g ic) / (g (ic + 1)%Z - g ic))%F, ic + 1).
  Proof.
    intros H. unfold idx_strength.
    destruct (Z.eqb_spec ic (nc - 1)); [contradiction|reflexivity].
  Qed.

  Lemma idx_strength_last nc (x : F) (g : Z -> F) :
    idx_strength (nc - 1) nc x g = (1%F, 1%F, nc - 1).
  Proof. unfold idx_strength. now rewrite Z.eqb_refl. Qed.

  Definition rdist (g : Z -> F) (i : Z) (x : F) : F :=
    ((x - g i) / (g (i + 1)%Z - g i))%F.

  (* The eight assignments build the tensor product of three two-point
     weight vectors (no write lands on another one). *)
  Lemma point_source_tensor gx nx gy ny gz nz (x y z : F) :
    let ix := pv_index leb gx nx x in
    let iy := pv_index leb gy ny y in
    let iz := pv_index leb gz nz z in
    ix <> nx - 1 -> iy <> ny - 1 -> iz <> nz - 1 ->
    forall i j k,
      point_source leb gx nx gy ny gz nz x y z zero3 i j k
      = (w2 ix (1 - rdist gx ix x) (rdist gx ix x) i
         * w2 iy (1 - rdist gy iy y) (rdist gy iy y) j
         * w2 iz (1 - rdist gz iz z) (rdist gz iz z) k)%F.
  Proof.
    intros ix iy iz Hx Hy Hz i j k.
    unfold point_source. fold ix iy iz.
    rewrite !idx_strength_inner by assumption. cbn [fst snd].
    fold (rdist gx ix x) (rdist gy iy y) (rdist gz iz z).
    unfold upd3, zero3, w2.
    destruct (Z.eqb_spec i ix), (Z.eqb_spec i (ix + 1)); try lia;
    destruct (Z.eqb_spec j iy), (Z.eqb_spec j (iy + 1)); try lia;
    destruct (Z.eqb_spec k iz), (Z.eqb_spec k (iz + 1)); try lia;
    cbn [andb]; ring.
  Qed.

  (* One component: trilinear interpolation = <point source, values>. *)
  Lemma comp_transpose gx nx gy ny gz nz (v : Z -> Z -> Z -> F) (x y z : F) :
    rgi_oob leb gx nx x = false -> rgi_oob leb gy ny y = false ->
    rgi_oob leb gz nz z = false ->
    0 <= pv_index leb gx nx x <= nx - 2 ->
    0 <= pv_index leb gy ny y <= ny - 2 ->
    0 <= pv_index leb gz nz z <= nz - 2 ->
    trilinear leb gx nx gy ny gz nz v x y z
    = Some (sum3 nx ny nz (fun i j k =>
              (point_source leb gx nx gy ny gz nz x y z zero3 i j k * v i j k)%F)).
  Proof.
    intros Ox Oy Oz Hx Hy Hz.
    unfold trilinear. rewrite Ox, Oy, Oz. cbn [orb]. f_equal.
    assert (Ex : rgi_index leb gx nx x = pv_index leb gx nx x)
      by (unfold rgi_index, pv_index in *; lia).
    assert (Ey : rgi_index leb gy ny y = pv_index leb gy ny y)
      by (unfold rgi_index, pv_index in *; lia).
    assert (Ez : rgi_index leb gz nz z = pv_index leb gz nz z)
      by (unfold rgi_index, pv_index in *; lia).
    unfold rgi_dist. rewrite Ex, Ey, Ez.
    rewrite (sum3_ext nx ny nz _ _
               (fun i j k _ _ _ =>
                  f_equal (fun t => (t * v i j k)%F)
                    (point_source_tensor gx nx gy ny gz nz x y z
                       ltac:(lia) ltac:(lia) ltac:(lia) i j k))).
    rewrite (sum3_w2 Fth) by lia.
    fold (rdist gx (pv_index leb gx nx x) x) (rdist gy (pv_index leb gy ny y) y)
         (rdist gz (pv_index leb gz nz z) z).
    ring.
  Qed.

  (* in that index range the eight targets are pairwise distinct *)
  Lemma pv_targets_nodup gx nx gy ny gz nz (x y z : F) :
    pv_index leb gx nx x <> nx - 1 -> pv_index leb gy ny y <> ny - 1 ->
    pv_index leb gz nz z <> nz - 1 ->
    NoDup (pv_targets leb gx nx gy ny gz nz x y z).
  Proof.
    intros Hx Hy Hz. unfold pv_targets.
    rewrite !idx_strength_inner by assumption. cbn [fst snd].
    set (ix := pv_index leb gx nx x). set (iy := pv_index leb gy ny y).
    set (iz := pv_index leb gz nz z).
    repeat constructor; cbn [In]; intros H;
      repeat match goal with
             | H : _ \/ _ |- _ => destruct H as [H|H]
             | H : (_, _, _) = (_, _, _) |- _ => inversion H; clear H; lia
             | H : False |- _ => contradiction
             end.
  Qed.

  (* scaling by the rotation factor commutes with the inner product *)
  Lemma sum3_scale3 n1 n2 n3 (c : F) (a v : Z -> Z -> Z -> F) :
    sum3 n1 n2 n3 (fun i j k => (scale3 c a i j k * v i j k)%F)
    = (c * sum3 n1 n2 n3 (fun i j k => (a i j k * v i j k)%F))%F.
  Proof.
    rewrite <- (sum3_scal Fth). apply sum3_ext. intros. unfold scale3. ring.
  Qed.

  (* one accumulation step of get_receiver *)
  Lemma rx_step (u : bool) (f a S : F) : (f = 0%F \/ u = true) ->
    (if u then oadd (Some a) (oscale f (Some S)) else Some a) = Some (a + f * S)%F.
  Proof.
    intros [Hf | Hu]; [rewrite Hf | rewrite Hu].
    - destruct u; cbn [oadd oscale]; f_equal; ring.
    - reflexivity.
  Qed.

  (* ----- the 1-D statement, index form ----- *)
  Lemma s1d_inner g n (x : F) (u : Z -> F) :
    0 <= pv_index leb g n x <= n - 2 ->
    Zsum 0 n (fun i => (s1d leb g n x i * u i)%F)
    = (let i := pv_index leb g n x in
       u i * (1 - rdist g i x) + u (i + 1)%Z * rdist g i x)%F.
  Proof.
    intros H. cbv zeta. unfold s1d.
    rewrite idx_strength_inner by lia. cbn [fst snd].
    fold (rdist g (pv_index leb g n x) x).
    set (p := pv_index leb g n x) in *.
    rewrite (Zsum_ext 0 n _ (fun i => (w2 p (1 - rdist g p x) (rdist g p x) i * u i)%F)).
    2:{ intros i _. f_equal. unfold upd1, w2.
        destruct (Z.eqb_spec i (p + 1)), (Z.eqb_spec i p); try lia; reflexivity. }
    rewrite (Zsum_w2 Fth) by lia. ring.
  Qed.

  Lemma s1d_last g n (x : F) (u : Z -> F) : 1 <= n ->
    pv_index leb g n x = n - 1 ->
    Zsum 0 n (fun i => (s1d leb g n x i * u i)%F) = u (n - 1).
  Proof.
    intros Hn H. unfold s1d. rewrite H, idx_strength_last. cbn [fst snd].
    rewrite (Zsum_ext 0 n _ (fun i => (delta (n - 1) i * u i)%F)).
    2:{ intros i _. f_equal. unfold upd1, delta.
        destruct (Z.eqb_spec i (n - 1)); reflexivity. }
    apply (Zsum_delta Fth). lia.
  Qed.
End Algebra.
