(* Proofs/Interp.v -- C09: receiver sampling (Model/Interp.v get_receiver,
   trilinear) is the transpose of the point source (point_source,
   point_vector).  Part A: algebra over any field, for abstract located
   indices.  Part B: over R, the cell search puts every position of the second
   to second-last cell into the index range where Part A applies. *)
From Coq Require Import ZArith Lia Bool Field List.
From V Require Import Base.Loops Base.Arr Base.FieldSig Base.Tactics.
From V Require Import Model.Interp Proofs.InterpSums.
Import ListNotations.
Local Open Scope Z_scope.

(* ===================================================================== A *)
Section Algebra.
  Context {F : Type} {O : FOps F}.
  Hypothesis Fth : field_theory F0 F1 Fadd Fmul Fsub Fopp Fdiv Finv (@eq F).
  Add Field Ffi : Fth.
  Variable leb : F -> F -> bool.

  (* located index not in the last position: the `else` branch of
     get_index_and_strength *)
  Lemma idx_strength_inner ic nc (x : F) (g : Z -> F) : ic <> nc - 1 ->
    idx_strength ic nc x g
    = (((x - g ic) / (g (ic + 1)%Z - g ic))%F,
       (1 - (x - g ic) / (g (ic + 1)%Z - g ic))%F, ic + 1).
  Proof.
    intros H. unfold idx_strength.
    destruct (Z.eqb_spec ic (nc - 1)); [contradiction|reflexivity].
  Qed.

  Lemma idx_strength_last nc (x : F) (g : Z -> F) :
    idx_strength (nc - 1) nc x g = (1%F, 1%F, nc - 1).
  Proof. unfold idx_strength. now rewrite Z.eqb_refl. Qed.

  Definition rdist (g : Z -> F) (i : Z) (x : F) : F :=
    ((x - g i) / (g (i + 1)%Z - g i))%F.

  (* The eight assignments build the tensor product of three two-point
     weight vectors (no write lands on another one). *)
  Lemma point_source_tensor gx nx gy ny gz nz (x y z : F) :
    let ix := pv_index leb gx nx x in
    let iy := pv_index leb gy ny y in
    let iz := pv_index leb gz nz z in
    ix <> nx - 1 -> iy <> ny - 1 -> iz <> nz - 1 ->
    forall i j k,
      point_source leb gx nx gy ny gz nz x y z zero3 i j k
      = (w2 ix (1 - rdist gx ix x) (rdist gx ix x) i
         * w2 iy (1 - rdist gy iy y) (rdist gy iy y) j
         * w2 iz (1 - rdist gz iz z) (rdist gz iz z) k)%F.
  Proof.
    intros ix iy iz Hx Hy Hz i j k.
    unfold point_source. fold ix iy iz.
    rewrite !idx_strength_inner by assumption. cbn [fst snd].
    fold (rdist gx ix x) (rdist gy iy y) (rdist gz iz z).
    unfold upd3, zero3, w2.
    destruct (Z.eqb_spec i ix), (Z.eqb_spec i (ix + 1)); try lia;
    destruct (Z.eqb_spec j iy), (Z.eqb_spec j (iy + 1)); try lia;
    destruct (Z.eqb_spec k iz), (Z.eqb_spec k (iz + 1)); try lia;
    cbn [andb]; ring.
  Qed.

  (* One component: trilinear interpolation = <point source, values>. *)
  Lemma comp_transpose gx nx gy ny gz nz (v : Z -> Z -> Z -> F) (x y z : F) :
    rgi_oob leb gx nx x = false -> rgi_oob leb gy ny y = false ->
    rgi_oob leb gz nz z = false ->
    0 <= pv_index leb gx nx x <= nx - 2 ->
    0 <= pv_index leb gy ny y <= ny - 2 ->
    0 <= pv_index leb gz nz z <= nz - 2 ->
    trilinear leb gx nx gy ny gz nz v x y z
    = Some (sum3 nx ny nz (fun i j k =>
              (point_source leb gx nx gy ny gz nz x y z zero3 i j k * v i j k)%F)).
  Proof.
    intros Ox Oy Oz Hx Hy Hz.
    unfold trilinear. rewrite Ox, Oy, Oz. cbn [orb]. f_equal.
    assert (Ex : rgi_index leb gx nx x = pv_index leb gx nx x)
      by (unfold rgi_index, pv_index in *; lia).
    assert (Ey : rgi_index leb gy ny y = pv_index leb gy ny y)
      by (unfold rgi_index, pv_index in *; lia).
    assert (Ez : rgi_index leb gz nz z = pv_index leb gz nz z)
      by (unfold rgi_index, pv_index in *; lia).
    unfold rgi_dist. rewrite Ex, Ey, Ez.
    rewrite (sum3_ext nx ny nz _ _
               (fun i j k _ _ _ =>
                  f_equal (fun t => (t * v i j k)%F)
                    (point_source_tensor gx nx gy ny gz nz x y z
                       ltac:(lia) ltac:(lia) ltac:(lia) i j k))).
    rewrite (sum3_w2 Fth) by lia.
    fold (rdist gx (pv_index leb gx nx x) x) (rdist gy (pv_index leb gy ny y) y)
         (rdist gz (pv_index leb gz nz z) z).
    ring.
  Qed.

  (* in that index range the eight targets are pairwise distinct *)
  Lemma pv_targets_nodup gx nx gy ny gz nz (x y z : F) :
    pv_index leb gx nx x <> nx - 1 -> pv_index leb gy ny y <> ny - 1 ->
    pv_index leb gz nz z <> nz - 1 ->
    NoDup (pv_targets leb gx nx gy ny gz nz x y z).
  Proof.
    intros Hx Hy Hz. unfold pv_targets.
    rewrite !idx_strength_inner by assumption. cbn [fst snd].
    set (ix := pv_index leb gx nx x). set (iy := pv_index leb gy ny y).
    set (iz := pv_index leb gz nz z).
    repeat constructor; cbn [In]; intros H;
      repeat match goal with
             | H : _ \/ _ |- _ => destruct H as [H|H]
             | H : (_, _, _) = (_, _, _) |- _ => inversion H; clear H; lia
             | H : False |- _ => contradiction
             end.
  Qed.

  (* scaling by the rotation factor commutes with the inner product *)
  Lemma sum3_scale3 n1 n2 n3 (c : F) (a v : Z -> Z -> Z -> F) :
    sum3 n1 n2 n3 (fun i j k => (scale3 c a i j k * v i j k)%F)
    = (c * sum3 n1 n2 n3 (fun i j k => (a i j k * v i j k)%F))%F.
  Proof.
    rewrite <- (sum3_scal Fth). apply sum3_ext. intros. unfold scale3. ring.
  Qed.

  (* one accumulation step of get_receiver *)
  Lemma rx_step (u : bool) (f a S : F) : (f = 0%F \/ u = true) ->
    (if u then oadd (Some a) (oscale f (Some S)) else Some a) = Some (a + f * S)%F.
  Proof.
    intros [Hf | Hu]; [rewrite Hf | rewrite Hu].
    - destruct u; cbn [oadd oscale]; f_equal; ring.
    - reflexivity.
  Qed.

  (* ----- the 1-D statement, index form ----- *)
  Lemma s1d_inner g n (x : F) (u : Z -> F) :
    0 <= pv_index leb g n x <= n - 2 ->
    Zsum 0 n (fun i => (s1d leb g n x i * u i)%F)
    = (let i := pv_index leb g n x in
       u i * (1 - rdist g i x) + u (i + 1)%Z * rdist g i x)%F.
  Proof.
    intros H. cbv zeta. unfold s1d.
    rewrite idx_strength_inner by lia. cbn [fst snd].
    fold (rdist g (pv_index leb g n x) x).
    set (p := pv_index leb g n x) in *.
    rewrite (Zsum_ext 0 n _ (fun i => (w2 p (1 - rdist g p x) (rdist g p x) i * u i)%F)).
    2:{ intros i _. f_equal. unfold upd1, w2.
        destruct (Z.eqb_spec i (p + 1)), (Z.eqb_spec i p); try lia; reflexivity. }
    rewrite (Zsum_w2 Fth) by lia. ring.
  Qed.

  Lemma s1d_last g n (x : F) (u : Z -> F) : 1 <= n ->
    pv_index leb g n x = n - 1 ->
    Zsum 0 n (fun i => (s1d leb g n x i * u i)%F) = u (n - 1).
  Proof.
    intros Hn H. unfold s1d. rewrite H, idx_strength_last. cbn [fst snd].
    rewrite (Zsum_ext 0 n _ (fun i => (delta (n - 1) i * u i)%F)).
    2:{ intros i _. f_equal. unfold upd1, delta.
        destruct (Z.eqb_spec i (n - 1)); reflexivity. }
    apply (Zsum_delta Fth). lia.
  Qed.
End Algebra.

(* ===================================================================== B *)
From Coq Require Import Reals Lra.
(* Reals binds the key F to Rfun_scope; give it back to the field scope *)
Delimit Scope F_scope with F.

#[global] Instance ROps9 : FOps R := {
  F0 := 0%R; F1 := 1%R; Fadd := Rplus; Fmul := Rmult; Fsub := Rminus;
  Fopp := Ropp; Fdiv := Rdiv; Finv := Rinv }.
Definition Rleb (x y : R) : bool := if Rle_dec x y then true else false.

Lemma Rth : field_theory (F0 : R) F1 Fadd Fmul Fsub Fopp Fdiv Finv (@eq R).
Proof. exact RealField.Rfield. Qed.

Ltac runfold := cbv [F0 F1 Fadd Fmul Fsub Fopp Fdiv Finv ROps9] in *.

Lemma Rleb_true x y : Rleb x y = true <-> (x <= y)%R.
Proof. unfold Rleb. destruct (Rle_dec x y); split; auto; discriminate. Qed.
Lemma Rltb_true x y : ltb Rleb x y = true <-> (x < y)%R.
Proof.
  unfold ltb, Rleb. destruct (Rle_dec y x); cbn; split; intros;
    solve [lra | discriminate | reflexivity].
Qed.
Lemma Rltb_false x y : ltb Rleb x y = false <-> (y <= x)%R.
Proof.
  unfold ltb, Rleb. destruct (Rle_dec y x); cbn; split; intros;
    solve [lra | discriminate | reflexivity].
Qed.

Section Order.
  Local Open Scope R_scope.

  (* the linear scan returns the least index in [i0, i0+fuel) with x < g i *)
  Lemma first_gt_from_spec (g : Z -> R) (x : R) fuel : forall i0,
    let r := first_gt_from Rleb g x fuel i0 in
    (i0 <= r <= i0 + Z.of_nat fuel)%Z /\
    (forall j, (i0 <= j < r)%Z -> g j <= x) /\
    ((r < i0 + Z.of_nat fuel)%Z -> x < g r).
  Proof.
    induction fuel as [|f IH]; intros i0; cbn [first_gt_from].
    - split; [lia|]. split; intros; lia.
    - destruct (ltb Rleb x (g i0)) eqn:E.
      + apply Rltb_true in E. split; [lia|]. split; [intros; lia | auto].
      + apply Rltb_false in E. specialize (IH (i0 + 1)%Z). cbv zeta in IH.
        destruct IH as (A & B & C). split; [lia|]. split.
        * intros j Hj. destruct (Z.eq_dec j i0) as [->|N]; [exact E|apply B; lia].
        * intros H. apply C. lia.
  Qed.

  Lemma first_gt_spec (g : Z -> R) n (x : R) : (0 <= n)%Z ->
    let r := first_gt Rleb g n x in
    (0 <= r <= n)%Z /\ (forall j, (0 <= j < r)%Z -> g j <= x) /\ ((r < n)%Z -> x < g r).
  Proof.
    intros Hn. unfold first_gt.
    pose proof (first_gt_from_spec g x (Z.to_nat n) 0%Z) as H. cbv zeta in H.
    rewrite Z2Nat.id in H by lia. exact H.
  Qed.

  (* x between the first and (strictly) the last grid point: the cell index
     of _point_vector and of scipy coincide and lie in [0, n-2]; in bounds *)
  Lemma locate_range (g : Z -> R) n (x : R) : (1 <= n)%Z ->
    g 0%Z <= x -> x < g (n - 1)%Z ->
    rgi_oob Rleb g n x = false /\ (0 <= pv_index Rleb g n x <= n - 2)%Z /\
    g (pv_index Rleb g n x) <= x < g (pv_index Rleb g n x + 1)%Z.
  Proof.
    intros Hn H0 H1.
    destruct (first_gt_spec g n x ltac:(lia)) as (A & B & C).
    set (r := first_gt Rleb g n x) in *.
    assert (R1 : (1 <= r)%Z).
    { destruct (Z_lt_ge_dec r 1) as [L|]; [|lia].
      assert (r = 0)%Z by lia. specialize (C ltac:(lia)). rewrite H in C. lra. }
    assert (R2 : (r <= n - 1)%Z).
    { destruct (Z_le_gt_dec r (n - 1)) as [|L]; [assumption|].
      specialize (B (n - 1)%Z ltac:(lia)). lra. }
    unfold rgi_oob, pv_index. fold r.
    assert (E1 : ltb Rleb x (g 0%Z) = false) by (apply Rltb_false; lra).
    assert (E2 : ltb Rleb (g (n - 1)%Z) x = false) by (apply Rltb_false; lra).
    rewrite E1, E2. cbn [orb]. split; [reflexivity|]. split; [lia|].
    replace (Z.max 0 (r - 1)) with (r - 1)%Z by lia.
    replace (r - 1 + 1)%Z with r by lia.
    split; [apply B; lia | apply C; lia].
  Qed.

  (* ----------------------------------------------------------- grids *)
  Variables (nx ny nz : Z) (ndx ndy ndz : Z -> R).

  Definition strictly_increasing (n : Z) (nd : Z -> R) : Prop :=
    forall i, (0 <= i < n)%Z -> nd i < nd (i + 1)%Z.

  Lemma strictly_increasing_le n nd : strictly_increasing n nd ->
    forall i j, (0 <= i <= j)%Z -> (j <= n)%Z -> nd i <= nd j.
  Proof.
    intros H i j Hij Hj.
    replace j with (i + Z.of_nat (Z.to_nat (j - i)))%Z in * by lia.
    induction (Z.to_nat (j - i)) as [|m IH].
    - rewrite Z.add_0_r. lra.
    - replace (i + Z.of_nat (S m))%Z with (i + Z.of_nat m + 1)%Z in * by lia.
      specialize (IH ltac:(lia) ltac:(lia)).
      specialize (H (i + Z.of_nat m)%Z ltac:(lia)). lra.
  Qed.

  (* second to second-last cell *)
  Definition inner_range (n : Z) (nd : Z -> R) (x : R) : Prop :=
    nd 1%Z <= x <= nd (n - 1)%Z.

  Lemma comp_grid_range el c d n nd x : (2 <= n)%Z -> strictly_increasing n nd ->
    inner_range n nd x ->
    cg el c d nd 0%Z <= x /\ x < cg el c d nd (cn el c d n - 1)%Z /\ (1 <= cn el c d n)%Z.
  Proof.
    intros Hn Hinc [Hlo Hhi].
    pose proof (Hinc 0%Z ltac:(lia)) as I0.
    pose proof (Hinc (n - 1)%Z ltac:(lia)) as I1.
    replace (n - 1 + 1)%Z with n in I1 by lia. replace (0 + 1)%Z with 1%Z in I0 by lia.
    unfold cg, cn. destruct (on_centers el c d).
    - unfold centers. replace (n - 1 + 1)%Z with n by lia.
      replace (0 + 1)%Z with 1%Z by lia. runfold. repeat split; try lra; lia.
    - replace (n + 1 - 1)%Z with n by lia. repeat split; try lra; lia.
  Qed.

  Lemma comp_locate el c d n nd x : (2 <= n)%Z -> strictly_increasing n nd ->
    inner_range n nd x ->
    rgi_oob Rleb (cg el c d nd) (cn el c d n) x = false /\
    (0 <= pv_index Rleb (cg el c d nd) (cn el c d n) x <= cn el c d n - 2)%Z.
  Proof.
    intros Hn Hinc Hx.
    destruct (comp_grid_range el c d n nd x Hn Hinc Hx) as (A & B & C).
    destruct (locate_range _ _ _ C A B) as (P & Q & _). auto.
  Qed.

  Hypothesis Hnx : (2 <= nx)%Z.
  Hypothesis Hny : (2 <= ny)%Z.
  Hypothesis Hnz : (2 <= nz)%Z.
  Hypothesis Ix : strictly_increasing nx ndx.
  Hypothesis Iy : strictly_increasing ny ndy.
  Hypothesis Iz : strictly_increasing nz ndz.

  Lemma mask_false x y z :
    inner_range nx ndx x -> inner_range ny ndy y -> inner_range nz ndz z ->
    outer_mask Rleb nx ny nz ndx ndy ndz x y z = false.
  Proof.
    intros [A1 A2] [B1 B2] [C1 C2]. unfold outer_mask.
    repeat match goal with
    | |- context [ltb Rleb ?a ?b] =>
        let E := fresh in assert (E : ltb Rleb a b = false) by (apply Rltb_false; lra);
        rewrite E; clear E
    end. reflexivity.
  Qed.

  Lemma mask_true_iff x y z :
    outer_mask Rleb nx ny nz ndx ndy ndz x y z = true <->
    ~ (inner_range nx ndx x /\ inner_range ny ndy y /\ inner_range nz ndz z).
  Proof.
    unfold outer_mask, inner_range. rewrite !orb_true_iff, !Rltb_true. lra.
  Qed.

  Lemma outside_false x y z :
    inner_range nx ndx x -> inner_range ny ndy y -> inner_range nz ndz z ->
    pv_outside Rleb nx ny nz ndx ndy ndz x y z = false.
  Proof using Hnx Hny Hnz Ix Iy Iz.
    intros [A1 A2] [B1 B2] [C1 C2]. unfold pv_outside.
    pose proof (Ix 0%Z ltac:(lia)). pose proof (Ix (nx - 1)%Z ltac:(lia)).
    pose proof (Iy 0%Z ltac:(lia)). pose proof (Iy (ny - 1)%Z ltac:(lia)).
    pose proof (Iz 0%Z ltac:(lia)). pose proof (Iz (nz - 1)%Z ltac:(lia)).
    replace (nx - 1 + 1)%Z with nx in * by lia. replace (ny - 1 + 1)%Z with ny in * by lia.
    replace (nz - 1 + 1)%Z with nz in * by lia. replace (0 + 1)%Z with 1%Z in * by lia.
    repeat match goal with
    | |- context [ltb Rleb ?a ?b] =>
        let E := fresh in assert (E : ltb Rleb a b = false) by (apply Rltb_false; lra);
        rewrite E; clear E
    end. reflexivity.
  Qed.

  (* one component of a receiver in the inner range *)
  Lemma comp_interp_transpose el c (v : Z -> Z -> Z -> R) x y z :
    inner_range nx ndx x -> inner_range ny ndy y -> inner_range nz ndz z ->
    comp_interp Rleb nx ny nz ndx ndy ndz el c v x y z
    = Some (sum3 (cn el c 0 nx) (cn el c 1 ny) (cn el c 2 nz)
              (fun i j k => (comp_source Rleb nx ny nz ndx ndy ndz el c x y z i j k * v i j k)%F)).
  Proof using Hnx Hny Hnz Ix Iy Iz.
    intros Rx Ry Rz. unfold comp_interp, comp_source.
    destruct (comp_locate el c 0 nx ndx x Hnx Ix Rx) as [Ox Px].
    destruct (comp_locate el c 1 ny ndy y Hny Iy Ry) as [Oy Py].
    destruct (comp_locate el c 2 nz ndz z Hnz Iz Rz) as [Oz Pz].
    apply (comp_transpose Rth); assumption.
  Qed.

  Variable eps : R.

  (* get_receiver with given component flags *)
  Lemma receiver_u_transpose (u1 u2 u3 el : bool) (fx fy fz : Z -> Z -> Z -> R)
        x y z (f1 f2 f3 : R) :
    inner_range nx ndx x -> inner_range ny ndy y -> inner_range nz ndz z ->
    (f1 = 0 \/ u1 = true) -> (f2 = 0 \/ u2 = true) -> (f3 = 0 \/ u3 = true) ->
    exists vx vy vz,
      point_vector_gen Rleb nx ny nz ndx ndy ndz el x y z f1 f2 f3 = Some (vx, vy, vz) /\
      get_receiver_u Rleb nx ny nz ndx ndy ndz u1 u2 u3 el fx fy fz x y z f1 f2 f3
      = Some (inner3 nx ny nz el vx vy vz fx fy fz).
  Proof using Hnx Hny Hnz Ix Iy Iz.
    intros Rx Ry Rz H1 H2 H3.
    unfold point_vector_gen. rewrite outside_false by assumption.
    do 3 eexists. split; [reflexivity|].
    unfold get_receiver_u. rewrite mask_false by assumption.
    rewrite !comp_interp_transpose by assumption.
    rewrite (rx_step Rth u1 f1) by assumption.
    rewrite (rx_step Rth u2 f2) by assumption.
    rewrite (rx_step Rth u3 f3) by assumption.
    f_equal. unfold inner3. rewrite !(sum3_scale3 Rth). runfold. ring.
  Qed.

  Lemma receiver_transpose (el : bool) (fx fy fz : Z -> Z -> Z -> R) x y z (f1 f2 f3 : R) :
    inner_range nx ndx x -> inner_range ny ndy y -> inner_range nz ndz z ->
    (f1 = 0 \/ used Rleb eps f1 = true) -> (f2 = 0 \/ used Rleb eps f2 = true) ->
    (f3 = 0 \/ used Rleb eps f3 = true) ->
    exists vx vy vz,
      point_vector_gen Rleb nx ny nz ndx ndy ndz el x y z f1 f2 f3 = Some (vx, vy, vz) /\
      get_receiver Rleb nx ny nz ndx ndy ndz eps el fx fy fz x y z f1 f2 f3
      = Some (inner3 nx ny nz el vx vy vz fx fy fz).
  Proof using Hnx Hny Hnz Ix Iy Iz.
    intros. unfold get_receiver. now apply receiver_u_transpose.
  Qed.

  (* complex fields *)
  Lemma receiver_c_transpose (el : bool) (fxr fyr fzr fxi fyi fzi : Z -> Z -> Z -> R)
        x y z (f1 f2 f3 : R) :
    inner_range nx ndx x -> inner_range ny ndy y -> inner_range nz ndz z ->
    (f1 = 0 \/ used Rleb eps f1 = true) -> (f2 = 0 \/ used Rleb eps f2 = true) ->
    (f3 = 0 \/ used Rleb eps f3 = true) ->
    exists vx vy vz,
      point_vector_gen Rleb nx ny nz ndx ndy ndz el x y z f1 f2 f3 = Some (vx, vy, vz) /\
      get_receiver_c Rleb nx ny nz ndx ndy ndz eps el fxr fyr fzr fxi fyi fzi x y z f1 f2 f3
      = Some (inner3 nx ny nz el vx vy vz fxr fyr fzr, inner3 nx ny nz el vx vy vz fxi fyi fzi).
  Proof using Hnx Hny Hnz Ix Iy Iz.
    intros Rx Ry Rz H1 H2 H3.
    destruct (receiver_transpose el fxr fyr fzr x y z f1 f2 f3 Rx Ry Rz H1 H2 H3)
      as (vx & vy & vz & P & Q).
    destruct (receiver_transpose el fxi fyi fzi x y z f1 f2 f3 Rx Ry Rz H1 H2 H3)
      as (vx' & vy' & vz' & P' & Q').
    rewrite P in P'. inversion P'; subst vx' vy' vz'.
    exists vx, vy, vz. split; [exact P|]. unfold get_receiver_c. now rewrite Q, Q'.
  Qed.

  (* several receivers in one call *)
  Lemma receiver_batch_transpose (el : bool) (fx fy fz : Z -> Z -> Z -> R)
        (rs : list ((R * R * R) * (R * R * R))) :
    Forall (fun r => inner_range nx ndx (fst (fst (fst r))) /\
                     inner_range ny ndy (snd (fst (fst r))) /\
                     inner_range nz ndz (snd (fst r)) /\
                     (rx_f1 r = 0 \/ used Rleb eps (rx_f1 r) = true) /\
                     (rx_f2 r = 0 \/ used Rleb eps (rx_f2 r) = true) /\
                     (rx_f3 r = 0 \/ used Rleb eps (rx_f3 r) = true)) rs ->
    Forall2 (fun r o => exists vx vy vz,
               point_vector_gen Rleb nx ny nz ndx ndy ndz el
                 (fst (fst (fst r))) (snd (fst (fst r))) (snd (fst r))
                 (rx_f1 r) (rx_f2 r) (rx_f3 r) = Some (vx, vy, vz) /\
               o = Some (inner3 nx ny nz el vx vy vz fx fy fz))
            rs (get_receiver_batch Rleb nx ny nz ndx ndy ndz eps el fx fy fz rs).
  Proof using Hnx Hny Hnz Ix Iy Iz.
    intros HF. unfold get_receiver_batch.
    set (u1 := existsb _ rs). set (u2 := existsb _ rs). set (u3 := existsb _ rs).
    assert (U : forall r, In r rs ->
                (rx_f1 r = 0 \/ u1 = true) /\ (rx_f2 r = 0 \/ u2 = true) /\
                (rx_f3 r = 0 \/ u3 = true)).
    { intros r Hr. rewrite Forall_forall in HF.
      destruct (HF r Hr) as (_ & _ & _ & [A|A] & [B|B] & [C|C]);
        repeat split; auto; right; apply existsb_exists; exists r; auto. }
    clearbody u1 u2 u3.
    induction rs as [|r rs IH]; cbn [map]; constructor.
    - inversion HF as [|? ? (Rx & Ry & Rz & _) _]; subst.
      destruct (U r (or_introl eq_refl)) as (A & B & C).
      destruct (receiver_u_transpose u1 u2 u3 el fx fy fz _ _ _ _ _ _ Rx Ry Rz A B C)
        as (vx & vy & vz & P & Q).
      exists vx, vy, vz. auto.
    - apply IH; [now inversion HF|]. intros r' Hr'. apply U. now right.
  Qed.

  (* NaN policy *)
  Lemma receiver_nan (u1 u2 u3 el : bool) (fx fy fz : Z -> Z -> Z -> R) x y z (f1 f2 f3 : R) :
    ~ (inner_range nx ndx x /\ inner_range ny ndy y /\ inner_range nz ndz z) ->
    get_receiver_u Rleb nx ny nz ndx ndy ndz u1 u2 u3 el fx fy fz x y z f1 f2 f3 = None.
  Proof.
    intros H. apply mask_true_iff in H. unfold get_receiver_u. now rewrite H.
  Qed.

  (* eight distinct targets per component *)
  Lemma targets_nodup el c x y z :
    inner_range nx ndx x -> inner_range ny ndy y -> inner_range nz ndz z ->
    NoDup (comp_targets Rleb nx ny nz ndx ndy ndz el c x y z).
  Proof using Hnx Hny Hnz Ix Iy Iz.
    intros Rx Ry Rz. unfold comp_targets.
    destruct (comp_locate el c 0 nx ndx x Hnx Ix Rx) as [_ Px].
    destruct (comp_locate el c 1 ny ndy y Hny Iy Ry) as [_ Py].
    destruct (comp_locate el c 2 nz ndz z Hnz Iz Rz) as [_ Pz].
    apply pv_targets_nodup; lia.
  Qed.
End Order.

(* ------------------------------------------------------- 1-D statement *)
Section OneD.
  Local Open Scope R_scope.
  Variables (n : Z) (g : Z -> R).
  Hypothesis Hn : (2 <= n)%Z.
  Hypothesis Inc : strictly_increasing (n - 1) g.     (* g 0 < g 1 < ... < g (n-1) *)

  Lemma lin_interp_weights (u : Z -> R) (x : R) : g 0%Z <= x <= g (n - 1)%Z ->
    lin_interp Rleb g n u x = Some (Zsum 0 n (fun i => (s1d Rleb g n x i * u i)%F)).
  Proof using Hn Inc.
    intros [H0 H1]. unfold lin_interp.
    assert (OB : rgi_oob Rleb g n x = false).
    { unfold rgi_oob.
      assert (E1 : ltb Rleb x (g 0%Z) = false) by (apply Rltb_false; lra).
      assert (E2 : ltb Rleb (g (n - 1)%Z) x = false) by (apply Rltb_false; lra).
      now rewrite E1, E2. }
    rewrite OB. f_equal.
    destruct (Rlt_le_dec x (g (n - 1)%Z)) as [Hlt|Hge].
    - destruct (locate_range g n x ltac:(lia) H0 Hlt) as (_ & P & _).
      rewrite (s1d_inner Rth) by exact P. cbv zeta.
      unfold rgi_dist, rdist.
      replace (rgi_index Rleb g n x) with (pv_index Rleb g n x)
        by (unfold rgi_index, pv_index in *; lia).
      reflexivity.
    - assert (Ex : x = g (n - 1)%Z) by lra.
      destruct (first_gt_spec g n x ltac:(lia)) as (A & B & C).
      set (r := first_gt Rleb g n x) in *.
      assert (Er : r = n).
      { destruct (Z.eq_dec r n) as [|N]; [assumption|].
        specialize (C ltac:(lia)).
        pose proof (strictly_increasing_le (n - 1) g Inc r (n - 1)%Z ltac:(lia) ltac:(lia)). lra. }
      assert (Ep : pv_index Rleb g n x = (n - 1)%Z) by (unfold pv_index; fold r; lia).
      rewrite (s1d_last Rth) by (lia || exact Ep).
      unfold rgi_dist. replace (rgi_index Rleb g n x) with (n - 2)%Z
        by (unfold rgi_index; fold r; lia).
      replace (n - 2 + 1)%Z with (n - 1)%Z by lia.
      pose proof (Inc (n - 2)%Z ltac:(lia)) as I. replace (n - 2 + 1)%Z with (n - 1)%Z in I by lia.
      rewrite Ex. runfold. field. lra.
  Qed.

  Lemma lin_interp_nan (u : Z -> R) (x : R) : x < g 0%Z \/ g (n - 1)%Z < x ->
    lin_interp Rleb g n u x = None.
  Proof.
    intros H. unfold lin_interp, rgi_oob.
    destruct H as [H|H]; apply Rltb_true in H; rewrite H; [reflexivity|].
    now rewrite orb_true_r.
  Qed.
End OneD.

(* ============================================================ reciprocity *)
(* Pure algebra: a symmetric operator, exact solutions for two sources that
   are the same multiple c of two sampling vectors. *)
Section Reciprocity.
  Context {F : Type} {O : FOps F}.
  Hypothesis Fth : field_theory F0 F1 Fadd Fmul Fsub Fopp Fdiv Finv (@eq F).
  Add Field Ffr : Fth.
  Variable V : Type.
  Variable inner : V -> V -> F.
  Variable scale : F -> V -> V.
  Variable A : V -> V.
  Hypothesis inner_sym : forall a b, inner a b = inner b a.
  Hypothesis inner_scale : forall c a b, inner (scale c a) b = (c * inner a b)%F.
  Hypothesis A_sym : forall a b, inner (A a) b = inner a (A b).

  Lemma reciprocity_abstract (c : F) (pa pb ea eb : V) : c <> 0%F ->
    A ea = scale c pa -> A eb = scale c pb -> inner pb ea = inner pa eb.
  Proof using Fth inner_sym inner_scale A_sym.
    intros Hc Ha Hb.
    assert (E : (c * inner pb ea)%F = (c * inner pa eb)%F).
    { rewrite <- !inner_scale, <- Ha, <- Hb.
      rewrite A_sym. apply inner_sym. }
    assert (G : forall p q : F, (c * p)%F = (c * q)%F -> p = q).
    { intros p q H.
      assert (p = (c * p) / c)%F by (field; exact Hc).
      assert (q = (c * q) / c)%F by (field; exact Hc).
      congruence. }
    now apply G.
  Qed.
End Reciprocity.

Section InnerProps.
  Context {F : Type} {O : FOps F}.
  Hypothesis Fth : field_theory F0 F1 Fadd Fmul Fsub Fopp Fdiv Finv (@eq F).
  Add Field Ffp : Fth.
  Definition T3 : Type := ((Z -> Z -> Z -> F) * (Z -> Z -> Z -> F) * (Z -> Z -> Z -> F))%type.
  Definition inner3t (nx ny nz : Z) (el : bool) (a b : T3) : F :=
    inner3 nx ny nz el (fst (fst a)) (snd (fst a)) (snd a) (fst (fst b)) (snd (fst b)) (snd b).
  Definition scale3t (c : F) (a : T3) : T3 :=
    (scale3 c (fst (fst a)), scale3 c (snd (fst a)), scale3 c (snd a)).

  Lemma inner3t_sym nx ny nz el a b : inner3t nx ny nz el a b = inner3t nx ny nz el b a.
  Proof using Fth.
    unfold inner3t, inner3. f_equal; [f_equal|]; apply sum3_ext; intros; ring.
  Qed.

  Lemma inner3t_scale nx ny nz el c a b :
    inner3t nx ny nz el (scale3t c a) b = (c * inner3t nx ny nz el a b)%F.
  Proof using Fth.
    unfold inner3t, inner3, scale3t. cbn [fst snd]. rewrite !(sum3_scale3 Fth). ring.
  Qed.
End InnerProps.

Section ReciprocityR.
  Local Open Scope R_scope.
  Variables (nx ny nz : Z) (ndx ndy ndz : Z -> R) (eps : R).
  Hypothesis Hnx : (2 <= nx)%Z.
  Hypothesis Hny : (2 <= ny)%Z.
  Hypothesis Hnz : (2 <= nz)%Z.
  Hypothesis Ix : strictly_increasing nx ndx.
  Hypothesis Iy : strictly_increasing ny ndy.
  Hypothesis Iz : strictly_increasing nz ndz.
  (* the system operator on edge fields, symmetric for the bilinear edge
     inner product (C02: curl^T M_f curl - M_e with symmetric masses) *)
  Variable A : @T3 R -> @T3 R.
  Hypothesis A_sym : forall a b, inner3t nx ny nz true (A a) b = inner3t nx ny nz true a (A b).

  Lemma reciprocity_receivers (c : R) xa ya za a1 a2 a3 xb yb zb b1 b2 b3 pa pb ea eb :
    c <> 0 ->
    inner_range nx ndx xa -> inner_range ny ndy ya -> inner_range nz ndz za ->
    inner_range nx ndx xb -> inner_range ny ndy yb -> inner_range nz ndz zb ->
    (a1 = 0 \/ used Rleb eps a1 = true) -> (a2 = 0 \/ used Rleb eps a2 = true) ->
    (a3 = 0 \/ used Rleb eps a3 = true) ->
    (b1 = 0 \/ used Rleb eps b1 = true) -> (b2 = 0 \/ used Rleb eps b2 = true) ->
    (b3 = 0 \/ used Rleb eps b3 = true) ->
    point_vector Rleb nx ny nz ndx ndy ndz xa ya za a1 a2 a3 = Some pa ->
    point_vector Rleb nx ny nz ndx ndy ndz xb yb zb b1 b2 b3 = Some pb ->
    A ea = scale3t c pa -> A eb = scale3t c pb ->
    get_receiver Rleb nx ny nz ndx ndy ndz eps true (fst (fst ea)) (snd (fst ea)) (snd ea)
                 xb yb zb b1 b2 b3
    = get_receiver Rleb nx ny nz ndx ndy ndz eps true (fst (fst eb)) (snd (fst eb)) (snd eb)
                   xa ya za a1 a2 a3.
  Proof using Hnx Hny Hnz Ix Iy Iz A_sym.
    intros Hc Ra1 Ra2 Ra3 Rb1 Rb2 Rb3 A1 A2 A3 B1 B2 B3 Pa Pb Sa Sb.
    destruct (receiver_transpose nx ny nz ndx ndy ndz Hnx Hny Hnz Ix Iy Iz eps true
                (fst (fst ea)) (snd (fst ea)) (snd ea) xb yb zb b1 b2 b3
                Rb1 Rb2 Rb3 B1 B2 B3) as (vx & vy & vz & P & Q).
    destruct (receiver_transpose nx ny nz ndx ndy ndz Hnx Hny Hnz Ix Iy Iz eps true
                (fst (fst eb)) (snd (fst eb)) (snd eb) xa ya za a1 a2 a3
                Ra1 Ra2 Ra3 A1 A2 A3) as (wx & wy & wz & P' & Q').
    unfold point_vector in Pa, Pb. rewrite Pb in P. rewrite Pa in P'.
    inversion P; inversion P'; subst pa pb.
    rewrite Q, Q'. f_equal.
    exact (reciprocity_abstract Rth (@T3 R) (inner3t nx ny nz true) scale3t A
             (inner3t_sym Rth nx ny nz true) (inner3t_scale Rth nx ny nz true) A_sym
             c (wx, wy, wz) (vx, vy, vz) ea eb Hc Sa Sb).
  Qed.
End ReciprocityR.

(* ------------------------------------------------ helpers for the examples *)
Lemma strictly_increasing_IZR n : strictly_increasing n IZR.
Proof. intros i _. rewrite plus_IZR. lra. Qed.

Lemma used_iff (eps f : R) : used Rleb eps f = true <-> (eps < Rabs f)%R.
Proof.
  unfold used, Fabs. rewrite Rltb_true. unfold Rleb. runfold.
  destruct (Rle_dec 0 f) as [H|H].
  - rewrite Rabs_pos_eq by exact H. tauto.
  - rewrite Rabs_left by lra. tauto.
Qed.
