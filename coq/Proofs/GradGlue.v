(* Proofs/GradGlue.v -- C14 (round 7): the per-row gradient conversion. *)
From Coq Require Import Reals ZArith Bool List Lra.
From Coquelicot Require Import Coquelicot.
From V Require Import Gen.MapsMap Model.Maps Proofs.Maps Model.GradGlue.
Import ListNotations.
Open Scope R_scope.

Lemma glue_by_name_nth m c prop g k d gk :
  nth_error (rows_of c) k = Some d -> nth_error g k = Some gk ->
  nth_error (glue_by_name m c prop g) k = Some (gk * chain m (prop d)).
Proof.
  unfold glue_by_name.
  destruct c; destruct k as [|[|[|k]]]; destruct g as [|g0 [|g1 [|g2 g]]]; cbn;
    intros H1 H2; try discriminate; try (destruct k; discriminate);
    inversion H1; inversion H2; subst; reflexivity.
Qed.

(* row k of the mapped gradient is the derivative with respect to the mapped parameter of
   the row's OWN direction: phi is the objective as a function of the conductivity of
   direction d (everything else fixed), gk its derivative = row k of the conductivity gradient *)
Lemma glue_row_is_mapped_derivative m c prop g k d gk (phi : R -> R) :
  nth_error (rows_of c) k = Some d -> nth_error g k = Some gk ->
  (m = MResistivity -> prop d <> 0) ->
  is_derive phi (backward m (prop d)) gk ->
  exists r, nth_error (glue_by_name m c prop g) k = Some r /\
            r = gk * chain m (prop d) /\
            is_derive (fun y => phi (backward m y)) (prop d) r.
Proof.
  intros H1 H2 Hx Hd. exists (gk * chain m (prop d)). split; [|split].
  - now apply glue_by_name_nth.
  - reflexivity.
  - now apply chain_rule_gradient.
Qed.

(* the rows are exactly the given directions, x first, each once *)
Lemma rows_are_given c d : In d (rows_of c) <-> given c d = true.
Proof. destruct c, d; cbn; intuition (try discriminate; try congruence). Qed.

Lemma rows_nodup c : NoDup (rows_of c).
Proof.
  destruct c; cbn; repeat constructor; cbn; intuition discriminate.
Qed.

(* pairing by position agrees with pairing by name in three of the four cases ... *)
Lemma position_agrees_off_VTI m c prop g :
  c <> CVTI -> length g = length (rows_of c) ->
  glue_by_position m c prop g = glue_by_name m c prop g.
Proof.
  intros Hc Hl. unfold glue_by_position, glue_by_name.
  destruct c; try congruence; destruct g as [|g0 [|g1 [|g2 [|g3 g]]]]; cbn in *;
    try discriminate; reflexivity.
Qed.

(* ... and is refuted for VTI: row 1 is z but gets the y-fallback property_x *)
Definition wit_prop (d : dirn) : R := match d with DZ => 2 | _ => 1 end.
Lemma position_refuted :
  exists m c prop g k d,
    nth_error (rows_of c) k = Some d /\
    nth_error (glue_by_position m c prop g) k = Some (-1) /\
    nth_error (glue_by_name m c prop g) k = Some (-(1/4)).
Proof.
  exists MResistivity, CVTI, wit_prop, [1; 1], 1%nat, DZ. cbn.
  unfold chain_Resistivity, backward_Resistivity. repeat split; f_equal; field.
Qed.
