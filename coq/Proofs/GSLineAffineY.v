(* Proofs/GSLineAffineY.v -- the line smoother along y ([gauss_seidel_y]):
   (0) [gauss_seidel_y_is_sweeps]: the generated kernel IS the schedule
       (Proofs/GSLineSweep.v) of line steps [linestepY] (assemble, solve, write
       back), inner loop over ixh, outer loop over izh, direction flipped
       before every sweep; kernel field-state order (ey, ex, ez);
   (A) [gauss_seidel_y_linear]: the kernel is a LINEAR map of (field, source),
       every nu, ny >= 2, pivots stated once (the line matrix depends neither
       on the field nor on the source, [gsy_matrix_indep2]); no PEC needed;
   (B) [gauss_seidel_y_last_line_exact]: for nu >= 1 and nx, ny, nz >= 2 all
       5 ny - 4 equations of the line relaxed LAST hold on the returned field
       (PEC at the ends of that line on the INPUT field -- those values are
       never written -- and the pivots of that one line).
   Same structure as Proofs/GSLineAffineX.v. *)
From Coq Require Import ZArith Lia Bool Field List.
From V Require Import Base.Loops Base.Arr Base.FieldSig Base.Tactics.
From V Require Import Gen.CoreBand Gen.CoreGS Model.FIT Proofs.BandSums Proofs.BandLDL.
From V Require Import Proofs.GSBlock Proofs.GSLineX Proofs.GSLineCommon Proofs.GSLineSweep.
From V Require Import Proofs.GSLineY Proofs.GSLineAffineX.
From V Require Proofs.GSAffine.
Import ListNotations.
Local Open Scope Z_scope.

Section ShapeY.
  Context {F : Type} {O : FOps F}.
  Variables (sx sy sz eta_x eta_y eta_z zeta : Z -> Z -> Z -> F).
  Variables (hx hy hz : Z -> F).
  Variables (nu nx ny nz : Z).

  Notation L3 := (gauss_seidel_y_L3 sx sy sz eta_x eta_y eta_z zeta hx hy hz nu nx nx ny ny nz nz
                    (kof hx) (kof hy) (kof hz)).
  Notation L2 := (gauss_seidel_y_L2 sx sy sz eta_x eta_y eta_z zeta hx hy hz nu nx nx ny ny nz nz
                    (kof hx) (kof hy) (kof hz)).
  Notation L1 := (gauss_seidel_y_L1 sx sy sz eta_x eta_y eta_z zeta hx hy hz nu nx nx ny ny nz nz
                    (kof hx) (kof hy) (kof hz)).
  Notation STEP := (linestepY sx sy sz eta_x eta_y eta_z zeta hx hy hz nu nx ny nz).

  Lemma L3y_flds iback it oh q ih (st : @St7 F) :
    flds (L3 iback (5*ny-4) it oh q (q-1) (q+1) ih st) = STEP (lnode iback nx ih) q (flds st).
  Proof.
    rewrite (gsy_L3_step (snd (fst st)) (snd (fst (fst st))) (snd st) sx sy sz eta_x eta_y eta_z zeta
               hx hy hz nu nx nx ny ny nz nz (node iback nx ih) q iback (5*ny-4) it oh ih st
               eq_refl eq_refl).
    reflexivity.
  Qed.

  Lemma L2y_flds iback it oh (st : @St7 F) :
    flds (L2 iback (5*ny-4) it oh st) = inner nx STEP iback (lnode iback nz oh) (flds st).
  Proof.
    cbv delta [gauss_seidel_y_L2]. cbv beta. cbv zeta.
    match goal with
    | |- flds (_, _, _, _, snd (fst (fst ?t)), snd (fst ?t), snd ?t) = _ =>
        change (flds t = inner nx STEP iback (lnode iback nz oh) (flds st))
    end.
    unfold inner.
    apply (Zfold_rel2 (fun (s : @St7 F) (f : @Fld F) => flds s = f)); [reflexivity|].
    intros j a b Hj <-.
    exact (L3y_flds iback it oh (lnode iback nz oh) j a).
  Qed.

  Lemma L1y_flds it (st : @St8 F) :
    iback8 (L1 (5*ny-4) it st) = 1 - iback8 st /\
    flds8 (L1 (5*ny-4) it st) = sweep1 nx nz STEP (1 - iback8 st) (flds8 st).
  Proof.
    split; [reflexivity|].
    cbv delta [gauss_seidel_y_L1]. cbv beta. cbv zeta.
    match goal with
    | |- flds8 (_, _, _, _, _, snd (fst (fst ?t)), snd (fst ?t), snd ?t) = _ =>
        change (flds t = sweep1 nx nz STEP (1 - iback8 st) (flds8 st))
    end.
    unfold sweep1.
    apply (Zfold_rel2 (fun (s : @St7 F) (f : @Fld F) => flds s = f)); [reflexivity|].
    intros k a b Hk <-. apply L2y_flds.
  Qed.

  (* the kernel's state order is (ey, ex, ez); the result is returned as (ex, ey, ez) *)
  Theorem gauss_seidel_y_is_sweeps (ex ey ez : Z -> Z -> Z -> F) :
    gauss_seidel_y nx ny nz ex ey ez sx sy sz eta_x eta_y eta_z zeta hx hy hz nu
    = (let f := sweeps nx nz STEP nu (ey, ex, ez) in (snd (fst f), fst (fst f), snd f)).
  Proof.
    cbv delta [gauss_seidel_y]. cbv beta. cbv zeta. cbn [fst snd].
    match goal with |- (snd (fst ?t), snd (fst (fst ?t)), snd ?t) = _ =>
      change ((let f := flds8 t in (snd (fst f), fst (fst f), snd f)) = (let f := sweeps nx nz STEP nu (ey, ex, ez) in (snd (fst f), fst (fst f), snd f))) end.
    match goal with |- (let f := ?a in _) = (let g := ?b in _) =>
      cut (a = b); [let E := fresh in intros E; rewrite E; reflexivity|] end.
    unfold sweeps, sweepsN.
    match goal with |- flds8 ?t = snd ?u =>
      assert (G : iback8 t = fst u /\ flds8 t = snd u); [|exact (proj2 G)] end.
    apply (Zfold_rel2 (fun (s : @St8 F) (p : Z * @Fld F) => iback8 s = fst p /\ flds8 s = snd p)).
    - split; reflexivity.
    - intros i a b _ [E1 E2]. destruct (L1y_flds i a) as [H1 H2].
      cbn [fst snd]. rewrite <- E1, <- E2. split; [exact H1|exact H2].
  Qed.
End ShapeY.

Section MatrixIndepY2.
  Context {F : Type} {O : FOps F}.
  Variables (fx fy fz gx gy gz sx sy sz tx ty tz eta_x eta_y eta_z zeta : Z -> Z -> Z -> F).
  Variables (hx hy hz : Z -> F).
  Variables (nu lhx nx lhy ny lhz nz ix iz : Z).

  Lemma gsy_matrix_indep2 : 2 <= ny ->
    fst (gsy_sys fx fy fz sx sy sz eta_x eta_y eta_z zeta hx hy hz nu lhx nx lhy ny lhz nz ix iz)
    = fst (gsy_sys gx gy gz tx ty tz eta_x eta_y eta_z zeta hx hy hz nu lhx nx lhy ny lhz nz ix iz).
  Proof.
    intros Hn. unfold gsy_sys, gsy_loop. cbn [fst].
    apply (matrix_indep_gen ny
             (gsy_blk fx fy fz sx sy sz eta_x eta_y eta_z zeta hx hy hz nu lhx nx lhy ny lhz nz ix iz)
             (gsy_blk gx gy gz tx ty tz eta_x eta_y eta_z zeta hx hy hz nu lhx nx lhy ny lhz nz ix iz)
             (gsy_L4 fx fy fz sx sy sz eta_x eta_y eta_z zeta hx hy hz nu lhx nx lhy ny lhz nz ix iz)
             (gsy_L4 gx gy gz tx ty tz eta_x eta_y eta_z zeta hx hy hz nu lhx nx lhy ny lhz nz ix iz)).
    - apply gsy_L4_step.
    - apply gsy_L4_step.
    - apply gsy_blk_AB.
    - apply gsy_blk_AB.
    - intros. cbv delta [gsy_blk gauss_seidel_y_L4_call1 blkM]. cbv beta. reflexivity.
    - intros. cbv delta [gsy_blk gauss_seidel_y_L4_call1 blkL]. cbv beta. reflexivity.
    - exact Hn.
  Qed.
End MatrixIndepY2.

Section LinY.
  Context {F : Type} {O : FOps F}.
  Hypothesis Fth : field_theory F0 F1 Fadd Fmul Fsub Fopp Fdiv Finv (@eq F).
  Hypothesis two_nz : (1 + 1)%F <> 0%F.
  Add Field Fly : Fth.
  Variables (al be : F).
  Variables (mx my mz px py pz qx qy qz : Z -> Z -> Z -> F).
  Variables (smx smy smz spx spy spz sqx sqy sqz : Z -> Z -> Z -> F).
  Variables (eta_x eta_y eta_z zeta : Z -> Z -> Z -> F).
  Variables (hx hy hz : Z -> F).
  Hypothesis hx_nz : forall i, hx i <> 0%F.
  Hypothesis hy_nz : forall i, hy i <> 0%F.
  Hypothesis hz_nz : forall i, hz i <> 0%F.
  Variables (nu lhx nx lhy ny lhz nz ix iz : Z).
  Hypothesis Hmx : forall i j l, mx i j l = (al * px i j l + be * qx i j l)%F.
  Hypothesis Hmy : forall i j l, my i j l = (al * py i j l + be * qy i j l)%F.
  Hypothesis Hmz : forall i j l, mz i j l = (al * pz i j l + be * qz i j l)%F.
  Hypothesis Hsx : forall i j l, smx i j l = (al * spx i j l + be * sqx i j l)%F.
  Hypothesis Hsy : forall i j l, smy i j l = (al * spy i j l + be * sqy i j l)%F.
  Hypothesis Hsz : forall i j l, smz i j l = (al * spz i j l + be * sqz i j l)%F.

  Notation CRm := (cRy mx my mz smx smy smz eta_x eta_y eta_z zeta hx hy hz nu lhx nx lhy ny lhz nz ix iz).
  Notation CRp := (cRy px py pz spx spy spz eta_x eta_y eta_z zeta hx hy hz nu lhx nx lhy ny lhz nz ix iz).
  Notation CRq := (cRy qx qy qz sqx sqy sqz eta_x eta_y eta_z zeta hx hy hz nu lhx nx lhy ny lhz nz ix iz).
  Notation SYSm := (gsy_sys mx my mz smx smy smz eta_x eta_y eta_z zeta hx hy hz nu lhx nx lhy ny lhz nz ix iz).
  Notation SYSp := (gsy_sys px py pz spx spy spz eta_x eta_y eta_z zeta hx hy hz nu lhx nx lhy ny lhz nz ix iz).
  Notation SYSq := (gsy_sys qx qy qz sqx sqy sqz eta_x eta_y eta_z zeta hx hy hz nu lhx nx lhy ny lhz nz ix iz).

  Ltac side := first [ exact two_nz | apply (four_nz Fth two_nz) | apply (one_nz Fth)
                     | apply hx_nz | apply hy_nz | apply hz_nz ].

  Ltac cr_eval :=
    match goal with
    | |- ?G =>
        let G' := eval cbv beta iota zeta delta
                    [cRy st0 blkR gsy_blk gauss_seidel_y_L4_call1
                     upd1 upd1f upd3f fill1 arr_of_list nth Z.to_nat Pos.to_nat Pos.iter_op
                     Nat.add Z.eqb Pos.eqb Z.ltb Z.compare Pos.compare
                     Pos.compare_cont negb fst snd kof] in G in
        cut G'; [ let H := fresh "H" in intro H; vm_cast_no_check H | ]
    end.
  Ltac cr_row := cr_eval; rewrite ?Hmx, ?Hmy, ?Hmz, ?Hsx, ?Hsy, ?Hsz; flit; field; repeat split; side.

  Lemma cRy_lin0 a : CRm a 0 = (al * CRp a 0%Z + be * CRq a 0%Z)%F.
  Proof using Fth two_nz hx_nz hy_nz hz_nz Hmx Hmy Hmz Hsx Hsy Hsz. cr_row. Qed.
  Lemma cRy_lin1 a : CRm a 1 = (al * CRp a 1%Z + be * CRq a 1%Z)%F.
  Proof using Fth two_nz hx_nz hy_nz hz_nz Hmx Hmy Hmz Hsx Hsy Hsz. cr_row. Qed.
  Lemma cRy_lin2 a : CRm a 2 = (al * CRp a 2%Z + be * CRq a 2%Z)%F.
  Proof using Fth two_nz hx_nz hy_nz hz_nz Hmx Hmy Hmz Hsx Hsy Hsz. cr_row. Qed.
  Lemma cRy_lin3 a : CRm a 3 = (al * CRp a 3%Z + be * CRq a 3%Z)%F.
  Proof using Fth two_nz hx_nz hy_nz hz_nz Hmx Hmy Hmz Hsx Hsy Hsz. cr_row. Qed.
  Lemma cRy_lin4 a : CRm a 4 = (al * CRp a 4%Z + be * CRq a 4%Z)%F.
  Proof using Fth two_nz hx_nz hy_nz hz_nz Hmx Hmy Hmz Hsx Hsy Hsz. cr_row. Qed.

  Lemma gsy_bvec_lin : 2 <= ny -> forall i, 0 <= i < 5*ny-4 ->
    snd SYSm i = (al * snd SYSp i + be * snd SYSq i)%F.
  Proof.
    intros Hn i Hi.
    pose proof (proj2 (proj2 (proj2 (gsy_system_layout mx my mz smx smy smz eta_x eta_y eta_z zeta
                  hx hy hz nu lhx nx lhy ny lhz nz ix iz Hn)))) as Bm.
    pose proof (proj2 (proj2 (proj2 (gsy_system_layout px py pz spx spy spz eta_x eta_y eta_z zeta
                  hx hy hz nu lhx nx lhy ny lhz nz ix iz Hn)))) as Bp.
    pose proof (proj2 (proj2 (proj2 (gsy_system_layout qx qy qz sqx sqy sqz eta_x eta_y eta_z zeta
                  hx hy hz nu lhx nx lhy ny lhz nz ix iz Hn)))) as Bq.
    pose proof (Z.div_mod i 5 ltac:(lia)) as E.
    pose proof (Z.mod_pos_bound i 5 ltac:(lia)) as Hr.
    set (a := i / 5) in *. set (r := i mod 5) in *. clearbody a r. subst i.
    assert (Ha : 0 <= a < ny) by lia.
    assert (Hok : rowok ny a r) by (unfold rowok; lia).
    rewrite (Bm a r Ha Hok), (Bp a r Ha Hok), (Bq a r Ha Hok).
    destruct (r_cases r Hr) as [->|[->|[->|[->| ->]]]].
    - apply cRy_lin0.
    - apply cRy_lin1.
    - apply cRy_lin2.
    - apply cRy_lin3.
    - apply cRy_lin4.
  Qed.

  Lemma gsy_sol_lin : 2 <= ny ->
    (forall j, 0 <= j < 5*ny-4 -> pivot (5*ny-4) (fst SYSp) j <> 0%F) ->
    forall i, 0 <= i < 5*ny-4 ->
      gsy_sol mx my mz smx smy smz eta_x eta_y eta_z zeta hx hy hz nu lhx nx lhy ny lhz nz ix iz i
      = (al * gsy_sol px py pz spx spy spz eta_x eta_y eta_z zeta hx hy hz nu lhx nx lhy ny lhz nz ix iz i
         + be * gsy_sol qx qy qz sqx sqy sqz eta_x eta_y eta_z zeta hx hy hz nu lhx nx lhy ny lhz nz ix iz i)%F.
  Proof.
    intros Hn Hpiv. unfold gsy_sol.
    rewrite (gsy_matrix_indep2 mx my mz px py pz smx smy smz spx spy spz eta_x eta_y eta_z zeta
               hx hy hz nu lhx nx lhy ny lhz nz ix iz Hn).
    rewrite (gsy_matrix_indep2 qx qy qz px py pz sqx sqy sqz spx spy spz eta_x eta_y eta_z zeta
               hx hy hz nu lhx nx lhy ny lhz nz ix iz Hn).
    apply (GSAffine.solve_lin_ext Fth al be (5*ny-4) (fst SYSp) (snd SYSm) (snd SYSp) (snd SYSq)
             ltac:(lia) Hpiv).
    intros k Hk. now apply gsy_bvec_lin.
  Qed.

  (* the field written back, in the kernel's state order (ey, ex, ez) *)
  Lemma gsy_out_lin : 2 <= ny ->
    (forall j, 0 <= j < 5*ny-4 -> pivot (5*ny-4) (fst SYSp) j <> 0%F) ->
    LinFld al be
      (gsy_outk mx my mz smx smy smz eta_x eta_y eta_z zeta hx hy hz nu lhx nx lhy ny lhz nz ix iz)
      (gsy_outk px py pz spx spy spz eta_x eta_y eta_z zeta hx hy hz nu lhx nx lhy ny lhz nz ix iz)
      (gsy_outk qx qy qz sqx sqy sqz eta_x eta_y eta_z zeta hx hy hz nu lhx nx lhy ny lhz nz ix iz).
  Proof.
    intros Hn Hpiv. pose proof (gsy_sol_lin Hn Hpiv) as Hsol. unfold gsy_outk.
    set (xm := gsy_sol mx my mz _ _ _ _ _ _ _ _ _ _ _ _ _ _ _ _ _ _ _) in *.
    set (x1 := gsy_sol px py pz _ _ _ _ _ _ _ _ _ _ _ _ _ _ _ _ _ _ _) in *.
    set (x2 := gsy_sol qx qy qz _ _ _ _ _ _ _ _ _ _ _ _ _ _ _ _ _ _ _) in *.
    clearbody xm x1 x2.
    unfold LinFld. repeat split; intros i j l.
    - rewrite (proj1 (gsy_wb_spec mx my mz smx smy smz eta_x eta_y eta_z zeta hx hy hz nu lhx nx lhy ny lhz nz ix iz xm ltac:(lia) i j l)).
      rewrite (proj1 (gsy_wb_spec px py pz spx spy spz eta_x eta_y eta_z zeta hx hy hz nu lhx nx lhy ny lhz nz ix iz x1 ltac:(lia) i j l)).
      rewrite (proj1 (gsy_wb_spec qx qy qz sqx sqy sqz eta_x eta_y eta_z zeta hx hy hz nu lhx nx lhy ny lhz nz ix iz x2 ltac:(lia) i j l)).
      unfold lyY. bdestr; cbn [andb]; first [apply Hsol; lia|apply Hmy].
    - rewrite (proj1 (proj2 (gsy_wb_spec mx my mz smx smy smz eta_x eta_y eta_z zeta hx hy hz nu lhx nx lhy ny lhz nz ix iz xm ltac:(lia) i j l))).
      rewrite (proj1 (proj2 (gsy_wb_spec px py pz spx spy spz eta_x eta_y eta_z zeta hx hy hz nu lhx nx lhy ny lhz nz ix iz x1 ltac:(lia) i j l))).
      rewrite (proj1 (proj2 (gsy_wb_spec qx qy qz sqx sqy sqz eta_x eta_y eta_z zeta hx hy hz nu lhx nx lhy ny lhz nz ix iz x2 ltac:(lia) i j l))).
      unfold lxY. bdestr; cbn [andb]; first [apply Hsol; lia|apply Hmx].
    - rewrite (proj2 (proj2 (gsy_wb_spec mx my mz smx smy smz eta_x eta_y eta_z zeta hx hy hz nu lhx nx lhy ny lhz nz ix iz xm ltac:(lia) i j l))).
      rewrite (proj2 (proj2 (gsy_wb_spec px py pz spx spy spz eta_x eta_y eta_z zeta hx hy hz nu lhx nx lhy ny lhz nz ix iz x1 ltac:(lia) i j l))).
      rewrite (proj2 (proj2 (gsy_wb_spec qx qy qz sqx sqy sqz eta_x eta_y eta_z zeta hx hy hz nu lhx nx lhy ny lhz nz ix iz x2 ltac:(lia) i j l))).
      unfold lzY. bdestr; cbn [andb]; first [apply Hsol; lia|apply Hmz].
  Qed.
End LinY.

Section GSYLinear.
  Context {F : Type} {O : FOps F}.
  Hypothesis Fth : field_theory F0 F1 Fadd Fmul Fsub Fopp Fdiv Finv (@eq F).
  Hypothesis two_nz : (1 + 1)%F <> 0%F.
  Variables (al be : F).
  Variables (emx emy emz e1x e1y e1z e2x e2y e2z : Z -> Z -> Z -> F).
  Variables (smx smy smz s1x s1y s1z s2x s2y s2z : Z -> Z -> Z -> F).
  Variables (eta_x eta_y eta_z zeta : Z -> Z -> Z -> F).
  Variables (hx hy hz : Z -> F).
  Hypothesis hx_nz : forall i, hx i <> 0%F.
  Hypothesis hy_nz : forall i, hy i <> 0%F.
  Hypothesis hz_nz : forall i, hz i <> 0%F.
  Variables (nu nx ny nz : Z).
  Hypothesis Hnc : 2 <= ny.
  Hypothesis Hex : forall i j l, emx i j l = (al * e1x i j l + be * e2x i j l)%F.
  Hypothesis Hey : forall i j l, emy i j l = (al * e1y i j l + be * e2y i j l)%F.
  Hypothesis Hez : forall i j l, emz i j l = (al * e1z i j l + be * e2z i j l)%F.
  Hypothesis Hsx : forall i j l, smx i j l = (al * s1x i j l + be * s2x i j l)%F.
  Hypothesis Hsy : forall i j l, smy i j l = (al * s1y i j l + be * s2y i j l)%F.
  Hypothesis Hsz : forall i j l, smz i j l = (al * s1z i j l + be * s2z i j l)%F.
  Hypothesis pivots : forall ix iz, 1 <= ix < nx -> 1 <= iz < nz ->
    PivY e1x e1y e1z s1x s1y s1z eta_x eta_y eta_z zeta hx hy hz nu nx nx ny ny nz nz ix iz.

  Lemma linestepY_lin ix iz fm f1 f2 : 1 <= ix < nx -> 1 <= iz < nz -> LinFld al be fm f1 f2 ->
    LinFld al be (linestepY smx smy smz eta_x eta_y eta_z zeta hx hy hz nu nx ny nz ix iz fm)
                 (linestepY s1x s1y s1z eta_x eta_y eta_z zeta hx hy hz nu nx ny nz ix iz f1)
                 (linestepY s2x s2y s2z eta_x eta_y eta_z zeta hx hy hz nu nx ny nz ix iz f2).
  Proof.
    intros Hp Hq (G1 & G2 & G3).
    destruct fm as [[my mx] mz], f1 as [[py px] pz], f2 as [[qy qx] qz]. cbn [fst snd] in G1, G2, G3.
    unfold linestepY. cbn [fst snd].
    apply (gsy_out_lin Fth two_nz al be mx my mz px py pz qx qy qz smx smy smz s1x s1y s1z s2x s2y s2z
             eta_x eta_y eta_z zeta hx hy hz hx_nz hy_nz hz_nz nu nx nx ny ny nz nz ix iz
             G2 G1 G3 Hsx Hsy Hsz Hnc).
    rewrite (gsy_matrix_indep2 px py pz e1x e1y e1z s1x s1y s1z s1x s1y s1z eta_x eta_y eta_z zeta
               hx hy hz nu nx nx ny ny nz nz ix iz Hnc).
    exact (pivots ix iz Hp Hq).
  Qed.

  Theorem gauss_seidel_y_linear :
    let rm := gauss_seidel_y nx ny nz emx emy emz smx smy smz eta_x eta_y eta_z zeta hx hy hz nu in
    let r1 := gauss_seidel_y nx ny nz e1x e1y e1z s1x s1y s1z eta_x eta_y eta_z zeta hx hy hz nu in
    let r2 := gauss_seidel_y nx ny nz e2x e2y e2z s2x s2y s2z eta_x eta_y eta_z zeta hx hy hz nu in
    forall i j l,
      fst (fst rm) i j l = (al * fst (fst r1) i j l + be * fst (fst r2) i j l)%F /\
      snd (fst rm) i j l = (al * snd (fst r1) i j l + be * snd (fst r2) i j l)%F /\
      snd rm i j l = (al * snd r1 i j l + be * snd r2 i j l)%F.
  Proof.
    cbv zeta. rewrite !gauss_seidel_y_is_sweeps. cbv zeta. cbn [fst snd].
    pose proof (sweeps_rel3 nx nz
                  (linestepY smx smy smz eta_x eta_y eta_z zeta hx hy hz nu nx ny nz)
                  (linestepY s1x s1y s1z eta_x eta_y eta_z zeta hx hy hz nu nx ny nz)
                  (linestepY s2x s2y s2z eta_x eta_y eta_z zeta hx hy hz nu nx ny nz)
                  (LinFld al be) linestepY_lin nu (emy, emx, emz) (e1y, e1x, e1z) (e2y, e2x, e2z)) as G.
    destruct G as (G1 & G2 & G3); [repeat split; assumption|].
    intros i j l. repeat split; [apply G2|apply G1|apply G3].
  Qed.
End GSYLinear.

Section GSYLast.
  Context {F : Type} {O : FOps F}.
  Hypothesis Fth : field_theory F0 F1 Fadd Fmul Fsub Fopp Fdiv Finv (@eq F).
  Hypothesis two_nz : (1 + 1)%F <> 0%F.
  Variables (ex ey ez sx sy sz eta_x eta_y eta_z zeta : Z -> Z -> Z -> F).
  Variables (hx hy hz : Z -> F).
  Hypothesis hx_nz : forall i, hx i <> 0%F.
  Hypothesis hy_nz : forall i, hy i <> 0%F.
  Hypothesis hz_nz : forall i, hz i <> 0%F.
  Variables (nu nx ny nz : Z).

  Theorem gauss_seidel_y_last_line_exact :
    1 <= nu -> 2 <= nx -> 2 <= ny -> 2 <= nz ->
    let ix := last_line nu nx in let iz := last_line nu nz in
    PECy ex ez ny ix iz ->
    PivY ex ey ez sx sy sz eta_x eta_y eta_z zeta hx hy hz nu nx nx ny ny nz nz ix iz ->
    let r := gauss_seidel_y nx ny nz ex ey ez sx sy sz eta_x eta_y eta_z zeta hx hy hz nu in
    forall i, 0 <= i < 5*ny-4 ->
      fld_resY sx sy sz eta_x eta_y eta_z zeta hx hy hz ix iz
        (fst (fst r)) (snd (fst r)) (snd r) (i / 5) (i mod 5) = 0%F.
  Proof.
    intros Hnu Hnx Hny Hnz ix iz Hpec Hpiv r. subst r. rewrite gauss_seidel_y_is_sweeps.
    cbv zeta. cbn [fst snd].
    pose (P := fun (p q : Z) (f : @Fld F) =>
      PECy ex ez ny p q ->
      PivY ex ey ez sx sy sz eta_x eta_y eta_z zeta hx hy hz nu nx nx ny ny nz nz p q ->
      forall i, 0 <= i < 5*ny-4 ->
        fld_resY sx sy sz eta_x eta_y eta_z zeta hx hy hz p q
          (snd (fst f)) (fst (fst f)) (snd f) (i / 5) (i mod 5) = 0%F).
    assert (G : P ix iz (sweeps nx nz (linestepY sx sy sz eta_x eta_y eta_z zeta hx hy hz nu nx ny nz)
                           nu (ey, ex, ez))).
    { apply (sweeps_last nx nz (linestepY sx sy sz eta_x eta_y eta_z zeta hx hy hz nu nx ny nz)
               (FrameY ex ey ez nx ny nz)); try assumption.
      - intros p q f Hp Hq Gf.
        exact (FrameY_step ex ey ez sx sy sz eta_x eta_y eta_z zeta hx hy hz nu nx ny nz p q f Hp Hq Gf).
      - intros p q f Hp Hq (G1 & G2 & G3) Hpec' Hpiv'. destruct f as [[fy fx] fz]. cbn [fst snd] in G1, G2, G3.
        pose proof (gsy_line_exact_out Fth two_nz fx fy fz sx sy sz eta_x eta_y eta_z zeta hx hy hz
                 hx_nz hy_nz hz_nz nu nx nx ny ny nz nz p q ltac:(lia) ltac:(lia) ltac:(lia)) as H.
        unfold gsy_out in H. cbn [fst snd] in H.
        unfold linestepY. cbn [fst snd]. apply H.
        + unfold PECy in *. rewrite !G2, !G3 by lia. exact Hpec'.
        + unfold PivY in *.
          rewrite (gsy_matrix_indep fx fy fz ex ey ez sx sy sz eta_x eta_y eta_z zeta hx hy hz
                     nu nx nx ny ny nz nz p q ltac:(lia)).
          exact Hpiv'.
      - unfold FrameY. cbn [fst snd]. repeat split; intros; reflexivity. }
    exact (G Hpec Hpiv).
  Qed.
End GSYLast.

(* Sanity check of (B) on a concrete 3x3x2 rational instance (interior lines
   (1,1) and (2,1)): nu = 1 (last line (1,1)) leaves line (1,1) exact and
   (2,1) not. *)
From Coq Require Import QArith.
From V Require Import Base.ExecQ.
Local Open Scope Z_scope.
Definition resy_at (nu p q : Z) : Z -> Q :=
  let r := gauss_seidel_y 3 3 2 yex yey yez tsx tsy tsz xeta xeta xeta xzeta xh xh xh nu in
  fun i => fld_resY tsx tsy tsz xeta xeta xeta xzeta xh xh xh p q
             (fst (fst r)) (snd (fst r)) (snd r) (i / 5) (i mod 5).

Example gsy_last_example :
  (forall i, 0 <= i < 11 -> resy_at 1 1 1 i = 0%F) /\ some_nonzero (resy_at 1 2 1) 11 = true.
Proof.
  split.
  - by_dump 11 (resy_at 1 1 1) (fun _ : Z => 0%F).
  - vm_compute; reflexivity.
Qed.

Print Assumptions gauss_seidel_y_is_sweeps.
Print Assumptions gsy_matrix_indep2.
Print Assumptions gsy_out_lin.
Print Assumptions gauss_seidel_y_linear.
Print Assumptions gauss_seidel_y_last_line_exact.
Print Assumptions gsy_last_example.
