(* Proofs/InterpMag.v -- C09, magnetic receivers.
   1. The generated kernel [_edge_curl_factor] (Gen/FieldsCurl.v, translated
      from emg3d/fields.py on every run) writes, on every face it visits,
      curl(E) * (two-cell sum of zeta) / (two-cell width * the two other
      widths), and nothing else -- for every shape.
   2. Discrete curl and its transpose (Model/FIT.v) are adjoint for the
      face/edge inner products, for face vectors that vanish outside the face
      index boxes (summation by parts in each direction) -- any field.
   3. Over R: sampling the magnetic field of [magnetic_field] with
      get_receiver equals <curl^T(face_vector), E> / (s mu0). *)
From Coq Require Import ZArith Lia Bool Field List.
From V Require Import Base.Loops Base.Loops3 Base.Arr Base.FieldSig Base.Tactics.
From V Require Import Gen.FieldsCurl Model.FIT Model.Interp Model.InterpMag.
From V Require Import Proofs.InterpSums Proofs.Interp.
Local Open Scope Z_scope.

(* ===================================================================== 1 *)
Section CurlKernel.
  Context {F : Type} {O : FOps F}.
  Hypothesis Fth : field_theory F0 F1 Fadd Fmul Fsub Fopp Fdiv Finv (@eq F).
  Add Field Ffm : Fth.
  Variables (ex ey ez zeta : Z -> Z -> Z -> F) (hx hy hz : Z -> F).
  Hypothesis hx_nz : forall i, hx i <> 0%F.
  Hypothesis hy_nz : forall i, hy i <> 0%F.
  Hypothesis hz_nz : forall i, hz i <> 0%F.
  Hypothesis dx_nz : forall i, (hx (i - 1) + hx i)%F <> 0%F.
  Hypothesis dy_nz : forall i, (hy (i - 1) + hy i)%F <> 0%F.
  Hypothesis dz_nz : forall i, (hz (i - 1) + hz i)%F <> 0%F.

  Definition hval_x i j k : F :=
    (curl_x ey ez hy hz i j k * (zeta (i - 1) j k + zeta i j k)
     / ((hx (i - 1) + hx i) * hy j * hz k))%F.
  Definition hval_y i j k : F :=
    (curl_y ex ez hx hz i j k * (zeta i (j - 1) k + zeta i j k)
     / (hx i * (hy (j - 1) + hy j) * hz k))%F.
  Definition hval_z i j k : F :=
    (curl_z ex ey hx hy i j k * (zeta i j (k - 1) + zeta i j k)
     / (hx i * hy j * (hz (k - 1) + hz k)))%F.

  Definition get3m (s : (Z -> Z -> Z -> F) * (Z -> Z -> Z -> F) * (Z -> Z -> Z -> F))
             (i j k : Z) : F * F * F :=
    (fst (fst s) i j k, snd (fst s) i j k, snd s i j k).
  Definition set3m (i j k : Z) (v : F * F * F) : F * F * F :=
    (if (i =? 0) then fst (fst v) else hval_x i j k,
     if (j =? 0) then snd (fst v) else hval_y i j k,
     if (k =? 0) then snd v else hval_z i j k).

  Ltac side := first [ apply hx_nz | apply hy_nz | apply hz_nz
                     | apply dx_nz | apply dy_nz | apply dz_nz ].
  Ltac fld := first [ reflexivity | field; repeat split; side ].

  Lemma curl_L3_eq lhx nx lhy ny lhz nz iz iy ix mx my mz :
    0 <= ix -> 0 <= iy -> 0 <= iz ->
    _edge_curl_factor_L3 ex ey ez hx hy hz zeta lhx nx lhy ny lhz nz
        iz (Z.max 0 (iz - 1)) (iz + 1) iy (Z.max 0 (iy - 1)) (iy + 1) ix (mx, my, mz)
    = (if (ix =? 0) then mx else upd3 mx ix iy iz (hval_x ix iy iz),
       if (iy =? 0) then my else upd3 my ix iy iz (hval_y ix iy iz),
       if (iz =? 0) then mz else upd3 mz ix iy iz (hval_z ix iy iz)).
  Proof using Fth hx_nz hy_nz hz_nz dx_nz dy_nz dz_nz.
    intros Hx Hy Hz.
    unfold _edge_curl_factor_L3. cbv zeta. cbn [fst snd].
    unfold hval_x, hval_y, hval_z, curl_x, curl_y, curl_z. flit.
    destruct (Z.eqb_spec ix 0) as [->|Nx];
    destruct (Z.eqb_spec iy 0) as [->|Ny];
    destruct (Z.eqb_spec iz 0) as [->|Nz];
    cbn [negb]; zmax_norm;
    first [ reflexivity
          | repeat (match goal with |- (_, _) = (_, _) => apply f_equal2 end);
            try reflexivity; f_equal; fld ].
  Qed.

  Section Nest.
    Variables (lhx nx lhy ny lhz nz : Z).
    Definition cbody3 (k j i : Z) s :=
      _edge_curl_factor_L3 ex ey ez hx hy hz zeta lhx nx lhy ny lhz nz
          k (Z.max 0 (k - 1)) (k + 1) j (Z.max 0 (j - 1)) (j + 1) i s.

    Lemma cbody3_pointwise i j k s : 0 <= i < nx -> 0 <= j < ny -> 0 <= k < nz ->
      forall i' j' k',
        get3m (cbody3 k j i s) i' j' k' =
        if ((i' =? i) && (j' =? j) && (k' =? k))%bool
        then set3m i j k (get3m s i j k) else get3m s i' j' k'.
    Proof.
      intros Hi Hj Hk i' j' k'. destruct s as [[mx my] mz].
      unfold cbody3. rewrite curl_L3_eq by lia.
      unfold get3m, set3m, upd3; cbn [fst snd].
      destruct (i =? 0), (j =? 0), (k =? 0);
        destruct ((i' =? i) && (j' =? j) && (k' =? k))%bool eqn:E;
        try reflexivity;
        apply andb_prop in E; destruct E as [E E3]; apply andb_prop in E;
        destruct E as [E1 E2];
        apply Z.eqb_eq in E1; apply Z.eqb_eq in E2; apply Z.eqb_eq in E3; subst;
        reflexivity.
    Qed.

    Lemma cL2_is_loop_i k j s :
      _edge_curl_factor_L2 ex ey ez hx hy hz zeta lhx nx lhy ny lhz nz
          k (Z.max 0 (k - 1)) (k + 1) j s = loop_i cbody3 nx k j s.
    Proof.
      unfold _edge_curl_factor_L2, loop_i, cbody3. cbv zeta.
      destruct s as [[mx my] mz]; cbn [fst snd].
      match goal with |- (fst (fst ?t), _, _) = _ => destruct t as [[a b] c] end.
      reflexivity.
    Qed.

    Lemma cL1_is_loop_j k s :
      _edge_curl_factor_L1 ex ey ez hx hy hz zeta lhx nx lhy ny lhz nz k s
      = loop_j cbody3 nx ny k s.
    Proof.
      unfold _edge_curl_factor_L1, loop_j. cbv zeta.
      destruct s as [[mx my] mz]; cbn [fst snd].
      rewrite (Zfold_ext _ _ _ (fun j s => loop_i cbody3 nx k j s))
        by (intros; apply cL2_is_loop_i).
      match goal with |- (fst (fst ?t), _, _) = _ => destruct t as [[a b] c] end.
      reflexivity.
    Qed.
  End Nest.

  Theorem edge_curl_spec nx ny nz mx my mz : 0 <= nx -> 0 <= ny -> 0 <= nz ->
    forall i j k,
      get3m (_edge_curl_factor nx ny nz mx my mz ex ey ez hx hy hz zeta) i j k
      = if in_box nx ny nz i j k
        then set3m i j k (mx i j k, my i j k, mz i j k)
        else (mx i j k, my i j k, mz i j k).
  Proof.
    intros Hx Hy Hz i j k.
    assert (E : _edge_curl_factor nx ny nz mx my mz ex ey ez hx hy hz zeta
                = loop_k (cbody3 nx nx ny ny nz nz) nx ny nz (mx, my, mz)).
    { unfold _edge_curl_factor, loop_k. cbv zeta.
      rewrite (Zfold_ext _ _ _ (fun k s => loop_j (cbody3 nx nx ny ny nz nz) nx ny k s))
        by (intros; apply cL1_is_loop_j).
      match goal with |- (fst (fst ?t), _, _) = _ => destruct t as [[a b] c] end.
      reflexivity. }
    rewrite E.
    rewrite (loop_k_spec get3m set3m (cbody3 nx nx ny ny nz nz) nx ny nz
               (cbody3_pointwise nx nx ny ny nz nz)) by assumption.
    unfold get3m; cbn [fst snd]. reflexivity.
  Qed.
End CurlKernel.

(* ===================================================================== 2 *)
Section Adjoint.
  Context {F : Type} {O : FOps F}.
  Hypothesis Fth : field_theory F0 F1 Fadd Fmul Fsub Fopp Fdiv Finv (@eq F).
  Add Field Ffa : Fth.

  (* reordering the three summations *)
  Lemma sum3_swap23 n1 n2 n3 (f : Z -> Z -> Z -> F) :
    sum3 n1 n2 n3 f = sum3 n1 n3 n2 (fun i k j => f i j k).
  Proof.
    unfold sum3. apply Zsum_ext; intros i _. apply (Zsum_swap Fth).
  Qed.
  Lemma sum3_swap12 n1 n2 n3 (f : Z -> Z -> Z -> F) :
    sum3 n1 n2 n3 f = sum3 n2 n1 n3 (fun j i k => f i j k).
  Proof.
    unfold sum3.
    apply (Zsum_swap Fth 0 n1 0 n2 (fun i j => Zsum 0 n3 (fun k => f i j k))).
  Qed.

  (* summation by parts along the third, second, first index *)
  Lemma sbp3_k n1 n2 n3 (a b : Z -> Z -> Z -> F) : 0 <= n3 ->
    (forall i j, a i j (-1) = 0%F) -> (forall i j, a i j n3 = 0%F) ->
    sum3 n1 n2 n3 (fun i j k => (a i j k * (b i j (k + 1)%Z - b i j k))%F)
    = sum3 n1 n2 (n3 + 1) (fun i j k => ((a i j (k - 1)%Z - a i j k) * b i j k)%F).
  Proof.
    intros Hn H0 H1. unfold sum3.
    apply Zsum_ext; intros i _. apply Zsum_ext; intros j _.
    apply (Zsum_by_parts Fth n3 (a i j) (b i j)); auto.
  Qed.

  Lemma sbp3_j n1 n2 n3 (a b : Z -> Z -> Z -> F) : 0 <= n2 ->
    (forall i k, a i (-1) k = 0%F) -> (forall i k, a i n2 k = 0%F) ->
    sum3 n1 n2 n3 (fun i j k => (a i j k * (b i (j + 1)%Z k - b i j k))%F)
    = sum3 n1 (n2 + 1) n3 (fun i j k => ((a i (j - 1)%Z k - a i j k) * b i j k)%F).
  Proof.
    intros Hn H0 H1.
    rewrite sum3_swap23.
    rewrite (sbp3_k n1 n3 n2 (fun i k j => a i j k) (fun i k j => b i j k)) by auto.
    now rewrite <- sum3_swap23.
  Qed.

  Lemma sbp3_i n1 n2 n3 (a b : Z -> Z -> Z -> F) : 0 <= n1 ->
    (forall j k, a (-1) j k = 0%F) -> (forall j k, a n1 j k = 0%F) ->
    sum3 n1 n2 n3 (fun i j k => (a i j k * (b (i + 1)%Z j k - b i j k))%F)
    = sum3 (n1 + 1) n2 n3 (fun i j k => ((a (i - 1)%Z j k - a i j k) * b i j k)%F).
  Proof.
    intros Hn H0 H1.
    rewrite sum3_swap12.
    rewrite (sbp3_j n2 n1 n3 (fun j i k => a i j k) (fun j i k => b i j k)) by auto.
    now rewrite <- sum3_swap12.
  Qed.

  Variables (nx ny nz : Z) (hx hy hz : Z -> F).
  Hypothesis Hnx : 0 <= nx.
  Hypothesis Hny : 0 <= ny.
  Hypothesis Hnz : 0 <= nz.
  Variables (ux uy uz ex ey ez : Z -> Z -> Z -> F).
  (* the face vector vanishes just outside its index box in the two
     tangential (cell-centred) directions *)
  Hypothesis ux_j0 : forall i k, ux i (-1) k = 0%F.
  Hypothesis ux_j1 : forall i k, ux i ny k = 0%F.
  Hypothesis ux_k0 : forall i j, ux i j (-1) = 0%F.
  Hypothesis ux_k1 : forall i j, ux i j nz = 0%F.
  Hypothesis uy_i0 : forall j k, uy (-1) j k = 0%F.
  Hypothesis uy_i1 : forall j k, uy nx j k = 0%F.
  Hypothesis uy_k0 : forall i j, uy i j (-1) = 0%F.
  Hypothesis uy_k1 : forall i j, uy i j nz = 0%F.
  Hypothesis uz_i0 : forall j k, uz (-1) j k = 0%F.
  Hypothesis uz_i1 : forall j k, uz nx j k = 0%F.
  Hypothesis uz_j0 : forall i k, uz i (-1) k = 0%F.
  Hypothesis uz_j1 : forall i k, uz i ny k = 0%F.

  Let a_xy : Z -> Z -> Z -> F := fun i j k => (ux i j k / hy j)%F.
  Let a_xz : Z -> Z -> Z -> F := fun i j k => (ux i j k / hz k)%F.
  Let a_yz : Z -> Z -> Z -> F := fun i j k => (uy i j k / hz k)%F.
  Let a_yx : Z -> Z -> Z -> F := fun i j k => (uy i j k / hx i)%F.
  Let a_zx : Z -> Z -> Z -> F := fun i j k => (uz i j k / hx i)%F.
  Let a_zy : Z -> Z -> Z -> F := fun i j k => (uz i j k / hy j)%F.

  Lemma zero_div (d : F) : (0 / d)%F = 0%F.
  Proof. rewrite (Fdiv_def Fth). ring. Qed.

  (* <u, curl e>_faces = <curl^T u, e>_edges *)
  Theorem curl_adjoint :
    (sum3 (nx + 1) ny nz (fun i j k => (ux i j k * curl_x ey ez hy hz i j k)%F)
     + sum3 nx (ny + 1) nz (fun i j k => (uy i j k * curl_y ex ez hx hz i j k)%F)
     + sum3 nx ny (nz + 1) (fun i j k => (uz i j k * curl_z ex ey hx hy i j k)%F))%F
    = (sum3 nx (ny + 1) (nz + 1) (fun i j k => (curlT_x uy uz hy hz i j k * ex i j k)%F)
       + sum3 (nx + 1) ny (nz + 1) (fun i j k => (curlT_y ux uz hx hz i j k * ey i j k)%F)
       + sum3 (nx + 1) (ny + 1) nz (fun i j k => (curlT_z ux uy hx hy i j k * ez i j k)%F))%F.
  Proof using Fth Hnx Hny Hnz ux_j0 ux_j1 ux_k0 ux_k1 uy_i0 uy_i1 uy_k0 uy_k1
              uz_i0 uz_i1 uz_j0 uz_j1.
    (* split every face sum into its two difference terms *)
    rewrite (sum3_ext (nx + 1) ny nz _
      (fun i j k => (a_xy i j k * (ez i (j + 1)%Z k - ez i j k)
                     - a_xz i j k * (ey i j (k + 1)%Z - ey i j k))%F))
      by (intros; unfold curl_x, a_xy, a_xz; rewrite ?(Fdiv_def Fth); ring).
    rewrite (sum3_ext nx (ny + 1) nz _
      (fun i j k => (a_yz i j k * (ex i j (k + 1)%Z - ex i j k)
                     - a_yx i j k * (ez (i + 1)%Z j k - ez i j k))%F))
      by (intros; unfold curl_y, a_yz, a_yx; rewrite ?(Fdiv_def Fth); ring).
    rewrite (sum3_ext nx ny (nz + 1) _
      (fun i j k => (a_zx i j k * (ey (i + 1)%Z j k - ey i j k)
                     - a_zy i j k * (ex i (j + 1)%Z k - ex i j k))%F))
      by (intros; unfold curl_z, a_zx, a_zy; rewrite ?(Fdiv_def Fth); ring).
    rewrite !(sum3_sub Fth).
    rewrite (sbp3_j (nx + 1) ny nz a_xy ez), (sbp3_k (nx + 1) ny nz a_xz ey),
            (sbp3_k nx (ny + 1) nz a_yz ex), (sbp3_i nx (ny + 1) nz a_yx ez),
            (sbp3_i nx ny (nz + 1) a_zx ey), (sbp3_j nx ny (nz + 1) a_zy ex);
      try assumption;
      try (intros; unfold a_xy, a_xz, a_yz, a_yx, a_zx, a_zy;
           rewrite ?ux_j0, ?ux_j1, ?ux_k0, ?ux_k1, ?uy_i0, ?uy_i1, ?uy_k0, ?uy_k1,
                   ?uz_i0, ?uz_i1, ?uz_j0, ?uz_j1; apply zero_div).
    (* split every edge sum the same way *)
    rewrite (sum3_ext nx (ny + 1) (nz + 1) (fun i j k => (curlT_x uy uz hy hz i j k * ex i j k)%F)
      (fun i j k => ((a_yz i j (k - 1)%Z - a_yz i j k) * ex i j k
                     - (a_zy i (j - 1)%Z k - a_zy i j k) * ex i j k)%F))
      by (intros; unfold curlT_x, a_yz, a_zy; rewrite ?(Fdiv_def Fth); ring).
    rewrite (sum3_ext (nx + 1) ny (nz + 1) (fun i j k => (curlT_y ux uz hx hz i j k * ey i j k)%F)
      (fun i j k => ((a_zx (i - 1)%Z j k - a_zx i j k) * ey i j k
                     - (a_xz i j (k - 1)%Z - a_xz i j k) * ey i j k)%F))
      by (intros; unfold curlT_y, a_zx, a_xz; rewrite ?(Fdiv_def Fth); ring).
    rewrite (sum3_ext (nx + 1) (ny + 1) nz (fun i j k => (curlT_z ux uy hx hy i j k * ez i j k)%F)
      (fun i j k => ((a_xy i (j - 1)%Z k - a_xy i j k) * ez i j k
                     - (a_yx (i - 1)%Z j k - a_yx i j k) * ez i j k)%F))
      by (intros; unfold curlT_z, a_xy, a_yx; rewrite ?(Fdiv_def Fth); ring).
    rewrite !(sum3_sub Fth). ring.
  Qed.
End Adjoint.

(* ===================================================================== 3 *)
From Coq Require Import Reals Lra.
Delimit Scope F_scope with F.

Section TensorFacts.
  Context {F : Type} {O : FOps F}.
  Hypothesis Fth : field_theory F0 F1 Fadd Fmul Fsub Fopp Fdiv Finv (@eq F).
  Add Field Fft : Fth.

  Definition tens (p0 : Z) (r0 : F) (p1 : Z) (r1 : F) (p2 : Z) (r2 : F) : Z -> Z -> Z -> F :=
    fun i j k => (w2 p0 (1 - r0) r0 i * w2 p1 (1 - r1) r1 j * w2 p2 (1 - r2) r2 k)%F.

  Lemma w2_zero a (e r : F) i : i <> a -> i <> a + 1 -> w2 a e r i = 0%F.
  Proof.
    intros H1 H2. unfold w2.
    destruct (Z.eqb_spec i a), (Z.eqb_spec i (a + 1)); try lia; reflexivity.
  Qed.
  Lemma w2_top a (e r : F) : w2 a e r (a + 1) = r.
  Proof.
    unfold w2. destruct (Z.eqb_spec (a + 1) a); [lia|]. now rewrite Z.eqb_refl.
  Qed.

  Lemma tens_zero_i p0 r0 p1 r1 p2 r2 i j k :
    (i <> p0 /\ i <> p0 + 1) \/ (i = p0 + 1 /\ r0 = 0%F) -> tens p0 r0 p1 r1 p2 r2 i j k = 0%F.
  Proof.
    unfold tens. intros [[A B]|[A B]].
    - rewrite (w2_zero p0) by assumption. ring.
    - subst i. rewrite w2_top, B. ring.
  Qed.
  Lemma tens_zero_j p0 r0 p1 r1 p2 r2 i j k :
    (j <> p1 /\ j <> p1 + 1) \/ (j = p1 + 1 /\ r1 = 0%F) -> tens p0 r0 p1 r1 p2 r2 i j k = 0%F.
  Proof.
    unfold tens. intros [[A B]|[A B]].
    - rewrite (w2_zero p1) by assumption. ring.
    - subst j. rewrite w2_top, B. ring.
  Qed.
  Lemma tens_zero_k p0 r0 p1 r1 p2 r2 i j k :
    (k <> p2 /\ k <> p2 + 1) \/ (k = p2 + 1 /\ r2 = 0%F) -> tens p0 r0 p1 r1 p2 r2 i j k = 0%F.
  Proof.
    unfold tens. intros [[A B]|[A B]].
    - rewrite (w2_zero p2) by assumption. ring.
    - subst k. rewrite w2_top, B. ring.
  Qed.
End TensorFacts.

Section MagR.
  Local Open Scope R_scope.
  Variables (nx ny nz : Z) (ndx ndy ndz : Z -> R) (eps : R).
  Variables (hx hy hz : Z -> R) (smu0 : R).
  Hypothesis Hnx : (2 <= nx)%Z.
  Hypothesis Hny : (2 <= ny)%Z.
  Hypothesis Hnz : (2 <= nz)%Z.
  Hypothesis Ix : strictly_increasing nx ndx.
  Hypothesis Iy : strictly_increasing ny ndy.
  Hypothesis Iz : strictly_increasing nz ndz.
  Hypothesis hx_pos : forall i, 0 < hx i.
  Hypothesis hy_pos : forall i, 0 < hy i.
  Hypothesis hz_pos : forall i, 0 < hz i.
  Hypothesis smu0_nz : smu0 <> 0.

  (* index facts per component c and direction d of a face vector *)
  Definition idxok (c d n p : Z) (r : R) : Prop :=
    if (c =? d)%Z then (1 <= p <= n - 1)%Z /\ (p = (n - 1)%Z -> r = 0)
    else (0 <= p <= n - 2)%Z.

  Lemma dim_ok c d n nd x : (2 <= n)%Z -> strictly_increasing n nd -> inner_range n nd x ->
    let p := pv_index Rleb (cg false c d nd) (cn false c d n) x in
    p <> (cn false c d n - 1)%Z /\ idxok c d n p (rdist (cg false c d nd) p x).
  Proof.
    intros Hn Hinc Hx. cbv zeta.
    destruct (comp_grid_range false c d n nd x Hn Hinc Hx) as (A & B & C).
    destruct (locate_range _ _ _ C A B) as (_ & P & Q).
    unfold idxok. revert A B C P Q. unfold cg, cn, on_centers.
    destruct (c =? d)%Z; cbn [negb]; intros A B C P Q.
    - destruct Hx as [Hlo Hhi].
      set (p := pv_index Rleb nd (n + 1) x) in *.
      assert (P1 : (1 <= p)%Z).
      { destruct (Z_lt_ge_dec p 1); [|lia]. replace p with 0%Z in Q by lia.
        replace (0 + 1)%Z with 1%Z in Q by lia. lra. }
      split; [lia|]. split; [lia|]. intros E. unfold rdist.
      rewrite E in Q. assert (x = nd (n - 1)%Z) by lra. subst x. rewrite E.
      runfold. unfold Rdiv. ring.
    - split; lia.
  Qed.

  Lemma face_comp_form c x y z :
    inner_range nx ndx x -> inner_range ny ndy y -> inner_range nz ndz z ->
    exists p0 r0 p1 r1 p2 r2,
      (forall i j k, comp_source Rleb nx ny nz ndx ndy ndz false c x y z i j k
                     = tens p0 r0 p1 r1 p2 r2 i j k) /\
      idxok c 0 nx p0 r0 /\ idxok c 1 ny p1 r1 /\ idxok c 2 nz p2 r2.
  Proof using Hnx Hny Hnz Ix Iy Iz.
    intros Rx Ry Rz.
    destruct (dim_ok c 0 nx ndx x Hnx Ix Rx) as [N0 K0].
    destruct (dim_ok c 1 ny ndy y Hny Iy Ry) as [N1 K1].
    destruct (dim_ok c 2 nz ndz z Hnz Iz Rz) as [N2 K2].
    do 6 eexists. split; [|split; [exact K0|split; [exact K1|exact K2]]].
    intros i j k. unfold comp_source.
    rewrite (point_source_tensor Rth) by assumption. reflexivity.
  Qed.

  Variables (ex ey ez : Z -> Z -> Z -> R).
  Let zeta := zeta_vac hx hy hz smu0.
  Let Hf := magnetic_field nx ny nz hx hy hz zeta ex ey ez.

  Lemma H_spec i j k :
    get3m Hf i j k
    = if in_box nx ny nz i j k
      then (if (i =? 0)%Z then 0 else curl_x ey ez hy hz i j k / smu0,
            if (j =? 0)%Z then 0 else curl_y ex ez hx hz i j k / smu0,
            if (k =? 0)%Z then 0 else curl_z ex ey hx hy i j k / smu0)
      else (0, 0, 0).
  Proof using Hnx Hny Hnz hx_pos hy_pos hz_pos smu0_nz.
    unfold Hf, magnetic_field.
    assert (nzx : forall i, hx i <> 0%F) by (intros t; pose proof (hx_pos t); runfold; lra).
    assert (nzy : forall i, hy i <> 0%F) by (intros t; pose proof (hy_pos t); runfold; lra).
    assert (nzz : forall i, hz i <> 0%F) by (intros t; pose proof (hz_pos t); runfold; lra).
    assert (dzx : forall i, (hx (i - 1)%Z + hx i)%F <> 0%F)
      by (intros t; pose proof (hx_pos t); pose proof (hx_pos (t - 1)%Z); runfold; lra).
    assert (dzy : forall i, (hy (i - 1)%Z + hy i)%F <> 0%F)
      by (intros t; pose proof (hy_pos t); pose proof (hy_pos (t - 1)%Z); runfold; lra).
    assert (dzz : forall i, (hz (i - 1)%Z + hz i)%F <> 0%F)
      by (intros t; pose proof (hz_pos t); pose proof (hz_pos (t - 1)%Z); runfold; lra).
    rewrite (edge_curl_spec Rth ex ey ez zeta hx hy hz nzx nzy nzz dzx dzy dzz)
      by lia.
    destruct (in_box nx ny nz i j k); [|reflexivity].
    unfold set3m, zero3; cbn [fst snd].
    pose proof (hx_pos i); pose proof (hx_pos (i - 1)%Z);
    pose proof (hy_pos j); pose proof (hy_pos (j - 1)%Z);
    pose proof (hz_pos k); pose proof (hz_pos (k - 1)%Z).
    f_equal; [f_equal|].
    - destruct (i =? 0)%Z; [reflexivity|].
      unfold hval_x, zeta, zeta_vac. runfold. field. repeat split; lra.
    - destruct (j =? 0)%Z; [reflexivity|].
      unfold hval_y, zeta, zeta_vac. runfold. field. repeat split; lra.
    - destruct (k =? 0)%Z; [reflexivity|].
      unfold hval_z, zeta, zeta_vac. runfold. field. repeat split; lra.
  Qed.

  Lemma in_box_true i j k :
    (0 <= i < nx)%Z -> (0 <= j < ny)%Z -> (0 <= k < nz)%Z -> in_box nx ny nz i j k = true.
  Proof.
    intros. unfold in_box.
    repeat match goal with
    | |- context [(?a <=? ?b)%Z] => destruct (Z.leb_spec a b); [|lia]
    | |- context [(?a <? ?b)%Z] => destruct (Z.ltb_spec a b); [|lia]
    end. reflexivity.
  Qed.

  Variables (x y z f1 f2 f3 : R).
  Hypothesis Rx : inner_range nx ndx x.
  Hypothesis Ry : inner_range ny ndy y.
  Hypothesis Rz : inner_range nz ndz z.

  Let vx := scale3 f1 (comp_source Rleb nx ny nz ndx ndy ndz false 0 x y z).
  Let vy := scale3 f2 (comp_source Rleb nx ny nz ndx ndy ndz false 1 x y z).
  Let vz := scale3 f3 (comp_source Rleb nx ny nz ndx ndy ndz false 2 x y z).

  (* the sampled values are curl(E)/(s mu0) wherever the face vector is
     non-zero; the face vector vanishes outside the face boxes *)
  Lemma face_facts :
    (forall i j k, (0 <= i < nx + 1)%Z -> (0 <= j < ny)%Z -> (0 <= k < nz)%Z ->
       vx i j k * fst (fst Hf) i j k = / smu0 * (vx i j k * curl_x ey ez hy hz i j k)) /\
    (forall i j k, (0 <= i < nx)%Z -> (0 <= j < ny + 1)%Z -> (0 <= k < nz)%Z ->
       vy i j k * snd (fst Hf) i j k = / smu0 * (vy i j k * curl_y ex ez hx hz i j k)) /\
    (forall i j k, (0 <= i < nx)%Z -> (0 <= j < ny)%Z -> (0 <= k < nz + 1)%Z ->
       vz i j k * snd Hf i j k = / smu0 * (vz i j k * curl_z ex ey hx hy i j k)) /\
    ((forall i k, vx i (-1)%Z k = 0) /\ (forall i k, vx i ny k = 0) /\
     (forall i j, vx i j (-1)%Z = 0) /\ (forall i j, vx i j nz = 0)) /\
    ((forall j k, vy (-1)%Z j k = 0) /\ (forall j k, vy nx j k = 0) /\
     (forall i j, vy i j (-1)%Z = 0) /\ (forall i j, vy i j nz = 0)) /\
    ((forall j k, vz (-1)%Z j k = 0) /\ (forall j k, vz nx j k = 0) /\
     (forall i k, vz i (-1)%Z k = 0) /\ (forall i k, vz i ny k = 0)).
  Proof using Hnx Hny Hnz Ix Iy Iz hx_pos hy_pos hz_pos smu0_nz Rx Ry Rz.
    destruct (face_comp_form 0 x y z Rx Ry Rz) as (a0 & q0 & a1 & q1 & a2 & q2 & TA & KA0 & KA1 & KA2).
    destruct (face_comp_form 1 x y z Rx Ry Rz) as (b0 & s0 & b1 & s1 & b2 & s2 & TB & KB0 & KB1 & KB2).
    destruct (face_comp_form 2 x y z Rx Ry Rz) as (c0 & t0 & c1 & t1 & c2 & t2 & TC & KC0 & KC1 & KC2).
    unfold idxok in *. cbn [Z.eqb Pos.eqb] in *.
    destruct KA0 as [KA0 KA0']. destruct KB1 as [KB1 KB1']. destruct KC2 as [KC2 KC2'].
    assert (VX : forall i j k, vx i j k = (tens a0 q0 a1 q1 a2 q2 i j k * f1)%F)
      by (intros; unfold vx, scale3; now rewrite TA).
    assert (VY : forall i j k, vy i j k = (tens b0 s0 b1 s1 b2 s2 i j k * f2)%F)
      by (intros; unfold vy, scale3; now rewrite TB).
    assert (VZ : forall i j k, vz i j k = (tens c0 t0 c1 t1 c2 t2 i j k * f3)%F)
      by (intros; unfold vz, scale3; now rewrite TC).
    assert (Z0 : forall a : R, (0 * a)%F = 0) by (intros; runfold; ring).
    repeat split.
    - (* x faces *)
      intros i j k Hi Hj Hk. rewrite VX.
      destruct (Z.eq_dec i 0) as [E|N0];
        [rewrite (tens_zero_i Rth) by (left; lia); runfold; ring|].
      destruct (Z.eq_dec i nx) as [E|N1].
      { rewrite (tens_zero_i Rth); [runfold; ring|].
        destruct (Z.eq_dec a0 (nx - 1)); [right; split; [lia|auto]|left; lia]. }
      change (fst (fst Hf) i j k) with (fst (fst (get3m Hf i j k))).
      rewrite H_spec, in_box_true by lia. cbn [fst snd].
      destruct (Z.eqb_spec i 0); [lia|]. runfold. unfold Rdiv. ring.
    - (* y faces *)
      intros i j k Hi Hj Hk. rewrite VY.
      destruct (Z.eq_dec j 0) as [E|N0];
        [rewrite (tens_zero_j Rth) by (left; lia); runfold; ring|].
      destruct (Z.eq_dec j ny) as [E|N1].
      { rewrite (tens_zero_j Rth); [runfold; ring|].
        destruct (Z.eq_dec b1 (ny - 1)); [right; split; [lia|auto]|left; lia]. }
      change (snd (fst Hf) i j k) with (snd (fst (get3m Hf i j k))).
      rewrite H_spec, in_box_true by lia. cbn [fst snd].
      destruct (Z.eqb_spec j 0); [lia|]. runfold. unfold Rdiv. ring.
    - (* z faces *)
      intros i j k Hi Hj Hk. rewrite VZ.
      destruct (Z.eq_dec k 0) as [E|N0];
        [rewrite (tens_zero_k Rth) by (left; lia); runfold; ring|].
      destruct (Z.eq_dec k nz) as [E|N1].
      { rewrite (tens_zero_k Rth); [runfold; ring|].
        destruct (Z.eq_dec c2 (nz - 1)); [right; split; [lia|auto]|left; lia]. }
      change (snd Hf i j k) with (snd (get3m Hf i j k)).
      rewrite H_spec, in_box_true by lia. cbn [fst snd].
      destruct (Z.eqb_spec k 0); [lia|]. runfold. unfold Rdiv. ring.
    - intros; rewrite VX, (tens_zero_j Rth) by (left; lia); apply Z0.
    - intros; rewrite VX, (tens_zero_j Rth) by (left; lia); apply Z0.
    - intros; rewrite VX, (tens_zero_k Rth) by (left; lia); apply Z0.
    - intros; rewrite VX, (tens_zero_k Rth) by (left; lia); apply Z0.
    - intros; rewrite VY, (tens_zero_i Rth) by (left; lia); apply Z0.
    - intros; rewrite VY, (tens_zero_i Rth) by (left; lia); apply Z0.
    - intros; rewrite VY, (tens_zero_k Rth) by (left; lia); apply Z0.
    - intros; rewrite VY, (tens_zero_k Rth) by (left; lia); apply Z0.
    - intros; rewrite VZ, (tens_zero_i Rth) by (left; lia); apply Z0.
    - intros; rewrite VZ, (tens_zero_i Rth) by (left; lia); apply Z0.
    - intros; rewrite VZ, (tens_zero_j Rth) by (left; lia); apply Z0.
    - intros; rewrite VZ, (tens_zero_j Rth) by (left; lia); apply Z0.
  Qed.

  Hypothesis G1 : f1 = 0 \/ used Rleb eps f1 = true.
  Hypothesis G2 : f2 = 0 \/ used Rleb eps f2 = true.
  Hypothesis G3 : f3 = 0 \/ used Rleb eps f3 = true.

  Theorem magnetic_transpose :
    exists wx wy wz,
      face_vector Rleb nx ny nz ndx ndy ndz x y z f1 f2 f3 = Some (wx, wy, wz) /\
      get_receiver Rleb nx ny nz ndx ndy ndz eps false
                   (fst (fst Hf)) (snd (fst Hf)) (snd Hf) x y z f1 f2 f3
      = Some (inner3 nx ny nz true (curlT_x wy wz hy hz) (curlT_y wx wz hx hz)
                     (curlT_z wx wy hx hy) ex ey ez / smu0).
  Proof using Hnx Hny Hnz Ix Iy Iz hx_pos hy_pos hz_pos smu0_nz Rx Ry Rz G1 G2 G3.
    destruct (receiver_transpose nx ny nz ndx ndy ndz Hnx Hny Hnz Ix Iy Iz eps false
                (fst (fst Hf)) (snd (fst Hf)) (snd Hf) x y z f1 f2 f3 Rx Ry Rz G1 G2 G3)
      as (wx & wy & wz & P & Q).
    exists wx, wy, wz. split; [exact P|]. rewrite Q. f_equal.
    unfold point_vector_gen in P.
    rewrite (outside_false nx ny nz ndx ndy ndz Hnx Hny Hnz Ix Iy Iz x y z Rx Ry Rz) in P.
    inversion P as [[E1 E2 E3]]. fold vx vy vz. clear P Q E1 E2 E3 wx wy wz.
    destruct face_facts as (FX & FY & FZ & (X1 & X2 & X3 & X4) & (Y1 & Y2 & Y3 & Y4)
                            & (Z1 & Z2 & Z3 & Z4)).
    unfold inner3.
    change (cn false 0 0 nx) with (nx + 1)%Z. change (cn false 0 1 ny) with ny.
    change (cn false 0 2 nz) with nz. change (cn false 1 0 nx) with nx.
    change (cn false 1 1 ny) with (ny + 1)%Z. change (cn false 1 2 nz) with nz.
    change (cn false 2 0 nx) with nx. change (cn false 2 1 ny) with ny.
    change (cn false 2 2 nz) with (nz + 1)%Z.
    change (cn true 0 0 nx) with nx. change (cn true 0 1 ny) with (ny + 1)%Z.
    change (cn true 0 2 nz) with (nz + 1)%Z. change (cn true 1 0 nx) with (nx + 1)%Z.
    change (cn true 1 1 ny) with ny. change (cn true 1 2 nz) with (nz + 1)%Z.
    change (cn true 2 0 nx) with (nx + 1)%Z. change (cn true 2 1 ny) with (ny + 1)%Z.
    change (cn true 2 2 nz) with nz.
    rewrite (sum3_ext (nx + 1) ny nz _ _ FX), (sum3_ext nx (ny + 1) nz _ _ FY),
            (sum3_ext nx ny (nz + 1) _ _ FZ).
    pose proof (curl_adjoint Rth nx ny nz hx hy hz ltac:(lia) ltac:(lia) ltac:(lia)
                  vx vy vz ex ey ez X1 X2 X3 X4 Y1 Y2 Y3 Y4 Z1 Z2 Z3 Z4) as ADJ.
    rewrite <- ADJ.
    change (fun i j k : Z => / smu0 * (vx i j k * curl_x ey ez hy hz i j k))
      with (fun i j k : Z => ((/ smu0) * (fun i j k => vx i j k * curl_x ey ez hy hz i j k)%F i j k)%F).
    change (fun i j k : Z => / smu0 * (vy i j k * curl_y ex ez hx hz i j k))
      with (fun i j k : Z => ((/ smu0) * (fun i j k => vy i j k * curl_y ex ez hx hz i j k)%F i j k)%F).
    change (fun i j k : Z => / smu0 * (vz i j k * curl_z ex ey hx hy i j k))
      with (fun i j k : Z => ((/ smu0) * (fun i j k => vz i j k * curl_z ex ey hx hy i j k)%F i j k)%F).
    rewrite !(sum3_scal Rth). runfold. unfold Rdiv. ring.
  Qed.
End MagR.
