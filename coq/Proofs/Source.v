(* Proofs/Source.v -- C10: lemmas about Model/Source.v.
   Part R: the order-dependent part (_dipole_vector) over Coq's reals.
   Part F: the algebraic part (point source, scaling, conversions, loop) over
   an abstract field. *)
From Coq Require Import ZArith List Bool Reals Lra Lia Field Psatz.
From V Require Import Base.FieldSig Base.Arr Model.Source.
Import ListNotations.

(* ------------------------------------------------------------------ reals *)
#[global] Instance ROpsS : FOps R := {
  F0 := 0%R; F1 := 1%R; Fadd := Rplus; Fmul := Rmult; Fsub := Rminus;
  Fopp := Ropp; Fdiv := Rdiv; Finv := Rinv }.
Definition Rleb (x y : R) : bool := if Rle_dec x y then true else false.

Ltac runf := unfold two, Flit, FofZ, Fpos in *; cbn [F0 F1 Fadd Fmul Fsub Fopp Fdiv Finv ROpsS] in *.

Local Open Scope R_scope.

Lemma Rleb_true x y : Rleb x y = true <-> x <= y.
Proof. unfold Rleb. destruct (Rle_dec x y); split; auto; discriminate. Qed.
Lemma Rleb_false x y : Rleb x y = false <-> y < x.
Proof. unfold Rleb. destruct (Rle_dec x y); split; try discriminate; try lra; auto. Qed.
Lemma fltb_true x y : fltb Rleb x y = true <-> x < y.
Proof. unfold fltb. rewrite negb_true_iff. apply Rleb_false. Qed.
Lemma fltb_false x y : fltb Rleb x y = false <-> y <= x.
Proof. unfold fltb. rewrite negb_false_iff. apply Rleb_true. Qed.
Lemma feqb_true x y : feqb Rleb x y = true <-> x = y.
Proof. unfold feqb. rewrite andb_true_iff, !Rleb_true. lra. Qed.
Lemma feqb_false x y : feqb Rleb x y = false <-> x <> y.
Proof.
  split; intros H.
  - intros E. apply feqb_true in E. congruence.
  - destruct (feqb Rleb x y) eqn:E; auto. apply feqb_true in E. contradiction.
Qed.
Lemma fmax_R a b : fmax Rleb a b = Rmax a b.
Proof. unfold fmax, Rleb, Rmax. destruct (Rle_dec a b); reflexivity. Qed.
Lemma fmin_R a b : fmin Rleb a b = Rmin a b.
Proof. unfold fmin, Rleb, Rmin. destruct (Rle_dec a b); reflexivity. Qed.
Lemma fabs_R a : fabs Rleb a = Rabs a.
Proof.
  unfold fabs, Rleb. runf. destruct (Rle_dec 0 a).
  - rewrite Rabs_right; lra.
  - rewrite Rabs_left; lra.
Qed.

Ltac rmm := unfold Rmax, Rmin in *; repeat destruct (Rle_dec _ _); try lra.

(* ------------------------------------------------------------ list sums *)
Fixpoint lsum {A} (f : A -> R) (l : list A) : R :=
  match l with [] => 0 | x :: t => f x + lsum f t end.

Lemma lsum_app {A} (f : A -> R) l1 l2 : lsum f (l1 ++ l2) = lsum f l1 + lsum f l2.
Proof. induction l1 as [|x l IH]; cbn; [lra | rewrite IH; lra]. Qed.
Lemma lsum_flat_map {A B} (f : B -> R) (g : A -> list B) l :
  lsum f (flat_map g l) = lsum (fun x => lsum f (g x)) l.
Proof. induction l as [|x l IH]; cbn; [reflexivity | rewrite lsum_app, IH; reflexivity]. Qed.
Lemma lsum_map {A B} (f : B -> R) (g : A -> B) l : lsum f (map g l) = lsum (fun x => f (g x)) l.
Proof. induction l as [|x l IH]; cbn; [reflexivity | rewrite IH; reflexivity]. Qed.
Lemma lsum_ext {A} (f g : A -> R) l : (forall x, In x l -> f x = g x) -> lsum f l = lsum g l.
Proof.
  induction l as [|x l IH]; cbn; intros H; [reflexivity|].
  rewrite H by auto. rewrite IH; auto.
Qed.
Lemma lsum_scal {A} (f : A -> R) c l : lsum (fun x => f x * c) l = lsum f l * c.
Proof. induction l as [|x l IH]; cbn; [lra | rewrite IH; lra]. Qed.

Lemma zrange_nil m n : (n <= m)%Z -> zrange m n = [].
Proof. intros H. unfold zrange. replace (Z.to_nat (n - m)) with O by lia. reflexivity. Qed.
Lemma zrange_snoc m n : (m <= n)%Z -> zrange m (n + 1) = zrange m n ++ [n].
Proof.
  intros H. unfold zrange.
  replace (Z.to_nat (n + 1 - m)) with (S (Z.to_nat (n - m))) by lia.
  rewrite seq_S, map_app. cbn. f_equal. f_equal. lia.
Qed.
Lemma zrange_single m : zrange m (m + 1) = [m].
Proof. rewrite zrange_snoc by lia. rewrite zrange_nil by lia. reflexivity. Qed.
Lemma in_zrange m n i : In i (zrange m n) <-> (m <= i < n)%Z.
Proof.
  unfold zrange. rewrite in_map_iff. split.
  - intros [k [<- Hk]]. apply in_seq in Hk. lia.
  - intros H. exists (Z.to_nat (i - m)). split; [lia|]. apply in_seq. lia.
Qed.

(* induction principle for ranges *)
Lemma zrange_ind (P : Z -> Prop) m : P m -> (forall n, (m <= n)%Z -> P n -> P (n + 1)%Z) ->
  forall n, (m <= n)%Z -> P n.
Proof.
  intros H0 Hs n Hn.
  replace n with (m + Z.of_nat (Z.to_nat (n - m)))%Z by lia.
  induction (Z.to_nat (n - m)) as [|k IH].
  - now rewrite Z.add_0_r.
  - replace (m + Z.of_nat (S k))%Z with (m + Z.of_nat k + 1)%Z by lia.
    apply Hs; [lia | exact IH].
Qed.

(* ------------------------------------------- 1-D interval partition lemma *)
(* length of the interval [a, b] (0 when empty) *)
Definition ilen (a b : R) : R := Rmax 0 (b - a).

Lemma ilen_glue a b t0 t1 t2 : t0 <= t1 -> t1 <= t2 ->
  ilen (Rmax a t0) (Rmin b t1) + ilen (Rmax a t1) (Rmin b t2) = ilen (Rmax a t0) (Rmin b t2).
Proof. intros H1 H2. unfold ilen. rmm. Qed.

(* sum_i |[a,b] /\ [t_i, t_{i+1}]| = |[a,b] /\ [t_m, t_n]| for ANY number of
   nodes, nondecreasing *)
Lemma chain_inc (t : Z -> R) a b m : forall n, (m <= n)%Z ->
  (forall i, (m <= i < n)%Z -> t i <= t (i + 1)%Z) ->
  lsum (fun i => ilen (Rmax a (t i)) (Rmin b (t (i + 1)%Z))) (zrange m n)
  = ilen (Rmax a (t m)) (Rmin b (t n)).
Proof.
  intros n Hn. pattern n. revert n Hn. apply zrange_ind.
  - intros _. rewrite zrange_nil by lia. cbn. unfold ilen. rmm.
  - intros n Hn IH Hmono. rewrite zrange_snoc by lia. rewrite lsum_app. cbn.
    rewrite IH by (intros; apply Hmono; lia).
    rewrite Rplus_0_r. apply ilen_glue.
    + clear IH. revert Hmono. pattern n. revert n Hn. apply zrange_ind.
      * intros; lra.
      * intros n Hn IH Hm. apply Rle_trans with (t n).
        -- apply IH. intros; apply Hm; lia.
        -- apply Hm; lia.
    + apply Hmono; lia.
Qed.

(* the same for nonincreasing parameters (segment pointing downwards) *)
Lemma chain_dec (t : Z -> R) a b m : forall n, (m <= n)%Z ->
  (forall i, (m <= i < n)%Z -> t (i + 1)%Z <= t i) ->
  lsum (fun i => ilen (Rmax a (t (i + 1)%Z)) (Rmin b (t i))) (zrange m n)
  = ilen (Rmax a (t n)) (Rmin b (t m)).
Proof.
  intros n Hn. pattern n. revert n Hn. apply zrange_ind.
  - intros _. rewrite zrange_nil by lia. cbn. unfold ilen. rmm.
  - intros n Hn IH Hmono. rewrite zrange_snoc by lia. rewrite lsum_app. cbn.
    rewrite IH by (intros; apply Hmono; lia).
    rewrite Rplus_0_r. rewrite Rplus_comm. apply ilen_glue.
    + apply Hmono; lia.
    + clear IH. revert Hmono. pattern n. revert n Hn. apply zrange_ind.
      * intros; lra.
      * intros n Hn IH Hm. apply Rle_trans with (t n).
        -- apply Hm; lia.
        -- apply IH. intros; apply Hm; lia.
Qed.

(* ------------------------------------------------ clipping, three directions *)
Definition clip1 (nz : bool) (lo hi : R) (J : R * R) : R * R :=
  if nz then (Rmax (fst J) lo, Rmin (snd J) hi) else J.
Definition jlen (J : R * R) : R := ilen (fst J) (snd J).
(* clip by cell i of a direction with parameter values t *)
Definition clipc (nz : bool) (t : Z -> R) (i : Z) (J : R * R) : R * R :=
  clip1 nz (Rmin (t i) (t (i + 1)%Z)) (Rmax (t i) (t (i + 1)%Z)) J.

(* the visited index range [m, n) of a direction covers the parameter
   interval [0,1]: monotone chain of cell intervals (either orientation), or,
   for a direction without extent, exactly one cell *)
Definition covers (nz : bool) (t : Z -> R) (m n : Z) : Prop :=
  if nz then
    (m <= n)%Z /\
    (((forall i, (m <= i < n)%Z -> t i <= t (i + 1)%Z) /\ t m <= 0 /\ 1 <= t n) \/
     ((forall i, (m <= i < n)%Z -> t (i + 1)%Z <= t i) /\ 1 <= t m /\ t n <= 0))
  else n = (m + 1)%Z.

Lemma clip1_comm n1 l1 h1 n2 l2 h2 J :
  clip1 n1 l1 h1 (clip1 n2 l2 h2 J) = clip1 n2 l2 h2 (clip1 n1 l1 h1 J).
Proof. destruct J as [a b], n1, n2; cbn; try reflexivity. f_equal; rmm. Qed.
Lemma clipc_comm n1 t1 i1 n2 t2 i2 J :
  clipc n1 t1 i1 (clipc n2 t2 i2 J) = clipc n2 t2 i2 (clipc n1 t1 i1 J).
Proof. apply clip1_comm. Qed.
Lemma clip1_bounds nz lo hi J : 0 <= fst J -> snd J <= 1 ->
  0 <= fst (clip1 nz lo hi J) /\ snd (clip1 nz lo hi J) <= 1.
Proof. destruct J as [a b], nz; cbn; intros; split; rmm. Qed.
Lemma clipc_bounds nz t i J : 0 <= fst J -> snd J <= 1 ->
  0 <= fst (clipc nz t i J) /\ snd (clipc nz t i J) <= 1.
Proof. apply clip1_bounds. Qed.

Lemma axis_partition nz t m n J : covers nz t m n -> 0 <= fst J -> snd J <= 1 ->
  lsum (fun i => jlen (clipc nz t i J)) (zrange m n) = jlen J.
Proof.
  destruct J as [a b]. unfold covers, clipc, clip1, jlen. cbn [fst snd].
  destruct nz; intros Hc Ha Hb.
  - destruct Hc as [Hmn [[Hmono [H0 H1]] | [Hmono [H1 H0]]]].
    + rewrite (lsum_ext _ (fun i => ilen (Rmax a (t i)) (Rmin b (t (i + 1)%Z)))).
      * rewrite chain_inc by assumption. unfold ilen. rmm.
      * intros i Hi. apply in_zrange in Hi. specialize (Hmono i Hi).
        cbn [fst snd]. rewrite (Rmin_left (t i) (t (i + 1)%Z)), (Rmax_right (t i) (t (i + 1)%Z)) by lra. reflexivity.
    + rewrite (lsum_ext _ (fun i => ilen (Rmax a (t (i + 1)%Z)) (Rmin b (t i)))).
      * rewrite chain_dec by assumption. unfold ilen. rmm.
      * intros i Hi. apply in_zrange in Hi. specialize (Hmono i Hi).
        cbn [fst snd]. rewrite (Rmin_right (t i) (t (i + 1)%Z)), (Rmax_left (t i) (t (i + 1)%Z)) by lra. reflexivity.
  - subst n. rewrite zrange_single. cbn. lra.
Qed.

(* the three nested loops (iz outermost, ix innermost) *)
Definition cells3 (mx nx my ny mz nz : Z) : list (Z * Z * Z) :=
  flat_map (fun iz : Z => flat_map (fun iy : Z => map (fun ix : Z => (ix, iy, iz)) (zrange mx nx))
                                   (zrange my ny)) (zrange mz nz).

Lemma lsum_cells3 (f : Z * Z * Z -> R) mx nx my ny mz nz :
  lsum f (cells3 mx nx my ny mz nz)
  = lsum (fun iz => lsum (fun iy => lsum (fun ix => f (ix, iy, iz)) (zrange mx nx))
                         (zrange my ny)) (zrange mz nz).
Proof.
  unfold cells3. rewrite lsum_flat_map. apply lsum_ext. intros iz _.
  rewrite lsum_flat_map. apply lsum_ext. intros iy _. now rewrite lsum_map.
Qed.

Lemma partition3 nzx tx mx nx nzy ty my ny nzz tz mz nz :
  covers nzx tx mx nx -> covers nzy ty my ny -> covers nzz tz mz nz ->
  lsum (fun c : Z * Z * Z =>
          jlen (clipc nzz tz (snd c) (clipc nzy ty (snd (fst c)) (clipc nzx tx (fst (fst c)) (0, 1)))))
       (cells3 mx nx my ny mz nz) = 1.
Proof.
  intros Hx Hy Hz. rewrite lsum_cells3. cbn [fst snd].
  rewrite (lsum_ext _ (fun iz => jlen (clipc nzz tz iz (0, 1)))).
  - rewrite (axis_partition nzz tz mz nz (0, 1) Hz); cbn; try lra. unfold jlen, ilen. cbn. rmm.
  - intros iz _.
    rewrite (lsum_ext _ (fun iy => jlen (clipc nzy ty iy (clipc nzz tz iz (0, 1))))).
    + apply (axis_partition nzy ty my ny _ Hy); apply clipc_bounds; cbn; lra.
    + intros iy _.
      rewrite (lsum_ext _ (fun ix => jlen (clipc nzx tx ix (clipc nzy ty iy (clipc nzz tz iz (0, 1)))))).
      * apply (axis_partition nzx tx mx nx _ Hx);
          apply clipc_bounds; apply clipc_bounds; cbn; lra.
      * intros ix _. f_equal.
        rewrite (clipc_comm nzy ty iy nzx tx ix). rewrite (clipc_comm nzz tz iz nzx tx ix).
        f_equal. apply clipc_comm.
Qed.

(* ----------------------------------------------------- one cell, abstractly *)
(* facts about al = fst J, ar = snd J for J the (0,1) interval clipped by the
   selected (non-zero) directions *)
Lemma clip_facts nzx lox hix nzy loy hiy nzz loz hiz :
  let J := clip1 nzz loz hiz (clip1 nzy loy hiy (clip1 nzx lox hix (0, 1))) in
  (0 <= fst J /\ snd J <= 1) /\
  (nzx = true -> lox <= fst J /\ snd J <= hix) /\
  (nzy = true -> loy <= fst J /\ snd J <= hiy) /\
  (nzz = true -> loz <= fst J /\ snd J <= hiz) /\
  (fst J = 0 \/ (nzx = true /\ fst J = lox) \/ (nzy = true /\ fst J = loy)
   \/ (nzz = true /\ fst J = loz)) /\
  (snd J = 1 \/ (nzx = true /\ snd J = hix) \/ (nzy = true /\ snd J = hiy)
   \/ (nzz = true /\ snd J = hiz)).
Proof.
  destruct nzx, nzy, nzz; cbn; unfold Rmax, Rmin; repeat destruct (Rle_dec _ _);
    repeat split; intros; try discriminate; try lra; auto 10.
Qed.

Lemma guard_iff_pos (al ar : R) (nzx nzy nzz : bool) (lox hix loy hiy loz hiz : R)
      (inx iny inz : Prop) :
  (0 <= al /\ ar <= 1) ->
  (nzx = true -> lox <= al /\ ar <= hix) ->
  (nzy = true -> loy <= al /\ ar <= hiy) ->
  (nzz = true -> loz <= al /\ ar <= hiz) ->
  (al = 0 \/ (nzx = true /\ al = lox) \/ (nzy = true /\ al = loy) \/ (nzz = true /\ al = loz)) ->
  (ar = 1 \/ (nzx = true /\ ar = hix) \/ (nzy = true /\ ar = hiy) \/ (nzz = true /\ ar = hiz)) ->
  (if nzx then inx <-> lox <= (al + ar) / 2 <= hix else inx) ->
  (if nzy then iny <-> loy <= (al + ar) / 2 <= hiy else iny) ->
  (if nzz then inz <-> loz <= (al + ar) / 2 <= hiz else inz) ->
  ((inx /\ iny /\ inz /\ 0 < Rabs (ar - al)) <-> al < ar).
Proof.
  intros H01 Hx Hy Hz Hal Har Ix Iy Iz. split.
  - intros [Jx [Jy [Jz Hpos]]].
    destruct (Rlt_dec al ar) as [|Hn]; [assumption|exfalso].
    assert (Hlt : ar < al).
    { destruct (Req_dec ar al) as [E|E]; [|lra].
      rewrite E, Rminus_diag_eq, Rabs_R0 in Hpos by reflexivity. lra. }
    destruct nzx, nzy, nzz; cbv iota in *;
      repeat match goal with
             | H : _ <-> _ |- _ => destruct H
             | H : ?a = true -> _ |- _ => first [specialize (H eq_refl) | clear H]
             end;
      intuition (try discriminate; try lra).
  - intros Hlt.
    assert (Hpos : 0 < Rabs (ar - al)) by (rewrite Rabs_right; lra).
    destruct nzx, nzy, nzz; cbv iota in *;
      repeat match goal with
             | H : _ <-> _ |- _ => destruct H
             | H : ?a = true -> _ |- _ => first [specialize (H eq_refl) | clear H]
             end;
      intuition (try discriminate; try lra);
      match goal with H : _ -> _ -> ?g |- ?g => apply H; lra end.
Qed.

(* parameter of a node: node = q0 + u d  ==>  being between two consecutive
   nodes is the same as the parameter being between their parameters *)
Lemma dir_D1 q0 d u u' t n n' : n = q0 + u * d -> n' = q0 + u' * d -> n < n' ->
  Rmin u u' <= t <= Rmax u u' -> n <= q0 + t * d <= n'.
Proof.
  intros -> -> Hlt. unfold Rmin, Rmax. destruct (Rle_dec u u'); intros [H1 H2].
  - assert (0 < d) by nra. split; nra.
  - assert (d < 0) by nra. split; nra.
Qed.
Lemma dir_D2 q0 d u u' t n n' : n = q0 + u * d -> n' = q0 + u' * d -> n < n' ->
  n <= q0 + t * d <= n' -> Rmin u u' <= t <= Rmax u u'.
Proof.
  intros -> -> Hlt [H1 H2]. unfold Rmin, Rmax. destruct (Rle_dec u u').
  - assert (0 < d) by nra. split; nra.
  - assert (d < 0) by nra. split; nra.
Qed.

Lemma r_bounds h x n : 0 < h -> (0 <= (x - n) / h /\ 0 <= 1 - (x - n) / h) <-> (n <= x <= n + h).
Proof.
  intros Hh. assert (E : x - n = (x - n) / h * h) by (field; lra).
  set (r := (x - n) / h) in *. split; intros [H1 H2]; split; nra.
Qed.

(* ------------------------------------------------- connecting to the model *)
Definition axis_ok (A : Axis R) : Prop :=
  (0 < an A)%Z /\
  forall i, (0 <= i < an A)%Z -> 0 < ah A i /\ anode A (i + 1)%Z = anode A i + ah A i.

(* what the per-cell computation needs from a direction: positive width,
   consistent nodes, and for a direction without extent: the cell contains
   the coordinate *)
Definition dir_ok (A : Axis R) (q0 q1 : R) (i : Z) : Prop :=
  0 < ah A i /\ anode A (i + 1)%Z = anode A i + ah A i /\
  (q1 - q0 = 0 -> anode A i <= q0 <= anode A (i + 1)%Z).

Lemma nzd_true q0 q1 : nzd Rleb q0 q1 = true <-> q1 - q0 <> 0.
Proof. unfold nzd. rewrite negb_true_iff. runf. apply feqb_false. Qed.
Lemma nzd_false q0 q1 : nzd Rleb q0 q1 = false <-> q1 - q0 = 0.
Proof. unfold nzd. rewrite negb_false_iff. runf. apply feqb_true. Qed.

Definition inr (A : Axis R) (q0 q1 al ar : R) (i : Z) : Prop :=
  0 <= rfrac A q0 q1 al ar i /\ 0 <= 1 - rfrac A q0 q1 al ar i.

Lemma xc1_eq q0 q1 al ar : xc1 q0 q1 al ar = q0 + (al + ar) / 2 * (q1 - q0).
Proof. unfold xc1. runf. field. Qed.

Lemma dir_in_iff A q0 q1 al ar i : dir_ok A q0 q1 i -> nzd Rleb q0 q1 = true ->
  (inr A q0 q1 al ar i <->
   Rmin (afrac Rleb A q0 q1 i) (afrac Rleb A q0 q1 (i + 1)%Z) <= (al + ar) / 2
   <= Rmax (afrac Rleb A q0 q1 i) (afrac Rleb A q0 q1 (i + 1)%Z)).
Proof.
  intros [Hh [Hn _]] Hnz. unfold inr, rfrac. runf. rewrite (r_bounds _ _ _ Hh), xc1_eq.
  pose proof (proj1 (nzd_true _ _) Hnz) as Hd.
  assert (E : forall j, anode A j = q0 + afrac Rleb A q0 q1 j * (q1 - q0)).
  { intros j. unfold afrac, idd. rewrite Hnz. runf. field. exact Hd. }
  rewrite <- Hn. split.
  - apply (dir_D2 q0 (q1 - q0) _ _ _ _ _ (E i) (E (i + 1)%Z)). lra.
  - apply (dir_D1 q0 (q1 - q0) _ _ _ _ _ (E i) (E (i + 1)%Z)). lra.
Qed.

Lemma dir_in_zero A q0 q1 al ar i : dir_ok A q0 q1 i -> nzd Rleb q0 q1 = false ->
  inr A q0 q1 al ar i.
Proof.
  intros [Hh [Hn Hz]] Hnz. apply nzd_false in Hnz. specialize (Hz Hnz).
  unfold inr, rfrac. runf. rewrite (r_bounds _ _ _ Hh), xc1_eq, Hnz. rewrite <- Hn. lra.
Qed.

Lemma Rleb_min0 a b : Rleb 0 (Rmin a b) = true <-> 0 <= a /\ 0 <= b.
Proof. rewrite Rleb_true. unfold Rmin. destruct (Rle_dec a b); lra. Qed.

Lemma Rmin0 a b : 0 <= Rmin a b <-> 0 <= a /\ 0 <= b.
Proof. unfold Rmin. destruct (Rle_dec a b); lra. Qed.

Lemma cell_guard_iff rx ry rz al ar :
  cell_guard Rleb rx ry rz al ar = true <->
  ((0 <= rx /\ 0 <= 1 - rx) /\ (0 <= ry /\ 0 <= 1 - ry) /\ (0 <= rz /\ 0 <= 1 - rz)
   /\ 0 < Rabs (ar - al)).
Proof.
  unfold cell_guard. rewrite andb_true_iff, !fmin_R, fabs_R, fltb_true. runf.
  rewrite Rleb_true, !Rmin0. tauto.
Qed.

Section Cell.
  Variables (G : Grid R) (p0 p1 : P3 R).
  Let nzX := nzd Rleb (px p0) (px p1).
  Let nzY := nzd Rleb (py p0) (py p1).
  Let nzZ := nzd Rleb (pz p0) (pz p1).
  Let tX := afrac Rleb (gx G) (px p0) (px p1).
  Let tY := afrac Rleb (gy G) (py p0) (py p1).
  Let tZ := afrac Rleb (gz G) (pz p0) (pz p1).

  Definition cellJ (c : Z * Z * Z) : R * R :=
    clipc nzZ tZ (snd c) (clipc nzY tY (snd (fst c)) (clipc nzX tX (fst (fst c)) (0, 1))).

  Lemma cell_al_eq ix iy iz : cell_al Rleb G p0 p1 ix iy iz = fst (cellJ (ix, iy, iz)).
  Proof.
    unfold cell_al, cellJ, clipc, clip1, sel_max, alo. cbn [fst snd].
    fold nzX nzY nzZ tX tY tZ. rewrite !fmin_R.
    destruct nzX, nzY, nzZ; cbn [fst snd]; rewrite ?fmax_R; runf; reflexivity.
  Qed.
  Lemma cell_ar_eq ix iy iz : cell_ar Rleb G p0 p1 ix iy iz = snd (cellJ (ix, iy, iz)).
  Proof.
    unfold cell_ar, cellJ, clipc, clip1, sel_min, ahi. cbn [fst snd].
    fold nzX nzY nzZ tX tY tZ. rewrite !fmax_R.
    destruct nzX, nzY, nzZ; cbn [fst snd]; rewrite ?fmin_R; runf; reflexivity.
  Qed.

  Definition cell_ok (c : Z * Z * Z) : Prop :=
    dir_ok (gx G) (px p0) (px p1) (fst (fst c)) /\
    dir_ok (gy G) (py p0) (py p1) (snd (fst c)) /\
    dir_ok (gz G) (pz p0) (pz p1) (snd c).

  (* the guard holds exactly when the cell meets the segment in positive length *)
  Lemma cell_guard_pos ix iy iz : cell_ok (ix, iy, iz) ->
    let al := cell_al Rleb G p0 p1 ix iy iz in
    let ar := cell_ar Rleb G p0 p1 ix iy iz in
    cell_guard Rleb (rfrac (gx G) (px p0) (px p1) al ar ix) (rfrac (gy G) (py p0) (py p1) al ar iy)
               (rfrac (gz G) (pz p0) (pz p1) al ar iz) al ar = true <-> al < ar.
  Proof.
    intros [Hx [Hy Hz]] al ar. cbn [fst snd] in Hx, Hy, Hz.
    rewrite cell_guard_iff.
    pose proof (clip_facts nzX (Rmin (tX ix) (tX (ix + 1)%Z)) (Rmax (tX ix) (tX (ix + 1)%Z))
                           nzY (Rmin (tY iy) (tY (iy + 1)%Z)) (Rmax (tY iy) (tY (iy + 1)%Z))
                           nzZ (Rmin (tZ iz) (tZ (iz + 1)%Z)) (Rmax (tZ iz) (tZ (iz + 1)%Z))) as CF.
    cbv zeta in CF.
    assert (Eal : al = fst (cellJ (ix, iy, iz))) by apply cell_al_eq.
    assert (Ear : ar = snd (cellJ (ix, iy, iz))) by apply cell_ar_eq.
    unfold cellJ, clipc in Eal, Ear. cbn [fst snd] in Eal, Ear.
    rewrite <- Eal, <- Ear in CF. destruct CF as [C1 [C2 [C3 [C4 [C5 C6]]]]].
    apply (guard_iff_pos al ar nzX nzY nzZ _ _ _ _ _ _
             (inr (gx G) (px p0) (px p1) al ar ix) (inr (gy G) (py p0) (py p1) al ar iy)
             (inr (gz G) (pz p0) (pz p1) al ar iz) C1 C2 C3 C4 C5 C6).
    - destruct nzX eqn:E; [apply (dir_in_iff _ _ _ _ _ _ Hx E) | apply (dir_in_zero _ _ _ _ _ _ Hx E)].
    - destruct nzY eqn:E; [apply (dir_in_iff _ _ _ _ _ _ Hy E) | apply (dir_in_zero _ _ _ _ _ _ Hy E)].
    - destruct nzZ eqn:E; [apply (dir_in_iff _ _ _ _ _ _ Hz E) | apply (dir_in_zero _ _ _ _ _ _ Hz E)].
  Qed.

  (* cell_spread_unity + guard: every component receives exactly the clipped
     length fraction of the cell *)
  Lemma cell_csum c cell : (c = 0 \/ c = 1 \/ c = 2)%Z -> cell_ok cell ->
    csum c (cell_contribs Rleb G p0 p1 cell) = jlen (cellJ cell).
  Proof.
    intros Hc Hok. destruct cell as [[ix iy] iz].
    pose proof (cell_guard_pos ix iy iz Hok) as HG. cbv zeta in HG.
    unfold cell_contribs. cbn [fst snd].
    set (al := cell_al Rleb G p0 p1 ix iy iz) in *.
    set (ar := cell_ar Rleb G p0 p1 ix iy iz) in *.
    unfold jlen. rewrite <- cell_al_eq, <- cell_ar_eq. fold al ar.
    destruct (cell_guard Rleb _ _ _ al ar) eqn:EG.
    - assert (Hlt : al < ar) by (apply HG; reflexivity).
      unfold ilen. rewrite Rmax_right by lra.
      destruct Hc as [-> | [-> | ->]]; cbn [csum fold_right cc cv Z.eqb Pos.eqb];
        rewrite !fabs_R; runf; rewrite Rabs_right by lra; ring.
    - assert (Hge : ~ al < ar) by (intros H; apply HG in H; congruence).
      unfold ilen. rewrite Rmax_left by lra.
      destruct Hc as [-> | [-> | ->]]; reflexivity.
  Qed.
End Cell.

(* ------------------------------------------------------------ cell search *)
Lemma first_gt_aux_spec v vec fuel : forall i,
  let r := first_gt_aux Rleb fuel i v vec in
  (i <= r <= i + Z.of_nat fuel)%Z /\ (forall j, (i <= j < r)%Z -> vec j <= v) /\
  ((r < i + Z.of_nat fuel)%Z -> v < vec r).
Proof.
  induction fuel as [|f IH]; intros i; cbn [first_gt_aux].
  - cbv zeta. split; [lia|]. split; intros; lia.
  - destruct (fltb Rleb v (vec i)) eqn:E.
    + cbv zeta. split; [lia|]. split; [intros; lia|]. intros _. now apply fltb_true.
    + specialize (IH (i + 1)%Z). cbv zeta in IH |- *. destruct IH as [H1 [H2 H3]].
      split; [lia|]. split.
      * intros j Hj. destruct (Z.eq_dec j i) as [->|Hne]; [now apply fltb_false | apply H2; lia].
      * intros H. apply H3. lia.
Qed.

Lemma nodes_mono A : axis_ok A -> forall i j, (0 <= i <= j)%Z -> (j <= an A)%Z -> anode A i <= anode A j.
Proof.
  intros [_ Hok] i j [Hi Hij]. revert j Hij.
  apply (zrange_ind (fun j => (j <= an A)%Z -> anode A i <= anode A j) i).
  - intros; lra.
  - intros j Hij IH Hj. destruct (Hok j) as [Hh Hn]; [lia|]. rewrite Hn.
    specialize (IH ltac:(lia)). lra.
Qed.

(* cell_ind on the node vector of a sorted axis, for a coordinate inside *)
Lemma cell_ind_spec A v : axis_ok A -> anode A 0%Z <= v <= anode A (an A) ->
  let c := cell_ind Rleb v (anode A) (an A + 1) in
  (0 <= c <= an A)%Z /\ anode A c <= v /\ ((c < an A)%Z -> v < anode A (c + 1)%Z).
Proof.
  intros Hax [Hlo Hhi]. cbv zeta. unfold cell_ind, first_gt.
  pose proof (first_gt_aux_spec v (anode A) (Z.to_nat (an A + 1)) 0%Z) as S.
  cbv zeta in S. destruct Hax as [Hn Hok].
  set (r := first_gt_aux Rleb (Z.to_nat (an A + 1)) 0%Z v (anode A)) in *.
  rewrite Z2Nat.id in S by lia. destruct S as [S1 [S2 S3]].
  assert (Hr : (1 <= r)%Z).
  { destruct (Z.eq_dec r 0) as [E|]; [|lia]. rewrite E in S3. specialize (S3 ltac:(lia)). lra. }
  rewrite Z.max_r by lia. split; [lia|]. split.
  - apply S2. lia.
  - intros Hc. replace (r - 1 + 1)%Z with r by lia. apply S3. lia.
Qed.

(* the segment may lie in the upper boundary plane only in the repaired variant *)
Definition upper_ok (clamp : bool) (A : Axis R) (q0 q1 : R) : Prop :=
  clamp = true \/ q0 <> q1 \/ q0 < anode A (an A).
Definition inside1 (A : Axis R) (q : R) : Prop := anode A 0%Z <= q <= anode A (an A).

Lemma afrac_node A q0 q1 j : q1 - q0 <> 0 ->
  anode A j = q0 + afrac Rleb A q0 q1 j * (q1 - q0).
Proof.
  intros Hd. unfold afrac, idd. rewrite (proj2 (nzd_true q0 q1) Hd). runf. field. exact Hd.
Qed.

Lemma axis_range clamp A q0 q1 : axis_ok A -> inside1 A q0 -> inside1 A q1 -> upper_ok clamp A q0 q1 ->
  let m := rlo Rleb clamp A q0 q1 in
  let n := rhi Rleb A q0 q1 in
  covers (nzd Rleb q0 q1) (afrac Rleb A q0 q1) m n /\
  forall i, (m <= i < n)%Z -> dir_ok A q0 q1 i /\ (0 <= i < an A)%Z.
Proof.
  intros Hax I0 I1 Hup. cbv zeta. unfold rlo, rhi. rewrite fmin_R, fmax_R.
  assert (Imin : inside1 A (Rmin q0 q1)) by (unfold inside1, Rmin in *; destruct (Rle_dec q0 q1); lra).
  assert (Imax : inside1 A (Rmax q0 q1)) by (unfold inside1, Rmax in *; destruct (Rle_dec q0 q1); lra).
  pose proof (cell_ind_spec A _ Hax Imin) as Smin. pose proof (cell_ind_spec A _ Hax Imax) as Smax.
  cbv zeta in Smin, Smax.
  set (cmin := cell_ind Rleb (Rmin q0 q1) (anode A) (an A + 1)) in *.
  set (cmax := cell_ind Rleb (Rmax q0 q1) (anode A) (an A + 1)) in *.
  destruct Smin as [Rmn [Lmn Umn]]. destruct Smax as [Rmx [Lmx Umx]].
  pose proof (nodes_mono A Hax) as Mono.
  assert (Hn : (0 < an A)%Z) by apply Hax.
  assert (Hdir : forall i, (0 <= i < an A)%Z -> 0 < ah A i /\ anode A (i + 1)%Z = anode A i + ah A i)
    by apply Hax.
  destruct (nzd Rleb q0 q1) eqn:Enz.
  - (* a direction with extent *)
    pose proof (proj1 (nzd_true _ _) Enz) as Hd.
    assert (Hlt : Rmin q0 q1 < Rmax q0 q1) by (unfold Rmin, Rmax; destruct (Rle_dec q0 q1); lra).
    assert (Hcmin : (cmin < an A)%Z).
    { destruct (Z_lt_dec cmin (an A)); [assumption|]. replace cmin with (an A) in Lmn by lia.
      unfold inside1 in Imax. lra. }
    assert (Hle : (cmin <= cmax)%Z).
    { destruct (Z_le_dec cmin cmax); [assumption|exfalso].
      specialize (Umx ltac:(lia)). specialize (Mono (cmax + 1)%Z cmin ltac:(lia) ltac:(lia)). lra. }
    assert (Em : (if clamp then Z.min (an A - 1) cmin else cmin) = cmin) by (destruct clamp; lia).
    rewrite Em. set (n := Z.min (cmax + 1) (an A)).
    assert (Hn' : Rmax q0 q1 <= anode A n).
    { unfold n. destruct (Z_lt_dec cmax (an A)).
      - rewrite Z.min_l by lia. specialize (Umx ltac:(lia)). lra.
      - rewrite Z.min_r by lia. unfold inside1 in Imax. replace cmax with (an A) in Lmx by lia. lra. }
    assert (Hmn : (cmin <= n)%Z) by (unfold n; lia).
    assert (Hnn : (n <= an A)%Z) by (unfold n; lia).
    split.
    + unfold covers. split; [assumption|].
      pose proof (afrac_node A q0 q1) as E.
      destruct (Rlt_dec q0 q1) as [Hpos|Hneg].
      * left. rewrite Rmin_left in Lmn by lra. rewrite Rmax_right in Hn' by lra.
        split; [|split].
        -- intros i Hi. pose proof (E i Hd). pose proof (E (i + 1)%Z Hd).
           specialize (Mono i (i + 1)%Z ltac:(lia) ltac:(lia)). nra.
        -- pose proof (E cmin Hd). nra.
        -- pose proof (E n Hd). nra.
      * right. assert (q1 < q0) by lra. rewrite Rmin_right in Lmn by lra.
        rewrite Rmax_left in Hn' by lra. split; [|split].
        -- intros i Hi. pose proof (E i Hd). pose proof (E (i + 1)%Z Hd).
           specialize (Mono i (i + 1)%Z ltac:(lia) ltac:(lia)). nra.
        -- pose proof (E cmin Hd). nra.
        -- pose proof (E n Hd). nra.
    + intros i Hi. split; [|lia]. destruct (Hdir i ltac:(lia)) as [Hh Hnode].
      split; [assumption|]. split; [assumption|]. intros Z0. contradiction.
  - (* a direction without extent: exactly one cell, which contains the coordinate *)
    pose proof (proj1 (nzd_false _ _) Enz) as Hd. assert (Eq : q1 = q0) by lra. subst q1.
    assert (Ecm : cmax = cmin) by (unfold cmax, cmin; rewrite Rmin_left, Rmax_left by lra; reflexivity).
    rewrite Rmin_left, Rmax_left in * by lra.
    destruct (Z_lt_dec cmin (an A)) as [Hc|Hc].
    + assert (Em : (if clamp then Z.min (an A - 1) cmin else cmin) = cmin) by (destruct clamp; lia).
      rewrite Em. rewrite Z.min_l by lia. split; [reflexivity|].
      intros i Hi. assert (i = cmin) by lia. subst i. split; [|lia].
      destruct (Hdir cmin ltac:(lia)) as [Hh Hnode]. split; [assumption|]. split; [assumption|].
      intros _. specialize (Umn Hc). lra.
    + assert (Ec : cmin = an A) by lia. unfold inside1 in I0.
      destruct Hup as [Hcl | [Hne | Hlt]]; [| contradiction | rewrite Ec in Lmn; lra].
      subst clamp. rewrite Ec. rewrite Z.min_l by lia. rewrite Z.min_r by lia.
      split; [unfold covers; lia|].
      intros i Hi. assert (i = (an A - 1)%Z) by lia. subst i. split; [|lia].
      destruct (Hdir (an A - 1)%Z ltac:(lia)) as [Hh Hnode]. split; [assumption|]. split; [assumption|].
      intros _. replace (an A - 1 + 1)%Z with (an A) in * by lia.
      rewrite Ec in Lmn. specialize (Mono (an A - 1)%Z (an A) ltac:(lia) ltac:(lia)). lra.
Qed.

(* ------------------------------------------------------------- one segment *)
Definition grid_ok (G : Grid R) : Prop := axis_ok (gx G) /\ axis_ok (gy G) /\ axis_ok (gz G).
Definition inside (G : Grid R) (p : P3 R) : Prop :=
  inside1 (gx G) (px p) /\ inside1 (gy G) (py p) /\ inside1 (gz G) (pz p).
Definition seg_upper_ok (clamp : bool) (G : Grid R) (p0 p1 : P3 R) : Prop :=
  upper_ok clamp (gx G) (px p0) (px p1) /\ upper_ok clamp (gy G) (py p0) (py p1) /\
  upper_ok clamp (gz G) (pz p0) (pz p1).
Definition pcomp (c : Z) (p : P3 R) : R :=
  if Z.eqb c 0 then px p else if Z.eqb c 1 then py p else pz p.

Lemma csum_nil c : csum c (@nil (Contrib R)) = 0.
Proof. reflexivity. Qed.
Lemma csum_cons c (e : Contrib R) l :
  csum c (e :: l) = if Z.eqb (cc e) c then cv e + csum c l else csum c l.
Proof. reflexivity. Qed.
Lemma csum_app c (l1 l2 : list (Contrib R)) : csum c (l1 ++ l2) = csum c l1 + csum c l2.
Proof.
  induction l1 as [|e l IH]; [rewrite csum_nil; cbn [app]; lra|].
  cbn [app]. rewrite !csum_cons, IH. destruct (Z.eqb (cc e) c); lra.
Qed.
Lemma csum_flat_map {A} c (g : A -> list (Contrib R)) l :
  csum c (flat_map g l) = lsum (fun x => csum c (g x)) l.
Proof. induction l as [|x l IH]; cbn [flat_map lsum]; [reflexivity|]. now rewrite csum_app, IH. Qed.

Lemma seg_cells_eq clamp G p0 p1 :
  seg_cells Rleb clamp G p0 p1 =
  cells3 (rlo Rleb clamp (gx G) (px p0) (px p1)) (rhi Rleb (gx G) (px p0) (px p1))
         (rlo Rleb clamp (gy G) (py p0) (py p1)) (rhi Rleb (gy G) (py p0) (py p1))
         (rlo Rleb clamp (gz G) (pz p0) (pz p1)) (rhi Rleb (gz G) (pz p0) (pz p1)).
Proof. reflexivity. Qed.

Lemma in_cells3 c mx nx my ny mz nz : In c (cells3 mx nx my ny mz nz) ->
  (mx <= fst (fst c) < nx)%Z /\ (my <= snd (fst c) < ny)%Z /\ (mz <= snd c < nz)%Z.
Proof.
  unfold cells3. rewrite in_flat_map. intros [iz [Hz H]]. apply in_flat_map in H.
  destruct H as [iy [Hy H]]. apply in_map_iff in H. destruct H as [ix [<- Hx]].
  apply in_zrange in Hx, Hy, Hz. cbn. lia.
Qed.

Section Segment.
  Variables (clamp : bool) (G : Grid R) (p0 p1 : P3 R).
  Hypothesis HG : grid_ok G.
  Hypothesis H0 : inside G p0.
  Hypothesis H1 : inside G p1.
  Hypothesis HU : seg_upper_ok clamp G p0 p1.

  Lemma seg_cell_ok c : In c (seg_cells Rleb clamp G p0 p1) ->
    cell_ok G p0 p1 c /\
    (0 <= fst (fst c) < an (gx G))%Z /\ (0 <= snd (fst c) < an (gy G))%Z /\ (0 <= snd c < an (gz G))%Z.
  Proof.
    rewrite seg_cells_eq. intros Hin. apply in_cells3 in Hin. destruct Hin as [Hx [Hy Hz]].
    destruct HG as [Gx [Gy Gz]], H0 as [Ix [Iy Iz]], H1 as [Jx [Jy Jz]], HU as [Ux [Uy Uz]].
    destruct (axis_range clamp _ _ _ Gx Ix Jx Ux) as [_ Ax].
    destruct (axis_range clamp _ _ _ Gy Iy Jy Uy) as [_ Ay].
    destruct (axis_range clamp _ _ _ Gz Iz Jz Uz) as [_ Az].
    destruct (Ax _ Hx), (Ay _ Hy), (Az _ Hz). unfold cell_ok. tauto.
  Qed.

  (* clip_partition lifted to the model + cell_spread_unity: the un-normalised
     component sums are exactly 1 *)
  Lemma seg_raw_sum c : (c = 0 \/ c = 1 \/ c = 2)%Z -> csum c (seg_raw Rleb clamp G p0 p1) = 1.
  Proof.
    intros Hc. unfold seg_raw. rewrite csum_flat_map.
    rewrite (lsum_ext _ (fun cell => jlen (cellJ G p0 p1 cell))).
    - rewrite seg_cells_eq. unfold cellJ.
      destruct HG as [Gx [Gy Gz]], H0 as [Ix [Iy Iz]], H1 as [Jx [Jy Jz]], HU as [Ux [Uy Uz]].
      apply partition3.
      + apply (axis_range clamp _ _ _ Gx Ix Jx Ux).
      + apply (axis_range clamp _ _ _ Gy Iy Jy Uy).
      + apply (axis_range clamp _ _ _ Gz Iz Jz Uz).
    - intros cell Hin. apply cell_csum; [assumption | apply seg_cell_ok; assumption].
  Qed.

  Lemma norm_warn_one : norm_warn Rleb 1 = false.
  Proof.
    unfold norm_warn. apply fltb_false. rewrite !fabs_R. unfold tol6. runf.
    rewrite Rabs_R1. replace (1 - 1) with 0 by ring. rewrite Rabs_R0. lra.
  Qed.

  Lemma csum_map_scale c (k : Z -> R) (l : list (Contrib R)) :
    csum c (map (fun e => mkC (cc e) (ci e) (cj e) (ck e) (cv e * k (cc e))) l) = csum c l * k c.
  Proof.
    induction l as [|e l IH]; [cbn [map]; rewrite csum_nil; lra|].
    cbn [map]. rewrite !csum_cons, IH. cbn [cc cv]. runf.
    destruct (Z.eqb_spec (cc e) c) as [->|]; lra.
  Qed.

  Lemma seg_vec_eq :
    seg_vec Rleb clamp G p0 p1 =
    map (fun e => mkC (cc e) (ci e) (cj e) (ck e) (cv e * comp_d p0 p1 (cc e)))
        (seg_raw Rleb clamp G p0 p1).
  Proof.
    unfold seg_vec. cbv zeta. rewrite !seg_raw_sum by auto.
    apply map_ext. intros e. f_equal. unfold norm_div, sel3.
    destruct (Z.eqb (cc e) 0), (Z.eqb (cc e) 1); rewrite norm_warn_one; reflexivity.
  Qed.

  Lemma comp_d_eq c : comp_d p0 p1 c = pcomp c p1 - pcomp c p0.
  Proof. unfold comp_d, pcomp. destruct (Z.eqb c 0), (Z.eqb c 1); reflexivity. Qed.

  (* dipole_moment for one segment *)
  Lemma seg_vec_sum c : (c = 0 \/ c = 1 \/ c = 2)%Z ->
    csum c (seg_vec Rleb clamp G p0 p1) = pcomp c p1 - pcomp c p0.
  Proof.
    intros Hc. rewrite seg_vec_eq, (csum_map_scale c (comp_d p0 p1)), seg_raw_sum by assumption.
    rewrite comp_d_eq. lra.
  Qed.

  (* normalisation_guard_inactive *)
  Lemma seg_stat_zero : seg_stat Rleb clamp G p0 p1 = (0, 0, 0)%Z.
  Proof.
    unfold seg_stat. cbv zeta. rewrite !seg_raw_sum by auto. unfold norm_stat.
    now rewrite norm_warn_one.
  Qed.

  (* support_in_touched_cells *)
  Definition edge_of_cell (e : Contrib R) (ix iy iz : Z) : Prop :=
    (0 <= cc e <= 2)%Z /\
    (ci e = ix \/ (ci e = ix + 1 /\ cc e <> 0))%Z /\
    (cj e = iy \/ (cj e = iy + 1 /\ cc e <> 1))%Z /\
    (ck e = iz \/ (ck e = iz + 1 /\ cc e <> 2))%Z.
  Definition in_cell (x y z : R) (ix iy iz : Z) : Prop :=
    anode (gx G) ix <= x <= anode (gx G) (ix + 1)%Z /\
    anode (gy G) iy <= y <= anode (gy G) (iy + 1)%Z /\
    anode (gz G) iz <= z <= anode (gz G) (iz + 1)%Z.

  Lemma seg_support e : In e (seg_raw Rleb clamp G p0 p1) ->
    exists ix iy iz t,
      (0 <= ix < an (gx G))%Z /\ (0 <= iy < an (gy G))%Z /\ (0 <= iz < an (gz G))%Z /\
      edge_of_cell e ix iy iz /\ 0 <= t <= 1 /\
      in_cell (px p0 + t * (px p1 - px p0)) (py p0 + t * (py p1 - py p0))
              (pz p0 + t * (pz p1 - pz p0)) ix iy iz.
  Proof.
    unfold seg_raw. rewrite in_flat_map. intros [[[ix iy] iz] [Hc He]].
    destruct (seg_cell_ok _ Hc) as [Hok [Bx [By Bz]]]. cbn [fst snd] in Bx, By, Bz.
    pose proof (cell_guard_pos G p0 p1 ix iy iz Hok) as HGp. cbv zeta in HGp.
    unfold cell_contribs in He. cbn [fst snd] in He.
    set (al := cell_al Rleb G p0 p1 ix iy iz) in *.
    set (ar := cell_ar Rleb G p0 p1 ix iy iz) in *.
    destruct (cell_guard Rleb _ _ _ al ar) eqn:EG; [|contradiction].
    pose proof (proj1 HGp eq_refl) as Hlt.
    apply cell_guard_iff in EG. destruct EG as [Rx [Ry [Rz _]]].
    destruct Hok as [[hx [nx _]] [[hy [ny _]] [hz [nz _]]]]. cbn [fst snd] in *.
    unfold rfrac in Rx, Ry, Rz. runf.
    apply (r_bounds _ _ _ hx) in Rx. apply (r_bounds _ _ _ hy) in Ry. apply (r_bounds _ _ _ hz) in Rz.
    rewrite xc1_eq in Rx, Ry, Rz. rewrite <- nx in Rx. rewrite <- ny in Ry. rewrite <- nz in Rz.
    assert (B : 0 <= al /\ ar <= 1).
    { unfold al, ar. rewrite cell_al_eq, cell_ar_eq. unfold cellJ. cbn [fst snd].
      repeat apply clipc_bounds; cbn; lra. }
    exists ix, iy, iz, ((al + ar) / 2).
    split; [assumption|]. split; [assumption|]. split; [assumption|]. split.
    - unfold edge_of_cell.
      repeat (destruct He as [<- | He]; [cbn [cc ci cj ck]; repeat split; (lia || (left; lia) || (right; lia))|]).
      contradiction.
    - split; [lra|]. unfold in_cell. tauto.
  Qed.
End Segment.

(* ------------------------------------------------------------------- wires *)
Lemma outside_false G p : outside Rleb G p = false <-> inside G p.
Proof.
  unfold outside, out1, inside, inside1. rewrite !orb_false_iff, !fltb_false. tauto.
Qed.

Lemma segs_cons2 (a b : P3 R) t : segs (a :: b :: t) = (a, b) :: segs (b :: t).
Proof. reflexivity. Qed.

Lemma segs_in (pts : list (P3 R)) s : In s (segs pts) -> In (fst s) pts /\ In (snd s) pts.
Proof.
  induction pts as [|a t IH]; [contradiction|]. destruct t as [|b t]; [contradiction|].
  rewrite segs_cons2. intros [<- | H]; cbn [fst snd].
  - split; [left; reflexivity | right; left; reflexivity].
  - destruct (IH H). split; right; assumption.
Qed.

Lemma segs_telescope c (pts : list (P3 R)) d :
  lsum (fun s => pcomp c (snd s) - pcomp c (fst s)) (segs pts) = pcomp c (last pts d) - pcomp c (hd d pts).
Proof.
  induction pts as [|a t IH]; [cbn; lra|]. destruct t as [|b t]; [cbn; lra|].
  rewrite segs_cons2. cbn [lsum fst snd]. rewrite IH.
  change (last (a :: b :: t) d) with (last (b :: t) d). cbn [hd]. lra.
Qed.

Lemma existsb_false {A} (f : A -> bool) l : existsb f l = false -> forall x, In x l -> f x = false.
Proof.
  intros H x Hx. destruct (f x) eqn:E; [|reflexivity].
  assert (existsb f l = true) by (apply existsb_exists; exists x; auto). congruence.
Qed.

Lemma wire_sum clamp G pts l st c d :
  grid_ok G -> (c = 0 \/ c = 1 \/ c = 2)%Z ->
  (forall s, In s (segs pts) -> seg_upper_ok clamp G (fst s) (snd s)) ->
  dipole_vector Rleb clamp G pts = SOk l st ->
  csum c l = pcomp c (last pts d) - pcomp c (hd d pts) /\ Forall (fun t => t = (0, 0, 0)%Z) st.
Proof.
  intros HG Hc HU. unfold dipole_vector.
  destruct (existsb (outside Rleb G) pts) eqn:Eo; [discriminate|].
  destruct (existsb (nolen Rleb) (segs pts)) eqn:En; [discriminate|].
  intros E. injection E as <- <-.
  pose proof (existsb_false _ _ Eo) as Hin.
  assert (Hseg : forall s, In s (segs pts) -> inside G (fst s) /\ inside G (snd s)).
  { intros s Hs. destruct (segs_in _ _ Hs). split; apply outside_false, Hin; assumption. }
  split.
  - rewrite csum_flat_map. rewrite <- (segs_telescope c pts d). apply lsum_ext.
    intros s Hs. destruct (Hseg s Hs). apply seg_vec_sum; auto.
  - apply Forall_forall. intros t Ht. apply in_map_iff in Ht. destruct Ht as [s [<- Hs]].
    destruct (Hseg s Hs). apply seg_stat_zero; auto.
Qed.

(* support for wires *)
Lemma wire_support clamp G pts l st e :
  grid_ok G -> (forall s, In s (segs pts) -> seg_upper_ok clamp G (fst s) (snd s)) ->
  dipole_vector Rleb clamp G pts = SOk l st -> In e l ->
  exists s ix iy iz t, In s (segs pts) /\
    (0 <= ix < an (gx G))%Z /\ (0 <= iy < an (gy G))%Z /\ (0 <= iz < an (gz G))%Z /\
    edge_of_cell e ix iy iz /\ 0 <= t <= 1 /\
    in_cell G (px (fst s) + t * (px (snd s) - px (fst s))) (py (fst s) + t * (py (snd s) - py (fst s)))
              (pz (fst s) + t * (pz (snd s) - pz (fst s))) ix iy iz.
Proof.
  intros HG HU. unfold dipole_vector.
  destruct (existsb (outside Rleb G) pts) eqn:Eo; [discriminate|].
  destruct (existsb (nolen Rleb) (segs pts)) eqn:En; [discriminate|].
  intros E. injection E as <- <-. intros He.
  pose proof (existsb_false _ _ Eo) as Hin.
  apply in_flat_map in He. destruct He as [s [Hs He]].
  destruct (segs_in _ _ Hs) as [I0 I1]. apply Hin, outside_false in I0. apply Hin, outside_false in I1.
  rewrite (seg_vec_eq clamp G _ _ HG I0 I1 (HU s Hs)) in He.
  apply in_map_iff in He. destruct He as [e0 [<- He0]].
  destruct (seg_support clamp G _ _ HG I0 I1 (HU s Hs) e0 He0) as [ix [iy [iz [t H]]]].
  exists s, ix, iy, iz, t. split; [assumption|]. exact H.
Qed.
