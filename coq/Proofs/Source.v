(* Proofs/Source.v -- C10: lemmas about Model/Source.v.
   Part R: the order-dependent part (_dipole_vector) over Coq's reals.
   Part F: the algebraic part (point source, scaling, conversions, loop) over
   an abstract field. *)
From Coq Require Import ZArith List Bool Reals Lra Lia Field Psatz.
From V Require Import Base.FieldSig Base.Arr Model.Source.
Import ListNotations.

(* ------------------------------------------------------------------ reals *)
#[global] Instance ROpsS : FOps R := {
  F0 := 0%R; F1 := 1%R; Fadd := Rplus; Fmul := Rmult; Fsub := Rminus;
  Fopp := Ropp; Fdiv := Rdiv; Finv := Rinv }.
Definition Rleb (x y : R) : bool := if Rle_dec x y then true else false.

Ltac runf := cbv [F0 F1 Fadd Fmul Fsub Fopp Fdiv Finv ROpsS two Flit FofZ Fpos] in *.

Local Open Scope R_scope.

Lemma Rleb_true x y : Rleb x y = true <-> x <= y.
Proof. unfold Rleb. destruct (Rle_dec x y); split; auto; discriminate. Qed.
Lemma Rleb_false x y : Rleb x y = false <-> y < x.
Proof. unfold Rleb. destruct (Rle_dec x y); split; try discriminate; try lra; auto. Qed.
Lemma fltb_true x y : fltb Rleb x y = true <-> x < y.
Proof. unfold fltb. rewrite negb_true_iff. apply Rleb_false. Qed.
Lemma fltb_false x y : fltb Rleb x y = false <-> y <= x.
Proof. unfold fltb. rewrite negb_false_iff. apply Rleb_true. Qed.
Lemma feqb_true x y : feqb Rleb x y = true <-> x = y.
Proof. unfold feqb. rewrite andb_true_iff, !Rleb_true. lra. Qed.
Lemma feqb_false x y : feqb Rleb x y = false <-> x <> y.
Proof.
  split; intros H.
  - intros E. apply feqb_true in E. congruence.
  - destruct (feqb Rleb x y) eqn:E; auto. apply feqb_true in E. contradiction.
Qed.
Lemma fmax_R a b : fmax Rleb a b = Rmax a b.
Proof. unfold fmax, Rleb, Rmax. destruct (Rle_dec a b); reflexivity. Qed.
Lemma fmin_R a b : fmin Rleb a b = Rmin a b.
Proof. unfold fmin, Rleb, Rmin. destruct (Rle_dec a b); reflexivity. Qed.
Lemma fabs_R a : fabs Rleb a = Rabs a.
Proof.
  unfold fabs, Rleb. runf. destruct (Rle_dec 0 a).
  - rewrite Rabs_right; lra.
  - rewrite Rabs_left; lra.
Qed.

Ltac rmm := unfold Rmax, Rmin in *; repeat destruct (Rle_dec _ _); try lra.

(* ------------------------------------------------------------ list sums *)
Definition lsum {A} (f : A -> R) (l : list A) : R := fold_right (fun x acc => f x + acc) 0 l.

Lemma lsum_app {A} (f : A -> R) l1 l2 : lsum f (l1 ++ l2) = lsum f l1 + lsum f l2.
Proof. induction l1 as [|x l IH]; cbn; [lra | rewrite IH; lra]. Qed.
Lemma lsum_flat_map {A B} (f : B -> R) (g : A -> list B) l :
  lsum f (flat_map g l) = lsum (fun x => lsum f (g x)) l.
Proof. induction l as [|x l IH]; cbn; [reflexivity | rewrite lsum_app, IH; reflexivity]. Qed.
Lemma lsum_map {A B} (f : B -> R) (g : A -> B) l : lsum f (map g l) = lsum (fun x => f (g x)) l.
Proof. induction l as [|x l IH]; cbn; [reflexivity | rewrite IH; reflexivity]. Qed.
Lemma lsum_ext {A} (f g : A -> R) l : (forall x, In x l -> f x = g x) -> lsum f l = lsum g l.
Proof.
  induction l as [|x l IH]; cbn; intros H; [reflexivity|].
  rewrite H by auto. rewrite IH; auto.
Qed.
Lemma lsum_scal {A} (f : A -> R) c l : lsum (fun x => f x * c) l = lsum f l * c.
Proof. induction l as [|x l IH]; cbn; [lra | rewrite IH; lra]. Qed.

Lemma zrange_nil m n : (n <= m)%Z -> zrange m n = [].
Proof. intros H. unfold zrange. replace (Z.to_nat (n - m)) with O by lia. reflexivity. Qed.
Lemma zrange_snoc m n : (m <= n)%Z -> zrange m (n + 1) = zrange m n ++ [n].
Proof.
  intros H. unfold zrange.
  replace (Z.to_nat (n + 1 - m)) with (S (Z.to_nat (n - m))) by lia.
  rewrite seq_S, map_app. cbn. f_equal. f_equal. lia.
Qed.
Lemma zrange_single m : zrange m (m + 1) = [m].
Proof. rewrite zrange_snoc by lia. rewrite zrange_nil by lia. reflexivity. Qed.
Lemma in_zrange m n i : In i (zrange m n) <-> (m <= i < n)%Z.
Proof.
  unfold zrange. rewrite in_map_iff. split.
  - intros [k [<- Hk]]. apply in_seq in Hk. lia.
  - intros H. exists (Z.to_nat (i - m)). split; [lia|]. apply in_seq. lia.
Qed.

(* induction principle for ranges *)
Lemma zrange_ind (P : Z -> Prop) m : P m -> (forall n, (m <= n)%Z -> P n -> P (n + 1)%Z) ->
  forall n, (m <= n)%Z -> P n.
Proof.
  intros H0 Hs n Hn.
  replace n with (m + Z.of_nat (Z.to_nat (n - m)))%Z by lia.
  induction (Z.to_nat (n - m)) as [|k IH].
  - now rewrite Z.add_0_r.
  - replace (m + Z.of_nat (S k))%Z with (m + Z.of_nat k + 1)%Z by lia.
    apply Hs; [lia | exact IH].
Qed.

(* ------------------------------------------- 1-D interval partition lemma *)
(* length of the interval [a, b] (0 when empty) *)
Definition ilen (a b : R) : R := Rmax 0 (b - a).

Lemma ilen_glue a b t0 t1 t2 : t0 <= t1 -> t1 <= t2 ->
  ilen (Rmax a t0) (Rmin b t1) + ilen (Rmax a t1) (Rmin b t2) = ilen (Rmax a t0) (Rmin b t2).
Proof. intros H1 H2. unfold ilen. rmm. Qed.

(* sum_i |[a,b] /\ [t_i, t_{i+1}]| = |[a,b] /\ [t_m, t_n]| for ANY number of
   nodes, nondecreasing *)
Lemma chain_inc (t : Z -> R) a b m : forall n, (m <= n)%Z ->
  (forall i, (m <= i < n)%Z -> t i <= t (i + 1)%Z) ->
  lsum (fun i => ilen (Rmax a (t i)) (Rmin b (t (i + 1)%Z))) (zrange m n)
  = ilen (Rmax a (t m)) (Rmin b (t n)).
Proof.
  intros n Hn. pattern n. revert n Hn. apply zrange_ind.
  - intros _. rewrite zrange_nil by lia. cbn. unfold ilen. rmm.
  - intros n Hn IH Hmono. rewrite zrange_snoc by lia. rewrite lsum_app. cbn.
    rewrite IH by (intros; apply Hmono; lia).
    rewrite Rplus_0_r. apply ilen_glue.
    + clear IH. revert Hmono. pattern n. revert n Hn. apply zrange_ind.
      * intros; lra.
      * intros n Hn IH Hm. apply Rle_trans with (t n).
        -- apply IH. intros; apply Hm; lia.
        -- apply Hm; lia.
    + apply Hmono; lia.
Qed.

(* the same for nonincreasing parameters (segment pointing downwards) *)
Lemma chain_dec (t : Z -> R) a b m : forall n, (m <= n)%Z ->
  (forall i, (m <= i < n)%Z -> t (i + 1)%Z <= t i) ->
  lsum (fun i => ilen (Rmax a (t (i + 1)%Z)) (Rmin b (t i))) (zrange m n)
  = ilen (Rmax a (t n)) (Rmin b (t m)).
Proof.
  intros n Hn. pattern n. revert n Hn. apply zrange_ind.
  - intros _. rewrite zrange_nil by lia. cbn. unfold ilen. rmm.
  - intros n Hn IH Hmono. rewrite zrange_snoc by lia. rewrite lsum_app. cbn.
    rewrite IH by (intros; apply Hmono; lia).
    rewrite Rplus_0_r. rewrite Rplus_comm. apply ilen_glue.
    + apply Hmono; lia.
    + clear IH. revert Hmono. pattern n. revert n Hn. apply zrange_ind.
      * intros; lra.
      * intros n Hn IH Hm. apply Rle_trans with (t n).
        -- apply Hm; lia.
        -- apply IH. intros; apply Hm; lia.
Qed.
