(* Proofs/Sched.v -- lemmas for property C11 (model: Model/Sched.v). *)
From Coq Require Import List Arith Bool String ZArith Lia Permutation.
From V Require Import Model.Sched.
Import ListNotations.

(* ------------------------------------------------------------------ *)
(* Pool: invariant of every trace                                      *)
(* ------------------------------------------------------------------ *)
Section PoolProofs.
  Context {T R : Type}.
  Variable f : T -> R.

  Definition res_of (it : @item T) : nat * R := (fst it, f (snd it)).

  (* everything that was submitted, as (index, result) pairs *)
  Definition image (p : @pool T R) : list (nat * R) :=
    map res_of (pending p) ++ map res_of (map snd (running p)) ++ completed p.

  Lemma take_perm w (rs : list (nat * @item T)) it rest :
    take w rs = Some (it, rest) -> Permutation (map snd rs) (it :: map snd rest).
  Proof.
    revert it rest. induction rs as [|r rs IH]; intros it rest H; cbn in H.
    - discriminate.
    - destruct (Nat.eqb (fst r) w).
      + inversion H; subst. cbn. apply Permutation_refl.
      + destruct (take w rs) as [[it' rest']|] eqn:E; [|discriminate].
        inversion H; subst. cbn.
        eapply Permutation_trans; [apply perm_skip, (IH _ _ eq_refl)|]. apply perm_swap.
  Qed.

  Lemma step_image nw p s p' :
    do_step f nw p s = Some p' -> Permutation (image p) (image p').
  Proof.
    destruct s as [w|w]; unfold do_step.
    - destruct (Nat.ltb w nw && negb (busy w (running p))); [|discriminate].
      destruct (pending p) as [|it rest] eqn:Ep; [discriminate|].
      intros H; inversion H; subst. unfold image. cbn. rewrite Ep. cbn.
      apply Permutation_middle.
    - destruct (take w (running p)) as [[it rest]|] eqn:Et; [|discriminate].
      intros H; inversion H; subst. unfold image. cbn.
      apply Permutation_app_head.
      apply take_perm in Et.
      eapply Permutation_trans.
      { apply Permutation_app_tail. apply Permutation_map. exact Et. }
      cbn. rewrite app_assoc.
      eapply Permutation_trans; [apply Permutation_cons_append|].
      rewrite <- !app_assoc. apply Permutation_refl.
  Qed.

  Lemma run_image nw tr : forall p p',
    run f nw p tr = Some p' -> Permutation (image p) (image p').
  Proof.
    induction tr as [|s tr IH]; intros p p' H; cbn in H.
    - inversion H. apply Permutation_refl.
    - destruct (do_step f nw p s) as [q|] eqn:E; [|discriminate].
      eapply Permutation_trans; [eapply step_image; eassumption|]. now apply IH.
  Qed.

  Lemma quiescent_image p : quiescent p = true -> image p = completed p.
  Proof.
    unfold quiescent, image. destruct (pending p); [|discriminate].
    destruct (running p); [|discriminate]. reflexivity.
  Qed.

  Lemma image_submit tasks :
    image (submit_all tasks) = map res_of (combine (seq 0 (List.length tasks)) tasks).
  Proof. unfold image, submit_all. cbn. now rewrite app_nil_r. Qed.

  (* the indexed results *)
  Definition indexed (s : nat) (tasks : list T) : list (nat * R) :=
    map res_of (combine (seq s (List.length tasks)) tasks).

  Lemma indexed_fst s tasks : map fst (indexed s tasks) = seq s (List.length tasks).
  Proof.
    unfold indexed. revert s. induction tasks as [|t ts IH]; intros s; cbn; [reflexivity|].
    now rewrite IH.
  Qed.

  Lemma indexed_in s tasks j t :
    nth_error tasks j = Some t -> In (s + j, f t) (indexed s tasks).
  Proof.
    unfold indexed. revert s j. induction tasks as [|a ts IH]; intros s j H.
    - destruct j; discriminate.
    - destruct j as [|j]; cbn in H |- *.
      + inversion H; subst. left. unfold res_of. cbn. f_equal. lia.
      + right. replace (s + S j) with (S s + j) by lia. now apply IH.
  Qed.

  Lemma lookup_in (l : list (nat * R)) i r :
    NoDup (map fst l) -> In (i, r) l -> lookup i l = Some r.
  Proof.
    induction l as [|[j q] l IH]; intros Hnd Hin; cbn in *; [contradiction|].
    inversion Hnd as [|? ? Hnotin Hnd']; subst.
    destruct Hin as [Heq|Hin].
    - inversion Heq; subst. now rewrite Nat.eqb_refl.
    - destruct (Nat.eqb_spec j i) as [->|Hne].
      + exfalso. apply Hnotin. change i with (fst (i, r)). now apply in_map.
      + now apply IH.
  Qed.

  Lemma map_lookup_seq (done : list (nat * R)) : forall tasks s,
    (forall j t, nth_error tasks j = Some t -> lookup (s + j) done = Some (f t)) ->
    map (fun i => lookup i done) (seq s (List.length tasks)) = map (fun t => Some (f t)) tasks.
  Proof.
    induction tasks as [|a ts IH]; intros s H; cbn; [reflexivity|].
    f_equal.
    - specialize (H 0 a eq_refl). now rewrite Nat.add_0_r in H.
    - apply IH. intros j t Hj. replace (S s + j) with (s + S j) by lia. now apply H.
  Qed.

  (* Core: ANY permutation of the indexed results, read by submission index,
     gives the sequential list. *)
  Lemma ordered_collect_perm tasks done :
    Permutation done (indexed 0 tasks) ->
    collect_ordered (List.length tasks) done = sequential f tasks.
  Proof.
    intros HP. unfold collect_ordered, sequential.
    assert (Hnd : NoDup (map fst done)).
    { eapply Permutation_NoDup; [apply Permutation_sym, Permutation_map, HP|].
      rewrite indexed_fst. apply seq_NoDup. }
    apply map_lookup_seq. intros j t Hj. apply lookup_in; [exact Hnd|].
    eapply Permutation_in; [apply Permutation_sym, HP|]. now apply (indexed_in 0).
  Qed.

  Lemma run_completed nw tr tasks p :
    run f nw (submit_all tasks) tr = Some p -> quiescent p = true ->
    Permutation (completed p) (indexed 0 tasks).
  Proof.
    intros Hr Hq. apply run_image in Hr. rewrite image_submit in Hr.
    rewrite (quiescent_image _ Hq) in Hr. apply Permutation_sym. exact Hr.
  Qed.

  (* Every trace, every number of workers. *)
  Lemma ordered_collect_trace nw tr tasks p :
    run f nw (submit_all tasks) tr = Some p -> quiescent p = true ->
    collect_ordered (List.length tasks) (completed p) = sequential f tasks.
  Proof. intros Hr Hq. apply ordered_collect_perm. eapply run_completed; eassumption. Qed.

  Lemma collect_ordered_tag c nw tr tasks p :
    is_ordered c = true ->
    run f nw (submit_all tasks) tr = Some p -> quiescent p = true ->
    collect f c tasks (completed p) = sequential f tasks.
  Proof.
    intros Hc Hr Hq. destruct c; cbn in Hc; try discriminate; cbn;
      try reflexivity; eapply ordered_collect_trace; eassumption.
  Qed.

  (* ---- schedules exist: the sequential one ... ---- *)
  Lemma seq_trace_runs : forall (its : list (@item T)) done,
    run f 1 (mkPool its [] done) (seq_trace (List.length its))
    = Some (mkPool [] [] (done ++ map res_of its)).
  Proof.
    induction its as [|it its IH]; intros done; cbn.
    - now rewrite app_nil_r.
    - rewrite IH. cbn. now rewrite <- app_assoc.
  Qed.

  Lemma schedule_exists_seq tasks :
    exists p, run f 1 (submit_all tasks) (seq_trace (List.length tasks)) = Some p
              /\ quiescent p = true.
  Proof.
    unfold submit_all.
    pose proof (seq_trace_runs (combine (seq 0 (List.length tasks)) tasks) []) as H.
    unfold item in H. rewrite combine_length, seq_length, Nat.min_id in H.
    eexists. split; [exact H|reflexivity].
  Qed.

  (* ---- ... and EVERY completion order is reachable with enough workers ---- *)
  Definition started (its : list (@item T)) : list (nat * @item T) :=
    map (fun it => (fst it, it)) its.

  Lemma start_all : forall (its : list (@item T)) (run0 : list (nat * @item T)) nw s,
    map fst its = seq s (List.length its) ->
    s + List.length its <= nw ->
    (forall r, In r run0 -> fst r < s) ->
    run f nw (mkPool its run0 []) (map Start (seq s (List.length its)))
    = Some (mkPool [] (rev (started its) ++ run0) []).
  Proof.
    induction its as [|it its IH]; intros run0 nw s Hfst Hnw Hrun; cbn -[Nat.ltb].
    - reflexivity.
    - destruct it as [i t]. cbn [map fst List.length seq] in Hfst.
      injection Hfst as Hs Hrest. subst i.
      assert (Hlt : Nat.ltb s nw = true) by (apply Nat.ltb_lt; cbn in Hnw; lia).
      assert (Hb : busy s run0 = false).
      { unfold busy. apply not_true_is_false. intros Hex.
        apply existsb_exists in Hex. destruct Hex as [r [Hin Heq]].
        apply Nat.eqb_eq in Heq. specialize (Hrun r Hin). lia. }
      cbn [List.length seq map run]. unfold do_step. cbn [pending running completed].
      unfold busy in Hb. rewrite Hlt, Hb. cbn [andb negb].
      etransitivity; [apply (IH ((s, (s, t)) :: run0) nw (S s))|].
      + exact Hrest.
      + cbn in Hnw. lia.
      + intros r [<-|Hin]; cbn; [lia|]. specialize (Hrun r Hin). lia.
      + f_equal. f_equal. unfold started. cbn [map rev fst]. rewrite <- app_assoc. reflexivity.
  Qed.

  Lemma take_started : forall (rs : list (nat * @item T)) w,
    NoDup (map fst rs) -> (forall r, In r rs -> fst (snd r) = fst r) ->
    In w (map fst rs) ->
    exists t rest, take w rs = Some ((w, t), rest)
                   /\ Permutation rs ((w, (w, t)) :: rest).
  Proof.
    induction rs as [|r rs IH]; intros w Hnd Hid Hin; cbn in *; [contradiction|].
    destruct (Nat.eqb_spec (fst r) w) as [Heq|Hne].
    - destruct r as [w' [i t]]. cbn in *. subst w'.
      assert (i = w) by (specialize (Hid _ (or_introl eq_refl)); cbn in Hid; exact Hid).
      subst i. exists t, rs. split; [reflexivity|apply Permutation_refl].
    - destruct Hin as [Hin|Hin]; [contradiction|].
      inversion Hnd; subst.
      destruct (IH w) as [t [rest [Ht HP]]]; auto.
      rewrite Ht. exists t, (r :: rest). split; [reflexivity|].
      eapply Permutation_trans; [apply perm_skip, HP|apply perm_swap].
  Qed.

  Lemma finish_all : forall (sigma : list nat) (rs : list (nat * @item T)) nw done,
    NoDup (map fst rs) -> (forall r, In r rs -> fst (snd r) = fst r) ->
    Permutation sigma (map fst rs) ->
    exists p, run f nw (mkPool [] rs done) (map Finish sigma) = Some p
              /\ quiescent p = true
              /\ map fst (completed p) = map fst done ++ sigma.
  Proof.
    induction sigma as [|w sigma IH]; intros rs nw done Hnd Hid HP; cbn.
    - apply Permutation_nil in HP. destruct rs; [|discriminate].
      eexists. split; [reflexivity|]. split; [reflexivity|]. cbn. now rewrite app_nil_r.
    - assert (Hin : In w (map fst rs)).
      { eapply Permutation_in; [exact HP|now left]. }
      destruct (take_started rs w Hnd Hid Hin) as [t [rest [Ht HPr]]].
      rewrite Ht. cbn.
      assert (Hnd' : NoDup (map fst ((w, (w, t)) :: rest))).
      { eapply Permutation_NoDup; [apply Permutation_map, HPr|exact Hnd]. }
      cbn in Hnd'. inversion Hnd' as [|? ? Hnotin Hnd'']; subst.
      destruct (IH rest nw (done ++ [(w, f t)])) as [p [Hr [Hq Hc]]].
      + exact Hnd''.
      + intros r Hr. apply Hid. eapply Permutation_in; [apply Permutation_sym, HPr|now right].
      + apply (Permutation_cons_inv (a := w)).
        eapply Permutation_trans; [exact HP|]. apply (Permutation_map fst) in HPr. exact HPr.
      + exists p. split; [exact Hr|]. split; [exact Hq|].
        rewrite Hc, map_app. cbn. now rewrite <- app_assoc.
  Qed.

  Lemma every_permutation_schedulable tasks sigma :
    Permutation sigma (seq 0 (List.length tasks)) ->
    exists p, run f (List.length tasks) (submit_all tasks)
                  (perm_trace (List.length tasks) sigma) = Some p
              /\ quiescent p = true
              /\ map fst (completed p) = sigma.
  Proof.
    intros HP. unfold perm_trace, submit_all.
    set (its := combine (seq 0 (List.length tasks)) tasks).
    assert (Hlen : List.length its = List.length tasks).
    { unfold its, item. now rewrite combine_length, seq_length, Nat.min_id. }
    assert (Hfst : map fst its = seq 0 (List.length its)).
    { rewrite Hlen. unfold its.
      clear. generalize 0. induction tasks as [|t ts IH]; intros s; cbn; [reflexivity|].
      now rewrite IH. }
    assert (Hrun : forall tr2,
      run f (List.length tasks) (mkPool its [] []) (map Start (seq 0 (List.length tasks)) ++ tr2)
      = run f (List.length tasks) (mkPool [] (rev (started its)) []) tr2).
    { intros tr2. rewrite <- Hlen at 2.
      pose proof (start_all its [] (List.length tasks) 0 Hfst) as Hs.
      rewrite app_nil_r in Hs.
      assert (Happ : forall tr1 tr2 p q, run f (List.length tasks) p tr1 = Some q ->
                run f (List.length tasks) p (tr1 ++ tr2) = run f (List.length tasks) q tr2).
      { clear. induction tr1 as [|s tr1 IH]; intros tr2 p q H; cbn in *.
        - now inversion H.
        - destruct (do_step f (List.length tasks) p s); [|discriminate]. now apply IH. }
      apply Happ. apply Hs; [unfold item; rewrite Hlen; exact (Nat.le_refl _)|intros r []]. }
    rewrite Hrun.
    assert (Hmf : map fst (rev (started its)) = rev (seq 0 (List.length tasks))).
    { rewrite map_rev. f_equal. unfold started. rewrite map_map. cbn.
      rewrite <- Hlen. exact Hfst. }
    destruct (finish_all sigma (rev (started its)) (List.length tasks) []) as [p [Hr [Hq Hc]]].
    - rewrite Hmf. apply NoDup_rev, seq_NoDup.
    - intros r Hr. apply in_rev in Hr. unfold started in Hr. apply in_map_iff in Hr.
      destruct Hr as [it [<- _]]. reflexivity.
    - rewrite Hmf. eapply Permutation_trans; [exact HP|apply Permutation_rev].
    - exists p. repeat split; assumption.
  Qed.
End PoolProofs.

(* contrast collector: the same statement is FALSE *)
Lemma as_completed_counterexample :
  exists (tasks : list nat) (nw : nat) (tr : list step) (p : @pool nat nat),
    run (fun x => x) nw (submit_all tasks) tr = Some p /\ quiescent p = true /\
    collect (fun x => x) CAsCompleted tasks (completed p) <> sequential (fun x => x) tasks.
Proof.
  exists [10; 20], 2, [Start 0; Start 1; Finish 1; Finish 0].
  eexists. split; [vm_compute; reflexivity|]. split; [reflexivity|].
  vm_compute. discriminate.
Qed.

(* ------------------------------------------------------------------ *)
(* Store loop                                                          *)
(* ------------------------------------------------------------------ *)
Section StoreProofs.
  Context {K V : Type}.
  Variable keqb : K -> K -> bool.
  Hypothesis keqb_spec : forall a b, reflect (a = b) (keqb a b).

  Lemma dset_same (d : @dict K V) k v : dset keqb d k v k = Some v.
  Proof. unfold dset. destruct (keqb_spec k k); congruence. Qed.

  Lemma dset_other (d : @dict K V) k v k' : k' <> k -> dset keqb d k v k' = d k'.
  Proof. unfold dset. intros H. destruct (keqb_spec k' k); congruence. Qed.

  Definition store_from (s : nat) (keys : list K) (out : list (option V)) (d : @dict K V)
    : @dict K V :=
    fold_left (fun d ik => match nth (fst ik) out None with
                           | Some v => dset keqb d (snd ik) v
                           | None => d
                           end)
              (combine (seq s (List.length keys)) keys) d.

  Lemma store_from_frame : forall keys s out d k,
    ~ In k keys -> store_from s keys out d k = d k.
  Proof.
    induction keys as [|a keys IH]; intros s out d k Hk; cbn; [reflexivity|].
    unfold store_from in IH. rewrite IH by (intros H; apply Hk; now right).
    destruct (nth s out None); [|reflexivity].
    apply dset_other. intros ->. apply Hk. now left.
  Qed.

  Lemma store_from_slot : forall keys s out d j k v,
    NoDup keys -> nth_error keys j = Some k -> nth (s + j) out None = Some v ->
    store_from s keys out d k = Some v.
  Proof.
    induction keys as [|a keys IH]; intros s out d j k v Hnd Hj Hv.
    - destruct j; discriminate.
    - inversion Hnd as [|? ? Hnotin Hnd']; subst. destruct j as [|j]; cbn in Hj.
      + inversion Hj; subst. rewrite Nat.add_0_r in Hv. cbn.
        change (store_from (S s) keys out
                  (match nth s out None with Some v0 => dset keqb d k v0 | None => d end) k
                = Some v).
        rewrite store_from_frame by exact Hnotin. rewrite Hv. apply dset_same.
      + cbn. unfold store_from in IH. apply (IH (S s) out _ j k v Hnd' Hj).
        replace (S s + j) with (s + S j) by lia. exact Hv.
  Qed.

  Lemma store_is_store_from keys out d : store keqb keys out d = store_from 0 keys out d.
  Proof. reflexivity. Qed.

  (* slots_correct: with distinct keys, slot k_j holds out[j]; other slots untouched *)
  Lemma slots_correct keys (vals : list V) d j k v :
    NoDup keys -> nth_error keys j = Some k -> nth_error vals j = Some v ->
    store keqb keys (map Some vals) d k = Some v.
  Proof.
    intros Hnd Hk Hv. rewrite store_is_store_from.
    apply (store_from_slot keys 0 _ d j k v Hnd Hk). cbn.
    clear - Hv. revert j Hv. induction vals as [|a vals IH]; intros j Hv.
    - destruct j; discriminate.
    - destruct j; cbn in *; [congruence|now apply IH].
  Qed.

  Lemma store_frame keys out (d : @dict K V) k : ~ In k keys -> store keqb keys out d k = d k.
  Proof. intros H. rewrite store_is_store_from. now apply store_from_frame. Qed.

  (* ---- a whole compute() ---- *)
  Context {T : Type}.
  Variable f : T -> V.
  Variable mk : K -> option V -> T.

  Lemma compute_slots c nw tr keys d d' :
    is_ordered c = true -> NoDup keys ->
    compute keqb f mk c nw tr keys d = Some d' ->
    (forall k, In k keys -> d' k = Some (f (mk k (d k)))) /\
    (forall k, ~ In k keys -> d' k = d k).
  Proof.
    intros Hc Hnd Hcomp. unfold compute in Hcomp.
    destruct (run f nw (submit_all (tasks_of mk keys d)) tr) as [p|] eqn:Hr; [|discriminate].
    destruct (quiescent p) eqn:Hq; [|discriminate].
    inversion Hcomp; subst d'. clear Hcomp.
    rewrite (collect_ordered_tag f c nw tr _ p Hc Hr Hq).
    split.
    - intros k Hk. apply In_nth_error in Hk. destruct Hk as [j Hj].
      unfold sequential. rewrite <- map_map.
      apply (slots_correct keys _ d j k _ Hnd Hj).
      unfold tasks_of. rewrite map_map. rewrite nth_error_map, Hj. reflexivity.
    - intros k Hk. now apply store_frame.
  Qed.

  (* two runs under different schedules / worker counts / ordered collectors agree *)
  Lemma compute_schedule_independent c1 c2 nw1 nw2 tr1 tr2 keys d d1 d2 :
    is_ordered c1 = true -> is_ordered c2 = true -> NoDup keys ->
    compute keqb f mk c1 nw1 tr1 keys d = Some d1 ->
    compute keqb f mk c2 nw2 tr2 keys d = Some d2 ->
    forall k, d1 k = d2 k.
  Proof.
    intros H1 H2 Hnd Hc1 Hc2 k.
    destruct (compute_slots _ _ _ _ _ _ H1 Hnd Hc1) as [A1 B1].
    destruct (compute_slots _ _ _ _ _ _ H2 Hnd Hc2) as [A2 B2].
    destruct (in_dec (fun a b => reflect_dec _ _ (keqb_spec a b)) k keys) as [Hin|Hout].
    - now rewrite A1, A2.
    - now rewrite B1, B2.
  Qed.

  (* recomputation: the second compute starts every task from the stored
     result; solver contract: restarting from its own result returns it *)
  Lemma recompute_idem c1 c2 nw1 nw2 tr1 tr2 keys d d1 d2 :
    (forall k g, f (mk k (Some (f (mk k g)))) = f (mk k g)) ->
    is_ordered c1 = true -> is_ordered c2 = true -> NoDup keys ->
    compute keqb f mk c1 nw1 tr1 keys d = Some d1 ->
    compute keqb f mk c2 nw2 tr2 keys d1 = Some d2 ->
    forall k, d2 k = d1 k.
  Proof.
    intros Hfix H1 H2 Hnd Hc1 Hc2 k.
    destruct (compute_slots _ _ _ _ _ _ H1 Hnd Hc1) as [A1 B1].
    destruct (compute_slots _ _ _ _ _ _ H2 Hnd Hc2) as [A2 B2].
    destruct (in_dec (fun a b => reflect_dec _ _ (keqb_spec a b)) k keys) as [Hin|Hout].
    - rewrite (A2 k Hin), (A1 k Hin). f_equal. apply Hfix.
    - now rewrite B2.
  Qed.
End StoreProofs.

(* ------------------------------------------------------------------ *)
(* source x frequency keys                                             *)
(* ------------------------------------------------------------------ *)
Lemma nodup_app {A} (l m : list A) :
  NoDup l -> NoDup m -> (forall x, In x l -> ~ In x m) -> NoDup (l ++ m).
Proof.
  induction l as [|a l IH]; intros Hl Hm Hd; cbn; [exact Hm|].
  inversion Hl; subst. constructor.
  - intros Hin. apply in_app_or in Hin. destruct Hin as [Hin|Hin]; [contradiction|].
    apply (Hd a); [now left|exact Hin].
  - apply IH; auto. intros x Hx. apply Hd. now right.
Qed.

Lemma srcfreq_nodup_lemma {A B} (l : list A) (m : list B) :
  NoDup l -> NoDup m -> NoDup (srcfreq l m).
Proof.
  unfold srcfreq. intros Hl Hm. induction Hl as [|a l Hnotin Hl IH]; cbn; [constructor|].
  apply nodup_app.
  - apply FinFun.Injective_map_NoDup; [|exact Hm]. intros x y H. now inversion H.
  - exact IH.
  - intros [x y] Hx Hy. apply in_map_iff in Hx. destruct Hx as [b [Hb _]]. inversion Hb; subst.
    apply in_prod_iff in Hy. destruct Hy as [Hy _]. contradiction.
Qed.

Lemma srcfreq_complete_lemma {A B} (l : list A) (m : list B) a b :
  In (a, b) (srcfreq l m) <-> In a l /\ In b m.
Proof. unfold srcfreq. apply in_prod_iff. Qed.

(* ------------------------------------------------------------------ *)
(* File hand-over                                                      *)
(* ------------------------------------------------------------------ *)
Section FileProofs.
  Context {K T B : Type}.
  Variable name : K -> string.
  Variable enc : T -> B.
  Variable dec : B -> T.
  Hypothesis dec_enc : forall t, dec (enc t) = t.       (* io.save / io.load round trip (C17) *)

  Lemma write_all_other (mk : K -> T) keys s n :
    (forall k, In k keys -> name k <> n) -> write_all name enc mk keys s n = s n.
  Proof.
    revert s. induction keys as [|a keys IH]; intros s H; cbn; [reflexivity|].
    unfold write_all in IH. rewrite IH by (intros k Hk; apply H; now right).
    unfold fwrite. destruct (String.eqb_spec n (name a)) as [E|E]; [|reflexivity].
    exfalso. apply (H a); [now left|now symmetry].
  Qed.

  (* file names distinct on the key list => every worker reads its own task *)
  Lemma file_mode_same_lemma (mk : K -> T) keys s k :
    NoDup (map name keys) -> In k keys ->
    read_task name dec (write_all name enc mk keys s) k = Some (mk k).
  Proof.
    revert s. induction keys as [|a keys IH]; intros s Hnd Hk; cbn in *; [contradiction|].
    inversion Hnd as [|? ? Hnotin Hnd']; subst. destruct Hk as [->|Hk].
    - unfold read_task. change (fold_left _ keys ?s0) with (write_all name enc mk keys s0).
      rewrite write_all_other.
      + unfold fwrite. rewrite String.eqb_refl. now rewrite dec_enc.
      + intros k' Hk' E. apply Hnotin. rewrite <- E. now apply in_map.
    - now apply IH.
  Qed.

  (* two keys with the same file name: the earlier task is lost *)
  Lemma file_collision_lemma (mk : K -> T) pre k1 mid k2 s :
    name k1 = name k2 -> (forall k, In k mid -> name k <> name k1) ->
    let keys := pre ++ k1 :: mid ++ [k2] in
    read_task name dec (write_all name enc mk keys s) k1 = Some (mk k2).
  Proof.
    intros Hn Hmid keys. unfold keys, write_all. rewrite fold_left_app. cbn.
    rewrite fold_left_app. cbn. unfold read_task, fwrite at 1.
    rewrite <- Hn, String.eqb_refl. now rewrite dec_enc.
  Qed.
End FileProofs.

(* ------------------------------------------------------------------ *)
(* The survey: keys = sources x frequencies                            *)
(* ------------------------------------------------------------------ *)
Section SurveyProofs.
  Context {S Fq V T : Type}.
  Variable keqb : (S * Fq) -> (S * Fq) -> bool.
  Hypothesis keqb_spec : forall a b, reflect (a = b) (keqb a b).
  Variable f : T -> V.
  Variable mk : (S * Fq) -> option V -> T.

  Lemma survey_slots_lemma c nw tr sources freqs d d' :
    is_ordered c = true -> NoDup sources -> NoDup freqs ->
    compute keqb f mk c nw tr (srcfreq sources freqs) d = Some d' ->
    forall s fr, In s sources -> In fr freqs ->
      d' (s, fr) = Some (f (mk (s, fr) (d (s, fr)))).
  Proof.
    intros Hc Hs Hf Hcomp s fr Hins Hinf.
    destruct (compute_slots keqb keqb_spec f mk c nw tr _ d d' Hc
                (srcfreq_nodup_lemma _ _ Hs Hf) Hcomp) as [A _].
    apply A. now apply srcfreq_complete_lemma.
  Qed.
End SurveyProofs.

(* concrete schedules used as non-vacuity examples *)
Definition ex_tasks : list nat := [10; 20; 30].
Definition ex_trace_reversed : list step :=
  [Start 0; Start 1; Start 2; Finish 2; Finish 1; Finish 0].
Definition ex_trace_two_workers : list step :=
  [Start 1; Start 0; Finish 0; Start 0; Finish 0; Finish 1].

Lemma ex_reversed_runs :
  exists p, run (fun x => x * x) 3 (submit_all ex_tasks) ex_trace_reversed = Some p
            /\ quiescent p = true
            /\ map fst (completed p) = [2; 1; 0]
            /\ collect_ordered 3 (completed p) = [Some 100; Some 400; Some 900].
Proof. eexists. repeat split; vm_compute; reflexivity. Qed.

Lemma ex_two_workers_runs :
  exists p, run (fun x => x * x) 2 (submit_all ex_tasks) ex_trace_two_workers = Some p
            /\ quiescent p = true
            /\ map fst (completed p) = [1; 2; 0]
            /\ collect (fun x => x * x) CTqdmProcessMap ex_tasks (completed p)
               = [Some 100; Some 400; Some 900].
Proof. eexists. repeat split; vm_compute; reflexivity. Qed.

Definition nat2_eqb (a b : nat * nat) : bool :=
  Nat.eqb (fst a) (fst b) && Nat.eqb (snd a) (snd b).

Lemma nat2_eqb_spec a b : reflect (a = b) (nat2_eqb a b).
Proof.
  destruct a as [a1 a2], b as [b1 b2]. unfold nat2_eqb. cbn.
  destruct (Nat.eqb_spec a1 b1), (Nat.eqb_spec a2 b2); cbn; constructor; congruence.
Qed.

(* 2 sources x 2 frequencies, 3 workers, tasks finishing in the order 2,0,3,1 *)
Lemma ex_compute_runs :
  exists d', compute nat2_eqb (fun t : nat => t + 1) (fun k _ => 10 * fst k + snd k)
               CExecutorMap 3
               [Start 0; Start 1; Start 2; Finish 2; Start 2; Finish 0; Finish 2; Finish 1]
               (srcfreq [1; 2] [5; 7]) (fun _ => None) = Some d'
             /\ map d' (srcfreq [1; 2] [5; 7]) = [Some 16; Some 18; Some 26; Some 28].
Proof. eexists. split; vm_compute; reflexivity. Qed.

(* the tolerance of a run depends on its kind only, not on the runs before it *)
Lemma last_run_tol_lemma {A} (tf tg : A) (history : list run_kind) k :
  last_run_tol tf tg history k = tol_of tf tg k.
Proof. unfold last_run_tol. now rewrite last_last. Qed.

(* ------------------------------------------------------------------ *)
(* On-demand computation of ONE slot (get_efield, recomputation)       *)
(* ------------------------------------------------------------------ *)
Section OnDemand.
  Context {K V T : Type}.
  Variable keqb : K -> K -> bool.
  Hypothesis keqb_spec : forall a b, reflect (a = b) (keqb a b).
  Variable f : T -> V.
  Variable mk : K -> option V -> T.

  Lemma on_demand_slot c nw tr k d d' :
    is_ordered c = true ->
    compute keqb f mk c nw tr [k] d = Some d' ->
    d' k = Some (f (mk k (d k))) /\ (forall k', k' <> k -> d' k' = d k').
  Proof.
    intros Hc H.
    destruct (compute_slots keqb keqb_spec f mk c nw tr [k] d d' Hc
                (NoDup_cons k (@in_nil K k) (NoDup_nil K)) H) as [A B].
    split; [apply A; now left|]. intros k' Hne. apply B. intros [E|[]]. congruence.
  Qed.
End OnDemand.

(* writing the hand-over file of one slot leaves the files of all slots with
   another name as they were *)
Lemma fwrite_other {B} (s : @fs B) n n' b : n' <> n -> fwrite s n b n' = s n'.
Proof.
  intros H. unfold fwrite. destruct (String.eqb_spec n' n); [contradiction|reflexivity].
Qed.

(* ------------------------------------------------------------------ *)
(* Histories of operations: tolerance of every task                    *)
(* ------------------------------------------------------------------ *)
Lemma carry_ok {A} (tf tg : A) (tw : tol_writes) :
  (forall k, tw k = TWrite k) ->
  forall rq reg, Forall (task_ok tf tg) (snd (carry tf tg tw reg rq)).
Proof.
  intros Hown rq. induction rq as [|q r IH]; intros reg.
  - cbn. constructor.
  - destruct q as [k i|k]; cbn [carry].
    + cbn [snd]. constructor.
      * unfold task_ok, task_tol. cbn [fst snd]. rewrite Hown. reflexivity.
      * apply IH.
    + apply IH.
Qed.

Lemma run_hist_ok {A} (tf tg : A) (tw : tol_writes) (wrap : bool) :
  (forall k, tw k = TWrite k) ->
  forall ops st reg, Forall (task_ok tf tg) (run_hist tf tg tw wrap st reg ops).
Proof.
  intros Hown ops. induction ops as [|o r IH]; intros st reg.
  - cbn. constructor.
  - cbn [run_hist]. apply Forall_app. split.
    + apply carry_ok. exact Hown.
    + apply IH.
Qed.

(* collectors that trust the register + a wrapper around the adjoint stages:
   compute -> clean('keepresults') -> jvec re-solves the dropped forward fields
   with tol_gradient (2 slots, tol_forward = 7, tol_gradient = 3) *)
Lemma trusting_wrapped_refuted_lemma :
  exists ops : list hop,
    In (KForward, 0, 3)
       (run_hist 7 3 trusting true (mkHS [false; false] false) 7 ops)
    /\ ~ task_ok 7 3 (KForward, 0, 3).
Proof.
  exists [HCompute; HCleanKeep; HJvec]. split.
  - vm_compute. right. right. left. reflexivity.
  - unfold task_ok. cbn. discriminate.
Qed.

Lemma ex_run_hist_nested :
  run_hist 7 3 (fun k => TWrite k) true (mkHS [false; false] false) 7
           [HCompute; HCleanKeep; HJvec]
  = [(KForward, 0, 7); (KForward, 1, 7);
     (KForward, 0, 7); (KJvec, 0, 3); (KForward, 1, 7); (KJvec, 1, 3)].
Proof. vm_compute. reflexivity. Qed.
