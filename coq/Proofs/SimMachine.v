(* Proofs/SimMachine.v -- invariant, history independence, independence of
   copies, tolerance discipline for Model/SimMachine.v; refutation witnesses
   for the behaviour as found.  (Property C12.) *)
From Coq Require Import ZArith List Bool Arith Lia.
From V Require Import Model.SimMachine.
Import ListNotations.

(* ------------------------------------------------------------ list helpers *)
Lemma existsb_all_false {A} (f : A -> bool) l : (forall x, f x = false) -> existsb f l = false.
Proof. intros Hf. induction l as [|a l IH]; cbn; [reflexivity|]. rewrite Hf, IH. reflexivity. Qed.

Lemma find_all_false {A} (f : A -> bool) l : (forall x, f x = false) -> find f l = None.
Proof. intros Hf. induction l as [|a l IH]; cbn; [reflexivity|]. rewrite Hf. exact IH. Qed.

Lemma mem_in i l : mem i l = true <-> In i l.
Proof.
  unfold mem. rewrite existsb_exists. split.
  - intros (x & Hin & Hx). apply Nat.eqb_eq in Hx. subst. exact Hin.
  - intros Hin. exists i. split; [exact Hin | apply Nat.eqb_refl].
Qed.

Lemma mem_seq i n : i < n -> mem i (seq 0 n) = true.
Proof. intros Hi. apply mem_in. apply in_seq. lia. Qed.

Lemma mem_filter_seq (f : nat -> bool) i n : i < n -> f i = true -> mem i (filter f (seq 0 n)) = true.
Proof. intros Hi Hf. apply mem_in. apply filter_In. split; [apply in_seq; lia | exact Hf]. Qed.

Lemma nth_error_upd_same {A} k (x : A) l : k < length l -> nth_error (upd_nth k x l) k = Some x.
Proof.
  revert k. induction l as [|a l IH]; intros k Hk; cbn in Hk; [lia|].
  destruct k as [|k]; cbn; [reflexivity|]. apply IH. lia.
Qed.

Lemma nth_error_upd_other {A} k j (x : A) l : j <> k -> nth_error (upd_nth k x l) j = nth_error l j.
Proof.
  revert k j. induction l as [|a l IH]; intros k j Hjk.
  - destruct k; reflexivity.
  - destruct k as [|k], j as [|j]; cbn; try reflexivity; try congruence.
    apply IH. congruence.
Qed.

Lemma length_upd_nth {A} k (x : A) l : length (upd_nth k x l) = length l.
Proof.
  revert k. induction l as [|a l IH]; intros k; destruct k; cbn; try reflexivity.
  rewrite IH. reflexivity.
Qed.

Lemma Forall_upd_nth {A} (P : A -> Prop) k x l : Forall P l -> P x -> Forall P (upd_nth k x l).
Proof.
  intros Hl Hx. revert k. induction Hl as [|a l Ha Hl IH]; intros k.
  - destruct k; constructor.
  - destruct k as [|k]; cbn; constructor; auto.
Qed.

Lemma Forall_nth_error {A} (P : A -> Prop) l k x : Forall P l -> nth_error l k = Some x -> P x.
Proof. intros Hl Hk. rewrite Forall_forall in Hl. apply Hl. eapply nth_error_In. exact Hk. Qed.

(* ---------------------------------------------------------------- invariant *)
(* Coherence: every cached tag is the quantity OF THE CURRENT MODEL that its
   accessor promises. *)
Definition Inv_sim (n : nat) (s : sim) : Prop :=
  let m := s_model s in
  (forall i t, s_efield s i = Some t -> t = Efield m i) /\
  (forall i, s_syn s i = NaN \/ s_syn s i = Syn m i) /\
  (s_computed s = true -> forall i, i < n -> s_syn s i = Syn m i) /\
  (forall t, s_residual s = Some t -> t = Residual m) /\
  (forall t, s_weights s = Some t -> t = Weights) /\
  (forall t, s_misfit s = Some t ->
      t = Misfit m /\ s_residual s = Some (Residual m) /\ s_weights s = Some Weights) /\
  (forall t, s_gradient s = Some t -> t = Grad m).

Definition Inv (w : world) : Prop :=
  w_file w = false /\ Forall (Inv_sim (w_n w)) (w_sims w).

Ltac inv_destruct H :=
  let He := fresh "He" in let Hs := fresh "Hs" in let Hc := fresh "Hc" in
  let Hr := fresh "Hr" in let Hw := fresh "Hw" in let Hm := fresh "Hm" in
  let Hg := fresh "Hg" in
  destruct H as (He & Hs & Hc & Hr & Hw & Hm & Hg).

Lemma inv_init_sim n m : Inv_sim n (init_sim m).
Proof.
  unfold Inv_sim, init_sim; cbn. repeat split; intros; try discriminate; auto.
Qed.

Lemma inv_init n m : Inv (init_world n false m).
Proof. split; [reflexivity|]. cbn. constructor; [apply inv_init_sim | constructor]. Qed.

(* ------------------------------------------------ memory mode: sub-steps *)
Definition EfOK (s : sim) : Prop := forall i t, s_efield s i = Some t -> t = Efield (s_model s) i.

Lemma eff_mem st s i : eff false st s i = s_efield s i.
Proof. unfold eff. destruct (s_efield s i); reflexivity. Qed.

Lemma missing_mem st s i : EfOK s -> missing false st s i = false.
Proof.
  intros He. unfold missing. rewrite eff_mem. destruct (s_efield s i) as [t|] eqn:E; [|reflexivity].
  apply He in E. subst. reflexivity.
Qed.

(* what a forward computation of the slots [sl] does *)
Definition after_fwd (s : sim) (sl : list nat) : sim :=
  set_fields (match sl with [] => s | _ => set_tol s TFwd end)
    (fun i => if mem i sl then Some (Efield (s_model s) i) else s_efield s i)
    (fun i => if mem i sl then Syn (s_model s) i else s_syn s i).

Lemma compute_slots_mem st s sl : EfOK s ->
  compute_slots false st s sl =
  mkRes (after_fwd s sl) (fun i => st i)
        (map (fun i => mkSolve KF i TFwd (isSome (eff false st s i)) (s_model s)) sl) None.
Proof.
  intros He. unfold compute_slots.
  rewrite (existsb_all_false _ _ (fun i => missing_mem st s i He)). reflexivity.
Qed.

Definition todo_of (n : nat) (s : sim) : list nat :=
  filter (fun i => negb (isSome (s_efield s i))) (seq 0 n).

Lemma ensure_all_mem n st s : EfOK s ->
  ensure_all n false st s =
  mkRes (after_fwd s (todo_of n s)) (fun i => st i)
        (map (fun i => mkSolve KF i TFwd false (s_model s)) (todo_of n s)) None.
Proof.
  intros He. unfold ensure_all.
  rewrite (find_all_false _ _ (fun i => missing_mem st s i He)). reflexivity.
Qed.

Lemma after_fwd_model s sl : s_model (after_fwd s sl) = s_model s.
Proof. destruct sl; reflexivity. Qed.
Lemma after_fwd_computed s sl : s_computed (after_fwd s sl) = s_computed s.
Proof. destruct sl; reflexivity. Qed.
Lemma after_fwd_misfit s sl : s_misfit (after_fwd s sl) = s_misfit s.
Proof. destruct sl; reflexivity. Qed.
Lemma after_fwd_gradient s sl : s_gradient (after_fwd s sl) = s_gradient s.
Proof. destruct sl; reflexivity. Qed.
Lemma after_fwd_residual s sl : s_residual (after_fwd s sl) = s_residual s.
Proof. destruct sl; reflexivity. Qed.
Lemma after_fwd_weights s sl : s_weights (after_fwd s sl) = s_weights s.
Proof. destruct sl; reflexivity. Qed.
Lemma after_fwd_efield s sl i :
  s_efield (after_fwd s sl) i = if mem i sl then Some (Efield (s_model s) i) else s_efield s i.
Proof. destruct sl; reflexivity. Qed.
Lemma after_fwd_syn s sl i :
  s_syn (after_fwd s sl) i = if mem i sl then Syn (s_model s) i else s_syn s i.
Proof. destruct sl; reflexivity. Qed.

Lemma after_fwd_efok s sl : EfOK s -> EfOK (after_fwd s sl).
Proof.
  intros He i t. rewrite after_fwd_efield, after_fwd_model.
  destruct (mem i sl); [intros E; inversion E; reflexivity | apply He].
Qed.

Lemma after_fwd_inv n s sl : Inv_sim n s -> Inv_sim n (after_fwd s sl).
Proof.
  intros H. inv_destruct H. unfold Inv_sim; cbv zeta.
  rewrite after_fwd_model, after_fwd_computed, after_fwd_misfit, after_fwd_gradient,
          after_fwd_residual, after_fwd_weights.
  split; [intros i t Hit; pose proof (after_fwd_efok s sl He i t Hit) as X;
          rewrite after_fwd_model in X; exact X|].
  split; [intros i; rewrite after_fwd_syn; destruct (mem i sl); auto|].
  split; [intros Hcomp i Hi; rewrite after_fwd_syn; destruct (mem i sl); auto|].
  auto.
Qed.

(* after ensure_all every slot holds the field of the current model *)
Lemma ensure_all_fills n s i : EfOK s -> i < n ->
  s_efield (after_fwd s (todo_of n s)) i = Some (Efield (s_model s) i).
Proof.
  intros He Hi. rewrite after_fwd_efield.
  destruct (mem i (todo_of n s)) eqn:Em; [reflexivity|].
  destruct (s_efield s i) as [t|] eqn:E.
  - apply He in E. subst. reflexivity.
  - unfold todo_of in Em. rewrite mem_filter_seq in Em; [discriminate | exact Hi | rewrite E; reflexivity].
Qed.

Lemma all_syn_true n (y : nat -> tag) m : (forall i, i < n -> y i = Syn m i) -> all_syn n y m = true.
Proof.
  intros H. unfold all_syn. apply forallb_forall. intros i Hi. apply in_seq in Hi.
  rewrite H by lia. rewrite !Nat.eqb_refl. reflexivity.
Qed.

Lemma all_ef_true n (e : nat -> option tag) m :
  (forall i, i < n -> e i = Some (Efield m i)) -> all_ef n e m = true.
Proof.
  intros H. unfold all_ef. apply forallb_forall. intros i Hi. apply in_seq in Hi.
  rewrite H by lia. rewrite !Nat.eqb_refl. reflexivity.
Qed.

(* ---- compute ---- *)
Lemma do_compute_mem n st s : Inv_sim n s ->
  let r := do_compute n false st s in
  r_err r = None /\ Inv_sim n (r_sim r) /\ s_model (r_sim r) = s_model s /\
  s_computed (r_sim r) = true /\
  (forall i, i < n -> s_syn (r_sim r) i = Syn (s_model s) i) /\
  s_misfit (r_sim r) = s_misfit s /\ s_gradient (r_sim r) = s_gradient s.
Proof.
  intros H. pose proof H as H0. inv_destruct H0.
  unfold do_compute. rewrite (compute_slots_mem st s _ He). cbn [r_err r_sim r_store r_trace].
  pose proof (after_fwd_inv n s (seq 0 n) H) as HI.
  assert (Hsyn : forall i, i < n -> s_syn (after_fwd s (seq 0 n)) i = Syn (s_model s) i).
  { intros i Hi. rewrite after_fwd_syn, mem_seq by exact Hi. reflexivity. }
  split; [reflexivity|].
  split.
  { inv_destruct HI. unfold Inv_sim; cbv zeta.
    cbn [set_computed s_model s_efield s_syn s_computed s_residual s_weights s_misfit s_gradient].
    split; [assumption|]. split; [assumption|].
    split; [intros _ i Hi; rewrite after_fwd_model; apply Hsyn; exact Hi|]. auto. }
  cbn [set_computed s_model s_efield s_syn s_computed s_residual s_weights s_misfit s_gradient].
  rewrite after_fwd_model, after_fwd_misfit, after_fwd_gradient. auto.
Qed.

(* ---- misfit ---- *)
Lemma do_misfit_mem n st s : Inv_sim n s ->
  let r := do_misfit n false st s in
  r_err r = None /\ Inv_sim n (r_sim r) /\ s_model (r_sim r) = s_model s /\
  s_misfit (r_sim r) = Some (Misfit (s_model s)) /\
  s_gradient (r_sim r) = s_gradient s.
Proof.
  intros H. pose proof H as H0. inv_destruct H0. unfold do_misfit.
  destruct (s_misfit s) as [t|] eqn:Emf.
  - cbn. destruct (Hm t eq_refl) as (-> & _). auto.
  - set (R := if s_computed s then mkRes s st [] None else do_compute n false st s).
    assert (HR : r_err R = None /\ Inv_sim n (r_sim R) /\ s_model (r_sim R) = s_model s /\
                 s_computed (r_sim R) = true /\ s_gradient (r_sim R) = s_gradient s).
    { unfold R. destruct (s_computed s) eqn:Ec.
      - cbn. auto.
      - pose proof (do_compute_mem n st s H) as HC. cbv zeta in HC.
        destruct HC as (E1 & E2 & E3 & E4 & _ & _ & E8). auto. }
    destruct HR as (E1 & HI1 & Em1 & Ec1 & Eg1). rewrite E1.
    set (s1 := r_sim R) in *.
    pose proof HI1 as HI1'. inv_destruct HI1'.
    assert (Hres : residual_of n s1 = Residual (s_model s1)).
    { unfold residual_of. rewrite all_syn_true; [reflexivity|]. intros i Hi. apply Hc0; assumption. }
    assert (Hwt : match s_weights s1 with Some t => Some t | None => Some Weights end = Some Weights).
    { destruct (s_weights s1) as [t|] eqn:Ew; [|reflexivity]. rewrite (Hw0 t eq_refl). reflexivity. }
    rewrite Hwt, Hres. cbn [misfit_of r_err r_sim r_store r_trace].
    split; [reflexivity|].
    split.
    { unfold Inv_sim; cbv zeta.
      cbn [set_misfit s_model s_efield s_syn s_computed s_residual s_weights s_misfit s_gradient].
      split; [assumption|]. split; [assumption|]. split; [assumption|].
      split; [intros t E; inversion E; reflexivity|].
      split; [intros t E; inversion E; reflexivity|].
      split; [intros t E; inversion E; auto|]. assumption. }
    cbn [set_misfit s_model s_misfit s_gradient]. rewrite Em1. auto.
Qed.

(* ---- the gradient loop (repaired) on a state with EfOK; the residual may be
   the true residual or w/weights (inside jtvec) ---- *)
Definition grad_expected (s : sim) : tag :=
  match s_residual s with
  | Some (WOverW w) => Jt (s_model s) w
  | _ => Grad (s_model s)
  end.

Lemma grad_core_mem q n st s : q_keep q = false ->
  EfOK s -> s_weights s = Some Weights ->
  (s_residual s = Some (Residual (s_model s)) \/ exists w, s_residual s = Some (WOverW w)) ->
  let r := grad_core q n false st s in
  r_err r = None /\
  s_gradient (r_sim r) = Some (grad_expected s) /\
  s_model (r_sim r) = s_model s /\ s_computed (r_sim r) = s_computed s /\
  s_misfit (r_sim r) = s_misfit s /\ s_residual (r_sim r) = s_residual s /\
  s_weights (r_sim r) = s_weights s /\
  EfOK (r_sim r) /\
  (forall i, s_syn (r_sim r) i = s_syn s i \/ s_syn (r_sim r) i = Syn (s_model s) i) /\
  (forall i, s_syn s i = Syn (s_model s) i -> s_syn (r_sim r) i = Syn (s_model s) i).
Proof.
  intros Hq He Ew Er. unfold grad_core. rewrite Hq.
  set (s2 := set_tol (set_grad s None true) TGrad).
  assert (He2 : EfOK s2) by exact He.
  rewrite (ensure_all_mem n st s2 He2). cbn [r_err r_sim r_store r_trace].
  set (s3 := after_fwd s2 (todo_of n s2)).
  assert (Hm3 : s_model s3 = s_model s) by (unfold s3; rewrite after_fwd_model; reflexivity).
  assert (Hall : all_ef n (eff false (fun i => st i) s3) (s_model s3) = true).
  { apply all_ef_true. intros i Hi. rewrite eff_mem. unfold s3.
    rewrite (ensure_all_fills n s2 i He2 Hi), after_fwd_model. reflexivity. }
  assert (Hgo : grad_of n false (fun i => st i) s3 = grad_expected s).
  { unfold grad_of. cbv zeta. rewrite Hall, Hm3.
    assert (R3 : s_residual s3 = s_residual s) by (unfold s3; rewrite after_fwd_residual; reflexivity).
    assert (W3 : s_weights s3 = s_weights s) by (unfold s3; rewrite after_fwd_weights; reflexivity).
    rewrite R3, W3, Ew. unfold grad_expected.
    destruct Er as [Er | (w & Er)]; rewrite Er; [rewrite Nat.eqb_refl|]; reflexivity. }
  rewrite Hgo.
  cbn [set_grad s_model s_efield s_syn s_computed s_residual s_weights s_misfit s_gradient].
  unfold s3. rewrite after_fwd_model, after_fwd_computed, after_fwd_misfit, after_fwd_residual,
                     after_fwd_weights.
  cbn [s2 set_tol set_grad s_model s_efield s_syn s_computed s_residual s_weights s_misfit s_gradient].
  repeat (split; [reflexivity|]).
  split.
  { intros i t. apply (after_fwd_efok s2 (todo_of n s2) He2). }
  split.
  { intros i. rewrite after_fwd_syn. destruct (mem i (todo_of n s2)); auto. }
  intros i Hy. rewrite after_fwd_syn. destruct (mem i (todo_of n s2)); [reflexivity | exact Hy].
Qed.

Lemma do_gradient_mem q n st s : q_keep q = false -> Inv_sim n s ->
  let r := do_gradient q n false st s in
  r_err r = None /\ Inv_sim n (r_sim r) /\ s_model (r_sim r) = s_model s /\
  s_gradient (r_sim r) = Some (Grad (s_model s)).
Proof.
  intros Hq H. pose proof H as H0. inv_destruct H0. unfold do_gradient.
  destruct (s_gradient s) as [g|] eqn:Eg.
  - cbn. rewrite (Hg g eq_refl) in Eg. auto.
  - pose proof (do_misfit_mem n st s H) as HM. cbv zeta in HM.
    destruct HM as (M1 & M2 & M3 & M4 & M5). rewrite M1.
    set (s1 := r_sim (do_misfit n false st s)) in *.
    set (st1 := r_store (do_misfit n false st s)).
    pose proof M2 as M2'. inv_destruct M2'.
    destruct (Hm0 _ M4) as (_ & Er1 & Ew1).
    pose proof (grad_core_mem q n st1 s1 Hq He0 Ew1 (or_introl Er1)) as HG. cbv zeta in HG.
    destruct HG as (G1 & G2 & G3 & G4 & G5 & G6 & G7 & G8 & G9 & G10).
    cbn [r_err r_sim r_store r_trace].
    split; [exact G1|].
    assert (Hexp : grad_expected s1 = Grad (s_model s1)) by (unfold grad_expected; rewrite Er1; reflexivity).
    split.
    { unfold Inv_sim; cbv zeta. rewrite G3, G4, G5, G6, G7, G2.
      split; [rewrite <- G3; exact G8|].
      split; [intros i; destruct (G9 i) as [E|E]; rewrite E; auto|].
      split; [intros Hcomp i Hi; apply G10; apply Hc0; assumption|].
      split; [assumption|]. split; [assumption|]. split; [assumption|].
      intros t E. inversion E. exact Hexp. }
    split; [congruence|]. rewrite G2, Hexp, M3. reflexivity.
Qed.

(* ---- jvec (repaired loop) ---- *)
Lemma jvec_core_mem q n st s v : q_keep q = false -> Inv_sim n s ->
  let r := jvec_core q n false st s v in
  r_err r = None /\ Inv_sim n (r_sim r) /\ s_model (r_sim r) = s_model s /\
  s_jvec (r_sim r) = Some (Jv (s_model s) v).
Proof.
  intros Hq H. pose proof H as H0. inv_destruct H0. unfold jvec_core. rewrite Hq.
  rewrite (ensure_all_mem n st s He). cbn [r_err r_sim r_store r_trace].
  set (s3 := after_fwd s (todo_of n s)).
  pose proof (after_fwd_inv n s (todo_of n s) H) as HI3. fold s3 in HI3.
  assert (Hm3 : s_model s3 = s_model s) by (unfold s3; rewrite after_fwd_model; reflexivity).
  assert (Hjv : jv_of n false (fun i => st i) s3 v = Jv (s_model s) v).
  { unfold jv_of. rewrite all_ef_true; [rewrite Hm3; reflexivity|].
    intros i Hi. rewrite eff_mem. unfold s3. rewrite (ensure_all_fills n s i He Hi), after_fwd_model.
    reflexivity. }
  rewrite Hjv. split; [reflexivity|].
  assert (Hany : forall s4, s_model s4 = s_model s3 -> s_efield s4 = s_efield s3 ->
            s_syn s4 = s_syn s3 -> s_computed s4 = s_computed s3 -> s_residual s4 = s_residual s3 ->
            s_weights s4 = s_weights s3 -> s_misfit s4 = s_misfit s3 -> s_gradient s4 = s_gradient s3 ->
            Inv_sim n s4).
  { intros s4 E1 E2 E3 E4 E5 E6 E7 E8. unfold Inv_sim; cbv zeta. rewrite E1, E2, E3, E4, E5, E6, E7, E8. exact HI3. }
  destruct n as [|n']; cbn [set_jvec set_tol s_model s_jvec];
    (split; [apply Hany; reflexivity | split; [exact Hm3 | reflexivity]]).
Qed.

Lemma do_jvec_mem q n st s v : q_keep q = false -> Inv_sim n s ->
  let r := do_jvec q n false st s v in
  r_err r = None /\ Inv_sim n (r_sim r) /\ s_model (r_sim r) = s_model s /\
  s_jvec (r_sim r) = Some (Jv (s_model s) v).
Proof.
  intros Hq H. unfold do_jvec.
  pose proof (do_misfit_mem n st s H) as HM. cbv zeta in HM.
  destruct HM as (M1 & M2 & M3 & M4 & M5). rewrite M1.
  pose proof (jvec_core_mem q n (r_store (do_misfit n false st s)) _ v Hq M2) as HJ. cbv zeta in HJ.
  destruct HJ as (J1 & J2 & J3 & J4). cbn [r_err r_sim r_store r_trace].
  rewrite J3, M3 in *. rewrite <- M3 at 2. auto.
Qed.

Lemma do_misfit_cached n f st s t : s_misfit s = Some t -> do_misfit n f st s = mkRes s st [] None.
Proof. intros E. unfold do_misfit. rewrite E. reflexivity. Qed.

Lemma do_gradient_cm q n f st s t : s_gradient s = None -> s_misfit s = Some t ->
  do_gradient q n f st s =
  mkRes (r_sim (grad_core q n f st s)) (r_store (grad_core q n f st s))
        (r_trace (grad_core q n f st s)) (r_err (grad_core q n f st s)).
Proof.
  intros Eg Em. unfold do_gradient. rewrite Eg, (do_misfit_cached n f st s t Em). reflexivity.
Qed.

(* ---- jtvec (repaired): residual and gradient are restored ---- *)
Lemma do_jtvec_fixed_mem q n st s w : q_keep q = false -> Inv_sim n s ->
  let rv := do_jtvec_fixed n q false st s w in
  r_err (fst rv) = None /\ Inv_sim n (r_sim (fst rv)) /\ s_model (r_sim (fst rv)) = s_model s /\
  snd rv = RVal (Jt (s_model s) w) /\ s_gradient (r_sim (fst rv)) = s_gradient s.
Proof.
  intros Hq H. unfold do_jtvec_fixed.
  pose proof (do_misfit_mem n st s H) as HM. cbv zeta in HM.
  destruct HM as (M1 & M2 & M3 & M4 & M5). rewrite M1.
  set (s0 := r_sim (do_misfit n false st s)) in *.
  set (st0 := r_store (do_misfit n false st s)).
  pose proof M2 as M2'. inv_destruct M2'.
  destruct (Hm _ M4) as (_ & Er0 & Ew0).
  set (s1 := set_grad (set_residual s0 (wow s0 w)) None false).
  assert (Hwow : wow s0 w = Some (WOverW w)) by (unfold wow; rewrite Ew0; reflexivity).
  assert (E1 : s_gradient s1 = None) by reflexivity.
  assert (E2 : s_misfit s1 = Some (Misfit (s_model s))) by exact M4.
  rewrite (do_gradient_cm q n false st0 s1 _ E1 E2).
  cbn [r_err r_sim r_store r_trace].
  assert (Ew1 : s_weights s1 = Some Weights) by exact Ew0.
  assert (Er1 : exists w', s_residual s1 = Some (WOverW w')) by (exists w; exact Hwow).
  pose proof (grad_core_mem q n st0 s1 Hq He Ew1 (or_intror Er1)) as HG. cbv zeta in HG.
  destruct HG as (G1 & G2 & G3 & G4 & G5 & G6 & G7 & G8 & G9 & G10).
  cbn [fst snd r_err r_sim r_store r_trace]. rewrite G1, G2.
  assert (Hexp : grad_expected s1 = Jt (s_model s) w).
  { unfold grad_expected. change (s_residual s1) with (wow s0 w). rewrite Hwow.
    change (s_model s1) with (s_model s0). rewrite M3. reflexivity. }
  split; [reflexivity|].
  split.
  { unfold Inv_sim; cbv zeta.
    cbn [set_grad set_residual s_model s_efield s_syn s_computed s_residual s_weights s_misfit s_gradient].
    rewrite G3, G4, G5, G7. change (s_model s1) with (s_model s0). change (s_computed s1) with (s_computed s0).
    change (s_misfit s1) with (s_misfit s0). change (s_weights s1) with (s_weights s0).
    split; [change (s_model s0) with (s_model s1); rewrite <- G3; exact G8|].
    split; [intros i; destruct (G9 i) as [E|E]; rewrite E; [exact (Hs i) | right; reflexivity]|].
    split; [intros Hcomp i Hi; apply G10; exact (Hc Hcomp i Hi)|].
    split; [exact Hr|]. split; [exact Hw|]. split; [exact Hm|]. exact Hg. }
  split; [cbn; rewrite G3; exact M3|].
  split; [rewrite Hexp; reflexivity|]. cbn. exact M5.
Qed.

(* ---- clean, export, set-model ---- *)
Lemma do_clean_mem n st s c : Inv_sim n s -> Inv_sim n (fst (do_clean false st s c)).
Proof.
  intros H. inv_destruct H. unfold do_clean. destruct c; cbn [fst]; unfold Inv_sim; cbv zeta;
    cbn [set_grad set_fields s_model s_efield s_syn s_computed s_residual s_weights s_misfit s_gradient];
    repeat split; intros; try discriminate; auto;
    try (match goal with Hx : s_misfit s = Some _ |- _ => apply Hm in Hx; tauto end).
Qed.

Lemma do_clean_any n st s m c : c <> CKeep ->
  Inv_sim n (fst (do_clean false st
     (mkSim m (s_computed s) (s_misfit s) (s_misfit_np s) (s_gradient s) (s_efield s)
            (s_bfield s) (s_syn s) (s_residual s) (s_weights s) (s_jvec s) (s_tol s)) c)).
Proof.
  intros Hc. unfold do_clean. destruct c; [|congruence|]; cbn [fst]; unfold Inv_sim; cbv zeta;
    cbn [set_grad set_fields s_model s_efield s_syn s_computed s_residual s_weights s_misfit s_gradient];
    repeat split; intros; try discriminate; auto.
Qed.

Lemma export_new_inv n s x d : Inv_sim n s -> Inv_sim n (export_new s x d).
Proof.
  intros H. inv_destruct H. unfold export_new, Inv_sim; cbv zeta.
  destruct d; cbn [s_model s_efield s_syn s_computed s_residual s_weights s_misfit s_gradient];
    repeat split; intros; try discriminate; auto;
    try (match goal with Hx : s_misfit s = Some _ |- _ => apply Hm in Hx; tauto end).
Qed.

Lemma set_tol_inv n s t : Inv_sim n s -> Inv_sim n (set_tol s t).
Proof. intros H. exact H. Qed.

(* ================================================================ world level *)
Lemma step_shape q w ko :
  w_n (fst (step q w ko)) = w_n w /\ w_file (fst (step q w ko)) = w_file w.
Proof.
  unfold step. destruct ko as [k o]. destruct (nth_error (w_sims w) k) as [s|]; [|auto].
  destruct o; unfold of_res, put;
    repeat match goal with
           | |- context [let (_, _) := ?x in _] => destruct x
           | |- context [if ?b then _ else _] => destruct b
           end; cbn; auto.
Qed.

Lemma run_shape q ops : forall w, w_n (run q w ops) = w_n w /\ w_file (run q w ops) = w_file w.
Proof.
  induction ops as [|o ops IH]; intros w; cbn; [auto|].
  destruct (IH (fst (step q w o))) as (A & B). destruct (step_shape q w o) as (C & D).
  unfold run in *. cbn. rewrite A, B. auto.
Qed.

Lemma inv_put w k s st : Inv w -> Inv_sim (w_n w) s -> Inv (put w k s st).
Proof.
  intros (Hf & Hall) Hs. split; [exact Hf|]. cbn. apply Forall_upd_nth; assumption.
Qed.

(* the invariant is preserved by every operation on every simulation *)
Lemma inv_step_proof w ko : Inv w -> Inv (fst (step fixed w ko)).
Proof.
  intros H. pose proof H as (Hf & Hall). unfold step. destruct ko as [k o].
  destruct (nth_error (w_sims w) k) as [s|] eqn:E; [|exact H].
  pose proof (Forall_nth_error _ _ _ _ Hall E) as HI. rewrite Hf.
  set (n := w_n w) in *. set (st := w_store w).
  destruct o.
  - (* compute *)
    unfold of_res; cbn [fst]. apply inv_put; [exact H|].
    destruct (do_compute_mem n st s HI) as (_ & X & _). exact X.
  - unfold of_res; cbn [fst]. apply inv_put; [exact H|].
    destruct (do_misfit_mem n st s HI) as (_ & X & _). exact X.
  - unfold of_res; cbn [fst]. apply inv_put; [exact H|].
    destruct (do_gradient_mem fixed n st s eq_refl HI) as (_ & X & _). exact X.
  - unfold of_res; cbn [fst]. apply inv_put; [exact H|].
    destruct (do_jvec_mem fixed n st s v eq_refl HI) as (_ & X & _). exact X.
  - change (q_jtvec fixed) with false. cbv iota.
    pose proof (do_jtvec_fixed_mem fixed n st s w0 eq_refl HI) as X. cbv zeta in X.
    destruct (do_jtvec_fixed n fixed false st s w0) as [r v]. cbn [fst snd] in X.
    unfold of_res; cbn [fst]. apply inv_put; [exact H|]. tauto.
  - (* get_efield *)
    unfold of_res; cbn [fst]. apply inv_put; [exact H|].
    pose proof HI as HI'. inv_destruct HI'.
    unfold ensure_slot. rewrite eff_mem. destruct (s_efield s i) as [t|] eqn:Ee.
    + rewrite (He i t Ee). cbn. exact HI.
    + rewrite (compute_slots_mem st s [i] He). cbn [r_sim]. apply after_fwd_inv. exact HI.
  - unfold of_res; cbn [fst]. apply inv_put; [exact H|].
    pose proof HI as HI'. inv_destruct HI'.
    unfold ensure_slot. rewrite eff_mem. destruct (s_efield s i) as [t|] eqn:Ee.
    + rewrite (He i t Ee). cbn. exact HI.
    + rewrite (compute_slots_mem st s [i] He). cbn [r_sim]. apply after_fwd_inv. exact HI.
  - (* clean *)
    pose proof (do_clean_mem n st s c HI) as X. destruct (do_clean false st s c) as [s' st'].
    cbn [fst] in *. apply inv_put; assumption.
  - (* export *)
    change (json_fails fixed s x) with false. cbv iota. cbn [fst].
    split; [reflexivity|]. cbn [w_n w_sims]. apply Forall_app. split.
    + apply Forall_upd_nth; [exact Hall | exact HI].
    + constructor; [apply export_new_inv; exact HI | constructor].
  - (* model update followed by clean *)
    cbv zeta. destruct all.
    + pose proof (do_clean_any n st s m CAll ltac:(discriminate)) as X.
      destruct (do_clean false st _ CAll) as [s' st']. cbn [fst] in *. apply inv_put; assumption.
    + pose proof (do_clean_any n st s m CComputed ltac:(discriminate)) as X.
      destruct (do_clean false st _ CComputed) as [s' st']. cbn [fst] in *. apply inv_put; assumption.
Qed.

Lemma inv_reachable_proof ops : forall w, Inv w -> Inv (run fixed w ops).
Proof.
  induction ops as [|o ops IH]; intros w H; [exact H|].
  cbn. apply IH. apply inv_step_proof. exact H.
Qed.

(* ------------------------------------------------------ history independence *)
Definition expected (n m : nat) (qu : query) : ret * list tag :=
  match qu with
  | QSynthetic => (RNone, map (Syn m) (seq 0 n))
  | QMisfit => (RVal (Misfit m), [])
  | QGradient => (RVal (Grad m), [])
  end.

Lemma ask_expected w k s qu : Inv w -> nth_error (w_sims w) k = Some s ->
  ask fixed w k qu = expected (w_n w) (s_model s) qu.
Proof.
  intros H E. pose proof H as (Hf & Hall).
  pose proof (Forall_nth_error _ _ _ _ Hall E) as HI.
  assert (Hk : k < length (w_sims w)) by (apply nth_error_Some; congruence).
  unfold ask, step. rewrite E, Hf. set (n := w_n w) in *. set (st := w_store w).
  destruct qu; unfold of_res; cbn [fst snd o_ret].
  - destruct (do_compute_mem n st s HI) as (E1 & _ & E3 & _ & E5 & _).
    rewrite E1. cbn [put w_sims]. rewrite (nth_error_upd_same k _ _ Hk).
    unfold expected, syn_list. f_equal. apply map_ext_in. intros i Hi. apply in_seq in Hi.
    apply E5. lia.
  - destruct (do_misfit_mem n st s HI) as (E1 & _ & _ & E4 & _).
    rewrite E1. unfold misfit_ret. rewrite E4. reflexivity.
  - destruct (do_gradient_mem fixed n st s eq_refl HI) as (E1 & _ & _ & E4).
    rewrite E1, E4. reflexivity.
Qed.

Lemma history_independence_proof n m0 ops k s qu :
  nth_error (w_sims (run fixed (init_world n false m0) ops)) k = Some s ->
  ask fixed (run fixed (init_world n false m0) ops) k qu
  = ask fixed (init_world n false (s_model s)) 0 qu.
Proof.
  intros E.
  rewrite (ask_expected _ k s qu (inv_reachable_proof ops _ (inv_init n m0)) E).
  rewrite (ask_expected (init_world n false (s_model s)) 0 (init_sim (s_model s)) qu
             (inv_init n (s_model s)) eq_refl).
  destruct (run_shape fixed ops (init_world n false m0)) as (A & _). rewrite A. reflexivity.
Qed.

(* ------------------------------------------------------ copies are independent *)
Lemma copies_independent_proof q w k o j : j <> k -> j < length (w_sims w) ->
  nth_error (w_sims (fst (step q w (k, o)))) j = nth_error (w_sims w) j.
Proof.
  intros Hjk Hj. unfold step. destruct (nth_error (w_sims w) k) as [s|]; [|reflexivity].
  destruct o; unfold of_res, put;
    repeat match goal with
           | |- context [let (_, _) := ?x in _] => destruct x
           | |- context [if ?b then _ else _] => destruct b
           end; cbn [fst w_sims];
    try (apply nth_error_upd_other; exact Hjk);
    try (rewrite nth_error_app1 by (rewrite length_upd_nth; exact Hj);
         apply nth_error_upd_other; exact Hjk).
Qed.

(* in memory mode nothing but the simulation's own record is visible *)
Lemma enc_sim_store_irrelevant n st st' s : enc_sim n false st s = enc_sim n false st' s.
Proof.
  reflexivity.   (* [eff false st] reduces to the record's own entry *)
Qed.

(* ------- every solve uses the tolerance of its kind AND the current model ------- *)
Definition tol_ok (so : solve) : Prop :=
  so_tol so = match so_kind so with KF => TFwd | _ => TGrad end.
(* [sok m]: right tolerance, and the model version handed to the solver is m *)
Definition sok (m : nat) (so : solve) : Prop := tol_ok so /\ so_model so = m.

Ltac sok_map := apply Forall_forall; intros ? Hx; apply in_map_iff in Hx;
                destruct Hx as (? & <- & _); split; reflexivity.

(* sub-steps never change the model version *)
Lemma compute_slots_model f st s sl : s_model (r_sim (compute_slots f st s sl)) = s_model s.
Proof.
  unfold compute_slots. destruct (existsb _ sl).
  - destruct sl as [|i sl]; [reflexivity|]. cbn [r_sim]. destruct (missing f st s i); reflexivity.
  - destruct sl; reflexivity.
Qed.

Lemma do_compute_model n f st s : s_model (r_sim (do_compute n f st s)) = s_model s.
Proof.
  unfold do_compute. destruct (r_err (compute_slots f st s (seq 0 n))); cbn [r_sim set_computed s_model];
    apply compute_slots_model.
Qed.

Lemma do_misfit_model n f st s : s_model (r_sim (do_misfit n f st s)) = s_model s.
Proof.
  unfold do_misfit. destruct (s_misfit s); [reflexivity|].
  destruct (s_computed s).
  - reflexivity.
  - destruct (r_err (do_compute n f st s)); cbn [r_sim set_misfit s_model]; apply do_compute_model.
Qed.

Lemma compute_slots_sok f st s sl : Forall (sok (s_model s)) (r_trace (compute_slots f st s sl)).
Proof. unfold compute_slots. destruct (existsb _ sl); cbn [r_trace]; [constructor | sok_map]. Qed.

Lemma ensure_slot_sok f st s i : Forall (sok (s_model s)) (r_trace (ensure_slot f st s i)).
Proof.
  unfold ensure_slot. destruct (eff f st s i) as [t|]; [destruct t|];
    try (cbn [r_trace]; constructor); apply compute_slots_sok.
Qed.

Lemma ensure_all_sok n f st s : Forall (sok (s_model s)) (r_trace (ensure_all n f st s)).
Proof. unfold ensure_all. cbn [r_trace]. sok_map. Qed.

Lemma do_compute_sok n f st s : Forall (sok (s_model s)) (r_trace (do_compute n f st s)).
Proof.
  unfold do_compute. destruct (r_err (compute_slots f st s (seq 0 n))); cbn [r_trace fst]; apply compute_slots_sok.
Qed.

Lemma do_misfit_sok n f st s : Forall (sok (s_model s)) (r_trace (do_misfit n f st s)).
Proof.
  unfold do_misfit. destruct (s_misfit s); [constructor|].
  destruct (s_computed s).
  - cbn [r_trace fst]. constructor.
  - destruct (r_err (do_compute n f st s)); cbn [r_trace fst]; apply do_compute_sok.
Qed.

Lemma bsolves_sok n b m : Forall (sok m) (bsolves n b m).
Proof. unfold bsolves. sok_map. Qed.
Lemma gsolves_sok n m : Forall (sok m) (gsolves n m).
Proof. unfold gsolves. sok_map. Qed.

Lemma grad_core_sok q n f st s : Forall (sok (s_model s)) (r_trace (grad_core q n f st s)).
Proof.
  unfold grad_core. destruct (q_keep q).
  - destruct (existsb _ _); [cbn [r_trace fst]; apply bsolves_sok|].
    destruct (forallb _ _); cbn [r_trace fst]; apply bsolves_sok.
  - destruct (r_err (ensure_all n f st _)); cbn [r_trace fst]; apply Forall_app; split;
      try apply bsolves_sok;
      apply (ensure_all_sok n f st (set_tol (set_grad s None true) TGrad)).
Qed.

Lemma do_gradient_sok q n f st s : Forall (sok (s_model s)) (r_trace (do_gradient q n f st s)).
Proof.
  unfold do_gradient. destruct (s_gradient s); [constructor|].
  destruct (r_err (do_misfit n f st s)); [apply do_misfit_sok|].
  cbn [r_trace fst]. apply Forall_app; split; [apply do_misfit_sok|].
  rewrite <- (do_misfit_model n f st s). apply grad_core_sok.
Qed.

Lemma jvec_core_sok q n f st s v : Forall (sok (s_model s)) (r_trace (jvec_core q n f st s v)).
Proof.
  unfold jvec_core. destruct (q_keep q).
  - destruct n; [constructor|]. destruct (find _ _); cbn [r_trace fst]; [constructor | apply gsolves_sok].
  - destruct (r_err (ensure_all n f st s)); cbn [r_trace fst]; [apply ensure_all_sok|].
    apply Forall_app; split; [apply ensure_all_sok | apply gsolves_sok].
Qed.

Lemma do_jvec_sok q n f st s v : Forall (sok (s_model s)) (r_trace (do_jvec q n f st s v)).
Proof.
  unfold do_jvec. destruct (r_err (do_misfit n f st s)); [apply do_misfit_sok|].
  cbn [r_trace fst]. apply Forall_app; split; [apply do_misfit_sok|].
  rewrite <- (do_misfit_model n f st s). apply jvec_core_sok.
Qed.

Lemma do_jtvec_found_sok q n f st s w :
  Forall (sok (s_model s)) (r_trace (fst (do_jtvec_found n q f st s w))).
Proof.
  unfold do_jtvec_found. destruct (s_residual s); [|constructor].
  destruct (s_weights s); [|constructor]. cbn [r_trace fst].
  apply (do_gradient_sok q n f st (set_grad (set_residual s (wow s w)) None false)).
Qed.

Lemma do_jtvec_fixed_sok q n f st s w :
  Forall (sok (s_model s)) (r_trace (fst (do_jtvec_fixed n q f st s w))).
Proof.
  unfold do_jtvec_fixed. destruct (r_err (do_misfit n f st s)); [apply do_misfit_sok|].
  cbn [r_trace fst]. apply Forall_app; split; [apply do_misfit_sok|].
  rewrite <- (do_misfit_model n f st s).
  apply (do_gradient_sok q n f (r_store (do_misfit n f st s))
           (set_grad (set_residual (r_sim (do_misfit n f st s))
                        (wow (r_sim (do_misfit n f st s)) w)) None false)).
Qed.

(* every solve issued by a step on simulation k: tolerance of its kind, and
   the model version that simulation k has when the operation is called *)
Lemma solves_ok_proof q w k o s : nth_error (w_sims w) k = Some s ->
  Forall (sok (s_model s)) (o_trace (snd (step q w (k, o)))).
Proof.
  intros E. unfold step. rewrite E.
  destruct o; unfold of_res; cbn [snd o_trace].
  - apply do_compute_sok.
  - apply do_misfit_sok.
  - apply do_gradient_sok.
  - apply do_jvec_sok.
  - destruct (q_jtvec q).
    + pose proof (do_jtvec_found_sok q (w_n w) (w_file w) (w_store w) s w0) as X.
      destruct (do_jtvec_found _ _ _ _ _ _). exact X.
    + pose proof (do_jtvec_fixed_sok q (w_n w) (w_file w) (w_store w) s w0) as X.
      destruct (do_jtvec_fixed _ _ _ _ _ _). exact X.
  - apply ensure_slot_sok.
  - apply ensure_slot_sok.
  - destruct (do_clean _ _ _ _). constructor.
  - destruct (json_fails q s x); constructor.
  - cbv zeta. destruct (do_clean _ _ _ _). constructor.
Qed.

Lemma tol_always_proof q w ko : Forall tol_ok (o_trace (snd (step q w ko))).
Proof.
  destruct ko as [k o]. destruct (nth_error (w_sims w) k) as [s|] eqn:E.
  - eapply Forall_impl; [|exact (solves_ok_proof q w k o s E)]. intros so (H & _). exact H.
  - unfold step. rewrite E. constructor.
Qed.

(* after a model update every later solve uses the NEW version (no stale model
   survives a model update + clean): the version in the trace is the one the
   simulation has in the state the operation starts from *)
Lemma setmodel_sets_version q w k m all repl s :
  nth_error (w_sims w) k = Some s ->
  exists s', nth_error (w_sims (fst (step q w (k, OSetModel m all repl)))) k = Some s' /\ s_model s' = m.
Proof.
  intros E. assert (Hk : k < length (w_sims w)) by (apply nth_error_Some; congruence).
  unfold step. rewrite E. cbv zeta.
  destruct all; unfold do_clean; cbn [fst put w_sims];
    rewrite (nth_error_upd_same k _ _ Hk); eexists; split; reflexivity.
Qed.

(* ----------------------------------------------------------- refutations *)
(* the code as found (jtvec quirk alone suffices) *)
Definition wit_jtvec : list (nat * sop) := [(0, OMisfit); (0, OJtvec 0)].

Lemma refuted_jtvec :
  ask (mkQ true false false) (run (mkQ true false false) (init_world 2 false 0) wit_jtvec) 0 QGradient
  <> ask (mkQ true false false) (init_world 2 false 0) 0 QGradient.
Proof. vm_compute. discriminate. Qed.

Lemma refuted_unfixed : exists ops k qu,
  ask as_found (fold_left (fun w o => fst (step_unfixed w o)) ops (init_world 2 false 0)) k qu
  <> ask as_found (init_world 2 false 0) 0 qu.
Proof. exists wit_jtvec, 0, QGradient. vm_compute. discriminate. Qed.

Lemma refuted_jtvec_fresh :
  o_ret (snd (step (mkQ true false false) (init_world 2 false 0) (0, OJtvec 0))) = RErr EAttr.
Proof. vm_compute. reflexivity. Qed.

Definition wit_misfit : list (nat * sop) := [(0, OMisfit); (0, OExport VH5 DComputed)].
Lemma refuted_misfit :
  ask (mkQ false true false) (run (mkQ false true false) (init_world 2 false 0) wit_misfit) 1 QMisfit
  <> ask (mkQ false true false) (init_world 2 false 0) 0 QMisfit.
Proof. vm_compute. discriminate. Qed.

Lemma refuted_misfit_json :
  o_ret (snd (step (mkQ false true false)
                   (run (mkQ false true false) (init_world 2 false 0) [(0, OMisfit)])
                   (0, OExport VJson DAll))) = RErr EType.
Proof. vm_compute. reflexivity. Qed.

Definition wit_keep : list (nat * sop) := [(0, OMisfit); (0, OClean CKeep)].
Lemma refuted_keep :
  ask (mkQ false false true) (run (mkQ false false true) (init_world 2 false 0) wit_keep) 0 QGradient
  <> ask (mkQ false false true) (init_world 2 false 0) 0 QGradient.
Proof. vm_compute. discriminate. Qed.

(* file mode, repaired code: a copy shares the field files of its original *)
Definition wit_file : list (nat * sop) :=
  [(0, OCompute); (0, OExport VCopy DComputed); (1, OSetModel 1 false false); (1, OCompute)].
Lemma refuted_file_copy :
  ask fixed (run fixed (init_world 2 true 0) wit_file) 0 QGradient
  <> ask fixed (init_world 2 true 0) 0 QGradient.
Proof. vm_compute. discriminate. Qed.

(* ... and a step on the copy changes what the original reads *)
Lemma refuted_file_copy_step :
  let w := run fixed (init_world 2 true 0) [(0, OCompute); (0, OExport VCopy DComputed)] in
  enc_world w <> firstn 1 (enc_world (fst (step fixed w (1, OClean CComputed)))) ++
                 skipn 1 (enc_world w).
Proof. vm_compute. discriminate. Qed.

(* ------------------------------------------------------------- non-vacuity *)
Example ex_reachable_nontrivial :
  let w := run fixed (init_world 2 false 0)
             [(0, OGradient); (0, OJtvec 1); (0, OExport VCopy DResults); (1, OSetModel 1 false false);
              (1, OJvec 0); (0, OClean CKeep)] in
  length (w_sims w) = 2 /\
  ask fixed w 0 QGradient = (RVal (Grad 0), []) /\
  ask fixed w 1 QGradient = (RVal (Grad 1), []) /\
  ask fixed w 1 QSynthetic = (RNone, [Syn 1 0; Syn 1 1]).
Proof. vm_compute. repeat split. Qed.

Example ex_jtvec_fixed_restores :
  let w := run fixed (init_world 2 false 0) [(0, OMisfit); (0, OJtvec 0)] in
  o_ret (snd (step fixed (run fixed (init_world 2 false 0) [(0, OMisfit)]) (0, OJtvec 0))) = RVal (Jt 0 0)
  /\ ask fixed w 0 QGradient = (RVal (Grad 0), []).
Proof. vm_compute. split; reflexivity. Qed.

Example ex_trace_nonempty :
  o_trace (snd (step fixed (init_world 2 false 0) (0, OGradient))) =
  [mkSolve KF 0 TFwd false 0; mkSolve KF 1 TFwd false 0; mkSolve KB 0 TGrad false 0; mkSolve KB 1 TGrad false 0].
Proof. vm_compute. reflexivity. Qed.

Lemma solves_model_proof q w k o s : nth_error (w_sims w) k = Some s ->
  Forall (fun so => so_model so = s_model s) (o_trace (snd (step q w (k, o)))).
Proof.
  intros E. eapply Forall_impl; [|exact (solves_ok_proof q w k o s E)]. intros so (_ & H). exact H.
Qed.

Example ex_solves_after_update :
  let w := run fixed (init_world 2 false 0) [(0, OCompute); (0, OSetModel 1 false true)] in
  map so_model (o_trace (snd (step fixed w (0, OGradient)))) = [1; 1; 1; 1]
  /\ ask fixed w 0 QSynthetic = (RNone, [Syn 1 0; Syn 1 1]).
Proof. vm_compute. split; reflexivity. Qed.

(* ------------- recomputing ONE slot leaves the synthetic data of all others alone *)
Lemma compute_slots_frame f st s sl j : mem j sl = false ->
  s_syn (r_sim (compute_slots f st s sl)) j = s_syn s j.
Proof.
  intros Hj. unfold compute_slots. destruct (existsb _ sl).
  - destruct sl as [|i sl]; [reflexivity|]. cbn [r_sim]. destruct (missing f st s i); reflexivity.
  - cbn [r_sim]. destruct sl; cbn [set_fields s_syn]; rewrite Hj; reflexivity.
Qed.

Lemma ensure_slot_frame f st s i j : j <> i ->
  s_syn (r_sim (ensure_slot f st s i)) j = s_syn s j.
Proof.
  intros Hj. unfold ensure_slot.
  destruct (eff f st s i) as [t|]; [destruct t; reflexivity|].
  apply compute_slots_frame. unfold mem. cbn. apply Nat.eqb_neq in Hj. rewrite Hj. reflexivity.
Qed.

Lemma single_slot_frame_proof q w k i (geth : bool) s s' :
  nth_error (w_sims w) k = Some s ->
  nth_error (w_sims (fst (step q w (k, if geth then OGetH i else OGetE i)))) k = Some s' ->
  forall j, j <> i -> s_syn s' j = s_syn s j.
Proof.
  intros E E' j Hj. assert (Hk : k < length (w_sims w)) by (apply nth_error_Some; congruence).
  unfold step in E'. rewrite E in E'.
  destruct geth; unfold of_res in E'; cbn [fst put w_sims] in E';
    rewrite (nth_error_upd_same k _ _ Hk) in E'; inversion E'; subst s';
    apply ensure_slot_frame; exact Hj.
Qed.

(* the state "results kept, fields dropped, one slot recomputed" is reachable, and in it
   all synthetic data are still there and misfit / gradient are the fresh ones *)
Example ex_results_kept_one_slot :
  let w := run fixed (init_world 4 false 0) [(0, OCompute); (0, OClean CKeep); (0, OGetE 2)] in
  enc_world w = enc_world (run fixed (init_world 4 false 0) [(0, OCompute); (0, OClean CKeep); (0, OGetE 2)])
  /\ (match nth_error (w_sims w) 0 with
      | Some s => (map (s_syn s) (seq 0 4), map (s_efield s) (seq 0 4), s_computed s, s_misfit s)
      | None => (@nil tag, @nil (option tag), false, @None tag) end)
     = ([Syn 0 0; Syn 0 1; Syn 0 2; Syn 0 3], [None; None; Some (Efield 0 2); None], true, None)
  /\ ask fixed w 0 QMisfit = (RVal (Misfit 0), [])
  /\ ask fixed w 0 QGradient = (RVal (Grad 0), []).
Proof. vm_compute. repeat split. Qed.
