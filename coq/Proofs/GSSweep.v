(* Proofs/GSSweep.v -- lifting the block theorems of the point-wise smoother
   through its four loops: a field that solves the system exactly is returned
   unchanged by [gauss_seidel] for every number of sweeps nu and every shape. *)
From Coq Require Import ZArith Lia Bool Field List.
From V Require Import Base.Loops Base.Arr Base.FieldSig Base.Tactics.
From V Require Import Gen.CoreBand Gen.CoreGS Model.FIT Proofs.BandSums Proofs.BandLDL Proofs.GSBlock.
Local Open Scope Z_scope.

Section GSSweep.
  Context {F : Type} {O : FOps F}.
  Hypothesis Fth : field_theory F0 F1 Fadd Fmul Fsub Fopp Fdiv Finv (@eq F).
  Hypothesis two_nz : (1 + 1)%F <> 0%F.
  Add Field Fsw : Fth.

  Variables (sx sy sz eta_x eta_y eta_z zeta : Z -> Z -> Z -> F).
  Variables (hx hy hz : Z -> F).
  Hypothesis hx_nz : forall i, hx i <> 0%F.
  Hypothesis hy_nz : forall i, hy i <> 0%F.
  Hypothesis hz_nz : forall i, hz i <> 0%F.
  Variables (nu lhx nx lhy ny lhz nz : Z).

  Notation L4 := (gs_args_L4 sx sy sz eta_x eta_y eta_z zeta hx hy hz nu lhx nx lhy ny lhz nz).

  (* node index visited at loop counter ih: forward (iback = 0) or backward *)
  Definition node (iback n ih : Z) : Z := if negb (iback =? 0) then n - ih else ih.

  Lemma L4_any_fwd it izh iz iyh iy ixh st :
    L4 0 it izh iz (iz-1) (iz+1) iyh iy (iy-1) (iy+1) ixh st
    = L4 0 0 iz iz (iz-1) (iz+1) iy iy (iy-1) (iy+1) ixh st.
  Proof. reflexivity. Qed.

  Lemma L4_any_bwd it izh iz iyh iy ixh st :
    L4 1 it izh iz (iz-1) (iz+1) iyh iy (iy-1) (iy+1) ixh st
    = L4 0 0 iz iz (iz-1) (iz+1) iy iy (iy-1) (iy+1) (nx - ixh) st.
  Proof. reflexivity. Qed.

  Lemma L4_any iback it izh iz iyh iy ixh st : (iback = 0 \/ iback = 1) ->
    L4 iback it izh iz (iz-1) (iz+1) iyh iy (iy-1) (iy+1) ixh st
    = L4 0 0 iz iz (iz-1) (iz+1) iy iy (iy-1) (iy+1) (node iback nx ixh) st.
  Proof.
    intros [->| ->]; unfold node; cbn [Z.eqb negb].
    - apply L4_any_fwd.
    - apply L4_any_bwd.
  Qed.

  (* ---- any invariant of the block step is an invariant of the sweeps ------ *)
  Definition interior ix iy iz : Prop := 1 <= ix < nx /\ 1 <= iy < ny /\ 1 <= iz < nz.
  Definition St : Type := ((Z -> F) * (Z -> Z -> Z -> F) * (Z -> Z -> Z -> F) * (Z -> Z -> Z -> F))%type.
  Definition St5 : Type := (Z * (Z -> F) * (Z -> Z -> Z -> F) * (Z -> Z -> Z -> F) * (Z -> Z -> Z -> F))%type.
  Definition w4 (t : St) : St := (fst (fst (fst t)), snd (fst (fst t)), snd (fst t), snd t).
  Lemma w4_id t : w4 t = t.
  Proof. now destruct t as [[[a b] c] d]. Qed.

  Notation L3 := (gauss_seidel_L3 sx sy sz eta_x eta_y eta_z zeta hx hy hz nu lhx nx lhy ny lhz nz
                    (kof hx) (kof hy) (kof hz)).
  Notation L2 := (gauss_seidel_L2 sx sy sz eta_x eta_y eta_z zeta hx hy hz nu lhx nx lhy ny lhz nz
                    (kof hx) (kof hy) (kof hz)).
  Notation L1 := (gauss_seidel_L1 sx sy sz eta_x eta_y eta_z zeta hx hy hz nu lhx nx lhy ny lhz nz
                    (kof hx) (kof hy) (kof hz)).

  Lemma node_range iback n ih : (iback = 0 \/ iback = 1) -> 1 <= ih < n -> 1 <= node iback n ih < n.
  Proof. intros [->| ->] H; unfold node; cbn [Z.eqb negb]; lia. Qed.

  Section Invariant.
    Variable Inv : St -> Prop.
    Hypothesis Inv_step : forall iz iy ix st, interior ix iy iz -> Inv st ->
      Inv (L4 0 0 iz iz (iz-1) (iz+1) iy iy (iy-1) (iy+1) ix st).

    Lemma L3_inv iback it izh iz iyh st :
      (iback = 0 \/ iback = 1) -> 1 <= iz < nz -> 1 <= iyh < ny -> Inv st ->
      Inv (L3 iback it izh iz (iz-1) (iz+1) iyh st).
    Proof.
      intros Hb Hz Hy G.
      cbv delta [gauss_seidel_L3]. cbv beta. cbv zeta.
      match goal with |- Inv (fst (fst (fst ?t)), _, _, _) => change (Inv (w4 t)) end.
      rewrite w4_id.
      match goal with |- Inv (Zfold _ _ _ ?s0) => change s0 with (w4 st) end. rewrite w4_id.
      destruct (Z_le_gt_dec 1 nx) as [Hn|Hn].
      - apply (Zfold_ind (fun _ s => Inv s)); [assumption|exact G|].
        intros i s Hi Gs.
        change (Inv (L4 iback it izh iz (iz-1) (iz+1) iyh (node iback ny iyh)
                        (node iback ny iyh - 1) (node iback ny iyh + 1) i s)).
        rewrite L4_any by assumption.
        apply Inv_step; [|assumption].
        pose proof (node_range iback nx i Hb Hi). pose proof (node_range iback ny iyh Hb Hy).
        unfold interior. lia.
      - rewrite Zfold_empty by lia. exact G.
    Qed.

    Lemma L2_inv iback it izh st :
      (iback = 0 \/ iback = 1) -> 1 <= izh < nz -> Inv st -> Inv (L2 iback it izh st).
    Proof.
      intros Hb Hz G.
      cbv delta [gauss_seidel_L2]. cbv beta. cbv zeta.
      match goal with |- Inv (fst (fst (fst ?t)), _, _, _) => change (Inv (w4 t)) end.
      rewrite w4_id.
      match goal with |- Inv (Zfold _ _ _ ?s0) => change s0 with (w4 st) end. rewrite w4_id.
      pose proof (node_range iback nz izh Hb Hz) as Hzz.
      destruct (Z_le_gt_dec 1 ny) as [Hn|Hn].
      - apply (Zfold_ind (fun _ s => Inv s)); [assumption|exact G|].
        intros j s Hj Gs.
        change (Inv (L3 iback it izh (node iback nz izh) (node iback nz izh - 1)
                        (node iback nz izh + 1) j s)).
        apply L3_inv; assumption.
      - rewrite Zfold_empty by lia. exact G.
    Qed.

    Definition Inv5 (st : St5) : Prop :=
      (fst (fst (fst (fst st))) = 0 \/ fst (fst (fst (fst st))) = 1) /\
      Inv (snd (fst (fst (fst st))), snd (fst (fst st)), snd (fst st), snd st).

    Lemma L1_inv it st : Inv5 st -> Inv5 (L1 it st).
    Proof.
      intros [Hb G].
      cbv delta [gauss_seidel_L1]. cbv beta. cbv zeta.
      set (ib := 1 - fst (fst (fst (fst st)))).
      assert (Hib : ib = 0 \/ ib = 1) by (unfold ib; lia).
      split; [exact Hib|].
      cbn [fst snd].
      match goal with |- Inv (fst (fst (fst ?t)), _, _, _) => change (Inv (w4 t)) end.
      rewrite w4_id.
      destruct (Z_le_gt_dec 1 nz) as [Hn|Hn].
      - apply (Zfold_ind (fun _ s => Inv s)); [assumption|exact G|].
        intros k s Hk Gs. apply L2_inv; assumption.
      - rewrite Zfold_empty by lia. exact G.
    Qed.

    (* the whole smoother: Zfold 0 nu of L1, started with iback = 0 *)
    Lemma sweeps_inv (s0 : St5) : Inv5 s0 -> Inv5 (Zfold 0 nu (fun it st => L1 it st) s0).
    Proof.
      intros G. destruct (Z_le_gt_dec 0 nu) as [Hn|Hn].
      - apply (Zfold_ind (fun _ s => Inv5 s)); [assumption|exact G|].
        intros it s _ Gs. now apply L1_inv.
      - now rewrite Zfold_empty by lia.
    Qed.
  End Invariant.

  (* ---- extensionality of the operator in the field arrays --------------- *)
  Lemma edge_res_ext (fx fy fz gx gy gz : Z -> Z -> Z -> F) x ix iy iz k :
    (forall i j l, fx i j l = gx i j l) -> (forall i j l, fy i j l = gy i j l) ->
    (forall i j l, fz i j l = gz i j l) ->
    edge_res fx fy fz sx sy sz eta_x eta_y eta_z zeta hx hy hz x ix iy iz k
    = edge_res gx gy gz sx sy sz eta_x eta_y eta_z zeta hx hy hz x ix iy iz k.
  Proof.
    intros Hx Hy Hz. unfold edge_res. cbv zeta.
    assert (Bx : forall i j l, blk_x fx x ix iy iz i j l = blk_x gx x ix iy iz i j l).
    { intros. unfold blk_x, upd3. now rewrite Hx. }
    assert (By : forall i j l, blk_y fy x ix iy iz i j l = blk_y gy x ix iy iz i j l).
    { intros. unfold blk_y, upd3. now rewrite Hy. }
    assert (Bz : forall i j l, blk_z fz x ix iy iz i j l = blk_z gz x ix iy iz i j l).
    { intros. unfold blk_z, upd3. now rewrite Hz. }
    unfold A_x, A_y, A_z, curlT_x, curlT_y, curlT_z, u_x, u_y, u_z, curl_x, curl_y, curl_z.
    rewrite ?Bx, ?By, ?Bz. reflexivity.
  Qed.

  Lemma cur_ext (fx fy fz gx gy gz : Z -> Z -> Z -> F) ix iy iz k :
    (forall i j l, fx i j l = gx i j l) -> (forall i j l, fy i j l = gy i j l) ->
    (forall i j l, fz i j l = gz i j l) ->
    cur fx fy fz ix iy iz k = cur gx gy gz ix iy iz k.
  Proof. intros Hx Hy Hz. unfold cur. rewrite !Hx, !Hy, !Hz. reflexivity. Qed.

  (* the block matrix does not depend on the fields nor on the old contents of amat *)
  Lemma sys_matrix_indep (fx fy fz gx gy gz : Z -> Z -> Z -> F) a1 a2 ix iy iz :
    fst (gs_sys fx fy fz sx sy sz eta_x eta_y eta_z zeta hx hy hz nu lhx nx lhy ny lhz nz a1 ix iy iz)
    = fst (gs_sys gx gy gz sx sy sz eta_x eta_y eta_z zeta hx hy hz nu lhx nx lhy ny lhz nz a2 ix iy iz).
  Proof. reflexivity. Qed.

  (* ---- the exact solution and the invariant ------------------------------ *)
  Variables (ex ey ez : Z -> Z -> Z -> F).     (* a field with zero residual *)
  Hypothesis exact : forall ix iy iz, interior ix iy iz -> forall k, 0 <= k < 6 ->
    edge_res ex ey ez sx sy sz eta_x eta_y eta_z zeta hx hy hz (cur ex ey ez ix iy iz) ix iy iz k = 0%F.
  Hypothesis pivots : forall ix iy iz, interior ix iy iz -> forall j, 0 <= j < 6 ->
    pivot 6 (fst (gs_sys ex ey ez sx sy sz eta_x eta_y eta_z zeta hx hy hz nu lhx nx lhy ny lhz nz
                         (fun _ => 0%F) ix iy iz)) j <> 0%F.

  Definition Good (st : St) : Prop :=
    (forall i j l, snd (fst (fst st)) i j l = ex i j l) /\
    (forall i j l, snd (fst st) i j l = ey i j l) /\
    (forall i j l, snd st i j l = ez i j l).

  Lemma upd3_self {A} (a : Z -> Z -> Z -> A) i j k v i' j' k' :
    v = a i j k -> upd3 a i j k v i' j' k' = a i' j' k'.
  Proof.
    intros ->. unfold upd3.
    destruct (Z.eqb_spec i' i), (Z.eqb_spec j' j), (Z.eqb_spec k' k); cbn; subst; reflexivity.
  Qed.

  Lemma L4_good iz iy ix st : interior ix iy iz -> Good st ->
    Good (L4 0 0 iz iz (iz-1) (iz+1) iy iy (iy-1) (iy+1) ix st).
  Proof.
    intros Hin [Gx [Gy Gz]]. destruct st as [[[a0 fx] fy] fz]. cbn [fst snd] in Gx, Gy, Gz.

    rewrite (L4_step fx fy fz sx sy sz eta_x eta_y eta_z zeta hx hy hz nu lhx nx lhy ny lhz nz a0 ix iy iz).
    cbv zeta.
    set (sys := gs_sys fx fy fz sx sy sz eta_x eta_y eta_z zeta hx hy hz nu lhx nx lhy ny lhz nz a0 ix iy iz).
    destruct Hin as [Hx [Hy Hz]].
    assert (FP : forall k, 0 <= k < 6 ->
              snd (solve 6 (fst sys) (snd sys)) k = cur fx fy fz ix iy iz k).
    { apply (gs_block_fixed_point Fth two_nz fx fy fz sx sy sz eta_x eta_y eta_z zeta hx hy hz
               hx_nz hy_nz hz_nz nu lhx nx lhy ny lhz nz a0 ix iy iz); try lia.
      - intros j Hj. unfold sys.
        rewrite (sys_matrix_indep fx fy fz ex ey ez a0 (fun _ => 0%F)).
        apply pivots; [unfold interior; lia|assumption].
      - intros k Hk.
        rewrite (edge_res_ext fx fy fz ex ey ez _ ix iy iz k Gx Gy Gz).
        assert (E : forall x y, (forall q, x q = y q) ->
                  edge_res ex ey ez sx sy sz eta_x eta_y eta_z zeta hx hy hz x ix iy iz k
                  = edge_res ex ey ez sx sy sz eta_x eta_y eta_z zeta hx hy hz y ix iy iz k).
        { intros x y Hxy. unfold edge_res, blk_x, blk_y, blk_z. cbv zeta. now rewrite !Hxy. }
        rewrite (E _ (cur ex ey ez ix iy iz)) by (intros q; apply cur_ext; assumption).
        apply exact; [unfold interior; lia|assumption]. }
    set (r := snd (solve 6 (fst sys) (snd sys))) in *.
    assert (R0 : r 0 = fx (ix-1) iy iz) by (rewrite FP by lia; reflexivity).
    assert (R1 : r 1 = fx ix iy iz) by (rewrite FP by lia; reflexivity).
    assert (R2 : r 2 = fy ix (iy-1) iz) by (rewrite FP by lia; reflexivity).
    assert (R3 : r 3 = fy ix iy iz) by (rewrite FP by lia; reflexivity).
    assert (R4 : r 4 = fz ix iy (iz-1)) by (rewrite FP by lia; reflexivity).
    assert (R5 : r 5 = fz ix iy iz) by (rewrite FP by lia; reflexivity).
    clearbody r. clear FP. clearbody sys.
    unfold Good. cbn [fst snd]. unfold new_ex, new_ey, new_ez.
    repeat split; intros i j l.
    - rewrite upd3_self; [rewrite upd3_self; [apply Gx|exact R0]|].
      rewrite upd3_other by lia. exact R1.
    - rewrite upd3_self; [rewrite upd3_self; [apply Gy|exact R2]|].
      rewrite upd3_other by lia. exact R3.
    - rewrite upd3_self; [rewrite upd3_self; [apply Gz|exact R4]|].
      rewrite upd3_other by lia. exact R5.
  Qed.

  (* ---- frame: tangential boundary values are never written (any field) ---- *)
  Variables (bx by_ bz : Z -> Z -> Z -> F).      (* the field before smoothing *)
  Definition Frame (st : St) : Prop :=
    (forall i j l, (j <= 0 \/ ny <= j \/ l <= 0 \/ nz <= l) -> snd (fst (fst st)) i j l = bx i j l) /\
    (forall i j l, (i <= 0 \/ nx <= i \/ l <= 0 \/ nz <= l) -> snd (fst st) i j l = by_ i j l) /\
    (forall i j l, (i <= 0 \/ nx <= i \/ j <= 0 \/ ny <= j) -> snd st i j l = bz i j l).

  Lemma L4_frame iz iy ix st : interior ix iy iz -> Frame st ->
    Frame (L4 0 0 iz iz (iz-1) (iz+1) iy iy (iy-1) (iy+1) ix st).
  Proof.
    intros [Hx [Hy Hz]] [Gx [Gy Gz]]. destruct st as [[[a0 fx] fy] fz]. cbn [fst snd] in Gx, Gy, Gz.
    rewrite (L4_step fx fy fz sx sy sz eta_x eta_y eta_z zeta hx hy hz nu lhx nx lhy ny lhz nz a0 ix iy iz).
    cbv zeta. unfold Frame. cbn [fst snd]. unfold new_ex, new_ey, new_ez.
    repeat split; intros i j l Hb; rewrite !upd3_other by lia; auto.
  Qed.
End GSSweep.

(* The whole smoother, every number of sweeps, every shape: a field whose block
   equations hold at every interior node is returned unchanged (pointwise). *)
Section GSWhole.
  Context {F : Type} {O : FOps F}.
  Hypothesis Fth : field_theory F0 F1 Fadd Fmul Fsub Fopp Fdiv Finv (@eq F).
  Hypothesis two_nz : (1 + 1)%F <> 0%F.
  Variables (ex ey ez sx sy sz eta_x eta_y eta_z zeta : Z -> Z -> Z -> F).
  Variables (hx hy hz : Z -> F).
  Hypothesis hx_nz : forall i, hx i <> 0%F.
  Hypothesis hy_nz : forall i, hy i <> 0%F.
  Hypothesis hz_nz : forall i, hz i <> 0%F.
  Variables (nu nx ny nz : Z).
  Hypothesis Hnx : 0 <= nx.
  Hypothesis Hny : 0 <= ny.
  Hypothesis Hnz : 0 <= nz.
  Hypothesis exact : forall ix iy iz, interior nx ny nz ix iy iz -> forall k, 0 <= k < 6 ->
    edge_res ex ey ez sx sy sz eta_x eta_y eta_z zeta hx hy hz (cur ex ey ez ix iy iz) ix iy iz k = 0%F.
  Hypothesis pivots : forall ix iy iz, interior nx ny nz ix iy iz -> forall j, 0 <= j < 6 ->
    pivot 6 (fst (gs_sys ex ey ez sx sy sz eta_x eta_y eta_z zeta hx hy hz nu nx nx ny ny nz nz
                         (fun _ => 0%F) ix iy iz)) j <> 0%F.

  Theorem gauss_seidel_fixed_point :
    let r := gauss_seidel nx ny nz ex ey ez sx sy sz eta_x eta_y eta_z zeta hx hy hz nu in
    forall i j l, fst (fst r) i j l = ex i j l /\ snd (fst r) i j l = ey i j l /\ snd r i j l = ez i j l.
  Proof.
    cbv zeta. cbv delta [gauss_seidel]. cbv beta. cbv zeta. cbn [fst snd].
    set (t := Zfold 0 nu _ _).
    assert (G : Inv5 (Good ex ey ez) t).
    { subst t.
      apply (sweeps_inv sx sy sz eta_x eta_y eta_z zeta hx hy hz nu nx nx ny ny nz nz (Good ex ey ez)).
      - intros iz iy ix st Hin Gs.
        apply (L4_good Fth two_nz sx sy sz eta_x eta_y eta_z zeta hx hy hz hx_nz hy_nz hz_nz
                       nu nx nx ny ny nz nz ex ey ez exact pivots iz iy ix st Hin Gs).
      - split; [left; reflexivity|]. repeat split; reflexivity. }
    destruct G as [_ [Gx [Gy Gz]]]. cbn [fst snd] in Gx, Gy, Gz.
    intros i j l. repeat split; [apply Gx|apply Gy|apply Gz].
  Qed.

  (* tangential boundary values (and everything outside the interior edges) are
     never written, whatever the field, the source and the number of sweeps *)
  Theorem gauss_seidel_frame :
    let r := gauss_seidel nx ny nz ex ey ez sx sy sz eta_x eta_y eta_z zeta hx hy hz nu in
    (forall i j l, (j <= 0 \/ ny <= j \/ l <= 0 \/ nz <= l) -> fst (fst r) i j l = ex i j l) /\
    (forall i j l, (i <= 0 \/ nx <= i \/ l <= 0 \/ nz <= l) -> snd (fst r) i j l = ey i j l) /\
    (forall i j l, (i <= 0 \/ nx <= i \/ j <= 0 \/ ny <= j) -> snd r i j l = ez i j l).
  Proof.
    cbv zeta. cbv delta [gauss_seidel]. cbv beta. cbv zeta. cbn [fst snd].
    set (t := Zfold 0 nu _ _).
    assert (G : Inv5 (Frame nx ny nz ex ey ez) t).
    { subst t.
      apply (sweeps_inv sx sy sz eta_x eta_y eta_z zeta hx hy hz nu nx nx ny ny nz nz
                        (Frame nx ny nz ex ey ez)).
      - intros iz iy ix st Hin Gs.
        apply (L4_frame sx sy sz eta_x eta_y eta_z zeta hx hy hz nu nx nx ny ny nz nz ex ey ez
                        iz iy ix st Hin Gs).
      - split; [left; reflexivity|]. repeat split; intros; reflexivity. }
    destruct G as [_ [Gx [Gy Gz]]]. cbn [fst snd] in Gx, Gy, Gz.
    repeat split; intros i j l Hb; [apply Gx|apply Gy|apply Gz]; assumption.
  Qed.
End GSWhole.
