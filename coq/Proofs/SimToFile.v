(* Proofs/SimToFile.v -- lemmas about Model/SimToFile.v (property C17, fault paths of the
   serialisation entry points of a Simulation). *)
From Coq Require Import List Bool String.
From V Require Import Model.SimToFile.
Import ListNotations.

(* ------------------------------------------------------------------ to_dict *)
Lemma to_dict_flag s w : fst (to_dict s w) = None.
Proof. reflexivity. Qed.

Lemma to_dict_clean w :
  to_dict None w = (None, match w with W x => Some x | WBad => None end).
Proof. reflexivity. Qed.

(* ---------------------------------------------------------------- serialize *)
Definition clean_levels (ms : list member) : option (list what) :=
  if existsb is_bad ms then None
  else Some (map (fun _ => Computed) (filter is_self ms)).

Lemma serialize_clean ms : serialize None ms = (None, clean_levels ms).
Proof.
  unfold clean_levels.
  induction ms as [|m r IH]; [reflexivity|].
  destruct m; cbn [serialize existsb is_bad is_self filter map orb].
  - (* MSelf *) rewrite to_dict_clean, IH.
    destruct (existsb is_bad r); reflexivity.
  - exact IH.
  - reflexivity.
Qed.

(* the state after serialising: untouched until the first occurrence of the simulation *)
Lemma serialize_flag_some s ms :
  fst (serialize s ms) = None \/ fst (serialize s ms) = s.
Proof.
  revert s; induction ms as [|m r IH]; intro s; [right; reflexivity|].
  destruct m; cbn [serialize].
  - left. destruct (to_dict s (W Computed)) as [s1 o] eqn:E.
    assert (H1 : s1 = None) by (pose proof (to_dict_flag s (W Computed)) as H; rewrite E in H; exact H).
    subst s1. destruct o as [x|]; [|reflexivity].
    rewrite serialize_clean. destruct (clean_levels r); reflexivity.
  - apply IH.
  - right; reflexivity.
Qed.

(* members without the simulation and without a failing member, then the simulation: the flag is
   consumed by exactly that serialisation *)
Lemma serialize_flag_consumed f user :
  existsb is_self user = false -> existsb is_bad user = false ->
  serialize (Some f) (user ++ [MSelf]) =
    (None, match f with W x => Some [x] | WBad => None end).
Proof.
  induction user as [|m r IH]; intros Hs Hb.
  - destruct f; reflexivity.
  - destruct m; cbn in Hs, Hb; try discriminate.
    cbn [app serialize]. apply IH; assumption.
Qed.

(* if no member fails, the serialisation reaches the simulation appended last: no flag left *)
Lemma serialize_reaches_self s ms :
  existsb is_bad ms = false -> fst (serialize s (ms ++ [MSelf])) = None.
Proof.
  revert s; induction ms as [|m r IH]; intros s Hb.
  - cbn [app serialize]. destruct (to_dict s (W Computed)) as [s1 o] eqn:E.
    assert (H1 : s1 = None) by (pose proof (to_dict_flag s (W Computed)) as H; rewrite E in H; exact H).
    subst s1. destruct o; reflexivity.
  - destruct m; cbn in Hb; try discriminate; cbn [app serialize].
    + destruct (to_dict s (W Computed)) as [s1 o] eqn:E.
      assert (H1 : s1 = None) by (pose proof (to_dict_flag s (W Computed)) as H; rewrite E in H; exact H).
      subst s1. destruct o as [x|]; [|reflexivity].
      specialize (IH None Hb).
      destruct (serialize None (r ++ [MSelf])) as [s2 o2]; cbn in IH; subst s2.
      destruct o2; reflexivity.
    + apply IH; exact Hb.
Qed.

(* --------------------------------------------------------------------- save *)
Definition save_spec (ext_first : bool) (c : save_call) : outcome :=
  if negb (kw_ok c) then Raised
  else if ext_first && negb (ext_ok c) then Raised
  else match clean_levels (members c) with
       | None => Raised
       | Some l => if ext_ok c && write_ok c then Done l else Raised
       end.

Lemma save_clean ef c : save ef None c = (None, save_spec ef c).
Proof.
  unfold save, save_spec.
  destruct (negb (kw_ok c)); [reflexivity|].
  destruct (ef && negb (ext_ok c)); [reflexivity|].
  rewrite serialize_clean.
  destruct (clean_levels (members c)); [|reflexivity].
  destruct (ext_ok c && write_ok c); reflexivity.
Qed.

(* a save never CREATES the flag *)
Lemma save_flag ef s c : fst (save ef s c) = None \/ fst (save ef s c) = s.
Proof.
  unfold save.
  destruct (negb (kw_ok c)); [right; reflexivity|].
  destruct (ef && negb (ext_ok c)); [right; reflexivity|].
  pose proof (serialize_flag_some s (members c)) as H.
  destruct (serialize s (members c)) as [s1 o]; cbn [fst] in H.
  destruct o; [destruct (ext_ok c && write_ok c)|]; exact H.
Qed.

(* ------------------------------------------------------------------ to_file *)
(* the try/finally: whatever io.save does (any implementation, any outcome) *)
Lemma to_file_gen_fixed_flag sv s t : fst (to_file_gen sv true s t) = None.
Proof. reflexivity. Qed.

Lemma to_file_fixed_flag ef s t : fst (to_file true ef s t) = None.
Proof. reflexivity. Qed.

Lemma to_file_outcome_indep_state fixed ef s s' t :
  snd (to_file fixed ef s t) = snd (to_file fixed ef s' t).
Proof. reflexivity. Qed.

Lemma to_file_own_what fixed ef s t :
  existsb is_self (tf_user t) = false -> existsb is_bad (tf_user t) = false ->
  tf_name t = NFresh -> tf_ext_ok t = true -> tf_write_ok t = true ->
  snd (to_file fixed ef s t) = match tf_what t with W x => Done [x] | WBad => Raised end.
Proof.
  intros Hs Hb Hn He Hw.
  unfold to_file, to_file_gen, save, tofile_save_call; cbn [kw_ok members ext_ok write_ok snd].
  rewrite Hn, He, Hw; cbn [negb andb].
  replace (ef && false) with false by (destruct ef; reflexivity).
  rewrite (serialize_flag_consumed _ _ Hs Hb).
  destruct (tf_what t); reflexivity.
Qed.

(* why the unfixed code worked in the usual case: without a failing member, with the extension
   checked after serialising and a proper name, io.save always reaches Simulation.to_dict *)
Lemma to_file_unfixed_clean_when_reached s t :
  tf_name t = NFresh -> existsb is_bad (tf_user t) = false ->
  fst (to_file false false s t) = None.
Proof.
  intros Hn Hb.
  unfold to_file, to_file_gen, save, tofile_save_call; cbn [kw_ok members ext_ok write_ok fst].
  rewrite Hn; cbn [negb andb].
  pose proof (serialize_reaches_self (Some (tf_what t)) (tf_user t) Hb) as H.
  destruct (serialize (Some (tf_what t)) (tf_user t ++ [MSelf])) as [s1 o]; cbn [fst] in H; subst s1.
  destruct o; [destruct (tf_ext_ok t && tf_write_ok t)|]; reflexivity.
Qed.

(* ---------------------------------------------------------------- histories *)
Lemma step_fixed_clean ef o : step true ef None o = (None, spec ef o).
Proof.
  unfold spec. destruct o as [w|c|t]; cbn [step].
  - destruct w; reflexivity.
  - rewrite save_clean; reflexivity.
  - reflexivity.
Qed.

Lemma exec_fixed_clean ef ops : exec true ef None ops = None.
Proof.
  induction ops as [|o r IH]; [reflexivity|].
  cbn [exec]. rewrite step_fixed_clean. exact IH.
Qed.

Lemma run_fixed_spec ef ops :
  run true ef None ops = map (fun o => (spec ef o, None)) ops.
Proof.
  induction ops as [|o r IH]; [reflexivity|].
  cbn [run map]. rewrite step_fixed_clean; cbn [fst snd]. rewrite IH. reflexivity.
Qed.

Lemma run_fixed_flags ef ops :
  Forall (fun r => snd r = None) (run true ef None ops).
Proof.
  rewrite run_fixed_spec. induction ops; constructor; [reflexivity|assumption].
Qed.

Lemma run_fixed_outcomes ef ops :
  map fst (run true ef None ops) = map (spec ef) ops.
Proof.
  rewrite run_fixed_spec, map_map. reflexivity.
Qed.

Lemma spec_to_dict ef w :
  spec ef (OToDict w) = match w with W x => Done [x] | WBad => Raised end.
Proof. destruct w; reflexivity. Qed.

Lemma spec_save ef c : spec ef (OSave c) = save_spec ef c.
Proof. unfold spec; cbn [step]. rewrite save_clean. reflexivity. Qed.

Lemma spec_to_file ef t :
  existsb is_self (tf_user t) = false -> existsb is_bad (tf_user t) = false ->
  tf_name t = NFresh -> tf_ext_ok t = true -> tf_write_ok t = true ->
  spec ef (OToFile t) = match tf_what t with W x => Done [x] | WBad => Raised end.
Proof. intros; unfold spec; cbn [step]. apply to_file_own_what; assumption. Qed.

(* after ANY history (successful and failed operations), each kind of call does what its own
   arguments say *)
Lemma after_history_to_dict ef pre w :
  step true ef (exec true ef None pre) (OToDict w)
  = (None, match w with W x => Done [x] | WBad => Raised end).
Proof. rewrite exec_fixed_clean, step_fixed_clean, spec_to_dict. reflexivity. Qed.

Lemma after_history_save ef pre c :
  step true ef (exec true ef None pre) (OSave c) = (None, save_spec ef c).
Proof. rewrite exec_fixed_clean, step_fixed_clean, spec_save. reflexivity. Qed.

Lemma after_history_to_file ef pre t :
  existsb is_self (tf_user t) = false -> existsb is_bad (tf_user t) = false ->
  tf_name t = NFresh -> tf_ext_ok t = true -> tf_write_ok t = true ->
  step true ef (exec true ef None pre) (OToFile t)
  = (None, match tf_what t with W x => Done [x] | WBad => Raised end).
Proof.
  intros. rewrite exec_fixed_clean, step_fixed_clean, spec_to_file by assumption. reflexivity.
Qed.
