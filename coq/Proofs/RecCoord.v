(* Proofs/RecCoord.v -- cache coherence of Survey._rec_types_coord for every
   history of requests on one Survey object, and its composition with the
   transpose theorem of get_receiver (property C09). *)
From Coq Require Import ZArith Bool List Reals Lra Lia.
From V Require Import Base.FieldSig Model.Interp Model.RecCoord.
From V Require Import Proofs.InterpSums Proofs.Interp.
Import ListNotations.
Local Open Scope Z_scope.

Section Generic.
  Context {F : Type} {O : FOps F}.

  Lemma select_map (el : bool) (f : @receiver F -> @coord5 F) (rs : list (@receiver F)) :
    select el rs (map f rs) = map f (filter (fun r => Bool.eqb (rc_el r) el) rs).
  Proof.
    unfold select. induction rs as [|r rs IH]; cbn; auto.
    destruct (Bool.eqb (rc_el r) el); cbn; now rewrite IH.
  Qed.

  Lemma answer_rows (sv : @survey F) (c : F * F * F) :
    answer sv (rows sv c) = Coords (spec_coords sv true c) (spec_coords sv false c).
  Proof. unfold answer, rows, spec_coords. now rewrite !select_map. Qed.

  Lemma coherent_nil (sv : @survey F) : coherent sv [].
  Proof. intros s rw H; discriminate H. Qed.

  (* one request: the answer is the specification, the invariant is kept *)
  Lemma request_spec (sv : @survey F) (st : @cache F) (s : Z) :
    coherent sv st ->
    snd (request sv st s) = spec sv (Req s) /\ coherent sv (fst (request sv st s)).
  Proof.
    intros Hc. unfold request, spec.
    destruct (lookup s st) as [rw|] eqn:Hs.
    - destruct (Hc s rw Hs) as (c & Hl & ->). rewrite Hl. cbn. split; auto.
      apply answer_rows.
    - destruct (lookup s (sv_sources sv)) as [c|] eqn:Hl; cbn.
      + split; [apply answer_rows|].
        intros s' rw'. cbn. destruct (Z.eqb s' s) eqn:E.
        * apply Z.eqb_eq in E. subst s'. intros H; inversion H; subst. eauto.
        * apply Hc.
      + split; auto.
  Qed.

  Lemma step_spec (sv : @survey F) (st : @cache F) (o : op) :
    coherent sv st ->
    snd (step sv st o) = spec sv o /\ coherent sv (fst (step sv st o)).
  Proof. destruct o; cbn; [apply request_spec | auto]. Qed.

  (* every history from every coherent state *)
  Lemma run_spec (sv : @survey F) (ops : list op) :
    forall st, coherent sv st ->
      snd (run sv st ops) = map (spec sv) ops /\ coherent sv (fst (run sv st ops)).
  Proof.
    induction ops as [|o ops IH]; intros st Hc; cbn; auto.
    destruct (step_spec sv st o Hc) as (Ha & Hc1).
    destruct (step sv st o) as (st1, a) eqn:E. cbn in Ha, Hc1.
    destruct (IH st1 Hc1) as (Hr & Hc2).
    destruct (run sv st1 ops) as (st2, r). cbn in *. subst. auto.
  Qed.

  Theorem history_independent (sv : @survey F) (ops : list op) :
    snd (run sv [] ops) = map (spec sv) ops.
  Proof. exact (proj1 (run_spec sv ops [] (coherent_nil sv))). Qed.

  (* after any history, any further request *)
  Theorem request_after_history (sv : @survey F) (ops : list op) (s : Z) :
    snd (request sv (fst (run sv [] ops)) s) = spec sv (Req s).
  Proof.
    apply request_spec. exact (proj2 (run_spec sv ops [] (coherent_nil sv))).
  Qed.

  (* fault path: a request that raises KeyError leaves the cache as it was *)
  Theorem failed_request_keeps_cache (sv : @survey F) (st : @cache F) (s : Z) :
    snd (request sv st s) = KeyErr -> fst (request sv st s) = st.
  Proof.
    unfold request. destruct (lookup s st); cbn; auto.
    destruct (lookup s (sv_sources sv)); cbn; auto. discriminate.
  Qed.

  (* a cached entry is never rewritten by later operations *)
  Theorem cache_entries_stable (sv : @survey F) (ops : list op) :
    forall st s rw, lookup s st = Some rw -> lookup s (fst (run sv st ops)) = Some rw.
  Proof.
    induction ops as [|o ops IH]; intros st s rw H; cbn; auto.
    destruct (step sv st o) as (st1, a) eqn:E.
    assert (H1 : lookup s st1 = Some rw).
    { destruct o as [s0|]; cbn in E; [|inversion E; subst; auto].
      unfold request in E. destruct (lookup s0 st) eqn:L0; [inversion E; subst; auto|].
      destruct (lookup s0 (sv_sources sv)); inversion E; subst; auto.
      cbn. destruct (Z.eqb s s0) eqn:Q; auto.
      apply Z.eqb_eq in Q. subst. congruence. }
    specialize (IH st1 s rw H1). destruct (run sv st1 ops). exact IH.
  Qed.

  (* the coordinates of one receiver: own coordinates (absolute) or source
     centre + offset (relative), orientation unchanged *)
  Lemma coordinates_abs_absolute (c : F * F * F) (r : @receiver F) :
    rc_rel r = false -> coordinates_abs c r = (rc_xyz r, rc_ang r).
  Proof. unfold coordinates_abs. now intros ->. Qed.

  Lemma coordinates_abs_relative (c : F * F * F) (r : @receiver F) :
    rc_rel r = true -> coordinates_abs c r = (add3 c (rc_xyz r), rc_ang r).
  Proof. unfold coordinates_abs. now intros ->. Qed.
End Generic.

(* ---- composition with the transpose theorem (over R) ---- *)
Section Responses.
  Variables (nx ny nz : Z) (ndx ndy ndz : Z -> R) (eps : R).
  Hypothesis Hnx : 2 <= nx.
  Hypothesis Hny : 2 <= ny.
  Hypothesis Hnz : 2 <= nz.
  Hypothesis Ix : strictly_increasing nx ndx.
  Hypothesis Iy : strictly_increasing ny ndy.
  Hypothesis Iz : strictly_increasing nz ndz.
  Variable rotf : R -> R -> R * R * R.

  Definition sampled_ok (b : (R * R * R) * (R * R * R)) : Prop :=
    inner_range nx ndx (fst (fst (fst b))) /\
    inner_range ny ndy (snd (fst (fst b))) /\
    inner_range nz ndz (snd (fst b)) /\
    (rx_f1 b = 0%R \/ used Rleb eps (rx_f1 b) = true) /\
    (rx_f2 b = 0%R \/ used Rleb eps (rx_f2 b) = true) /\
    (rx_f3 b = 0%R \/ used Rleb eps (rx_f3 b) = true).

  Lemma responses_after_history
        (sv : @survey R) (ops : list op) (s : Z) (c : R * R * R) (el : bool)
        (fx fy fz : Z -> Z -> Z -> R) :
    lookup s (sv_sources sv) = Some c ->
    Forall (fun r => sampled_ok (to_batch rotf (coordinates_abs c r)))
           (filter (fun r => Bool.eqb (rc_el r) el) (sv_receivers sv)) ->
    exists out,
      snd (get_responses Rleb nx ny nz ndx ndy ndz eps rotf sv (fst (run sv [] ops)) s el fx fy fz)
      = Some out /\
      Forall2 (fun r o =>
                 let b := to_batch rotf (coordinates_abs c r) in
                 exists vx vy vz,
                   point_vector_gen Rleb nx ny nz ndx ndy ndz el
                     (fst (fst (fst b))) (snd (fst (fst b))) (snd (fst b))
                     (rx_f1 b) (rx_f2 b) (rx_f3 b) = Some (vx, vy, vz) /\
                   o = Some (inner3 nx ny nz el vx vy vz fx fy fz))
              (filter (fun r => Bool.eqb (rc_el r) el) (sv_receivers sv)) out.
  Proof using Hnx Hny Hnz Ix Iy Iz.
    intros Hl HF.
    pose proof (request_after_history sv ops s) as Hq.
    unfold get_responses.
    destruct (request sv (fst (run sv [] ops)) s) as (st', a). cbn in Hq. subst a.
    cbn [spec]. rewrite Hl. cbn [snd].
    set (rs := filter (fun r => Bool.eqb (rc_el r) el) (sv_receivers sv)) in *.
    assert (E : (if el then spec_coords sv true c else spec_coords sv false c)
                = map (coordinates_abs c) rs).
    { unfold spec_coords, rs. now destruct el. }
    rewrite E. eexists; split; [reflexivity|].
    rewrite map_map.
    pose proof (receiver_batch_transpose nx ny nz ndx ndy ndz Hnx Hny Hnz Ix Iy Iz eps
                  el fx fy fz (map (fun r => to_batch rotf (coordinates_abs c r)) rs)) as HB.
    assert (HF' : Forall (fun b => sampled_ok b)
                         (map (fun r => to_batch rotf (coordinates_abs c r)) rs)).
    { apply Forall_map. exact HF. }
    specialize (HB HF').
    clear -HB. revert HB.
    generalize (get_receiver_batch Rleb nx ny nz ndx ndy ndz eps el fx fy fz
                  (map (fun r => to_batch rotf (coordinates_abs c r)) rs)).
    induction rs as [|r rs IH]; intros l H; cbn in H; inversion H; subst; constructor; auto.
  Qed.
End Responses.
