(* Proofs/BandSums.v -- finite sums over half-open integer ranges,
     sumZ lo hi f = f lo + f (lo+1) + ... + f (hi-1)        (0 when hi <= lo),
   defined with the same [Zfold] the generated kernels use, over any field.
   Lemmas: empty / snoc / first / ext / linearity / split / shift / zero
   extension (indicator form) / exchange of two sums over a rectangle and over a
   region with dependent bounds (triangular, banded).
   Used by Proofs/BandLDL.v (C03, banded L D L^T solver). *)
From Coq Require Import ZArith Lia Bool Field.
From V Require Import Base.Loops Base.FieldSig.
Local Open Scope Z_scope.

Section SumZDef.
  Context {F : Type} {O : FOps F}.
  Definition sumZ (lo hi : Z) (f : Z -> F) : F :=
    Zfold lo hi (fun k s => (s + f k)%F) 0%F.
End SumZDef.

(* induction over the upper end of a range *)
Lemma Zrange_ind (lo : Z) (P : Z -> Prop) :
  P lo -> (forall h, lo <= h -> P h -> P (h + 1)) -> forall hi, lo <= hi -> P hi.
Proof.
  intros H0 Hs hi Hle.
  replace hi with (lo + Z.of_nat (Z.to_nat (hi - lo))) by lia.
  induction (Z.to_nat (hi - lo)) as [|m IH].
  - now rewrite Z.add_0_r.
  - replace (lo + Z.of_nat (S m)) with (lo + Z.of_nat m + 1) by lia.
    apply Hs; [lia | exact IH].
Qed.

(* induction downwards from the upper end of a range *)
Lemma Zrange_ind_down (hi : Z) (P : Z -> Prop) :
  P hi -> (forall h, h <= hi -> P h -> P (h - 1)) -> forall lo, lo <= hi -> P lo.
Proof.
  intros H0 Hs lo Hle.
  replace lo with (hi - Z.of_nat (Z.to_nat (hi - lo))) by lia.
  induction (Z.to_nat (hi - lo)) as [|m IH].
  - now rewrite Z.sub_0_r.
  - replace (hi - Z.of_nat (S m)) with (hi - Z.of_nat m - 1) by lia.
    apply Hs; [lia | exact IH].
Qed.

Section SumZ.
  Context {F : Type} {O : FOps F}.
  Hypothesis Fth : field_theory F0 F1 Fadd Fmul Fsub Fopp Fdiv Finv (@eq F).
  Add Field Fsz : Fth.
  Local Open Scope F_scope.

  Lemma sumZ_empty lo hi (f : Z -> F) : (hi <= lo)%Z -> sumZ lo hi f = 0.
  Proof. intros H. unfold sumZ. now rewrite Zfold_empty. Qed.

  Lemma sumZ_snoc lo hi (f : Z -> F) : (lo <= hi)%Z ->
    sumZ lo (hi + 1) f = sumZ lo hi f + f hi.
  Proof. intros H. unfold sumZ. now rewrite Zfold_snoc. Qed.

  Lemma sumZ_one lo (f : Z -> F) : sumZ lo (lo + 1) f = f lo.
  Proof. rewrite sumZ_snoc, sumZ_empty by lia. ring. Qed.

  (* an accumulating loop started from any value *)
  Lemma Zfold_acc lo hi (f : Z -> F) (s0 : F) :
    Zfold lo hi (fun k s => s + f k) s0 = s0 + sumZ lo hi f.
  Proof.
    destruct (Z_le_gt_dec lo hi) as [Hle|Hgt].
    - revert hi Hle. apply (Zrange_ind lo).
      + rewrite Zfold_empty, sumZ_empty by lia. ring.
      + intros h Hh IH. rewrite Zfold_snoc, sumZ_snoc, IH by lia. ring.
    - rewrite Zfold_empty, sumZ_empty by lia. ring.
  Qed.

  Lemma sumZ_first lo hi (f : Z -> F) : (lo < hi)%Z ->
    sumZ lo hi f = f lo + sumZ (lo + 1) hi f.
  Proof.
    intros H. unfold sumZ at 1. rewrite Zfold_first by lia.
    rewrite Zfold_acc. ring.
  Qed.

  Lemma sumZ_ext lo hi (f g : Z -> F) :
    (forall k, (lo <= k < hi)%Z -> f k = g k) -> sumZ lo hi f = sumZ lo hi g.
  Proof.
    intros H. unfold sumZ. apply Zfold_ext. intros i s Hi. now rewrite H.
  Qed.

  Lemma sumZ_split lo mid hi (f : Z -> F) : (lo <= mid <= hi)%Z ->
    sumZ lo hi f = sumZ lo mid f + sumZ mid hi f.
  Proof.
    intros [H1 H2]. revert hi H2. apply (Zrange_ind mid).
    - rewrite (sumZ_empty mid mid) by lia. ring.
    - intros h Hh IH. rewrite !sumZ_snoc, IH by lia. ring.
  Qed.

  Lemma sumZ_zero lo hi : sumZ lo hi (fun _ => 0) = 0.
  Proof.
    destruct (Z_le_gt_dec lo hi) as [Hle|Hgt].
    - revert hi Hle. apply (Zrange_ind lo).
      + now rewrite sumZ_empty by lia.
      + intros h Hh IH. rewrite sumZ_snoc, IH by lia. ring.
    - now rewrite sumZ_empty by lia.
  Qed.

  Lemma sumZ_zero_ext lo hi (f : Z -> F) :
    (forall k, (lo <= k < hi)%Z -> f k = 0) -> sumZ lo hi f = 0.
  Proof. intros H. rewrite (sumZ_ext lo hi f (fun _ => 0) H). apply sumZ_zero. Qed.

  Lemma sumZ_add lo hi (f g : Z -> F) :
    sumZ lo hi (fun k => f k + g k) = sumZ lo hi f + sumZ lo hi g.
  Proof.
    destruct (Z_le_gt_dec lo hi) as [Hle|Hgt].
    - revert hi Hle. apply (Zrange_ind lo).
      + rewrite !sumZ_empty by lia. ring.
      + intros h Hh IH. rewrite !sumZ_snoc, IH by lia. ring.
    - rewrite !sumZ_empty by lia. ring.
  Qed.

  Lemma sumZ_scale_l lo hi (c : F) (f : Z -> F) :
    sumZ lo hi (fun k => c * f k) = c * sumZ lo hi f.
  Proof.
    destruct (Z_le_gt_dec lo hi) as [Hle|Hgt].
    - revert hi Hle. apply (Zrange_ind lo).
      + rewrite !sumZ_empty by lia. ring.
      + intros h Hh IH. rewrite !sumZ_snoc, IH by lia. ring.
    - rewrite !sumZ_empty by lia. ring.
  Qed.

  Lemma sumZ_scale_r lo hi (c : F) (f : Z -> F) :
    sumZ lo hi (fun k => f k * c) = sumZ lo hi f * c.
  Proof.
    rewrite (sumZ_ext lo hi _ (fun k => c * f k)) by (intros; ring).
    rewrite sumZ_scale_l. ring.
  Qed.

  Lemma sumZ_sub lo hi (f g : Z -> F) :
    sumZ lo hi (fun k => f k - g k) = sumZ lo hi f - sumZ lo hi g.
  Proof.
    rewrite (sumZ_ext lo hi _ (fun k => f k + (- (1)) * g k)) by (intros; ring).
    rewrite sumZ_add, sumZ_scale_l. ring.
  Qed.

  (* index shift *)
  Lemma sumZ_shift lo hi (c : Z) (f : Z -> F) :
    sumZ (lo + c) (hi + c) f = sumZ lo hi (fun k => f (k + c)%Z).
  Proof.
    destruct (Z_le_gt_dec lo hi) as [Hle|Hgt].
    - revert hi Hle. apply (Zrange_ind lo).
      + now rewrite !sumZ_empty by lia.
      + intros h Hh IH.
        replace (h + 1 + c)%Z with (h + c + 1)%Z by lia.
        rewrite !sumZ_snoc, IH by lia. reflexivity.
    - now rewrite !sumZ_empty by lia.
  Qed.

  (* zero extension: a sum over [lo,hi) is the sum over any enclosing range of
     the summand cut off by the indicator of [lo,hi) *)
  Definition inrange (lo hi k : Z) : bool := (lo <=? k)%Z && (k <? hi)%Z.

  Lemma inrange_true lo hi k : inrange lo hi k = true <-> (lo <= k < hi)%Z.
  Proof. unfold inrange. rewrite andb_true_iff, Z.leb_le, Z.ltb_lt. tauto. Qed.

  Lemma inrange_false lo hi k : inrange lo hi k = false <-> ~ (lo <= k < hi)%Z.
  Proof.
    rewrite <- inrange_true. destruct (inrange lo hi k); split; intros; easy.
  Qed.

  Lemma sumZ_indicator c d lo hi (f : Z -> F) :
    (forall k, (lo <= k < hi)%Z -> (c <= k < d)%Z) ->
    sumZ c d (fun k => if inrange lo hi k then f k else 0) = sumZ lo hi f.
  Proof.
    intros Hsub.
    destruct (Z_lt_ge_dec lo hi) as [Hlt|Hge].
    - assert (Hc : (c <= lo)%Z) by (specialize (Hsub lo); lia).
      assert (Hd : (hi <= d)%Z) by (specialize (Hsub (hi - 1)%Z); lia).
      rewrite (sumZ_split c lo d) by lia.
      rewrite (sumZ_split lo hi d) by lia.
      rewrite (sumZ_zero_ext c lo), (sumZ_zero_ext hi d).
      + rewrite (sumZ_ext lo hi _ f); [ring|].
        intros k Hk. now rewrite (proj2 (inrange_true lo hi k) Hk).
      + intros k Hk. rewrite (proj2 (inrange_false lo hi k)); [reflexivity|lia].
      + intros k Hk. rewrite (proj2 (inrange_false lo hi k)); [reflexivity|lia].
    - rewrite (sumZ_empty lo hi) by lia. apply sumZ_zero_ext.
      intros k Hk. rewrite (proj2 (inrange_false lo hi k)); [reflexivity|lia].
  Qed.

  (* exchange over a rectangle *)
  Lemma sumZ_exchange a b c d (f : Z -> Z -> F) :
    sumZ a b (fun k => sumZ c d (fun j => f k j))
    = sumZ c d (fun j => sumZ a b (fun k => f k j)).
  Proof.
    destruct (Z_le_gt_dec a b) as [Hle|Hgt].
    - revert b Hle. apply (Zrange_ind a).
      + rewrite sumZ_empty by lia. symmetry. apply sumZ_zero_ext.
        intros j _. now rewrite sumZ_empty by lia.
      + intros h Hh IH. rewrite sumZ_snoc, IH by lia.
        rewrite <- sumZ_add. apply sumZ_ext. intros j _.
        now rewrite sumZ_snoc by lia.
    - rewrite sumZ_empty by lia. symmetry. apply sumZ_zero_ext.
      intros j _. now rewrite sumZ_empty by lia.
  Qed.

  (* exchange over a region with dependent bounds: both iterated sums run over
     the same set of index pairs *)
  Lemma sumZ_exchange_dep a b c d (lo1 hi1 lo2 hi2 : Z -> Z) (f : Z -> Z -> F) :
    (forall k j, ((a <= k < b)%Z /\ (lo1 k <= j < hi1 k)%Z)
                 <-> ((c <= j < d)%Z /\ (lo2 j <= k < hi2 j)%Z)) ->
    sumZ a b (fun k => sumZ (lo1 k) (hi1 k) (fun j => f k j))
    = sumZ c d (fun j => sumZ (lo2 j) (hi2 j) (fun k => f k j)).
  Proof.
    intros H.
    rewrite (sumZ_ext a b _
      (fun k => sumZ c d (fun j => if inrange (lo1 k) (hi1 k) j then f k j else 0))).
    2:{ intros k Hk. symmetry. apply sumZ_indicator.
        intros j Hj. apply (H k j). split; assumption. }
    rewrite (sumZ_ext c d (fun j => sumZ (lo2 j) (hi2 j) (fun k => f k j))
      (fun j => sumZ a b (fun k => if inrange (lo2 j) (hi2 j) k then f k j else 0))).
    2:{ intros j Hj. symmetry.
        apply (sumZ_indicator a b (lo2 j) (hi2 j) (fun k => f k j)).
        intros k Hk. apply (H k j). split; assumption. }
    rewrite sumZ_exchange.
    apply sumZ_ext. intros j Hj. apply sumZ_ext. intros k Hk.
    destruct (inrange (lo1 k) (hi1 k) j) eqn:E1;
      destruct (inrange (lo2 j) (hi2 j) k) eqn:E2; try reflexivity.
    - apply inrange_true in E1. apply inrange_false in E2.
      exfalso. apply E2. apply (H k j). split; assumption.
    - apply inrange_false in E1. apply inrange_true in E2.
      exfalso. apply E1. apply (H k j). split; assumption.
  Qed.
End SumZ.
