(* Proofs/JtWeightsC.v -- C08 (round 6): the hypotheses of the history theorems
   (Proofs/JtWeights.v) are satisfiable by a NON-TRIVIAL history over the complex
   numbers -- a state whose cached weights differ from the weights of the
   current noise model -- and the theorems have teeth: the model variant that
   scales the vector with weights taken afresh from the survey
   ([jt_source_afresh], the class of seed C08-6) does NOT hand the solver the
   history-independent source on that state. *)
From Coq Require Import Reals Lra List Bool Field.
From Coquelicot Require Import Coquelicot.
From V Require Import Base.FieldSig Base.Sums Model.Adjoint Model.JtWeights Proofs.AdjointC.
Import ListNotations.

Definition jw_sd1 : unit -> C := fun _ => RtoC 1.
Definition jw_sd2 : unit -> C := fun _ => RtoC 2.
Definition jw_fin : unit -> bool := fun _ => true.
Definition jw_p : unit -> unit -> C := fun _ _ => RtoC 1.
Definition jw_y : unit -> C := fun _ => RtoC 1.
(* misfit (caches the weights of std = 1), then the noise model changes to std = 2 *)
Definition jw_hist : list (@wop C unit) := [OpMisfit; OpNoise jw_sd2].
Definition jw_end : @wstate C unit := final Cconj [tt] Ci jw_p jw_fin jw_hist (fresh jw_sd1).

Lemma jw_sd_good r : r <> 0%R -> good_sd Cconj jw_fin (fun _ : unit => RtoC r).
Proof.
  intros Hr j _. split.
  - apply injective_projections; cbn; ring.
  - intros H. apply (f_equal fst) in H. cbn in H. lra.
Qed.

Lemma jw_nonvacuous :
  good_state Cconj jw_fin (fresh jw_sd1)
  /\ List.Forall (good_op Cconj jw_fin) jw_hist
  /\ st_w (do_misfit jw_end) = Some (weights_of jw_sd1)
  /\ weights_of jw_sd1 tt <> weights_of (st_sd jw_end) tt
  /\ jt_source_afresh Cconj [tt] Ci jw_p jw_fin jw_end jw_y tt
     <> jt_source_ideal Cconj [tt] jw_p jw_fin jw_y tt.
Proof.
  split; [|split; [|split; [|split]]].
  - split; [|split]; cbn.
    + apply (jw_sd_good 1). lra.
    + intros w Q. discriminate.
    + intros Q. discriminate.
  - constructor; [exact I|]. constructor; [|constructor]. cbn. apply (jw_sd_good 2). lra.
  - reflexivity.
  - cbn. unfold weights_of, jw_sd1, jw_sd2. intros H. apply (f_equal fst) in H. cbn in H. lra.
  - intros H. apply (f_equal fst) in H. cbn in H. field_simplify in H. lra.
Qed.
