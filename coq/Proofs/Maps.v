(* Proofs/Maps.v -- C14: lemmas about the generated maps (Gen/MapsMap.v) and the
   validation / coefficient model (Model/Maps.v). *)
From Coq Require Import Reals ZArith Bool List String Lra Lia.
From Coquelicot Require Import Coquelicot.
From V Require Import Base.FieldSig Model.VolumeModel Gen.MapsMap Model.Maps.
Import ListNotations.
Local Open Scope R_scope.

Ltac unfold_maps :=
  cbv [forward backward chain
       forward_Conductivity backward_Conductivity chain_Conductivity
       forward_LgConductivity backward_LgConductivity chain_LgConductivity
       forward_LnConductivity backward_LnConductivity chain_LnConductivity
       forward_Resistivity backward_Resistivity chain_Resistivity
       forward_LgResistivity backward_LgResistivity chain_LgResistivity
       forward_LnResistivity backward_LnResistivity chain_LnResistivity].

Lemma ln10_pos : 0 < ln 10.
Proof. rewrite <- ln_1. apply ln_increasing; lra. Qed.
Lemma ln10_nz : ln 10 <> 0.
Proof. pose proof ln10_pos; lra. Qed.

Lemma ln_inv1 s : 0 < s -> ln (1 / s) = - ln s.
Proof. intros H. unfold Rdiv. rewrite Rmult_1_l. now apply ln_Rinv. Qed.

(* --------------------------------------------------------------- round trips *)
Lemma backward_forward m s : 0 < s -> backward m (forward m s) = s.
Proof.
  intros Hs. pose proof ln10_nz as Hl.
  destruct m; unfold_maps.
  - reflexivity.
  - replace (ln s / ln 10 * ln 10) with (ln s) by (field; exact Hl). now apply exp_ln.
  - now apply exp_ln.
  - field. lra.
  - rewrite (ln_inv1 s Hs).
    replace (- (- ln s / ln 10) * ln 10) with (ln s) by (field; exact Hl). now apply exp_ln.
  - rewrite (ln_inv1 s Hs), Ropp_involutive. now apply exp_ln.
Qed.

Lemma backward_pos m x : (map_is_log m = true \/ 0 < x) -> 0 < backward m x.
Proof.
  intros H. destruct m; unfold_maps; cbn in H;
    try apply exp_pos; destruct H as [H|H]; try discriminate; try exact H.
  unfold Rdiv. rewrite Rmult_1_l. now apply Rinv_0_lt_compat.
Qed.

Lemma backward_pos_log m x : map_is_log m = true -> 0 < backward m x.
Proof. intros H. apply backward_pos. now left. Qed.

Lemma forward_backward m x : 0 < backward m x -> forward m (backward m x) = x.
Proof.
  pose proof ln10_nz as Hl.
  destruct m; unfold_maps; intros Hp.
  - reflexivity.
  - rewrite ln_exp. field. exact Hl.
  - apply ln_exp.
  - assert (x <> 0).
    { intros ->. unfold Rdiv in Hp. rewrite Rinv_0 in Hp. lra. }
    field. exact H.
  - rewrite ln_inv1 by apply exp_pos. rewrite ln_exp. field. exact Hl.
  - rewrite ln_inv1 by apply exp_pos. rewrite ln_exp. lra.
Qed.

(* forward of a positive conductivity is a valid mapped value *)
Lemma forward_valid m s : 0 < s -> 0 < backward m (forward m s).
Proof. intros H. now rewrite backward_forward. Qed.

(* -------------------------------------------------------------- chain rule *)
Lemma chain_is_derivative m x :
  (m = MResistivity -> x <> 0) -> is_derive (backward m) x (chain m x).
Proof.
  intros Hx.
  destruct m; unfold_maps.
  - auto_derive; [exact I | ring].
  - auto_derive; [exact I | ring].
  - auto_derive; [exact I | ring].
  - specialize (Hx eq_refl). auto_derive; [exact Hx | field; exact Hx].
  - auto_derive; [exact I | ring].
  - auto_derive; [exact I | ring].
Qed.

(* the gradient conversion: d/dx phi(backward x) = phi'(backward x) * chain x *)
Lemma chain_rule_gradient m (phi : R -> R) x g :
  (m = MResistivity -> x <> 0) ->
  is_derive phi (backward m x) g ->
  is_derive (fun y => phi (backward m y)) x (g * chain m x).
Proof.
  intros Hx Hphi.
  pose proof (is_derive_comp phi (backward m) x g (chain m x) Hphi
                             (chain_is_derivative m x Hx)) as H.
  replace (g * chain m x) with (scal (chain m x) g); [exact H|].
  unfold scal; cbn; unfold mult; cbn; ring.
Qed.

(* ------------------------------------------------- coefficients are invariant *)
Section CoeffInv.
  Context {F : Type} {O : FOps F}.
  Variable inj : R -> F.
  Variables smu0 sval eps0 : F.

  (* The coefficients computed from ANY parametrisation of the conductivities
     (sx, sy, sz) are those of the conductivities themselves. *)
  Lemma coeffs_of_forward m case has_eps has_mu vol epsr mur sx sy sz :
    0 < sx -> 0 < sy -> 0 < sz ->
    cell_coeffs inj smu0 sval eps0 m case has_eps has_mu vol epsr mur
                (forward m sx) (forward m sy) (forward m sz)
    = cell_coeffs inj smu0 sval eps0 MConductivity case has_eps has_mu vol epsr mur sx sy sz.
  Proof.
    intros Hx Hy Hz. unfold cell_coeffs.
    rewrite !backward_forward by assumption. reflexivity.
  Qed.

  Lemma coeffs_invariant m1 m2 case has_eps has_mu vol epsr mur sx sy sz :
    0 < sx -> 0 < sy -> 0 < sz ->
    cell_coeffs inj smu0 sval eps0 m1 case has_eps has_mu vol epsr mur
                (forward m1 sx) (forward m1 sy) (forward m1 sz)
    = cell_coeffs inj smu0 sval eps0 m2 case has_eps has_mu vol epsr mur
                (forward m2 sx) (forward m2 sy) (forward m2 sz).
  Proof.
    intros Hx Hy Hz.
    rewrite (coeffs_of_forward m1), (coeffs_of_forward m2) by assumption. reflexivity.
  Qed.
End CoeffInv.

(* ----------------------------------------------------------------- selection *)
Lemma map_of_name_name m : map_of_name (map_name m) = Some m.
Proof. destruct m; reflexivity. Qed.

Lemma map_of_name_sound s m : map_of_name s = Some m -> map_name m = s.
Proof.
  unfold map_of_name. intros H. apply find_some in H. destruct H as [_ H].
  now apply String.eqb_eq in H.
Qed.

(* ---------------------------------------------------------------- validation *)
Section ValidationProofs.
  Context {F : Type}.
  Variable pos0 isz : F -> bool.
  Variable bwF : mapid -> F -> F.
  Variable ovf : mapid -> F -> option (xval F).
  Variable zero : F.
  Hypothesis zero_not_pos : pos0 zero = false.

  Notation check_pf := (check_pf pos0 isz bwF ovf zero).
  Notation model_init := (model_init pos0 isz bwF ovf zero).
  Notation model_set := (model_set pos0 isz bwF ovf zero).

  (* what an accepted cell value is *)
  Definition accepts (m : mapid) (p : pname) (v : xval F) : Prop :=
    match v with
    | Fin x =>
        if is_property p
        then match ovf m x with
             | Some s => xpos pos0 s = true /\ xfin s = true   (* over-/underflow of backward *)
             | None => match m with MResistivity => isz x = false | _ => True end
                       /\ pos0 (bwF m x) = true
             end
        else pos0 x = true
    | NegZero =>      (* -0.0: the finite value 0 under the log maps *)
        if is_property p
        then match m with
             | MConductivity | MResistivity => False
             | _ => pos0 (bwF m zero) = true
             end
        else False
    | _ => False
    end.

  Lemma accepts_iff_bool m p v :
    accepts m p v <->
    xpos pos0 (if is_property p then bwx isz bwF ovf zero m v else v) = true /\
    xfin (if is_property p then bwx isz bwF ovf zero m v else v) = true.
  Proof using zero_not_pos.
    destruct v as [x| | | |]; cbn [accepts]; destruct (is_property p);
      destruct m; cbn;
      repeat match goal with |- context [ovf ?mm ?xx] => destruct (ovf mm xx) end;
      rewrite ?zero_not_pos; try destruct (isz x); cbn;
      intuition (try discriminate).
  Qed.

  Lemma Forall_iff_ext {A} (P Q : A -> Prop) l :
    (forall a, P a <-> Q a) -> (List.Forall P l <-> List.Forall Q l).
  Proof.
    intros H. split; apply List.Forall_impl; intros a; apply H.
  Qed.

  Lemma forallb_two {A} (f g : A -> bool) l :
    (forallb f l = true /\ forallb g l = true) <->
    List.Forall (fun a => f a = true /\ g a = true) l.
  Proof.
    induction l as [|a l IH]; cbn.
    - split; [constructor|auto].
    - rewrite !andb_true_iff. split.
      + intros [[? ?] [? ?]]. constructor; [auto|]. apply IH; auto.
      + intros H. inversion H as [|a' l' Ha Hl]; subst. destruct Ha. apply IH in Hl. tauto.
  Qed.

  Lemma check_pf_accepts m attr p values :
    check_pf m attr p values = None <->
    attr <> Some None /\ List.Forall (accepts m p) values.
  Proof using zero_not_pos.
    assert (E : forall mapped,
      (if negb (forallb (xpos pos0) mapped) then Some ErrPositive
       else if negb (forallb xfin mapped) then Some ErrFinite else None) = None
      <-> (forallb (xpos pos0) mapped = true /\ forallb xfin mapped = true)).
    { intros mp. destruct (forallb (xpos pos0) mp), (forallb xfin mp); cbn;
        split; try tauto; try discriminate; intros [? ?]; discriminate. }
    assert (G : List.Forall (accepts m p) values <->
                (forallb (xpos pos0) (if is_property p
                     then map (bwx isz bwF ovf zero m) values else values) = true /\
                 forallb xfin (if is_property p
                     then map (bwx isz bwF ovf zero m) values else values) = true)).
    { rewrite forallb_two.
      destruct (is_property p) eqn:Ep.
      - rewrite List.Forall_map. apply Forall_iff_ext. intros v.
        rewrite accepts_iff_bool, Ep. tauto.
      - apply Forall_iff_ext. intros v. rewrite accepts_iff_bool, Ep. tauto. }
    unfold Maps.check_pf.
    destruct attr as [[l|]|].
    - rewrite E, G. split; [intros H; split; [discriminate|exact H] | tauto].
    - split; [discriminate | intros [H _]; now elim H].
    - rewrite E, G. split; [intros H; split; [discriminate|exact H] | tauto].
  Qed.
End ValidationProofs.

Section ModelProofs.
  Context {F : Type}.
  Variable pos0 isz : F -> bool.
  Variable bwF : mapid -> F -> F.
  Variable ovf : mapid -> F -> option (xval F).
  Variable zero : F.
  Hypothesis zero_not_pos : pos0 zero = false.

  Notation check_pf := (check_pf pos0 isz bwF ovf zero).
  Notation init_parameter := (init_parameter pos0 isz bwF ovf zero).
  Notation model_init := (model_init pos0 isz bwF ovf zero).
  Notation model_set := (model_set pos0 isz bwF ovf zero).
  Notation accepts := (accepts pos0 isz bwF ovf zero).

  Definition opt_ok (m : mapid) (p : pname) (o : option (list (xval F))) : Prop :=
    match o with None => True | Some vs => List.Forall (accepts m p) vs end.

  Definition model_valid (md : model) : Prop :=
    opt_ok (m_map md) PX (m_x md) /\ opt_ok (m_map md) PY (m_y md) /\
    opt_ok (m_map md) PZ (m_z md) /\ opt_ok (m_map md) PMu (m_mu md) /\
    opt_ok (m_map md) PEps (m_eps md).

  Lemma init_parameter_ok m p o : init_parameter m p o = None <-> opt_ok m p o.
  Proof using zero_not_pos.
    destruct o as [vs|]; unfold Maps.init_parameter, opt_ok; [|tauto].
    rewrite (check_pf_accepts pos0 isz bwF ovf zero zero_not_pos). split.
    - now intros [_ H].
    - intros H; split; [discriminate|exact H].
  Qed.

  Lemma first_err_cons e l :
    first_err (e :: l) = None <-> e = None /\ first_err l = None.
  Proof.
    unfold first_err; cbn. destruct e; split; try tauto; try discriminate.
    all: try (intros [? _]; discriminate).
  Qed.

  Lemma model_init_spec mapping x y z mu eps md :
    model_init mapping x y z mu eps = inl md <->
    exists m, map_of_name mapping = Some m /\ md = mkModel m x y z mu eps /\ model_valid md.
  Proof using zero_not_pos.
    unfold Maps.model_init. destruct (map_of_name mapping) as [m|].
    2:{ split; [discriminate | intros [m [H _]]; discriminate]. }
    match goal with |- context [first_err ?l] => destruct (first_err l) eqn:E end.
    - split; [discriminate|]. intros [m' [Hm [-> Hv]]]. injection Hm as <-.
      exfalso. destruct Hv as (H1 & H2 & H3 & H4 & H5); cbn in *.
      apply init_parameter_ok in H1, H2, H3, H4, H5.
      unfold first_err in E; cbn in E.
      rewrite H1, H2, H3, H4, H5 in E. discriminate.
    - rewrite !first_err_cons in E. destruct E as (H1 & H2 & H3 & H4 & H5 & _).
      apply init_parameter_ok in H1, H2, H3, H4, H5.
      split.
      + intros H; injection H as <-. exists m. repeat split; assumption.
      + intros [m' [Hm [-> _]]]. now injection Hm as <-.
  Qed.

  Lemma model_init_unknown_map mapping x y z mu eps :
    map_of_name mapping = None -> model_init mapping x y z mu eps = inr ErrMap.
  Proof. unfold Maps.model_init. now intros ->. Qed.

  Lemma model_set_spec md p vs md' :
    model_set md p vs = inl md' <->
    get_prop md p <> None /\ List.Forall (accepts (m_map md) p) vs /\
    md' = set_prop md p (Some vs).
  Proof using zero_not_pos.
    unfold Maps.model_set.
    destruct (check_pf (m_map md) (Some (get_prop md p)) p vs) eqn:E.
    - split; [discriminate|]. intros (Hn & Hf & _).
      assert (check_pf (m_map md) (Some (get_prop md p)) p vs = None) as E'.
      { apply (check_pf_accepts pos0 isz bwF ovf zero zero_not_pos). split; [|exact Hf].
        intros H; injection H as H. contradiction. }
      rewrite E' in E; discriminate.
    - apply (check_pf_accepts pos0 isz bwF ovf zero zero_not_pos) in E. destruct E as [Hn Hf].
      split.
      + intros H; injection H as <-. repeat split; try assumption.
        intros H; apply Hn; now rewrite H.
      + intros (_ & _ & ->). reflexivity.
  Qed.

  (* a property that was None cannot be set *)
  Lemma none_cannot_be_set md p vs :
    get_prop md p = None -> model_set md p vs = inr ErrNone.
  Proof. unfold Maps.model_set, Maps.check_pf. now intros ->. Qed.

  Lemma model_set_preserves md p vs md' :
    model_valid md -> model_set md p vs = inl md' ->
    model_valid md' /\ case_of md' = case_of md /\ m_map md' = m_map md.
  Proof using zero_not_pos.
    intros Hv H. apply model_set_spec in H. destruct H as (Hn & Hf & ->).
    destruct Hv as (H1 & H2 & H3 & H4 & H5).
    destruct md as [m x y z mu eps]; cbn in *.
    destruct p; cbn in *; unfold model_valid; cbn;
      (split; [repeat split; assumption|split; [|reflexivity]]);
      try reflexivity.
    - destruct y; [reflexivity|now elim Hn].
    - destruct z; [reflexivity|now elim Hn].
  Qed.

  (* augmented assignment: same acceptance rule as plain assignment; the storage
     holds the operated values in any case *)
  Lemma model_aug_spec md p vs :
    (snd (Maps.model_aug pos0 isz bwF ovf zero md p vs) = None <->
     get_prop md p <> None /\ List.Forall (accepts (m_map md) p) vs) /\
    (get_prop md p <> None ->
     fst (Maps.model_aug pos0 isz bwF ovf zero md p vs) = set_prop md p (Some vs)) /\
    (get_prop md p = None ->
     Maps.model_aug pos0 isz bwF ovf zero md p vs = (md, Some ErrType)).
  Proof using zero_not_pos.
    unfold Maps.model_aug. destruct (get_prop md p) as [l|] eqn:E; cbn [fst snd].
    - split; [|split].
      + rewrite (check_pf_accepts pos0 isz bwF ovf zero zero_not_pos). split.
        * intros [_ H]. split; [discriminate|exact H].
        * intros [_ H]. split; [discriminate|exact H].
      + reflexivity.
      + discriminate.
    - split; [|split].
      + split; [discriminate|intros [H _]; now elim H].
      + intros H; now elim H.
      + reflexivity.
  Qed.

  (* acceptance only depends on the sign of the back-mapped values *)
  Lemma forallb_map' {A B} (f : B -> bool) (g : A -> B) l :
    forallb f (map g l) = forallb (fun a => f (g a)) l.
  Proof. induction l; cbn; congruence. Qed.

  Lemma forallb_ext' {A} (f g : A -> bool) l :
    (forall a, f a = g a) -> forallb f l = forallb g l.
  Proof. intros H. induction l; cbn; [reflexivity|]. now rewrite H, IHl. Qed.

  Lemma check_pf_ext (bwF' : mapid -> F -> F) m attr p values :
    (forall x, pos0 (bwF m x) = pos0 (bwF' m x)) ->
    check_pf m attr p values = Maps.check_pf pos0 isz bwF' ovf zero m attr p values.
  Proof.
    intros H. unfold Maps.check_pf. destruct attr as [[l|]|]; try reflexivity;
      destruct (is_property p); try reflexivity; rewrite !forallb_map';
      (assert (E1 : forall v, xpos pos0 (bwx isz bwF ovf zero m v)
                           = xpos pos0 (bwx isz bwF' ovf zero m v))
         by (intros [x| | | |]; destruct m; cbn; try reflexivity; try apply H;
             try (destruct (ovf _ x); [reflexivity|]); cbn; try apply H;
             destruct (isz x); cbn; try reflexivity; apply H));
      (assert (E2 : forall v, xfin (bwx isz bwF ovf zero m v)
                           = xfin (bwx isz bwF' ovf zero m v))
         by (intros [x| | | |]; destruct m; cbn; try reflexivity;
             try (destruct (ovf _ x); [reflexivity|]); cbn; try reflexivity;
             destruct (isz x); reflexivity));
      rewrite (forallb_ext' _ _ _ E1), (forallb_ext' _ _ _ E2); reflexivity.
  Qed.
End ModelProofs.

(* ------------------------------------------------------- the real instance *)
Lemma Rpos0_true x : Rpos0 x = true <-> 0 < x.
Proof. unfold Rpos0. destruct (Rlt_dec 0 x); split; auto; discriminate. Qed.
Lemma Rpos0_zero : Rpos0 0 = false.
Proof. unfold Rpos0. destruct (Rlt_dec 0 0); [lra|reflexivity]. Qed.
Lemma Risz_false x : Risz x = false <-> x <> 0.
Proof. unfold Risz. destruct (Req_EM_T x 0); split; auto; try discriminate. contradiction. Qed.

(* the real number a numpy cell value stands for (None: inf / nan) *)
Definition xreal (v : xval R) : option R :=
  match v with Fin x => Some x | NegZero => Some 0 | _ => None end.

(* conductivity (for property_x/y/z) or the value itself (mu_r, epsilon_r) *)
Definition checked_value (m : mapid) (p : pname) (x : R) : R :=
  if is_property p then backward m x else x.

Lemma backward_res_zero : backward MResistivity 0 = 0.
Proof. cbv [backward backward_Resistivity]. unfold Rdiv. rewrite Rinv_0. ring. Qed.

Lemma accepts_R m p v :
  accepts Rpos0 Risz backward no_ovf 0 m p v <->
  exists x, xreal v = Some x /\ 0 < checked_value m p x.
Proof.
  unfold checked_value.
  destruct v as [x| | | |]; cbn [accepts xreal].
  - destruct (is_property p).
    + unfold no_ovf. cbv beta iota. rewrite Rpos0_true. split.
      * intros [_ H]. exists x; auto.
      * intros [y [E H]]. injection E as ->. split; [|exact H].
        destruct m; auto. apply Risz_false. intros ->.
        rewrite backward_res_zero in H. lra.
    + rewrite Rpos0_true. split.
      * intros H. exists x; auto.
      * intros [y [E H]]. now injection E as ->.
  - destruct (is_property p).
    + assert (L : forall m', 0 < backward m' 0 <->
                  exists x, Some 0 = Some x /\ 0 < backward m' x).
      { intros m'. split; [intros H; exists 0; auto
                          | intros [y [E H]]; injection E as <-; exact H]. }
      destruct m; rewrite ?Rpos0_true; try apply L.
      * split; [intros []|]. intros [y [E H]]; injection E as <-.
        cbv [backward backward_Conductivity] in H. lra.
      * split; [intros []|]. intros [y [E H]]; injection E as <-.
        rewrite backward_res_zero in H. lra.
    + split; [intros []|]. intros [y [E H]]; injection E as <-. lra.
  - split; [intros []|intros [y [E _]]; discriminate].
  - split; [intros []|intros [y [E _]]; discriminate].
  - split; [intros []|intros [y [E _]]; discriminate].
Qed.

(* Validation, stated on real numbers: a value array is accepted iff the
   attribute is not None and every cell is a finite number whose conductivity
   (resp. mu_r / epsilon_r value) is positive. *)
Lemma check_pf_R m attr p values :
  check_pf Rpos0 Risz backward no_ovf 0 m attr p values = None <->
  attr <> Some None /\
  List.Forall (fun v => exists x, xreal v = Some x /\ 0 < checked_value m p x) values.
Proof.
  rewrite (check_pf_accepts Rpos0 Risz backward no_ovf 0 Rpos0_zero).
  apply and_iff_compat_l. apply Forall_iff_ext. intros v. apply accepts_R.
Qed.

(* for the four log maps every finite value is accepted *)
Lemma log_maps_accept_all_finite m p x :
  map_is_log m = true -> is_property p = true ->
  accepts Rpos0 Risz backward no_ovf 0 m p (Fin x).
Proof.
  intros Hl Hp. apply accepts_R. exists x. split; [reflexivity|].
  unfold checked_value. rewrite Hp. now apply backward_pos_log.
Qed.

(* executable instance = real instance as far as acceptance is concerned:
   for the log maps bw_exec returns 1, and the real backward is positive *)
Lemma check_pf_exec_sign m attr p values :
  check_pf Rpos0 Risz backward no_ovf 0 m attr p values
  = check_pf Rpos0 Risz
      (fun m x => match m with
                  | MConductivity => backward MConductivity x
                  | MResistivity => backward MResistivity x
                  | _ => 1 end) no_ovf 0 m attr p values.
Proof.
  apply check_pf_ext. intros x. destruct m; try reflexivity;
    (transitivity true; [apply Rpos0_true; apply backward_pos_log; reflexivity
                        | symmetry; apply Rpos0_true; lra]).
Qed.

(* ------------------------------------------------------------ non-vacuity *)
Lemma roundtrip_example :
  backward MLgResistivity (forward MLgResistivity 3) = 3 /\
  forward MLnConductivity (backward MLnConductivity (-7)) = -7.
Proof.
  split; [apply backward_forward; lra|].
  apply forward_backward. apply backward_pos_log. reflexivity.
Qed.

From Coq Require Import QArith.
Lemma validation_examples_Q :
  check_pf_Q MResistivity None PX [Fin (2#1); Fin (1#4)]%Q = None /\
  check_pf_Q MResistivity None PX [Fin (2#1); Fin 0]%Q = Some ErrFinite /\
  check_pf_Q MResistivity None PX [Fin (2#1); PInf]%Q = Some ErrPositive /\
  check_pf_Q MLgConductivity None PX [Fin (-3#1); NInf]%Q = Some ErrPositive /\
  check_pf_Q MLgConductivity None PX [Fin (-3#1); Fin 0]%Q = None /\
  check_pf_Q MConductivity None PMu [Fin (-3#1)]%Q = Some ErrPositive /\
  check_pf_Q MConductivity (Some None) PY [Fin (3#1)]%Q = Some ErrNone /\
  (* float range: 10**400 = inf, 10**-400 = 0.0, exp(-800) = 0.0, 10**300 is fine *)
  check_pf_Q MLgConductivity None PX [Fin (400#1)]%Q = Some ErrFinite /\
  check_pf_Q MLgConductivity None PX [Fin (-400#1)]%Q = Some ErrPositive /\
  check_pf_Q MLnResistivity None PZ [Fin (800#1)]%Q = Some ErrPositive /\
  check_pf_Q MLgResistivity None PY [Fin (300#1)]%Q = None.
Proof. vm_compute. repeat split. Qed.
