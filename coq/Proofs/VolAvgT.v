(* Proofs/VolAvgT.v -- C07: the GENERATED interp_edges_to_vol_averages
   (Gen/MapsVol.v) is, globally, the exact transpose of "each edge averages its
   four (clamped) neighbour cells, weight 1/4" -- the edge mass averaging M_e of
   core.amat_x (Model/FIT.v Me_x/Me_y/Me_z) applied to eta := vol * c.
   Builds on vol_avg_sum (Proofs/AdjointConcrete.v: every cell receives the sum
   over all edges of contrib_x, _y, _z): exchange of the six-fold summation and closed
   form of the indicator sums.  Finite sums over Z ranges: Zsum / sum3 of
   Model/Interp.v with the lemmas of Proofs/InterpSums.v. *)
From Coq Require Import ZArith Lia Bool Field List.
From V Require Import Base.Loops Base.Arr Base.FieldSig Base.Tactics.
From V Require Import Model.Interp Proofs.InterpSums.
From V Require Import Model.FIT Gen.MapsVol Model.Adjoint Proofs.AdjointConcrete.
Local Open Scope Z_scope.

Section VolAvgT.
  Context {K : Type} {O : FOps K}.
  Hypothesis Fth : field_theory F0 F1 Fadd Fmul Fsub Fopp Fdiv Finv (@eq K).
  Hypothesis two_nz : (1 + 1)%F <> 0%F.
  Add Field Kv : Fth.
  Notation A3 := (Z -> Z -> Z -> K).

  Ltac side := repeat first [exact (one_nz Fth) | exact two_nz | apply (mul_nz Fth)].
  Ltac fld := field; repeat split; side.

  (* ---- generic sum lemmas ------------------------------------------------ *)
  Lemma zsum_is_Zsum lo hi (f : Z -> K) : zsum lo hi f = Zsum lo hi f.
  Proof. reflexivity. Qed.

  Lemma Zsum_sum3_swap l h a b c (G : Z -> Z -> Z -> Z -> K) :
    Zsum l h (fun x => sum3 a b c (fun u v w => G x u v w))
    = sum3 a b c (fun u v w => Zsum l h (fun x => G x u v w)).
  Proof.
    unfold sum3. rewrite (Zsum_swap Fth). apply Zsum_ext; intros u _.
    rewrite (Zsum_swap Fth). apply Zsum_ext; intros v _. apply (Zsum_swap Fth).
  Qed.

  Lemma sum3_swap6 a b c d e f (G : Z -> Z -> Z -> Z -> Z -> Z -> K) :
    sum3 a b c (fun x y z => sum3 d e f (fun u v w => G x y z u v w))
    = sum3 d e f (fun u v w => sum3 a b c (fun x y z => G x y z u v w)).
  Proof.
    transitivity (Zsum 0 a (fun x => Zsum 0 b (fun y =>
                    sum3 d e f (fun u v w => Zsum 0 c (fun z => G x y z u v w))))).
    { apply Zsum_ext; intros x _. apply Zsum_ext; intros y _.
      apply (Zsum_sum3_swap 0 c d e f (fun z u v w => G x y z u v w)). }
    transitivity (Zsum 0 a (fun x => sum3 d e f (fun u v w =>
                    Zsum 0 b (fun y => Zsum 0 c (fun z => G x y z u v w))))).
    { apply Zsum_ext; intros x _.
      apply (Zsum_sum3_swap 0 b d e f (fun y u v w => Zsum 0 c (fun z => G x y z u v w))). }
    apply (Zsum_sum3_swap 0 a d e f
             (fun x u v w => Zsum 0 b (fun y => Zsum 0 c (fun z => G x y z u v w)))).
  Qed.

  Lemma sum3_rev a b c (f : Z -> Z -> Z -> K) :
    sum3 a b c (fun x y z => f x y z) = sum3 c b a (fun z y x => f x y z).
  Proof.
    unfold sum3. rewrite (Zsum_swap Fth 0 a 0 b).
    transitivity (Zsum 0 b (fun y => Zsum 0 c (fun z => Zsum 0 a (fun x => f x y z)))).
    { apply Zsum_ext; intros y _. apply (Zsum_swap Fth). }
    apply (Zsum_swap Fth).
  Qed.

  Lemma sum3_scal_r n1 n2 n3 (c : K) (f : Z -> Z -> Z -> K) :
    sum3 n1 n2 n3 (fun i j k => (f i j k * c)%F) = (sum3 n1 n2 n3 f * c)%F.
  Proof.
    rewrite (sum3_ext n1 n2 n3 _ (fun i j k => (c * f i j k)%F)) by (intros; ring).
    rewrite (sum3_scal Fth). ring.
  Qed.

  Lemma sum3_sep n1 n2 n3 (A B C : Z -> K) (Y : Z -> Z -> Z -> K) :
    sum3 n1 n2 n3 (fun i j k => (A i * (B j * (C k * Y i j k)))%F)
    = Zsum 0 n1 (fun i => (A i * Zsum 0 n2 (fun j => (B j * Zsum 0 n3 (fun k =>
                              (C k * Y i j k)%F))%F))%F).
  Proof.
    unfold sum3. apply Zsum_ext; intros i _. rewrite <- (Zsum_scal Fth).
    apply Zsum_ext; intros j _. rewrite <- !(Zsum_scal Fth). reflexivity.
  Qed.

  Lemma hits_delta a b t : hits a b t = (delta a t + delta b t : K)%F.
  Proof. reflexivity. Qed.

  Lemma Zsum_hits lo hi a b (f : Z -> K) : lo <= a < hi -> lo <= b < hi ->
    Zsum lo hi (fun t => (hits a b t * f t)%F) = (f a + f b)%F.
  Proof.
    intros Ha Hb.
    rewrite (Zsum_ext lo hi _ (fun t => (delta a t * f t + delta b t * f t)%F))
      by (intros; rewrite hits_delta; ring).
    rewrite (Zsum_add Fth), !(Zsum_delta Fth) by assumption. reflexivity.
  Qed.

  Lemma Zsum_drop_last n (f : Z -> K) : 0 <= n ->
    Zsum 0 (n + 1) (fun t => if t <? n then f t else 0%F) = Zsum 0 n f.
  Proof.
    intros Hn. rewrite (Zsum_snoc 0 n) by lia. rewrite Z.ltb_irrefl.
    rewrite (Zsum_ext 0 n _ f).
    - ring.
    - intros t Ht. destruct (Z.ltb_spec t n); [reflexivity|lia].
  Qed.

  Lemma Zsum_if lo hi (b : bool) (f : Z -> K) :
    Zsum lo hi (fun t => if b then f t else 0%F) = if b then Zsum lo hi f else 0%F.
  Proof. destruct b; [reflexivity | apply (Zsum_zero Fth)]. Qed.

  (* ---- the transpose identities ------------------------------------------ *)
  Variables (nx ny nz : Z) (vol : A3).
  Hypothesis Hnx : 1 <= nx.
  Hypothesis Hny : 1 <= ny.
  Hypothesis Hnz : 1 <= nz.

  Ltac rng := unfold ixm, ixp; lia.

  (* one edge against all cells: x-edges *)
  Lemma cell_sum_contrib_x (ex c : A3) ix iy iz :
    0 <= ix -> 0 <= iy <= ny -> 0 <= iz <= nz ->
    sum3 nx ny nz (fun i j k => (contrib_x nx ny nz vol ex ix iy iz i j k * c i j k)%F)
    = if ix <? nx then (ex ix iy iz * edge_avg_x ny nz (mul3 vol c) ix iy iz)%F else 0%F.
  Proof.
    intros Hx Hy Hz. unfold contrib_x.
    destruct (Z.ltb_spec ix nx) as [Hlt|Hge]; cbn [andb].
    - rewrite (sum3_ext nx ny nz _
        (fun i j k => (delta ix i * (hits (ixm iy) (ixp ny iy) j * (hits (ixm iz) (ixp nz iz) k
                        * (vol i j k * ex ix iy iz / Flit 4 1 * c i j k))))%F)).
      2:{ intros i j k _ _ _. unfold delta. destruct (i =? ix); ring. }
      rewrite sum3_sep. rewrite (Zsum_delta Fth) by lia.
      rewrite Zsum_hits by rng. rewrite !Zsum_hits by rng.
      unfold edge_avg_x, mul3. flit. fld.
    - rewrite (sum3_ext nx ny nz _ (fun _ _ _ => 0%F)) by (intros; ring).
      apply (sum3_zero Fth).
  Qed.

  Lemma cell_sum_contrib_y (ey c : A3) ix iy iz :
    0 <= ix <= nx -> 0 <= iy -> 0 <= iz <= nz ->
    sum3 nx ny nz (fun i j k => (contrib_y nx ny nz vol ey ix iy iz i j k * c i j k)%F)
    = if iy <? ny then (ey ix iy iz * edge_avg_y nx nz (mul3 vol c) ix iy iz)%F else 0%F.
  Proof.
    intros Hx Hy Hz. unfold contrib_y.
    destruct (Z.ltb_spec iy ny) as [Hlt|Hge]; cbn [andb].
    - rewrite (sum3_ext nx ny nz _
        (fun i j k => (hits (ixm ix) (ixp nx ix) i * (delta iy j * (hits (ixm iz) (ixp nz iz) k
                        * (vol i j k * ey ix iy iz / Flit 4 1 * c i j k))))%F)).
      2:{ intros i j k _ _ _. unfold delta. destruct (j =? iy); ring. }
      rewrite sum3_sep. rewrite Zsum_hits by rng.
      rewrite !(Zsum_delta Fth) by lia. rewrite !Zsum_hits by rng.
      unfold edge_avg_y, mul3. flit. fld.
    - rewrite (sum3_ext nx ny nz _ (fun _ _ _ => 0%F)) by (intros; ring).
      apply (sum3_zero Fth).
  Qed.

  Lemma cell_sum_contrib_z (ez c : A3) ix iy iz :
    0 <= ix <= nx -> 0 <= iy <= ny -> 0 <= iz ->
    sum3 nx ny nz (fun i j k => (contrib_z nx ny nz vol ez ix iy iz i j k * c i j k)%F)
    = if iz <? nz then (ez ix iy iz * edge_avg_z nx ny (mul3 vol c) ix iy iz)%F else 0%F.
  Proof.
    intros Hx Hy Hz. unfold contrib_z.
    destruct (Z.ltb_spec iz nz) as [Hlt|Hge]; cbn [andb].
    - rewrite (sum3_ext nx ny nz _
        (fun i j k => (hits (ixm ix) (ixp nx ix) i * (hits (ixm iy) (ixp ny iy) j * (delta iz k
                        * (vol i j k * ez ix iy iz / Flit 4 1 * c i j k))))%F)).
      2:{ intros i j k _ _ _. unfold delta. destruct (k =? iz); ring. }
      rewrite sum3_sep. rewrite Zsum_hits by rng. rewrite !Zsum_hits by rng.
      rewrite !(Zsum_delta Fth) by lia.
      unfold edge_avg_z, mul3. flit. fld.
    - rewrite (sum3_ext nx ny nz _ (fun _ _ _ => 0%F)) by (intros; ring).
      apply (sum3_zero Fth).
  Qed.

  (* what vol_avg_sum says, as sum3 over the edge box (loop order iz, iy, ix) *)
  Lemma vol_avg_cells (ex ey ez : A3) i j k :
    let r := interp_edges_to_vol_averages nx ny nz ex ey ez vol zero3 zero3 zero3 in
    fst (fst r) i j k
    = sum3 (nz+1) (ny+1) (nx+1) (fun iz iy ix => contrib_x nx ny nz vol ex ix iy iz i j k) /\
    snd (fst r) i j k
    = sum3 (nz+1) (ny+1) (nx+1) (fun iz iy ix => contrib_y nx ny nz vol ey ix iy iz i j k) /\
    snd r i j k
    = sum3 (nz+1) (ny+1) (nx+1) (fun iz iy ix => contrib_z nx ny nz vol ez ix iy iz i j k).
  Proof.
    pose proof (vol_avg_sum Fth two_nz nx ny nz vol ex ey ez zero3 zero3 zero3 i j k
                  ltac:(lia) ltac:(lia) ltac:(lia)) as H.
    cbv zeta in *. destruct H as (Hx & Hy & Hz). unfold gx, gy, gz in *.
    rewrite Hx, Hy, Hz. unfold zero3, sum3.
    change (@zsum K O) with (@Zsum K O). repeat split; ring.
  Qed.

  Lemma drop_if_outer (f : Z -> Z -> Z -> K) n1 n2 n3 : 0 <= n1 ->
    sum3 (n1+1) n2 n3 (fun a b c => if a <? n1 then f a b c else 0%F) = sum3 n1 n2 n3 f.
  Proof.
    intros H. unfold sum3.
    rewrite (Zsum_ext 0 (n1+1) _
               (fun a => if a <? n1 then Zsum 0 n2 (fun b => Zsum 0 n3 (fun c => f a b c)) else 0%F)).
    2:{ intros a _.
        transitivity (Zsum 0 n2 (fun b => if a <? n1 then Zsum 0 n3 (fun c => f a b c) else 0%F)).
        - apply Zsum_ext; intros b _. apply Zsum_if.
        - apply Zsum_if. }
    apply (Zsum_drop_last n1 (fun a => Zsum 0 n2 (fun b => Zsum 0 n3 (fun c => f a b c)))). exact H.
  Qed.

  Lemma drop_if_middle (f : Z -> Z -> Z -> K) n1 n2 n3 : 0 <= n2 ->
    sum3 n1 (n2+1) n3 (fun a b c => if b <? n2 then f a b c else 0%F) = sum3 n1 n2 n3 f.
  Proof.
    intros H. unfold sum3. apply Zsum_ext; intros a _.
    rewrite (Zsum_ext 0 (n2+1) _
               (fun b => if b <? n2 then Zsum 0 n3 (fun c => f a b c) else 0%F)).
    2:{ intros b _. apply Zsum_if. }
    apply (Zsum_drop_last n2 (fun b => Zsum 0 n3 (fun c => f a b c))). exact H.
  Qed.

  Lemma drop_if_inner (f : Z -> Z -> Z -> K) n1 n2 n3 : 0 <= n3 ->
    sum3 n1 n2 (n3+1) (fun a b c => if c <? n3 then f a b c else 0%F) = sum3 n1 n2 n3 f.
  Proof.
    intros H. unfold sum3. apply Zsum_ext; intros a _. apply Zsum_ext; intros b _.
    apply (Zsum_drop_last n3 (fun c => f a b c)). exact H.
  Qed.

  Theorem vol_avg_transpose_x (ex ey ez c : A3) :
    let r := interp_edges_to_vol_averages nx ny nz ex ey ez vol zero3 zero3 zero3 in
    sum3 nx ny nz (fun i j k => (fst (fst r) i j k * c i j k)%F)
    = sum3 nx (ny+1) (nz+1)
        (fun i j k => (ex i j k * edge_avg_x ny nz (mul3 vol c) i j k)%F).
  Proof.
    cbv zeta.
    rewrite (sum3_ext nx ny nz _ (fun i j k => sum3 (nz+1) (ny+1) (nx+1) (fun iz iy ix =>
               (contrib_x nx ny nz vol ex ix iy iz i j k * c i j k)%F))).
    2:{ intros i j k _ _ _. destruct (vol_avg_cells ex ey ez i j k) as (Hx & _ & _).
        cbv zeta in Hx. rewrite Hx. symmetry. apply sum3_scal_r. }
    rewrite (sum3_swap6 nx ny nz (nz+1) (ny+1) (nx+1)
               (fun i j k iz iy ix => (contrib_x nx ny nz vol ex ix iy iz i j k * c i j k)%F)).
    rewrite (sum3_ext (nz+1) (ny+1) (nx+1) _
               (fun iz iy ix => if ix <? nx
                                then (ex ix iy iz * edge_avg_x ny nz (mul3 vol c) ix iy iz)%F
                                else 0%F))
      by (intros; apply cell_sum_contrib_x; lia).
    rewrite (sum3_rev (nz+1) (ny+1) (nx+1)
               (fun iz iy ix => if ix <? nx
                                then (ex ix iy iz * edge_avg_x ny nz (mul3 vol c) ix iy iz)%F
                                else 0%F)).
    apply (drop_if_outer (fun ix iy iz => (ex ix iy iz * edge_avg_x ny nz (mul3 vol c) ix iy iz)%F)).
    lia.
  Qed.

  Theorem vol_avg_transpose_y (ex ey ez c : A3) :
    let r := interp_edges_to_vol_averages nx ny nz ex ey ez vol zero3 zero3 zero3 in
    sum3 nx ny nz (fun i j k => (snd (fst r) i j k * c i j k)%F)
    = sum3 (nx+1) ny (nz+1)
        (fun i j k => (ey i j k * edge_avg_y nx nz (mul3 vol c) i j k)%F).
  Proof.
    cbv zeta.
    rewrite (sum3_ext nx ny nz _ (fun i j k => sum3 (nz+1) (ny+1) (nx+1) (fun iz iy ix =>
               (contrib_y nx ny nz vol ey ix iy iz i j k * c i j k)%F))).
    2:{ intros i j k _ _ _. destruct (vol_avg_cells ex ey ez i j k) as (_ & Hy & _).
        cbv zeta in Hy. rewrite Hy. symmetry. apply sum3_scal_r. }
    rewrite (sum3_swap6 nx ny nz (nz+1) (ny+1) (nx+1)
               (fun i j k iz iy ix => (contrib_y nx ny nz vol ey ix iy iz i j k * c i j k)%F)).
    rewrite (sum3_ext (nz+1) (ny+1) (nx+1) _
               (fun iz iy ix => if iy <? ny
                                then (ey ix iy iz * edge_avg_y nx nz (mul3 vol c) ix iy iz)%F
                                else 0%F))
      by (intros; apply cell_sum_contrib_y; lia).
    rewrite (sum3_rev (nz+1) (ny+1) (nx+1)
               (fun iz iy ix => if iy <? ny
                                then (ey ix iy iz * edge_avg_y nx nz (mul3 vol c) ix iy iz)%F
                                else 0%F)).
    apply (drop_if_middle (fun ix iy iz => (ey ix iy iz * edge_avg_y nx nz (mul3 vol c) ix iy iz)%F)).
    lia.
  Qed.

  Theorem vol_avg_transpose_z (ex ey ez c : A3) :
    let r := interp_edges_to_vol_averages nx ny nz ex ey ez vol zero3 zero3 zero3 in
    sum3 nx ny nz (fun i j k => (snd r i j k * c i j k)%F)
    = sum3 (nx+1) (ny+1) nz
        (fun i j k => (ez i j k * edge_avg_z nx ny (mul3 vol c) i j k)%F).
  Proof.
    cbv zeta.
    rewrite (sum3_ext nx ny nz _ (fun i j k => sum3 (nz+1) (ny+1) (nx+1) (fun iz iy ix =>
               (contrib_z nx ny nz vol ez ix iy iz i j k * c i j k)%F))).
    2:{ intros i j k _ _ _. destruct (vol_avg_cells ex ey ez i j k) as (_ & _ & Hz).
        cbv zeta in Hz. rewrite Hz. symmetry. apply sum3_scal_r. }
    rewrite (sum3_swap6 nx ny nz (nz+1) (ny+1) (nx+1)
               (fun i j k iz iy ix => (contrib_z nx ny nz vol ez ix iy iz i j k * c i j k)%F)).
    rewrite (sum3_ext (nz+1) (ny+1) (nx+1) _
               (fun iz iy ix => if iz <? nz
                                then (ez ix iy iz * edge_avg_z nx ny (mul3 vol c) ix iy iz)%F
                                else 0%F))
      by (intros; apply cell_sum_contrib_z; lia).
    rewrite (sum3_rev (nz+1) (ny+1) (nx+1)
               (fun iz iy ix => if iz <? nz
                                then (ez ix iy iz * edge_avg_z nx ny (mul3 vol c) ix iy iz)%F
                                else 0%F)).
    apply (drop_if_inner (fun ix iy iz => (ez ix iy iz * edge_avg_z nx ny (mul3 vol c) ix iy iz)%F)).
    lia.
  Qed.

  (* the three components together: <AvT(ex,ey,ez), (cx,cy,cz)>_cells
     = <(ex,ey,ez), Av(cx,cy,cz)>_edges *)
  Theorem vol_avg_transpose (ex ey ez cx cy cz : A3) :
    let r := interp_edges_to_vol_averages nx ny nz ex ey ez vol zero3 zero3 zero3 in
    sum3 nx ny nz (fun i j k => (fst (fst r) i j k * cx i j k + snd (fst r) i j k * cy i j k
                                 + snd r i j k * cz i j k)%F)
    = (sum3 nx (ny+1) (nz+1) (fun i j k => (ex i j k * edge_avg_x ny nz (mul3 vol cx) i j k)%F)
       + sum3 (nx+1) ny (nz+1) (fun i j k => (ey i j k * edge_avg_y nx nz (mul3 vol cy) i j k)%F)
       + sum3 (nx+1) (ny+1) nz (fun i j k => (ez i j k * edge_avg_z nx ny (mul3 vol cz) i j k)%F))%F.
  Proof.
    cbv zeta. rewrite !(sum3_add Fth).
    pose proof (vol_avg_transpose_x ex ey ez cx) as Hx.
    pose proof (vol_avg_transpose_y ex ey ez cy) as Hy.
    pose proof (vol_avg_transpose_z ex ey ez cz) as Hz.
    cbv zeta in Hx, Hy, Hz. rewrite Hx, Hy, Hz. reflexivity.
  Qed.

  (* relation to the edge mass averaging of core.amat_x (Model/FIT.v) *)
  Lemma edge_avg_x_is_Me_x (eta : A3) i j k : 0 <= j < ny -> 0 <= k < nz ->
    edge_avg_x ny nz eta i j k = Me_x eta i j k.
  Proof.
    intros Hj Hk. unfold edge_avg_x, Me_x, pm, ixm, ixp.
    replace (Z.min (ny - 1) j) with j by lia. replace (Z.min (nz - 1) k) with k by lia.
    flit. fld.
  Qed.
  Lemma edge_avg_y_is_Me_y (eta : A3) i j k : 0 <= i < nx -> 0 <= k < nz ->
    edge_avg_y nx nz eta i j k = Me_y eta i j k.
  Proof.
    intros Hi Hk. unfold edge_avg_y, Me_y, pm, ixm, ixp.
    replace (Z.min (nx - 1) i) with i by lia. replace (Z.min (nz - 1) k) with k by lia.
    flit. fld.
  Qed.
  Lemma edge_avg_z_is_Me_z (eta : A3) i j k : 0 <= i < nx -> 0 <= j < ny ->
    edge_avg_z nx ny eta i j k = Me_z eta i j k.
  Proof.
    intros Hi Hj. unfold edge_avg_z, Me_z, pm, ixm, ixp.
    replace (Z.min (nx - 1) i) with i by lia. replace (Z.min (ny - 1) j) with j by lia.
    flit. fld.
  Qed.

  (* on the upper boundary edges (transverse index = n; core.amat_x does not
     visit them, PEC fields vanish there) the last cell is taken twice *)
  Lemma edge_avg_x_upper_y (eta : A3) i k :
    edge_avg_x ny nz eta i ny k
    = ((eta i (ny-1)%Z (ixm k) + eta i (ny-1)%Z (ixp nz k)) / (1 + 1))%F.
  Proof.
    unfold edge_avg_x, ixm, ixp.
    replace (Z.max 0 (ny - 1)) with (ny - 1) by lia.
    replace (Z.min (ny - 1) ny) with (ny - 1) by lia. flit. fld.
  Qed.
End VolAvgT.
