(* Proofs/GSBlock.v -- the point-wise Gauss-Seidel smoother (Gen/CoreGS.v,
   regenerated from emg3d/core.py) relaxes the SAME linear system as the
   operator of C02: the 6x6 block system assembled for an interior node is
   exactly "the six residual equations of the node's edges, with the six edge
   values as unknowns". *)
From Coq Require Import ZArith Lia Bool Field List.
From V Require Import Base.Loops Base.Arr Base.FieldSig Base.Tactics.
From V Require Import Gen.CoreBand Gen.CoreGS Model.FIT Proofs.BandSums Proofs.BandLDL.
Local Open Scope Z_scope.

Lemma Zfold_0_6 {St} (body : Z -> St -> St) (s : St) :
  Zfold 0 6 body s = body 5 (body 4 (body 3 (body 2 (body 1 (body 0 s))))).
Proof. reflexivity. Qed.

Section GSBlock.
  Context {F : Type} {O : FOps F}.
  Hypothesis Fth : field_theory F0 F1 Fadd Fmul Fsub Fopp Fdiv Finv (@eq F).
  Hypothesis two_nz : (1 + 1)%F <> 0%F.
  Add Field Fgs : Fth.

  Variables (ex ey ez sx sy sz eta_x eta_y eta_z zeta : Z -> Z -> Z -> F).
  Variables (hx hy hz : Z -> F).
  Hypothesis hx_nz : forall i, hx i <> 0%F.
  Hypothesis hy_nz : forall i, hy i <> 0%F.
  Hypothesis hz_nz : forall i, hz i <> 0%F.
  Variables (nu lhx nx lhy ny lhz nz : Z).

  Definition kof (h : Z -> F) : Z -> F := fun i_ => (Flit 1 2 / h i_)%F.

  (* the field with the six edges of node (ix,iy,iz) replaced by x 0..5 *)
  Definition blk_x (x : Z -> F) ix iy iz := upd3 (upd3 ex (ix-1) iy iz (x 0)) ix iy iz (x 1).
  Definition blk_y (x : Z -> F) ix iy iz := upd3 (upd3 ey ix (iy-1) iz (x 2)) ix iy iz (x 3).
  Definition blk_z (x : Z -> F) ix iy iz := upd3 (upd3 ez ix iy (iz-1) (x 4)) ix iy iz (x 5).

  (* the system handed to the solver at node (ix,iy,iz) (forward sweep) *)
  Definition gs_sys amat0 ix iy iz : (Z -> F) * (Z -> F) :=
    gauss_seidel_L4_call1 sx sy sz eta_x eta_y eta_z zeta hx hy hz nu lhx nx lhy ny lhz nz
      (kof hx) (kof hy) (kof hz) 0 0 iz iz (iz-1) (iz+1) iy iy (iy-1) (iy+1) ix
      (amat0, ex, ey, ez).

  (* literal index arithmetic *)
  Ltac zlit :=
    repeat match goal with
    | |- context [Z.add (Zpos ?a) (Z.mul (Zpos ?b) (Zpos ?c))] =>
        let v := eval vm_compute in (Z.add (Zpos a) (Z.mul (Zpos b) (Zpos c))) in
        change (Z.add (Zpos a) (Z.mul (Zpos b) (Zpos c))) with v
    | |- context [Z.add Z0 (Z.mul (Zpos ?b) (Zpos ?c))] =>
        let v := eval vm_compute in (Z.mul (Zpos b) (Zpos c)) in
        change (Z.add Z0 (Z.mul (Zpos b) (Zpos c))) with v
    | |- context [Z.add (Zpos ?a) (Z.mul (Zpos ?b) Z0)] =>
        change (Z.add (Zpos a) (Z.mul (Zpos b) Z0)) with (Zpos a)
    | |- context [Z.add Z0 (Z.mul (Zpos ?b) Z0)] =>
        change (Z.add Z0 (Z.mul (Zpos b) Z0)) with Z0
    | |- context [Z.mul (Zpos ?b) (Zpos ?c)] =>
        let v := eval vm_compute in (Z.mul (Zpos b) (Zpos c)) in
        change (Z.mul (Zpos b) (Zpos c)) with v
    | |- context [Z.mul (Zpos ?b) Z0] => change (Z.mul (Zpos b) Z0) with Z0
    end.

  Ltac arr_eval :=
    cbv beta iota zeta delta [upd1 upd1f upd3f fill1 arr_of_list nth Z.to_nat Pos.to_nat Pos.iter_op
                              Nat.add Z.eqb Pos.eqb Z.ltb Z.compare Pos.compare
                              Pos.compare_cont negb fst snd kof Zfold nfold].

  Lemma four_nz : ((1 + 1) * (1 + 1))%F <> 0%F.
  Proof.
    intros H. apply two_nz.
    assert (E : (1 + 1)%F = (((1 + 1) * (1 + 1)) / (1 + 1))%F) by (field; exact two_nz).
    rewrite E, H. field. exact two_nz.
  Qed.
  Lemma one_nz : (1 : F)%F <> 0%F.
  Proof. exact (Field_theory.F_1_neq_0 Fth). Qed.

  Ltac side := first [ exact two_nz | exact four_nz | exact one_nz | apply hx_nz | apply hy_nz
                     | apply hz_nz ].

  (* evaluate the banded product row [i] of the assembled 6x6 system *)
  Ltac lhs_eval i :=
    unfold bandmul, Asym, sumZ;
    let lo := eval vm_compute in (Z.max 0 (i - 5)) in
    let hi := eval vm_compute in (Z.min 6 (i + 6)) in
    change (Z.max 0 (i - 5)) with lo; change (Z.min 6 (i + 6)) with hi;
    rewrite Zfold_0_6;
    repeat match goal with
    | |- context [Z.leb ?a ?b] =>
        let v := eval vm_compute in (Z.leb a b) in change (Z.leb a b) with v
    end;
    cbv iota; zlit;
    (* the normal form is computed by the tactic engine; the kernel re-checks the
       step with the VM at Qed (its default conversion is pathologically slow on
       the long let-chain of the generated block) *)
    match goal with
    | |- ?G =>
        let G' := eval cbv beta iota zeta delta
                    [gs_sys gauss_seidel_L4_call1
                     upd1 upd1f upd3f fill1 arr_of_list nth Z.to_nat Pos.to_nat Pos.iter_op
                     Nat.add Z.eqb Pos.eqb Z.ltb Z.compare Pos.compare
                     Pos.compare_cont negb fst snd kof] in G in
        cut G'; [ let H := fresh "H" in intro H; vm_cast_no_check H | ]
    end.

  Ltac rhs_eval :=
    unfold A_x, A_y, A_z, curlT_x, curlT_y, curlT_z, u_x, u_y, u_z, Mf_x, Mf_y, Mf_z,
      Me_x, Me_y, Me_z, curl_x, curl_y, curl_z, pm, blk_x, blk_y, blk_z;
    repeat match goal with
    | |- context [?a =? 0] => zb_false (a =? 0)
    end;
    cbn [orb]; zmax_norm; idx_norm; upd_simpl; flit.

  Ltac row i := intros Hx Hy Hz; lhs_eval i; rhs_eval; field; repeat split; side.

  Notation BX x ix iy iz := (blk_x x ix iy iz).
  Notation BY x ix iy iz := (blk_y x ix iy iz).
  Notation BZ x ix iy iz := (blk_z x ix iy iz).

  Lemma row0 amat0 x ix iy iz : 1 <= ix -> 1 <= iy -> 1 <= iz ->
    Fsub (bandmul 6 (fst (gs_sys amat0 ix iy iz)) x 0) (snd (gs_sys amat0 ix iy iz) 0)
    = Fsub (A_x (BX x ix iy iz) (BY x ix iy iz) (BZ x ix iy iz) eta_x zeta hx hy hz
                (ix-1) iy iz) (sx (ix-1) iy iz).
  Proof. row 0. Qed.
  Lemma row1 amat0 x ix iy iz : 1 <= ix -> 1 <= iy -> 1 <= iz ->
    Fsub (bandmul 6 (fst (gs_sys amat0 ix iy iz)) x 1) (snd (gs_sys amat0 ix iy iz) 1)
    = Fsub (A_x (BX x ix iy iz) (BY x ix iy iz) (BZ x ix iy iz) eta_x zeta hx hy hz
                ix iy iz) (sx ix iy iz).
  Proof. row 1. Qed.
  Lemma row2 amat0 x ix iy iz : 1 <= ix -> 1 <= iy -> 1 <= iz ->
    Fsub (bandmul 6 (fst (gs_sys amat0 ix iy iz)) x 2) (snd (gs_sys amat0 ix iy iz) 2)
    = Fsub (A_y (BX x ix iy iz) (BY x ix iy iz) (BZ x ix iy iz) eta_y zeta hx hy hz
                ix (iy-1) iz) (sy ix (iy-1) iz).
  Proof. row 2. Qed.
  Lemma row3 amat0 x ix iy iz : 1 <= ix -> 1 <= iy -> 1 <= iz ->
    Fsub (bandmul 6 (fst (gs_sys amat0 ix iy iz)) x 3) (snd (gs_sys amat0 ix iy iz) 3)
    = Fsub (A_y (BX x ix iy iz) (BY x ix iy iz) (BZ x ix iy iz) eta_y zeta hx hy hz
                ix iy iz) (sy ix iy iz).
  Proof. row 3. Qed.
  Lemma row4 amat0 x ix iy iz : 1 <= ix -> 1 <= iy -> 1 <= iz ->
    Fsub (bandmul 6 (fst (gs_sys amat0 ix iy iz)) x 4) (snd (gs_sys amat0 ix iy iz) 4)
    = Fsub (A_z (BX x ix iy iz) (BY x ix iy iz) (BZ x ix iy iz) eta_z zeta hx hy hz
                ix iy (iz-1)) (sz ix iy (iz-1)).
  Proof. row 4. Qed.
  Lemma row5 amat0 x ix iy iz : 1 <= ix -> 1 <= iy -> 1 <= iz ->
    Fsub (bandmul 6 (fst (gs_sys amat0 ix iy iz)) x 5) (snd (gs_sys amat0 ix iy iz) 5)
    = Fsub (A_z (BX x ix iy iz) (BY x ix iy iz) (BZ x ix iy iz) eta_z zeta hx hy hz
                ix iy iz) (sz ix iy iz).
  Proof. row 5. Qed.

  (* ---- one block step = assemble, solve, write back -------------------- *)
  Definition gs_args_L4 :=
    gauss_seidel_L4 sx sy sz eta_x eta_y eta_z zeta hx hy hz nu lhx nx lhy ny lhz nz
      (kof hx) (kof hy) (kof hz).

  Definition new_ex (r : Z -> F) ix iy iz := upd3 (upd3 ex (ix-1) iy iz (r 0)) ix iy iz (r 1).
  Definition new_ey (r : Z -> F) ix iy iz := upd3 (upd3 ey ix (iy-1) iz (r 2)) ix iy iz (r 3).
  Definition new_ez (r : Z -> F) ix iy iz := upd3 (upd3 ez ix iy (iz-1) (r 4)) ix iy iz (r 5).

  Lemma L4_step amat0 ix iy iz :
    gs_args_L4 0 0 iz iz (iz-1) (iz+1) iy iy (iy-1) (iy+1) ix (amat0, ex, ey, ez)
    = let sys := gs_sys amat0 ix iy iz in
      let r := solve 6 (fst sys) (snd sys) in
      (fst r, new_ex (snd r) ix iy iz, new_ey (snd r) ix iy iz, new_ez (snd r) ix iy iz).
  Proof.
    cbv delta [gs_args_L4 gauss_seidel_L4 gs_sys gauss_seidel_L4_call1 new_ex new_ey new_ez].
    cbv beta. reflexivity.
  Qed.

  (* consistency, all six rows at once: for ANY candidate values x of the six
     edges, (block matrix) x - (block rhs) = (A e[x] - s) on the six edges *)
  Definition edge_res (x : Z -> F) ix iy iz (k : Z) : F :=
    let bx := blk_x x ix iy iz in let by_ := blk_y x ix iy iz in let bz := blk_z x ix iy iz in
    if k =? 0 then Fsub (A_x bx by_ bz eta_x zeta hx hy hz (ix-1) iy iz) (sx (ix-1) iy iz)
    else if k =? 1 then Fsub (A_x bx by_ bz eta_x zeta hx hy hz ix iy iz) (sx ix iy iz)
    else if k =? 2 then Fsub (A_y bx by_ bz eta_y zeta hx hy hz ix (iy-1) iz) (sy ix (iy-1) iz)
    else if k =? 3 then Fsub (A_y bx by_ bz eta_y zeta hx hy hz ix iy iz) (sy ix iy iz)
    else if k =? 4 then Fsub (A_z bx by_ bz eta_z zeta hx hy hz ix iy (iz-1)) (sz ix iy (iz-1))
    else Fsub (A_z bx by_ bz eta_z zeta hx hy hz ix iy iz) (sz ix iy iz).

  Theorem gs_block_consistent amat0 x ix iy iz k :
    1 <= ix -> 1 <= iy -> 1 <= iz -> 0 <= k < 6 ->
    Fsub (bandmul 6 (fst (gs_sys amat0 ix iy iz)) x k) (snd (gs_sys amat0 ix iy iz) k)
    = edge_res x ix iy iz k.
  Proof.
    intros Hx Hy Hz Hk. unfold edge_res. cbv zeta.
    assert (C : k = 0 \/ k = 1 \/ k = 2 \/ k = 3 \/ k = 4 \/ k = 5) by lia.
    destruct C as [E|[E|[E|[E|[E|E]]]]]; subst k; cbn [Z.eqb Pos.eqb].
    - now apply row0.
    - now apply row1.
    - now apply row2.
    - now apply row3.
    - now apply row4.
    - now apply row5.
  Qed.

  Lemma Fsub_zero (a b : F) : Fsub a b = 0%F <-> a = b.
  Proof.
    split; intros H.
    - assert (E : a = (Fsub a b + b)%F) by ring. rewrite E, H. ring.
    - subst. ring.
  Qed.

  (* after the block step the six equations of the block hold exactly *)
  Theorem gs_block_exact amat0 ix iy iz :
    1 <= ix -> 1 <= iy -> 1 <= iz ->
    let sys := gs_sys amat0 ix iy iz in
    (forall j, 0 <= j < 6 -> pivot 6 (fst sys) j <> 0%F) ->
    forall k, 0 <= k < 6 -> edge_res (snd (solve 6 (fst sys) (snd sys))) ix iy iz k = 0%F.
  Proof.
    intros Hx Hy Hz sys Hpiv k Hk.
    rewrite <- (gs_block_consistent amat0 _ ix iy iz k Hx Hy Hz Hk).
    apply Fsub_zero. fold sys.
    apply (solve_correct Fth 6 (fst sys) (snd sys) ltac:(lia) Hpiv k Hk).
  Qed.

  (* a field whose six block equations already hold is left unchanged *)
  Definition cur (ix iy iz : Z) : Z -> F := fun k =>
    if k =? 0 then ex (ix-1) iy iz else if k =? 1 then ex ix iy iz
    else if k =? 2 then ey ix (iy-1) iz else if k =? 3 then ey ix iy iz
    else if k =? 4 then ez ix iy (iz-1) else ez ix iy iz.

  Theorem gs_block_fixed_point amat0 ix iy iz :
    1 <= ix -> 1 <= iy -> 1 <= iz ->
    let sys := gs_sys amat0 ix iy iz in
    (forall j, 0 <= j < 6 -> pivot 6 (fst sys) j <> 0%F) ->
    (forall k, 0 <= k < 6 -> edge_res (cur ix iy iz) ix iy iz k = 0%F) ->
    forall k, 0 <= k < 6 -> snd (solve 6 (fst sys) (snd sys)) k = cur ix iy iz k.
  Proof.
    intros Hx Hy Hz sys Hpiv Hres.
    apply (solve_unique Fth 6 (fst sys) (snd sys) ltac:(lia) Hpiv (cur ix iy iz)).
    intros k Hk. apply Fsub_zero.
    unfold sys. rewrite (gs_block_consistent amat0 _ ix iy iz k Hx Hy Hz Hk).
    apply Hres; assumption.
  Qed.

  (* frame: the step writes the six edges attached to the node and nothing else;
     in particular no tangential boundary edge (1 <= iy < ny, ... are interior) *)
  Theorem gs_block_frame (r : Z -> F) ix iy iz i j k :
    (new_ex r ix iy iz i j k = ex i j k \/ (j = iy /\ k = iz /\ (i = ix - 1 \/ i = ix))) /\
    (new_ey r ix iy iz i j k = ey i j k \/ (i = ix /\ k = iz /\ (j = iy - 1 \/ j = iy))) /\
    (new_ez r ix iy iz i j k = ez i j k \/ (i = ix /\ j = iy /\ (k = iz - 1 \/ k = iz))).
  Proof.
    unfold new_ex, new_ey, new_ez, upd3.
    repeat split;
      repeat match goal with
      | |- context [?a =? ?b] => destruct (Z.eqb_spec a b)
      end; cbn [andb]; try (left; reflexivity); right; lia.
  Qed.
End GSBlock.
