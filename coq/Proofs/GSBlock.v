(* Proofs/GSBlock.v -- the point-wise Gauss-Seidel smoother (Gen/CoreGS.v,
   regenerated from emg3d/core.py) relaxes the SAME linear system as the
   operator of C02: the 6x6 block system assembled for an interior node is
   exactly "the six residual equations of the node's edges, with the six edge
   values as unknowns". *)
From Coq Require Import ZArith Lia Bool Field.
From V Require Import Base.Loops Base.Arr Base.FieldSig Base.Tactics.
From V Require Import Gen.CoreBand Gen.CoreGS Model.FIT Proofs.BandSums Proofs.BandLDL.
Local Open Scope Z_scope.

Lemma Zfold_0_6 {St} (body : Z -> St -> St) (s : St) :
  Zfold 0 6 body s = body 5 (body 4 (body 3 (body 2 (body 1 (body 0 s))))).
Proof. reflexivity. Qed.

Section GSBlock.
  Context {F : Type} {O : FOps F}.
  Hypothesis Fth : field_theory F0 F1 Fadd Fmul Fsub Fopp Fdiv Finv (@eq F).
  Hypothesis two_nz : (1 + 1)%F <> 0%F.
  Add Field Fgs : Fth.

  Variables (ex ey ez sx sy sz eta_x eta_y eta_z zeta : Z -> Z -> Z -> F).
  Variables (hx hy hz : Z -> F).
  Hypothesis hx_nz : forall i, hx i <> 0%F.
  Hypothesis hy_nz : forall i, hy i <> 0%F.
  Hypothesis hz_nz : forall i, hz i <> 0%F.
  Variables (nu lhx nx lhy ny lhz nz : Z).

  Definition kof (h : Z -> F) : Z -> F := fun i_ => (Flit 1 2 / h i_)%F.

  (* the field with the six edges of node (ix,iy,iz) replaced by x 0..5 *)
  Definition blk_x (x : Z -> F) ix iy iz := upd3 (upd3 ex (ix-1) iy iz (x 0)) ix iy iz (x 1).
  Definition blk_y (x : Z -> F) ix iy iz := upd3 (upd3 ey ix (iy-1) iz (x 2)) ix iy iz (x 3).
  Definition blk_z (x : Z -> F) ix iy iz := upd3 (upd3 ez ix iy (iz-1) (x 4)) ix iy iz (x 5).

  (* the system handed to the solver at node (ix,iy,iz) (forward sweep) *)
  Definition gs_sys amat0 ix iy iz : (Z -> F) * (Z -> F) :=
    gauss_seidel_L4_call1 sx sy sz eta_x eta_y eta_z zeta hx hy hz nu lhx nx lhy ny lhz nz
      (kof hx) (kof hy) (kof hz) 0 0 iz iz (iz-1) (iz+1) iy iy (iy-1) (iy+1) ix
      (amat0, ex, ey, ez).

  Lemma row0 amat0 x ix iy iz : 1 <= ix -> 1 <= iy -> 1 <= iz ->
    Fsub (bandmul 6 (fst (gs_sys amat0 ix iy iz)) x 0) (snd (gs_sys amat0 ix iy iz) 0)
    = Fsub (A_x (blk_x x ix iy iz) (blk_y x ix iy iz) (blk_z x ix iy iz) eta_x zeta hx hy hz
                (ix-1) iy iz) (sx (ix-1) iy iz).
  Proof.
    intros Hx Hy Hz.
    unfold gs_sys, gauss_seidel_L4_call1. cbv zeta. cbn [fst snd].
    Show.
  Abort.
End GSBlock.
