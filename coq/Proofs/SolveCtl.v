(* Proofs/SolveCtl.v -- lemmas about Model/SolveCtl.v and the regenerated decision
   logic of Gen/SolveCtl.v (property C01).  Everything here holds for EVERY variant
   [VV] under explicit hypotheses on the variant; Proofs/SolveCtlSrc.v discharges
   those hypotheses for the variant read off the current source. *)
From Coq Require Import ZArith String Bool List Lia.
From V Require Import Gen.SolveCtl Model.SolveCtl.
Import ListNotations.
Local Open Scope Z_scope.
Local Open Scope string_scope.

Definition MSG_CONV : string := "CONVERGED".
Definition MSG_DIV : string := "DIVERGED".
Definition MSG_STAG : string := "STAGNATED".
Definition MSG_MAXIT : string := "MAX. ITERATION REACHED, NOT CONVERGED".
Definition failure_messages : list string := [MSG_DIV; MSG_STAG; MSG_MAXIT].

(* ---- facts about generated constants / functions -------------------------------- *)
Lemma exit_status_conv m : exit_status_of m = 0 -> m = MSG_CONV.
Proof.
  unfold exit_status_of. destruct (String.eqb m "CONVERGED") eqn:E; cbn; intro H.
  - now apply String.eqb_eq. - discriminate.
Qed.
Lemma exit_status_01 m : exit_status_of m = 0 \/ exit_status_of m = 1.
Proof. unfold exit_status_of. destruct (String.eqb m "CONVERGED"); cbn; auto. Qed.
Lemma exit_status_one m : exit_status_of m = 1 -> m <> MSG_CONV.
Proof.
  unfold exit_status_of. destruct (String.eqb m "CONVERGED") eqn:E; cbn; intro H.
  - discriminate. - now apply String.eqb_neq.
Qed.
Lemma exit_status_of_conv : exit_status_of MSG_CONV = 0.
Proof. reflexivity. Qed.
Lemma good_msg : good_enough_message = MSG_CONV. Proof. reflexivity. Qed.
Lemma zero_msg : zero_source_message = MSG_CONV. Proof. reflexivity. Qed.
Lemma abort_code_nz : abort_code <> 0. Proof. discriminate. Qed.
Lemma pec_zeroed : supplied_field_pec_zeroed = true. Proof. reflexivity. Qed.

Lemma failure_nonempty m : In m failure_messages -> m <> "" /\ m <> MSG_CONV.
Proof. unfold failure_messages. cbn. intros [<-|[<-|[<-|[]]]]; split; discriminate. Qed.

Ltac chain :=
  unfold tchain, terminate_chain;
  repeat match goal with |- context [if ?b then _ else _] => destruct b eqn:? end; cbn.

Section Proofs.
  Variable num : Type.
  Variables (ltb leb : num -> num -> bool) (isfinite : num -> bool)
            (mul : num -> num -> num) (nofZ : Z -> num).
  Variables (tiny100 nan : num).
  Variable fld : Type.
  Variables (resnorm : fld -> num) (zero : fld) (pec : fld -> fld).
  Variables (mg_init : fld -> fld) (mg_cycle : nat -> fld -> fld).
  Variable VV : variant.

  Notation TC := (tchain num ltb leb isfinite mul nofZ).
  Notation cfg := (cfg num).
  Notation mgst := (mgst num).
  Notation MGSTEP := (mg_step num ltb leb isfinite mul nofZ).
  Notation MGOUTER := (mg_outer num ltb leb isfinite mul nofZ fld resnorm mg_cycle).
  Notation MGSOLVE := (mg_solve num ltb leb isfinite mul nofZ fld resnorm mg_init mg_cycle).
  Notation KRUN := (krylov_run num ltb leb isfinite mul nofZ fld resnorm).
  Notation KCTL := (krylov_ctl num ltb leb isfinite mul nofZ fld resnorm VV).
  Notation SOLVE := (solve_ctl num ltb leb isfinite mul nofZ tiny100 nan fld resnorm zero pec
                               mg_init mg_cycle VV).
  Notation E0 := (e0_of fld zero pec).
  Notation krylov_contract := (krylov_contract num leb mul fld resnorm).
  Notation krylov_pec := (krylov_pec num fld pec).
  Notation pec_laws := (pec_laws fld zero pec mg_init mg_cycle).
  Notation certified := (certified num ltb leb mul tiny100 fld resnorm zero).
  Notation error_describes := (error_describes num nofZ fld resnorm).
  Notation L20 := (l2_0_of num nofZ fld resnorm zero pec).

  (* ---- the decision chain of _terminate ------------------------------------------ *)
  Lemma tchain_conv ssl tol refe maxit l2 stag it msg :
    ltb l2 (mul tol refe) = true -> TC ssl tol refe maxit l2 stag it msg = (MSG_CONV, true, false).
  Proof. intro H. unfold tchain, terminate_chain. rewrite H. reflexivity. Qed.

  Lemma tchain_nconv_fin tol refe maxit l2 stag it msg :
    ltb l2 (mul tol refe) = false ->
    snd (fst (TC false tol refe maxit l2 stag it msg)) = true ->
    In (fst (fst (TC false tol refe maxit l2 stag it msg))) failure_messages.
  Proof.
    intro H. unfold tchain, terminate_chain. rewrite H.
    repeat match goal with |- context [if ?b then _ else _] => destruct b eqn:? end;
      cbn; intros; auto; discriminate.
  Qed.

  Lemma tchain_maxit ssl tol refe l2 stag it msg :
    snd (fst (TC ssl tol refe it l2 stag it msg)) = true.
  Proof. chain; try reflexivity; rewrite Z.eqb_refl in *; discriminate. Qed.

  (* a raise happens only with a DIVERGED / STAGNATED message *)
  Lemma tchain_abort ssl tol refe maxit l2 stag it msg :
    let t := TC ssl tol refe maxit l2 stag it msg in
    terminate_raises ssl (snd (fst t)) (snd t) = true ->
    fst (fst t) = MSG_DIV \/ fst (fst t) = MSG_STAG.
  Proof.
    destruct ssl.
    - unfold terminate_raises. chain; intros; auto; discriminate.
    - cbv zeta. unfold terminate_raises. cbn [andb]. rewrite andb_false_r. discriminate.
  Qed.

  (* ---- one pass of the outer loop ---------------------------------------------------- *)
  Lemma mg_step_fin (c : cfg) refe (s s' : mgst) n rz :
    MGSTEP false c refe s n = (s', true, rz) ->
    m_l2 _ s' = n /\
    ((m_msg _ s' = MSG_CONV /\ ltb n (mul (c_tol _ c) refe) = true) \/
     (In (m_msg _ s') failure_messages /\ ltb n (mul (c_tol _ c) refe) = false)).
  Proof.
    intro H.
    assert (Hs : s' = fst (fst (MGSTEP false c refe s n))) by (now rewrite H).
    assert (Hf : snd (fst (MGSTEP false c refe s n)) = true) by (now rewrite H).
    clear H. subst s'. revert Hf. unfold mg_step. cbn [fst snd m_l2 m_msg]. intro Hf.
    split; [reflexivity|].
    destruct (ltb n (mul (c_tol _ c) refe)) eqn:L.
    - left. rewrite (tchain_conv _ _ _ _ _ _ _ _ L). auto.
    - right. split; [|reflexivity]. now apply tchain_nconv_fin.
  Qed.

  Lemma mg_step_it ssl (c : cfg) refe (s : mgst) n :
    m_it _ (fst (fst (MGSTEP ssl c refe s n))) = m_it _ s + 1.
  Proof. reflexivity. Qed.

  Lemma mg_step_maxit ssl (c : cfg) refe (s : mgst) n :
    m_it _ s + 1 = mg_maxit _ c -> snd (fst (MGSTEP ssl c refe s n)) = true.
  Proof. intro H. unfold mg_step. cbn [fst snd]. rewrite H. apply tchain_maxit. Qed.

  (* ---- the outer loop of multigrid() as a solver ----------------------------------- *)
  Lemma mg_outer_spec (P : fld -> Prop) (c : cfg) refe :
    (forall k x, P x -> P (mg_cycle k x)) ->
    forall fuel k e (s : mgst) e' s',
      P e -> MGOUTER fuel k c refe e s = (e', s', true) ->
      P e' /\ m_l2 _ s' = resnorm e' /\
      ((m_msg _ s' = MSG_CONV /\ ltb (resnorm e') (mul (c_tol _ c) refe) = true) \/
       (In (m_msg _ s') failure_messages /\ ltb (resnorm e') (mul (c_tol _ c) refe) = false)).
  Proof.
    intros HP. induction fuel as [|f IH]; intros k e s e' s' Pe H; cbn [mg_outer] in H.
    - discriminate.
    - destruct (MGSTEP false c refe s (resnorm (mg_cycle k e))) as [[s1 fin] rz] eqn:St.
      cbn [fst snd] in H. destruct fin.
      + inversion H; subst. split; [now apply HP|]. exact (mg_step_fin _ _ _ _ _ _ St).
      + eapply IH; [|exact H]. now apply HP.
  Qed.

  Lemma mg_outer_terminates (c : cfg) refe :
    c_ssl _ c = false ->
    forall fuel k e (s : mgst),
      (0 < fuel)%nat -> m_it _ s + Z.of_nat fuel = c_maxit _ c ->
      exists e' s', MGOUTER fuel k c refe e s = (e', s', true) /\
                    m_it _ s < m_it _ s' <= c_maxit _ c.
  Proof.
    intros Hs. assert (Hm : mg_maxit _ c = c_maxit _ c) by (unfold mg_maxit; now rewrite Hs).
    induction fuel as [|f IH]; intros k e s Hf Hit; [lia|]. cbn [mg_outer].
    destruct (MGSTEP false c refe s (resnorm (mg_cycle k e))) as [[s1 fin] rz] eqn:St.
    cbn [fst snd].
    assert (H1 : m_it _ s1 = m_it _ s + 1)
      by (pose proof (mg_step_it false c refe s (resnorm (mg_cycle k e))) as X; now rewrite St in X).
    destruct fin.
    - exists (mg_cycle k e), s1. split; [reflexivity|]. lia.
    - destruct f as [|f'].
      + exfalso. pose proof (mg_step_maxit false c refe s (resnorm (mg_cycle k e))) as X.
        rewrite St in X. cbn in X. rewrite Hm in X. assert (false = true) by (apply X; lia). discriminate.
      + destruct (IH (S k) (mg_cycle k e) s1) as (e' & s' & He & Hb); [lia|lia|].
        exists e', s'. split; [exact He|lia].
  Qed.

  (* ---- krylov: a KReturn comes from a Return event of the trace ---------------------- *)
  Lemma krylov_run_return (c : cfg) refe : forall tr s x code s',
    KRUN tr c refe s = KReturn _ _ x code s' -> In (Return _ _ x code) tr.
  Proof.
    induction tr as [|ev tr IH]; intros s x code s' H; cbn [krylov_run] in H; [discriminate|].
    destruct ev as [y|n0 ns lr|y cd].
    - right. eapply IH; exact H.
    - repeat match type of H with (if ?b then _ else _) = _ => destruct b end;
        try discriminate. right. eapply IH; exact H.
    - inversion H; subst. now left.
  Qed.

  Section Variant.
    (* hypotheses on the variant: the repaired behaviour *)
    Hypothesis Hinplace : v_zero_inplace VV = true.
    Hypothesis Hzl2 : v_zero_l2 VV = true.
    Hypothesis Hrecompute : v_recompute VV = true.
    Hypothesis Hkmap : forall n i m, v_kmap VV n i m = MSG_CONV -> i = 0.
    Hypothesis Hkmap_ne : forall n i m, v_kmap VV n i m <> "".

    Lemma krylov_ctl_spec (c : cfg) refe e0 tr s0 x k :
      KCTL c refe e0 tr s0 = Some (x, k) ->
      k_l2 _ k = resnorm x /\ k_msg _ k <> "" /\
      (k_msg _ k = MSG_CONV -> In (Return _ _ x 0) tr).
    Proof.
      unfold krylov_ctl. destruct (KRUN tr c refe s0) as [y code s'|s'|] eqn:KR; intro H;
        inversion H; subst; clear H; cbn [k_l2 k_msg]; rewrite Hrecompute.
      - split; [reflexivity|]. split; [apply Hkmap_ne|]. intro Hm. apply Hkmap in Hm. subst code.
        eapply krylov_run_return; exact KR.
      - split; [reflexivity|]. split; [apply Hkmap_ne|]. intro Hm. apply Hkmap in Hm.
        exfalso. now apply abort_code_nz.
    Qed.

    Lemma e0_pec sup : pec_laws -> pec (E0 sup) = E0 sup.
    Proof.
      intros (Hi & Hz & _). destruct sup as [u|]; cbn [e0_of]; [|exact Hz].
      rewrite pec_zeroed. apply Hi.
    Qed.

    Lemma held_cases c s sup tr r e :
      SOLVE c s sup tr = Done _ _ r -> In e (held _ _ r) -> e = r_obj _ _ r.
    Proof.
      unfold solve_ctl.
      repeat match goal with
             | |- (if ?b then _ else _) = _ -> _ => destruct b eqn:?
             | |- match ?o with Some _ => _ | None => _ end = _ -> _ => destruct o eqn:?
             end; intro H; try discriminate; inversion H; subst; clear H;
        unfold held, caller_of, olist; cbn [r_caller r_returned r_obj r_same];
        destruct sup; try rewrite Hinplace;
        repeat match goal with |- context [if ?b then _ else _] => destruct b end;
        cbn; intuition.
    Qed.

    Theorem success_certifies_for c s sup tr r :
      pec_laws ->
      SOLVE c s sup tr = Done _ _ r ->
      (r_branch _ _ r = BKrylov -> krylov_contract c s tr /\ krylov_pec tr) ->
      r_exit _ _ r = 0 ->
      forall e, In e (held _ _ r) ->
        certified c s r e /\ error_describes r e /\ pec e = e.
    Proof.
      intros PL HS HK Hex e He. rewrite (held_cases _ _ _ _ _ _ HS He). clear He e.
      revert HS HK Hex. unfold solve_ctl.
      destruct (negb (c_ssl _ c) && negb (c_cycle _ c))%bool; [discriminate|].
      destruct (negb (s_has_freq _ s)); [discriminate|].
      match goal with |- (if ?b then _ else _) = _ -> _ => destruct b; [discriminate|] end.
      cbv zeta.
      destruct (zs_of num ltb tiny100 s) eqn:Z.
      { intro H; inversion H; subst; clear H. unfold certified, error_describes.
        cbn [r_branch r_obj r_l2 r_exit]. intros _ _. rewrite Hzl2.
        destruct PL as (_ & Hz & _). auto. }
      destruct (good_of num ltb mul nofZ fld resnorm zero pec c s sup) eqn:G.
      { intro H; inversion H; subst; clear H. unfold certified, error_describes.
        cbn [r_branch r_obj r_l2 r_exit]. intros _ _.
        split; [|split; [|now apply e0_pec]].
        - unfold good_of in G. destruct sup; [|discriminate]. exact G.
        - unfold good_of in G. destruct sup; [reflexivity|discriminate]. }
      destruct (c_ssl _ c) eqn:S.
      { destruct (KCTL c (s_norm _ s) (E0 sup) tr (kst0 num nofZ fld resnorm zero pec s sup))
          as [[x k]|] eqn:K; [|discriminate].
        intro H; inversion H; subst; clear H. unfold certified, error_describes.
        cbn [r_branch r_obj r_l2 r_exit r_msg fst snd]. intros HK Hex.
        destruct (HK eq_refl) as (Hc & Hp).
        destruct (krylov_ctl_spec _ _ _ _ _ _ _ K) as (Hl2 & _ & Hret).
        apply exit_status_conv in Hex. specialize (Hret Hex).
        split; [now apply Hc|]. split; [exact Hl2|]. eapply Hp; exact Hret. }
      { destruct (MGSOLVE c (s_norm _ s) (E0 sup) "" [s_norm _ s]) as [[x m] fin] eqn:M.
        cbn [fst snd]. destruct fin; [|discriminate].
        intro H; inversion H; subst; clear H. unfold certified, error_describes.
        cbn [r_branch r_obj r_l2 r_exit r_msg]. intros _ Hex.
        apply exit_status_conv in Hex. unfold mg_solve in M.
        destruct PL as (Hi & Hz & Hin & Hcy).
        destruct (mg_outer_spec (fun x => pec x = x) c (s_norm _ s) Hcy _ _ _ _ _ _
                    (Hin _ (e0_pec sup (conj Hi (conj Hz (conj Hin Hcy))))) M)
          as (Px & Hl2 & [[_ Hlt]|[Hbad _]]).
        - auto.
        - exfalso. apply failure_nonempty in Hbad. now destruct Hbad. }
    Qed.

    (* failure is reported: status is 0 or 1; status 1 comes with a non-empty message that is
       not CONVERGED; a held field that misses the tolerance forces status 1 *)
    Theorem failure_is_reported_for c s sup tr r :
      SOLVE c s sup tr = Done _ _ r ->
      (r_exit _ _ r = 0 \/ r_exit _ _ r = 1) /\
      (r_exit _ _ r = 1 -> r_msg _ _ r <> MSG_CONV /\ r_msg _ _ r <> "") /\
      (r_branch _ _ r = BMG -> r_exit _ _ r = 1 -> In (r_msg _ _ r) failure_messages).
    Proof.
      unfold solve_ctl.
      destruct (negb (c_ssl _ c) && negb (c_cycle _ c))%bool; [discriminate|].
      destruct (negb (s_has_freq _ s)); [discriminate|].
      match goal with |- (if ?b then _ else _) = _ -> _ => destruct b; [discriminate|] end.
      cbv zeta.
      destruct (zs_of num ltb tiny100 s).
      { intro H; inversion H; subst; clear H. cbn [r_branch r_exit r_msg].
        split; [apply exit_status_01|]. split; [|discriminate]. rewrite zero_msg. discriminate. }
      destruct (good_of num ltb mul nofZ fld resnorm zero pec c s sup).
      { intro H; inversion H; subst; clear H. cbn [r_branch r_exit r_msg].
        split; [apply exit_status_01|]. split; [|discriminate]. rewrite good_msg. discriminate. }
      destruct (c_ssl _ c).
      { destruct (KCTL c (s_norm _ s) (E0 sup) tr (kst0 num nofZ fld resnorm zero pec s sup))
          as [[x k]|] eqn:K; [|discriminate].
        intro H; inversion H; subst; clear H. cbn [r_branch r_exit r_msg fst snd].
        destruct (krylov_ctl_spec _ _ _ _ _ _ _ K) as (_ & Hne & _).
        split; [apply exit_status_01|]. split; [|discriminate].
        intro H1. split; [now apply exit_status_one|exact Hne]. }
      { destruct (MGSOLVE c (s_norm _ s) (E0 sup) "" [s_norm _ s]) as [[x m] fin] eqn:M.
        cbn [fst snd]. destruct fin; [|discriminate].
        intro H; inversion H; subst; clear H. cbn [r_branch r_exit r_msg].
        unfold mg_solve in M.
        destruct (mg_outer_spec (fun _ => True) c (s_norm _ s) (fun _ _ _ => I) _ _ _ _ _ _ I M)
          as (_ & _ & Hd).
        split; [apply exit_status_01|]. split.
        - intro H1. split; [now apply exit_status_one|].
          destruct Hd as [[Hc _]|[Hb _]]; [rewrite Hc; discriminate|].
          now apply failure_nonempty.
        - intros _ H1. destruct Hd as [[Hc _]|[Hb _]]; [|exact Hb].
          apply exit_status_one in H1. contradiction. }
    Qed.

    Lemma branch_krylov_ssl c s sup tr r :
      SOLVE c s sup tr = Done _ _ r -> r_branch _ _ r = BKrylov -> c_ssl _ c = true.
    Proof.
      unfold solve_ctl.
      destruct (negb (c_ssl _ c) && negb (c_cycle _ c))%bool; [discriminate|].
      destruct (negb (s_has_freq _ s)); [discriminate|].
      match goal with |- (if ?b then _ else _) = _ -> _ => destruct b; [discriminate|] end.
      cbv zeta.
      destruct (zs_of num ltb tiny100 s); [intro H; inversion H; subst; discriminate|].
      destruct (good_of num ltb mul nofZ fld resnorm zero pec c s sup);
        [intro H; inversion H; subst; discriminate|].
      destruct (c_ssl _ c); [reflexivity|].
      match goal with |- (if ?b then _ else _) = _ -> _ => destruct b; [|discriminate] end.
      intro H; inversion H; subst; discriminate.
    Qed.

    Theorem success_without_krylov_for c s sup tr r :
      pec_laws -> c_ssl _ c = false ->
      SOLVE c s sup tr = Done _ _ r -> r_exit _ _ r = 0 ->
      forall e, In e (held _ _ r) -> certified c s r e /\ error_describes r e /\ pec e = e.
    Proof.
      intros PL Hs HS. apply (success_certifies_for _ _ _ _ _ PL HS).
      intro HB. rewrite (branch_krylov_ssl _ _ _ _ _ HS HB) in Hs. discriminate.
    Qed.

    Theorem tolerance_missed_for c s sup tr r e :
      pec_laws ->
      SOLVE c s sup tr = Done _ _ r ->
      (r_branch _ _ r = BKrylov -> krylov_contract c s tr /\ krylov_pec tr) ->
      In e (held _ _ r) -> ~ certified c s r e ->
      r_exit _ _ r = 1 /\ r_msg _ _ r <> MSG_CONV /\ r_msg _ _ r <> "".
    Proof.
      intros PL HS HK He Hn.
      destruct (failure_is_reported_for _ _ _ _ _ HS) as ([H0|H1] & Hmsg & _).
      - exfalso. apply Hn. exact (proj1 (success_certifies_for _ _ _ _ _ PL HS HK H0 e He)).
      - split; [exact H1|]. now apply Hmsg.
    Qed.

    Theorem dtype_follows_source_for c s sup tr r :
      SOLVE c s sup tr = Done _ _ r -> r_complex _ _ r = s_complex _ s.
    Proof.
      unfold solve_ctl.
      destruct (negb (c_ssl _ c) && negb (c_cycle _ c))%bool; [discriminate|].
      destruct (negb (s_has_freq _ s)); [discriminate|].
      assert (T : forall b, (match sup with
                             | Some u => negb (Bool.eqb (u_complex _ u) (s_complex _ s))
                             | None => false end) = b -> b = false ->
                            tag0_of num fld s sup = s_complex _ s).
      { intros b Hb ->. destruct sup as [u|]; cbn [tag0_of]; [|reflexivity].
        apply negb_false_iff in Hb. now apply Bool.eqb_prop in Hb. }
      match goal with |- (if ?b then _ else _) = _ -> _ => destruct b eqn:D; [discriminate|] end.
      specialize (T false eq_refl eq_refl). cbv zeta.
      repeat match goal with
             | |- (if ?b then _ else _) = _ -> _ => destruct b
             | |- match ?o with Some _ => _ | None => _ end = _ -> _ => destruct o
             end; intro H; try discriminate; inversion H; subst; clear H; cbn [r_complex];
        try exact T; repeat match goal with |- context [if ?b then _ else _] => destruct b end;
        auto.
    Qed.
  End Variant.

  (* these two do not depend on the variant *)
  Theorem wrong_dtype_rejected c s u tr :
    (negb (c_ssl _ c) && negb (c_cycle _ c))%bool = false -> s_has_freq _ s = true ->
    u_complex _ u <> s_complex _ s ->
    SOLVE c s (Some u) tr = Err _ _ ErrDtype.
  Proof.
    intros H1 H2 H3. unfold solve_ctl. rewrite H1, H2. cbn [negb].
    destruct (Bool.eqb (u_complex _ u) (s_complex _ s)) eqn:E; [|reflexivity].
    apply Bool.eqb_prop in E. contradiction.
  Qed.

  Theorem mg_terminates_for (c : cfg) refe e0 msg errs :
    1 <= c_maxit _ c -> c_ssl _ c = false ->
    exists e' s', MGSOLVE c refe e0 msg errs = (e', s', true) /\ 1 <= m_it _ s' <= c_maxit _ c.
  Proof.
    intros Hm Hs. unfold mg_solve.
    destruct (mg_outer_terminates c refe Hs (Z.to_nat (c_maxit _ c)) 0%nat (mg_init e0)
                (mg_start num c (resnorm e0) 0 msg errs)) as (e' & s' & He & Hb).
    - lia. - cbn [mg_start m_it]. lia.
    - exists e', s'. split; [exact He|]. cbn [mg_start m_it] in Hb. lia.
  Qed.
End Proofs.
