(* Proofs/GSLineSweep.v -- the sweep schedule shared by the three line
   smoothers, as a pure model over an abstract line step
     step p q : T -> T        (p = node of the inner loop, q = of the outer loop)
   and what any such schedule preserves:
     sweeps_inv    single-run invariants,
     sweeps_rel3   three-run relations (used for linearity),
     sweeps_last   a property established by every step holds, after nu >= 1
                   sweeps, for the step executed LAST: (last_node nu n_in,
                   last_node nu n_out) -- sweeps 1,3,.. run backwards and end at
                   node 1, sweeps 2,4,.. run forwards and end at node n-1.
   The kernel files prove "generated kernel = sweeps (line step)". *)
From Coq Require Import ZArith Lia Bool.
From V Require Import Base.Loops.
Local Open Scope Z_scope.

Definition lnode (iback n ih : Z) : Z := if negb (iback =? 0) then n - ih else ih.
Definition last_line (nu n : Z) : Z := if Z.odd nu then 1 else n - 1.

Lemma lnode_range iback n ih : (iback = 0 \/ iback = 1) -> 1 <= ih < n -> 1 <= lnode iback n ih < n.
Proof. intros [->| ->] H; unfold lnode; cbn [Z.eqb negb]; lia. Qed.

Lemma last_line_range nu n : 2 <= n -> 1 <= last_line nu n < n.
Proof. unfold last_line. destruct (Z.odd nu); lia. Qed.

Lemma Zfold_rel2 {S1 S2} (R : S1 -> S2 -> Prop) lo hi (f : Z -> S1 -> S1) (g : Z -> S2 -> S2) s1 s2 :
  R s1 s2 -> (forall i a b, lo <= i < hi -> R a b -> R (f i a) (g i b)) ->
  R (Zfold lo hi f s1) (Zfold lo hi g s2).
Proof.
  intros H0 Hs. destruct (Z_le_gt_dec lo hi) as [Hle|Hgt].
  - apply (Zfold_ind (fun t s => R s (Zfold lo t g s2)) lo hi f s1 Hle).
    + now rewrite Zfold_empty by lia.
    + intros i s Hi Hr. rewrite (Zfold_snoc lo i) by lia. now apply Hs.
  - now rewrite !Zfold_empty by lia.
Qed.

Lemma Zfold_rel3' {S1 S2 S3} (R : S1 -> S2 -> S3 -> Prop) lo hi
      (f : Z -> S1 -> S1) (g : Z -> S2 -> S2) (h : Z -> S3 -> S3) s1 s2 s3 :
  R s1 s2 s3 ->
  (forall i a b c, lo <= i < hi -> R a b c -> R (f i a) (g i b) (h i c)) ->
  R (Zfold lo hi f s1) (Zfold lo hi g s2) (Zfold lo hi h s3).
Proof.
  intros H0 Hs. destruct (Z_le_gt_dec lo hi) as [Hle|Hgt].
  - apply (Zfold_ind (fun t s => R s (Zfold lo t g s2) (Zfold lo t h s3)) lo hi f s1 Hle).
    + now rewrite !Zfold_empty by lia.
    + intros i s Hi Hr. rewrite !(Zfold_snoc lo i) by lia. now apply Hs.
  - now rewrite !Zfold_empty by lia.
Qed.

Lemma Zfold_last' {St} lo hi (body : Z -> St -> St) s : lo < hi ->
  Zfold lo hi body s = body (hi - 1) (Zfold lo (hi - 1) body s).
Proof. intros H. replace hi with (hi - 1 + 1) at 1 by lia. apply Zfold_snoc. lia. Qed.

Section SweepModel.
  Context {T : Type}.
  Variables n_in n_out : Z.

  Definition inner (step : Z -> Z -> T -> T) (ib q : Z) (f : T) : T :=
    Zfold 1 n_in (fun ih f2 => step (lnode ib n_in ih) q f2) f.
  Definition sweep1 (step : Z -> Z -> T -> T) (ib : Z) (f : T) : T :=
    Zfold 1 n_out (fun oh f1 => inner step ib (lnode ib n_out oh) f1) f.
  Definition sweepsN (step : Z -> Z -> T -> T) (nu : Z) (f : T) : Z * T :=
    Zfold 0 nu (fun _ st => (1 - fst st, sweep1 step (1 - fst st) (snd st))) (0, f).
  Definition sweeps (step : Z -> Z -> T -> T) (nu : Z) (f : T) : T := snd (sweepsN step nu f).

  Lemma sweepsN_ib step k f : 0 <= k -> fst (sweepsN step k f) = k mod 2.
  Proof.
    intros Hk. unfold sweepsN.
    apply (Zfold_ind (fun t s => fst s = t mod 2) 0 k _ (0, f) Hk).
    - reflexivity.
    - intros i s Hi Hs. cbn [fst]. rewrite Hs.
      pose proof (Z.mod_pos_bound i 2 ltac:(lia)).
      rewrite (Z.div_mod i 2) at 2 by lia.
      replace (2 * (i / 2) + i mod 2 + 1) with ((i mod 2 + 1) + (i / 2) * 2) by lia.
      rewrite Z.mod_add by lia.
      assert (C : i mod 2 = 0 \/ i mod 2 = 1) by lia.
      destruct C as [-> | ->]; reflexivity.
  Qed.

  (* ---- single-run invariants ---------------------------------------------- *)
  Section Inv.
    Variable step : Z -> Z -> T -> T.
    Variable Q : T -> Prop.
    Hypothesis Q_step : forall p q f, 1 <= p < n_in -> 1 <= q < n_out -> Q f -> Q (step p q f).

    Lemma inner_inv ib q f : (ib = 0 \/ ib = 1) -> 1 <= q < n_out -> Q f -> Q (inner step ib q f).
    Proof.
      intros Hb Hq G. unfold inner. apply (Zfold_rel2 (fun a (_ : unit) => Q a) 1 n_in _ (fun _ u => u) f tt G).
      intros i a _ Hi Ha. apply Q_step; [apply lnode_range; assumption|assumption|assumption].
    Qed.
    Lemma sweep1_inv ib f : (ib = 0 \/ ib = 1) -> Q f -> Q (sweep1 step ib f).
    Proof.
      intros Hb G. unfold sweep1. apply (Zfold_rel2 (fun a (_ : unit) => Q a) 1 n_out _ (fun _ u => u) f tt G).
      intros i a _ Hi Ha. apply inner_inv; [assumption|apply lnode_range; assumption|assumption].
    Qed.
    Lemma sweepsN_inv nu f : Q f ->
      (fst (sweepsN step nu f) = 0 \/ fst (sweepsN step nu f) = 1) /\ Q (snd (sweepsN step nu f)).
    Proof.
      intros G. unfold sweepsN.
      apply (Zfold_rel2 (fun a (_ : unit) => (fst a = 0 \/ fst a = 1) /\ Q (snd a)) 0 nu _ (fun _ u => u) (0, f) tt).
      - split; [left; reflexivity|exact G].
      - intros i a _ _ [Hb Ha]. cbn [fst snd]. split; [lia|]. apply sweep1_inv; [lia|exact Ha].
    Qed.
    Lemma sweeps_inv nu f : Q f -> Q (sweeps step nu f).
    Proof. intros G. exact (proj2 (sweepsN_inv nu f G)). Qed.

    (* ---- the step executed last -------------------------------------------- *)
    Variable P : Z -> Z -> T -> Prop.
    Hypothesis P_step : forall p q f, 1 <= p < n_in -> 1 <= q < n_out -> Q f -> P p q (step p q f).

    Lemma inner_last ib q f : (ib = 0 \/ ib = 1) -> 2 <= n_in -> 1 <= q < n_out -> Q f ->
      P (lnode ib n_in (n_in - 1)) q (inner step ib q f).
    Proof.
      intros Hb Hn Hq G. unfold inner. rewrite Zfold_last' by lia.
      apply P_step; [apply lnode_range; [assumption|lia]|assumption|].
      apply (Zfold_rel2 (fun a (_ : unit) => Q a) 1 (n_in - 1) _ (fun _ u => u) f tt G).
      intros i a _ Hi Ha. apply Q_step; [apply lnode_range; [assumption|lia]|assumption|assumption].
    Qed.
    Lemma sweep1_last ib f : (ib = 0 \/ ib = 1) -> 2 <= n_in -> 2 <= n_out -> Q f ->
      P (lnode ib n_in (n_in - 1)) (lnode ib n_out (n_out - 1)) (sweep1 step ib f).
    Proof.
      intros Hb Hn Ho G. unfold sweep1. rewrite Zfold_last' by lia.
      apply inner_last; [assumption|assumption|apply lnode_range; [assumption|lia]|].
      apply (Zfold_rel2 (fun a (_ : unit) => Q a) 1 (n_out - 1) _ (fun _ u => u) f tt G).
      intros i a _ Hi Ha. apply inner_inv; [assumption|apply lnode_range; [assumption|lia]|assumption].
    Qed.

    Lemma lnode_last nu n : lnode (1 - (nu - 1) mod 2) n (n - 1) = last_line nu n.
    Proof.
      unfold lnode, last_line. rewrite (Zmod_odd (nu - 1)).
      replace (Z.odd nu) with (negb (Z.odd (nu - 1))).
      2:{ rewrite Z.negb_odd, <- Z.odd_succ. f_equal. lia. }
      destruct (Z.odd (nu - 1)).
      - change (1 - 1) with 0. cbn [Z.eqb negb]. reflexivity.
      - change (1 - 0) with 1. cbn [Z.eqb negb]. lia.
    Qed.

    Theorem sweeps_last nu f : 1 <= nu -> 2 <= n_in -> 2 <= n_out -> Q f ->
      P (last_line nu n_in) (last_line nu n_out) (sweeps step nu f).
    Proof.
      intros Hnu Hn Ho G. unfold sweeps, sweepsN. rewrite Zfold_last' by lia.
      fold (sweepsN step (nu - 1) f). cbn [snd].
      pose proof (sweepsN_ib step (nu - 1) f ltac:(lia)) as Hib.
      destruct (sweepsN_inv (nu - 1) f G) as [Hb G'].
      rewrite <- !lnode_last. rewrite <- Hib.
      apply sweep1_last; [lia|assumption|assumption|exact G'].
    Qed.
  End Inv.

  (* ---- three-run relations -------------------------------------------------- *)
  Section Rel3.
    Variables stepm step1 step2 : Z -> Z -> T -> T.
    Variable R : T -> T -> T -> Prop.
    Hypothesis R_step : forall p q fm f1 f2, 1 <= p < n_in -> 1 <= q < n_out -> R fm f1 f2 ->
      R (stepm p q fm) (step1 p q f1) (step2 p q f2).

    Lemma sweep1_rel3 ib fm f1 f2 : (ib = 0 \/ ib = 1) -> R fm f1 f2 ->
      R (sweep1 stepm ib fm) (sweep1 step1 ib f1) (sweep1 step2 ib f2).
    Proof.
      intros Hb G. unfold sweep1. apply Zfold_rel3'; [exact G|].
      intros i a b c Hi Hr. unfold inner. apply Zfold_rel3'; [exact Hr|].
      intros j a' b' c' Hj Hr'. apply R_step; [apply lnode_range; assumption|apply lnode_range; assumption|exact Hr'].
    Qed.

    Theorem sweeps_rel3 nu fm f1 f2 : R fm f1 f2 ->
      R (sweeps stepm nu fm) (sweeps step1 nu f1) (sweeps step2 nu f2).
    Proof.
      intros G. unfold sweeps, sweepsN.
      pose (R' := fun (a b c : Z * T) => (fst a = 0 \/ fst a = 1) /\ fst b = fst a /\ fst c = fst a /\
                                         R (snd a) (snd b) (snd c)).
      assert (H : R' (Zfold 0 nu (fun _ st => (1 - fst st, sweep1 stepm (1 - fst st) (snd st))) (0, fm))
                     (Zfold 0 nu (fun _ st => (1 - fst st, sweep1 step1 (1 - fst st) (snd st))) (0, f1))
                     (Zfold 0 nu (fun _ st => (1 - fst st, sweep1 step2 (1 - fst st) (snd st))) (0, f2))).
      { apply Zfold_rel3'.
        - unfold R'. cbn [fst snd]. repeat split; [left; reflexivity|exact G].
        - intros i a b c _ (Hb & E1 & E2 & Hr). unfold R'. cbn [fst snd]. rewrite E1, E2.
          repeat split; [lia|]. apply sweep1_rel3; [lia|exact Hr]. }
      exact (proj2 (proj2 (proj2 H))).
    Qed.
  End Rel3.
End SweepModel.

Print Assumptions sweeps_inv.
Print Assumptions sweeps_last.
Print Assumptions sweeps_rel3.
