(* Proofs/MGSem.v -- the multigrid cycle is a consistent iteration.

   For ANY cycle type, shape, semicoarsening / line-relaxation pattern and
   coarsening limit (i.e. every event list Model/Hierarchy.v can produce), one
   multigrid cycle returns an exact solution of the fine-grid system unchanged
   and leaves the source alone -- given the contracts of the four numerical
   operations, each of which is a theorem about the regenerated kernel in its
   own property (C03: a smoother leaves an exact solution unchanged; C04:
   restriction and prolongation are linear, so they map zero to zero / add
   nothing; C02: the residual of the zero field for a zero source is zero).
   Also: the cycle is a function (never gets stuck, stack balanced) for every
   field, exact or not. *)
From Coq Require Import ZArith List Bool Lia.
From V Require Import Gen.SolverHelpers Model.Hierarchy Model.MGSem.
Import ListNotations.
Local Open Scope Z_scope.

Lemma cons_mid {A} (a : A) x (p : A) y : a :: x ++ p :: y = ([a] ++ x ++ [p]) ++ y.
Proof. rewrite <- !app_assoc. reflexivity. Qed.

Section Fix.
  Variable fld : Type.
  Variable feq : fld -> fld -> Prop.
  Hypothesis feq_refl : forall a, feq a a.
  Hypothesis feq_sym : forall a b, feq a b -> feq b a.
  Hypothesis feq_trans : forall a b c, feq a b -> feq b c -> feq a c.
  Variable zero : fld.
  Variable smooth : Z -> Z -> Z -> fld -> fld -> fld.
  Variable resid : Z -> fld -> fld -> fld.
  Variable restr : Z -> Z -> fld -> fld.
  Variable prol : Z -> fld -> fld -> fld.

  (* e solves the level-l system with source s *)
  Definition exact (l : Z) (e s : fld) : Prop := feq (resid l s e) zero.

  Hypothesis smooth_fix : forall l clr k e s, exact l e s -> feq (smooth l clr k e s) e.
  Hypothesis exact_proper : forall l e e' s, feq e e' -> exact l e s -> exact l e' s.
  Hypothesis restr_zero : forall l csc r, feq r zero -> feq (restr l csc r) zero.
  Hypothesis coarse_zero_exact : forall l cs, feq cs zero -> exact l zero cs.
  Hypothesis prol_zero : forall l e ce, feq ce zero -> feq (prol l e ce) e.

  Notation run := (run fld zero smooth resid restr prol).

  (* [tr], executed on a stack whose top frame is exact at level l, returns to
     the same stack with a top field equal (feq) to the one it started from *)
  Definition fixes (l : Z) (tr : list ev) : Prop :=
    forall e s rest k, exact l e s ->
      exists e', feq e' e /\ run (tr ++ k) ((e, s) :: rest) = run k ((e', s) :: rest).

  Lemma fixes_nil l : fixes l [].
  Proof. intros e s rest k He. exists e. split; [apply feq_refl | reflexivity]. Qed.

  Lemma fixes_app l t1 t2 : fixes l t1 -> fixes l t2 -> fixes l (t1 ++ t2).
  Proof.
    intros H1 H2 e s rest k He.
    destruct (H1 e s rest (t2 ++ k) He) as [e1 [Q1 R1]].
    assert (He1 : exact l e1 s) by (apply (exact_proper l e e1 s); [apply feq_sym; exact Q1 | exact He]).
    destruct (H2 e1 s rest k He1) as [e2 [Q2 R2]].
    exists e2. split; [eapply feq_trans; eauto|].
    rewrite <- app_assoc. rewrite R1. exact R2.
  Qed.

  Lemma fixes_pre l s clr : fixes l [EPre l s clr].
  Proof.
    intros e src rest k He. exists (smooth l clr 0 e src).
    split; [apply smooth_fix; exact He | reflexivity].
  Qed.
  Lemma fixes_coarse l s clr : fixes l [ECoarse l s clr].
  Proof.
    intros e src rest k He. exists (smooth l clr 1 e src).
    split; [apply smooth_fix; exact He | reflexivity].
  Qed.
  Lemma fixes_post l s clr : fixes l [EPost l s clr].
  Proof.
    intros e src rest k He. exists (smooth l clr 2 e src).
    split; [apply smooth_fix; exact He | reflexivity].
  Qed.

  (* restrict; coarse-grid correction; prolong *)
  Lemma fixes_nest l l' csc sub : fixes l' sub ->
    fixes l ([ERestrict l csc] ++ sub ++ [EProlong l]).
  Proof.
    intros Hs e s rest k He.
    set (cs := restr l csc (resid l s e)).
    assert (Hcs : feq cs zero) by (apply restr_zero; exact He).
    destruct (Hs zero cs ((e, s) :: rest) ([EProlong l] ++ k) (coarse_zero_exact l' cs Hcs))
      as [ce [Qc Rc]].
    exists (prol l e ce). split; [apply prol_zero; exact Qc|].
    cbn [app run]. fold cs.
    rewrite <- app_assoc. rewrite Rc. reflexivity.
  Qed.

  Lemma fixes_pre_ev c l s : fixes l (pre_ev c l s).
  Proof. unfold pre_ev. destruct (pre_on c); [apply fixes_pre | apply fixes_nil]. Qed.
  Lemma fixes_post_ev c l s : fixes l (post_ev c l s).
  Proof. unfold post_ev. destruct (post_on c); [apply fixes_post | apply fixes_nil]. Qed.

  Lemma mg_body_fixes (rec : Z -> shape -> Z -> option (list ev)) c level s cycmax cy tr :
    (forall l' s' n t, rec l' s' n = Some t -> fixes l' t) ->
    mg_body rec c level s cycmax cy = Some tr -> fixes level tr.
  Proof.
    intros Hrec. unfold mg_body.
    destruct (level =? bottom c).
    - intros E. inversion E; subst. apply fixes_coarse.
    - destruct (rec (fst (mg_handover level cycmax cy)) (halve s (c_sc_of c s))
                    (snd (mg_handover level cycmax cy))) as [sub|] eqn:Er; [|discriminate].
      intros E. inversion E; subst. clear E.
      apply fixes_app; [apply fixes_pre_ev|].
      cbn [app].
      rewrite (cons_mid (ERestrict level (c_sc_of c s)) sub (EProlong level) (post_ev c level s)).
      apply fixes_app; [|apply fixes_post_ev].
      eapply fixes_nest. eapply Hrec. exact Er.
  Qed.

  Lemma opt_concat_fixes l (os : list (option (list ev))) tr :
    opt_concat os = Some tr ->
    (forall o, In o os -> forall t, o = Some t -> fixes l t) -> fixes l tr.
  Proof.
    revert tr. induction os as [|o os IH]; cbn [opt_concat]; intros tr E H.
    - inversion E; subst. apply fixes_nil.
    - destruct o as [x|]; [|discriminate].
      destruct (opt_concat os) as [y|] eqn:Ey; [|discriminate].
      inversion E; subst. apply fixes_app.
      + apply (H (Some x)); [left; reflexivity | reflexivity].
      + apply IH; [reflexivity|]. intros o Ho. apply H. right. exact Ho.
  Qed.

  Lemma mg_call_fixes fuel : forall c level s ncm tr,
    mg_call fuel c level s ncm = Some tr -> fixes level tr.
  Proof.
    induction fuel as [|f IH]; intros c level s ncm tr; cbn [mg_call]; [discriminate|].
    intros E. eapply opt_concat_fixes; [exact E|].
    intros o Ho t Et. apply in_map_iff in Ho. destruct Ho as [cy [Hcy _]]. subst o.
    eapply mg_body_fixes; [|exact Et].
    intros l' s' n t' Ht'. eapply IH. exact Ht'.
  Qed.

  Lemma fine_cycle_from_fixes c1 fuel c tr :
    fine_cycle_from c1 fuel c = Some tr -> fixes 0 tr.
  Proof.
    unfold fine_cycle_from. intros E. eapply mg_body_fixes; [|exact E].
    intros l' s' n t Ht. eapply mg_call_fixes. exact Ht.
  Qed.

  (* One multigrid cycle of ANY configuration leaves an exact fine-grid solution
     unchanged (and the source, and nothing else on the stack). *)
  Theorem mg_cycle_fixed_point c1 fuel c tr e s :
    fine_cycle_from c1 fuel c = Some tr -> exact 0 e s ->
    exists e', feq e' e /\ run tr [(e, s)] = Some [(e', s)].
  Proof.
    intros E He. destruct (fine_cycle_from_fixes c1 fuel c tr E e s [] [] He) as [e' [Q R]].
    exists e'. split; [exact Q|]. rewrite app_nil_r in R. exact R.
  Qed.

  (* ... hence any number of cycles, with directions that change from cycle to
     cycle (cfg_at), does so as well. *)
  Fixpoint run_cycles (trs : list (list ev)) (e s : fld) : option fld :=
    match trs with
    | [] => Some e
    | tr :: r => match run tr [(e, s)] with
                 | Some [(e', _)] => run_cycles r e' s
                 | _ => None
                 end
    end.

  Theorem mg_cycles_fixed_point (cfgs : list (cfg * cfg * nat)) trs e s :
    map (fun x => fine_cycle_from (fst (fst x)) (snd x) (snd (fst x))) cfgs = map Some trs ->
    exact 0 e s ->
    exists e', feq e' e /\ run_cycles trs e s = Some e'.
  Proof.
    revert trs e. induction cfgs as [|x cfgs IH]; intros trs e Hm He.
    - destruct trs; [|discriminate]. exists e. split; [apply feq_refl | reflexivity].
    - destruct trs as [|tr trs]; [discriminate|]. cbn [map] in Hm. inversion Hm as [[H1 H2]].
      destruct (mg_cycle_fixed_point _ _ _ _ e s H1 He) as [e1 [Q1 R1]].
      assert (He1 : exact 0 e1 s) by (apply (exact_proper 0 e e1 s); [apply feq_sym; exact Q1 | exact He]).
      destruct (IH trs e1 H2 He1) as [e2 [Q2 R2]].
      exists e2. split; [eapply feq_trans; eauto|].
      cbn [run_cycles]. rewrite R1. exact R2.
  Qed.
End Fix.

(* ---- the cycle is a total function of (field, source): never stuck, stack
        balanced, source untouched -- no contract needed ------------------- *)
Section Total.
  Variable fld : Type.
  Variable zero : fld.
  Variable smooth : Z -> Z -> Z -> fld -> fld -> fld.
  Variable resid : Z -> fld -> fld -> fld.
  Variable restr : Z -> Z -> fld -> fld.
  Variable prol : Z -> fld -> fld -> fld.
  Notation run := (run fld zero smooth resid restr prol).

  Definition balanced (tr : list ev) : Prop :=
    forall e s rest k, exists e', run (tr ++ k) ((e, s) :: rest) = run k ((e', s) :: rest).

  Lemma balanced_nil : balanced [].
  Proof. intros e s rest k. exists e. reflexivity. Qed.
  Lemma balanced_app t1 t2 : balanced t1 -> balanced t2 -> balanced (t1 ++ t2).
  Proof.
    intros H1 H2 e s rest k. destruct (H1 e s rest (t2 ++ k)) as [e1 R1].
    destruct (H2 e1 s rest k) as [e2 R2]. exists e2.
    rewrite <- app_assoc, R1. exact R2.
  Qed.
  Lemma balanced_nest l csc sub : balanced sub ->
    balanced ([ERestrict l csc] ++ sub ++ [EProlong l]).
  Proof.
    intros Hs e s rest k.
    destruct (Hs zero (restr l csc (resid l s e)) ((e, s) :: rest) ([EProlong l] ++ k)) as [ce Rc].
    exists (prol l e ce). cbn [app run]. rewrite <- app_assoc, Rc. reflexivity.
  Qed.

  Lemma mg_body_balanced (rec : Z -> shape -> Z -> option (list ev)) c level s cycmax cy tr :
    (forall l' s' n t, rec l' s' n = Some t -> balanced t) ->
    mg_body rec c level s cycmax cy = Some tr -> balanced tr.
  Proof.
    intros Hrec. unfold mg_body.
    destruct (level =? bottom c).
    - intros E. inversion E; subst. intros e src rest k. eexists. reflexivity.
    - destruct (rec (fst (mg_handover level cycmax cy)) (halve s (c_sc_of c s))
                    (snd (mg_handover level cycmax cy))) as [sub|] eqn:Er; [|discriminate].
      intros E. inversion E; subst. clear E.
      apply balanced_app.
      { unfold pre_ev. destruct (pre_on c); [|apply balanced_nil].
        intros e src rest k. eexists. reflexivity. }
      cbn [app].
      rewrite (cons_mid (ERestrict level (c_sc_of c s)) sub (EProlong level) (post_ev c level s)).
      apply balanced_app.
      { apply balanced_nest. eapply Hrec. exact Er. }
      unfold post_ev. destruct (post_on c); [|apply balanced_nil].
      intros e src rest k. eexists. reflexivity.
  Qed.

  Lemma opt_concat_balanced (os : list (option (list ev))) tr :
    opt_concat os = Some tr ->
    (forall o, In o os -> forall t, o = Some t -> balanced t) -> balanced tr.
  Proof.
    revert tr. induction os as [|o os IH]; cbn [opt_concat]; intros tr E H.
    - inversion E; subst. apply balanced_nil.
    - destruct o as [x|]; [|discriminate].
      destruct (opt_concat os) as [y|] eqn:Ey; [|discriminate].
      inversion E; subst. apply balanced_app.
      + apply (H (Some x)); [left; reflexivity | reflexivity].
      + apply IH; [reflexivity|]. intros o Ho. apply H. right. exact Ho.
  Qed.

  Lemma mg_call_balanced fuel : forall c level s ncm tr,
    mg_call fuel c level s ncm = Some tr -> balanced tr.
  Proof.
    induction fuel as [|f IH]; intros c level s ncm tr; cbn [mg_call]; [discriminate|].
    intros E. eapply opt_concat_balanced; [exact E|].
    intros o Ho t Et. apply in_map_iff in Ho. destruct Ho as [cy [Hcy _]]. subst o.
    eapply mg_body_balanced; [|exact Et].
    intros l' s' n t' Ht'. eapply IH. exact Ht'.
  Qed.

  Theorem mg_cycle_total c1 fuel c tr e s :
    fine_cycle_from c1 fuel c = Some tr ->
    exists e', run tr [(e, s)] = Some [(e', s)].
  Proof.
    unfold fine_cycle_from. intros E.
    assert (B : balanced tr).
    { eapply mg_body_balanced; [|exact E]. intros l' s' n t Ht. eapply mg_call_balanced. exact Ht. }
    destruct (B e s [] []) as [e' R]. exists e'. rewrite app_nil_r in R. exact R.
  Qed.
End Total.

(* ---- non-vacuity: a concrete instance that satisfies all five contracts and
        on which an inexact field IS changed by the cycle --------------------- *)
Section Toy.
  (* one unknown per level, A = 1: residual s - e; "smoother" = exact solve;
     restriction = identity; prolongation adds the correction *)
  Definition t_smooth (l clr k e s : Z) : Z := e + (s - e).
  Definition t_resid (l s e : Z) : Z := s - e.
  Definition t_restr (l csc r : Z) : Z := r.
  Definition t_prol (l e ce : Z) : Z := e + ce.
  Definition t_cfg : cfg :=
    {| cyc := 70; sc := 0; lr := 0; user := -1; pre_on := true; post_on := true;
       shape0 := (8, 8, 4) |}.

  Example toy_contracts :
    (forall l clr k e s, t_resid l s e = 0 -> t_smooth l clr k e s = e) /\
    (forall l csc r, r = 0 -> t_restr l csc r = 0) /\
    (forall l cs, cs = 0 -> t_resid l cs 0 = 0) /\
    (forall l e ce, ce = 0 -> t_prol l e ce = e).
  Proof. unfold t_smooth, t_resid, t_restr, t_prol. repeat split; intros; lia. Qed.

  (* the F-cycle on 8x8x4 has three levels; exact field 5 for source 5 stays,
     the inexact field 3 is moved (to the solution) *)
  Example toy_cycle_runs :
    cycle_result Z 0 t_smooth t_resid t_restr t_prol t_cfg (fuel_for t_cfg) t_cfg 5 5 = Some [(5, 5)] /\
    cycle_result Z 0 t_smooth t_resid t_restr t_prol t_cfg (fuel_for t_cfg) t_cfg 3 5 = Some [(5, 5)] /\
    option_map (@length ev) (fine_cycle (fuel_for t_cfg) t_cfg) = Some 14%nat.
  Proof. vm_compute. repeat split. Qed.
End Toy.
