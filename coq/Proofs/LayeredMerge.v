(* Proofs/LayeredMerge.v -- C19: the `merge=True` branch of Model.extract_1d.
   (1) When the sentinel test keeps layer 0, merging preserves the depth
       profile: the merged layer that covers cell k holds the value of cell k.
   (2) The sentinel -1 of `np.r_[-1, v]` makes the test fail for a model whose
       top layer stores -1 (log maps): the layer is dropped -- refutation
       witness, evaluated on the executable instance. *)
From Coq Require Import ZArith Bool List String Reals Lra Lia QArith.
From V Require Import Base.FieldSig Base.ExecQ Model.Layered Proofs.Layered.
Import ListNotations.

Section Merge.
  Local Open Scope R_scope.

  Lemma LRleb_true x y : LRleb x y = true <-> x <= y.
  Proof. unfold LRleb. destruct (Rle_dec x y); split; intros; auto; discriminate. Qed.
  Lemma nonzero_false x : nonzero LRleb x = false -> x = 0.
  Proof.
    unfold nonzero. rsimp. intros H. apply negb_false_iff in H.
    apply andb_true_iff in H. destruct H as [A B].
    apply LRleb_true in A. apply LRleb_true in B. lra.
  Qed.
  Lemma fabs_nonneg x : 0 <= fabs LRleb x.
  Proof.
    unfold fabs. rsimp. destruct (LRleb 0 x) eqn:E.
    - now apply LRleb_true.
    - assert (~ 0 <= x) by (intros H; apply LRleb_true in H; congruence). lra.
  Qed.
  Lemma fabs_zero x : fabs LRleb x = 0 -> x = 0.
  Proof. unfold fabs. rsimp. destruct (LRleb 0 x); lra. Qed.

  Lemma sumL_cons' (x : R) l : @sumL R LROps (x :: l) = x + sumL l.
  Proof. reflexivity. Qed.
  Lemma sumL_nonneg l : (forall x, In x l -> 0 <= x) -> 0 <= @sumL R LROps l.
  Proof.
    induction l as [|a t IH]; intros H; [cbn; rsimp; lra|].
    rewrite sumL_cons'. assert (0 <= a) by (apply H; now left).
    assert (0 <= sumL t) by (apply IH; intros; apply H; now right). lra.
  Qed.

  (* a vanishing sum of absolute differences: every property repeats its
     previous value *)
  Lemma mdiff_zero vals k v : mdiff LRleb vals k = 0 -> In v vals ->
    nth k v 0 = prevv v k.
  Proof.
    unfold mdiff. induction vals as [|w t IH]; intros H Hin; [destruct Hin|].
    cbn [map] in H. rewrite sumL_cons' in H.
    pose proof (fabs_nonneg (nth k w 0 - prevv w k)) as A.
    assert (B : 0 <= @sumL R LROps (map (fun v0 => fabs LRleb (nth k v0 0 - prevv v0 k)%F) t)).
    { apply sumL_nonneg. intros x Hx. apply in_map_iff in Hx. destruct Hx as (u & <- & _).
      apply fabs_nonneg. }
    rsimp. destruct Hin as [->|Hin].
    - assert (Z0 : fabs LRleb (nth k v 0 - prevv v k) = 0) by lra.
      apply fabs_zero in Z0. lra.
    - apply IH; auto. lra.
  Qed.

  Lemma merge_ind_S vals n :
    merge_ind LRleb (Datatypes.S n) vals =
    merge_ind LRleb n vals ++ (if merge_keep LRleb vals n then [n] else []).
  Proof. unfold merge_ind. rewrite seq_S, filter_app. reflexivity. Qed.

  (* cell k and the last kept layer at or above it hold the same value *)
  Lemma last_kept vals v : In v vals -> forall k,
    merge_ind LRleb (Datatypes.S k) vals <> [] /\
    nth (last (merge_ind LRleb (Datatypes.S k) vals) 0%nat) v 0 = nth k v 0.
  Proof.
    intros Hin. induction k as [|k [IHn IHv]].
    - rewrite merge_ind_S. cbn [merge_ind seq filter app merge_keep].
      split; [discriminate|reflexivity].
    - rewrite merge_ind_S. destruct (merge_keep LRleb vals (Datatypes.S k)) eqn:E.
      + split; [intros C; apply app_eq_nil in C; destruct C; discriminate|].
        now rewrite last_last.
      + rewrite app_nil_r. split; [exact IHn|]. rewrite IHv.
        cbn [merge_keep] in E. apply nonzero_false in E. symmetry.
        exact (mdiff_zero vals (Datatypes.S k) v E Hin).
  Qed.

  Lemma merge_ind_prefix vals k nz : (k < nz)%nat ->
    exists rest, merge_ind LRleb nz vals = merge_ind LRleb (Datatypes.S k) vals ++ rest.
  Proof.
    intros H. unfold merge_ind.
    assert (E : seq 0 nz = seq 0 (Datatypes.S k) ++ seq (Datatypes.S k) (nz - Datatypes.S k)).
    { change (Datatypes.S k) with (0 + Datatypes.S k)%nat at 2.
      rewrite <- (seq_app (Datatypes.S k) (nz - Datatypes.S k) 0). f_equal. lia. }
    rewrite E, filter_app. eexists. reflexivity.
  Qed.

  Lemma last_nth (l : list nat) d : l <> [] -> last l d = nth (List.length l - 1) l d.
  Proof.
    induction l as [|a t IH]; [congruence|]. intros _. destruct t as [|b t']; [reflexivity|].
    change (last (a :: b :: t') d) with (last (b :: t') d). rewrite IH by discriminate.
    cbn [List.length]. rewrite !Nat.sub_succ, !Nat.sub_0_r. reflexivity.
  Qed.

  (* merge preserves the profile: the merged layer of rank
     r = #(kept layers among 0..k) - 1 holds the value of cell k *)
  Lemma merge_profile vals nz v k :
    In v vals -> (k < nz)%nat ->
    let ind := merge_ind LRleb nz vals in
    let r := (List.length (merge_ind LRleb (Datatypes.S k) vals) - 1)%nat in
    nth r (take_ind ind v) 0 = nth k v 0.
  Proof.
    intros Hin Hk ind r.
    destruct (last_kept vals v Hin k) as [Hne Hv].
    destruct (merge_ind_prefix vals k nz Hk) as [rest Hp].
    assert (Hr : (r < List.length (merge_ind LRleb (Datatypes.S k) vals))%nat).
    { subst r. destruct (merge_ind LRleb (Datatypes.S k) vals); [congruence|cbn; lia]. }
    unfold take_ind. subst ind. rewrite Hp.
    set (f := fun k0 : nat => nth k0 v 0).
    rewrite (nth_indep _ 0 (f 0%nat)) by (rewrite map_length, app_length; lia).
    rewrite (map_nth f). rewrite app_nth1 by exact Hr.
    rewrite <- Hv. unfold f. f_equal. subst r. symmetry. now apply last_nth.
  Qed.

  (* the first kept index is 0, whatever the values *)
  Lemma merge_ind_head vals nz : (0 < nz)%nat ->
    exists rest, merge_ind LRleb nz vals = 0%nat :: rest.
  Proof.
    intros H. destruct nz as [|n]; [lia|]. unfold merge_ind.
    cbn [seq filter merge_keep]. eexists. reflexivity.
  Qed.

  (* interfaces: np.diff of the kept nodes, cumulated again from the first
     kept node, gives back the kept nodes (telescoping) *)
  Lemma cumsum_diffs : forall (l : list R) a, @cumsum R LROps a (@diffs R LROps (a :: l)) = l.
  Proof.
    induction l as [|b t IH]; intros a; [reflexivity|].
    cbn [diffs cumsum]. rsimp. replace (a + (b - a)) with b by lra.
    f_equal. apply IH.
  Qed.
  (* the nodes of the merged 1D grid are the original nodes at the kept
     indices (minus the first, which is the origin) plus the bottom node *)
  Lemma merged_nodes (g : @grid R) vals : (0 < g_nz g)%Z ->
    exists rest, merge_ind LRleb (Z.to_nat (g_nz g)) vals = 0%nat :: rest /\
      @cumsum R LROps (g_z0 g) (merge_hz g (merge_ind LRleb (Z.to_nat (g_nz g)) vals))
      = map (fun k => node (g_z0 g) (g_hz g) (Z.of_nat k)) rest ++ [node (g_z0 g) (g_hz g) (g_nz g)].
  Proof.
    intros H. destruct (merge_ind_head vals (Z.to_nat (g_nz g)) ltac:(lia)) as [rest E].
    exists rest. split; [exact E|]. rewrite E. unfold merge_hz. cbn [map app].
    assert (N0 : node (g_z0 g) (g_hz g) (Z.of_nat 0) = g_z0 g).
    { unfold node, zsum. cbn. rsimp. lra. }
    rewrite N0. apply cumsum_diffs.
  Qed.
End Merge.

(* ---- the UNFIXED variants (code as found, before the repairs) -------------- *)
Definition wit_grid : @grid Q :=
  {| g_nx := 1; g_ny := 1; g_nz := 2; g_x0 := 0%Q; g_y0 := 0%Q; g_z0 := 0%Q;
     g_hx := fun _ => 1%Q; g_hy := fun _ => 1%Q;
     g_hz := fun k => if Z.eqb k 0 then 1%Q else 2%Q |}.
(* a log-map column: top layer stores -1 (e.g. log10 of 0.1 S/m), below 1/2 *)
Definition wit_prop : Z -> Z -> Z -> Q :=
  fun _ _ k => if Z.eqb k 0 then (-1 # 1)%Q else (1 # 2)%Q.
Definition wit_ext (merge : bool) : @ext Q :=
  extract_core Qle_bool (fun x => x) (fun x => x) wit_grid true merge XMid
               (fun _ _ => false) (0%Q, 0%Q) (0%Q, 0%Q) [wit_prop].

(* the np.r_[-1, v] sentinel drops the top layer; the repaired test keeps it *)
Lemma merge_witness :
  ~ ((-1 # 1) == (1 # 2))%Q /\
  merge_ind_unfixed Qle_bool 2 [[(-1 # 1)%Q; (1 # 2)%Q]] = [1%nat] /\
  merge_ind Qle_bool 2 [[(-1 # 1)%Q; (1 # 2)%Q]] = [0%nat; 1%nat] /\
  e_props (wit_ext true) = [[(-1 # 1)%Q; (1 # 2)%Q]] /\
  e_hz (wit_ext true) = [1%Q; 2%Q].
Proof.
  split; [|vm_compute; repeat split; reflexivity].
  vm_compute. discriminate.
Qed.

(* rec.center instead of rec.center_abs(src): a relative receiver *)
Lemma relative_witness :
  rec_abs ((1 # 1)%Q, (2 # 1)%Q, (3 # 1)%Q) (true, ((10 # 1)%Q, 0%Q, 0%Q))
    = ((11 # 1)%Q, (2 # 1)%Q, (3 # 1)%Q) /\
  rec_abs_unfixed ((1 # 1)%Q, (2 # 1)%Q, (3 # 1)%Q) (true, ((10 # 1)%Q, 0%Q, 0%Q))
    = ((10 # 1)%Q, 0%Q, 0%Q).
Proof. vm_compute. split; reflexivity. Qed.

(* ---- small executable instances used by the non-vacuity Examples ---------- *)
Definition ex_grid : @grid Q :=
  {| g_nx := 2; g_ny := 1; g_nz := 2; g_x0 := 0%Q; g_y0 := 0%Q; g_z0 := 0%Q;
     g_hx := fun _ => 1%Q; g_hy := fun _ => 1%Q; g_hz := fun _ => 1%Q |}.
(* laterally varying in layer 1: columns 0 and 1 differ *)
Definition ex_prop : Z -> Z -> Z -> Q :=
  fun i _ k => if Z.eqb k 0 then 1%Q else if Z.eqb i 0 then 2%Q else 3%Q.
Definition ex_id (x : Q) : Q := x.
Definition ex_nomask (p0 p1 : Q * Q) (i j : Z) : bool := false.
(* symbolic oracle: remembers receiver, layers and frequency *)
Definition ex_bip (i : nat) (q : @pt3 Q) (d ch : list Q) (cv ep mp : option (list Q)) (fs : list Q)
  : list (nat * @pt3 Q * list Q * Q) := map (fun f => (i, q, ch, f)) fs.
(* numeric oracle: response = sum of the layer conductivities *)
Definition ex_bipc (i : nat) (q : @pt3 Q) (d ch : list Q) (cv ep mp : option (list Q)) (fs : list Q)
  : list (Q * Q) := map (fun _ => (fold_right Qplus 0%Q ch, 0%Q)) fs.
Definition ex_fwd :=
  layered_fwd Qle_bool ex_id ex_id _ ex_grid true ex_id [ex_prop] false false false ex_nomask
              "receiver"%string false false (1%Q, 0%Q, 0%Q) [1%Q; 2%Q] ex_bip
              [(true, ((-1 # 2)%Q, (1 # 2)%Q, 0%Q)); (false, ((3 # 2)%Q, (1 # 2)%Q, 0%Q))]
              (Some [[true; false]; [false; false]]).
Definition ex_grad :=
  layered_grad Qle_bool ex_id ex_id ex_grid true ex_id [ex_prop] false false false ex_nomask
               "receiver"%string false (0%Q, 0%Q, 0%Q) [1%Q] ex_bipc
               (Some [((false, ((3 # 2)%Q, (1 # 2)%Q, 0%Q)), [true], [(0%Q, 0%Q)], [1%Q], [(1%Q, 0%Q)])]).
(* layer sums over x,y of out[0] *)
Definition ex_grad_sums : list Q :=
  match ex_grad with
  | inr (o0, _) => map (fun k => Qred (@zsum2 Q QOps 2 1 (fun i j => o0 i j k))) [0%Z; 1%Z]
  | inl _ => []
  end.

Lemma ex_fwd_value :
  ex_fwd = inr [[Some (0%nat, ((1 # 2)%Q, (1 # 2)%Q, 0%Q), [1%Q; 2%Q], 1%Q); None]; [None; None]].
Proof. vm_compute. reflexivity. Qed.

(* gradient branch on a homogeneous column with layered_opts merge=True: the
   code as found extracts ONE merged layer (gradient of length 1 for a model
   with 2 layers); the repaired branch extracts without merge *)
Definition ex_hom : Z -> Z -> Z -> Q := fun _ _ _ => 1%Q.
Definition ex_gh_len (gmerge : bool) : option nat :=
  match grad_rec Qle_bool ex_id ex_id ex_grid true ex_id [ex_hom] false false false ex_nomask
                 "receiver"%string false (0%Q, 0%Q, 0%Q) [1%Q] ex_bipc gmerge 0%nat
                 ((false, ((3 # 2)%Q, (1 # 2)%Q, 0%Q)), [true], [(0%Q, 0%Q)], [1%Q], [(1%Q, 0%Q)]) with
  | inr (Some (_, gh, _)) => Some (List.length gh)
  | _ => None
  end.
Lemma merge_gradient_witness :
  g_nz ex_grid = 2%Z /\ ex_gh_len true = Some 1%nat /\ ex_gh_len false = Some 2%nat.
Proof. vm_compute. repeat split; reflexivity. Qed.
(* receiver 0 sits in column 1 (layers 1, 3): response 4, misfit 1/2; bumping layer k by
   delta = cond_k/10000 gives ((4 + delta)^2 - 1)/2 ... the sums are the two quotients *)
Lemma ex_grad_value : List.length ex_grad_sums = 2%nat /\
  Forall (fun q => ~ (q == 0)%Q) ex_grad_sums.
Proof.
  split; [vm_compute; reflexivity|].
  vm_compute. repeat constructor; discriminate.
Qed.

(* the hypotheses of the theorems over R are satisfiable *)
Definition exR_grid : @grid R :=
  {| g_nx := 2; g_ny := 3; g_nz := 2; g_x0 := 0%R; g_y0 := 0%R; g_z0 := 0%R;
     g_hx := fun _ => 1%R; g_hy := fun _ => 2%R; g_hz := fun _ => 1%R |}.
Lemma exR_grid_ok :
  (1 <= g_nx exR_grid)%Z /\ (1 <= g_ny exR_grid)%Z /\
  (forall i, (0 <= i < g_nx exR_grid)%Z -> (0 < g_hx exR_grid i)%R) /\
  (forall j, (0 <= j < g_ny exR_grid)%Z -> (0 < g_hy exR_grid j)%R).
Proof. cbn. repeat split; try lia; intros; lra. Qed.
Lemma exR_lat_inv :
  lat_inv_all exR_grid false [fun _ _ k => (IZR k + 1)%R] [fun k => (IZR k + 1)%R].
Proof.
  constructor; [|constructor]. intros k Hk. split; [reflexivity|].
  intros _. assert (0 <= IZR k)%R by (apply IZR_le; lia). lra.
Qed.

(* a history on one model: extract, write layer 1 of the column in place, extract again *)
Definition ex_hist : list (list (list Q)) :=
  map (fun r => match r with inr e => e_props e | inl _ => [] end)
      (run_hist (fun props => inr (extract_core Qle_bool (fun x => x) (fun x => x) wit_grid true false XMid
                                                (fun _ _ => false) (0%Q, 0%Q) (0%Q, 0%Q) props))
                [wit_prop] [HExtract; HEdit 0%nat 0%Z 0%Z 1%Z (3 # 1)%Q; HExtract]).
Lemma ex_hist_value :
  ex_hist = [[[(-1 # 1)%Q; (1 # 2)%Q]]; [[(-1 # 1)%Q; (3 # 1)%Q]]].
Proof. vm_compute. reflexivity. Qed.
